import AtreeProofs.Array.MetaLemmas
/-
  Replacing a group of sibling subtrees by another group (`Repl`): what it does to the leaf chain,
  to the slab IDs and to the owner address; and the depth-uniform specifications of
  `ATree.{split,merge,lendToRight,borrowFromRight}`.
-/
namespace Atree
open Gen ATree MetaSlab

/-- Replacing siblings `X` by `X'` while the allocation counter goes from `c` to `c'`. -/
structure Repl (d : Nat) (X X' : List (ATree d)) (c c' : Nat) : Prop where
  chain : ChainPres (X.flatMap (Arr.leaves d)) (X'.flatMap (Arr.leaves d))
  ids : ∀ addr, IdsOk addr c (X.flatMap (slabIds d)) →
    IdsOk addr c' (X'.flatMap (slabIds d)) ∧
      ∀ id ∈ X'.flatMap (slabIds d), id ∈ X.flatMap (slabIds d) ∨ c < id.idx
  addr : ∀ a, (∀ t ∈ X, (hdr d t).id.addr = a) → ∀ t ∈ X', (hdr d t).id.addr = a
  ctr : c ≤ c'

namespace Repl
variable {d : Nat}

theorem refl (X : List (ATree d)) (c : Nat) : Repl d X X c c :=
  ⟨ChainPres.refl _, fun _ h => ⟨h, fun _ hid => Or.inl hid⟩, fun _ h => h, Nat.le_refl _⟩

theorem trans {X X' X'' : List (ATree d)} {c c' c'' : Nat} (h1 : Repl d X X' c c')
    (h2 : Repl d X' X'' c' c'') : Repl d X X'' c c'' := by
  refine ⟨h1.chain.trans h2.chain, ?_, fun a h => h2.addr a (h1.addr a h), Nat.le_trans h1.ctr h2.ctr⟩
  intro addr h
  obtain ⟨a1, a2⟩ := h1.ids addr h
  obtain ⟨b1, b2⟩ := h2.ids addr a1
  refine ⟨b1, fun id hid => ?_⟩
  rcases b2 id hid with h3 | h3
  · rcases a2 id h3 with h4 | h4
    · exact Or.inl h4
    · exact Or.inr h4
  · exact Or.inr (Nat.lt_of_le_of_lt h1.ctr h3)

theorem mono_left {X X' : List (ATree d)} {c0 c c' : Nat} (h : Repl d X X' c c') (h0 : c0 ≤ c) :
    Repl d X X' c0 c' := by
  refine ⟨h.chain, ?_, h.addr, Nat.le_trans h0 h.ctr⟩
  intro addr hx
  obtain ⟨a1, a2⟩ := h.ids addr (hx.mono h0)
  refine ⟨a1, fun id hid => ?_⟩
  rcases a2 id hid with h3 | h3
  · exact Or.inl h3
  · exact Or.inr (Nat.lt_of_le_of_lt h0 h3)

theorem ctx {X X' : List (ATree d)} {c c' : Nat} (h : Repl d X X' c c') (A B : List (ATree d)) :
    Repl d (A ++ X ++ B) (A ++ X' ++ B) c c' := by
  refine ⟨?_, ?_, ?_, h.ctr⟩
  · simp only [List.flatMap_append]
    exact h.chain.ctx _ _
  · intro addr hx
    simp only [List.flatMap_append] at hx ⊢
    obtain ⟨a1, a2⟩ := h.ids addr hx.sub_append_left.sub_append_right
    refine ⟨hx.replace_mid a1 a2 h.ctr, ?_⟩
    intro id hid
    simp only [List.mem_append] at hid ⊢
    rcases hid with (hid | hid) | hid
    · exact Or.inl (Or.inl (Or.inl hid))
    · rcases a2 id hid with h3 | h3
      · exact Or.inl (Or.inl (Or.inr h3))
      · exact Or.inr h3
    · exact Or.inl (Or.inr hid)
  · intro a ha t ht
    simp only [List.mem_append] at ht ha
    rcases ht with (ht | ht) | ht
    · exact ha t (Or.inl (Or.inl ht))
    · exact h.addr a (fun t ht => ha t (Or.inl (Or.inr ht))) t ht
    · exact ha t (Or.inr ht)

/-- From the children of an index slab to the index slab itself (its own ID is kept). -/
theorem lift {m m' : MetaSlab (ATree d)} {c c' : Nat} (h : Repl d m.children m'.children c c')
    (hid : m'.hdr.id = m.hdr.id) : Repl (d + 1) [ofMeta m] [ofMeta m'] c c' := by
  refine ⟨?_, ?_, ?_, h.ctr⟩
  · simpa using h.chain
  · intro addr hx
    simp only [List.flatMap_cons, List.flatMap_nil, List.append_nil, slabIds_succ] at hx ⊢
    have hx' : IdsOk addr c ([m.hdr.id] ++ m.children.flatMap (slabIds d) ++ []) := by simpa using hx
    obtain ⟨a1, a2⟩ := h.ids addr hx'.sub_append_left.sub_append_right
    have := hx'.replace_mid a1 a2 h.ctr
    rw [hid]
    refine ⟨by simpa using this, ?_⟩
    intro id hmem
    simp only [List.mem_cons] at hmem ⊢
    rcases hmem with hmem | hmem
    · exact Or.inl (Or.inl hmem)
    · rcases a2 id hmem with h3 | h3
      · exact Or.inl (Or.inr h3)
      · exact Or.inr h3
  · intro a ha t ht
    simp only [List.mem_singleton] at ht
    rw [ht, hdr_succ, hid]
    exact ha (ofMeta m) (by simp)

/-- `X'` reuses IDs of `X` only (merge, rebalance). -/
theorem of_subset {X X' : List (ATree d)} (c : Nat)
    (hchain : ChainPres (X.flatMap (Arr.leaves d)) (X'.flatMap (Arr.leaves d)))
    (hnd : (X.flatMap (slabIds d)).Nodup → (X'.flatMap (slabIds d)).Nodup)
    (hsub : ∀ id ∈ X'.flatMap (slabIds d), id ∈ X.flatMap (slabIds d))
    (haddr : ∀ a, (∀ t ∈ X, (hdr d t).id.addr = a) → ∀ t ∈ X', (hdr d t).id.addr = a) :
    Repl d X X' c c :=
  ⟨hchain, fun _ h => ⟨⟨hnd h.1, fun id hid => h.2 id (hsub id hid)⟩, fun id hid => Or.inl (hsub id hid)⟩,
    haddr, Nat.le_refl _⟩

/-- `X'` uses the IDs of `X` and one fresh ID (split). -/
theorem of_fresh {X X' : List (ATree d)} (c : Nat) (a : Nat)
    (hchain : ChainPres (X.flatMap (Arr.leaves d)) (X'.flatMap (Arr.leaves d)))
    (hperm : (X'.flatMap (slabIds d)).Perm (⟨a, c + 1⟩ :: X.flatMap (slabIds d)))
    (ha : ∃ id ∈ X.flatMap (slabIds d), id.addr = a)
    (haddr : ∀ a, (∀ t ∈ X, (hdr d t).id.addr = a) → ∀ t ∈ X', (hdr d t).id.addr = a) :
    Repl d X X' c (c + 1) := by
  refine ⟨hchain, ?_, haddr, Nat.le_succ _⟩
  intro addr hx
  obtain ⟨id0, hid0, hid0a⟩ := ha
  have haddr0 : a = addr := by rw [← hid0a]; exact (hx.2 id0 hid0).1
  refine ⟨IdsOk.of_perm ?_ hperm, ?_⟩
  · refine ⟨List.nodup_cons.2 ⟨?_, hx.1⟩, ?_⟩
    · intro hmem
      have := (hx.2 _ hmem).2.2
      simp only at this
      omega
    · intro id hid
      simp only [List.mem_cons] at hid
      rcases hid with hid | hid
      · subst hid; exact ⟨haddr0, by simp, by simp⟩
      · exact (hx.mono (Nat.le_succ c)).2 id hid
  · intro id hid
    have := hperm.mem_iff.1 hid
    simp only [List.mem_cons] at this
    rcases this with h | h
    · right; rw [h]; simp
    · exact Or.inl h

end Repl

theorem perm_move {α : Type} (a : α) (K1 K2 R : List α) :
    (K1 ++ a :: (K2 ++ R)).Perm ((K1 ++ K2) ++ a :: R) := by
  have h1 : (K1 ++ a :: (K2 ++ R)).Perm (a :: (K1 ++ (K2 ++ R))) := List.perm_middle
  have h2 : ((K1 ++ K2) ++ a :: R).Perm (a :: ((K1 ++ K2) ++ R)) := List.perm_middle
  rw [List.append_assoc K1 K2 R] at h2
  exact h1.trans h2.symm

/-! ### isFull / isUnderflow -/

theorem isFull_iff (T : Nat) : ∀ (d : Nat) (t : ATree d),
    ATree.isFull T d t = true ↔ maxThr T < (hdr d t).size
  | 0, t => by
    refine forall_ofData ?_ t; intro s
    show decide (s.hdr.size > maxThr T) = true ↔ _
    simp
  | d + 1, t => by
    refine forall_ofMeta ?_ t; intro m
    show decide (m.hdr.size > maxThr T) = true ↔ _
    simp

theorem isUnderflow_some (T : Nat) : ∀ (d : Nat) (t : ATree d), (hdr d t).size < minThr T →
    ATree.isUnderflow T d t = some (minThr T - (hdr d t).size)
  | 0, t => by
    refine forall_ofData ?_ t; intro s h
    simp only [hdr_zero] at h ⊢
    show (if minThr T > s.hdr.size then some (minThr T - s.hdr.size) else none) = _
    rw [if_pos h]
  | d + 1, t => by
    refine forall_ofMeta ?_ t; intro m h
    simp only [hdr_succ] at h ⊢
    show (if minThr T > m.hdr.size then some (minThr T - m.hdr.size) else none) = _
    rw [if_pos h]

theorem isUnderflow_none (T : Nat) : ∀ (d : Nat) (t : ATree d), minThr T ≤ (hdr d t).size →
    ATree.isUnderflow T d t = none
  | 0, t => by
    refine forall_ofData ?_ t; intro s h
    simp only [hdr_zero] at h
    show (if minThr T > s.hdr.size then some (minThr T - s.hdr.size) else none) = _
    rw [if_neg (by omega)]
  | d + 1, t => by
    refine forall_ofMeta ?_ t; intro m h
    simp only [hdr_succ] at h
    show (if minThr T > m.hdr.size then some (minThr T - m.hdr.size) else none) = _
    rw [if_neg (by omega)]

end Atree
