import AtreeProofs.ArrayInv
/-
  Arithmetic layer: threshold facts and the loops of `ArrayDataSlab.Split`, `LendToRight`,
  `BorrowFromRight`, `CanLendToLeft/Right`.
  All numeric facts go through the named constants of `Gen/Consts.lean`.
-/
namespace Atree
open Gen

/-- Unfold thresholds and the generated constants to numerals (then `omega`). -/
macro "unfold_thr" loc:(Lean.Parser.Tactic.location)? : tactic =>
  `(tactic| (
    (try simp only [legalThreshold, Bool.and_eq_true, decide_eq_true_eq] $[$loc]?);
    (try simp only [minThr, maxThr, maxInlineArr, slabIDStorableSize,
      Gen.arrayDataSlabPrefixSize, Gen.arrayRootDataSlabPrefixSize,
      Gen.inlinedArrayDataSlabPrefixSize, Gen.arrayMetaDataSlabPrefixSize,
      Gen.arraySlabHeaderSize, Gen.minSlabSize, Gen.maxSlabSize, Gen.minElementCountInSlab,
      Gen.SlabIDLength, Gen.maxArrayElementCount] $[$loc]?)))

/-- The numeric facts about a legal threshold that all size arguments use. -/
structure ThrFacts (T : Nat) : Prop where
  pfx : arrayDataSlabPrefixSize = 21
  rpfx : arrayRootDataSlabPrefixSize = 5
  mpfx : arrayMetaDataSlabPrefixSize = 12
  hsz : arraySlabHeaderSize = 14
  lo : 256 ≤ T
  hi : T ≤ 32768
  minE : minThr T = T / 2
  maxE : maxThr T = 3 * T / 2
  inlE : maxInlineArr T = (T - 21) / 2

theorem thrFacts {T : Nat} (hT : legalThreshold T = true) : ThrFacts T := by
  unfold_thr at hT
  constructor <;> first | rfl | omega

theorem sumSizes_nil : sumSizes [] = 0 := rfl
theorem sumSizes_cons (e : Elem) (es : List Elem) : sumSizes (e :: es) = e.size + sumSizes es := by
  simp [sumSizes]
theorem sumSizes_append (a b : List Elem) : sumSizes (a ++ b) = sumSizes a + sumSizes b := by
  simp [sumSizes]
theorem sumSizes_reverse (a : List Elem) : sumSizes a.reverse = sumSizes a := by
  induction a with
  | nil => rfl
  | cons e es ih => simp [sumSizes_append, sumSizes_cons, ih, sumSizes_nil]; omega
theorem sumSizes_take_add_drop (k : Nat) (a : List Elem) :
    sumSizes (a.take k) + sumSizes (a.drop k) = sumSizes a := by
  rw [← sumSizes_append, List.take_append_drop]

theorem sumSizes_le_of_forall {M : Nat} (es : List Elem) (h : ∀ e ∈ es, e.size ≤ M) :
    sumSizes es ≤ M * es.length := by
  induction es with
  | nil => simp [sumSizes_nil]
  | cons e es ih =>
    have h1 := h e (by simp)
    have h2 := ih (fun x hx => h x (by simp [hx]))
    simp only [sumSizes_cons, List.length_cons]
    rw [Nat.mul_add]; omega

theorem length_le_sumSizes (es : List Elem) (h : ∀ e ∈ es, 1 ≤ e.size) :
    es.length ≤ sumSizes es := by
  induction es with
  | nil => simp
  | cons e es ih =>
    have h1 := h e (by simp)
    have h2 := ih (fun x hx => h x (by simp [hx]))
    simp only [sumSizes_cons, List.length_cons]; omega

/-! ### Named consequences -/

theorem two_max_elems_fit' (T : Nat) (hT : legalThreshold T = true) :
    arrayDataSlabPrefixSize + 2 * maxInlineArr T ≤ T := by
  unfold_thr at hT; unfold_thr; omega

theorem slabIDStorable_le (T : Nat) (hT : legalThreshold T = true) :
    slabIDStorableSize ≤ maxInlineArr T := by
  unfold_thr at hT; unfold_thr; omega

/-! ### `splitLoop` -/

theorem splitLoop_spec (mid D M : Nat) (hmid : mid = (D + 1) / 2) :
    ∀ (es : List Elem) (i ls : Nat),
      (∀ e ∈ es, 1 ≤ e.size ∧ e.size ≤ M) → ls + sumSizes es = D → ls < mid →
      ∃ k, k ≤ es.length ∧
        DataSlab.splitLoop mid D es i ls = (i + k, ls + sumSizes (es.take k)) ∧
        D ≤ 2 * (ls + sumSizes (es.take k)) + M ∧ 2 * (ls + sumSizes (es.take k)) ≤ D + M ∧
        (ls = 0 → 1 ≤ k) ∧ (k = es.length → ls = 0 ∧ es.length = 1) := by
  intro es
  induction es with
  | nil =>
    intro i ls _ hsum hlt
    simp only [sumSizes_nil] at hsum
    omega
  | cons e es ih =>
    intro i ls hall hsum hlt
    have he := hall e (by simp)
    simp only [sumSizes_cons] at hsum
    unfold DataSlab.splitLoop
    by_cases h1 : ls + e.size ≥ mid
    · simp only [h1, if_true]
      by_cases h2 : ls ≤ D - ls - e.size
      · refine ⟨1, by simp, ?_⟩
        simp only [h2, if_true, List.take_succ_cons, List.take_zero, sumSizes_cons, sumSizes_nil]
        refine ⟨by simp, by omega, by omega, by omega, ?_⟩
        intro hk
        simp only [List.length_cons] at hk
        have : es = [] := List.eq_nil_of_length_eq_zero (by omega)
        subst this
        simp only [sumSizes_nil] at hsum
        simp; omega
      · refine ⟨0, by simp, ?_⟩
        simp only [h2, if_false, List.take_zero, sumSizes_nil]
        refine ⟨by simp, by omega, by omega, by omega, ?_⟩
        intro hk; simp at hk
    · simp only [h1, if_false]
      obtain ⟨k, hk, heq, hb1, hb2, _, hlast⟩ :=
        ih (i + 1) (ls + e.size) (fun x hx => hall x (by simp [hx])) (by omega) (by omega)
      refine ⟨k + 1, by simp [hk], ?_⟩
      simp only [List.take_succ_cons, sumSizes_cons]
      refine ⟨by rw [heq]; congr 1 <;> omega, by omega, by omega, by omega, ?_⟩
      intro hk'
      simp only [List.length_cons] at hk'
      have := hlast (by omega)
      omega

/-! ### `canLendLoop` -/

/-- If the lending loop says "no", the slab is small: less than `minThr + want + maxInline`. -/
theorem canLendLoop_false_bound (T hsize want M : Nat) :
    ∀ (es : List Elem) (lend : Nat), (∀ e ∈ es, e.size ≤ M) → lend < want →
      hsize ≤ 21 + lend + sumSizes es →
      DataSlab.canLendLoop T hsize want es lend = false → hsize < minThr T + want + M + 21 := by
  intro es
  induction es with
  | nil => intro lend _ hl hs _; simp only [sumSizes_nil] at hs; omega
  | cons e es ih =>
    intro lend hall hl hs hc
    have he := hall e (by simp)
    simp only [sumSizes_cons] at hs
    unfold DataSlab.canLendLoop at hc
    simp only at hc
    by_cases h1 : hsize - (lend + e.size) < minThr T
    · omega
    · simp only [h1, if_false] at hc
      by_cases h2 : lend + e.size ≥ want
      · simp [h2] at hc
      · simp only [h2, if_false] at hc
        exact ih (lend + e.size) (fun x hx => hall x (by simp [hx])) (by omega) (by omega) hc

/-! ### `lendLoop` (left sibling lends to the underflowing right slab) -/

theorem lendLoop_spec (T size mid hsize want : Nat) (hT : legalThreshold T = true)
    (hmid : mid = (size + 1) / 2) (hsz : size = hsize + minThr T - want) (hw : want ≤ minThr T)
    (hh : hsize ≤ maxThr T) :
    ∀ (rev : List Elem) (lc ls lend : Nat),
      (∀ e ∈ rev, e.size ≤ maxInlineArr T) → ls = arrayDataSlabPrefixSize + sumSizes rev →
      lend + ls = hsize →
      ((lend < want ∧ DataSlab.canLendLoop T hsize want rev lend = true) ∨
       (want ≤ lend ∧ minThr T ≤ ls ∧ size ≤ maxThr T + ls)) →
      ∃ k ls', k ≤ rev.length ∧ ls' + sumSizes (rev.take k) = ls ∧
        DataSlab.lendLoop T size mid rev lc ls = (lc - k, ls') ∧
        minThr T ≤ ls' ∧ minThr T + ls' ≤ size ∧ size ≤ maxThr T + ls' := by
  have F := thrFacts hT
  obtain ⟨f1, f2, f3, f4, f5, f6, f7, f8, f9⟩ := F
  intro rev
  induction rev with
  | nil =>
    intro lc ls lend _ hls hlend hcase
    rcases hcase with ⟨_, hc⟩ | ⟨h1, h2, h3⟩
    · simp [DataSlab.canLendLoop] at hc
    · refine ⟨0, ls, by simp, ?_⟩
      simp only [DataSlab.lendLoop, List.take_zero, sumSizes_nil]
      refine ⟨by simp, by simp, by omega, by omega, by omega⟩
  | cons e rest ih =>
    intro lc ls lend hall hls hlend hcase
    have he := hall e (by simp)
    simp only [sumSizes_cons] at hls
    unfold DataSlab.lendLoop
    by_cases hstop : (decide (ls - e.size < mid) && decide (size - ls ≥ minThr T)) = true
    · simp only [hstop, if_true]
      simp only [Bool.and_eq_true, decide_eq_true_eq] at hstop
      rcases hcase with ⟨h1, _⟩ | ⟨h1, h2, h3⟩
      · omega
      · refine ⟨0, ls, by simp, ?_⟩
        simp only [List.take_zero, sumSizes_nil]
        refine ⟨by simp, by simp, by omega, by omega, by omega⟩
    · simp only [hstop]
      simp only [Bool.and_eq_true, decide_eq_true_eq, Decidable.not_and_iff_or_not] at hstop
      have hcase' : ((lend + e.size < want ∧ DataSlab.canLendLoop T hsize want rest (lend + e.size) = true) ∨
          (want ≤ lend + e.size ∧ minThr T ≤ ls - e.size ∧ size ≤ maxThr T + (ls - e.size))) := by
        rcases hcase with ⟨h1, hc⟩ | ⟨h1, h2, h3⟩
        · unfold DataSlab.canLendLoop at hc
          simp only at hc
          by_cases c1 : hsize - (lend + e.size) < minThr T
          · simp [c1] at hc
          · simp only [c1, if_false] at hc
            by_cases c2 : lend + e.size ≥ want
            · right; omega
            · simp only [c2, if_false] at hc
              left; exact ⟨by omega, hc⟩
        · right; omega
      obtain ⟨k, ls', hk, hsum, heq, hb1, hb2, hb3⟩ :=
        ih (lc - 1) (ls - e.size) (lend + e.size) (fun x hx => hall x (by simp [hx]))
          (by omega) (by omega) hcase'
      refine ⟨k + 1, ls', by simp [hk], ?_⟩
      simp only [List.take_succ_cons, sumSizes_cons]
      refine ⟨by omega, ?_, by omega, by omega, by omega⟩
      rw [heq, Nat.sub_sub, Nat.add_comm 1 k]; simp

/-! ### `borrowLoop` (the underflowing left slab borrows from its right sibling) -/

theorem borrowLoop_spec (T size mid hsize want : Nat) (hT : legalThreshold T = true)
    (hmid : mid = (size + 1) / 2) (hsz : size = hsize + minThr T - want) (hw : want ≤ minThr T)
    (hh : hsize ≤ maxThr T) :
    ∀ (es : List Elem) (lc ls lend : Nat),
      (∀ e ∈ es, e.size ≤ maxInlineArr T) → hsize = arrayDataSlabPrefixSize + lend + sumSizes es →
      ls + want = minThr T + lend →
      ((lend < want ∧ DataSlab.canLendLoop T hsize want es lend = true) ∨
       (want ≤ lend ∧ ls ≤ maxThr T ∧ minThr T + ls ≤ size)) →
      ∃ k, k ≤ es.length ∧
        DataSlab.borrowLoop T size mid es lc ls = (lc + k, ls + sumSizes (es.take k)) ∧
        minThr T ≤ ls + sumSizes (es.take k) ∧ ls + sumSizes (es.take k) ≤ maxThr T ∧
        minThr T + (ls + sumSizes (es.take k)) ≤ size ∧
        size ≤ maxThr T + (ls + sumSizes (es.take k)) := by
  have F := thrFacts hT
  obtain ⟨f1, f2, f3, f4, f5, f6, f7, f8, f9⟩ := F
  intro es
  induction es with
  | nil =>
    intro lc ls lend _ hhs hls hcase
    rcases hcase with ⟨_, hc⟩ | ⟨h1, h2, h3⟩
    · simp [DataSlab.canLendLoop] at hc
    · refine ⟨0, by simp, ?_⟩
      simp only [DataSlab.borrowLoop, List.take_zero, sumSizes_nil] at *
      refine ⟨by simp, by omega, by omega, by omega, by omega⟩
  | cons e rest ih =>
    intro lc ls lend hall hhs hls hcase
    have he := hall e (by simp)
    simp only [sumSizes_cons] at hhs
    unfold DataSlab.borrowLoop
    by_cases hstop : ls + e.size > mid
    · simp only [hstop, if_true]
      by_cases htake : size - ls - e.size ≥ minThr T
      · simp only [htake, if_true]
        refine ⟨1, by simp, ?_⟩
        simp only [List.take_succ_cons, List.take_zero, sumSizes_cons, sumSizes_nil]
        refine ⟨by simp, ?_, ?_, by omega, ?_⟩
        · rcases hcase with ⟨h1, _⟩ | ⟨h1, h2, h3⟩ <;> omega
        · rcases hcase with ⟨h1, _⟩ | ⟨h1, h2, h3⟩ <;> omega
        · rcases hcase with ⟨h1, _⟩ | ⟨h1, h2, h3⟩ <;> omega
      · simp only [htake, if_false]
        rcases hcase with ⟨h1, hc⟩ | ⟨h1, h2, h3⟩
        · unfold DataSlab.canLendLoop at hc
          simp only at hc
          by_cases c1 : hsize - (lend + e.size) < minThr T
          · simp [c1] at hc
          · omega
        · refine ⟨0, by simp, ?_⟩
          simp only [List.take_zero, sumSizes_nil]
          refine ⟨by simp, by omega, by omega, by omega, by omega⟩
    · simp only [hstop, if_false]
      have hcase' : ((lend + e.size < want ∧ DataSlab.canLendLoop T hsize want rest (lend + e.size) = true) ∨
          (want ≤ lend + e.size ∧ ls + e.size ≤ maxThr T ∧ minThr T + (ls + e.size) ≤ size)) := by
        rcases hcase with ⟨h1, hc⟩ | ⟨h1, h2, h3⟩
        · unfold DataSlab.canLendLoop at hc
          simp only at hc
          by_cases c1 : hsize - (lend + e.size) < minThr T
          · simp [c1] at hc
          · simp only [c1, if_false] at hc
            by_cases c2 : lend + e.size ≥ want
            · right; omega
            · simp only [c2, if_false] at hc
              left; exact ⟨by omega, hc⟩
        · right; omega
      obtain ⟨k, hk, heq, hb1, hb2, hb3, hb4⟩ :=
        ih (lc + 1) (ls + e.size) (lend + e.size) (fun x hx => hall x (by simp [hx]))
          (by omega) (by omega) hcase'
      refine ⟨k + 1, by simp [hk], ?_⟩
      simp only [List.take_succ_cons, sumSizes_cons]
      refine ⟨?_, by omega, by omega, by omega, by omega⟩
      rw [heq]; congr 1 <;> omega

end Atree
