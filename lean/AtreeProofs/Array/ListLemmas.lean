import AtreeProofs.Array.Arith
/-
  List surgery at a known position, cumulative counts (`prefixSums`, `bumpFrom`), leaf chains
  and ID bookkeeping.
-/
namespace Atree
open Gen

/-! ### Surgery at position `A.length` of `A ++ x :: B` -/
section Surgery
variable {α : Type}

theorem split_at_getElem? {l : List α} {k : Nat} {x : α} (h : l[k]? = some x) :
    ∃ A B, l = A ++ x :: B ∧ A.length = k := by
  induction l generalizing k with
  | nil => simp at h
  | cons y ys ih =>
    cases k with
    | zero => simp at h; subst h; exact ⟨[], ys, rfl, rfl⟩
    | succ k =>
      simp only [List.getElem?_cons_succ] at h
      obtain ⟨A, B, h1, h2⟩ := ih h
      exact ⟨y :: A, B, by simp [h1], by simp [h2]⟩

theorem getElem?_mid {A B : List α} {x : α} {k : Nat} (h : A.length = k) :
    (A ++ x :: B)[k]? = some x := by
  subst h; simp

theorem getElem?_mid_succ {A B : List α} {x : α} {k : Nat} (h : A.length = k) :
    (A ++ x :: B)[k + 1]? = B[0]? := by
  subst h
  induction A with
  | nil => simp
  | cons a A ih => simp [ih]

theorem getElem?_mid_pred {A B : List α} {x y : α} {k : Nat} (h : (A ++ [y]).length = k) :
    (A ++ y :: x :: B)[k - 1]? = some y := by
  subst h
  induction A with
  | nil => simp
  | cons a A _ => simp

theorem set_mid {A B : List α} {x : α} {k : Nat} (h : A.length = k) (y : α) :
    (A ++ x :: B).set k y = A ++ y :: B := by
  subst h
  induction A with
  | nil => simp
  | cons a A ih => simp [ih]

theorem insertIdx_mid {A B : List α} {x : α} {k : Nat} (h : A.length = k) (y : α) :
    (A ++ x :: B).insertIdx (k + 1) y = A ++ x :: y :: B := by
  subst h
  induction A with
  | nil => simp
  | cons a A ih => simp [ih]

theorem insertIdx_at {A B : List α} {k : Nat} (h : A.length = k) (y : α) :
    (A ++ B).insertIdx k y = A ++ y :: B := by
  subst h
  induction A with
  | nil => simp
  | cons a A ih => simp [ih]

theorem eraseIdx_mid {A B : List α} {x : α} {k : Nat} (h : A.length = k) :
    (A ++ x :: B).eraseIdx k = A ++ B := by
  subst h
  induction A with
  | nil => simp
  | cons a A ih => simp [ih]

theorem eraseIdx_mid_succ {A B : List α} {x y : α} {k : Nat} (h : A.length = k) :
    (A ++ x :: y :: B).eraseIdx (k + 1) = A ++ x :: B := by
  subst h
  induction A with
  | nil => simp
  | cons a A ih => simp [ih]

theorem take_mid {A B : List α} {k : Nat} (h : A.length = k) : (A ++ B).take k = A := by
  subst h; simp

theorem drop_mid {A B : List α} {k : Nat} (h : A.length = k) : (A ++ B).drop k = B := by
  subst h; simp

theorem getD_mid {A B : List α} {x d : α} {k : Nat} (h : A.length = k) :
    (A ++ x :: B).getD k d = x := by
  subst h; simp [List.getD]

theorem getD_mid_succ {A B : List α} {x y d : α} {k : Nat} (h : A.length = k) :
    (A ++ x :: y :: B).getD (k + 1) d = y := by
  subst h
  have : A ++ x :: y :: B = (A ++ [x]) ++ y :: B := by simp
  rw [this, List.getD, getElem?_mid (by simp)]; rfl

end Surgery

/-! ### `sumCounts`, `prefixSums`, `bumpFrom` -/
namespace MetaSlab

theorem sumCounts_nil : sumCounts [] = 0 := rfl
theorem sumCounts_cons (h : Hdr) (hs : List Hdr) : sumCounts (h :: hs) = h.count + sumCounts hs := by
  simp [sumCounts]
theorem sumCounts_append (a b : List Hdr) : sumCounts (a ++ b) = sumCounts a + sumCounts b := by
  simp [sumCounts]
theorem sumCounts_take_add_drop (k : Nat) (a : List Hdr) :
    sumCounts (a.take k) + sumCounts (a.drop k) = sumCounts a := by
  rw [← sumCounts_append, List.take_append_drop]

theorem prefixSums_length (hs : List Hdr) (acc : Nat) : (prefixSums hs acc).length = hs.length := by
  induction hs generalizing acc with
  | nil => rfl
  | cons h hs ih => simp [prefixSums, ih]

theorem prefixSums_append (a b : List Hdr) (acc : Nat) :
    prefixSums (a ++ b) acc = prefixSums a acc ++ prefixSums b (acc + sumCounts a) := by
  induction a generalizing acc with
  | nil => simp [prefixSums, sumCounts_nil]
  | cons h hs ih => simp [prefixSums, ih, sumCounts_cons, Nat.add_assoc]

theorem prefixSums_cons (h : Hdr) (hs : List Hdr) (acc : Nat) :
    prefixSums (h :: hs) acc = (acc + h.count) :: prefixSums hs (acc + h.count) := rfl

theorem prefixSums_take (hs : List Hdr) (acc k : Nat) :
    (prefixSums hs acc).take k = prefixSums (hs.take k) acc := by
  induction hs generalizing acc k with
  | nil => simp [prefixSums]
  | cons h hs ih =>
    cases k with
    | zero => simp [prefixSums]
    | succ k => simp [prefixSums, ih]

theorem prefixSums_getLastD (hs : List Hdr) (acc : Nat) :
    (prefixSums hs acc).getLastD acc = acc + sumCounts hs := by
  induction hs generalizing acc with
  | nil => simp [prefixSums, sumCounts_nil]
  | cons h hs ih =>
    simp only [prefixSums_cons, List.getLastD_cons, sumCounts_cons]
    rw [ih]; omega

theorem prefixSums_map_succ (hs : List Hdr) (acc : Nat) :
    (prefixSums hs acc).map (· + 1) = prefixSums hs (acc + 1) := by
  induction hs generalizing acc with
  | nil => rfl
  | cons h hs ih =>
    simp only [prefixSums_cons, List.map_cons, ih]
    have : acc + h.count + 1 = acc + 1 + h.count := by omega
    rw [this]

theorem prefixSums_map_pred (hs : List Hdr) (acc : Nat) (hacc : 1 ≤ acc) :
    (prefixSums hs acc).map (· - 1) = prefixSums hs (acc - 1) := by
  induction hs generalizing acc with
  | nil => rfl
  | cons h hs ih =>
    simp only [prefixSums_cons, List.map_cons, ih (acc + h.count) (by omega)]
    have : acc + h.count - 1 = acc - 1 + h.count := by omega
    rw [this]

theorem bumpFrom_mid (A B : List Nat) (x : Nat) (k : Nat) (f : Nat → Nat) (h : A.length = k) :
    bumpFrom k f (A ++ x :: B) = A ++ f x :: B.map f := by
  subst h
  unfold bumpFrom
  rw [List.mapIdx_append]
  congr 1
  · apply List.ext_getElem
    · simp
    · intro i h1 h2
      simp at h1
      simp; omega
  · simp only [List.mapIdx_cons, Nat.zero_add, Nat.le_refl, ge_iff_le, if_true]
    congr 1
    apply List.ext_getElem
    · simp
    · intro i h1 h2
      simp

/-- strictly increasing cumulative counts when every child holds at least one element -/
theorem prefixSums_pairwise (hs : List Hdr) (acc : Nat) (hpos : ∀ h ∈ hs, 1 ≤ h.count) :
    (prefixSums hs acc).Pairwise (· < ·) ∧ ∀ x ∈ prefixSums hs acc, acc < x := by
  induction hs generalizing acc with
  | nil => simp [prefixSums]
  | cons h hs ih =>
    have h1 := hpos h (by simp)
    obtain ⟨p, q⟩ := ih (acc + h.count) (fun x hx => hpos x (by simp [hx]))
    simp only [prefixSums_cons, List.pairwise_cons, List.mem_cons]
    refine ⟨⟨fun x hx => q x hx, p⟩, ?_⟩
    intro x hx
    rcases hx with rfl | hx
    · omega
    · have := q x hx; omega

end MetaSlab

/-! ### Leaf chains as paths -/

/-- `Chain f n l`: `l` is a path of `next` links that starts at slab ID `f` and ends in `n`. -/
def Chain : SlabID → SlabID → List DataSlab → Prop
  | f, n, [] => f = n
  | f, n, s :: rest => s.hdr.id = f ∧ Chain s.next n rest

theorem chain_append (f n : SlabID) (l1 l2 : List DataSlab) :
    Chain f n (l1 ++ l2) ↔ ∃ mid, Chain f mid l1 ∧ Chain mid n l2 := by
  induction l1 generalizing f with
  | nil => simp [Chain]
  | cons s rest ih =>
    simp only [List.cons_append, Chain, ih]
    constructor
    · rintro ⟨h1, mid, h2, h3⟩; exact ⟨mid, ⟨h1, h2⟩, h3⟩
    · rintro ⟨mid, ⟨h1, h2⟩, h3⟩; exact ⟨h1, mid, h2, h3⟩

theorem leafChain_iff (l : List DataSlab) : LeafChain l ↔ ∃ f, Chain f SlabID.undef l := by
  induction l with
  | nil => simp [LeafChain, Chain]
  | cons s rest ih =>
    cases rest with
    | nil => simp [LeafChain, Chain]
    | cons t rest =>
      simp only [LeafChain, ih, Chain]
      constructor
      · rintro ⟨h1, f, h2, h3⟩; exact ⟨_, rfl, by rw [h1], h3⟩
      · rintro ⟨f, _, h2, h3⟩; exact ⟨h2.symm, _, h2, h3⟩

/-- Every chain through `L` is a chain through `L'` (same entry ID, same exit link). -/
def ChainPres (L L' : List DataSlab) : Prop := ∀ f n, Chain f n L → Chain f n L'

theorem ChainPres.refl (L : List DataSlab) : ChainPres L L := fun _ _ h => h
theorem ChainPres.trans {L1 L2 L3 : List DataSlab} (h1 : ChainPres L1 L2) (h2 : ChainPres L2 L3) :
    ChainPres L1 L3 := fun f n h => h2 f n (h1 f n h)
theorem ChainPres.of_eq {L L' : List DataSlab} (h : L' = L) : ChainPres L L' := by
  subst h; exact ChainPres.refl _
theorem ChainPres.ctx {L L' : List DataSlab} (h : ChainPres L L') (A B : List DataSlab) :
    ChainPres (A ++ L ++ B) (A ++ L' ++ B) := by
  intro f n hc
  rw [chain_append, ] at hc ⊢
  obtain ⟨m1, hc1, hc2⟩ := hc
  rw [chain_append] at hc1
  obtain ⟨m0, hc0, hc1⟩ := hc1
  exact ⟨m1, (chain_append _ _ _ _).2 ⟨m0, hc0, h _ _ hc1⟩, hc2⟩
theorem ChainPres.leafChain {L L' : List DataSlab} (h : ChainPres L L') (hl : LeafChain L) :
    LeafChain L' := by
  rw [leafChain_iff] at hl ⊢
  obtain ⟨f, hf⟩ := hl
  exact ⟨f, h _ _ hf⟩

/-! ### ID bookkeeping -/

theorem IdsOk.mono {addr c c' : Nat} {ids : List SlabID} (h : IdsOk addr c ids) (hc : c ≤ c') :
    IdsOk addr c' ids :=
  ⟨h.1, fun id hid => ⟨(h.2 id hid).1, (h.2 id hid).2.1, Nat.le_trans (h.2 id hid).2.2 hc⟩⟩

theorem IdsOk.of_perm {addr c : Nat} {ids ids' : List SlabID} (h : IdsOk addr c ids)
    (hp : ids'.Perm ids) : IdsOk addr c ids' :=
  ⟨hp.nodup_iff.2 h.1, fun id hid => h.2 id (hp.mem_iff.1 hid)⟩

theorem IdsOk.sub_append_left {addr c : Nat} {a b : List SlabID} (h : IdsOk addr c (a ++ b)) :
    IdsOk addr c a :=
  ⟨(List.nodup_append.1 h.1).1, fun id hid => h.2 id (by simp [hid])⟩

theorem IdsOk.sub_append_right {addr c : Nat} {a b : List SlabID} (h : IdsOk addr c (a ++ b)) :
    IdsOk addr c b :=
  ⟨(List.nodup_append.1 h.1).2.1, fun id hid => h.2 id (by simp [hid])⟩

/-- Replace the middle part `X` of a duplicate-free ID list by `X'` whose members are old members
    of `X` or fresh (index above the old counter). -/
theorem IdsOk.replace_mid {addr c c' : Nat} {A X X' B : List SlabID}
    (h : IdsOk addr c (A ++ X ++ B)) (hX' : IdsOk addr c' X')
    (hmem : ∀ id ∈ X', id ∈ X ∨ c < id.idx) (hc : c ≤ c') :
    IdsOk addr c' (A ++ X' ++ B) := by
  obtain ⟨hnd, hall⟩ := h
  refine ⟨?_, ?_⟩
  · rw [List.append_assoc, List.nodup_append] at hnd ⊢
    obtain ⟨hA, hXB, hdisj⟩ := hnd
    rw [List.nodup_append] at hXB
    obtain ⟨hXn, hBn, hXBd⟩ := hXB
    refine ⟨hA, ?_, ?_⟩
    · rw [List.nodup_append]
      refine ⟨hX'.1, hBn, ?_⟩
      intro a ha b hb hab
      subst hab
      rcases hmem a ha with h1 | h1
      · exact hXBd a h1 a hb rfl
      · have := (hall a (by simp [hb])).2.2; omega
    · intro a ha b hb hab
      subst hab
      rcases List.mem_append.1 hb with hb | hb
      · rcases hmem a hb with h1 | h1
        · exact hdisj a ha a (by simp [h1]) rfl
        · have := (hall a (by simp [ha])).2.2; omega
      · exact hdisj a ha a (by simp [hb]) rfl
  · intro id hid
    simp only [List.mem_append] at hid
    rcases hid with (hid | hid) | hid
    · exact (IdsOk.mono ⟨hnd, hall⟩ hc).2 id (by simp [hid])
    · exact hX'.2 id hid
    · exact (IdsOk.mono ⟨hnd, hall⟩ hc).2 id (by simp [hid])

end Atree
