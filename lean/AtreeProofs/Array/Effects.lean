import AtreeProofs.HeapSpec
import AtreeProofs.Array.Top
import AtreeProofs.AListLemmas
/-
  Effect-log accounting (C09), generic layer:
  * `lastAction` over appended logs,
  * `Log c c' E C`: what a run appended to the effect log / to the created slabs, with freshness of
    the allocated IDs,
  * `Acct c S S' E cr`: the log `E` is a complete account of the change from the set of slabs `S`
    to the set of slabs `S'` (both as association lists, only membership matters), with its
    algebra: `basic`, `frame`, `trans`,
  * the slabs of a tree as root entry + slabs of the strict descendants (`ent`, `sub`).
-/
namespace Atree
open Gen ATree MetaSlab

/-! ### lastAction -/

/-- one step of `lastAction` -/
def actStep (id : SlabID) (acc : Option Bool) (e : Eff) : Option Bool :=
  match e with
  | .store i => if i = id then some true else acc
  | .remove i => if i = id then some false else acc
  | .alloc _ _ => acc

theorem lastAction_eq (E : List Eff) (id : SlabID) : lastAction E id = E.foldl (actStep id) none := rfl

theorem actStep_or (id : SlabID) (acc : Option Bool) (e : Eff) :
    actStep id acc e = (actStep id none e).or acc := by
  cases e <;> simp only [actStep] <;> (try split) <;> simp

theorem foldl_actStep (id : SlabID) (E : List Eff) (acc : Option Bool) :
    E.foldl (actStep id) acc = (E.foldl (actStep id) none).or acc := by
  induction E generalizing acc with
  | nil => simp
  | cons e E ih =>
    simp only [List.foldl_cons]
    rw [ih (actStep id acc e), ih (actStep id none e), actStep_or id acc e, Option.or_assoc]

theorem lastAction_append (E1 E2 : List Eff) (id : SlabID) :
    lastAction (E1 ++ E2) id = (lastAction E2 id).or (lastAction E1 id) := by
  simp only [lastAction_eq, List.foldl_append]
  exact foldl_actStep id E2 _

@[simp] theorem lastAction_nil (id : SlabID) : lastAction [] id = none := rfl

theorem lastAction_single (e : Eff) (id : SlabID) : lastAction [e] id = actStep id none e := rfl

theorem lastAction_cons (e : Eff) (E : List Eff) (id : SlabID) :
    lastAction (e :: E) id = (lastAction E id).or (actStep id none e) := by
  have := lastAction_append [e] E id
  simpa [lastAction_single] using this

theorem lastAction_concat_store (E : List Eff) (i id : SlabID) :
    lastAction (E ++ [.store i]) id = if i = id then some true else lastAction E id := by
  rw [lastAction_append, lastAction_single]
  simp only [actStep]
  split <;> simp

theorem lastAction_concat_remove (E : List Eff) (i id : SlabID) :
    lastAction (E ++ [.remove i]) id = if i = id then some false else lastAction E id := by
  rw [lastAction_append, lastAction_single]
  simp only [actStep]
  split <;> simp

theorem lastAction_append_none {E1 E2 : List Eff} {id : SlabID} (h : lastAction E2 id = none) :
    lastAction (E1 ++ E2) id = lastAction E1 id := by
  rw [lastAction_append, h]; simp

theorem lastAction_append_some {E1 E2 : List Eff} {id : SlabID} {b : Bool}
    (h : lastAction E2 id = some b) : lastAction (E1 ++ E2) id = some b := by
  rw [lastAction_append, h]; simp

/-! ### what a run appended to the log -/

/-- `c'` extends `c` by the effects `E` and the created slabs `C`; the allocated IDs are fresh. -/
structure Log (c c' : Ctx) (E : List Eff) (C : List (SlabID × Elem)) : Prop where
  eff : c'.eff = c.eff ++ E
  created : c'.created = c.created ++ C
  ctr_le : c.ctr ≤ c'.ctr
  allocs : ∀ addr id, Eff.alloc addr id ∈ E → c.ctr < id.idx ∧ id.idx ≤ c'.ctr

namespace Log

theorem refl (c : Ctx) : Log c c [] [] := ⟨by simp, by simp, Nat.le_refl _, by simp⟩

theorem trans {c c1 c2 : Ctx} {E1 E2 : List Eff} {C1 C2 : List (SlabID × Elem)}
    (h1 : Log c c1 E1 C1) (h2 : Log c1 c2 E2 C2) : Log c c2 (E1 ++ E2) (C1 ++ C2) := by
  refine ⟨by rw [h2.eff, h1.eff, List.append_assoc], by rw [h2.created, h1.created, List.append_assoc],
    Nat.le_trans h1.ctr_le h2.ctr_le, ?_⟩
  intro addr id hmem
  have hl1 := h1.ctr_le
  have hl2 := h2.ctr_le
  rcases List.mem_append.1 hmem with h | h
  · have := h1.allocs addr id h; omega
  · have := h2.allocs addr id h; omega

theorem store (c : Ctx) (i : SlabID) : Log c (c.emit (.store i)) [.store i] [] :=
  ⟨rfl, by simp [Ctx.emit], Nat.le_refl _, by simp⟩

theorem remove (c : Ctx) (i : SlabID) : Log c (c.emit (.remove i)) [.remove i] [] :=
  ⟨rfl, by simp [Ctx.emit], Nat.le_refl _, by simp⟩

theorem alloc (c : Ctx) (a : Nat) : Log c (c.alloc a).2 [.alloc a ⟨a, c.ctr + 1⟩] [] := by
  refine ⟨rfl, by simp [Ctx.alloc], by simp, ?_⟩
  intro addr id h
  simp only [List.mem_singleton, Eff.alloc.injEq] at h
  obtain ⟨_, rfl⟩ := h
  simp

end Log

/-! ### complete accounts -/

open AList in
theorem mem_keys_iff {α : Type} (L : List (SlabID × α)) (id : SlabID) :
    id ∈ AList.keys L ↔ ∃ s, (id, s) ∈ L := by
  simp only [AList.keys, List.mem_map]
  constructor
  · rintro ⟨p, hp, rfl⟩; exact ⟨p.2, hp⟩
  · rintro ⟨s, hs⟩; exact ⟨(id, s), hs, rfl⟩

theorem mem_keys_of_mem {α : Type} {L : List (SlabID × α)} {p : SlabID × α} (h : p ∈ L) :
    p.1 ∈ AList.keys L := (mem_keys_iff L p.1).2 ⟨p.2, h⟩

/-- `E` accounts for the change from the slabs `S` to the slabs `S'`; `c` is the allocation
    counter before, `cr` the large-value slabs created meanwhile. -/
structure Acct (c : Nat) (S S' : List (SlabID × ASlab)) (E : List Eff) (cr : List SlabID) : Prop where
  kept : ∀ p ∈ S', p ∈ S ∨ lastAction E p.1 = some true
  gone : ∀ id ∈ AList.keys S, id ∉ AList.keys S' → lastAction E id = some false
  stored : ∀ id, lastAction E id = some true → id ∈ AList.keys S' ∨ id ∈ cr
  removed : ∀ id, lastAction E id = some false → id ∉ AList.keys S'
  foot : ∀ id, lastAction E id ≠ none → id ∈ AList.keys S ∨ c < id.idx
  fresh : ∀ id ∈ cr, c < id.idx

namespace Acct

/-- nothing happened -/
theorem refl (c : Nat) (S : List (SlabID × ASlab)) : Acct c S S [] [] :=
  ⟨fun _ h => Or.inl h, fun _ h h' => absurd h h', by simp, by simp, by simp, by simp⟩

/-- only membership matters -/
theorem congr {c : Nat} {S S' W W' : List (SlabID × ASlab)} {E : List Eff} {cr : List SlabID}
    (h : Acct c S S' E cr) (hS : ∀ p, p ∈ W ↔ p ∈ S) (hS' : ∀ p, p ∈ W' ↔ p ∈ S') :
    Acct c W W' E cr := by
  have k1 : ∀ id, id ∈ AList.keys W ↔ id ∈ AList.keys S := by
    intro id; simp only [mem_keys_iff, hS]
  have k2 : ∀ id, id ∈ AList.keys W' ↔ id ∈ AList.keys S' := by
    intro id; simp only [mem_keys_iff, hS']
  refine ⟨?_, ?_, ?_, ?_, ?_, h.fresh⟩
  · intro p hp
    rcases h.kept p ((hS' p).1 hp) with h1 | h1
    · exact Or.inl ((hS p).2 h1)
    · exact Or.inr h1
  · intro id h1 h2
    exact h.gone id ((k1 id).1 h1) (fun h3 => h2 ((k2 id).2 h3))
  · intro id h1
    rcases h.stored id h1 with h2 | h2
    · exact Or.inl ((k2 id).2 h2)
    · exact Or.inr h2
  · intro id h1 h2
    exact h.removed id h1 ((k2 id).1 h2)
  · intro id h1
    rcases h.foot id h1 with h2 | h2
    · exact Or.inl ((k1 id).2 h2)
    · exact Or.inr h2

/-- an explicit list of rewritten / dropped slabs -/
theorem basic {c : Nat} {N N' : List (SlabID × ASlab)} {E : List Eff}
    (hst : ∀ p ∈ N', lastAction E p.1 = some true)
    (hrm : ∀ id ∈ AList.keys N, id ∉ AList.keys N' → lastAction E id = some false)
    (hE : ∀ id, lastAction E id = some true → id ∈ AList.keys N')
    (hE' : ∀ id, lastAction E id = some false → id ∈ AList.keys N ∧ id ∉ AList.keys N')
    (hfp : ∀ id ∈ AList.keys N', id ∈ AList.keys N ∨ c < id.idx) : Acct c N N' E [] := by
  refine ⟨fun p hp => Or.inr (hst p hp), hrm, fun id h => Or.inl (hE id h),
    fun id h => (hE' id h).2, ?_, by simp⟩
  intro id h
  cases hl : lastAction E id with
  | none => exact absurd hl h
  | some b =>
    cases b with
    | true => exact hfp id (hE id hl)
    | false => exact Or.inl (hE' id hl).1

/-- slabs `F` that the operation does not touch -/
theorem frame {c : Nat} {S S' F W W' : List (SlabID × ASlab)} {E : List Eff} {cr : List SlabID}
    (h : Acct c S S' E cr)
    (hF : ∀ id ∈ AList.keys F, id ∉ AList.keys S ∧ id.idx ≤ c)
    (hW : ∀ p, p ∈ W ↔ p ∈ S ∨ p ∈ F) (hW' : ∀ p, p ∈ W' ↔ p ∈ S' ∨ p ∈ F) :
    Acct c W W' E cr := by
  have k1 : ∀ id, id ∈ AList.keys W ↔ id ∈ AList.keys S ∨ id ∈ AList.keys F := by
    intro id; simp only [mem_keys_iff, hW]
    constructor
    · rintro ⟨s, h1 | h1⟩
      · exact Or.inl ⟨s, h1⟩
      · exact Or.inr ⟨s, h1⟩
    · rintro (⟨s, h1⟩ | ⟨s, h1⟩)
      · exact ⟨s, Or.inl h1⟩
      · exact ⟨s, Or.inr h1⟩
  have k2 : ∀ id, id ∈ AList.keys W' ↔ id ∈ AList.keys S' ∨ id ∈ AList.keys F := by
    intro id; simp only [mem_keys_iff, hW']
    constructor
    · rintro ⟨s, h1 | h1⟩
      · exact Or.inl ⟨s, h1⟩
      · exact Or.inr ⟨s, h1⟩
    · rintro (⟨s, h1⟩ | ⟨s, h1⟩)
      · exact ⟨s, Or.inl h1⟩
      · exact ⟨s, Or.inr h1⟩
  refine ⟨?_, ?_, ?_, ?_, ?_, h.fresh⟩
  · intro p hp
    rcases (hW' p).1 hp with h1 | h1
    · rcases h.kept p h1 with h2 | h2
      · exact Or.inl ((hW p).2 (Or.inl h2))
      · exact Or.inr h2
    · exact Or.inl ((hW p).2 (Or.inr h1))
  · intro id h1 h2
    rcases (k1 id).1 h1 with h3 | h3
    · exact h.gone id h3 (fun h4 => h2 ((k2 id).2 (Or.inl h4)))
    · exact absurd ((k2 id).2 (Or.inr h3)) h2
  · intro id h1
    rcases h.stored id h1 with h2 | h2
    · exact Or.inl ((k2 id).2 (Or.inl h2))
    · exact Or.inr h2
  · intro id h1 h2
    rcases (k2 id).1 h2 with h3 | h3
    · exact h.removed id h1 h3
    · have hf := hF id h3
      rcases h.foot id (by rw [h1]; simp) with h4 | h4
      · exact hf.1 h4
      · omega
  · intro id h1
    rcases h.foot id h1 with h2 | h2
    · exact Or.inl ((k1 id).2 (Or.inl h2))
    · exact Or.inr h2

/-- one step after the other -/
theorem trans {c c1 : Nat} {S S1 S2 : List (SlabID × ASlab)} {E1 E2 : List Eff} {cr1 cr2 : List SlabID}
    (h1 : Acct c S S1 E1 cr1) (h2 : Acct c1 S1 S2 E2 cr2) (hc : c ≤ c1)
    (hS : ∀ id ∈ AList.keys S, id.idx ≤ c) : Acct c S S2 (E1 ++ E2) (cr1 ++ cr2) := by
  refine ⟨?_, ?_, ?_, ?_, ?_, ?_⟩
  · intro p hp
    rcases h2.kept p hp with h3 | h3
    · cases hl : lastAction E2 p.1 with
      | none =>
        rw [lastAction_append_none hl]
        exact h1.kept p h3
      | some b =>
        cases b with
        | true => exact Or.inr (lastAction_append_some hl)
        | false => exact absurd (mem_keys_of_mem hp) (h2.removed p.1 hl)
    · exact Or.inr (lastAction_append_some h3)
  · intro id hid hid2
    by_cases hm : id ∈ AList.keys S1
    · exact lastAction_append_some (h2.gone id hm hid2)
    · have hg := h1.gone id hid hm
      cases hl : lastAction E2 id with
      | none => rw [lastAction_append_none hl]; exact hg
      | some b =>
        cases b with
        | false => exact lastAction_append_some hl
        | true =>
          rcases h2.stored id hl with h3 | h3
          · exact absurd h3 hid2
          · have := h2.fresh id h3
            have := hS id hid
            omega
  · intro id hid
    cases hl : lastAction E2 id with
    | none =>
      rw [lastAction_append_none hl] at hid
      rcases h1.stored id hid with h3 | h3
      · by_cases hm : id ∈ AList.keys S2
        · exact Or.inl hm
        · have := h2.gone id h3 hm
          rw [hl] at this; cases this
      · exact Or.inr (List.mem_append.2 (Or.inl h3))
    | some b =>
      rw [lastAction_append_some hl] at hid
      cases hid
      rcases h2.stored id hl with h3 | h3
      · exact Or.inl h3
      · exact Or.inr (List.mem_append.2 (Or.inr h3))
  · intro id hid hm
    cases hl : lastAction E2 id with
    | none =>
      rw [lastAction_append_none hl] at hid
      obtain ⟨s, hs⟩ := (mem_keys_iff S2 id).1 hm
      rcases h2.kept (id, s) hs with h3 | h3
      · exact h1.removed id hid (mem_keys_of_mem h3)
      · rw [hl] at h3; cases h3
    | some b =>
      rw [lastAction_append_some hl] at hid
      cases hid
      exact h2.removed id hl hm
  · intro id hid
    cases hl : lastAction E2 id with
    | none =>
      rw [lastAction_append_none hl] at hid
      exact h1.foot id hid
    | some b =>
      rcases h2.foot id (by rw [hl]; simp) with h3 | h3
      · obtain ⟨s, hs⟩ := (mem_keys_iff S1 id).1 h3
        rcases h1.kept (id, s) hs with h4 | h4
        · exact Or.inl (mem_keys_of_mem h4)
        · exact h1.foot id (by rw [h4]; simp)
      · exact Or.inr (Nat.lt_of_le_of_lt hc h3)
  · intro id hid
    rcases List.mem_append.1 hid with h3 | h3
    · exact h1.fresh id h3
    · exact Nat.lt_of_le_of_lt hc (h2.fresh id h3)

/-- the keys of the new slabs are old keys or fresh -/
theorem keys_new {c : Nat} {S S' : List (SlabID × ASlab)} {E : List Eff} {cr : List SlabID}
    (h : Acct c S S' E cr) : ∀ id ∈ AList.keys S', id ∈ AList.keys S ∨ c < id.idx := by
  intro id hid
  obtain ⟨s, hs⟩ := (mem_keys_iff S' id).1 hid
  rcases h.kept (id, s) hs with h1 | h1
  · exact Or.inl (mem_keys_of_mem h1)
  · exact h.foot id (by rw [h1]; simp)

end Acct

/-! ### the slabs of a tree: root entry and strict descendants -/

/-- content of the root slab of a tree -/
def ent : (d : Nat) → ATree d → ASlab
  | 0, (s : DataSlab) => .data s
  | _ + 1, (m : MetaSlab (ATree _)) => .index m.hdr m.childHdrs m.countSum m.root

/-- slabs of the strict descendants -/
def sub : (d : Nat) → ATree d → List (SlabID × ASlab)
  | 0, _ => []
  | d + 1, (m : MetaSlab (ATree d)) => m.children.flatMap (ATree.slabs d)

/-- IDs of the strict descendants -/
def subIds : (d : Nat) → ATree d → List SlabID
  | 0, _ => []
  | d + 1, (m : MetaSlab (ATree d)) => m.children.flatMap (slabIds d)

@[simp] theorem sub_zero (t : ATree 0) : sub 0 t = [] := rfl
@[simp] theorem sub_succ (d : Nat) (m : MetaSlab (ATree d)) :
    sub (d + 1) (ofMeta m) = m.children.flatMap (ATree.slabs d) := rfl
@[simp] theorem subIds_zero (t : ATree 0) : subIds 0 t = [] := rfl
@[simp] theorem subIds_succ (d : Nat) (m : MetaSlab (ATree d)) :
    subIds (d + 1) (ofMeta m) = m.children.flatMap (slabIds d) := rfl

theorem slabs_eq : ∀ (d : Nat) (t : ATree d), ATree.slabs d t = ((hdr d t).id, ent d t) :: sub d t
  | 0, t => by refine forall_ofData ?_ t; intro s; rfl
  | d + 1, t => by refine forall_ofMeta ?_ t; intro m; rfl

theorem slabIds_eq : ∀ (d : Nat) (t : ATree d), slabIds d t = (hdr d t).id :: subIds d t
  | 0, t => by refine forall_ofData ?_ t; intro s; rfl
  | d + 1, t => by refine forall_ofMeta ?_ t; intro m; rfl

theorem keys_flatMap {α β : Type} (f : α → List (SlabID × β)) (g : α → List SlabID) (L : List α)
    (h : ∀ x ∈ L, AList.keys (f x) = g x) : AList.keys (L.flatMap f) = L.flatMap g := by
  induction L with
  | nil => rfl
  | cons x L ih =>
    simp only [List.flatMap_cons, AList.keys, List.map_append] at ih ⊢
    rw [ih (fun y hy => h y (by simp [hy]))]
    have := h x (by simp)
    simp only [AList.keys] at this
    rw [this]

theorem keys_slabs : ∀ (d : Nat) (t : ATree d), AList.keys (ATree.slabs d t) = slabIds d t
  | 0, t => by refine forall_ofData ?_ t; intro s; rfl
  | d + 1, t => by
    refine forall_ofMeta ?_ t; intro m
    show m.hdr.id :: AList.keys (m.children.flatMap (ATree.slabs d)) = _
    rw [keys_flatMap _ (slabIds d) _ (fun x _ => keys_slabs d x)]
    rfl

theorem keys_sub : ∀ (d : Nat) (t : ATree d), AList.keys (sub d t) = subIds d t
  | 0, _ => rfl
  | d + 1, t => by
    refine forall_ofMeta ?_ t; intro m
    exact keys_flatMap _ (slabIds d) _ (fun x _ => keys_slabs d x)

theorem keys_flatMap_slabs {d : Nat} (L : List (ATree d)) :
    AList.keys (L.flatMap (ATree.slabs d)) = L.flatMap (slabIds d) :=
  keys_flatMap _ _ _ (fun x _ => keys_slabs d x)

theorem keys_append {α : Type} (A B : List (SlabID × α)) :
    AList.keys (A ++ B) = AList.keys A ++ AList.keys B := by simp [AList.keys]

theorem keys_cons' {α : Type} (p : SlabID × α) (A : List (SlabID × α)) :
    AList.keys (p :: A) = p.1 :: AList.keys A := rfl

end Atree
