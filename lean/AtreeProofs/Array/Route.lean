import AtreeProofs.Array.Restructure
/-
  Routing through an index slab: `scanLinear`, `scanBinary`, `childSlabIndexInfo`.
-/
namespace Atree
open Gen ATree MetaSlab

namespace MetaSlab

/-- `k` is the first position whose cumulative count exceeds `index`. -/
def Ans (index : Nat) (cs : List Nat) (k : Nat) : Prop :=
  k < cs.length ∧ (∀ j, j < k → cs.getD j 0 ≤ index) ∧ index < cs.getD k 0

theorem Ans.unique {index : Nat} {cs : List Nat} {k k' : Nat} (h : Ans index cs k)
    (h' : Ans index cs k') : k = k' := by
  rcases Nat.lt_trichotomy k k' with hlt | heq | hgt
  · have := h'.2.1 k hlt; have := h.2.2; omega
  · exact heq
  · have := h.2.1 k' hgt; have := h'.2.2; omega

theorem scanLinear_of_ans (index : Nat) : ∀ (cs : List Nat) (i k : Nat), Ans index cs k →
    scanLinear index cs i = i + k := by
  intro cs
  induction cs with
  | nil => intro i k h; simp [Ans] at h
  | cons x cs ih =>
    intro i k h
    unfold scanLinear
    cases k with
    | zero =>
      have : index < x := by simpa [Ans] using h.2.2
      simp [this]
    | succ k =>
      have h0 : x ≤ index := by simpa using h.2.1 0 (by omega)
      have : ¬ index < x := by omega
      simp only [this, if_false]
      rw [ih (i + 1) k ?_]
      · omega
      · refine ⟨by simpa using h.1, ?_, by simpa using h.2.2⟩
        intro j hj
        simpa using h.2.1 (j + 1) (by omega)

theorem getD_lt_of_pairwise {cs : List Nat} (hm : cs.Pairwise (· < ·)) {i j : Nat} (hij : i < j)
    (hj : j < cs.length) : cs.getD i 0 < cs.getD j 0 := by
  rw [List.pairwise_iff_getElem] at hm
  have hi : i < cs.length := by omega
  simp only [List.getD_eq_getElem?_getD, List.getElem?_eq_getElem hi, List.getElem?_eq_getElem hj,
    Option.getD_some]
  exact hm i j hi hj hij

theorem scanBinary_spec (index : Nat) (cs : List Nat) (hm : cs.Pairwise (· < ·))
    (hlast : ∃ last ∈ cs.getLast?, index < last) :
    ∀ (fuel low high : Nat), low ≤ high → high ≤ cs.length → high - low < fuel →
      (∀ j, j < low → cs.getD j 0 ≤ index) →
      (∀ j, high ≤ j → j < cs.length → index < cs.getD j 0) →
      Ans index cs (scanBinary index cs low high fuel) := by
  have hlast' : 0 < cs.length ∧ index < cs.getD (cs.length - 1) 0 := by
    obtain ⟨last, hl, hlt⟩ := hlast
    cases cs with
    | nil => simp at hl
    | cons x xs =>
      refine ⟨by simp, ?_⟩
      have : (x :: xs).getLast? = some ((x :: xs).getD ((x :: xs).length - 1) 0) := by
        rw [List.getLast?_eq_getElem?, List.getD_eq_getElem?_getD]
        have : (x :: xs).length - 1 < (x :: xs).length := by simp
        rw [List.getElem?_eq_getElem this]; rfl
      rw [this] at hl
      simp only [Option.mem_def, Option.some.injEq] at hl
      rw [hl]; exact hlt
  intro fuel
  induction fuel with
  | zero => intro low high _ _ h; omega
  | succ fuel ih =>
    intro low high hlh hhl hf hlo hhi
    unfold scanBinary
    by_cases hlt : low < high
    · simp only [hlt, if_true]
      have hmid1 : low ≤ (low + high) / 2 := by omega
      have hmid2 : (low + high) / 2 < high := by omega
      by_cases h1 : cs.getD ((low + high) / 2) 0 < index
      · simp only [h1, if_true]
        apply ih _ _ (by omega) hhl (by omega) _ hhi
        intro j hj
        rcases Nat.lt_or_ge j ((low + high) / 2) with h | h
        · have := getD_lt_of_pairwise hm h (by omega); omega
        · have : j = (low + high) / 2 := by omega
          rw [this]; omega
      · simp only [h1, if_false]
        by_cases h2 : cs.getD ((low + high) / 2) 0 > index
        · simp only [h2, if_true]
          apply ih _ _ (by omega) (by omega) (by omega) hlo
          intro j hj hjl
          rcases Nat.lt_or_ge ((low + high) / 2) j with h | h
          · have := getD_lt_of_pairwise hm h hjl; omega
          · have : j = (low + high) / 2 := by omega
            rw [this]; omega
        · simp only [h2, if_false]
          have heq : cs.getD ((low + high) / 2) 0 = index := by omega
          have hne : (low + high) / 2 + 1 < cs.length := by
            rcases Nat.lt_or_ge ((low + high) / 2 + 1) cs.length with h | h
            · exact h
            · have : (low + high) / 2 = cs.length - 1 := by omega
              rw [this] at heq; omega
          refine ⟨hne, ?_, ?_⟩
          · intro j hj
            rcases Nat.lt_or_ge j ((low + high) / 2) with h | h
            · have := getD_lt_of_pairwise hm h (by omega); omega
            · have : j = (low + high) / 2 := by omega
              rw [this]; omega
          · have := getD_lt_of_pairwise hm (show (low + high) / 2 < (low + high) / 2 + 1 by omega) hne
            omega
    · simp only [hlt, if_false]
      have hEq : low = high := by omega
      have hl : low < cs.length := by
        rcases Nat.lt_or_ge low cs.length with h | h
        · exact h
        · have := hlo (cs.length - 1) (by omega); omega
      exact ⟨hl, hlo, hhi low (by omega) hl⟩

theorem prefixSums_getD (hs : List Hdr) : ∀ (acc j : Nat), j < hs.length →
    (prefixSums hs acc).getD j 0 = acc + sumCounts (hs.take (j + 1)) := by
  induction hs with
  | nil => intro acc j h; simp at h
  | cons h hs ih =>
    intro acc j hj
    cases j with
    | zero => simp [prefixSums_cons, sumCounts_cons, sumCounts_nil]
    | succ j =>
      simp only [prefixSums_cons, List.getD_cons_succ, List.take_succ_cons, sumCounts_cons]
      rw [ih _ _ (by simpa using hj)]; omega

end MetaSlab

variable {d : Nat}

theorem route_split (X : List (ATree d)) (hpos : ∀ t ∈ X, 1 ≤ (hdr d t).count) :
    ∀ (i : Nat), i < sumCounts (X.map (hdr d)) →
    ∃ A child B, X = A ++ child :: B ∧ sumCounts (A.map (hdr d)) ≤ i ∧
      i < sumCounts (A.map (hdr d)) + (hdr d child).count := by
  induction X with
  | nil => intro i hi; simp [sumCounts_nil] at hi
  | cons x X ih =>
    intro i hi
    simp only [List.map_cons, sumCounts_cons] at hi
    by_cases h : i < (hdr d x).count
    · exact ⟨[], x, X, rfl, by simp [sumCounts_nil], by simpa [sumCounts_nil] using h⟩
    · obtain ⟨A, child, B, h1, h2, h3⟩ :=
        ih (fun t ht => hpos t (by simp [ht])) (i - (hdr d x).count) (by omega)
      refine ⟨x :: A, child, B, by simp [h1], ?_, ?_⟩
      · simp only [List.map_cons, sumCounts_cons]; omega
      · simp only [List.map_cons, sumCounts_cons]; omega

/-- `childSlabIndexInfo` finds the child that holds position `i` (both scanning branches). -/
theorem route_spec (m : MetaSlab (ATree d)) (hb : Book m)
    (hc : m.hdr.count = sumCounts m.childHdrs)
    (hpos : ∀ t ∈ m.children, 1 ≤ (hdr d t).count) (i : Nat) (hi : i < m.hdr.count) :
    ∃ A child B, m.children = A ++ child :: B ∧ sumCounts (A.map (hdr d)) ≤ i ∧
      i < sumCounts (A.map (hdr d)) + (hdr d child).count ∧
      m.childSlabIndexInfo i = .ok (A.length, i - sumCounts (A.map (hdr d))) := by
  rw [hc, hb.hdrs_eq] at hi
  obtain ⟨A, child, B, hch, h1, h2⟩ := route_split m.children hpos i hi
  refine ⟨A, child, B, hch, h1, h2, ?_⟩
  have hh : m.childHdrs = A.map (hdr d) ++ hdr d child :: B.map (hdr d) := by
    rw [hb.hdrs_eq, hch]; simp
  have hcs : m.countSum = prefixSums (A.map (hdr d)) 0 ++
      (sumCounts (A.map (hdr d)) + (hdr d child).count) ::
        prefixSums (B.map (hdr d)) (sumCounts (A.map (hdr d)) + (hdr d child).count) := by
    rw [hb.sums_eq, hh, prefixSums_mid]
  have hkh : (A.map (hdr d)).length = A.length := by simp
  have hkc : (prefixSums (A.map (hdr d)) 0).length = A.length := by simp [prefixSums_length]
  have hlen : m.countSum.length = m.childHdrs.length := by rw [hb.sums_eq, prefixSums_length]
  have hposh : ∀ h ∈ m.childHdrs, 1 ≤ h.count := by
    intro h hh'
    rw [hb.hdrs_eq] at hh'
    obtain ⟨t, ht, rfl⟩ := List.mem_map.1 hh'
    exact hpos t ht
  have hpw := (prefixSums_pairwise m.childHdrs 0 hposh).1
  rw [← hb.sums_eq] at hpw
  have hans : Ans i m.countSum A.length := by
    refine ⟨by rw [hlen, hh]; simp, ?_, ?_⟩
    · intro j hj
      rw [hb.sums_eq, prefixSums_getD _ _ _ (by rw [hh]; simp; omega), hh, Nat.zero_add]
      have : (A.map (hdr d) ++ hdr d child :: B.map (hdr d)).take (j + 1)
          = (A.map (hdr d)).take (j + 1) := by
        rw [List.take_append_of_le_length (by simp; omega)]
      rw [this]
      have := sumCounts_take_add_drop (j + 1) (A.map (hdr d))
      omega
    · rw [hcs, getD_mid hkc]; omega
  have hk : (if m.countSum.length < linearScanThreshold then scanLinear i m.countSum 0
      else scanBinary i m.countSum 0 m.countSum.length (m.countSum.length + 1)) = A.length := by
    split
    · rw [scanLinear_of_ans i _ 0 _ hans]; omega
    · have hl : ∃ last ∈ m.countSum.getLast?, i < last := by
        have hne : m.countSum ≠ [] := by rw [hcs]; simp
        refine ⟨m.countSum.getLast hne, by simp [List.getLast?_eq_some_getLast hne], ?_⟩
        have e : m.countSum.getLast hne = m.countSum.getD (m.countSum.length - 1) 0 := by
          rw [List.getLast_eq_getElem, List.getD_eq_getElem?_getD,
            List.getElem?_eq_getElem (by have := hans.1; omega)]
          rfl
        rw [e]
        have hA : A.length < m.countSum.length := hans.1
        rcases Nat.lt_or_ge A.length (m.countSum.length - 1) with h | h
        · have := getD_lt_of_pairwise hpw h (by omega)
          have := hans.2.2; omega
        · have : A.length = m.countSum.length - 1 := by omega
          rw [← this]; exact hans.2.2
      have := scanBinary_spec i m.countSum hpw hl (m.countSum.length + 1) 0 m.countSum.length
        (Nat.zero_le _) (Nat.le_refl _) (by omega) (by intro j hj; omega) (by intro j h1 h2; omega)
      exact (this.unique hans)
  unfold childSlabIndexInfo
  have : ¬ i ≥ m.hdr.count := by rw [hc, hb.hdrs_eq]; omega
  simp only [this, if_false, hk]
  rw [hh, hcs, getElem?_mid hkh, getElem?_mid hkc]
  simp only
  congr 2
  omega

theorem route_err {α : Type} (m : MetaSlab α) (i : Nat) (hi : m.hdr.count ≤ i) :
    m.childSlabIndexInfo i = .error .indexOutOfBounds := by
  unfold childSlabIndexInfo
  simp [hi]

end Atree
