import AtreeProofs.Array.Top
import AtreeProofs.AListLemmas
/-
  `PopIterate` and the iterators: traversal along the sibling links agrees with positional access.
-/
namespace Atree
open Gen ATree MetaSlab

variable {T : Nat}

/-! ### popIterate -/

theorem reverse_flatMap_reverse {α β : Type} (g : α → List β) (L : List α) :
    L.reverse.flatMap (fun x => (g x).reverse) = (L.flatMap g).reverse := by
  induction L with
  | nil => rfl
  | cons x L ih => simp [List.flatMap_append, ih]

theorem popIterate_spec : ∀ (d : Nat) (t : ATree d) (c : Ctx),
    (ATree.popIterate d t c).1 = (flatten d t).reverse ∧ (ATree.popIterate d t c).2.2.ctr = c.ctr
  | 0, t, c => by
    refine forall_ofData ?_ t; intro s
    exact ⟨rfl, rfl⟩
  | d + 1, t, c => by
    refine forall_ofMeta ?_ t; intro m
    have key : ∀ (L : List (ATree d)) (acc : List Elem × Ctx),
        (L.foldl (fun (acc : List Elem × Ctx) child =>
          (acc.1 ++ (ATree.popIterate d child acc.2).1,
           (ATree.popIterate d child acc.2).2.2.emit (.remove (hdr d child).id))) acc).1
          = acc.1 ++ L.flatMap (fun ch => (flatten d ch).reverse) ∧
        (L.foldl (fun (acc : List Elem × Ctx) child =>
          (acc.1 ++ (ATree.popIterate d child acc.2).1,
           (ATree.popIterate d child acc.2).2.2.emit (.remove (hdr d child).id))) acc).2.ctr
          = acc.2.ctr := by
      intro L
      induction L with
      | nil => intro acc; simp
      | cons x L ih =>
        intro acc
        simp only [List.foldl_cons, List.flatMap_cons]
        obtain ⟨h1, h2⟩ := ih (acc.1 ++ (ATree.popIterate d x acc.2).1,
           (ATree.popIterate d x acc.2).2.2.emit (.remove (hdr d x).id))
        obtain ⟨p1, p2⟩ := popIterate_spec d x acc.2
        rw [h1, h2]
        simp only [p1, Ctx.emit_ctr, p2, List.append_assoc, and_self]
    obtain ⟨k1, k2⟩ := key m.children.reverse ([], c)
    constructor
    · show (m.children.reverse.foldl _ ([], c)).1 = _
      rw [k1, flatten_succ, reverse_flatMap_reverse]; rfl
    · show (m.children.reverse.foldl _ ([], c)).2.ctr = _
      rw [k2]

theorem arr_popIterate_fst (a : Arr) (c : Ctx) :
    (a.popIterate c).1 = (ATree.popIterate a.d a.root c).1 := rfl

theorem arr_popIterate_ctr (a : Arr) (c : Ctx) : (a.popIterate c).2.2.ctr = c.ctr := by
  have h := (popIterate_spec a.d a.root c).2
  show (if a.isInlined = true then (ATree.popIterate a.d a.root c).2.2
        else (ATree.popIterate a.d a.root c).2.2.emit _).ctr = _
  split
  · exact h
  · exact h

theorem arr_popIterate_inv (hT : legalThreshold T = true) (a : Arr) (c : Ctx) (h : ArrInv T a c.ctr) :
    ArrInv T (a.popIterate c).2.1 (a.popIterate c).2.2.ctr := by
  have F := thrFacts hT
  rw [arr_popIterate_ctr]
  have hroot := h.ids.2 a.rootID (hdr_id_mem_slabIds a.d a.root)
  show ArrInv T ⟨0, ofData (⟨⟨a.rootID,
      if a.isInlined = true then inlinedArrayDataSlabPrefixSize else arrayRootDataSlabPrefixSize, 0⟩,
      SlabID.undef, [], true, a.isInlined⟩ : DataSlab), a.ty⟩ c.ctr
  rw [h.standalone]
  simp only [Bool.false_eq_true, if_false]
  refine ⟨(treeInv_zero T true ⟨⟨a.rootID, arrayRootDataSlabPrefixSize, 0⟩,
      SlabID.undef, [], true, false⟩).2 ⟨rfl, ?_, ?_, rfl, ?_, ?_, ?_⟩, rfl, ?_, rfl, ?_⟩
  · simp [DataSlab.prefixSize, sumSizes_nil]
  · intro e he; simp at he
  · intro hh; simp at hh
  · simp only [F.rpfx, F.maxE]; have := F.lo; omega
  · intro hh; simp at hh
  · show IdsOk a.rootID.addr c.ctr [a.rootID]
    exact ⟨by simp, fun id hid => by simp at hid; subst hid; exact ⟨rfl, hroot.2.1, hroot.2.2⟩⟩
  · show (0 : Nat) < _
    omega

theorem arr_popIterate_refines (a : Arr) (c : Ctx) :
    (a.popIterate c).1 = a.toList.reverse ∧ (a.popIterate c).2.1.toList = [] ∧
    (a.popIterate c).2.1.rootID = a.rootID ∧ (a.popIterate c).2.1.ty = a.ty :=
  ⟨(popIterate_spec a.d a.root c).1, rfl, rfl, rfl⟩

/-! ### leaves -/

theorem leaves_flatMap_elems : ∀ (d : Nat) (t : ATree d),
    (Arr.leaves d t).flatMap (·.elems) = flatten d t
  | 0, t => by refine forall_ofData ?_ t; intro s; simp
  | d + 1, t => by
    refine forall_ofMeta ?_ t; intro m
    simp only [leaves_succ, flatten_succ, List.flatMap_assoc]
    congr 1
    funext x
    exact leaves_flatMap_elems d x

theorem sublist_flatMap {α β : Type} (f g : α → List β) (L : List α)
    (h : ∀ x ∈ L, (f x).Sublist (g x)) : (L.flatMap f).Sublist (L.flatMap g) := by
  induction L with
  | nil => simp
  | cons x L ih =>
    simp only [List.flatMap_cons]
    exact List.Sublist.append (h x (by simp)) (ih (fun y hy => h y (by simp [hy])))

theorem leaves_ids_sublist : ∀ (d : Nat) (t : ATree d),
    ((Arr.leaves d t).map (·.hdr.id)).Sublist (slabIds d t)
  | 0, t => by refine forall_ofData ?_ t; intro s; simp
  | d + 1, t => by
    refine forall_ofMeta ?_ t; intro m
    simp only [leaves_succ, slabIds_succ, List.map_flatMap]
    apply List.Sublist.cons
    exact sublist_flatMap _ _ _ (fun x _ => leaves_ids_sublist d x)

/-! ### the read-only iterator -/

theorem find?_next (pre rest : List DataSlab) (cur nxt : DataSlab)
    (hnd : ((pre ++ cur :: nxt :: rest).map (·.hdr.id)).Nodup) :
    (pre ++ cur :: nxt :: rest).find? (fun s => s.hdr.id == nxt.hdr.id) = some nxt := by
  have hne : ∀ s ∈ pre ++ [cur], s.hdr.id ≠ nxt.hdr.id := by
    intro s hs heq
    have : (pre ++ cur :: nxt :: rest).map (·.hdr.id)
        = (pre ++ [cur]).map (·.hdr.id) ++ nxt.hdr.id :: rest.map (·.hdr.id) := by simp
    rw [this, List.nodup_append] at hnd
    exact hnd.2.2 s.hdr.id (List.mem_map.2 ⟨s, hs, rfl⟩) nxt.hdr.id (by simp) heq
  have hsplit : pre ++ cur :: nxt :: rest = (pre ++ [cur]) ++ nxt :: rest := by simp
  rw [hsplit]
  generalize pre ++ [cur] = P at hne
  induction P with
  | nil => simp
  | cons p P ih =>
    have hp : (p.hdr.id == nxt.hdr.id) = false := by
      simpa using hne p (by simp)
    simp only [List.cons_append, List.find?_cons, hp]
    exact ih (fun s hs => hne s (by simp [hs]))

theorem roIterFrom_spec : ∀ (rest pre : List DataSlab) (cur : DataSlab) (fuel idx remaining : Nat),
    LeafChain (cur :: rest) → ((pre ++ cur :: rest).map (·.hdr.id)).Nodup →
    (∀ s ∈ pre ++ cur :: rest, s.hdr.id ≠ SlabID.undef) →
    rest.length + 1 ≤ fuel → idx ≤ cur.elems.length →
    Arr.roIterFrom (pre ++ cur :: rest) fuel cur idx remaining
      = (cur.elems.drop idx ++ rest.flatMap (·.elems)).take remaining := by
  intro rest
  induction rest with
  | nil =>
    intro pre cur fuel idx remaining hchain _ _ hfuel _
    obtain ⟨f, rfl⟩ : ∃ f, fuel = f + 1 := ⟨fuel - 1, by simp at hfuel; omega⟩
    have hnext : cur.next = SlabID.undef := hchain
    unfold Arr.roIterFrom
    by_cases h0 : remaining = 0
    · simp [h0]
    · simp only [h0, if_false, List.flatMap_nil, List.append_nil]
      by_cases h1 : (cur.elems.drop idx).length ≥ remaining
      · simp only [h1, if_true]
      · simp only [h1, if_false, hnext, if_true]
        rw [List.take_of_length_le (by omega)]
  | cons nxt rest ih =>
    intro pre cur fuel idx remaining hchain hnd hdef hfuel hidx
    obtain ⟨f, rfl⟩ : ∃ f, fuel = f + 1 := ⟨fuel - 1, by simp at hfuel; omega⟩
    obtain ⟨hnext, hchain'⟩ : cur.next = nxt.hdr.id ∧ LeafChain (nxt :: rest) := hchain
    have hnu : ¬ nxt.hdr.id = SlabID.undef := hdef nxt (by simp)
    unfold Arr.roIterFrom
    by_cases h0 : remaining = 0
    · simp [h0]
    · simp only [h0, if_false]
      by_cases h1 : (cur.elems.drop idx).length ≥ remaining
      · simp only [h1, if_true]
        rw [List.take_append_of_le_length h1]
      · simp only [h1, if_false, hnext, hnu, find?_next pre rest cur nxt hnd]
        have hsplit : pre ++ cur :: nxt :: rest = (pre ++ [cur]) ++ nxt :: rest := by simp
        rw [hsplit, ih (pre ++ [cur]) nxt f 0 _ hchain' (by rw [← hsplit]; exact hnd)
          (by rw [← hsplit]; exact hdef) (by simp at hfuel ⊢; omega) (Nat.zero_le _)]
        simp only [List.drop_zero, List.flatMap_cons]
        rw [List.take_append (l₁ := cur.elems.drop idx),
          List.take_of_length_le (l := cur.elems.drop idx) (by omega)]

theorem iterReadOnly_eq (a : Arr) (ctr : Nat) (h : ArrInv T a ctr) : a.iterReadOnly = a.toList := by
  obtain ⟨d, t, ty⟩ := a
  have hfl := leaves_flatMap_elems d t
  have hcount : (hdr d t).count = (flatten d t).length := h.shape.count_eq_length
  have hnd : ((Arr.leaves d t).map (·.hdr.id)).Nodup := h.ids.1.sublist (leaves_ids_sublist d t)
  have hdef : ∀ s ∈ Arr.leaves d t, s.hdr.id ≠ SlabID.undef := by
    intro s hs heq
    have hm : s.hdr.id ∈ slabIds d t :=
      (leaves_ids_sublist d t).subset (List.mem_map.2 ⟨s, hs, rfl⟩)
    have := (h.ids.2 _ hm).2.1
    rw [heq] at this
    simp [SlabID.undef] at this
  have hchain : LeafChain (Arr.leaves d t) := h.chain
  show (match Arr.leaves d t with
      | [] => []
      | first :: _ => if (hdr d t).count = 0 then []
          else Arr.roIterFrom (Arr.leaves d t) ((Arr.leaves d t).length + 1) first 0 (hdr d t).count)
      = flatten d t
  match hl : Arr.leaves d t with
  | [] => rw [← hfl, hl]; rfl
  | first :: rest =>
    simp only
    rw [hl] at hnd hdef hchain hfl
    by_cases h0 : (hdr d t).count = 0
    · rw [if_pos h0]
      have : (flatten d t).length = 0 := by omega
      exact (List.eq_nil_of_length_eq_zero this).symm
    · rw [if_neg h0]
      have := roIterFrom_spec rest [] first ((first :: rest).length + 1) 0 (hdr d t).count hchain
        (by simpa using hnd) (by simpa using hdef) (by simp) (Nat.zero_le _)
      simp only [List.nil_append, List.drop_zero] at this
      rw [this, ← List.flatMap_cons (f := fun s : DataSlab => s.elems), hfl, hcount]
      exact List.take_of_length_le (Nat.le_refl _)

/-! ### the mutable iterator -/

theorem mapM_ok {α β : Type} (f : α → Except AErr β) (g : α → β) (l : List α)
    (h : ∀ x ∈ l, f x = .ok (g x)) : l.mapM f = .ok (l.map g) := by
  induction l with
  | nil => rfl
  | cons x l ih =>
    rw [List.mapM_cons, h x (by simp), ih (fun y hy => h y (by simp [hy]))]
    rfl

theorem iterMutable_eq (hT : legalThreshold T = true) (a : Arr) (ctr : Nat) (h : ArrInv T a ctr) :
    a.iterMutable = .ok a.toList := by
  obtain ⟨d, t, ty⟩ := a
  have hcount : (hdr d t).count = (flatten d t).length := h.shape.count_eq_length
  have hget : ∀ j ∈ List.range ((hdr d t).count - 0),
      Arr.get ⟨d, t, ty⟩ (0 + j) = .ok ((flatten d t).getD j default) := by
    intro j hj
    simp only [List.mem_range, Nat.sub_zero] at hj
    rw [Nat.zero_add]
    exact (get_gen hT d t true j h.shape).1 (by omega)
  have hcheck : Arr.checkRange ⟨d, t, ty⟩ 0 (hdr d t).count = .ok () := by
    unfold Arr.checkRange
    show (if (decide (0 > (hdr d t).count) || decide ((hdr d t).count > (hdr d t).count)) = true then _
      else if 0 > (hdr d t).count then _ else _) = _
    simp
  show (Arr.checkRange ⟨d, t, ty⟩ 0 (hdr d t).count >>= fun _ =>
    (List.range ((hdr d t).count - 0)).mapM (fun j => Arr.get ⟨d, t, ty⟩ (0 + j))) = _
  rw [hcheck]
  show (List.range ((hdr d t).count - 0)).mapM (fun j => Arr.get ⟨d, t, ty⟩ (0 + j)) = _
  rw [mapM_ok _ _ _ hget]
  congr 1
  show _ = flatten d t
  apply List.ext_getElem
  · simp [hcount]
  · intro i h1 h2
    simp only [List.getElem_map, List.getElem_range, List.getD_eq_getElem?_getD,
      List.getElem?_eq_getElem h2, Option.getD_some]

end Atree
