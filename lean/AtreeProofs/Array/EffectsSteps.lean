import AtreeProofs.Array.Effects
/-
  Effect-log accounting (C09), step layer: what `split`, `merge`, the two rebalancing moves do to
  the slabs of the strict descendants (nothing) and to the IDs; which repair action
  `mergeOrRebalanceChildSlab` takes; and the accounts of the parent's repair steps
  (`splitChildSlab`, `rebalanceChildren`, `mergeChildren`, plain store).
-/
namespace Atree
open Gen ATree MetaSlab

/-! ### logs without `remove` -/

theorem lastAction_no_remove (E : List Eff) (h : ∀ e ∈ E, ∀ i, e ≠ .remove i) (id : SlabID) :
    (lastAction E id = some true ↔ Eff.store id ∈ E) ∧ lastAction E id ≠ some false := by
  induction E with
  | nil => simp
  | cons e E ih =>
    have ih := ih (fun e he => h e (by simp [he]))
    rw [lastAction_cons]
    cases hl : lastAction E id with
    | some b =>
      cases b with
      | true => simp [ih.1.1 hl]
      | false => exact absurd hl ih.2
    | none =>
      have hn : Eff.store id ∉ E := fun hm => by rw [ih.1.2 hm] at hl; cases hl
      cases e with
      | store i =>
        by_cases hi : i = id
        · subst hi; simp [actStep]
        · have : ¬ id = i := fun h => hi h.symm
          simp [actStep, hi, hn, this]
      | remove i => exact absurd rfl (h _ (by simp) i)
      | alloc a i => simp [actStep, hn]

theorem split_struct : ∀ (d : Nat) (t : ATree d) (c : Ctx) (l r : ATree d) (c' : Ctx),
    ATree.split d t c = .ok (l, r, c') →
    sub d l ++ sub d r = sub d t ∧ (hdr d l).id = (hdr d t).id ∧
    (hdr d r).id = ⟨(hdr d t).id.addr, c.ctr + 1⟩ ∧ c' = (c.alloc (hdr d t).id.addr).2
  | 0, t, c, l, r, c' => by
    refine forall_ofData ?_ t; intro s h
    have h : DataSlab.split s c = .ok (l, r, c') := h
    unfold DataSlab.split at h
    split at h
    · cases h
    · simp only [Except.ok.injEq] at h
      obtain ⟨rfl, rfl, rfl⟩ := h
      exact ⟨rfl, rfl, rfl, rfl⟩
  | d + 1, t, c, l, r, c' => by
    refine forall_ofMeta ?_ t; intro m h
    have h : MetaSlab.split m c = .ok (l, r, c') := h
    unfold MetaSlab.split at h
    split at h
    · cases h
    · simp only [Except.ok.injEq] at h
      obtain ⟨rfl, rfl, rfl⟩ := h
      refine ⟨?_, rfl, rfl, rfl⟩
      show (m.children.take _).flatMap _ ++ (m.children.drop _).flatMap _ = m.children.flatMap _
      rw [← List.flatMap_append, List.take_append_drop]

theorem merge_struct : ∀ (d : Nat) (l r : ATree d),
    sub d (ATree.merge d l r) = sub d l ++ sub d r ∧ (hdr d (ATree.merge d l r)).id = (hdr d l).id
  | 0, l, r => ⟨rfl, rfl⟩
  | d + 1, l, r => by
    refine forall_ofMeta ?_ l; intro l
    refine forall_ofMeta ?_ r; intro r
    refine ⟨?_, rfl⟩
    show (l.children ++ r.children).flatMap _ = _
    rw [List.flatMap_append]; rfl

theorem lend_struct (T : Nat) : ∀ (d : Nat) (l r : ATree d),
    sub d (ATree.lendToRight T d l r).1 ++ sub d (ATree.lendToRight T d l r).2 = sub d l ++ sub d r ∧
    (hdr d (ATree.lendToRight T d l r).1).id = (hdr d l).id ∧
    (hdr d (ATree.lendToRight T d l r).2).id = (hdr d r).id
  | 0, l, r => ⟨rfl, rfl, rfl⟩
  | d + 1, l, r => by
    refine forall_ofMeta ?_ l; intro l
    refine forall_ofMeta ?_ r; intro r
    refine ⟨?_, rfl, rfl⟩
    show (l.children.take _).flatMap _ ++ (l.children.drop _ ++ r.children).flatMap _ = l.children.flatMap _ ++ r.children.flatMap _
    rw [List.flatMap_append, ← List.append_assoc, ← List.flatMap_append, List.take_append_drop]

theorem borrow_struct (T : Nat) : ∀ (d : Nat) (l r : ATree d),
    sub d (ATree.borrowFromRight T d l r).1 ++ sub d (ATree.borrowFromRight T d l r).2 = sub d l ++ sub d r ∧
    (hdr d (ATree.borrowFromRight T d l r).1).id = (hdr d l).id ∧
    (hdr d (ATree.borrowFromRight T d l r).2).id = (hdr d r).id
  | 0, l, r => ⟨rfl, rfl, rfl⟩
  | d + 1, l, r => by
    refine forall_ofMeta ?_ l; intro l
    refine forall_ofMeta ?_ r; intro r
    refine ⟨?_, rfl, rfl⟩
    show (l.children ++ r.children.take _).flatMap _ ++ (r.children.drop _).flatMap _ = l.children.flatMap _ ++ r.children.flatMap _
    rw [List.flatMap_append, List.append_assoc, ← List.flatMap_append, List.take_append_drop]

/-! ### which repair action `mergeOrRebalanceChildSlab` takes -/
section
variable {T d : Nat}

theorem mor_cases (m : MetaSlab (ATree d)) (child : ATree d) (k u : Nat) (c : Ctx)
    (m2 : MetaSlab (ATree d)) (c2 : Ctx)
    (h : mergeOrRebalanceChildSlab T m child k u c = .ok (m2, c2)) :
    ∃ l r li, ((li = k ∧ l = child ∧ m.children[k + 1]? = some r) ∨
               (li + 1 = k ∧ m.children[li]? = some l ∧ r = child)) ∧
      ((∃ flag, (m2, c2) = rebalanceChildren T m l r li (li + 1) flag c) ∨
        (m2, c2) = mergeChildren m l r li (li + 1) c) := by
  unfold mergeOrRebalanceChildSlab at h
  simp only at h
  have hL : ∀ l, (if k > 0 then m.children[k - 1]? else none) = some l →
      (k - 1) + 1 = k ∧ m.children[k - 1]? = some l := by
    intro l hl
    split at hl
    · exact ⟨by omega, hl⟩
    · cases hl
  have hR : ∀ r, (if k + 1 < m.childHdrs.length then m.children[k + 1]? else none) = some r →
      m.children[k + 1]? = some r := by
    intro r hr
    split at hr
    · exact hr
    · cases hr
  generalize (if k > 0 then m.children[k - 1]? else none) = L at h hL
  generalize (if k + 1 < m.childHdrs.length then m.children[k + 1]? else none) = R at h hR
  have left : ∀ l, L = some l → ∀ x, ((∃ flag, x = rebalanceChildren T m l child (k - 1) k flag c) ∨
        x = mergeChildren m l child (k - 1) k c) → (m2, c2) = x → 
      ∃ l r li, ((li = k ∧ l = child ∧ m.children[k + 1]? = some r) ∨
               (li + 1 = k ∧ m.children[li]? = some l ∧ r = child)) ∧
      ((∃ flag, (m2, c2) = rebalanceChildren T m l r li (li + 1) flag c) ∨
        (m2, c2) = mergeChildren m l r li (li + 1) c) := by
    intro l hl x hx he
    obtain ⟨h1, h2⟩ := hL l hl
    refine ⟨l, child, k - 1, Or.inr ⟨h1, h2, rfl⟩, ?_⟩
    rw [h1, he]; exact hx
  have right : ∀ r, R = some r → ∀ x, ((∃ flag, x = rebalanceChildren T m child r k (k + 1) flag c) ∨
        x = mergeChildren m child r k (k + 1) c) → (m2, c2) = x → 
      ∃ l r li, ((li = k ∧ l = child ∧ m.children[k + 1]? = some r) ∨
               (li + 1 = k ∧ m.children[li]? = some l ∧ r = child)) ∧
      ((∃ flag, (m2, c2) = rebalanceChildren T m l r li (li + 1) flag c) ∨
        (m2, c2) = mergeChildren m l r li (li + 1) c) := by
    intro r hr x hx he
    refine ⟨child, r, k, Or.inl ⟨rfl, rfl, hR r hr⟩, ?_⟩
    rw [he]; exact hx
  cases L with
  | none =>
    cases R with
    | none => 
      simp only at h
      split at h <;> cases h
    | some r =>
      simp only at h
      split at h
      · simp only [Except.ok.injEq] at h
        exact right r rfl _ (Or.inl ⟨_, rfl⟩) h.symm
      · simp only [Except.ok.injEq] at h
        exact right r rfl _ (Or.inr rfl) h.symm
  | some l =>
    cases R with
    | none =>
      simp only at h
      split at h
      · simp only [Except.ok.injEq] at h
        exact left l rfl _ (Or.inl ⟨_, rfl⟩) h.symm
      · simp only [Except.ok.injEq] at h
        exact left l rfl _ (Or.inr rfl) h.symm
    | some r =>
      simp only at h
      split at h
      · split at h
        · simp only [Except.ok.injEq] at h
          exact right r rfl _ (Or.inl ⟨_, rfl⟩) h.symm
        · split at h
          · simp only [Except.ok.injEq] at h
            exact left l rfl _ (Or.inl ⟨_, rfl⟩) h.symm
          · split at h
            · simp only [Except.ok.injEq] at h
              exact left l rfl _ (Or.inl ⟨_, rfl⟩) h.symm
            · simp only [Except.ok.injEq] at h
              exact right r rfl _ (Or.inl ⟨_, rfl⟩) h.symm
      · split at h
        · simp only [Except.ok.injEq] at h
          exact left l rfl _ (Or.inr rfl) h.symm
        · simp only [Except.ok.injEq] at h
          exact right r rfl _ (Or.inr rfl) h.symm
end

/-! ### accounts of the parent's repair steps -/
section
variable {T d : Nat}

/-- root entries of a list of sibling trees -/
def roots (d : Nat) (X : List (ATree d)) : List (SlabID × ASlab) :=
  X.map (fun t => ((hdr d t).id, ent d t))

theorem keys_roots (X : List (ATree d)) : AList.keys (roots d X) = X.map (fun t => (hdr d t).id) := by
  simp [roots, AList.keys]

theorem mem_flatMap_slabs (X : List (ATree d)) (p : SlabID × ASlab) :
    p ∈ X.flatMap (ATree.slabs d) ↔ p ∈ roots d X ∨ p ∈ X.flatMap (sub d) := by
  induction X with
  | nil => simp [roots]
  | cons x X ih =>
    simp only [List.flatMap_cons, List.mem_append, ih, slabs_eq d x, List.mem_cons, roots, List.map_cons]
    constructor
    · rintro ((h | h) | (h | h))
      · exact Or.inl (Or.inl h)
      · exact Or.inr (Or.inl h)
      · exact Or.inl (Or.inr h)
      · exact Or.inr (Or.inr h)
    · rintro ((h | h) | (h | h))
      · exact Or.inl (Or.inl h)
      · exact Or.inr (Or.inl h)
      · exact Or.inl (Or.inr h)
      · exact Or.inr (Or.inr h)

theorem perm_roots_subs (X : List (ATree d)) :
    (X.flatMap (slabIds d)).Perm (X.map (fun t => (hdr d t).id) ++ X.flatMap (subIds d)) := by
  induction X with
  | nil => simp
  | cons x X ih =>
    simp only [List.flatMap_cons, List.map_cons, slabIds_eq d x, List.cons_append]
    refine List.Perm.cons _ ?_
    have h1 : (subIds d x ++ List.flatMap (slabIds d) X).Perm
        (subIds d x ++ (X.map (fun t => (hdr d t).id) ++ X.flatMap (subIds d))) :=
      List.Perm.append_left _ ih
    refine h1.trans ?_
    rw [← List.append_assoc, ← List.append_assoc]
    exact List.Perm.append_right _ List.perm_append_comm

/-- Replacing the siblings `X` by `X'` below the root `rid`: it is enough to account for the root
    entries, provided the strict descendants of the siblings are the same slabs. -/
theorem acct_local {c : Nat} {rid : SlabID} {e e' : ASlab} {P Q X X' : List (ATree d)} {E : List Eff}
    (hsub : ∀ p, p ∈ X'.flatMap (sub d) ↔ p ∈ X.flatMap (sub d))
    (hnd : (rid :: (P ++ X ++ Q).flatMap (slabIds d)).Nodup)
    (hle : ∀ id ∈ rid :: (P ++ X ++ Q).flatMap (slabIds d), id.idx ≤ c)
    (h : Acct c ((rid, e) :: roots d X) ((rid, e') :: roots d X') E []) :
    Acct c ((rid, e) :: (P ++ X ++ Q).flatMap (ATree.slabs d))
      ((rid, e') :: (P ++ X' ++ Q).flatMap (ATree.slabs d)) E [] := by
  refine h.frame (F := P.flatMap (ATree.slabs d) ++ X.flatMap (sub d) ++ Q.flatMap (ATree.slabs d)) ?_ ?_ ?_
  · -- the frame is disjoint from the touched slabs
    have hperm : (rid :: (P ++ X ++ Q).flatMap (slabIds d)).Perm
        ((rid :: X.map (fun t => (hdr d t).id)) ++
          (P.flatMap (slabIds d) ++ X.flatMap (subIds d) ++ Q.flatMap (slabIds d))) := by
      simp only [List.flatMap_append, List.cons_append]
      refine List.Perm.cons _ ?_
      have h1 := perm_roots_subs X
      have h2 : (P.flatMap (slabIds d) ++ X.flatMap (slabIds d) ++ Q.flatMap (slabIds d)).Perm
          (P.flatMap (slabIds d) ++ (X.map (fun t => (hdr d t).id) ++ X.flatMap (subIds d)) ++ Q.flatMap (slabIds d)) :=
        List.Perm.append_right _ (List.Perm.append_left _ h1)
      refine h2.trans ?_
      simp only [List.append_assoc]
      exact List.perm_append_comm_assoc _ _ _
    have hnd' := hperm.nodup_iff.1 hnd
    have hkF : AList.keys (P.flatMap (ATree.slabs d) ++ X.flatMap (sub d) ++ Q.flatMap (ATree.slabs d))
        = P.flatMap (slabIds d) ++ X.flatMap (subIds d) ++ Q.flatMap (slabIds d) := by
      rw [keys_append, keys_append, keys_flatMap_slabs, keys_flatMap_slabs,
        keys_flatMap _ (subIds d) _ (fun x _ => keys_sub d x)]
    have hkN : AList.keys ((rid, e) :: roots d X) = rid :: X.map (fun t => (hdr d t).id) := by
      rw [keys_cons', keys_roots]
    intro id hid
    rw [hkF] at hid
    rw [hkN]
    refine ⟨fun hin => (List.nodup_append.1 hnd').2.2 id hin id hid rfl, ?_⟩
    exact hle id (hperm.mem_iff.2 (List.mem_append.2 (Or.inr hid)))
  · intro p
    simp only [List.flatMap_append, List.mem_cons, List.mem_append, mem_flatMap_slabs X]
    constructor
    · rintro (h | (h | h | h) | h)
      · exact Or.inl (Or.inl h)
      · exact Or.inr (Or.inl (Or.inl h))
      · exact Or.inl (Or.inr h)
      · exact Or.inr (Or.inl (Or.inr h))
      · exact Or.inr (Or.inr h)
    · rintro ((h | h) | (h | h) | h)
      · exact Or.inl h
      · exact Or.inr (Or.inl (Or.inr (Or.inl h)))
      · exact Or.inr (Or.inl (Or.inl h))
      · exact Or.inr (Or.inl (Or.inr (Or.inr h)))
      · exact Or.inr (Or.inr h)
  · intro p
    simp only [List.flatMap_append, List.mem_cons, List.mem_append, mem_flatMap_slabs X', hsub p]
    constructor
    · rintro (h | (h | h | h) | h)
      · exact Or.inl (Or.inl h)
      · exact Or.inr (Or.inl (Or.inl h))
      · exact Or.inl (Or.inr h)
      · exact Or.inr (Or.inl (Or.inr h))
      · exact Or.inr (Or.inr h)
    · rintro ((h | h) | (h | h) | h)
      · exact Or.inl h
      · exact Or.inr (Or.inl (Or.inr (Or.inl h)))
      · exact Or.inr (Or.inl (Or.inl h))
      · exact Or.inr (Or.inl (Or.inr (Or.inr h)))
      · exact Or.inr (Or.inr h)

/-- a log of stores (and allocations) that rewrites the slabs `N` into `N'` -/
theorem Acct.of_stores {c : Nat} {N N' : List (SlabID × ASlab)} {E : List Eff}
    (hno : ∀ e ∈ E, ∀ i, e ≠ .remove i)
    (hst : ∀ id, Eff.store id ∈ E ↔ id ∈ AList.keys N')
    (hsub : ∀ id ∈ AList.keys N, id ∈ AList.keys N')
    (hfp : ∀ id ∈ AList.keys N', id ∈ AList.keys N ∨ c < id.idx) : Acct c N N' E [] := by
  refine Acct.basic ?_ ?_ ?_ ?_ hfp
  · intro p hp
    exact ((lastAction_no_remove E hno p.1).1).2 ((hst p.1).2 (mem_keys_of_mem hp))
  · intro id h1 h2; exact absurd (hsub id h1) h2
  · intro id h; exact (hst id).1 (((lastAction_no_remove E hno id).1).1 h)
  · intro id h; exact absurd h (lastAction_no_remove E hno id).2

/-- stores, then the removal of one slab -/
theorem Acct.of_stores_remove {c : Nat} {N N' : List (SlabID × ASlab)} {E : List Eff} {x : SlabID}
    (hno : ∀ e ∈ E, ∀ i, e ≠ .remove i)
    (hst : ∀ id, Eff.store id ∈ E ↔ id ∈ AList.keys N')
    (hx : x ∉ AList.keys N')
    (hN : ∀ id, id ∈ AList.keys N ↔ id = x ∨ id ∈ AList.keys N') :
    Acct c N N' (E ++ [.remove x]) [] := by
  have hla : ∀ id, lastAction (E ++ [.remove x]) id
      = if x = id then some false else lastAction E id := lastAction_concat_remove E x
  refine Acct.basic ?_ ?_ ?_ ?_ ?_
  · intro p hp
    have hk := mem_keys_of_mem hp
    have hne : ¬ x = p.1 := fun h => hx (h ▸ hk)
    rw [hla, if_neg hne]
    exact ((lastAction_no_remove E hno p.1).1).2 ((hst p.1).2 hk)
  · intro id h1 h2
    rcases (hN id).1 h1 with h3 | h3
    · rw [hla, if_pos h3.symm]
    · exact absurd h3 h2
  · intro id h
    rw [hla] at h
    split at h
    · cases h
    · exact (hst id).1 (((lastAction_no_remove E hno id).1).1 h)
  · intro id h
    rw [hla] at h
    split at h
    · rename_i hxi; subst hxi
      exact ⟨(hN x).2 (Or.inl rfl), hx⟩
    · exact absurd h (lastAction_no_remove E hno id).2
  · intro id h; exact Or.inl ((hN id).2 (Or.inr h))

/-! ### the parent's repair steps -/

theorem emit_log3 (c : Ctx) (e1 e2 e3 : Eff) : (((c.emit e1).emit e2).emit e3).eff = c.eff ++ [e1, e2, e3] := by
  simp [Ctx.emit]

/-- plain store of the parent -/
theorem tail_plain_acct {m1 m2 : MetaSlab (ATree d)} {c : Nat} {e : ASlab}
    (hid : m2.hdr.id = m1.hdr.id) (hch : m2.children = m1.children)
    (hnd : (m1.hdr.id :: m1.children.flatMap (slabIds d)).Nodup)
    (hle : ∀ id ∈ m1.hdr.id :: m1.children.flatMap (slabIds d), id.idx ≤ c) :
    Acct c ((m1.hdr.id, e) :: m1.children.flatMap (ATree.slabs d)) (ATree.slabs (d + 1) (ofMeta m2))
      [.store m1.hdr.id] [] := by
  have h0 : Acct c ((m1.hdr.id, e) :: roots d []) ((m1.hdr.id, ent (d + 1) (ofMeta m2)) :: roots d [])
      [.store m1.hdr.id] [] := by
    refine Acct.of_stores (by simp) ?_ (by simp [roots, AList.keys]) (by simp [roots, AList.keys])
    intro id; simp [roots, AList.keys]
  have := acct_local (P := m1.children) (Q := []) (X := []) (X' := []) (fun _ => Iff.rfl)
    (by simpa using hnd) (by simpa using hle) h0
  rw [slabs_eq, hdr_succ, hid, sub_succ, hch]
  simpa using this

/-- repair by splitting the child -/
theorem tail_split_acct {m1 m2 : MetaSlab (ATree d)} {A B : List (ATree d)} {child' : ATree d} {k : Nat}
    {c c2 : Ctx} {e : ASlab}
    (hch : m1.children = A ++ child' :: B) (hk : A.length = k)
    (h : m1.splitChildSlab child' k c = .ok (m2, c2))
    (hnd : (m1.hdr.id :: m1.children.flatMap (slabIds d)).Nodup)
    (hle : ∀ id ∈ m1.hdr.id :: m1.children.flatMap (slabIds d), id.idx ≤ c.ctr) :
    ∃ E, Log c c2 E [] ∧
      Acct c.ctr ((m1.hdr.id, e) :: m1.children.flatMap (ATree.slabs d))
        (ATree.slabs (d + 1) (ofMeta m2)) E [] := by
  unfold splitChildSlab at h
  cases hsp : ATree.split d child' c with
  | error err => simp [hsp, bind, Except.bind] at h
  | ok p =>
    obtain ⟨l, r, cs⟩ := p
    simp only [hsp, bind, Except.bind, pure, Except.pure, Except.ok.injEq, Prod.mk.injEq] at h
    obtain ⟨rfl, rfl⟩ := h
    obtain ⟨hs1, hs2, hs3, rfl⟩ := split_struct d child' c l r cs hsp
    refine ⟨[.alloc (hdr d child').id.addr ⟨(hdr d child').id.addr, c.ctr + 1⟩,
      .store (hdr d l).id, .store (hdr d r).id, .store m1.hdr.id], ⟨?_, ?_, ?_, ?_⟩, ?_⟩
    · simp [Ctx.emit, Ctx.alloc]
    · simp [Ctx.emit, Ctx.alloc]
    · simp [Ctx.emit, Ctx.alloc]
    · intro addr id hm
      simp only [List.mem_cons, Eff.alloc.injEq, reduceCtorEq, List.not_mem_nil, or_false] at hm
      obtain ⟨_, rfl⟩ := hm
      simp [Ctx.emit, Ctx.alloc]
    · rw [slabs_eq, hdr_succ, sub_succ]
      simp only [hch, set_mid hk, insertIdx_mid hk]
      have e1 : A ++ child' :: B = A ++ [child'] ++ B := by simp
      have e2 : A ++ l :: r :: B = A ++ [l, r] ++ B := by simp
      rw [e1, e2]
      rw [hch, e1] at hnd hle
      refine acct_local ?_ hnd hle ?_
      · intro p
        simp only [List.flatMap_cons, List.flatMap_nil, List.append_nil, hs1]
      · refine Acct.of_stores ?_ ?_ ?_ ?_
        · simp
        · intro id
          simp only [roots, AList.keys, List.map_cons, List.map_nil, List.mem_cons, Eff.store.injEq,
            reduceCtorEq, List.not_mem_nil, or_false, false_or]
          constructor
          · rintro (h | h | h)
            · exact Or.inr (Or.inl h)
            · exact Or.inr (Or.inr h)
            · exact Or.inl h
          · rintro (h | h | h)
            · exact Or.inr (Or.inr h)
            · exact Or.inl h
            · exact Or.inr (Or.inl h)
        · intro id
          simp only [roots, AList.keys, List.map_cons, List.map_nil, List.mem_cons, List.not_mem_nil,
            or_false, hs2]
          rintro (h | h)
          · exact Or.inl h
          · exact Or.inr (Or.inl h)
        · intro id
          simp only [roots, AList.keys, List.map_cons, List.map_nil, List.mem_cons, List.not_mem_nil,
            or_false, hs2, hs3]
          rintro (h | h | h)
          · exact Or.inl (Or.inl h)
          · exact Or.inl (Or.inr h)
          · right; rw [h]; simp

/-- the pair produced by a rebalancing move -/
def rebalPair (T d : Nat) (flag : Bool) (l r : ATree d) : ATree d × ATree d :=
  if flag = true then ATree.borrowFromRight T d l r else ATree.lendToRight T d l r

theorem rebalPair_struct (flag : Bool) (l r : ATree d) :
    sub d (rebalPair T d flag l r).1 ++ sub d (rebalPair T d flag l r).2 = sub d l ++ sub d r ∧
    (hdr d (rebalPair T d flag l r).1).id = (hdr d l).id ∧
    (hdr d (rebalPair T d flag l r).2).id = (hdr d r).id := by
  cases flag
  · exact lend_struct T d l r
  · exact borrow_struct T d l r

theorem rebal_children (m : MetaSlab (ATree d)) (l r : ATree d) (li ri : Nat) (flag : Bool) (c : Ctx) :
    (rebalanceChildren T m l r li ri flag c).1.children
      = (m.children.set li (rebalPair T d flag l r).1).set ri (rebalPair T d flag l r).2 := rfl
theorem rebal_hdr (m : MetaSlab (ATree d)) (l r : ATree d) (li ri : Nat) (flag : Bool) (c : Ctx) :
    (rebalanceChildren T m l r li ri flag c).1.hdr = m.hdr := rfl
theorem rebal_ctx (m : MetaSlab (ATree d)) (l r : ATree d) (li ri : Nat) (flag : Bool) (c : Ctx) :
    (rebalanceChildren T m l r li ri flag c).2
      = ((c.emit (.store (hdr d (rebalPair T d flag l r).1).id)).emit
          (.store (hdr d (rebalPair T d flag l r).2).id)).emit (.store m.hdr.id) := rfl

theorem merge_children (m : MetaSlab (ATree d)) (l r : ATree d) (li ri : Nat) (c : Ctx) :
    (mergeChildren m l r li ri c).1.children = (m.children.set li (ATree.merge d l r)).eraseIdx ri := rfl
theorem merge_hdr_id (m : MetaSlab (ATree d)) (l r : ATree d) (li ri : Nat) (c : Ctx) :
    (mergeChildren m l r li ri c).1.hdr.id = m.hdr.id := rfl
theorem merge_ctx (m : MetaSlab (ATree d)) (l r : ATree d) (li ri : Nat) (c : Ctx) :
    (mergeChildren m l r li ri c).2
      = ((c.emit (.store (hdr d (ATree.merge d l r)).id)).emit (.store m.hdr.id)).emit
          (.remove (hdr d r).id) := rfl

/-- repair by rebalancing two adjacent children -/
theorem tail_rebal_acct {m1 : MetaSlab (ATree d)} {P Q : List (ATree d)} {l r : ATree d} {li : Nat}
    (flag : Bool) (c : Ctx) {e : ASlab}
    (hch : m1.children = P ++ l :: r :: Q) (hli : P.length = li)
    (hnd : (m1.hdr.id :: m1.children.flatMap (slabIds d)).Nodup)
    (hle : ∀ id ∈ m1.hdr.id :: m1.children.flatMap (slabIds d), id.idx ≤ c.ctr) :
    ∃ E, Log c (rebalanceChildren T m1 l r li (li + 1) flag c).2 E [] ∧
      Acct c.ctr ((m1.hdr.id, e) :: m1.children.flatMap (ATree.slabs d))
        (ATree.slabs (d + 1) (ofMeta (rebalanceChildren T m1 l r li (li + 1) flag c).1)) E [] := by
  obtain ⟨hs1, hs2, hs3⟩ := rebalPair_struct (T := T) flag l r
  refine ⟨[.store (hdr d l).id, .store (hdr d r).id, .store m1.hdr.id], ⟨?_, ?_, ?_, ?_⟩, ?_⟩
  · rw [rebal_ctx, emit_log3, hs2, hs3]
  · rw [rebal_ctx]; simp [Ctx.emit]
  · rw [rebal_ctx]; simp [Ctx.emit]
  · simp
  · have hkids : ∀ x y : ATree d, ((P ++ l :: r :: Q).set li x).set (li + 1) y = P ++ [x, y] ++ Q := by
      intro x y
      rw [set_mid hli]
      have : P ++ x :: r :: Q = (P ++ [x]) ++ r :: Q := by simp
      rw [this, set_mid (by simp [hli])]; simp
    have e1 : P ++ l :: r :: Q = P ++ [l, r] ++ Q := by simp
    rw [slabs_eq, hdr_succ, sub_succ, rebal_children, rebal_hdr, hch, hkids, e1]
    rw [hch, e1] at hnd hle
    refine acct_local ?_ hnd hle ?_
    · intro p
      simp only [List.flatMap_cons, List.flatMap_nil, List.append_nil, hs1]
    · refine Acct.of_stores ?_ ?_ ?_ ?_
      · simp
      · intro id
        simp only [roots, AList.keys, List.map_cons, List.map_nil, List.mem_cons, Eff.store.injEq,
          List.not_mem_nil, or_false, hs2, hs3]
        constructor
        · rintro (h | h | h)
          · exact Or.inr (Or.inl h)
          · exact Or.inr (Or.inr h)
          · exact Or.inl h
        · rintro (h | h | h)
          · exact Or.inr (Or.inr h)
          · exact Or.inl h
          · exact Or.inr (Or.inl h)
      · intro id
        simp only [roots, AList.keys, List.map_cons, List.map_nil, List.mem_cons, List.not_mem_nil,
          or_false, hs2, hs3]
        exact fun h => h
      · intro id
        simp only [roots, AList.keys, List.map_cons, List.map_nil, List.mem_cons, List.not_mem_nil,
          or_false, hs2, hs3]
        exact Or.inl

/-- repair by merging two adjacent children -/
theorem tail_merge_acct {m1 : MetaSlab (ATree d)} {P Q : List (ATree d)} {l r : ATree d} {li : Nat}
    (c : Ctx) {e : ASlab}
    (hch : m1.children = P ++ l :: r :: Q) (hli : P.length = li)
    (hnd : (m1.hdr.id :: m1.children.flatMap (slabIds d)).Nodup)
    (hle : ∀ id ∈ m1.hdr.id :: m1.children.flatMap (slabIds d), id.idx ≤ c.ctr) :
    ∃ E, Log c (mergeChildren m1 l r li (li + 1) c).2 E [] ∧
      Acct c.ctr ((m1.hdr.id, e) :: m1.children.flatMap (ATree.slabs d))
        (ATree.slabs (d + 1) (ofMeta (mergeChildren m1 l r li (li + 1) c).1)) E [] := by
  obtain ⟨hs1, hs2⟩ := merge_struct d l r
  -- distinctness of the three root IDs involved
  have hrid : m1.hdr.id ≠ (hdr d r).id := by
    intro heq
    apply (List.nodup_cons.1 hnd).1
    rw [hch, heq]
    simp only [List.flatMap_append, List.flatMap_cons, List.mem_append]
    exact Or.inr (Or.inr (Or.inl (hdr_id_mem_slabIds d r)))
  have hlr : (hdr d l).id ≠ (hdr d r).id := by
    have h2 := (List.nodup_cons.1 hnd).2
    rw [hch] at h2
    simp only [List.flatMap_append, List.flatMap_cons] at h2
    have h3 := (List.nodup_append.1 h2).2.1
    have h4 := (List.nodup_append.1 h3).2.2
    exact h4 _ (hdr_id_mem_slabIds d l) _ (List.mem_append.2 (Or.inl (hdr_id_mem_slabIds d r)))
  refine ⟨[.store (hdr d l).id, .store m1.hdr.id] ++ [.remove (hdr d r).id], ⟨?_, ?_, ?_, ?_⟩, ?_⟩
  · rw [merge_ctx, emit_log3, hs2]; rfl
  · rw [merge_ctx]; simp [Ctx.emit]
  · rw [merge_ctx]; simp [Ctx.emit]
  · simp
  · rw [slabs_eq, hdr_succ, sub_succ, merge_children, merge_hdr_id, hch, set_mid hli,
      eraseIdx_mid_succ hli]
    have e1 : P ++ l :: r :: Q = P ++ [l, r] ++ Q := by simp
    have e2 : ∀ x : ATree d, P ++ x :: Q = P ++ [x] ++ Q := by simp
    rw [e1, e2]
    rw [hch, e1] at hnd hle
    refine acct_local ?_ hnd hle ?_
    · intro p
      simp only [List.flatMap_cons, List.flatMap_nil, List.append_nil, hs1]
    · refine Acct.of_stores_remove ?_ ?_ ?_ ?_
      · simp
      · intro id
        simp only [roots, AList.keys, List.map_cons, List.map_nil, List.mem_cons, Eff.store.injEq,
          List.not_mem_nil, or_false, hs2]
        constructor
        · rintro (h | h)
          · exact Or.inr h
          · exact Or.inl h
        · rintro (h | h)
          · exact Or.inr h
          · exact Or.inl h
      · simp only [roots, AList.keys, List.map_cons, List.map_nil, List.mem_cons, List.not_mem_nil,
          or_false, hs2]
        rintro (h | h)
        · exact hrid h.symm
        · exact hlr h.symm
      · intro id
        simp only [roots, AList.keys, List.map_cons, List.map_nil, List.mem_cons, List.not_mem_nil,
          or_false, hs2]
        constructor
        · rintro (h | h | h)
          · exact Or.inr (Or.inl h)
          · exact Or.inr (Or.inr h)
          · exact Or.inl h
        · rintro (h | h | h)
          · exact Or.inr (Or.inr h)
          · exact Or.inl h
          · exact Or.inr (Or.inl h)


/-- repair of an underflowing child -/
theorem tail_mor_acct {m1 m2 : MetaSlab (ATree d)} {A B : List (ATree d)} {child' : ATree d} {k u : Nat}
    {c c2 : Ctx} {e : ASlab}
    (hch : m1.children = A ++ child' :: B) (hk : A.length = k)
    (h : mergeOrRebalanceChildSlab T m1 child' k u c = .ok (m2, c2))
    (hnd : (m1.hdr.id :: m1.children.flatMap (slabIds d)).Nodup)
    (hle : ∀ id ∈ m1.hdr.id :: m1.children.flatMap (slabIds d), id.idx ≤ c.ctr) :
    ∃ E, Log c c2 E [] ∧
      Acct c.ctr ((m1.hdr.id, e) :: m1.children.flatMap (ATree.slabs d))
        (ATree.slabs (d + 1) (ofMeta m2)) E [] := by
  obtain ⟨l, r, li, hpos, hact⟩ := mor_cases m1 child' k u c m2 c2 h
  have hshape : ∃ P Q, m1.children = P ++ l :: r :: Q ∧ P.length = li := by
    rcases hpos with ⟨rfl, rfl, hr⟩ | ⟨hli, hl, rfl⟩
    · rw [hch, getElem?_mid_succ hk] at hr
      cases B with
      | nil => simp at hr
      | cons b B' =>
        simp only [List.getElem?_cons_zero, Option.some.injEq] at hr
        subst hr
        exact ⟨A, B', hch, hk⟩
    · rcases List.eq_nil_or_concat A with hn | ⟨P, x, hA⟩
      · subst hn; simp at hk; omega
      · rw [List.concat_eq_append] at hA
        subst hA
        have hP : P.length = li := by simp at hk; omega
        have e1 : P ++ [x] ++ r :: B = P ++ x :: r :: B := by simp
        rw [hch, e1, getElem?_mid hP] at hl
        simp only [Option.some.injEq] at hl
        subst hl
        exact ⟨P, B, by rw [hch, e1], hP⟩
  obtain ⟨P, Q, hch', hli⟩ := hshape
  rcases hact with ⟨flag, heq⟩ | heq
  · have := tail_rebal_acct (T := T) (e := e) flag c hch' hli hnd hle
    rw [← heq] at this
    exact this
  · have := tail_merge_acct (e := e) c hch' hli hnd hle
    rw [← heq] at this
    exact this

end

end Atree
