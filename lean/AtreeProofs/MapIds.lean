import AtreeProofs.ArrayInv
import AtreeProofs.MapInv
import AtreeProofs.MapLemmas
/-
  Slab identifiers of ordered maps (C05 / C09 / C13 for maps).  DEFINITIONS ONLY — part of the
  reviewed statement of the property theorems of `AtreeProofs/Props/C05MapIds.lean`,
  `Props/C13.lean`, `Props/C13Ids.lean`.

  `MapInv` (AtreeProofs/MapInv.lean) has no allocation-counter parameter and says nothing about slab
  identifiers.  `MapIdsOk` is the SIBLING invariant that does, the exact analogue of the `ids` clause
  of `ArrInv` (`IdsOk` of AtreeProofs/ArrayInv.lean): over ALL slab identifiers of the map — data
  slabs, index slabs and external collision-group slabs — no identifier occurs twice, every one
  belongs to the map's owner address, its index is at least 1 (so it is not the undefined
  identifier, whatever the address) and at most the allocation counter of the owner (so the next
  allocated identifier is fresh).  (Strengthening by adding conjuncts is allowed, weakening is not.)
-/
namespace Atree
open Gen

/-- all slab identifiers of a map, root first: data slabs, index slabs, external collision groups -/
def OMap.slabIds {r : Nat} (m : OMap r) : List SlabID := CtxOk.mapSlabIds m.d m.root

/-- The identifier clause for maps relative to the owner's allocation counter `ctr`:
    `Nodup ∧ ∀ id, id.addr = m.addr ∧ 1 ≤ id.idx ∧ id.idx ≤ ctr` over `m.slabIds`. -/
def MapIdsOk {r : Nat} (m : OMap r) (ctr : Nat) : Prop := IdsOk m.addr ctr m.slabIds

/-- The map invariant (C05) together with the identifier clause, relative to the allocation
    counter — the analogue of `ArrInv T a ctr`. -/
def MapInvI (T : Nat) {r : Nat} (D : DigestFn (r + 1)) (m : OMap r) (ctr : Nat) : Prop :=
  MapInv T D m ∧ MapIdsOk m ctr

end Atree
