import AtreeProofs.Props.TransElemClosedBase
import AtreeProofs.Props.TransElemsGet
import AtreeProofs.Props.TransElemsSet
import AtreeProofs.Props.TransElemsRemove
/-
  WP13, part 2: the step "unit A under an environment with `EnvAOn` gives closed `elements` methods of a digest table
  that agree with `HkeyElems.get / set / remove` on guarded arguments" (`mcl_gopsH_get / _set / _remove / _new`).
  Core Lean only.
-/
namespace Atree.TransEq
open Atree

section stepH
variable {α : Type} (o : ElemsOps α) (cfg : MCfg) (k : MKey) (v : Elem) (envA : MKey → mcl_EnvA α)
variable {Pg Ps Pr : MElemF α → Nat → Ctx → Prop}

/-- guard of `Get` on a digest table: well-formed table, the key's digest is a `uint64`, the elements satisfy `Pg` -/
structure mcl_QgH (Pg : MElemF α → Nat → Ctx → Prop) (g : HkeyElems α) (lvl : Nat) (c : Ctx) : Prop where
  ok : mel_HOk g
  dig : k.dig lvl < 2^64
  elems : ∀ (i : Nat) (el : MElemF α), g.elems[i]? = some el → Pg el lvl c

theorem mcl_gopsH_get (hA : EnvAOn o cfg k v (envA k) Pg Ps Pr) (g : HkeyElems α) (c : Ctx) (lvl : Nat)
    (hl : lvl < 2^64) (hL : cfg.L < 2^64) (hQ : mcl_QgH k Pg g lvl c) :
    (mcl_gopsH envA).get g c k (u64 lvl) (u64 (k.dig lvl)) (.key k) = mei_rGet c ((HkeyElems.ops o).get cfg g lvl k) := by
  show (match Gen.TransElems.hkeyElements_Get (envA k) (mel_cH g) c (u64 lvl) (u64 (k.dig lvl)) (.key k) with
    | some r => r
    | none => (none, none, some .goPanic, c)) = _
  rw [hkeyElements_Get_eq_model_on o cfg k v (envA k) hA g hQ.ok lvl c hl hL hQ.dig hQ.elems]
  show mel_rGet c (HkeyElems.get o cfg g lvl k) = mei_rGet c (HkeyElems.get o cfg g lvl k)
  cases HkeyElems.get o cfg g lvl k with
  | error e => rfl
  | ok r => rfl

/-- guard of `Remove` on a digest table -/
structure mcl_QrH (Pr : MElemF α → Nat → Ctx → Prop) (g : HkeyElems α) (lvl : Nat) (c : Ctx) : Prop where
  ok : mel_HOk g
  fit : mcl_HFit g
  dig : k.dig lvl < 2^64
  hsz : ∀ el ∈ g.elems, Gen.digestSize + el.size o ≤ g.size
  res : ∀ rk rv g' c', HkeyElems.remove o cfg g lvl k c = .ok (rk, rv, g', c') → mcl_HFit g'
  elems : ∀ (i : Nat) (el : MElemF α), g.elems[i]? = some el → Pr el lvl c

theorem mcl_gopsH_remove (hA : EnvAOn o cfg k v (envA k) Pg Ps Pr) (g : HkeyElems α) (c : Ctx) (lvl : Nat)
    (hl : lvl < 2^64) (hL : cfg.L < 2^64) (hQ : mcl_QrH o cfg k Pr g lvl c) :
    (mcl_gopsH envA).remove g c k (u64 lvl) (u64 (k.dig lvl)) (.key k) =
      mei_rGRemove g c ((HkeyElems.ops o).remove cfg g lvl k c) := by
  show (match Gen.TransElems.hkeyElements_Remove (envA k) (mel_cH g) c (u64 lvl) (u64 (k.dig lvl)) (.key k) with
    | some r => (r.1, r.2.1, r.2.2.1, mcl_dH r.2.2.2.1, r.2.2.2.2)
    | none => (none, none, some .goPanic, g, c)) = _
  rw [hkeyElements_Remove_eq_model_on o cfg k v (envA k) hA g hQ.ok lvl c hl hL hQ.dig hQ.hsz hQ.elems]
  show _ = mei_rGRemove g c (HkeyElems.remove o cfg g lvl k c)
  have hres := hQ.res
  rcases hr : HkeyElems.remove o cfg g lvl k c with err | ⟨rk, rv, g', c'⟩
  · simp only [mel_rRemove, mei_rGRemove, mcl_dH_cH g hQ.fit]
  · simp only [mel_rRemove, mei_rGRemove, mcl_dH_cH g' (hres rk rv g' c' hr)]

/-- guard of `Set` on a digest table -/
structure mcl_QsH (Pg Ps : MElemF α → Nat → Ctx → Prop) (g : HkeyElems α) (lvl : Nat) (c : Ctx) : Prop where
  ok : mel_HOk g
  fit : mcl_HFit g
  dig : k.dig lvl < 2^64
  cnt : ∀ el ∈ g.elems, el.count o < 2^32
  nsz : (newSingleElement cfg.T cfg.addr k v c).1.size < 2^32
  res : ∀ ks old g' c', HkeyElems.set o cfg g lvl k v c = .ok (ks, old, g', c') → mcl_HFit g'
  elemsG : ∀ (i : Nat) (el : MElemF α), g.elems[i]? = some el → Pg el lvl c
  elemsS : ∀ (i : Nat) (el : MElemF α), g.elems[i]? = some el → Ps el lvl c

theorem mcl_gopsH_set (hA : EnvAOn o cfg k v (envA k) Pg Ps Pr) (g : HkeyElems α) (c : Ctx) (lvl : Nat) (b : Unit)
    (hl : lvl < 2^64) (hL : cfg.L < 2^64) (hcl : cfg.climit < 2^32) (hQ : mcl_QsH o cfg k v Pg Ps g lvl c) :
    (mcl_gopsH envA).set g c cfg.addr b k (u64 lvl) (u64 (k.dig lvl)) (.key k) (.val v) =
      mei_rGSet g c ((HkeyElems.ops o).set cfg g lvl k v c) := by
  show (match Gen.TransElems.hkeyElements_Set (envA k) (mel_cH g) c cfg.addr (u64 lvl) (u64 (k.dig lvl)) (.key k) (.val v) with
    | some r => (r.1, r.2.1, r.2.2.1, mcl_dH r.2.2.2.1, r.2.2.2.2)
    | none => (none, none, some .goPanic, g, c)) = _
  rw [hkeyElements_Set_eq_model_on o cfg k v (envA k) hA g hQ.ok lvl c hl hL hQ.dig hQ.fit.level hcl hQ.cnt hQ.nsz
    hQ.elemsG hQ.elemsS]
  show _ = mei_rGSet g c (HkeyElems.set o cfg g lvl k v c)
  have hres := hQ.res
  rcases hr : HkeyElems.set o cfg g lvl k v c with err | ⟨ks, old, g', c'⟩
  · simp only [mel_rSet, mei_rGSet, mcl_dH_cH g hQ.fit]
  · simp only [mel_rSet, mei_rGSet, mcl_dH_cH g' (hres ks old g' c' hr)]

/-- guard of the constructor of a one-element digest table -/
def mcl_QnH (lvl : Nat) (x : SElem) : Prop :=
  x.key.dig lvl < 2^64 ∧ Gen.hkeyElementsPrefixSize + Gen.digestSize + x.size < 2^32

/-- the one-element digest table: `newHkeyElementsWithElement` -/
theorem mcl_gopsH_new (lvl : Nat) (x : SElem) (g : HkeyElems α) (hl : lvl < 2^64) (hQ : mcl_QnH lvl x)
    (hg : (HkeyElems.ops o).newWith cfg lvl x = .ok g) :
    (if lvl = cfg.L then (mcl_gopsH envA).newS (u64 lvl) (mei_cE x) = g
     else (mcl_gopsH envA).newH (u64 lvl) (u64 (x.key.dig lvl)) (.single (mei_cE x)) = g) := by
  obtain ⟨hd, hs⟩ := hQ
  have hx' : x.size < 2^32 := by omega
  simp only [HkeyElems.ops] at hg
  by_cases h : lvl ≥ cfg.L
  · simp only [h, if_true, reduceCtorEq] at hg
  · simp only [h, if_false, Except.ok.injEq] at hg
    have hne : lvl ≠ cfg.L := by omega
    rw [if_neg hne, ← hg]
    show ({ level := (u64 lvl).toNat, hkeys := [(u64 (x.key.dig lvl)).toNat], elems := [.single (mei_il_inv (mei_cE x))],
            size := (UInt32.ofNat Gen.hkeyElementsPrefixSize + UInt32.ofNat Gen.digestSize + (mei_cE x).size).toNat }
            : HkeyElems α) = _
    have e1 : (UInt32.ofNat Gen.hkeyElementsPrefixSize + UInt32.ofNat Gen.digestSize + (mei_cE x).size)
        = u32 (Gen.hkeyElementsPrefixSize + Gen.digestSize + x.size) := by
      show u32 _ + u32 _ + u32 _ = _
      rw [msl_u32_add', msl_u32_add']
    rw [e1, u32_toNat hs, u64_toNat hl, u64_toNat hd, mei_il_inv_cE x hx']

end stepH
end Atree.TransEq
