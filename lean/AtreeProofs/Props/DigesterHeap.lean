import AtreeProofs.DigesterHeapLemmas
import AtreeProofs.Props.Digester
/-
  Digester objects with identity (pointers in the pool): `AtreeModel/DigesterHeap.lean`.

  PROPERTY-LEVEL THEOREMS for C16 ("digesters returned to the pool only after last use … pool
  misuse (returning an object that is still in use) corrupts another goroutine's result") and C04
  ("object-pool reuse").

    * `disciplined_history_refines_spec` — if every holder touches an object only between the build
      that handed it out and its own `putDigester` (the shape `defer putDigester(d)` guarantees; the
      extracted fact `digesterPutAfterLastUse`), then for ANY interleaving of any number of holders
      and any pool choices every observation is the cache-free one.  An interleaving of goroutines
      that each follow the discipline is such a history (the pool operations themselves are atomic:
      `sync.Pool`), which is the logical content of "each obtains the results it would obtain
      alone".
    * what the discipline protects against, as concrete histories:
      `use_after_put_corrupts_next_holder`, `double_put_shares_object`.
-/
namespace Atree.Dig

theorem step_sim_heap {V : Type} (H : Hashes) (hip : HIP V) (hsi : ScratchIndep hip) (w : HWorld) (s : HSpec)
    (h : HInv H w s) (e : HEv V) (hok : (w.step H hip e).2.2 = true) :
    (w.step H hip e).1 = (s.step H hip e).1 ∧ HInv H (w.step H hip e).2.1 (s.step H hip e).2 := by
  cases e with
  | build k0 k1 v c =>
    by_cases hk : k0 = 0
    · simp only [HWorld.step, HSpec.step, hk, if_true]; exact ⟨trivial, h⟩
    · obtain ⟨g1, g2, g3, g4, g5, g6, g7⟩ := hget_spec h c
      simp only [HWorld.step, HSpec.step, hk, if_false]
      have hindep := hsi v ((w.get c).2.obj (w.get c).1).scratch BasicDigester.fresh.scratch
      cases hh : hip v ((w.get c).2.obj (w.get c).1).scratch with
      | mk r scr =>
        rw [hh] at hindep
        cases r with
        | error e =>
          have hm' : (hip v BasicDigester.fresh.scratch).1 = .error e := hindep.symm
          simp only [hm', g1]
          refine ⟨trivial, ?_⟩
          -- the object goes straight back to the pool
          have hlen : (w.get c).1 < ((w.get c).2.setObj (w.get c).1
              { (w.get c).2.obj (w.get c).1 with scratch := scr }).heap.length := by
            rw [heap_setObj_length]; exact g2
          have hobj : ((w.get c).2.setObj (w.get c).1 { (w.get c).2.obj (w.get c).1 with scratch := scr }).obj (w.get c).1
              = { (w.get c).2.obj (w.get c).1 with scratch := scr } := by
            rw [obj_setObj]; simp [g2]
          have hput : ((w.get c).2.setObj (w.get c).1 { (w.get c).2.obj (w.get c).1 with scratch := scr }).put (w.get c).1
              = { ((w.get c).2.setObj (w.get c).1 (BasicDigester.reset { (w.get c).2.obj (w.get c).1 with scratch := scr }))
                  with pool := (w.get c).1 :: (w.get c).2.pool } := by
            unfold HWorld.put
            rw [hobj]
            simp only [HWorld.setObj, List.set_set]
            have : (w.get c).2.owned.erase (w.get c).1 = (w.get c).2.owned := by
              rw [g5]; exact List.erase_of_not_mem g6
            rw [this]
          rw [hput]
          exact hinv_park g7 _ g2 g4 (by rw [g5]; exact g6) _ (isReset_reset _)
        | ok m =>
          have hm' : (hip v BasicDigester.fresh.scratch).1 = .ok m := hindep.symm
          simp only [hm', g1]
          refine ⟨trivial, ?_⟩
          refine hinv_setObj g7 (w.get c).1 g2 g4 _ (specOf H k0 m) (rep_of_build H _ g3 scr m k0)
            ((w.get c).1 :: (w.get c).2.owned) ?_ ?_ ?_ rfl rfl
          · intro b; simp
          · rw [g5]; exact List.nodup_cons.mpr ⟨g6, h.ownNodup⟩
          · intro b; exact lookup_setOwn _ _ _ b
  | digest a l =>
    have ha : a ∈ w.owned := by simpa [HWorld.step] using hok
    obtain ⟨d, hd⟩ := Option.isSome_iff_exists.mp ((h.own a).mp ha)
    have hrep := h.rep a d hd
    obtain ⟨r1, r2⟩ := hrep.digest l
    simp only [HWorld.step, HSpec.step, hd]
    refine ⟨by rw [r1], ?_⟩
    have := hinv_setObj (s' := s) h a (h.ownLt a ha) (h.disj a ha) ((w.obj a).digest H l).2 d r2 w.owned
      (by intro b; constructor
          · intro hb; exact Or.inr hb
          · intro hb; rcases hb with rfl | hb
            · exact ha
            · exact hb) h.ownNodup
      (by intro b; by_cases hb : b = a
          · simp [hb, hd]
          · simp [hb]) rfl rfl
    exact this
  | pref a l =>
    have ha : a ∈ w.owned := by simpa [HWorld.step] using hok
    obtain ⟨d, hd⟩ := Option.isSome_iff_exists.mp ((h.own a).mp ha)
    have hrep := h.rep a d hd
    obtain ⟨r1, r2⟩ := hrep.digestPrefix l
    simp only [HWorld.step, HSpec.step, hd]
    refine ⟨by rw [r1], ?_⟩
    have := hinv_setObj (s' := s) h a (h.ownLt a ha) (h.disj a ha) ((w.obj a).digestPrefix H l).2 d r2 w.owned
      (by intro b; constructor
          · intro hb; exact Or.inr hb
          · intro hb; rcases hb with rfl | hb
            · exact ha
            · exact hb) h.ownNodup
      (by intro b; by_cases hb : b = a
          · simp [hb, hd]
          · simp [hb]) rfl rfl
    exact this
  | reset a =>
    have ha : a ∈ w.owned := by simpa [HWorld.step] using hok
    obtain ⟨d, hd⟩ := Option.isSome_iff_exists.mp ((h.own a).mp ha)
    simp only [HWorld.step, HSpec.step, hd]
    refine ⟨trivial, ?_⟩
    have hrep : Rep H (w.obj a).reset ⟨0, []⟩ := ⟨rfl, by simp [eff, BasicDigester.reset]⟩
    exact hinv_setObj h a (h.ownLt a ha) (h.disj a ha) (w.obj a).reset ⟨0, []⟩ hrep w.owned
      (by intro b; constructor
          · intro hb; exact Or.inr hb
          · intro hb; rcases hb with rfl | hb
            · exact ha
            · exact hb) h.ownNodup
      (fun b => lookup_setOwn s a _ b) rfl rfl
  | put a =>
    have ha : a ∈ w.owned := by simpa [HWorld.step] using hok
    simp only [HWorld.step, HSpec.step]
    refine ⟨trivial, ?_⟩
    have halt := h.ownLt a ha
    have hap := h.disj a ha
    refine ⟨by rw [h.next]; simp [HWorld.put, HWorld.setObj], by simp [h.pool, HWorld.put, HWorld.setObj], ?_, ?_, ?_, ?_, ?_, ?_, ?_, ?_⟩
    · intro b hb
      simp only [HWorld.put, HWorld.setObj, List.length_set]
      rcases List.mem_cons.mp hb with rfl | hb
      · exact halt
      · exact h.poolLt b hb
    · intro b hb
      show IsReset ((w.setObj a (w.obj a).reset).obj b)
      rw [obj_setObj]
      rcases List.mem_cons.mp hb with rfl | hb
      · simp [halt, isReset_reset]
      · have : ¬ (b = a ∧ a < w.heap.length) := fun hh => hap (hh.1 ▸ hb)
        rw [if_neg this]; exact h.poolReset b hb
    · exact List.nodup_cons.mpr ⟨hap, h.poolNodup⟩
    · exact h.ownNodup.erase a
    · intro b hb
      simp only [HWorld.put, HWorld.setObj, List.length_set]
      exact h.ownLt b (List.mem_of_mem_erase hb)
    · intro b hb hm
      have hb' := (h.ownNodup.mem_erase_iff).mp hb
      rcases List.mem_cons.mp hm with rfl | hm
      · exact hb'.1 rfl
      · exact h.disj b hb'.2 hm
    · intro b
      rw [lookup_dropOwn]
      show b ∈ w.owned.erase a ↔ _
      rw [h.ownNodup.mem_erase_iff]
      by_cases hb : b = a
      · simp [hb]
      · simp [hb, h.own b]
    · intro b d hlb
      rw [lookup_dropOwn] at hlb
      by_cases hb : b = a
      · simp [hb] at hlb
      · simp only [hb, if_false] at hlb
        show Rep H ((w.setObj a (w.obj a).reset).obj b) d
        have : ¬ (b = a ∧ a < w.heap.length) := fun hh => hb hh.1
        rw [obj_setObj, if_neg this]; exact h.rep b d hlb

theorem run_sim_heap {V : Type} (H : Hashes) (hip : HIP V) (hsi : ScratchIndep hip) (evs : List (HEv V)) :
    ∀ (w : HWorld) (s : HSpec), HInv H w s → (w.run H hip evs).disciplined = true →
      (w.run H hip evs).obs = s.run H hip evs := by
  induction evs with
  | nil => intro w s _ _; rfl
  | cons e es ih =>
    intro w s h hd
    simp only [HWorld.run, Bool.and_eq_true] at hd
    obtain ⟨h1, h2⟩ := step_sim_heap H hip hsi w s h e hd.1
    simp only [HWorld.run, HSpec.run]
    rw [h1, ih _ _ h2 hd.2]

/-- **Disciplined pointer-level histories refine the cache-free definition.**  From the empty
    heap and pool, for EVERY history of any number of holders in which each call (`Digest`,
    `DigestPrefix`, `Reset`) and each `putDigester` is made on an address the caller currently
    owns, with ANY pool choices: every observation equals the observation in the world where a
    digester is just (level-0 hash, message) and the pool holds stateless addresses. -/
theorem disciplined_history_refines_spec {V : Type} (H : Hashes) (hip : HIP V) (hsi : ScratchIndep hip)
    (evs : List (HEv V)) (hd : (HWorld.run H hip {} evs).disciplined = true) :
    (HWorld.run H hip {} evs).obs = HSpec.run H hip {} evs :=
  run_sim_heap H hip hsi evs {} {} (hinv_init H) hd

/-! ### Non-vacuity and the two ways to break the discipline -/
section NonVacuity

/-- two holders interleaved on one pool, both disciplined: A builds key 5 (address 0), B builds
    key 9 (address 1), calls interleave, A puts, C re-uses address 0 for key 7 while B continues -/
def heapHistory : List (HEv UInt8) :=
  [.build 77 1 5 none, .build 77 1 9 none, .digest 0 1, .digest 1 2, .pref 0 4, .put 0,
   .build 78 1 7 (some 0), .digest 1 1, .digest 0 3, .digest 0 0, .put 1, .put 0,
   .build 77 1 5 (some 1), .pref 1 2]

example : (HWorld.run toyH toyHip {} heapHistory).disciplined = true := by decide

example : (HWorld.run toyH toyHip {} heapHistory).obs = HSpec.run toyH toyHip {} heapHistory :=
  disciplined_history_refines_spec toyH toyHip toyHip_indep heapHistory (by decide)

/-- address 0 really is recycled in that history, and shows key 7's digests afterwards -/
example : ((HWorld.run toyH toyHip {} heapHistory).obs.drop 8).take 2 =
    [.digest (spec toyH 78 [7, 8] 3), .digest (spec toyH 78 [7, 8] 0)] := by decide

/-- **Use after put corrupts the NEXT holder.**  A builds key 5 at address 0 and returns it, then
    (the defect: a `putDigester` that is not the last use) still calls `Digest(1)` through its stale
    pointer: the object is reset, so this hashes the EMPTY message and caches it — in an object that
    sits in the pool.  B, perfectly disciplined, is handed address 0 for key 9 and reads at level 1
    the digest of the empty message. -/
theorem use_after_put_corrupts_next_holder :
    let evs : List (HEv UInt8) := [.build 77 1 5 none, .put 0, .digest 0 1, .build 77 1 9 (some 0), .digest 0 1]
    (HWorld.run toyH toyHip {} evs).disciplined = false ∧
    (HWorld.run toyH toyHip {} evs).obs.getLast? = some (.digest (spec toyH 77 [] 1)) ∧
    spec toyH 77 [] 1 ≠ spec toyH 77 [9, 10] 1 ∧
    (HSpec.run toyH toyHip {} evs).getLast? = some (.digest (spec toyH 77 [9, 10] 1)) := by decide

/-- **Double put shares one object between two holders.**  A returns address 0 twice; B and C are
    both handed address 0; C's build overwrites the message, and B reads C's digest. -/
theorem double_put_shares_object :
    let evs : List (HEv UInt8) := [.build 77 1 5 none, .put 0, .put 0, .build 77 1 9 (some 0),
                                   .build 77 1 3 (some 0), .digest 0 0]
    (HWorld.run toyH toyHip {} evs).disciplined = false ∧
    (HWorld.run toyH toyHip {} evs).world.owned = [0, 0] ∧
    (HWorld.run toyH toyHip {} evs).obs.getLast? = some (.digest (spec toyH 77 [3, 4] 0)) ∧
    spec toyH 77 [3, 4] 0 ≠ spec toyH 77 [9, 10] 0 := by decide

end NonVacuity

end Atree.Dig
