import AtreeProofs.WorldCodec.WorldGoal
import AtreeProofs.Props.C09WHist
/-
  C07 / C06 FOR SLABS WITH CHILDREN, DISCHARGED FROM THE WORLD INVARIANT.  PROPERTY THEOREMS.

  `AtreeModel/Codec/World.lean` translates every slab a World of nested containers keeps in storage
  into the slab the byte-level codec sees (`World.toCodec`: inlined children embedded recursively,
  wrappers, references, type infos, map extra data, external collision groups); the nested stream
  checks on every stored slab that this translation IS the implementation's slab.  The byte-level
  codec theorems (`Props/C06.lean`, `Props/C07.lean`) take predicates (`ArrDataOKI`, `MapDataOKI`, …)
  that nothing produced for slabs with children (audit a4-A3).  Here they are DERIVED from the
  global invariant of nested containers `WorldOk'` (which holds along every history:
  `C10Hist.history_invariant`, `C09W.world_heap_exact`) and from explicit, decidable side conditions
  — the real assumptions (audit a4-A1, A2, B7):

  * `WC.LeafOk w ctr`  — the leaves are values of the harness and the fields fit their widths: every
    stored element that is not a reference to a live container is a `validElem` (plain value with
    1 ≤ size < 2³², size ≠ 65540, payload within its content bytes; or a 19-byte reference to a
    large-value slab), every map key is a value of the harness and carries 64-bit digests, address /
    allocation counter / type infos / counts / seeds are below 2⁶⁴;
  * `WC.Side sl`       — per stored slab: the CBOR nesting of its register stays within the validator's
    limit of 32 levels (`cbor.DecOptions` default; 16 nested arrays or 8 nested maps exceed it) and
    the shared inlined-extra-data section has at most 256 entries (Go refuses more);
  * `WSlab.GroupFit`   — an external collision-group slab (no size band applies to it) has fewer than
    8192 digests per digest table and fewer than 65536 entries per last-level list (`E2EM.Fit`; true
    of every group slab below 64 KiB).
  The nested replayer evaluates `Side` on every stored slab of every run (tags `SLB:side:*`) and, when
  it holds, the conclusions of the theorems below on the translation (`SLB:thm`).

  What follows from the invariant (not assumed): every size field is the computed size of the
  embedded form at every depth (`WC.storOf_ok`: `(stor e).size = e.size`, the parent's bookkeeping
  `ElemSync` carried down to bytes), counts fit their fixed-width heads, one digest per element,
  non-empty last-level lists, levels < 24, sizes < 2³², a root has no sibling, the has-inlined-slabs
  flag, slab IDs within 16 bytes, no compact form (type infos of the World model are plain).
-/
namespace Atree.C07W
open Atree Atree.Codec Gen World WC

/-- the side conditions of the slab stored under `id` -/
def SideAt (w : World) (id : SlabID) : Prop :=
  ∀ ws, w.slabAt id = some ws → Side (ws.toCodec w.stor) ∧ ws.GroupFit

instance (w : World) (id : SlabID) : Decidable (SideAt w id) := by
  unfold SideAt
  cases h : w.slabAt id with
  | none => exact isTrue (fun ws hws => by cases hws)
  | some ws0 =>
    exact decidable_of_iff (Side (ws0.toCodec w.stor) ∧ ws0.GroupFit)
      ⟨fun hh ws hws => by cases hws; exact hh, fun hh => hh ws0 rfl⟩

/-- M2, THE MAIN THEOREM.  In a world that satisfies the global invariant, every stored slab's
    translation meets the predicates of the codec theorems, carries the ID it is stored under, and
    reports (`Slab.byteSize`) the size the model keeps in the slab's header. -/
theorem worldOk_codec_ok (D : SlabID → DigestFn 4) (w : World) (ctr : Nat)
    (H : WorldOk' D w ctr) (Hh : HeapOk w ctr) (L : LeafOk w ctr)
    (id : SlabID) (sl : Slab) (hsl : w.toCodec id = some sl) (hside : SideAt w id) :
    OKAll sl ∧ RootNoNext sl ∧ sl.id = id ∧ ∃ ws, w.slabAt id = some ws ∧ sl.byteSize = ws.size := by
  rw [toCodec_eq] at hsl
  cases hs : w.slabAt id with
  | none => rw [hs] at hsl; cases hsl
  | some ws =>
    rw [hs] at hsl
    simp only [Option.map_some, Option.some.injEq] at hsl
    subst hsl
    obtain ⟨s1, s2⟩ := hside ws hs
    obtain ⟨g1, g2, g3, g4⟩ := world_slab_goal' H Hh L id ws hs s1 s2
    exact ⟨g1, g2, g4, ws, rfl, g3⟩

/-- C07 FOR SLABS WITH CHILDREN: `DecodeSlab(id, EncodeSlab(slab)) = slab`, exactly (the compact-map
    exception cannot occur: type infos are plain), for every stored slab of a valid world. -/
theorem world_decode_encode (D : SlabID → DigestFn 4) (w : World) (ctr : Nat)
    (H : WorldOk' D w ctr) (Hh : HeapOk w ctr) (L : LeafOk w ctr)
    (id : SlabID) (sl : Slab) (hsl : w.toCodec id = some sl) (hside : SideAt w id) (n : Nat) :
    ∃ k, decodeSlab id (encodeSlab sl) n = .ok sl k := by
  obtain ⟨ok, _, hid, _⟩ := worldOk_codec_ok D w ctr H Hh L id sl hsl hside
  rw [← hid]
  exact decode_encode_all sl ok n

/-- … hence re-encoding what the decoder returns reproduces the register byte for byte. -/
theorem world_reencode_fixpoint (D : SlabID → DigestFn 4) (w : World) (ctr : Nat)
    (H : WorldOk' D w ctr) (Hh : HeapOk w ctr) (L : LeafOk w ctr)
    (id : SlabID) (sl : Slab) (hsl : w.toCodec id = some sl) (hside : SideAt w id) (n : Nat)
    (sl' : Slab) (k : Nat) (h : decodeSlab id (encodeSlab sl) n = .ok sl' k) : encodeSlab sl' = encodeSlab sl := by
  obtain ⟨k', hk'⟩ := world_decode_encode D w ctr H Hh L id sl hsl hside n
  rw [hk'] at h
  cases h
  rfl

/-- C06 FOR SLABS WITH CHILDREN: the bytes written for a stored slab (+ 16 for the omitted link of
    a last non-root data slab) are exactly the size the container code reports for it (the header
    field of the model, which the nested stream compares with `ByteSize()` on every dumped slab) +
    the extra-data sections — an EQUALITY at every nesting depth. -/
theorem world_enc_len (D : SlabID → DigestFn 4) (w : World) (ctr : Nat)
    (H : WorldOk' D w ctr) (Hh : HeapOk w ctr) (L : LeafOk w ctr)
    (id : SlabID) (ws : WSlab) (hws : w.slabAt id = some ws) (hside : SideAt w id) :
    (encodeSlab (ws.toCodec w.stor)).length + omittedNext (ws.toCodec w.stor)
      = ws.size + (ws.toCodec w.stor).extraDataLen := by
  obtain ⟨s1, s2⟩ := hside ws hws
  obtain ⟨g1, g2, g3, _⟩ := world_slab_goal' H Hh L id ws hws s1 s2
  rw [← g3]
  exact enc_len_all _ g1 g2

/-- the parent's size bookkeeping, down to bytes: the storable embedded for a stored element
    (inlined child with everything inlined in it, wrappers) has exactly the size the parent
    accounts for the element -/
theorem world_elem_size (D : SlabID → DigestFn 4) (w : World) (ctr : Nat)
    (H : WorldOk' D w ctr) (Hh : HeapOk w ctr) (L : LeafOk w ctr)
    (x : SlabID) (c : Cont) (hx : w.cont? x = some c) (e : Elem) (he : e ∈ c.storedElems) :
    (w.stor e).size = e.size ∧ (encSt (w.stor e) []).1.length = e.size := by
  have E := env_of_worldOk' H Hh L
  obtain ⟨h1, h2, h3⟩ := stor_ok E e (good_of_stored (CInv.of_worldOk H) L hx e he)
  exact ⟨h1, by rw [lenSt_eq _ _ (Stor.OK_of_RTI _ h2) h3, h1]⟩

/-! ### along every history -/

/-- ALONG EVERY HISTORY from the empty world (any interleaving of requests through current handles,
    `C09W.Hist`): the invariant hypotheses are discharged; only the side conditions remain. -/
theorem hist_decode_encode (D : SlabID → DigestFn 4) (w : World) (cx : Ctx) (h : C09W.Hist D w cx)
    (L : LeafOk w cx.ctr)
    (id : SlabID) (sl : Slab) (hsl : w.toCodec id = some sl) (hside : SideAt w id) (n : Nat) :
    (∃ k, decodeSlab id (encodeSlab sl) n = .ok sl k) ∧
    (encodeSlab sl).length + omittedNext sl = sl.byteSize + sl.extraDataLen := by
  obtain ⟨H, Hh, _⟩ := C09W.world_heap_exact D w cx h
  obtain ⟨ok, hr, _, _⟩ := worldOk_codec_ok D w cx.ctr H Hh L id sl hsl hside
  exact ⟨world_decode_encode D w cx.ctr H Hh L id sl hsl hside n, enc_len_all sl ok hr⟩

end Atree.C07W
