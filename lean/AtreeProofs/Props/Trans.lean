import AtreeProofs.Trans.Basic
import AtreeProofs.Trans.Bytes
import AtreeModel.Array.Slab
import AtreeModel.Map.Tree
import AtreeModel.Codec.Decode
/-
  TRANSLATION EQUIVALENCE, part 1 (loop-free functions).

  `Atree.Gen.Trans.*` is REGENERATED from the Go sources on every check run by harness/cmd/gotrans, with Go's
  machine-integer semantics (`UInt32` wrap-around etc.).  The theorems below say that on all inputs in the stated
  ranges the translation computes what the hand-written `Nat` model computes - the model that the refinement
  proofs (C01, C02, C05, C07, ...) are about.  If a Go function changes semantically, the generated definition
  changes and its theorem here stops compiling.

  Where the two genuinely differ (wrap-around against truncated subtraction) the exact input class is a theorem
  `..._differs_at`, next to the theorem that shows the class excluded by a range hypothesis; Props/TransSafe.lean
  derives the range hypotheses from the tree invariants.
-/
namespace Atree.TransEq
open Atree Atree.Gen.Trans

/-- every whitelisted function was translated (none fell back to `untranslatable`) -/
theorem all_translated : untranslatedFunctions = [] := by decide

/-! ## settings.go -/

/-- `setThreshold(T)` panics exactly for the illegal thresholds and otherwise sets the six package variables to the
    model's `T, minThr T, maxThr T, maxInlineArr T, maxInlineMapElem T, maxInlineMapKey T` (float `*1.5` included). -/
theorem setThreshold_eq_model (T : Nat) (hT : T < 2^32) :
    setThreshold (u32 T) =
      if legalThreshold T then
        some (u32 T, u32 (minThr T), u32 (maxThr T), u32 (maxInlineArr T), u32 (maxInlineMapElem T),
              u32 (maxInlineMapKey T))
      else none := by
  have h1 : (u32 T).toNat = T := u32_toNat hT
  generalize u32 T = t at h1
  subst h1
  simp only [setThreshold, legalThreshold, goF64Mul15Gt, goF64Mul15ToU32, UInt32.lt_iff_toNat_lt,
    UInt32.toNat_ofNat', Gen.minSlabSize, Gen.maxSlabSize, gt_iff_lt, decide_eq_true_eq, Bool.and_eq_true,
    Nat.reduceMod, Nat.reducePow]
  by_cases hlo : t.toNat < 256
  · have : ¬ (256 ≤ t.toNat) := by omega
    simp [hlo, this]
  · by_cases hhi : 32768 < t.toNat
    · have : ¬ (t.toNat ≤ 32768) := by omega
      simp [hlo, hhi, this]
    · have h3 : ¬ (2 * 4294967295 < 3 * t.toNat) := by omega
      have h4 : 256 ≤ t.toNat ∧ t.toNat ≤ 32768 := by omega
      simp only [hlo, hhi, h3, h4, if_false, and_self, if_true, decide_true]
      simp only [Option.some.injEq, Prod.mk.injEq, ← UInt32.toNat_inj, UInt32.toNat_div, UInt32.toNat_sub,
        UInt32.toNat_ofNat', UInt32.toNat_ofNat, minThr, maxThr, maxInlineArr, maxInlineMapElem, maxInlineMapKey,
        Gen.arrayDataSlabPrefixSize, Gen.minElementCountInSlab, Gen.mapDataSlabPrefixSize,
        Gen.hkeyElementsPrefixSize, Gen.digestSize, Gen.singleElementPrefixSize, u32, Nat.reduceMod, Nat.reducePow]
      refine ⟨trivial, ?_, trivial, ?_, ?_, ?_⟩ <;> omega

/-- non-vacuity: the default slab size -/
example : setThreshold (u32 1024) = some (1024, 512, 1536, 501, 491, 245) := by decide

/-- `maxInlineMapValueSize(keySize)` equals the model's value as long as the key (plus its prefix byte) fits into a
    map element, which the `Value.Storable(maxInlineMapKeySize)` contract guarantees. -/
theorem maxInlineMapValueSize_eq_model (T keySize : Nat) (hT : maxInlineMapElem T < 2^32)
    (hk : keySize + Gen.singleElementPrefixSize ≤ maxInlineMapElem T) :
    (maxInlineMapValueSize (u32 keySize) (u32 (maxInlineMapElem T))).toNat = maxInlineMapValue T keySize := by
  have hk' : keySize < 2^32 := by simp only [Gen.singleElementPrefixSize] at hk; omega
  simp only [maxInlineMapValueSize, maxInlineMapValue, UInt32.toNat_sub, u32_toNat hT, u32_toNat hk',
    UInt32.toNat_ofNat', Gen.singleElementPrefixSize] at *
  omega

/-- outside that range Go wraps around where the model truncates: a key storable as large as a whole map element
    (a violation of the `Storable` contract) gets an inline value limit of 2^32 - 1 in Go, 0 in the model -/
theorem maxInlineMapValueSize_differs_at :
    (maxInlineMapValueSize (u32 (maxInlineMapElem 1024)) (u32 (maxInlineMapElem 1024))).toNat = 2^32 - 1 ∧
    maxInlineMapValue 1024 (maxInlineMapElem 1024) = 0 := by decide

/-! ## math_utils.go -/

/-- `safeAdd2Uint32` is the model's `if a + b > maxUint32 then fail else a + b` -/
theorem safeAdd2Uint32_eq_model (a b : UInt32) :
    safeAdd2Uint32 a b =
      if a.toNat + b.toNat > Codec.maxUint32 then (0, false) else (u32 (a.toNat + b.toNat), true) := by
  have := a.toNat_lt; have := b.toNat_lt
  simp only [safeAdd2Uint32, Codec.maxUint32, UInt64.lt_iff_toNat_lt, UInt64.toNat_add, UInt32.toNat_toUInt64,
    gt_iff_lt, decide_eq_true_eq, UInt64.toNat_ofNat]
  rw [show (a.toNat + b.toNat) % 2^64 = a.toNat + b.toNat by omega]
  split
  · rfl
  · simp only [Prod.mk.injEq, and_true, ← UInt32.toNat_inj, UInt64.toNat_toUInt32, UInt64.toNat_add,
      UInt32.toNat_toUInt64, u32, UInt32.toNat_ofNat']
    omega

/-- `safeAdd3Uint32` is the model's `if a + b + c > maxUint32 then fail else a + b + c` -/
theorem safeAdd3Uint32_eq_model (a b c : UInt32) :
    safeAdd3Uint32 a b c =
      if a.toNat + b.toNat + c.toNat > Codec.maxUint32 then (0, false)
      else (u32 (a.toNat + b.toNat + c.toNat), true) := by
  have := a.toNat_lt; have := b.toNat_lt; have := c.toNat_lt
  simp only [safeAdd3Uint32, Codec.maxUint32, UInt64.lt_iff_toNat_lt, UInt64.toNat_add, UInt32.toNat_toUInt64,
    gt_iff_lt, decide_eq_true_eq, UInt64.toNat_ofNat]
  rw [show ((a.toNat + b.toNat) % 2^64 + c.toNat) % 2^64 = a.toNat + b.toNat + c.toNat by omega]
  split
  · rfl
  · simp only [Prod.mk.injEq, and_true, ← UInt32.toNat_inj, UInt64.toNat_toUInt32, UInt64.toNat_add,
      UInt32.toNat_toUInt64, u32, UInt32.toNat_ofNat']
    omega

example : safeAdd2Uint32 4294967295 1 = (0, false) ∧ safeAdd2Uint32 4294967294 1 = (4294967295, true) := by decide

/-! ## IsFull / IsUnderflow of the four slab kinds -/

theorem ArrayDataSlab_IsFull_eq_model (T : Nat) (s : DataSlab) (hs : s.hdr.size < 2^32) (hT : maxThr T < 2^32) :
    ArrayDataSlab_IsFull (u32 s.hdr.size) (u32 (maxThr T)) = s.isFull T := by
  simp [ArrayDataSlab_IsFull, DataSlab.isFull, UInt32.lt_iff_toNat_lt, u32_toNat hs, u32_toNat hT]

theorem ArrayMetaDataSlab_IsFull_eq_model {α : Type} (T : Nat) (m : MetaSlab α) (hs : m.hdr.size < 2^32)
    (hT : maxThr T < 2^32) :
    ArrayMetaDataSlab_IsFull (u32 m.hdr.size) (u32 (maxThr T)) = m.isFull T := by
  simp [ArrayMetaDataSlab_IsFull, MetaSlab.isFull, UInt32.lt_iff_toNat_lt, u32_toNat hs, u32_toNat hT]

/-- the model's map data slabs are the size-limited ones (`anySize = false`; collision-group slabs are never
    asked `IsFull`) -/
theorem MapDataSlab_IsFull_eq_model {r : Nat} (T : Nat) (s : MDataSlab r) (hs : s.hdr.size < 2^32)
    (hT : maxThr T < 2^32) :
    MapDataSlab_IsFull false (u32 s.hdr.size) (u32 (maxThr T)) = s.isFull T := by
  simp [MapDataSlab_IsFull, MDataSlab.isFull, UInt32.lt_iff_toNat_lt, u32_toNat hs, u32_toNat hT]

/-- a slab without size limit is never full and never underflows, whatever its size -/
theorem MapDataSlab_anySize (hsize thr : UInt32) :
    MapDataSlab_IsFull true hsize thr = false ∧ MapDataSlab_IsUnderflow true hsize thr = (0, false) := by
  simp [MapDataSlab_IsFull, MapDataSlab_IsUnderflow]

theorem MapMetaDataSlab_IsFull_eq_model {α : Type} (T : Nat) (m : MMetaSlab α) (hs : m.hdr.size < 2^32)
    (hT : maxThr T < 2^32) :
    MapMetaDataSlab_IsFull (u32 m.hdr.size) (u32 (maxThr T)) = m.isFull T := by
  simp [MapMetaDataSlab_IsFull, MMetaSlab.isFull, UInt32.lt_iff_toNat_lt, u32_toNat hs, u32_toNat hT]

/-- the shared shape of the four `IsUnderflow` bodies -/
theorem isUnderflow_core (hsize minT : UInt32) :
    optOfPair (if decide (minT > hsize) then (minT - hsize, true) else ((0 : UInt32), false)) =
      (if minT.toNat > hsize.toNat then some (minT.toNat - hsize.toNat) else none) := by
  have := hsize.toNat_lt; have := minT.toNat_lt
  by_cases h : hsize < minT
  · have h' := UInt32.lt_iff_toNat_lt.mp h
    simp only [gt_iff_lt, h, decide_true, if_true, optOfPair, h', UInt32.toNat_sub, Option.some.injEq]
    omega
  · have h' : ¬ hsize.toNat < minT.toNat := fun hh => h (UInt32.lt_iff_toNat_lt.mpr hh)
    simp [h, optOfPair, h']

theorem ArrayDataSlab_IsUnderflow_eq_model (T : Nat) (s : DataSlab) (hs : s.hdr.size < 2^32) (hT : minThr T < 2^32) :
    optOfPair (ArrayDataSlab_IsUnderflow (u32 s.hdr.size) (u32 (minThr T))) = s.isUnderflow T := by
  unfold ArrayDataSlab_IsUnderflow
  rw [isUnderflow_core, u32_toNat hs, u32_toNat hT]; rfl

theorem ArrayMetaDataSlab_IsUnderflow_eq_model {α : Type} (T : Nat) (m : MetaSlab α) (hs : m.hdr.size < 2^32)
    (hT : minThr T < 2^32) :
    optOfPair (ArrayMetaDataSlab_IsUnderflow (u32 m.hdr.size) (u32 (minThr T))) = m.isUnderflow T := by
  unfold ArrayMetaDataSlab_IsUnderflow
  rw [isUnderflow_core, u32_toNat hs, u32_toNat hT]; rfl

theorem MapDataSlab_IsUnderflow_eq_model {r : Nat} (T : Nat) (s : MDataSlab r) (hs : s.hdr.size < 2^32)
    (hT : minThr T < 2^32) :
    optOfPair (MapDataSlab_IsUnderflow false (u32 s.hdr.size) (u32 (minThr T))) = s.isUnderflow T := by
  unfold MapDataSlab_IsUnderflow
  simp only [Bool.false_eq_true, if_false]
  rw [isUnderflow_core, u32_toNat hs, u32_toNat hT]; rfl

theorem MapMetaDataSlab_IsUnderflow_eq_model {α : Type} (T : Nat) (m : MMetaSlab α) (hs : m.hdr.size < 2^32)
    (hT : minThr T < 2^32) :
    optOfPair (MapMetaDataSlab_IsUnderflow (u32 m.hdr.size) (u32 (minThr T))) = m.isUnderflow T := by
  unfold MapMetaDataSlab_IsUnderflow
  rw [isUnderflow_core, u32_toNat hs, u32_toNat hT]; rfl

/-- non-vacuity: a 100-byte slab under T = 1024 underflows by 412 bytes, in Go and in the model -/
example : optOfPair (ArrayDataSlab_IsUnderflow (u32 100) (u32 (minThr 1024))) = some 412 := by decide

/-! ## CanLendToLeft / CanLendToRight of the index slabs (`math.Ceil(float64(size) / headerSize)`) -/

/-- the shared shape of the four bodies, `c` = the child-header size (14 for arrays, 18 for maps) -/
theorem metaCanLend_core (c : Nat) (hc0 : 0 < c) (hc : c < 2^16) (hsize size minT : UInt32)
    (h : size.toNat + c ≤ 2^32) :
    (let n : UInt32 := goCeilDivU32 size c
     if decide (hsize ≥ UInt32.ofNat c * n) then decide (hsize - UInt32.ofNat c * n > minT) else false) =
    (let n := (size.toNat + c - 1) / c
     if hsize.toNat ≥ c * n then decide (hsize.toNat - c * n > minT.toNat) else false) := by
  have := hsize.toNat_lt; have := size.toNat_lt; have := minT.toNat_lt
  have hn : (size.toNat + c - 1) / c * c ≤ size.toNat + c - 1 := Nat.div_mul_le_self _ _
  have hn2 : (size.toNat + c - 1) / c ≤ size.toNat + c - 1 := Nat.div_le_self _ _
  have hcn : c * ((size.toNat + c - 1) / c) = (size.toNat + c - 1) / c * c := Nat.mul_comm _ _
  simp only [goCeilDivU32, UInt32.le_iff_toNat_le, UInt32.lt_iff_toNat_lt, UInt32.toNat_mul, UInt32.toNat_sub,
    UInt32.toNat_ofNat', ge_iff_le, gt_iff_lt, decide_eq_true_eq]
  rw [Nat.mod_eq_of_lt (show c < 2^32 by omega),
      Nat.mod_eq_of_lt (show (size.toNat + c - 1) / c < 2^32 by omega),
      Nat.mod_eq_of_lt (show c * ((size.toNat + c - 1) / c) < 2^32 by omega)]
  generalize c * ((size.toNat + c - 1) / c) = k at *
  split
  · congr 1
    apply propext
    constructor <;> intro hh <;> omega
  · rfl

theorem ArrayMetaDataSlab_CanLendToLeft_eq_model {α : Type} (T : Nat) (m : MetaSlab α) (want : Nat)
    (hs : m.hdr.size < 2^32) (hT : minThr T < 2^32) (hw : want + Gen.arraySlabHeaderSize ≤ 2^32) :
    ArrayMetaDataSlab_CanLendToLeft (u32 m.hdr.size) (u32 want) (u32 (minThr T)) = m.canLend T want := by
  have hw' : want < 2^32 := by simp only [Gen.arraySlabHeaderSize] at hw; omega
  unfold ArrayMetaDataSlab_CanLendToLeft
  rw [metaCanLend_core Gen.arraySlabHeaderSize (by decide) (by decide) _ _ _ (by rw [u32_toNat hw']; exact hw)]
  simp only [u32_toNat hs, u32_toNat hT, u32_toNat hw', MetaSlab.canLend]

theorem ArrayMetaDataSlab_CanLendToRight_eq_model {α : Type} (T : Nat) (m : MetaSlab α) (want : Nat)
    (hs : m.hdr.size < 2^32) (hT : minThr T < 2^32) (hw : want + Gen.arraySlabHeaderSize ≤ 2^32) :
    ArrayMetaDataSlab_CanLendToRight (u32 m.hdr.size) (u32 want) (u32 (minThr T)) = m.canLend T want := by
  have hw' : want < 2^32 := by simp only [Gen.arraySlabHeaderSize] at hw; omega
  unfold ArrayMetaDataSlab_CanLendToRight
  rw [metaCanLend_core Gen.arraySlabHeaderSize (by decide) (by decide) _ _ _ (by rw [u32_toNat hw']; exact hw)]
  simp only [u32_toNat hs, u32_toNat hT, u32_toNat hw', MetaSlab.canLend]

theorem MapMetaDataSlab_CanLendToLeft_eq_model {α : Type} (T : Nat) (m : MMetaSlab α) (want : Nat)
    (hs : m.hdr.size < 2^32) (hT : minThr T < 2^32) (hw : want + Gen.mapSlabHeaderSize ≤ 2^32) :
    MapMetaDataSlab_CanLendToLeft (u32 m.hdr.size) (u32 want) (u32 (minThr T)) = m.canLend T want := by
  have hw' : want < 2^32 := by simp only [Gen.mapSlabHeaderSize] at hw; omega
  unfold MapMetaDataSlab_CanLendToLeft
  rw [metaCanLend_core Gen.mapSlabHeaderSize (by decide) (by decide) _ _ _ (by rw [u32_toNat hw']; exact hw)]
  simp only [u32_toNat hs, u32_toNat hT, u32_toNat hw', MMetaSlab.canLend]

theorem MapMetaDataSlab_CanLendToRight_eq_model {α : Type} (T : Nat) (m : MMetaSlab α) (want : Nat)
    (hs : m.hdr.size < 2^32) (hT : minThr T < 2^32) (hw : want + Gen.mapSlabHeaderSize ≤ 2^32) :
    MapMetaDataSlab_CanLendToRight (u32 m.hdr.size) (u32 want) (u32 (minThr T)) = m.canLend T want := by
  have hw' : want < 2^32 := by simp only [Gen.mapSlabHeaderSize] at hw; omega
  unfold MapMetaDataSlab_CanLendToRight
  rw [metaCanLend_core Gen.mapSlabHeaderSize (by decide) (by decide) _ _ _ (by rw [u32_toNat hw']; exact hw)]
  simp only [u32_toNat hs, u32_toNat hT, u32_toNat hw', MMetaSlab.canLend]

/-- The range hypothesis on `want` is needed: for a request within 13 bytes of 2^32 the product
    `arraySlabHeaderSize * n` wraps around in Go (to 10 here), so Go answers "can lend" where the model (and the
    intent) says no.  Callers pass an underflow size, which is below `minThreshold ≤ 16384`. -/
theorem ArrayMetaDataSlab_CanLendToLeft_differs_at :
    ArrayMetaDataSlab_CanLendToLeft (u32 1000) (u32 (2^32 - 1)) (u32 128) = true ∧
    (let n := (2^32 - 1 + Gen.arraySlabHeaderSize - 1) / Gen.arraySlabHeaderSize
     (if 1000 ≥ Gen.arraySlabHeaderSize * n then decide (1000 - Gen.arraySlabHeaderSize * n > 128) else false)
       = false) := by decide

/-! ## flag.go against the flag model of the codec (`AtreeModel/Codec/Decode.lean`, `SlabHead`) -/

open Codec in
/-- Go's `slabType` numbers for the model's enumeration -/
def slabTypeCode : Codec.SlabType → Int
  | .undefined => Int.ofNat Gen.slabTypeUndefined
  | .array => Int.ofNat Gen.slabArray
  | .map => Int.ofNat Gen.slabMap
  | .storable => Int.ofNat Gen.slabStorable

def arrayTypeCode : Codec.ArrayType → Int
  | .undefined => Int.ofNat Gen.slabArrayUndefined
  | .data => Int.ofNat Gen.slabArrayData
  | .index => Int.ofNat Gen.slabArrayMeta
  | .largeImmutable => Int.ofNat Gen.slabLargeImmutableArray

def mapTypeCode : Codec.MapType → Int
  | .undefined => Int.ofNat Gen.slabMapUndefined
  | .data => Int.ofNat Gen.slabMapData
  | .index => Int.ofNat Gen.slabMapMeta
  | .largeEntry => Int.ofNat Gen.slabMapLargeEntry
  | .collisionGroup => Int.ofNat Gen.slabMapCollisionGroup

/-- the model's head for a pair of Go bytes -/
abbrev headOf (h0 h1 : UInt8) : Codec.SlabHead := ⟨h0.toNat, h1.toNat⟩

section
set_option maxRecDepth 100000

theorem head_version_eq_model (h0 h1 : UInt8) : (head_version h0 h1).toNat = (headOf h0 h1).version := by
  show (head_version h0 0).toNat = (headOf h0 0).version
  revert h0; apply forall_u8; decide

theorem head_isRoot_eq_model (h0 h1 : UInt8) : head_isRoot h0 h1 = (headOf h0 h1).isRoot := by
  show head_isRoot 0 h1 = (headOf 0 h1).isRoot
  revert h1; apply forall_u8; decide

theorem head_hasPointers_eq_model (h0 h1 : UInt8) : head_hasPointers h0 h1 = (headOf h0 h1).hasPointers := by
  show head_hasPointers 0 h1 = (headOf 0 h1).hasPointers
  revert h1; apply forall_u8; decide

theorem head_hasSizeLimit_eq_model (h0 h1 : UInt8) : head_hasSizeLimit h0 h1 = (headOf h0 h1).hasSizeLimit := by
  show head_hasSizeLimit 0 h1 = (headOf 0 h1).hasSizeLimit
  revert h1; apply forall_u8; decide

theorem head_hasInlinedSlabs_eq_model (h0 h1 : UInt8) :
    head_hasInlinedSlabs h0 h1 = (headOf h0 h1).hasInlinedSlabs := by
  show head_hasInlinedSlabs h0 0 = (headOf h0 0).hasInlinedSlabs
  revert h0; apply forall_u8; decide

theorem head_getSlabType_eq_model (h0 h1 : UInt8) :
    head_getSlabType h0 h1 = slabTypeCode (headOf h0 h1).slabType := by
  show head_getSlabType 0 h1 = slabTypeCode (headOf 0 h1).slabType
  revert h1; apply forall_u8; decide

theorem head_getSlabArrayType_eq_model (h0 h1 : UInt8) :
    head_getSlabArrayType h0 h1 = arrayTypeCode (headOf h0 h1).arrayType := by
  show head_getSlabArrayType 0 h1 = arrayTypeCode (headOf 0 h1).arrayType
  revert h1; apply forall_u8; decide

theorem head_getSlabMapType_eq_model (h0 h1 : UInt8) :
    head_getSlabMapType h0 h1 = mapTypeCode (headOf h0 h1).mapType := by
  show head_getSlabMapType 0 h1 = mapTypeCode (headOf 0 h1).mapType
  revert h1; apply forall_u8; decide

/-- the setters OR the mask into the right byte, as the model's encoders do (`… ||| flagIf b mask`) -/
theorem head_setRoot_eq_model (h0 h1 : UInt8) :
    head_setRoot h0 h1 = (h0, u8 (h1.toNat ||| Gen.maskSlabRoot)) := by
  have : ∀ h : UInt8, h ||| UInt8.ofNat Gen.maskSlabRoot = u8 (h.toNat ||| Gen.maskSlabRoot) := by
    apply forall_u8; decide
  simp only [head_setRoot, this]

theorem head_setHasPointers_eq_model (h0 h1 : UInt8) :
    head_setHasPointers h0 h1 = (h0, u8 (h1.toNat ||| Gen.maskSlabHasPointers)) := by
  have : ∀ h : UInt8, h ||| UInt8.ofNat Gen.maskSlabHasPointers = u8 (h.toNat ||| Gen.maskSlabHasPointers) := by
    apply forall_u8; decide
  simp only [head_setHasPointers, this]

theorem head_setNoSizeLimit_eq_model (h0 h1 : UInt8) :
    head_setNoSizeLimit h0 h1 = (h0, u8 (h1.toNat ||| Gen.maskSlabAnySize)) := by
  have : ∀ h : UInt8, h ||| UInt8.ofNat Gen.maskSlabAnySize = u8 (h.toNat ||| Gen.maskSlabAnySize) := by
    apply forall_u8; decide
  simp only [head_setNoSizeLimit, this]

theorem head_setHasInlinedSlabs_eq_model (h0 h1 : UInt8) :
    head_setHasInlinedSlabs h0 h1 = (u8 (h0.toNat ||| Gen.maskHasInlinedSlabs), h1) := by
  have : ∀ h : UInt8, h ||| UInt8.ofNat Gen.maskHasInlinedSlabs = u8 (h.toNat ||| Gen.maskHasInlinedSlabs) := by
    apply forall_u8; decide
  simp only [head_setHasInlinedSlabs, this]

theorem head_setHasNextSlabID_eq_model (h0 h1 : UInt8) :
    head_setHasNextSlabID h0 h1 = (u8 (h0.toNat ||| Gen.maskHasNextSlabID), h1) := by
  have : ∀ h : UInt8, h ||| UInt8.ofNat Gen.maskHasNextSlabID = u8 (h.toNat ||| Gen.maskHasNextSlabID) := by
    apply forall_u8; decide
  simp only [head_setHasNextSlabID, this]

/-- `hasNextSlabID` (version-dependent) -/
theorem head_hasNextSlabID_eq_model (h0 h1 : UInt8) :
    head_hasNextSlabID h0 h1 = (headOf h0 h1).hasNextSlabID := by
  have hv := head_version_eq_model h0 h1
  have hr := head_isRoot_eq_model h0 h1
  have hb : ∀ h : UInt8, decide (h &&& UInt8.ofNat Gen.maskHasNextSlabID > 0) =
      decide (h.toNat &&& Gen.maskHasNextSlabID > 0) := by
    apply forall_u8; decide
  simp only [head_hasNextSlabID, Codec.SlabHead.hasNextSlabID, ← hv, ← hr, hb]
  by_cases h : head_version h0 h1 = 0
  · simp [h]
  · have : (head_version h0 h1).toNat ≠ 0 := fun hh => h (UInt8.toNat_inj.mp (by simpa using hh))
    simp [h, this]

/-- the constructors: `version << 4` in the first byte (for the versions the code accepts), the type mask in the
    second; an unsupported version or slab type is an error -/
theorem newArraySlabHead_eq_model (v : UInt8) (t : Int) :
    newArraySlabHead v t =
      if v.toNat > Gen.maxVersion then none
      else if t = Int.ofNat Gen.slabArrayData then some (u8 (v.toNat * 16), u8 Gen.maskArrayData)
      else if t = Int.ofNat Gen.slabArrayMeta then some (u8 (v.toNat * 16), u8 Gen.maskArrayMeta)
      else none := by
  have hs : ∀ v : UInt8, v <<< 4 = u8 (v.toNat * 16) := by apply forall_u8; decide
  have hc : ∀ v : UInt8, decide (v > UInt8.ofNat Gen.maxVersion) = decide (v.toNat > Gen.maxVersion) := by
    apply forall_u8; decide
  simp only [newArraySlabHead, hs, hc, decide_eq_true_eq]
  repeat' split
  all_goals rfl

theorem newMapSlabHead_eq_model (v : UInt8) (t : Int) :
    newMapSlabHead v t =
      if v.toNat > Gen.maxVersion then none
      else if t = Int.ofNat Gen.slabMapData then some (u8 (v.toNat * 16), u8 Gen.maskMapData)
      else if t = Int.ofNat Gen.slabMapMeta then some (u8 (v.toNat * 16), u8 Gen.maskMapMeta)
      else if t = Int.ofNat Gen.slabMapCollisionGroup then some (u8 (v.toNat * 16), u8 Gen.maskCollisionGroup)
      else none := by
  have hs : ∀ v : UInt8, v <<< 4 = u8 (v.toNat * 16) := by apply forall_u8; decide
  have hc : ∀ v : UInt8, decide (v > UInt8.ofNat Gen.maxVersion) = decide (v.toNat > Gen.maxVersion) := by
    apply forall_u8; decide
  simp only [newMapSlabHead, hs, hc, decide_eq_true_eq]
  repeat' split
  all_goals rfl

theorem newStorableSlabHead_eq_model (v : UInt8) :
    newStorableSlabHead v =
      if v.toNat > Gen.maxVersion then none else some (u8 (v.toNat * 16), u8 Gen.maskStorable) := by
  have hs : ∀ v : UInt8, v <<< 4 = u8 (v.toNat * 16) := by apply forall_u8; decide
  have hc : ∀ v : UInt8, decide (v > UInt8.ofNat Gen.maxVersion) = decide (v.toNat > Gen.maxVersion) := by
    apply forall_u8; decide
  simp only [newStorableSlabHead, hs, hc, decide_eq_true_eq]

/-- what is written is read back: a head built and flagged by the Go functions answers the Go (hence the model)
    queries truthfully -/
theorem head_set_get (h0 h1 : UInt8) :
    head_isRoot (head_setRoot h0 h1).1 (head_setRoot h0 h1).2 = true ∧
    head_hasPointers (head_setHasPointers h0 h1).1 (head_setHasPointers h0 h1).2 = true ∧
    head_hasSizeLimit (head_setNoSizeLimit h0 h1).1 (head_setNoSizeLimit h0 h1).2 = false ∧
    head_hasInlinedSlabs (head_setHasInlinedSlabs h0 h1).1 (head_setHasInlinedSlabs h0 h1).2 = true := by
  refine ⟨?_, ?_, ?_, ?_⟩
  · show head_isRoot 0 (head_setRoot 0 h1).2 = true
    revert h1; apply forall_u8; decide
  · show head_hasPointers 0 (head_setHasPointers 0 h1).2 = true
    revert h1; apply forall_u8; decide
  · show head_hasSizeLimit 0 (head_setNoSizeLimit 0 h1).2 = false
    revert h1; apply forall_u8; decide
  · show head_hasInlinedSlabs (head_setHasInlinedSlabs h0 0).1 0 = true
    revert h0; apply forall_u8; decide

/-- non-vacuity / read-back of the three constructors at the version the encoders use -/
example : newArraySlabHead 1 (Int.ofNat Gen.slabArrayMeta) = some (16, 1) ∧
    head_getSlabArrayType 16 1 = Int.ofNat Gen.slabArrayMeta ∧ head_version 16 1 = 1 := by decide

end

/-! ## slab_id.go -/

/-- `SlabIndex.Next` is the model's allocation counter `+ 1` (`Ctx.alloc`, the storage model's temp index) ... -/
theorem SlabIndex_Next_eq_model (idx : Nat) (h : idx + 1 < 2^64) :
    (SlabIndex_Next (u64 idx)).toNat = idx + 1 := by
  have h' : idx < 2^64 := by omega
  simp only [SlabIndex_Next, UInt64.toNat_add, u64_toNat h', UInt64.toNat_ofNat]
  omega

/-- ... for the model's allocator: the index of the slab ID that `Ctx.alloc` hands out -/
theorem SlabIndex_Next_eq_alloc (c : Ctx) (addr : Nat) (h : c.ctr + 1 < 2^64) :
    (SlabIndex_Next (u64 c.ctr)).toNat = (c.alloc addr).1.idx := by
  rw [SlabIndex_Next_eq_model c.ctr h]; rfl

/-- ... and wraps around to `SlabIndexUndefined` after 2^64 - 1 allocations for one address, where the model's
    counter keeps counting.  (Not reachable: 2^64 allocations.) -/
theorem SlabIndex_Next_differs_at : (SlabIndex_Next (u64 (2^64 - 1))).toNat = 0 := by decide

theorem goCmpU64_spec (a b : UInt64) :
    (goCmpU64 a b < 0 ↔ a.toNat < b.toNat) ∧ (goCmpU64 a b = 0 ↔ a.toNat = b.toNat) ∧
    (goCmpU64 a b > 0 ↔ b.toNat < a.toNat) := by
  unfold goCmpU64
  by_cases h1 : a < b
  · have := UInt64.lt_iff_toNat_lt.mp h1
    simp only [h1, if_true]; omega
  · have h1' : ¬ a.toNat < b.toNat := fun hh => h1 (UInt64.lt_iff_toNat_lt.mpr hh)
    by_cases h2 : a = b
    · subst h2; simp
    · have h2' : a.toNat ≠ b.toNat := fun hh => h2 (UInt64.toNat_inj.mp hh)
      simp only [h1, h2, if_false]; omega

/-- `SlabID.Compare` orders IDs by address, then index, as the model's `SlabID.lt` (the order of
    `sortedOwnedDeltaKeys`, i.e. of the commit) does; 0 exactly on equal IDs. -/
theorem SlabID_Compare_eq_model (a b : SlabID) (ha : a.addr < 2^64) (hai : a.idx < 2^64) (hb : b.addr < 2^64)
    (hbi : b.idx < 2^64) :
    (SlabID_Compare (u64 a.addr) (u64 a.idx) (u64 b.addr) (u64 b.idx) < 0 ↔ SlabID.lt a b = true) ∧
    (SlabID_Compare (u64 a.addr) (u64 a.idx) (u64 b.addr) (u64 b.idx) = 0 ↔ a = b) ∧
    (SlabID_Compare (u64 a.addr) (u64 a.idx) (u64 b.addr) (u64 b.idx) > 0 ↔ SlabID.lt b a = true) := by
  obtain ⟨aa, ai⟩ := a; obtain ⟨ba, bi⟩ := b
  simp only at ha hai hb hbi
  have s1 := goCmpU64_spec (u64 aa) (u64 ba)
  have s2 := goCmpU64_spec (u64 ai) (u64 bi)
  rw [u64_toNat ha, u64_toNat hb] at s1
  rw [u64_toNat hai, u64_toNat hbi] at s2
  simp only [SlabID_Compare, SlabID.lt, SlabID.mk.injEq, decide_eq_true_eq, beq_iff_eq]
  by_cases hz : goCmpU64 (u64 aa) (u64 ba) = 0
  · have e : aa = ba := s1.2.1.mp hz
    subst e
    simp only [hz, if_true, true_and]
    refine ⟨?_, ?_, ?_⟩
    · rw [s2.1]; simp
    · exact s2.2.1
    · rw [s2.2.2]; simp
  · have e : aa ≠ ba := fun hh => hz (s1.2.1.mpr hh)
    have e' : ba ≠ aa := fun hh => e hh.symm
    simp only [hz, if_false, e, e', false_and]
    refine ⟨?_, ?_, ?_⟩
    · rw [s1.1]; simp
    · simp only [iff_false]
    · rw [s1.2.2]; simp

/-- The VIEW behind the translation of `SlabID.Compare` is sound: on the 8-byte big-endian encodings of the model's
    codec (`Codec.beBytes 8`), Go's `bytes.Compare(address) ; if 0 then bytes.Compare(index)` is what the translated
    function computes on the numbers. -/
theorem SlabID_Compare_is_bytes_compare (addr idx oaddr oidx : UInt64) :
    SlabID_Compare addr idx oaddr oidx =
      (let r := bytesCompare (Codec.beBytes 8 addr.toNat) (Codec.beBytes 8 oaddr.toNat)
       if r = 0 then bytesCompare (Codec.beBytes 8 idx.toNat) (Codec.beBytes 8 oidx.toNat) else r) := by
  simp only [SlabID_Compare, goCmpU64_is_bytesCompare, decide_eq_true_eq]

/-- non-vacuity: same address, indexes 2 < 10 (as numbers; the byte strings 00..02 and 00..0a) -/
example : SlabID_Compare 7 2 7 10 = -1 ∧ SlabID_Compare 8 2 7 10 = 1 ∧ SlabID_Compare 7 2 7 2 = 0 := by decide

end Atree.TransEq
