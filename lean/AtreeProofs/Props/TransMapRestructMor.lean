import AtreeProofs.Trans.MapRestruct
import AtreeProofs.Props.TransMapSlabsTree
/-
  WP13, step 3 (merge / rebalance side): the GENERATED restructuring code of `Gen/TransMapSlabs.lean`
  (`MapMetaDataSlab.rebalanceChildren / mergeChildren / MergeOrRebalanceChildSlab`), run over the HEAP of the map descent
  (`envMH T`, Trans/MapRestruct.lean), against the model (`MMetaSlab.rebalanceChildren / mergeChildren /
  mergeOrRebalanceChildSlab`, Map/Tree.lean).  The WP10 proofs (Props/TransMapSlabsTree.lean) are over a storage that only
  logs (`EnvS`, `S := Ctx`); here the storage keeps the content, so the state after is an explicit chain of
  `MHSt.store / remove`, and the siblings are READ from the heap.
  Helper names carry the prefix `mrm_`, the main theorems `Ob_`.
-/
namespace Atree.TransEq
open Atree Atree.Gen.TransMap

/-! ## the storage-free slab operations, for ANY storage type (WP10 states them for `S := Ctx`; same scripts) -/

section generic
variable {r : Nat} {V W X S : Type} (T : Nat) (env : Env (MElemF (MElems r)) V W X S GE)

theorem mrm_Header_cTree (d : Nat) (t : MTree r d) :
    MapSlab_Header env (cTree d t) = some (cHdr (MTree.hdr d t)) := by
  cases d <;> rfl

theorem mrm_SlabID_cTree (d : Nat) (t : MTree r d) :
    MapSlab_SlabID env (cTree d t) = some (MTree.hdr d t).id := by
  cases d <;> rfl

theorem mrm_ByteSize_cTree (d : Nat) (t : MTree r d) :
    MapSlab_ByteSize env (cTree d t) = some (u32 (MTree.hdr d t).size) := by
  cases d <;> rfl

theorem mrm_Merge_nil (d : Nat) (t : MTree r d) : MapSlab_Merge env (cTree d t) .nil = none := by
  cases d <;> rfl

theorem mrm_Data_Merge (l rr : MDataSlab r) (x y : Option X)
    (hr8 : Gen.hkeyElementsPrefixSize ≤ rr.elems.size)
    (hsz : l.elems.size + rr.elems.size + 10 < 2^32) :
    MapDataSlab_Merge env (cData l x) (.dataSlab (cData rr y)) = some (none, cData (MDataSlab.merge l rr) x) := by
  have hm := hkeyElements_Merge_full_eq_model (V := V) env l.elems rr.elems hr8 (by omega)
  simp only [Gen.hkeyElementsPrefixSize] at hr8
  simp only [MapDataSlab_Merge, cData, elements_Merge_hkey, hm, Option.map_some, Option.isNone_none, Bool.not_true,
    Bool.false_eq_true, if_false, elements_Size_hkey, elements_firstKey_hkey, MDataSlab.merge, cHdr, Gen.mapDataSlabPrefixSize]
  have e18 : UInt32.ofNat 18 = u32 18 := rfl
  have hsize : (cH (HkeyElems.merge l.elems rr.elems)).size = u32 (HkeyElems.merge l.elems rr.elems).size := rfl
  have hms : (HkeyElems.merge l.elems rr.elems).size = l.elems.size + (rr.elems.size - 8) := rfl
  rw [hsize, e18, u32_add (by rw [hms]; omega)]

theorem mrm_Data_LendToRight (hE : EnvH (MDataSlab.eops r) T env)
    (l rr : MDataSlab r) (x y : Option X)
    (hT : minThr T < 2^32) (hT2 : Gen.mapDataSlabPrefixSize + Gen.hkeyElementsPrefixSize ≤ minThr T)
    (hlv : l.elems.level < 2^64) (hrv : rr.elems.level < 2^64)
    (hsz : l.elems.size + rr.elems.size + 10 < 2^32)
    (hr8 : Gen.hkeyElementsPrefixSize ≤ rr.elems.size)
    (hpre : Gen.hkeyElementsPrefixSize + (dg (rawSizes (MDataSlab.eops r) l.elems)).sum ≤ l.elems.size)
    (hlen : l.elems.hkeys.length = l.elems.elems.length) :
    MapDataSlab_LendToRight env (cData l x) (.dataSlab (cData rr y)) =
      match MDataSlab.lendToRight T l rr with
      | .error _ => some (some .slabRebalance, cData l x, .dataSlab (cData rr y))
      | .ok (l', r') => some (none, cData l' x, .dataSlab (cData r' y)) := by
  have hm := hkeyElements_LendToRight_full_eq_model (V := V) (MDataSlab.eops r) T env hE l.elems rr.elems hT hT2 hlv hrv
    (by omega) hr8 hpre hlen
  have hb := msl_hkey_lend_sizes (MDataSlab.eops r) T l.elems rr.elems
  have e18 : UInt32.ofNat 18 = u32 18 := rfl
  simp only [MapDataSlab_LendToRight, MDataSlab.lendToRight, cData, Bool.or_false, Bool.false_eq_true, if_false,
    elements_LendToRight_hkey, hm]
  cases hres : HkeyElems.lendToRight (MDataSlab.eops r) T l.elems rr.elems with
  | error e =>
    simp only [bind, Except.bind, Option.map_some, Option.isNone_some, Bool.not_false, if_true]
  | ok p =>
    obtain ⟨le, re⟩ := p
    have hb' := hb le re hpre hr8 hres
    simp only [Gen.hkeyElementsPrefixSize] at hr8
    simp only [bind, Except.bind, pure, Except.pure, Option.map_some, Option.isNone_none, Bool.not_true,
      Bool.false_eq_true, if_false, elements_Size_hkey, elements_firstKey_hkey, cHdr, Gen.mapDataSlabPrefixSize]
    have h1 : (cH le).size = u32 le.size := rfl
    have h1' : (cH re).size = u32 re.size := rfl
    rw [h1, h1', e18, u32_add (by omega), u32_add (by omega)]

theorem mrm_Data_BorrowFromRight (hE : EnvH (MDataSlab.eops r) T env)
    (l rr : MDataSlab r) (x y : Option X)
    (hT : minThr T < 2^32) (hT2 : Gen.mapDataSlabPrefixSize + Gen.hkeyElementsPrefixSize ≤ minThr T)
    (hlv : l.elems.level < 2^64) (hrv : rr.elems.level < 2^64)
    (hsz : l.elems.size + rr.elems.size + 10 < 2^32)
    (hl8 : Gen.hkeyElementsPrefixSize ≤ l.elems.size)
    (hpre : Gen.hkeyElementsPrefixSize + (dg (rawSizes (MDataSlab.eops r) rr.elems)).sum ≤ rr.elems.size)
    (hlen : rr.elems.elems.length ≤ rr.elems.hkeys.length) :
    MapDataSlab_BorrowFromRight env (cData l x) (.dataSlab (cData rr y)) =
      match MDataSlab.borrowFromRight T l rr with
      | .error _ => some (some .slabRebalance, cData l x, .dataSlab (cData rr y))
      | .ok (l', r') => some (none, cData l' x, .dataSlab (cData r' y)) := by
  have hm := hkeyElements_BorrowFromRight_full_eq_model (V := V) (MDataSlab.eops r) T env hE l.elems rr.elems hT hT2
    hlv hrv (by omega) hl8 hpre hlen
  have hb := msl_hkey_borrow_sizes (MDataSlab.eops r) T l.elems rr.elems
  have e18 : UInt32.ofNat 18 = u32 18 := rfl
  simp only [MapDataSlab_BorrowFromRight, MDataSlab.borrowFromRight, cData, Bool.or_false, Bool.false_eq_true, if_false,
    elements_BorrowFromRight_hkey, hm]
  cases hres : HkeyElems.borrowFromRight (MDataSlab.eops r) T l.elems rr.elems with
  | error e =>
    simp only [bind, Except.bind, Option.map_some, Option.isNone_some, Bool.not_false, if_true]
  | ok p =>
    obtain ⟨le, re⟩ := p
    have hb' := hb le re hpre hl8 hres
    simp only [Gen.hkeyElementsPrefixSize] at hl8 hpre
    simp only [bind, Except.bind, pure, Except.pure, Option.map_some, Option.isNone_none, Bool.not_true,
      Bool.false_eq_true, if_false, elements_Size_hkey, elements_firstKey_hkey, cHdr, Gen.mapDataSlabPrefixSize]
    have h1 : (cH le).size = u32 le.size := rfl
    have h1' : (cH re).size = u32 re.size := rfl
    rw [h1, h1', e18, u32_add (by omega), u32_add (by omega)]

/-- `MapSlab.Merge` on two subtree roots of the same depth = `MTree.merge` (any storage type) -/
theorem mrm_Merge_eq_model (d : Nat) (l rr : MTree r d) (h : msl_MergeOK d l rr) :
    MapSlab_Merge env (cTree d l) (cTree d rr) = some (none, cTree d (MTree.merge d l rr)) := by
  cases d with
  | zero =>
    have hd := mrm_Data_Merge env l rr none none h.1 h.2
    simp only [MapSlab_Merge, cTree, MTree.merge, hd]
  | succ d =>
    have hd := MapMetaDataSlab_Merge_full_eq_model (V := V) env l rr (none : Option X) none h
    simp only [MapSlab_Merge, cTree, MTree.merge, hd]

theorem mrm_LendToRight_eq_model (hE : EnvH (MDataSlab.eops r) T env) (d : Nat) (l rr : MTree r d)
    (h : msl_LendOK T d l rr) :
    MapSlab_LendToRight env (cTree d l) (cTree d rr) =
      match MTree.lendToRight T d l rr with
      | .error e => some (some e, cTree d l, cTree d rr)
      | .ok (l', r') => some (none, cTree d l', cTree d r') := by
  cases d with
  | zero =>
    obtain ⟨h1, h2, h3, h4, h5, h6, h7, h8⟩ := h
    have hd := mrm_Data_LendToRight T env hE l rr none none h1 h2 h3 h4 h5 h6 h7 h8
    have he := MDataSlab.msl_lendToRight_error T l rr
    simp only [MapSlab_LendToRight, cTree, MTree.lendToRight, hd]
    cases hsp : MDataSlab.lendToRight T l rr with
    | error e => rw [he e hsp]
    | ok p => obtain ⟨l', r'⟩ := p; rfl
  | succ d =>
    have hd := MapMetaDataSlab_LendToRight_full_eq_model (V := V) env l rr (none : Option X) none h.1 h.2
    simp only [MapSlab_LendToRight, cTree, MTree.lendToRight, hd]

theorem mrm_BorrowFromRight_eq_model (hE : EnvH (MDataSlab.eops r) T env) (d : Nat) (l rr : MTree r d)
    (h : msl_BorrowOK T d l rr) :
    MapSlab_BorrowFromRight env (cTree d l) (cTree d rr) =
      match MTree.borrowFromRight T d l rr with
      | .error e => some (some e, cTree d l, cTree d rr)
      | .ok (l', r') => some (none, cTree d l', cTree d r') := by
  cases d with
  | zero =>
    obtain ⟨h1, h2, h3, h4, h5, h6, h7, h8⟩ := h
    have hd := mrm_Data_BorrowFromRight T env hE l rr none none h1 h2 h3 h4 h5 h6 h7 h8
    have he := MDataSlab.msl_borrowFromRight_error T l rr
    simp only [MapSlab_BorrowFromRight, cTree, MTree.borrowFromRight, hd]
    cases hsp : MDataSlab.borrowFromRight T l rr with
    | error e => rw [he e hsp]
    | ok p => obtain ⟨l', r'⟩ := p; rfl
  | succ d =>
    have hd := MapMetaDataSlab_BorrowFromRight_full_eq_model (V := V) env l rr (none : Option X) none h.1 h.2
    simp only [MapSlab_BorrowFromRight, cTree, MTree.borrowFromRight, hd]

theorem mrm_rebalance_step (hE : EnvH (MDataSlab.eops r) T env) (d : Nat) (l rr : MTree r d) (b : Bool)
    (hok : msl_RebalanceOK T d l rr b) :
    (if b then MapSlab_BorrowFromRight env (cTree d l) (cTree d rr) else MapSlab_LendToRight env (cTree d l) (cTree d rr)) =
      match (if b then MTree.borrowFromRight T d l rr else MTree.lendToRight T d l rr) with
      | .error e => some (some e, cTree d l, cTree d rr)
      | .ok (l', r') => some (none, cTree d l', cTree d r') := by
  cases b with
  | true => exact mrm_BorrowFromRight_eq_model T env hE d l rr hok
  | false => exact mrm_LendToRight_eq_model T env hE d l rr hok

end generic

/-! ## 1. storage access over the heap -/

section heap
variable {r : Nat} (T : Nat)

theorem mrm_envMH_EnvH : EnvH (MDataSlab.eops r) T (envMH (r := r) T) := envMH_EnvH T

/-- `getMapSlab` when the heap holds the translation of a subtree root -/
theorem mrm_getMapSlab_heap (s : MHSt r) (id : SlabID) (d : Nat) (t : MTree r d)
    (h : s.heap id = some (md_tree d t none)) :
    getMapSlab (envMH T) s id = (cTree d t, none, s) := by
  simp only [getMapSlab, envMH_retrieve, h, mr_toM_md_tree_none, Option.isNone_none, Bool.not_true,
    Bool.false_eq_true, if_false, msl_cTree_isNil, Bool.not_false]

/-- `getMapSlab` when the heap has nothing under the identifier: `SlabNotFoundError`, nothing changed -/
theorem mrm_getMapSlab_heap_none (s : MHSt r) (id : SlabID) (h : s.heap id = none) :
    getMapSlab (envMH T) s id = (.nil, some .slabNotFound, s) := by
  simp only [getMapSlab, envMH_retrieve, h, Option.isNone_none, Bool.not_true, Bool.false_eq_true, if_false,
    Bool.not_false, if_true, envMH_snf]

/-- `storeSlab` of a subtree root: the heap holds its descent translation afterwards -/
theorem mrm_storeSlab_heap (s : MHSt r) (d : Nat) (t : MTree r d) (hf : mr_RootFit d t) :
    storeSlab (envMH T) s (cTree d t) = some (none, s.store (MTree.hdr d t).id (md_tree d t none)) := by
  simp only [storeSlab, mrm_SlabID_cTree, envMH_store, mr_fromM_cTree d t hf, Option.isNone_none, Bool.not_true,
    Bool.false_eq_true, if_false]

/-- `storeSlab` of an index slab (the parent, with its extra data) -/
theorem mrm_storeSlab_meta {α : Type} (s : MHSt r) (m : MMetaSlab α) (x : Option DX) :
    storeSlab (envMH T) s (.metaSlab (cMeta m x)) = some (none, s.store m.hdr.id (.metaSlab (md_meta m x))) := by
  simp only [storeSlab, MapSlab_SlabID, MapMetaDataSlab_SlabID, envMH_store, mr_fromM_cMeta, Option.isNone_none,
    Bool.not_true, Bool.false_eq_true, if_false]
  rfl

/-- the two lend decisions of `envMH` on the translation of a subtree root ARE the model's -/
theorem mrm_canLend (b : Bool) (d : Nat) (t : MTree r d) (n : Nat) (hn : n < 2^32)
    (hf : mr_RootFit d t) (hs : (MTree.hdr d t).size < 2^32) :
    mr_canLend T b (cTree d t) (u32 n) =
      (if b then MTree.canLendToRight T d t n else MTree.canLendToLeft T d t n) := by
  cases d with
  | zero =>
    have e : (mr_modelData (cData (V := SV) (X := DX) (t : MDataSlab r) none)).elems = (t : MDataSlab r).elems :=
      mr_dH_cH _ hf
    cases b <;>
      simp only [cTree, mr_canLend, e, u32_toNat hn, MTree.canLendToLeft, MTree.canLendToRight,
        MDataSlab.canLendToLeft, MDataSlab.canLendToRight, MDataSlab.eops, if_true, Bool.false_eq_true, if_false]
  | succ d =>
    have hs' := hs
    simp only [MTree.hdr] at hs'
    cases b <;>
      simp only [cTree, cMeta, cHdr, mr_canLend, MMetaSlab.canLend, u32_toNat hn, u32_toNat hs', MTree.canLendToLeft,
        MTree.canLendToRight, if_true, Bool.false_eq_true, if_false]

end heap

/-! ## 2. `rebalanceChildren` / `mergeChildren` over the heap -/

section heapOps
variable {r : Nat} (T : Nat)

/-- `storeSlab` of any index-slab record -/
theorem mrm_storeSlab_metaRec (s : MHSt r) (mm : MapMetaDataSlab DX) :
    storeSlab (envMH T) s (.metaSlab mm) = some (none, s.store mm.header.slabID (.metaSlab (mr_metaD mm))) := by
  simp only [storeSlab, MapSlab_SlabID, MapMetaDataSlab_SlabID, envMH_store, mr_fromM, Option.isNone_none,
    Bool.not_true, Bool.false_eq_true, if_false]

/-- the heap after `rebalanceChildren`: `Store` left, `Store` right, `Store` parent -/
def mrm_rebHeap {α : Type} (s : MHSt r) (d : Nat) (l' r' : MTree r d) (m' : MMetaSlab α) (x : Option DX) : MHSt r :=
  ((s.store (MTree.hdr d l').id (md_tree d l' none)).store (MTree.hdr d r').id (md_tree d r' none)).store
    m'.hdr.id (.metaSlab (md_meta m' x))

/-- the heap after `mergeChildren`: `Store` merged, `Store` parent, `Remove` right -/
def mrm_mergeHeap {α : Type} (s : MHSt r) (d : Nat) (merged : MTree r d) (m' : MMetaSlab α) (x : Option DX)
    (rid : SlabID) : MHSt r :=
  ((s.store (MTree.hdr d merged).id (md_tree d merged none)).store m'.hdr.id (.metaSlab (md_meta m' x))).remove rid

/-- `MapMetaDataSlab.rebalanceChildren` over the heap = `MMetaSlab.rebalanceChildren`: as WP10's
    `MapMetaDataSlab_rebalanceChildren_eq_model`, the storage after is the heap with both children and the parent stored
    (their descent translations), in this order.  `hfit`: the data-slab fields of the two results are in `uint` range. -/
theorem Ob_rebalanceChildren_heap (d : Nat)
    (m : MMetaSlab (MTree r d)) (x : Option DX) (l rr : MTree r d) (li ri : Nat) (b : Bool) (s : MHSt r)
    (hli : li < m.childHdrs.length) (hri : ri < m.childHdrs.length) (hok : msl_RebalanceOK T d l rr b)
    (hfit : mr_RootFit d (msl_rebalanced T d l rr b).1 ∧ mr_RootFit d (msl_rebalanced T d l rr b).2) :
    MapMetaDataSlab_rebalanceChildren (envMH T) (cMeta m x) s (cTree d l) (cTree d rr) (Int.ofNat li) (Int.ofNat ri) b =
      match MMetaSlab.rebalanceChildren T m l rr li ri b s.ctx with
      | .error e => some (some e, cMeta m x, s, cTree d l, cTree d rr)
      | .ok (m', _) =>
        some (none, cMeta m' x,
          mrm_rebHeap s d (msl_rebalanced T d l rr b).1 (msl_rebalanced T d l rr b).2 m' x,
          cTree d (msl_rebalanced T d l rr b).1, cTree d (msl_rebalanced T d l rr b).2) := by
  have hstep := mrm_rebalance_step T (envMH T) (mrm_envMH_EnvH T) d l rr b hok
  have hl : goInRange (cMeta m x).childrenHeaders (Int.ofNat li) = true :=
    msl_goInRange_ofNat _ _ (by simp only [cMeta, List.length_map]; exact hli)
  simp only [msl_rebalanced] at hfit
  simp only [MapMetaDataSlab_rebalanceChildren, MMetaSlab.rebalanceChildren, msl_rebalanced, mrm_rebHeap]
  cases b with
  | true =>
    simp only [↓reduceIte] at hstep hfit ⊢
    rw [hstep]
    cases hres : MTree.borrowFromRight T d l rr with
    | error e => simp only [bind, Except.bind, Option.isNone_some, Bool.not_false, if_true]
    | ok p =>
      obtain ⟨l', r'⟩ := p
      rw [hres] at hfit
      have hr : goInRange ((m.childHdrs.set li (MTree.hdr d l')).map cHdr) (Int.ofNat ri) = true :=
        msl_goInRange_ofNat _ _ (by rw [List.length_map, List.length_set]; exact hri)
      simp only [bind, Except.bind, pure, Except.pure, Option.isNone_none, Bool.not_true, Bool.false_eq_true, if_false,
        mrm_Header_cTree, hl, if_true, msl_intOfNat_toNat, int_deq_zero]
      simp only [cMeta, msl_cHdr_set, hr, if_true]
      by_cases h0 : li = 0
      · simp only [h0, decide_true, if_true, mrm_storeSlab_heap T _ d l' hfit.1, mrm_storeSlab_heap T _ d r' hfit.2,
          mrm_storeSlab_metaRec, Option.isNone_none,
          Bool.not_true, Bool.false_eq_true, if_false, beq_self_eq_true]
        simp only [cHdr, mr_metaD, mr_hdrD, md_meta, md_hdr, List.map_map, Function.comp_def]
        rfl
      · simp only [h0, decide_false, Bool.false_eq_true, if_false, mrm_storeSlab_heap T _ d l' hfit.1,
          mrm_storeSlab_heap T _ d r' hfit.2, mrm_storeSlab_metaRec,
          Option.isNone_none, Bool.not_true, beq_iff_eq]
        simp only [cHdr, mr_metaD, mr_hdrD, md_meta, md_hdr, List.map_map, Function.comp_def]
        rfl
  | false =>
    simp only [Bool.false_eq_true, ↓reduceIte] at hstep hfit ⊢
    rw [hstep]
    cases hres : MTree.lendToRight T d l rr with
    | error e => simp only [bind, Except.bind, Option.isNone_some, Bool.not_false, if_true]
    | ok p =>
      obtain ⟨l', r'⟩ := p
      rw [hres] at hfit
      have hr : goInRange ((m.childHdrs.set li (MTree.hdr d l')).map cHdr) (Int.ofNat ri) = true :=
        msl_goInRange_ofNat _ _ (by rw [List.length_map, List.length_set]; exact hri)
      simp only [bind, Except.bind, pure, Except.pure, Option.isNone_none, Bool.not_true, Bool.false_eq_true, if_false,
        mrm_Header_cTree, hl, if_true, msl_intOfNat_toNat, int_deq_zero]
      simp only [cMeta, msl_cHdr_set, hr, if_true]
      by_cases h0 : li = 0
      · simp only [h0, decide_true, if_true, mrm_storeSlab_heap T _ d l' hfit.1, mrm_storeSlab_heap T _ d r' hfit.2,
          mrm_storeSlab_metaRec, Option.isNone_none,
          Bool.not_true, Bool.false_eq_true, if_false, beq_self_eq_true]
        simp only [cHdr, mr_metaD, mr_hdrD, md_meta, md_hdr, List.map_map, Function.comp_def]
        rfl
      · simp only [h0, decide_false, Bool.false_eq_true, if_false, mrm_storeSlab_heap T _ d l' hfit.1,
          mrm_storeSlab_heap T _ d r' hfit.2, mrm_storeSlab_metaRec,
          Option.isNone_none, Bool.not_true, beq_iff_eq]
        simp only [cHdr, mr_metaD, mr_hdrD, md_meta, md_hdr, List.map_map, Function.comp_def]
        rfl

/-- `MapMetaDataSlab.mergeChildren` over the heap = `MMetaSlab.mergeChildren`: as WP10's
    `MapMetaDataSlab_mergeChildren_eq_model`; the heap after: merged slab stored, parent stored, right slab removed. -/
theorem Ob_mergeChildren_heap (d : Nat)
    (m : MMetaSlab (MTree r d)) (x : Option DX) (l rr : MTree r d) (li ri : Nat) (s : MHSt r)
    (hli : li < m.childHdrs.length) (hri : ri < m.childHdrs.length)
    (hsz : Gen.mapSlabHeaderSize ≤ m.hdr.size) (hok : msl_MergeOK d l rr)
    (hfit : mr_RootFit d (MTree.merge d l rr)) :
    MapMetaDataSlab_mergeChildren (envMH T) (cMeta m x) s (cTree d l) (cTree d rr) (Int.ofNat li) (Int.ofNat ri) =
      some (none, cMeta (MMetaSlab.mergeChildren m l rr li ri s.ctx).1 x,
        mrm_mergeHeap s d (MTree.merge d l rr) (MMetaSlab.mergeChildren m l rr li ri s.ctx).1 x (MTree.hdr d rr).id,
        cTree d (MTree.merge d l rr)) := by
  have hm := mrm_Merge_eq_model (envMH T) d l rr hok
  have hu := MapMetaDataSlab_updateChildrenHeadersAfterMerge_eq' (V := SV) (envMH (r := r) T) m x
    (MTree.hdr d (MTree.merge d l rr)) li ri hli hri
  simp only [MapMetaDataSlab_mergeChildren, MMetaSlab.mergeChildren, mrm_mergeHeap, hm, Option.isNone_none, Bool.not_true,
    Bool.false_eq_true, if_false, mrm_Header_cTree, hu, int_deq_zero, mrm_SlabID_cTree]
  by_cases h0 : li = 0
  · simp only [h0, decide_true, if_true, mrm_storeSlab_heap T _ d _ hfit, mrm_storeSlab_metaRec, Option.isNone_none,
      Bool.not_true, Bool.false_eq_true, if_false, beq_self_eq_true, envMH_remove]
    simp only [cMeta, cHdr, u32, UInt32.ofNat_sub hsz, mr_metaD, mr_hdrD, md_meta, md_hdr, List.map_map,
      Function.comp_def]
    rfl
  · simp only [h0, decide_false, Bool.false_eq_true, if_false, mrm_storeSlab_heap T _ d _ hfit, mrm_storeSlab_metaRec,
      Option.isNone_none, Bool.not_true, beq_iff_eq, envMH_remove]
    simp only [cMeta, cHdr, u32, UInt32.ofNat_sub hsz, mr_metaD, mr_hdrD, md_meta, md_hdr, List.map_map,
      Function.comp_def]
    rfl

end heapOps

/-! ## 3. `MergeOrRebalanceChildSlab` over the heap -/

section mor
variable {r : Nat} (T : Nat)

theorem mrm_canLendR (d : Nat) (t : MTree r d) (n : Nat) (hn : n < 2^32)
    (hf : mr_RootFit d t) (hs : (MTree.hdr d t).size < 2^32) :
    (envMH T).MapSlab_CanLendToRight (cTree d t) (u32 n) = MTree.canLendToRight T d t n := by
  have h := mrm_canLend T true d t n hn hf hs
  simpa using h

theorem mrm_canLendL (d : Nat) (t : MTree r d) (n : Nat) (hn : n < 2^32)
    (hf : mr_RootFit d t) (hs : (MTree.hdr d t).size < 2^32) :
    (envMH T).MapSlab_CanLendToLeft (cTree d t) (u32 n) = MTree.canLendToLeft T d t n := by
  have h := mrm_canLend T false d t n hn hf hs
  simpa using h

/-- the heap after the `rebalanceChildren` call of a branch (unchanged when the rebalance step fails) -/
def mrm_rebHeapOf (d : Nat) (m : MMetaSlab (MTree r d)) (x : Option DX) (l rr : MTree r d) (li ri : Nat) (b : Bool)
    (s : MHSt r) : MHSt r :=
  match MMetaSlab.rebalanceChildren T m l rr li ri b s.ctx with
  | .ok (m', _) => mrm_rebHeap s d (msl_rebalanced T d l rr b).1 (msl_rebalanced T d l rr b).2 m' x
  | .error _ => s

/-- the heap after the `mergeChildren` call of a branch -/
def mrm_mergeHeapOf (d : Nat) (m : MMetaSlab (MTree r d)) (x : Option DX) (l rr : MTree r d) (li ri : Nat)
    (s : MHSt r) : MHSt r :=
  mrm_mergeHeap s d (MTree.merge d l rr) (MMetaSlab.mergeChildren m l rr li ri s.ctx).1 x (MTree.hdr d rr).id

/-- the heap after `MergeOrRebalanceChildSlab`, by the branch of the 3 x 3 decision table taken (mirrors
    `MMetaSlab.mergeOrRebalanceChildSlab`) -/
def mrm_morHeap (d : Nat) (m : MMetaSlab (MTree r d)) (x : Option DX) (child : MTree r d) (k u : Nat) (s : MHSt r) :
    MHSt r :=
  let leftSib : Option (MTree r d) := if k > 0 then m.children[k - 1]? else none
  let rightSib : Option (MTree r d) := if k + 1 < m.childHdrs.length then m.children[k + 1]? else none
  let leftCanLend := match leftSib with | some l => MTree.canLendToRight T d l u | none => false
  let rightCanLend := match rightSib with | some x => MTree.canLendToLeft T d x u | none => false
  if leftCanLend || rightCanLend then
    match leftSib, rightSib with
    | some l, some y =>
      if !leftCanLend then mrm_rebHeapOf T d m x child y k (k + 1) true s
      else if !rightCanLend then mrm_rebHeapOf T d m x l child (k - 1) k false s
      else if (MTree.hdr d l).size > (MTree.hdr d y).size then mrm_rebHeapOf T d m x l child (k - 1) k false s
      else mrm_rebHeapOf T d m x child y k (k + 1) true s
    | some l, none => mrm_rebHeapOf T d m x l child (k - 1) k false s
    | none, some y => mrm_rebHeapOf T d m x child y k (k + 1) true s
    | none, none => s
  else
    match leftSib, rightSib with
    | none, some y => mrm_mergeHeapOf d m x child y k (k + 1) s
    | some l, none => mrm_mergeHeapOf d m x l child (k - 1) k s
    | some l, some y =>
      if (MTree.hdr d l).size < (MTree.hdr d y).size then mrm_mergeHeapOf d m x l child (k - 1) k s
      else mrm_mergeHeapOf d m x child y k (k + 1) s
    | none, none => s

/-- closes a rebalance leaf (as WP10's macro) -/
local macro "mrm_rebalance " thm:term ", " mdl:term ", " herr:term : tactic =>
  `(tactic| (rw [$thm:term]; cases hres : $mdl:term with
      | error e => rw [$herr:term e hres]
      | ok p => rfl))

/-- the `uint`-range side conditions of `Ob_MergeOrRebalanceChildSlab_heap`: what the way back from the restructuring
    unit's records to the descent's needs (the siblings as read, every possible result slab) -/
structure mrm_MorFit (d : Nat) (m : MMetaSlab (MTree r d)) (child : MTree r d) (k u : Nat) : Prop where
  hu : u < 2^32
  sib : ∀ i t, (i + 1 = k ∨ i = k + 1) → m.children[i]? = some t → mr_RootFit d t
  rebL : ∀ t, 0 < k → m.children[k - 1]? = some t →
    mr_RootFit d (msl_rebalanced T d t child false).1 ∧ mr_RootFit d (msl_rebalanced T d t child false).2
  rebR : ∀ t, m.children[k + 1]? = some t →
    mr_RootFit d (msl_rebalanced T d child t true).1 ∧ mr_RootFit d (msl_rebalanced T d child t true).2
  mergeL : ∀ t, 0 < k → m.children[k - 1]? = some t → mr_RootFit d (MTree.merge d t child)
  mergeR : ∀ t, m.children[k + 1]? = some t → mr_RootFit d (MTree.merge d child t)

set_option linter.unusedSimpArgs false in
/-- `MapMetaDataSlab.MergeOrRebalanceChildSlab` of the restructuring unit over the heap = the model's
    `MMetaSlab.mergeOrRebalanceChildSlab`, the whole 3 x 3 table.  As WP10's
    `MapMetaDataSlab_MergeOrRebalanceChildSlab_eq_model`, with: the SIBLINGS `k - 1`, `k + 1` read from the heap (`hheap`),
    the two lend decisions discharged (`mrm_canLendR / L`), the storage after = `mrm_morHeap`. -/
theorem mrm_MergeOrRebalanceChildSlab_gen (d : Nat)
    (m : MMetaSlab (MTree r d)) (x : Option DX) (child : MTree r d) (k u : Nat) (s : MHSt r)
    (hlen : m.children.length = m.childHdrs.length) (hk : k < m.childHdrs.length)
    (hsz : Gen.mapSlabHeaderSize ≤ m.hdr.size)
    (hheap : ∀ i t h, (i + 1 = k ∨ i = k + 1) → m.children[i]? = some t → m.childHdrs[i]? = some h →
      s.heap h.id = some (md_tree d t none))
    (hfit : mrm_MorFit T d m child k u)
    (hsize : ∀ i t, (i + 1 = k ∨ i = k + 1) → m.children[i]? = some t → (MTree.hdr d t).size < 2^32)
    (hLend : ∀ t, 0 < k → m.children[k - 1]? = some t → MTree.canLendToRight T d t u = true → msl_LendOK T d t child)
    (hBorrow : ∀ t, m.children[k + 1]? = some t → MTree.canLendToLeft T d t u = true → msl_BorrowOK T d child t)
    (hMergeL : ∀ t, 0 < k → m.children[k - 1]? = some t → msl_MergeOK d t child)
    (hMergeR : ∀ t, m.children[k + 1]? = some t → msl_MergeOK d child t) :
    MapMetaDataSlab_MergeOrRebalanceChildSlab (envMH T) (cMeta m x) s (cTree d child) (Int.ofNat k) (u32 u) =
      match MMetaSlab.mergeOrRebalanceChildSlab T m child k u s.ctx with
      | .error .goPanic => none
      | .error e => some (some e, cMeta m x, s, cTree d child)
      | .ok (m', _) =>
        some (none, cMeta m' x, mrm_morHeap T d m x child k u s, cTree d (msl_morChild T d m child k u)) := by
  have hcm : (cMeta m x).childrenHeaders = m.childHdrs.map cHdr := rfl
  have isNil_nil : (MapSlab.nil : MapSlab (MElemF (MElems r)) SV DX).isNil = true := rfl
  simp only [MapMetaDataSlab_MergeOrRebalanceChildSlab, MMetaSlab.mergeOrRebalanceChildSlab, msl_morChild, mrm_morHeap,
    mrm_rebHeapOf, mrm_mergeHeapOf, hcm, List.length_map, msl_int_dgt0, msl_int_dlt_pred, msl_intOfNat_succ]
  by_cases hk0 : 0 < k
  · have hp := msl_intOfNat_pred k hk0
    have hlc' : k - 1 < m.children.length := by omega
    have hlh' : k - 1 < m.childHdrs.length := by omega
    have hls : m.children[k - 1]? = some (m.children[k - 1]) := List.getElem?_eq_getElem hlc'
    have hlh : m.childHdrs[k - 1]? = some (m.childHdrs[k - 1]) := List.getElem?_eq_getElem hlh'
    generalize m.children[k - 1] = ls at hls
    generalize m.childHdrs[k - 1] = lh at hlh
    have hgl : getMapSlab (envMH T) s (cHdr lh).slabID = (cTree d ls, none, s) :=
      mrm_getMapSlab_heap T s _ d ls (hheap (k - 1) ls lh (Or.inl (by omega)) hls hlh)
    have hsl := hsize (k - 1) ls (Or.inl (by omega)) hls
    have hcr' := mrm_canLendR T d ls u hfit.hu (hfit.sib (k - 1) ls (Or.inl (by omega)) hls) hsl
    by_cases hkr : k + 1 < m.childHdrs.length
    · -- both siblings
      have hxc : k + 1 < m.children.length := by omega
      have hxs : m.children[k + 1]? = some (m.children[k + 1]) := List.getElem?_eq_getElem hxc
      have hxh : m.childHdrs[k + 1]? = some (m.childHdrs[k + 1]) := List.getElem?_eq_getElem hkr
      generalize m.children[k + 1] = xs at hxs
      generalize m.childHdrs[k + 1] = xh at hxh
      have hgx : getMapSlab (envMH T) s (cHdr xh).slabID = (cTree d xs, none, s) :=
        mrm_getMapSlab_heap T s _ d xs (hheap (k + 1) xs xh (Or.inr rfl) hxs hxh)
      have hsx := hsize (k + 1) xs (Or.inr rfl) hxs
      have hcl' := mrm_canLendL T d xs u hfit.hu (hfit.sib (k + 1) xs (Or.inr rfl) hxs) hsx
      simp only [gt_iff_lt, hk0, hkr, decide_true, decide_false, if_true, if_false, Bool.false_eq_true, msl_goIdx_map_ofNat, Option.map_some, Option.isNone_none, Bool.not_true, Bool.not_false, isNil_nil, msl_cTree_isNil, Bool.true_and, Bool.false_and, hp, hlh, hls, hgl, hcr', hxh, hxs, hgx, hcl', mrm_ByteSize_cTree, u32_dgt hsl hsx,
        u32_dlt hsl hsx]
      cases hlc : MTree.canLendToRight T d ls u <;> cases hrc : MTree.canLendToLeft T d xs u <;>
        simp only [Bool.or_false, Bool.or_true, Bool.false_or, Bool.true_or, Bool.not_true, Bool.not_false, if_true, if_false, Bool.false_eq_true]
      · -- neither can lend: merge with the smaller sibling
        by_cases hlt : (MTree.hdr d ls).size < (MTree.hdr d xs).size
        · simp only [hlt, decide_true, if_true]
          rw [Ob_mergeChildren_heap T d m x ls child (k - 1) k s hlh' hk hsz (hMergeL ls hk0 hls) (hfit.mergeL ls hk0 hls)]
        · simp only [hlt, decide_false, if_false, Bool.false_eq_true]
          rw [Ob_mergeChildren_heap T d m x child xs k (k + 1) s hk hkr hsz (hMergeR xs hxs) (hfit.mergeR xs hxs)]
      · mrm_rebalance (Ob_rebalanceChildren_heap T d m x child xs k (k + 1) true s hk hkr
            (hBorrow xs hxs hrc) (hfit.rebR xs hxs)), (MMetaSlab.rebalanceChildren T m child xs k (k + 1) true s.ctx),
            (MMetaSlab.msl_rebalanceChildren_error T d m child xs k (k + 1) true s.ctx)
      · mrm_rebalance (Ob_rebalanceChildren_heap T d m x ls child (k - 1) k false s hlh' hk
            (hLend ls hk0 hls hlc) (hfit.rebL ls hk0 hls)), (MMetaSlab.rebalanceChildren T m ls child (k - 1) k false s.ctx),
            (MMetaSlab.msl_rebalanceChildren_error T d m ls child (k - 1) k false s.ctx)
      · -- both can lend: rebalance with the bigger sibling
        by_cases hgt : (MTree.hdr d ls).size > (MTree.hdr d xs).size
        · simp only [hgt, decide_true, if_true]
          mrm_rebalance (Ob_rebalanceChildren_heap T d m x ls child (k - 1) k false s hlh' hk
            (hLend ls hk0 hls hlc) (hfit.rebL ls hk0 hls)), (MMetaSlab.rebalanceChildren T m ls child (k - 1) k false s.ctx),
            (MMetaSlab.msl_rebalanceChildren_error T d m ls child (k - 1) k false s.ctx)
        · simp only [hgt, decide_false, if_false, Bool.false_eq_true]
          mrm_rebalance (Ob_rebalanceChildren_heap T d m x child xs k (k + 1) true s hk hkr
            (hBorrow xs hxs hrc) (hfit.rebR xs hxs)), (MMetaSlab.rebalanceChildren T m child xs k (k + 1) true s.ctx),
            (MMetaSlab.msl_rebalanceChildren_error T d m child xs k (k + 1) true s.ctx)
    · -- only the left sibling
      simp only [gt_iff_lt, hk0, hkr, decide_true, decide_false, if_true, if_false, Bool.false_eq_true, msl_goIdx_map_ofNat, Option.map_some, Option.isNone_none, Bool.not_true, Bool.not_false, isNil_nil, msl_cTree_isNil, Bool.true_and, Bool.false_and, hp, hlh, hls, hgl, hcr']
      cases hlc : MTree.canLendToRight T d ls u <;> simp only [Bool.or_false, Bool.or_true, Bool.false_or, Bool.true_or, Bool.not_true, Bool.not_false, if_true, if_false, Bool.false_eq_true]
      · rw [Ob_mergeChildren_heap T d m x ls child (k - 1) k s hlh' hk hsz (hMergeL ls hk0 hls) (hfit.mergeL ls hk0 hls)]
      · mrm_rebalance (Ob_rebalanceChildren_heap T d m x ls child (k - 1) k false s hlh' hk
            (hLend ls hk0 hls hlc) (hfit.rebL ls hk0 hls)), (MMetaSlab.rebalanceChildren T m ls child (k - 1) k false s.ctx),
            (MMetaSlab.msl_rebalanceChildren_error T d m ls child (k - 1) k false s.ctx)
  · by_cases hkr : k + 1 < m.childHdrs.length
    · -- only the right sibling
      have hxc : k + 1 < m.children.length := by omega
      have hxs : m.children[k + 1]? = some (m.children[k + 1]) := List.getElem?_eq_getElem hxc
      have hxh : m.childHdrs[k + 1]? = some (m.childHdrs[k + 1]) := List.getElem?_eq_getElem hkr
      generalize m.children[k + 1] = xs at hxs
      generalize m.childHdrs[k + 1] = xh at hxh
      have hgx : getMapSlab (envMH T) s (cHdr xh).slabID = (cTree d xs, none, s) :=
        mrm_getMapSlab_heap T s _ d xs (hheap (k + 1) xs xh (Or.inr rfl) hxs hxh)
      have hsx := hsize (k + 1) xs (Or.inr rfl) hxs
      have hcl' := mrm_canLendL T d xs u hfit.hu (hfit.sib (k + 1) xs (Or.inr rfl) hxs) hsx
      simp only [gt_iff_lt, hk0, hkr, decide_true, decide_false, if_true, if_false, Bool.false_eq_true, msl_goIdx_map_ofNat, Option.map_some, Option.isNone_none, Bool.not_true, Bool.not_false, isNil_nil, msl_cTree_isNil, Bool.true_and, Bool.false_and, hxh, hxs, hgx, hcl']
      cases hrc : MTree.canLendToLeft T d xs u <;> simp only [Bool.or_false, Bool.or_true, Bool.false_or, Bool.true_or, Bool.not_true, Bool.not_false, if_true, if_false, Bool.false_eq_true]
      · rw [Ob_mergeChildren_heap T d m x child xs k (k + 1) s hk hkr hsz (hMergeR xs hxs) (hfit.mergeR xs hxs)]
      · mrm_rebalance (Ob_rebalanceChildren_heap T d m x child xs k (k + 1) true s hk hkr
            (hBorrow xs hxs hrc) (hfit.rebR xs hxs)), (MMetaSlab.rebalanceChildren T m child xs k (k + 1) true s.ctx),
            (MMetaSlab.msl_rebalanceChildren_error T d m child xs k (k + 1) true s.ctx)
    · -- no sibling at all: `Merge` with the nil interface value panics
      simp only [gt_iff_lt, hk0, hkr, decide_true, decide_false, if_true, if_false, Bool.false_eq_true, msl_goIdx_map_ofNat, Option.map_some, Option.isNone_none, Bool.not_true, Bool.not_false, isNil_nil, msl_cTree_isNil, Bool.true_and, Bool.false_and, Bool.or_false, MapMetaDataSlab_mergeChildren, mrm_Merge_nil]

end mor

/-! ### the `Ctx` component of the heap after = the model's -/

section morCtx
variable {r : Nat} (T : Nat)

theorem mrm_rebHeapOf_ctx (d : Nat) (m : MMetaSlab (MTree r d)) (x : Option DX) (l rr : MTree r d) (li ri : Nat)
    (b : Bool) (s : MHSt r) (m' : MMetaSlab (MTree r d)) (c' : Ctx)
    (h : MMetaSlab.rebalanceChildren T m l rr li ri b s.ctx = .ok (m', c')) :
    (mrm_rebHeapOf T d m x l rr li ri b s).ctx = c' := by
  simp only [mrm_rebHeapOf, h, mrm_rebHeap, msl_rebalanced]
  cases b with
  | true =>
    simp only [MMetaSlab.rebalanceChildren, ↓reduceIte] at h ⊢
    cases hres : MTree.borrowFromRight T d l rr with
    | error e => rw [hres] at h; cases h
    | ok p => rw [hres] at h; cases h; rfl
  | false =>
    simp only [MMetaSlab.rebalanceChildren, Bool.false_eq_true, ↓reduceIte] at h ⊢
    cases hres : MTree.lendToRight T d l rr with
    | error e => rw [hres] at h; cases h
    | ok p => rw [hres] at h; cases h; rfl

theorem mrm_mergeHeapOf_ctx (d : Nat) (m : MMetaSlab (MTree r d)) (x : Option DX) (l rr : MTree r d) (li ri : Nat)
    (s : MHSt r) :
    (mrm_mergeHeapOf d m x l rr li ri s).ctx = (MMetaSlab.mergeChildren m l rr li ri s.ctx).2 := by
  simp only [mrm_mergeHeapOf, mrm_mergeHeap, MMetaSlab.mergeChildren, MHSt.remove_ctx, MHSt.store_ctx]

/-- the `Ctx` of the heap after `MergeOrRebalanceChildSlab` is the model's resulting `Ctx` -/
theorem mrm_morHeap_ctx (d : Nat) (m : MMetaSlab (MTree r d)) (x : Option DX) (child : MTree r d) (k u : Nat)
    (s : MHSt r) (m' : MMetaSlab (MTree r d)) (c' : Ctx)
    (h : MMetaSlab.mergeOrRebalanceChildSlab T m child k u s.ctx = .ok (m', c')) :
    (mrm_morHeap T d m x child k u s).ctx = c' := by
  revert h
  simp only [MMetaSlab.mergeOrRebalanceChildSlab, mrm_morHeap]
  generalize (if k > 0 then m.children[k - 1]? else none) = ls
  generalize (if k + 1 < m.childHdrs.length then m.children[k + 1]? else none) = xs
  rcases ls with _ | l <;> rcases xs with _ | y <;> simp only [Bool.or_false, Bool.false_or]
  · intro h; split at h <;> cases h
  · split
    · exact mrm_rebHeapOf_ctx T d m x _ _ _ _ _ s m' c'
    · intro h; rw [mrm_mergeHeapOf_ctx]; exact congrArg Prod.snd (Except.ok.inj h)
  · split
    · exact mrm_rebHeapOf_ctx T d m x _ _ _ _ _ s m' c'
    · intro h; rw [mrm_mergeHeapOf_ctx]; exact congrArg Prod.snd (Except.ok.inj h)
  · repeat' split
    all_goals first
      | exact mrm_rebHeapOf_ctx T d m x _ _ _ _ _ s m' c'
      | (intro h; rw [mrm_mergeHeapOf_ctx]; exact congrArg Prod.snd (Except.ok.inj h))

end morCtx

/-! ### the field `mergeOrRebalance` of the restructuring record `rsOf T` of the descent -/

section morRs
variable {r : Nat} (T : Nat)

/-- the child object after the call is in `uint` range when the child as passed and every possible result are -/
theorem mrm_morChild_fit (d : Nat) (m : MMetaSlab (MTree r d)) (child : MTree r d) (k u : Nat)
    (hfit : mrm_MorFit T d m child k u) (hc : mr_RootFit d child) :
    mr_RootFit d (msl_morChild T d m child k u) := by
  simp only [msl_morChild]
  by_cases hk0 : 0 < k
  · cases hl : m.children[k - 1]? with
    | none =>
      cases hx : m.children[k + 1]? with
      | none => simp only [gt_iff_lt, hk0, ite_self, Bool.or_false]; exact hc
      | some y =>
        have hR := hfit.rebR y hx
        have hM := hfit.mergeR y hx
        simp only [gt_iff_lt, hk0, if_true, Bool.false_or]
        repeat' split
        all_goals first | exact hc | exact hR.1 | exact hM | (simp_all; done)
    | some l =>
      have hL := hfit.rebL l hk0 hl
      cases hx : m.children[k + 1]? with
      | none =>
        simp only [gt_iff_lt, hk0, if_true, ite_self, Bool.or_false]
        repeat' split
        all_goals first | exact hc | exact hL.2 | (simp_all; done)
      | some y =>
        have hR := hfit.rebR y hx
        have hM := hfit.mergeR y hx
        simp only [gt_iff_lt, hk0, if_true]
        repeat' split
        all_goals first | exact hc | exact hL.2 | exact hR.1 | exact hM | (simp_all; done)
  · simp only [gt_iff_lt, hk0, if_false, Bool.false_or]
    cases hx : m.children[k + 1]? with
    | none => simp only [ite_self]; exact hc
    | some y =>
      have hR := hfit.rebR y hx
      have hM := hfit.mergeR y hx
      repeat' split
      all_goals first | exact hc | exact hR.1 | exact hM | (simp_all; done)

/-- **`MergeOrRebalanceChildSlab` as the descent calls it** (`(rsOf T).mergeOrRebalance`, the generated code of
    `Gen/TransMapSlabs.lean` over the heap) on the descent's records of a model index slab `m` (extra data `x`) and the
    updated child (passed by value) = the model's `MMetaSlab.mergeOrRebalanceChildSlab` on `s.ctx`:
    in the `.ok (m', c')` case no error, the parent `md_meta m' x`, the heap `mrm_morHeap` (explicit per branch of the
    3 x 3 table; its `Ctx` is `c'`: `mrm_morHeap_ctx`) and the child object `msl_morChild`; an error (the model's
    `.goPanic` "no sibling at all" = the generated panic, or the `SlabRebalanceError` of a data-slab rebalance) leaves
    parent, storage and child untouched.  Only the two NEIGHBOURS of child `k` are read from the heap (`hheap`). -/
theorem Ob_MergeOrRebalanceChildSlab_heap (d : Nat)
    (m : MMetaSlab (MTree r d)) (x : Option DX) (child : MTree r d) (k u : Nat) (s : MHSt r)
    (hlen : m.children.length = m.childHdrs.length) (hk : k < m.childHdrs.length)
    (hsz : Gen.mapSlabHeaderSize ≤ m.hdr.size)
    (hheap : ∀ i t h, (i + 1 = k ∨ i = k + 1) → m.children[i]? = some t → m.childHdrs[i]? = some h →
      s.heap h.id = some (md_tree d t none))
    (hfit : mrm_MorFit T d m child k u) (hfc : mr_RootFit d child)
    (hsize : ∀ i t, (i + 1 = k ∨ i = k + 1) → m.children[i]? = some t → (MTree.hdr d t).size < 2^32)
    (hLend : ∀ t, 0 < k → m.children[k - 1]? = some t → MTree.canLendToRight T d t u = true → msl_LendOK T d t child)
    (hBorrow : ∀ t, m.children[k + 1]? = some t → MTree.canLendToLeft T d t u = true → msl_BorrowOK T d child t)
    (hMergeL : ∀ t, 0 < k → m.children[k - 1]? = some t → msl_MergeOK d t child)
    (hMergeR : ∀ t, m.children[k + 1]? = some t → msl_MergeOK d child t) :
    (rsOf T).mergeOrRebalance (md_meta m x) s (md_tree d child none) (Int.ofNat k) (u32 u) =
      match MMetaSlab.mergeOrRebalanceChildSlab T m child k u s.ctx with
      | .error e => (some e, md_meta m x, s, md_tree d child none)
      | .ok (m', _) =>
        (none, md_meta m' x, mrm_morHeap T d m x child k u s, md_tree d (msl_morChild T d m child k u) none) := by
  have hg := mrm_MergeOrRebalanceChildSlab_gen T d m x child k u s hlen hk hsz hheap hfit hsize hLend hBorrow
    hMergeL hMergeR
  have hcf := mrm_morChild_fit T d m child k u hfit hfc
  simp only [rsOf, mr_metaM_md_meta, mr_toM_md_tree_none, hg]
  cases hres : MMetaSlab.mergeOrRebalanceChildSlab T m child k u s.ctx with
  | error e =>
    cases e <;> simp only [mr_metaD_cMeta, mr_fromM_cTree d child hfc]
  | ok p =>
    obtain ⟨m', c'⟩ := p
    simp only [mr_metaD_cMeta, mr_fromM_cTree d _ hcf]

end morRs

end Atree.TransEq
