import AtreeProofs.Props.TransMapDescentSet
/-
  WP13 (map descent, top level of `Set`): the generated `OrderedMap_set` of `Gen/TransMapDescent.lean` over a heap
  (`envD`), for ANY restructuring record `rs` and ANY element layer `eb`: after the dispatch `m.root.Set(..)`
    * `m.root.ExtraData().incrementCount()` iff the old value is nil,
    * `promoteChildAsNewRoot(childrenHeaders[0].slabID)` iff the root is an index slab with exactly ONE child header,
    * `splitRoot()` iff the (possibly promoted) root is full,
    * result `(existingMapValueStorable, nil)`; errors are passed on.
  Helper names carry the prefix `mds_`.
-/
namespace Atree.TransEq
open Atree Atree.Gen.TransMapD

section
variable {r : Nat} (T : Nat) (eb : DEnvB r) (rs : DRestruct r)

/-- `if existingMapValueStorable == nil { m.root.ExtraData().incrementCount() }` (`none` = nil pointer dereference) -/
def mds_topCount (M : DMap r) (old : Option SV) : Option (DMap r) :=
  if old.isNone then
    match M.root.extraData_ with
    | none => none
    | some x => some { M with root := M.root.with_extraData_ (some (x.1, x.2.1 + 1, x.2.2)) }
  else some M

/-- `if m.root.IsFull() { err = m.splitRoot() }`, then the result `(existingMapValueStorable, nil)` -/
def mds_topFinish (env : DEnv r) (M : DMap r) (old : Option SV) : Option (Option SV × Option GE × DMap r) :=
  match MapSlab_IsFull env M.root with
  | none => none
  | some true =>
    if (!(env.OrderedMap_splitRoot M).1.isNone) = true then
      some (none, (env.OrderedMap_splitRoot M).1, (env.OrderedMap_splitRoot M).2)
    else some (old, none, (env.OrderedMap_splitRoot M).2)
  | some false => some (old, none, M)

/-- `if !m.root.IsData() { root := m.root.(*MapMetaDataSlab); if len(root.childrenHeaders) == 1 {
    err = m.promoteChildAsNewRoot(root.childrenHeaders[0].slabID) } }`, then `mds_topFinish` -/
def mds_topPromote (env : DEnv r) (M : DMap r) (old : Option SV) : Option (Option SV × Option GE × DMap r) :=
  match M.root with
  | .nil => none
  | .dataSlab _ => mds_topFinish env M old
  | .metaSlab root =>
    match root.childrenHeaders with
    | [h] =>
      if (!(env.OrderedMap_promoteChildAsNewRoot M h.slabID).1.isNone) = true then
        some (none, (env.OrderedMap_promoteChildAsNewRoot M h.slabID).1, (env.OrderedMap_promoteChildAsNewRoot M h.slabID).2)
      else mds_topFinish env (env.OrderedMap_promoteChildAsNewRoot M h.slabID).2 old
    | _ => mds_topFinish env M old

/-- what `OrderedMap.set` does after the root's `Set` succeeded and left the map `M0` (new root, new storage) -/
def mds_topSpec (env : DEnv r) (M0 : DMap r) (old : Option SV) : Option (Option SV × Option GE × DMap r) :=
  match mds_topCount M0 old with
  | none => none
  | some M1 => mds_topPromote env M1 old

/-- over the heap environment the split of the root is `rs.splitRoot` -/
theorem mds_topFinish_envD (M : DMap r) (old : Option SV) :
    mds_topFinish (envD T eb rs) M old =
      match MapSlab_IsFull (envD T eb rs) M.root with
      | none => none
      | some true =>
        if (!(rs.splitRoot M).1.isNone) = true then some (none, (rs.splitRoot M).1, (rs.splitRoot M).2)
        else some (old, none, (rs.splitRoot M).2)
      | some false => some (old, none, M) := rfl

/-- over the heap environment the promotion is `rs.promote`, called iff the root is an index slab with ONE child header -/
theorem mds_topPromote_envD (M : DMap r) (old : Option SV) :
    mds_topPromote (envD T eb rs) M old =
      match M.root with
      | .nil => none
      | .dataSlab _ => mds_topFinish (envD T eb rs) M old
      | .metaSlab root =>
        match root.childrenHeaders with
        | [h] =>
          if (!(rs.promote M h.slabID).1.isNone) = true then some (none, (rs.promote M h.slabID).1, (rs.promote M h.slabID).2)
          else mds_topFinish (envD T eb rs) (rs.promote M h.slabID).2 old
        | _ => mds_topFinish (envD T eb rs) M old := rfl

theorem mds_len_one {β : Type} (l : List β) : (decide (Int.ofNat l.length = (1 : Int))) = decide (l.length = 1) := by
  have : (1 : Int) = Int.ofNat 1 := rfl
  rw [this]; simp only [Int.ofNat_eq_natCast, Int.natCast_inj]

/-- the tail `IsFull -> splitRoot` against `mds_topFinish` -/
macro "mds_finish" : tactic => `(tactic| (
  simp only [mds_topFinish]
  generalize MapSlab_IsFull _ _ = f
  rcases f with _ | _ | _
  · rfl
  · rfl
  · simp only [if_true]
    generalize Env.OrderedMap_splitRoot _ _ = q
    rcases q with ⟨_ | e, M'⟩ <;> rfl))

/-- THE TOP LEVEL `OrderedMap.set`, for ANY `rs`, ANY `eb`, ANY generated map record `M` (in particular `md_map m s`):
    given the successful result of the dispatch on the root, the count is incremented iff the old value is nil, the
    single child is promoted iff the new root is an index slab with exactly one child header, the root is split iff the
    (possibly promoted) root is full; the result is `(old value, nil, map)` (`mds_topSpec`) -/
theorem Ob_OrderedMap_set_step (M : DMap r) (k : MKey) (w' : SW) (depth : Nat) (ks : SV) (old : Option SV)
    (root' : DSlab r) (s1 : MHSt r)
    (hset : MapSlab_Set (envD T eb rs) (MapMetaDataSlab_Set (envD T eb rs) depth) M.root M.Storage () k (u64 0)
      (u64 (k.dig 0)) (.key k) w' = some (some ks, old, none, root', s1)) :
    OrderedMap_set (envD T eb rs) depth M (.key k) w' =
      mds_topSpec (envD T eb rs) { M with root := root', Storage := s1 } old := by
  have hd : (envD T eb rs).Digester_Digest k (0 : UInt64) = (u64 (k.dig 0), none) := rfl
  have hset' : MapSlab_Set (envD T eb rs) (MapMetaDataSlab_Set (envD T eb rs) depth) M.root M.Storage M.digesterBuilder k
      (0 : UInt64) (u64 (k.dig 0)) (.key k) w' = some (some ks, old, none, root', s1) := hset
  unfold OrderedMap_set
  simp only [envD_builder, hd, Option.isNone_none, Bool.not_true, Bool.false_eq_true, if_false, hset', envD_incr,
    envD_notify, envD_setCallback, mds_len_one]
  clear hset hset' hd
  generalize M.digesterBuilder = b
  generalize envD T eb rs = env
  cases root' with
  | nil =>
    cases old <;> simp [mds_topSpec, mds_topCount, mds_topPromote, MapSlab.extraData_, MapSlab_IsData]
  | dataSlab o =>
    cases old with
    | none =>
      cases hx : o.extraData with
      | none => simp [mds_topSpec, mds_topCount, MapSlab.extraData_, hx]
      | some p =>
        simp only [mds_topSpec, mds_topCount, mds_topPromote, mds_topFinish, MapSlab.extraData_, hx,
          MapSlab.with_extraData_, MapSlab_IsData, MapDataSlab_IsData, MapSlab_IsFull, Option.isNone_none,
          if_true, if_false, Bool.false_eq_true, Bool.not_true]
        cases MapDataSlab_IsFull env { o with extraData := some (p.1, p.2.1 + 1, p.2.2) }
        · rfl
        · simp only [if_true]
          generalize env.OrderedMap_splitRoot _ = q
          rcases q with ⟨_ | e, M'⟩ <;> rfl
    | some ov =>
      simp only [mds_topSpec, mds_topCount, mds_topPromote, mds_topFinish, MapSlab.extraData_,
        MapSlab.with_extraData_, MapSlab_IsData, MapDataSlab_IsData, MapSlab_IsFull, Option.isNone_some,
        if_true, if_false, Bool.false_eq_true, Bool.not_true]
      cases MapDataSlab_IsFull env o
      · rfl
      · simp only [if_true]
        generalize env.OrderedMap_splitRoot _ = q
        rcases q with ⟨_ | e, M'⟩ <;> rfl
  | metaSlab o =>
    rcases o with ⟨hdr, chs, xd⟩
    cases old with
    | none =>
      cases xd with
      | none => simp [mds_topSpec, mds_topCount, MapSlab.extraData_]
      | some p =>
        simp only [mds_topSpec, mds_topCount, mds_topPromote, MapSlab.extraData_,
          MapSlab.with_extraData_, MapSlab_IsData, MapMetaDataSlab_IsData, Option.isNone_none,
          if_true, if_false, Bool.false_eq_true, Bool.not_false]
        rcases chs with _ | ⟨h, _ | ⟨h2, tl⟩⟩
        · simp only [List.length_nil, Nat.zero_ne_one, decide_false, Bool.false_eq_true, if_false]
          mds_finish
        · have e : goIdx [h] (0 : Int) = some h := rfl
          simp only [List.length_singleton, decide_true, if_true, e]
          generalize env.OrderedMap_promoteChildAsNewRoot _ _ = q
          rcases q with ⟨_ | e, M'⟩
          · simp only [Option.isNone_none, Bool.not_true, Bool.false_eq_true, if_false]
            mds_finish
          · rfl
        · have e : ¬ ((h :: h2 :: tl).length = 1) := by simp
          simp only [e, decide_false, Bool.false_eq_true, if_false]
          mds_finish
    | some ov =>
      simp only [mds_topSpec, mds_topCount, mds_topPromote, MapSlab.extraData_,
        MapSlab.with_extraData_, MapSlab_IsData, MapMetaDataSlab_IsData, Option.isNone_some,
        if_true, if_false, Bool.false_eq_true, Bool.not_false]
      rcases chs with _ | ⟨h, _ | ⟨h2, tl⟩⟩
      · simp only [List.length_nil, Nat.zero_ne_one, decide_false, Bool.false_eq_true, if_false]
        mds_finish
      · have e : goIdx [h] (0 : Int) = some h := rfl
        simp only [List.length_singleton, decide_true, if_true, e]
        generalize env.OrderedMap_promoteChildAsNewRoot _ _ = q
        rcases q with ⟨_ | e, M'⟩
        · simp only [Option.isNone_none, Bool.not_true, Bool.false_eq_true, if_false]
          mds_finish
        · rfl
      · have e : ¬ ((h :: h2 :: tl).length = 1) := by simp
        simp only [e, decide_false, Bool.false_eq_true, if_false]
        mds_finish

/-- errors of the root's `Set` are passed on (no count change, no promotion, no split) -/
theorem Ob_OrderedMap_set_step_err (M : DMap r) (k : MKey) (w' : SW) (depth : Nat) (ks old : Option SV) (e : GE)
    (root' : DSlab r) (s1 : MHSt r)
    (hset : MapSlab_Set (envD T eb rs) (MapMetaDataSlab_Set (envD T eb rs) depth) M.root M.Storage () k (u64 0)
      (u64 (k.dig 0)) (.key k) w' = some (ks, old, some e, root', s1)) :
    OrderedMap_set (envD T eb rs) depth M (.key k) w' = some (none, some e, { M with root := root', Storage := s1 }) := by
  have hd : (envD T eb rs).Digester_Digest k (0 : UInt64) = (u64 (k.dig 0), none) := rfl
  have hset' : MapSlab_Set (envD T eb rs) (MapMetaDataSlab_Set (envD T eb rs) depth) M.root M.Storage M.digesterBuilder k
      (0 : UInt64) (u64 (k.dig 0)) (.key k) w' = some (ks, old, some e, root', s1) := hset
  unfold OrderedMap_set
  simp only [envD_builder, hd, Option.isNone_none, Bool.not_true, Bool.false_eq_true, if_false, hset',
    Option.isNone_some, Bool.not_false, if_true]

/-- the same on the translation `md_map m s` of a model map handle over the heap `s` -/
theorem Ob_OrderedMap_set_step_map (m : OMap r) (s : MHSt r) (k : MKey) (v : Elem) (depth : Nat) (ks : SV)
    (old : Option SV) (root' : DSlab r) (s1 : MHSt r)
    (hset : MapSlab_Set (envD T eb rs) (MapMetaDataSlab_Set (envD T eb rs) depth)
      (md_tree m.d m.root (some (md_extra m))) s () k (u64 0) (u64 (k.dig 0)) (.key k) (.val v) =
        some (some ks, old, none, root', s1)) :
    OrderedMap_set (envD T eb rs) depth (md_map m s) (.key k) (.val v) =
      mds_topSpec (envD T eb rs) { Storage := s1, root := root', digesterBuilder := () } old :=
  Ob_OrderedMap_set_step T eb rs (md_map m s) k (.val v) depth ks old root' s1 hset

end

/-! ### non-vacuity -/
namespace mdsEx

/-- the model map handle whose root is the concrete 2-child index slab -/
def om : OMap 0 := { d := 1, root := mm, ty := 0, count := 5, seed := 0 }

/-- a handle whose root is an index slab with ONE child header -/
def mm1 : MMetaSlab (MTree 0 0) :=
  { hdr := { id := id0, size := 60, firstKey := 0 }, childHdrs := [d1.hdr], children := [d1], root := true }
def om1 : OMap 0 := { d := 1, root := mm1, ty := 0, count := 5, seed := 0 }

/-- a restructuring record whose promotion fails: makes the call visible -/
def rs1 : DRestruct 0 := { rs0 with promote := fun M _ => (some .slabSplit, M) }

/-- `Ob_OrderedMap_set_step_map` applies to the concrete map over the concrete heap -/
example (v : Elem) : ∃ root' s1, OrderedMap_set (envD 1024 eb1 rs0) 1 (md_map om s0) (.key kk) (.val v) =
    mds_topSpec (envD 1024 eb1 rs0) { Storage := s1, root := root', digesterBuilder := () } none :=
  ⟨_, _, Ob_OrderedMap_set_step_map 1024 eb1 rs0 om s0 kk v 1 (.key kk) none _ _ rfl⟩

def kk10 : MKey := { size := 1, pay := 7, digs := [10] }

/-- ... and on the 1-child root the promotion IS called (its error comes back) -/
example (v : Elem) : ∃ M', OrderedMap_set (envD 1024 eb1 rs1) 1 (md_map om1 s0) (.key kk10) (.val v) =
    some (none, some .slabSplit, M') := by
  rw [Ob_OrderedMap_set_step_map 1024 eb1 rs1 om1 s0 kk10 v 1 (.key kk10) none _ _ rfl]
  exact ⟨_, rfl⟩

end mdsEx

end Atree.TransEq
