import AtreeProofs.Trans.MapElems
import AtreeProofs.Trans.MapElemsOn
import AtreeProofs.Map.Search
/-
  The GENERATED `hkeyElements.Set` (`AtreeModel/Gen/TransMapElems.lean`) against the model's `HkeyElems.findEqLt` /
  `HkeyElems.insertNew` / `HkeyElems.elemSizes` / `HkeyElems.set` (`AtreeModel/Map/Elems.lean`).  Core Lean only.
-/
namespace Atree.TransEq
open Atree Atree.Gen.TransElems

/-! ## helpers -/

theorem mel_S_getD_lt (l : List Nat) (h : ∀ x ∈ l, x < 2^64) (n : Nat) : l.getD n 0 < 2^64 := by
  rw [List.getD_eq_getElem?_getD]
  rcases Option.eq_none_or_eq_some l[n]? with h1 | ⟨v, h1⟩
  · rw [h1]; decide
  · rw [h1]; exact h v (List.mem_of_getElem? h1)

theorem mel_S_fuel_len (n : Nat) : (Int.ofNat n - (0 : Int) + 1).toNat = n + 1 := by
  simp only [Int.ofNat_eq_natCast]; omega

theorem mel_u64_dzero {n : Nat} (h : n < 2^64) : decide (u64 n = (0 : UInt64)) = decide (n = 0) := by
  rw [show (0 : UInt64) = u64 0 from rfl]
  simp only [msl_u64_inj h (by decide : 0 < 2^64)]

theorem mel_u32_dzero {n : Nat} (h : n < 2^32) : decide (u32 n = (0 : UInt32)) = decide (n = 0) := by
  rw [show (0 : UInt32) = u32 0 from rfl]
  simp only [u32_inj h (by decide : 0 < 2^32)]

/-- `slices.Insert(l, i, x)` by its specification = `List.insertIdx` -/
theorem mel_insertIdx_eq {β : Type} (l : List β) (i : Nat) (x : β) (h : i ≤ l.length) :
    l.take i ++ [x] ++ l.drop i = l.insertIdx i x := by
  induction l generalizing i with
  | nil =>
    have : i = 0 := by simpa using h
    subst this; rfl
  | cons a t ih =>
    cases i with
    | zero => rfl
    | succ i =>
      have := ih i (by simpa using h)
      simp only [List.take_succ_cons, List.drop_succ_cons, List.insertIdx_succ_cons, List.cons_append] at this ⊢
      rw [this]

theorem mel_goSlicesInsert {β : Type} (l : List β) (i : Nat) (x : β) (h : i ≤ l.length) :
    goSlicesInsert l (Int.ofNat i) [x] = some (l.insertIdx i x) := by
  unfold goSlicesInsert
  have h1 : 0 ≤ Int.ofNat i ∧ Int.ofNat i ≤ Int.ofNat l.length := by
    simp only [Int.ofNat_eq_natCast]; omega
  rw [if_pos h1, msl_int_toNat, mel_insertIdx_eq l i x h]

theorem mel_map_insertIdx {β γ : Type} (f : β → γ) (l : List β) (i : Nat) (x : β) :
    (l.map f).insertIdx i (f x) = (l.insertIdx i x).map f := by
  induction l generalizing i with
  | nil => cases i <;> rfl
  | cons a t ih =>
    cases i with
    | zero => rfl
    | succ i => simp only [List.map_cons, List.insertIdx_succ_cons, ih]

theorem mel_insertIdx_length {β : Type} (l : List β) (x : β) : l.insertIdx l.length x = l ++ [x] := by
  induction l with
  | nil => rfl
  | cons a t ih => simp only [List.length_cons, List.insertIdx_succ_cons, ih, List.cons_append]

/-- the insertion point returned by the binary search is inside the table -/
theorem mel_findEqLt_le (hkeys : List Nat) (hkey : Nat) :
    ∀ (fuel i j lt : Nat), j ≤ hkeys.length → lt ≤ hkeys.length →
      (HkeyElems.findEqLt hkeys hkey i j lt fuel).2 ≤ hkeys.length := by
  intro fuel
  induction fuel with
  | zero => intro i j lt _ h; exact h
  | succ fuel ih =>
    intro i j lt hj hlt
    simp only [HkeyElems.findEqLt]
    split
    · split
      · exact ih _ _ _ (by omega) (by omega)
      · split
        · exact ih _ _ _ hj hlt
        · exact hlt
    · exact hlt

section
variable {α : Type} (o : ElemsOps α) (cfg : MCfg) (k : MKey) (v : Elem) (env : Env (MElemF α) SV SW Ctx GE)

/-- the binary search of `Set` (equalIndex, lessThanIndex) = the model's `findEqLt` -/
theorem mel_Set_loop1 (e : HkeyElems α) (hok : mel_HOk e) (hk : Nat) (hhk : hk < 2^64) :
    ∀ (fuel i j lt : Nat) (eq0 : Int), i ≤ j → j ≤ e.hkeys.length → j - i < fuel →
      ∃ i' j' : Int, hkeyElements_Set.loop1 env (mel_cH e) (u64 hk) fuel eq0 (Int.ofNat lt) (Int.ofNat i) (Int.ofNat j) =
        .done ((match (HkeyElems.findEqLt e.hkeys hk i j lt fuel).1 with | some h => Int.ofNat h | none => eq0),
               Int.ofNat (HkeyElems.findEqLt e.hkeys hk i j lt fuel).2, i', j') := by
  intro fuel
  induction fuel with
  | zero => intro i j lt eq0 _ _ h; omega
  | succ fuel ih =>
    intro i j lt eq0 hij hj hf
    have hshort := hok.short
    simp only [hkeyElements_Set.loop1, HkeyElems.findEqLt, int_dlt]
    by_cases c : i < j
    · simp only [c, decide_true, if_true]
      rw [mid_eq i j (by omega)]
      have hlt : (i + j) / 2 < e.hkeys.length := by omega
      simp only [mel_goIdx_hkeys e _ hlt]
      have hm := mel_S_getD_lt e.hkeys hok.dig ((i + j) / 2)
      generalize e.hkeys.getD ((i + j) / 2) 0 = mv at *
      rw [u64_dgt hm hhk, u64_dlt hm hhk]
      by_cases c1 : mv > hk
      · simp only [c1, decide_true, if_true]
        exact ih i ((i + j) / 2) ((i + j) / 2) eq0 (by omega) (by omega) (by omega)
      · simp only [c1, decide_false, if_false, Bool.false_eq_true]
        by_cases c2 : mv < hk
        · simp only [c2, decide_true, if_true]
          exact ih ((i + j) / 2 + 1) j lt eq0 (by omega) hj (by omega)
        · simp only [c2, decide_false, if_false, Bool.false_eq_true]
          exact ⟨_, _, rfl⟩
    · simp only [c, decide_false, if_false, Bool.false_eq_true]
      exact ⟨_, _, rfl⟩

/-- (relativised environment `EnvAOn`) the size recomputation loop = prefix + Σ (element size + digest size), no range condition (uint32 addition is a ring homomorphism) -/
theorem mel_Set_loop2_on {Pg Ps Pr : MElemF α → Nat → Ctx → Prop}
    (hE : EnvAOn o cfg k v env Pg Ps Pr) (l : List (MElemF α)) (i : Int) (s : Nat) :
    hkeyElements_Set.loop2 env (l.map some) i (u32 s) = .done (u32 (s + HkeyElems.elemSizes o l)) := by
  induction l generalizing i s with
  | nil => simp only [List.map_nil, hkeyElements_Set.loop2, HkeyElems.elemSizes, List.sum_nil, Nat.add_zero]
  | cons a t ih =>
    simp only [List.map_cons, hkeyElements_Set.loop2, hE.size]
    show hkeyElements_Set.loop2 env (t.map some) (i + 1) (u32 s + (u32 (a.size o) + u32 Gen.digestSize)) = _
    rw [msl_u32_add', msl_u32_add', ih]
    simp only [HkeyElems.elemSizes, List.map_cons, List.sum_cons]
    congr 2
    omega

/-- the size recomputation loop = prefix + Σ (element size + digest size), no range condition (uint32 addition is a ring homomorphism) -/
theorem mel_Set_loop2 (hE : EnvA o cfg k v env) (l : List (MElemF α)) (i : Int) (s : Nat) :
    hkeyElements_Set.loop2 env (l.map some) i (u32 s) = .done (u32 (s + HkeyElems.elemSizes o l)) := by
  exact mel_Set_loop2_on o cfg k v env hE.toOn l i s

/-- the model's `insertNew`, as the result of the generated code -/
theorem mel_insertNew_r (e : HkeyElems α) (idx hkey : Nat) (c : Ctx) :
    mel_rSet e c (.ok (HkeyElems.insertNew cfg e idx hkey k v c)) =
      some ((mel_cE (newSingleElement cfg.T cfg.addr k v c).1).key, none, none,
        { hkeys := (mel_cH e).hkeys.insertIdx idx (u64 hkey),
          elems := (mel_cH e).elems.insertIdx idx (some (.single (newSingleElement cfg.T cfg.addr k v c).1)),
          size := (mel_cH e).size + (UInt32.ofNat Gen.digestSize + (mel_cE (newSingleElement cfg.T cfg.addr k v c).1).size),
          level := (mel_cH e).level },
        (newSingleElement cfg.T cfg.addr k v c).2) := by
  simp only [HkeyElems.insertNew, mel_rSet, mel_cH, mel_cE, u64s, mel_map_insertIdx, Option.map_none]
  rw [show UInt32.ofNat Gen.digestSize = u32 Gen.digestSize from rfl, msl_u32_add', msl_u32_add', Nat.add_assoc]

theorem mel_goIdx_zero (e : HkeyElems α) (h : 0 < e.hkeys.length) :
    goIdx (mel_cH e).hkeys (0 : Int) = some (u64 (e.hkeys.getD 0 0)) := mel_goIdx_hkeys e 0 h

theorem mel_goIdx_last (e : HkeyElems α) (h : 0 < e.hkeys.length) :
    goIdx (mel_cH e).hkeys (Int.ofNat e.hkeys.length - 1) = some (u64 (e.hkeys.getD (e.hkeys.length - 1) 0)) := by
  have : Int.ofNat e.hkeys.length - 1 = Int.ofNat (e.hkeys.length - 1) := by
    simp only [Int.ofNat_eq_natCast]; omega
  rw [this]
  exact mel_goIdx_hkeys e _ (by omega)

theorem mel_head_last (l : List Nat) (h : 0 < l.length) :
    l.head? = some (l.getD 0 0) ∧ l.getLast? = some (l.getD (l.length - 1) 0) := by
  constructor
  · rw [List.head?_eq_getElem?, HkeyElems.get_of_lt h]
  · rw [List.getLast?_eq_getElem?, HkeyElems.get_of_lt (by omega)]

/-- `KeyNotFoundError` as the result of the probe `elem.Get` -/
def mel_isKNF : Except MErr (MKey × Elem) → Bool
  | .error .keyNotFound => true
  | _ => false

/-- the error of the collision-limit check of `Set` (level 0 only), if any -/
def mel_probeRes (e : HkeyElems α) (el : MElemF α) (level : Nat) : Option MErr :=
  if e.level = 0 then
    if el.count o = 0 then some .mapElementCount
    else if el.count o - 1 ≥ cfg.climit then
      if mel_isKNF (el.get o cfg level k) then some .collisionLimit else none
    else none
  else none

/-- the model's `set` when the digest is in the table (index `i`, element `el`) -/
theorem mel_set_found (e : HkeyElems α) (level : Nat) (c : Ctx) (cl : ¬ level ≥ cfg.L) (first last : Nat)
    (hhead : e.hkeys.head? = some first) (hlast : e.hkeys.getLast? = some last)
    (c1 : ¬ k.dig level < first) (c2 : ¬ k.dig level > last) (i lt : Nat)
    (hfe : HkeyElems.findEqLt e.hkeys (k.dig level) 0 e.hkeys.length 0 (e.hkeys.length + 1) = (some i, lt))
    (el : MElemF α) (hel : e.elems[i]? = some el) :
    HkeyElems.set o cfg e level k v c =
      match mel_probeRes o cfg k e el level with
      | some err => .error err
      | none =>
        match el.set o cfg level k v c with
        | .error err => .error err
        | .ok (el', ks, old, c') =>
          .ok (ks, old, { e with elems := e.elems.set i el',
                                 size := Gen.hkeyElementsPrefixSize + HkeyElems.elemSizes o (e.elems.set i el') }, c') := by
  unfold HkeyElems.set
  simp only [cl, if_false, hhead, hlast, c1, c2, hfe, hel, mel_probeRes, beq_iff_eq]
  have htail : ∀ (f : MElemF α × MKey × Option Elem × Ctx → MKey × Option Elem × HkeyElems α × Ctx),
      (do let __x ← el.set o cfg level k v c; pure (f __x) : Except MErr _) =
      match el.set o cfg level k v c with
      | .error err => .error err
      | .ok (el', ks, old, c') => .ok (f (el', ks, old, c')) := by
    intro f
    generalize el.set o cfg level k v c = sr
    cases sr <;> rfl
  by_cases h0 : e.level = 0
  · simp only [h0, if_true]
    by_cases hc : el.count o = 0
    · simp only [hc, if_true]; rfl
    · simp only [hc, if_false]
      by_cases hg : el.count o - 1 ≥ cfg.climit
      · simp only [hg, if_true]
        split
        · rename_i heq
          simp only [heq, mel_isKNF, if_true]; rfl
        · rename_i hneq
          have hk : mel_isKNF (el.get o cfg level k) = false := by
            unfold mel_isKNF
            split
            · rename_i heq; exact absurd heq hneq
            · rfl
          simp only [hk, Bool.false_eq_true, if_false]
          exact htail _
      · simp only [hg, if_false]
        exact htail _
  · simp only [h0, if_false]
    exact htail _

/-- the model's `set` when the digest is new: prepend / append / insert at the position found -/
theorem mel_set_new (e : HkeyElems α) (level : Nat) (c : Ctx) (cl : ¬ level ≥ cfg.L) (first last : Nat)
    (hhead : e.hkeys.head? = some first) (hlast : e.hkeys.getLast? = some last) :
    (k.dig level < first → HkeyElems.set o cfg e level k v c = .ok (HkeyElems.insertNew cfg e 0 (k.dig level) k v c)) ∧
    (¬ k.dig level < first → k.dig level > last →
      HkeyElems.set o cfg e level k v c = .ok (HkeyElems.insertNew cfg e e.hkeys.length (k.dig level) k v c)) ∧
    (¬ k.dig level < first → ¬ k.dig level > last → ∀ lt,
      HkeyElems.findEqLt e.hkeys (k.dig level) 0 e.hkeys.length 0 (e.hkeys.length + 1) = (none, lt) →
      HkeyElems.set o cfg e level k v c = .ok (HkeyElems.insertNew cfg e lt (k.dig level) k v c)) := by
  unfold HkeyElems.set
  simp only [cl, if_false, hhead, hlast]
  refine ⟨?_, ?_, ?_⟩
  · intro c1; simp only [c1, if_true]
  · intro c1 c2; simp only [c1, c2, if_true, if_false]
  · intro c1 c2 lt hfe; simp only [c1, c2, if_false, hfe]

/-- (relativised environment `EnvAOn`; the guards `Pg`, `Ps` hold for the elements of the table) `hkeyElements.Set` on a non-empty digest table -/
theorem mel_Set_nonempty_on {Pg Ps Pr : MElemF α → Nat → Ctx → Prop}
    (hE : EnvAOn o cfg k v env Pg Ps Pr) (e : HkeyElems α) (hok : mel_HOk e) (level : Nat) (c : Ctx)
    (hl : level < 2^64) (hL : cfg.L < 2^64) (hd : k.dig level < 2^64) (hlev : e.level < 2^64) (hcl : cfg.climit < 2^32)
    (hcnt : ∀ el ∈ e.elems, el.count o < 2^32) (hnsz : (newSingleElement cfg.T cfg.addr k v c).1.size < 2^32) (hpos : 0 < e.hkeys.length) (cl : ¬ level ≥ cfg.L)
    (hPg : ∀ (i : Nat) (el : MElemF α), e.elems[i]? = some el → Pg el level c)
    (hPs : ∀ (i : Nat) (el : MElemF α), e.elems[i]? = some el → Ps el level c) :
    hkeyElements_Set env (mel_cH e) c cfg.addr (u64 level) (u64 (k.dig level)) (.key k) (.val v) =
      mel_rSet e c (HkeyElems.set o cfg e level k v c) := by
  unfold hkeyElements_Set
  rw [hE.levels, u64_dge hl hL]
  simp only [cl, decide_false, if_false, Bool.false_eq_true]
  rw [mel_cH_hkeys_length, int_deq_zero]
  have hne : ¬ (e.hkeys.length = 0) := by omega
  obtain ⟨hhead, hlast⟩ := mel_head_last e.hkeys hpos
  have hfirst := mel_S_getD_lt e.hkeys hok.dig 0
  have hlastlt := mel_S_getD_lt e.hkeys hok.dig (e.hkeys.length - 1)
  simp only [hne, decide_false, if_false, Bool.false_eq_true, mel_goIdx_zero e hpos, mel_goIdx_last e hpos,
    u64_dlt hd hfirst, u64_dgt hd hlastlt]
  generalize e.hkeys.getD 0 0 = first at *
  generalize e.hkeys.getD (e.hkeys.length - 1) 0 = last at *
  obtain ⟨hm1, hm2, hm3⟩ := mel_set_new o cfg k v e level c cl first last hhead hlast
  by_cases c1 : k.dig level < first
  · simp only [hm1 c1, c1, decide_true, if_true, hE.newElem, Option.isNone_none, Bool.not_true,
        Bool.false_eq_true, if_false, hE.inj _ hnsz, singleElement_Size, mel_insertNew_r]
    rw [show (0 : Int) = Int.ofNat 0 from rfl, mel_goSlicesInsert _ 0 _ (Nat.zero_le _),
      mel_goSlicesInsert _ 0 _ (Nat.zero_le _)]
  · simp only [c1, decide_false, if_false, Bool.false_eq_true]
    by_cases c2 : k.dig level > last
    · simp only [hm2 c1 c2, c2, decide_true, if_true, hE.newElem, Option.isNone_none, Bool.not_true,
        Bool.false_eq_true, if_false, hE.inj _ hnsz, singleElement_Size, mel_insertNew_r]
      have h1 : ∀ x, (mel_cH e).hkeys.insertIdx e.hkeys.length x = (mel_cH e).hkeys ++ [x] := by
        intro x; rw [← mel_cH_hkeys_length e]; exact mel_insertIdx_length _ _
      have h2 : ∀ x, (mel_cH e).elems.insertIdx e.hkeys.length x = (mel_cH e).elems ++ [x] := by
        intro x; rw [← hok.len, ← mel_cH_elems_length e]; exact mel_insertIdx_length _ _
      rw [h1, h2]
    · simp only [c2, decide_false, if_false, Bool.false_eq_true]
      rw [mel_S_fuel_len]
      obtain ⟨i', j', h⟩ := mel_Set_loop1 env e hok (k.dig level) hd (e.hkeys.length + 1) 0 e.hkeys.length 0 (-1)
        (Nat.zero_le _) (Nat.le_refl _) (by omega)
      have h' : hkeyElements_Set.loop1 env (mel_cH e) (u64 (k.dig level)) (e.hkeys.length + 1) (-1) 0 0
        (Int.ofNat e.hkeys.length) = _ := h
      rw [h']
      have hle := mel_findEqLt_le e.hkeys (k.dig level) (e.hkeys.length + 1) 0 e.hkeys.length 0 (Nat.le_refl _) (Nat.zero_le _)
      generalize hfe : HkeyElems.findEqLt e.hkeys (k.dig level) 0 e.hkeys.length 0 (e.hkeys.length + 1) = r at *
      obtain ⟨r1, lt⟩ := r
      cases r1 with
      | none =>
        simp only [hm3 c1 c2 lt rfl, ne_eq, not_true_eq_false, decide_false, Bool.false_eq_true, if_false, hE.newElem, Option.isNone_none,
          Bool.not_true, hE.inj _ hnsz, singleElement_Size, mel_insertNew_r]
        rw [mel_goSlicesInsert _ lt _ (by rw [mel_cH_hkeys_length]; exact hle),
          mel_goSlicesInsert _ lt _ (by rw [mel_cH_elems_length, hok.len]; exact hle)]
      | some i =>
        have hi := HkeyElems.findEqLt_some _ _ _ _ (Nat.le_refl _) hfe
        have hil : i < e.elems.length := by
          rw [hok.len]; exact (List.getElem?_eq_some_iff.mp hi).1
        have hne1 : Int.ofNat i ≠ (-1 : Int) := by
          simp only [Int.ofNat_eq_natCast]; omega
        obtain ⟨el, hel⟩ : ∃ el, e.elems[i]? = some el := ⟨_, List.getElem?_eq_getElem hil⟩
        have hmem : el ∈ e.elems := List.mem_of_getElem? hel
        have hc32 := hcnt el hmem
        rw [mel_set_found o cfg k v e level c cl first last hhead hlast c1 c2 i lt hfe el hel]
        simp only [hne1, ne_eq, not_false_eq_true, decide_true, if_true, mel_goIdx_elems, hel,
          Option.map_some]
        generalize hP : (ite (decide ((mel_cH e).level = 0) = true) _ _ : Loop _ Ctx) = P
        have hP' : P = match mel_probeRes o cfg k e el level with
            | some err => .ret (some (none, none, some err, mel_cH e, c))
            | none => .done c := by
          rw [← hP]
          clear hP
          simp only [mel_probeRes, hE.count, Option.isNone_none, Bool.not_true, Bool.false_eq_true, if_false]
          rw [show (mel_cH e).level = u64 e.level from rfl, mel_u64_dzero hlev]
          by_cases h0 : e.level = 0
          · simp only [h0, decide_true, if_true]
            rw [mel_u32_dzero hc32]
            by_cases hc : el.count o = 0
            · simp only [hc, decide_true, if_true, hE.eElementCount]
            · simp only [hc, decide_false, if_false, Bool.false_eq_true]
              rw [show (1 : UInt32) = u32 1 from rfl, msl_u32_sub' (by omega), hE.climit, u32_dge (by omega) hcl]
              by_cases hg : el.count o - 1 ≥ cfg.climit
              · simp only [hg, decide_true, if_true, hE.get el c level _ hl (hPg _ _ hel)]
                generalize el.get o cfg level k = g
                cases g with
                | error err =>
                  simp only [mel_rGet, Option.isNone_some, Bool.not_false, if_true, hE.asKNF]
                  by_cases hk : err = .keyNotFound
                  · subst hk
                    simp only [decide_true, if_true, mel_isKNF, hE.eCollisionLimit]
                  · have hk' : mel_isKNF (.error err) = false := by
                      cases err <;> first | rfl | exact absurd rfl hk
                    simp only [hk, decide_false, Bool.false_eq_true, if_false, hk']
                | ok kv =>
                  obtain ⟨k', v'⟩ := kv
                  simp only [mel_rGet, Option.isNone_none, Bool.not_true, Bool.false_eq_true, if_false, mel_isKNF]
              · simp only [hg, decide_false, if_false, Bool.false_eq_true]
          · simp only [h0, decide_false, if_false, Bool.false_eq_true]
        rw [hP']
        rcases Option.eq_none_or_eq_some (mel_probeRes o cfg k e el level) with hp | ⟨err, hp⟩
        · rw [hp]
          simp only [hE.set el c level _ hl (hPs _ _ hel)]
          generalize el.set o cfg level k v c = sr
          cases sr with
          | error err => rfl
          | ok r =>
            obtain ⟨el', ks, old, c'⟩ := r
            have hir : goInRange (mel_cH e).elems (Int.ofNat i) = true := by
              unfold goInRange
              rw [mel_cH_elems_length]
              simp only [Int.ofNat_eq_natCast, Bool.and_eq_true, decide_eq_true_eq]
              omega
            have hset : (mel_cH e).elems.set i (some el') = (e.elems.set i el').map some := by
              simp only [mel_cH, List.map_set]
            simp only [mel_rESet, Option.isNone_none, Bool.not_true, Bool.false_eq_true, if_false, hir, if_true,
              msl_int_toNat, hset]
            rw [show UInt32.ofNat Gen.hkeyElementsPrefixSize = u32 Gen.hkeyElementsPrefixSize from rfl,
              mel_Set_loop2_on o cfg k v env hE]
            rfl
        · rw [hp]; rfl

/-- `hkeyElements.Set` on a non-empty digest table -/
theorem mel_Set_nonempty (hE : EnvA o cfg k v env) (e : HkeyElems α) (hok : mel_HOk e) (level : Nat) (c : Ctx)
    (hl : level < 2^64) (hL : cfg.L < 2^64) (hd : k.dig level < 2^64) (hlev : e.level < 2^64) (hcl : cfg.climit < 2^32)
    (hcnt : ∀ el ∈ e.elems, el.count o < 2^32) (hnsz : (newSingleElement cfg.T cfg.addr k v c).1.size < 2^32) (hpos : 0 < e.hkeys.length) (cl : ¬ level ≥ cfg.L) :
    hkeyElements_Set env (mel_cH e) c cfg.addr (u64 level) (u64 (k.dig level)) (.key k) (.val v) =
      mel_rSet e c (HkeyElems.set o cfg e level k v c) := by
  exact mel_Set_nonempty_on o cfg k v env hE.toOn e hok level c hl hL hd hlev hcl hcnt hnsz hpos cl
    (fun _ _ _ => trivial) (fun _ _ _ => trivial)

/-- `hkeyElements.Set` = `HkeyElems.set` (relativised environment `EnvAOn`; the guards `Pg` (collision-limit probe) and `Ps`
    hold for the elements of the table) -/
theorem hkeyElements_Set_eq_model_on {Pg Ps Pr : MElemF α → Nat → Ctx → Prop}
    (hE : EnvAOn o cfg k v env Pg Ps Pr) (e : HkeyElems α) (hok : mel_HOk e) (level : Nat) (c : Ctx)
    (hl : level < 2^64) (hL : cfg.L < 2^64) (hd : k.dig level < 2^64) (hlev : e.level < 2^64) (hcl : cfg.climit < 2^32)
    (hcnt : ∀ el ∈ e.elems, el.count o < 2^32) (hnsz : (newSingleElement cfg.T cfg.addr k v c).1.size < 2^32)
    (hPg : ∀ (i : Nat) (el : MElemF α), e.elems[i]? = some el → Pg el level c)
    (hPs : ∀ (i : Nat) (el : MElemF α), e.elems[i]? = some el → Ps el level c) :
    hkeyElements_Set env (mel_cH e) c cfg.addr (u64 level) (u64 (k.dig level)) (.key k) (.val v) =
      mel_rSet e c (HkeyElems.set o cfg e level k v c) := by
  by_cases cl : level ≥ cfg.L
  · unfold hkeyElements_Set HkeyElems.set
    rw [hE.levels, u64_dge hl hL]
    simp only [cl, decide_true, if_true, hE.eHashLevel]
    rfl
  · rcases Nat.eq_zero_or_pos e.hkeys.length with h0 | hpos
    · unfold hkeyElements_Set HkeyElems.set
      rw [hE.levels, u64_dge hl hL]
      simp only [cl, decide_false, if_false, Bool.false_eq_true]
      rw [mel_cH_hkeys_length, int_deq_zero]
      obtain ⟨hkeys, elems, size, lev⟩ := e
      have hk : hkeys = [] := List.eq_nil_of_length_eq_zero h0
      subst hk
      have hel : elems = [] := List.eq_nil_of_length_eq_zero hok.len
      subst hel
      simp only [List.length_nil, decide_true, if_true, hE.newElem, Option.isNone_none, Bool.not_true,
        Bool.false_eq_true, if_false, List.head?_nil, hE.inj _ hnsz, singleElement_Size, mel_insertNew_r]
      rfl
    · exact mel_Set_nonempty_on o cfg k v env hE e hok level c hl hL hd hlev hcl hcnt hnsz hpos cl hPg hPs

theorem hkeyElements_Set_eq_model (hE : EnvA o cfg k v env) (e : HkeyElems α) (hok : mel_HOk e) (level : Nat) (c : Ctx)
    (hl : level < 2^64) (hL : cfg.L < 2^64) (hd : k.dig level < 2^64) (hlev : e.level < 2^64) (hcl : cfg.climit < 2^32)
    (hcnt : ∀ el ∈ e.elems, el.count o < 2^32) (hnsz : (newSingleElement cfg.T cfg.addr k v c).1.size < 2^32) :
    hkeyElements_Set env (mel_cH e) c cfg.addr (u64 level) (u64 (k.dig level)) (.key k) (.val v) =
      mel_rSet e c (HkeyElems.set o cfg e level k v c) := by
  exact hkeyElements_Set_eq_model_on o cfg k v env hE.toOn e hok level c hl hL hd hlev hcl hcnt hnsz
    (fun _ _ _ => trivial) (fun _ _ _ => trivial)

/-- `hkeyElements.Set` never panics (under the hypotheses of `hkeyElements_Set_eq_model`) -/
theorem hkeyElements_Set_no_panic (hE : EnvA o cfg k v env) (e : HkeyElems α) (hok : mel_HOk e) (level : Nat) (c : Ctx)
    (hl : level < 2^64) (hL : cfg.L < 2^64) (hd : k.dig level < 2^64) (hlev : e.level < 2^64) (hcl : cfg.climit < 2^32)
    (hcnt : ∀ el ∈ e.elems, el.count o < 2^32) (hnsz : (newSingleElement cfg.T cfg.addr k v c).1.size < 2^32) :
    hkeyElements_Set env (mel_cH e) c cfg.addr (u64 level) (u64 (k.dig level)) (.key k) (.val v) ≠ none := by
  rw [hkeyElements_Set_eq_model o cfg k v env hE e hok level c hl hL hd hlev hcl hcnt hnsz]
  cases HkeyElems.set o cfg e level k v c with
  | error err => simp [mel_rSet]
  | ok r => obtain ⟨ks, old, e', c'⟩ := r; simp [mel_rSet]

end

/-! ## non-vacuity: an environment satisfying `EnvA`, for every `o`, `cfg`, `k`, `v` -/

/-- a concrete instance of the parameters: the element methods are the model's (levels read back with `toNat`);
    fields that `EnvA` does not mention are constants -/
def mel_S_env0 {α : Type} (o : ElemsOps α) (cfg : MCfg) : Env (MElemF α) SV SW Ctx GE where
  Digester_Levels := u64 cfg.L
  NewCollisionLimitError := some .collisionLimit
  NewHashLevelErrorf := some .hashLevel
  NewKeyNotFoundError := some .keyNotFound
  NewMapElementCountError := some .mapElementCount
  NewUnreachableError := some .goPanic
  element_Count := fun el c => (u32 (el.count o), none, c)
  element_Get := fun el c lvl _ w => match w with
    | .key k => mel_rGet c (el.get o cfg lvl.toNat k)
    | .val _ => (none, none, some .goPanic, c)
  element_Remove := fun el c lvl _ w => match w with
    | .key k => mel_rERemove c (el.remove o cfg lvl.toNat k c)
    | .val _ => (none, none, none, some .goPanic, c)
  element_Set := fun el c _ lvl _ kw vw => match kw, vw with
    | .key k, .val v => mel_rESet c (el.set o cfg lvl.toNat k v c)
    | _, _ => (none, none, none, some .goPanic, c)
  element_Size := fun el => u32 (el.size o)
  element_getElementAndNextKey := fun _ c _ _ _ => (none, none, none, some .goPanic, c)
  element_ofSingleElement := fun s => match s.key, s.value with
    | some (.key k), some (.val v) => .single { key := k, val := v, size := s.size.toNat }
    | _, _ => .single default
  errors_As_KeyNotFoundError := fun err => decide (err = .keyNotFound)
  firstKeyInElement := fun c _ => (none, some .goPanic, c)
  maxCollisionLimitPerDigest := u32 cfg.climit
  newSingleElement := fun c _ kw vw => match kw, vw with
    | .key k, .val v => (mel_cE (newSingleElement cfg.T cfg.addr k v c).1, none, (newSingleElement cfg.T cfg.addr k v c).2)
    | _, _ => ({}, some .goPanic, c)

theorem mel_S_env0_ok {α : Type} (o : ElemsOps α) (cfg : MCfg) (k : MKey) (v : Elem) :
    EnvA o cfg k v (mel_S_env0 o cfg) where
  levels := rfl
  climit := rfl
  size := fun _ => rfl
  count := fun _ _ => rfl
  get := fun el c lvl hk h => by
    show mel_rGet c (el.get o cfg (u64 lvl).toNat k) = _
    rw [u64_toNat h]
  set := fun el c lvl hk h => by
    show mel_rESet c (el.set o cfg (u64 lvl).toNat k v c) = _
    rw [u64_toNat h]
  remove := fun el c lvl hk h => by
    show mel_rERemove c (el.remove o cfg (u64 lvl).toNat k c) = _
    rw [u64_toNat h]
  newElem := fun _ => rfl
  inj := fun x h => by
    show MElemF.single { key := x.key, val := x.val, size := (u32 x.size).toNat } = _
    rw [u32_toNat h]
  asKNF := fun _ => rfl
  eHashLevel := rfl
  eKeyNotFound := rfl
  eCollisionLimit := rfl
  eElementCount := rfl

/-! ### a concrete three-digest table of single elements at level 0 under that environment -/

def mel_S_cfgEx : MCfg := { T := 1024, L := 2, climit := 255, addr := 7 }
/-- the same configuration with collision limit 0: no collisions allowed -/
def mel_S_cfg0Ex : MCfg := { T := 1024, L := 2, climit := 0, addr := 7 }
def mel_S_kaEx : MKey := { size := 9, pay := 1, digs := [3, 6] }
def mel_S_kbEx : MKey := { size := 9, pay := 2, digs := [5, 6] }
def mel_S_kcEx : MKey := { size := 9, pay := 3, digs := [9, 6] }
/-- a new key whose digest 7 falls between the second and the third -/
def mel_S_kdEx : MKey := { size := 9, pay := 4, digs := [7, 6] }
/-- a new key whose level-0 digest collides with `kb` -/
def mel_S_keEx : MKey := { size := 9, pay := 5, digs := [5, 8] }
def mel_S_v1Ex : Elem := { size := 3, pay := .val 10 }
def mel_S_v2Ex : Elem := { size := 4, pay := .val 20 }
def mel_S_eEx : HkeyElems SingleElems :=
  { hkeys := [3, 5, 9],
    elems := [.single { key := mel_S_kaEx, val := mel_S_v1Ex, size := 13 }, .single { key := mel_S_kbEx, val := mel_S_v1Ex, size := 13 },
              .single { key := mel_S_kcEx, val := mel_S_v1Ex, size := 13 }],
    size := 71, level := 0 }
def mel_S_cEx : Ctx := { ctr := 0, eff := [] }

theorem mel_S_eEx_ok : mel_HOk mel_S_eEx := ⟨by decide, by decide, by decide⟩

theorem mel_S_eEx_cnt : ∀ el ∈ mel_S_eEx.elems, el.count SingleElems.ops < 2^32 := by
  intro el h
  simp only [mel_S_eEx, List.mem_cons, List.not_mem_nil, or_false] at h
  rcases h with rfl | rfl | rfl <;> decide

/-- Set of a new key with a digest inside the table: the binary search finds the insertion point 2 -/
example : hkeyElements_Set (mel_S_env0 SingleElems.ops mel_S_cfgEx) (mel_cH mel_S_eEx) mel_S_cEx 7 (u64 0) (u64 7)
      (.key mel_S_kdEx) (.val mel_S_v2Ex) =
    some (some (.key mel_S_kdEx), none, none,
      mel_cH { hkeys := [3, 5, 7, 9],
               elems := [.single { key := mel_S_kaEx, val := mel_S_v1Ex, size := 13 }, .single { key := mel_S_kbEx, val := mel_S_v1Ex, size := 13 },
                         .single { key := mel_S_kdEx, val := mel_S_v2Ex, size := 14 }, .single { key := mel_S_kcEx, val := mel_S_v1Ex, size := 13 }],
               size := 93, level := 0 }, mel_S_cEx) := by
  exact (hkeyElements_Set_eq_model SingleElems.ops mel_S_cfgEx mel_S_kdEx mel_S_v2Ex _ (mel_S_env0_ok _ _ _ _) mel_S_eEx mel_S_eEx_ok 0
      mel_S_cEx (by decide) (by decide) (by decide) (by decide) (by decide) mel_S_eEx_cnt (by decide)).trans rfl

/-- Set of an existing key: the element's `Set` replaces the value, the size is recomputed from the elements -/
example : hkeyElements_Set (mel_S_env0 SingleElems.ops mel_S_cfgEx) (mel_cH mel_S_eEx) mel_S_cEx 7 (u64 0) (u64 5)
      (.key mel_S_kbEx) (.val mel_S_v2Ex) =
    some (some (.key mel_S_kbEx), some (.val mel_S_v1Ex), none,
      mel_cH { hkeys := [3, 5, 9],
               elems := [.single { key := mel_S_kaEx, val := mel_S_v1Ex, size := 13 }, .single { key := mel_S_kbEx, val := mel_S_v2Ex, size := 14 },
                         .single { key := mel_S_kcEx, val := mel_S_v1Ex, size := 13 }],
               size := 72, level := 0 }, mel_S_cEx) := by
  exact (hkeyElements_Set_eq_model SingleElems.ops mel_S_cfgEx mel_S_kbEx mel_S_v2Ex _ (mel_S_env0_ok _ _ _ _) mel_S_eEx mel_S_eEx_ok 0
      mel_S_cEx (by decide) (by decide) (by decide) (by decide) (by decide) mel_S_eEx_cnt (by decide)).trans rfl

/-- Set of a NEW key whose digest collides, collision limit 0: the probe `Get` fails with KeyNotFoundError, which is
    swallowed and replaced by CollisionLimitError; nothing changes -/
example : hkeyElements_Set (mel_S_env0 SingleElems.ops mel_S_cfg0Ex) (mel_cH mel_S_eEx) mel_S_cEx 7 (u64 0) (u64 5)
      (.key mel_S_keEx) (.val mel_S_v2Ex) =
    some (none, none, some .collisionLimit, mel_cH mel_S_eEx, mel_S_cEx) := by
  exact (hkeyElements_Set_eq_model SingleElems.ops mel_S_cfg0Ex mel_S_keEx mel_S_v2Ex _ (mel_S_env0_ok _ _ _ _) mel_S_eEx mel_S_eEx_ok 0
      mel_S_cEx (by decide) (by decide) (by decide) (by decide) (by decide) mel_S_eEx_cnt (by decide)).trans rfl

/-- an EXISTING key at collision limit 0 is still set (the probe finds the key): no error -/
example : (hkeyElements_Set (mel_S_env0 SingleElems.ops mel_S_cfg0Ex) (mel_cH mel_S_eEx) mel_S_cEx 7 (u64 0) (u64 5)
      (.key mel_S_kbEx) (.val mel_S_v2Ex)).map (·.2.2.1) = some none := by
  exact (congrArg (Option.map (·.2.2.1)) (hkeyElements_Set_eq_model SingleElems.ops mel_S_cfg0Ex mel_S_kbEx mel_S_v2Ex _
    (mel_S_env0_ok _ _ _ _) mel_S_eEx mel_S_eEx_ok 0 mel_S_cEx (by decide) (by decide) (by decide) (by decide) (by decide)
    mel_S_eEx_cnt (by decide))).trans rfl

/-! ### outside the hypothesis `hnsz` the code and the model DIFFER

  A key of 2^32 bytes: the new `singleElement` has `size uint32` = (1 + 2^32 + s) mod 2^32 = 1 + s in Go, 2^32 + 1 + s in the
  `Nat` model (s = `slabIDStorableSize`: the value, over the inline limit, became a SlabID storable). -/

def mel_S_kBigEx : MKey := { size := 4294967296, pay := 6, digs := [7, 6] }

def mel_S_sizes : Option (Option SV × Option SV × Option GE × hkeyElements (MElemF SingleElems) × Ctx) → Option (List Nat) :=
  Option.map (fun r => r.2.2.2.1.elems.map (fun x => match x with | some (.single x) => x.size | _ => 0))

example : mel_S_sizes (hkeyElements_Set (mel_S_env0 SingleElems.ops mel_S_cfgEx) (mel_cH mel_S_eEx) mel_S_cEx 7 (u64 0) (u64 7)
      (.key mel_S_kBigEx) (.val mel_S_v2Ex)) = some [13, 13, 1 + slabIDStorableSize, 13] := by decide
example : mel_S_sizes (mel_rSet mel_S_eEx mel_S_cEx (HkeyElems.set SingleElems.ops mel_S_cfgEx mel_S_eEx 0 mel_S_kBigEx mel_S_v2Ex mel_S_cEx)) =
    some [13, 13, 4294967297 + slabIDStorableSize, 13] := by decide

end Atree.TransEq
