import AtreeProofs.WorldHeap
import AtreeProofs.World.HeapWOps2
import AtreeProofs.Props.C09
import AtreeProofs.Props.C10WPop
/-
  C09 AT WORLD LEVEL — nested containers: no leaked, dangling or doubly-owned slabs across the
  inline <-> standalone transitions and the parent-callback chain.  PROPERTY THEOREMS.

  Specification: `AtreeProofs/WorldHeap.lean` (`World.heapOf` = the slabs that must be in storage:
  the whole tree of every standalone container, the tree WITHOUT the root slab for an inlined one;
  `HeapOk` = every slab ID belongs to the tree of exactly one container; `WEffectsComplete` = the
  World-level `EffectsComplete` of C09).

  `*_effects_complete`: for every operation of the World model, under the global invariant `WorldOk'`
  (C10W, proved preserved by every operation) and `HeapOk`: the effect log appended by the operation
  — the inline / un-inline of the value handed in, the core operation on the target container, the
  WHOLE callback chain up to the outermost container (`notifyParent`, every ancestor re-`set`,
  each possibly flipping its child between inline and standalone), the un-inlining of the value
  handed back — is a complete account of the change of the heap: every slab whose content changed
  was stored, every slab that left the heap was removed, nothing else was touched; and `HeapOk`
  holds again.  No `HandleOk` hypothesis: a stale closure only stops the chain, it cannot make the
  log incomplete.

  Proofs: `AtreeProofs/World/Heap*.lean`.
-/
namespace Atree.C09W
open Atree Gen World
open Atree.C09 (newEffects newCreated newEffects_of_log)

variable {D : SlabID → DigestFn 4}

/-! ### from the invariant of C10W to the hypotheses of the accounting -/

/-- the value handed in is below the target in a suitable rank -/
theorem wvalH_of_ok {rank : SlabID → Nat} {w : World} {ctr : Nat} (H : WorldOkPK D rank (fun _ => False) w ctr)
    {p : SlabID} {lim : Nat} {v : WVal} (hv : WValOk w p lim v) :
    ∃ rank', CRank rank' w ∧ WValH rank' w p lim v := by
  cases v with
  | plain e =>
    obtain ⟨⟨h1, n, h2⟩, h3⟩ := hv
    exact ⟨rank, H.rank, h1, h3, n, h2⟩
  | child x wr =>
    obtain ⟨h1, h2, h3, h4⟩ := hv
    obtain ⟨rank', hr, hlt⟩ := rank_insert H.rank H.unique h2 h3
    exact ⟨rank', hr, fun e => h3 (e ▸ Anc.refl), hlt.1, h4, h1⟩

/-- what an operation theorem of `World/HeapWOps*.lean` delivers, in the vocabulary of C09 -/
theorem complete_of_post {w w' : World} {cx cx' : Ctx} (h : Post w cx w' cx') (Hh : HeapOk w cx.ctr) :
    cx'.eff = cx.eff ++ newEffects cx cx' ∧
    WEffectsComplete w w' (newEffects cx cx') (newCreated cx cx') ∧ HeapOk w' cx'.ctr ∧ cx.ctr ≤ cx'.ctr := by
  obtain ⟨E, C, hlog, hacct, hheap, _⟩ := h
  obtain ⟨h1, h2, h3⟩ := newEffects_of_log hlog
  rw [h2, h3]
  exact ⟨by rw [← h2]; exact h1, hacct.effectsComplete Hh hheap, hheap, hlog.ctr_le⟩

/-! ### the empty world -/

theorem heapOk_new (T addr ctr : Nat) : HeapOk { T := T, addr := addr } ctr := by
  have hn : ∀ x, ({ T := T, addr := addr } : World).cont? x = none := fun _ => rfl
  refine ⟨?_, ?_, ?_, ?_⟩
  · intro x c x' c' id h; rw [hn] at h; cases h
  · intro x c h; rw [hn] at h; cases h
  · intro x c id h; rw [hn] at h; cases h
  · intro x c id h; rw [hn] at h; cases h

/-! ### every operation -/

theorem newArr_effects_complete (D : SlabID → DigestFn 4) (w : World) (ty : Nat) (cx : Ctx)
    (H : WorldOk' D w cx.ctr) (Hh : HeapOk w cx.ctr) :
    (w.newArr ty cx).2.2.eff = cx.eff ++ newEffects cx (w.newArr ty cx).2.2 ∧
    WEffectsComplete w (w.newArr ty cx).2.1 (newEffects cx (w.newArr ty cx).2.2) (newCreated cx (w.newArr ty cx).2.2) ∧
    HeapOk (w.newArr ty cx).2.1 (w.newArr ty cx).2.2.ctr ∧ cx.ctr ≤ (w.newArr ty cx).2.2.ctr := by
  obtain ⟨rank, H0⟩ := H
  exact complete_of_post (newArr_heap (HInv.of_pk H0) Hh) Hh

theorem newMap_effects_complete (D : SlabID → DigestFn 4) (w : World) (ty seed : Nat) (cx : Ctx)
    (H : WorldOk' D w cx.ctr) (Hh : HeapOk w cx.ctr) :
    (w.newMap ty seed cx).2.2.eff = cx.eff ++ newEffects cx (w.newMap ty seed cx).2.2 ∧
    WEffectsComplete w (w.newMap ty seed cx).2.1 (newEffects cx (w.newMap ty seed cx).2.2)
      (newCreated cx (w.newMap ty seed cx).2.2) ∧
    HeapOk (w.newMap ty seed cx).2.1 (w.newMap ty seed cx).2.2.ctr ∧ cx.ctr ≤ (w.newMap ty seed cx).2.2.ctr := by
  obtain ⟨rank, H0⟩ := H
  exact complete_of_post (newMap_heap (HInv.of_pk H0) Hh) Hh

/-- `Array.Insert` of a plain value or of a child container (inlined or un-inlined as it fits),
    through the handle of a container at any depth -/
theorem arrInsert_effects_complete (D : SlabID → DigestFn 4) (w : World) (p : SlabID) (i : Nat) (v : WVal)
    (cx : Ctx) (w' : World) (cx' : Ctx) (H : WorldOk' D w cx.ctr) (Hh : HeapOk w cx.ctr)
    (hv : WValOk w p (maxInlineArr w.T) v) (h : w.arrInsert p i v cx = .ok (w', cx')) :
    cx'.eff = cx.eff ++ newEffects cx cx' ∧
    WEffectsComplete w w' (newEffects cx cx') (newCreated cx cx') ∧ HeapOk w' cx'.ctr ∧ cx.ctr ≤ cx'.ctr := by
  obtain ⟨rank, H0⟩ := H
  obtain ⟨rank', hr, hv'⟩ := wvalH_of_ok H0 hv
  exact complete_of_post (arrInsert_heap ((HInv.of_pk H0).with_rank hr) Hh hv' h) Hh

/-- `Array.Set`: the overwritten value is handed back, un-inlined if it was an inlined child -/
theorem arrSet_effects_complete (D : SlabID → DigestFn 4) (w : World) (p : SlabID) (i : Nat) (v : WVal)
    (cx : Ctx) (old : Elem) (w' : World) (cx' : Ctx) (H : WorldOk' D w cx.ctr) (Hh : HeapOk w cx.ctr)
    (hv : WValOk w p (maxInlineArr w.T) v) (h : w.arrSet p i v cx = .ok (old, w', cx')) :
    cx'.eff = cx.eff ++ newEffects cx cx' ∧
    WEffectsComplete w w' (newEffects cx cx') (newCreated cx cx') ∧ HeapOk w' cx'.ctr ∧ cx.ctr ≤ cx'.ctr := by
  obtain ⟨rank, H0⟩ := H
  obtain ⟨rank', hr, hv'⟩ := wvalH_of_ok H0 hv
  exact complete_of_post (arrSet_heap ((HInv.of_pk H0).with_rank hr) Hh hv' h) Hh

/-- `Array.Remove` -/
theorem arrRemove_effects_complete (D : SlabID → DigestFn 4) (w : World) (p : SlabID) (i : Nat)
    (cx : Ctx) (old : Elem) (w' : World) (cx' : Ctx) (H : WorldOk' D w cx.ctr) (Hh : HeapOk w cx.ctr)
    (h : w.arrRemove p i cx = .ok (old, w', cx')) :
    cx'.eff = cx.eff ++ newEffects cx cx' ∧
    WEffectsComplete w w' (newEffects cx cx') (newCreated cx cx') ∧ HeapOk w' cx'.ctr ∧ cx.ctr ≤ cx'.ctr := by
  obtain ⟨rank, H0⟩ := H
  exact complete_of_post (arrRemove_heap (HInv.of_pk H0) Hh h) Hh

/-- `OrderedMap.Set` -/
theorem mapSet_effects_complete (D : SlabID → DigestFn 4) (w : World) (p : SlabID) (k : MKey) (v : WVal)
    (cx : Ctx) (old : Option Elem) (w' : World) (cx' : Ctx) (H : WorldOk' D w cx.ctr) (Hh : HeapOk w cx.ctr)
    (hk : KeyOk w.T 4 (D p) k) (hv : WValOk w p (maxInlineMapValue w.T k.size) v)
    (h : w.mapSet p k v cx = .ok (old, w', cx')) :
    cx'.eff = cx.eff ++ newEffects cx cx' ∧
    WEffectsComplete w w' (newEffects cx cx') (newCreated cx cx') ∧ HeapOk w' cx'.ctr ∧ cx.ctr ≤ cx'.ctr := by
  obtain ⟨rank, H0⟩ := H
  obtain ⟨rank', hr, hv'⟩ := wvalH_of_ok H0 hv
  exact complete_of_post (mapSet_heap ((HInv.of_pk H0).with_rank hr) Hh hk hv' h) Hh

/-- `OrderedMap.Remove` -/
theorem mapRemove_effects_complete (D : SlabID → DigestFn 4) (w : World) (p : SlabID) (k : MKey)
    (cx : Ctx) (rk : MKey) (rv : Elem) (w' : World) (cx' : Ctx) (H : WorldOk' D w cx.ctr) (Hh : HeapOk w cx.ctr)
    (hk : KeyOk w.T 4 (D p) k) (h : w.mapRemove p k cx = .ok (rk, rv, w', cx')) :
    cx'.eff = cx.eff ++ newEffects cx cx' ∧
    WEffectsComplete w w' (newEffects cx cx') (newCreated cx cx') ∧ HeapOk w' cx'.ctr ∧ cx.ctr ≤ cx'.ctr := by
  obtain ⟨rank, H0⟩ := H
  exact complete_of_post (mapRemove_heap (HInv.of_pk H0) Hh hk h) Hh

/-- `SetType` through the handle of a container: a standalone root is stored; for an inlined one
    the slab that embeds it is (the callback chain) -/
theorem setType_effects_complete (D : SlabID → DigestFn 4) (w : World) (p : SlabID) (ty : Nat)
    (cx : Ctx) (w' : World) (cx' : Ctx) (H : WorldOk' D w cx.ctr) (Hh : HeapOk w cx.ctr)
    (h : w.setType p ty cx = .ok (w', cx')) :
    cx'.eff = cx.eff ++ newEffects cx cx' ∧
    WEffectsComplete w w' (newEffects cx cx') (newCreated cx cx') ∧ HeapOk w' cx'.ctr ∧ cx.ctr ≤ cx'.ctr := by
  obtain ⟨rank, H0⟩ := H
  exact complete_of_post (setType_heap (HInv.of_pk H0) Hh h) Hh

/-- reads (`arrGet`, `mapGet`) and `reopen` do not touch the table of containers: same heap -/
theorem heap_of_same_conts (w w' : World) (ctr : Nat) (h : ∀ z, w'.cont? z = w.cont? z) (ha : w'.addr = w.addr)
    (Hh : HeapOk w ctr) : HeapOk w' ctr ∧ ∀ id, w'.slabAt id = w.slabAt id := by
  have Hh' := Hh.congr h ha
  refine ⟨Hh', fun id => ?_⟩
  cases hs : w.slabAt id with
  | none =>
    have := (World.slabAt_isNone w id).1 (by rw [hs]; rfl)
    have h2 : ¬ w'.InHeap id := by rw [inHeap_congr h]; exact this
    have := (World.slabAt_isNone w' id).2 h2
    cases h3 : w'.slabAt id with
    | none => rfl
    | some _ => rw [h3] at this; cases this
  | some s =>
    rw [Hh.slabAt_eq_some] at hs
    rw [Hh'.slabAt_eq_some, hasSlab_congr h]
    exact hs

/-- "applying the effect log of the operation to the heap of the old world gives the heap of the new
    world" (the final content of every stored slab being its content in the new world, as in
    `E2E.applyEffs`) -/
theorem applyLog_eq_heap {w w' : World} {E : List Eff} {cr : List SlabID} (h : WEffectsComplete w w' E cr) :
    applyLog w.slabAt w'.slabAt E = w'.slabAt := h.applyLog

/-! ### ownership (C09 "every non-root slab is referenced exactly once … one owner") -/

/-- every slab ID of the heap belongs to exactly one container tree, all slabs are owned by the
    world's address, and the list of heap IDs has no duplicate -/
theorem heap_ownership (w : World) (ctr : Nat) (Hh : HeapOk w ctr) :
    w.heapIds.Nodup ∧
    (∀ id, id ∈ w.heapIds ↔ ∃ x c, w.cont? x = some c ∧ id ∈ c.heapIds) ∧
    (∀ id x c x' c', w.cont? x = some c → w.cont? x' = some c' → id ∈ c.heapIds → id ∈ c'.heapIds → x = x') ∧
    (∀ id ∈ w.heapIds, id.addr = w.addr ∧ id.idx ≤ ctr) := by
  refine ⟨Hh.nodup_heapIds, fun id => mem_heapIds_iff w id, ?_, ?_⟩
  · intro id x c x' c' hx hx' h1 h2
    exact Hh.own x c x' c' id hx hx' (c.heapIds_sub_treeIds id h1) (c'.heapIds_sub_treeIds id h2)
  · intro id hid
    obtain ⟨x, c, hx, hm⟩ := (mem_heapIds_iff w id).1 hid
    exact ⟨Hh.addr x c id hx (c.heapIds_sub_treeIds id hm), Hh.below x c id hx (c.heapIds_sub_treeIds id hm)⟩

/-- an inlined container owns no slab of its own root: its value ID is NOT in the heap, while a
    standalone container's is -/
theorem root_in_heap_iff_standalone (w : World) (ctr : Nat) (Hh : HeapOk w ctr) (hids : World.IdsOk w)
    (x : SlabID) (c : Cont) (hx : w.cont? x = some c) : x ∈ w.heapIds ↔ c.isInlined = false := by
  rw [mem_heapIds_iff]
  have hv : c.vid = x := hids x c hx
  constructor
  · rintro ⟨x', c', hx', hm⟩
    have e : x' = x := Hh.own x' c' x c x hx' hx (c'.heapIds_sub_treeIds x hm) (hv ▸ Cont.vid_mem_treeIds c)
    rw [e, hx] at hx'; cases hx'
    cases hi : c.isInlined
    · rfl
    · exfalso
      rw [Cont.heapIds_of_inlined hi, Cont.treeIds_cons] at hm
      have hnd := Hh.nodup x c hx
      rw [Cont.treeIds_cons] at hnd
      rw [hv] at hnd hm
      exact (List.nodup_cons.1 hnd).1 hm
  · intro hi
    exact ⟨x, c, hx, by rw [Cont.heapIds_of_standalone hi]; exact hv ▸ Cont.vid_mem_treeIds c⟩

/-- every container that is referenced — inlined or standalone — is referenced by exactly one
    element of one container (`UniqueRef` of `WorldOk'`); an inlined one IS referenced -/
theorem child_referenced_once (D : SlabID → DigestFn 4) (w : World) (ctr : Nat) (H : WorldOk' D w ctr)
    (x : SlabID) (c : Cont) (hx : w.cont? x = some c) :
    (∀ p p' pc pc' (i j : Nat), w.cont? p = some pc → w.cont? p' = some pc' →
      pc.pays[i]? = some (Pay.ref x) → pc'.pays[j]? = some (Pay.ref x) → p = p' ∧ i = j) ∧
    (c.isInlined = true → ∃ p, Holds w p x) := by
  obtain ⟨rank, H0⟩ := H
  refine ⟨fun p p' pc pc' i j h1 h2 h3 h4 => H0.unique p p' pc pc' i j x h1 h2 h3 h4 (by rw [hx]; rfl), ?_⟩
  intro hi
  exact H0.inlRef x c hx hi (fun h => h)

end Atree.C09W
