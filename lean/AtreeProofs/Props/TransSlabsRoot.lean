import AtreeProofs.Trans.Slabs
import AtreeProofs.Props.TransSlabsDecide
import AtreeProofs.Props.TransSlabsData
import AtreeProofs.Props.TransSlabsMeta
import AtreeProofs.Props.TransSlabsTree
import AtreeModel.Array.Ops
/-
  TRANSLATION EQUIVALENCE for the generated array-slab code (`Gen/TransSlabs.lean`), part "root": the root changes of
  `Array` (array.go) - `Array_Address`, `Array_splitRoot` (+ join point `.k1`), `Array_promoteChildAsNewRoot`
  (+ `.k1`) - against the model's `Arr.addr`, `Arr.splitRoot`, `Arr.promoteIfSingleChild` (`AtreeModel/Array/Ops.lean`).

  The root slab is reached through the generated dynamic dispatchers (`Sl_disp_*`, Props/TransSlabsDecide.lean); the
  agreement of the dispatched `Split` with the model is a hypothesis `SplitAgrees` (Props/TransSlabsTree.lean) on the
  model's intermediate `oldRoot` (`splitRootOld`) and the storage after the allocation (`splitRootCtx`).
  Core Lean only.
-/
set_option linter.unusedSimpArgs false
namespace Atree.TransEq
open Atree Atree.Gen

/-- a model array handle with its storage as the generated `Array` record -/
def trArr (a : Arr) (c : Ctx) : GArray := { Storage := c, root := some (trTree a.d a.root) }

@[simp] theorem trArr_Storage (a : Arr) (c : Ctx) : (trArr a c).Storage = c := rfl
@[simp] theorem trArr_root (a : Arr) (c : Ctx) : (trArr a c).root = some (trTree a.d a.root) := rfl

/-! ### model-side helpers -/

theorem slR_hdr_setRoot (d : Nat) (t : ATree d) (b : Bool) : ATree.hdr d (ATree.setRoot d t b) = ATree.hdr d t := by
  cases d <;> rfl

theorem slR_hdr_setId (d : Nat) (t : ATree d) (id : SlabID) :
    ATree.hdr d (ATree.setId d t id) = { ATree.hdr d t with id := id } := by
  cases d <;> rfl

/-! ### `Array.Address` -/

/-- `Array.Address()`: the address of the root slab's identifier -/
theorem Sl_Array_Address_eq_model (T : Nat) (look) (a : Arr) (c : Ctx) :
    TransSl.Array_Address (envA T look) (trArr a c) = some a.addr := by
  simp only [TransSl.Array_Address, trArr_root, Sl_disp_SlabID]
  rfl

/-! ### `Array.splitRoot` -/

/-- the model's `root0`: the root with its size adjusted from root-data-slab prefix to data-slab prefix -/
def splitRoot0 (a : Arr) : ATree a.d :=
  match a with
  | ⟨0, (s : DataSlab), _⟩ =>
    ({ s with hdr := { s.hdr with size := s.hdr.size - arrayRootDataSlabPrefixSize + arrayDataSlabPrefixSize } } : DataSlab)
  | ⟨_ + 1, m, _⟩ => m

/-- the storage after `GenerateSlabID(a.Address())` -/
def splitRootCtx (a : Arr) (c : Ctx) : Ctx := (c.alloc (ATree.hdr a.d (splitRoot0 a)).id.addr).2

/-- the model's `oldRoot`: size adjusted, extra data removed, the freshly allocated identifier -/
def splitRootOld (a : Arr) (c : Ctx) : ATree a.d :=
  ATree.setId a.d (ATree.setRoot a.d (splitRoot0 a) false) (c.alloc (ATree.hdr a.d (splitRoot0 a)).id.addr).1

/-- the new root index slab over the two halves -/
def splitRootNew (a : Arr) (left right : ATree a.d) : MetaSlab (ATree a.d) :=
  { hdr := { id := (ATree.hdr a.d (splitRoot0 a)).id,
             count := (ATree.hdr a.d left).count + (ATree.hdr a.d right).count,
             size := arrayMetaDataSlabPrefixSize + arraySlabHeaderSize * 2 },
    childHdrs := [ATree.hdr a.d left, ATree.hdr a.d right],
    countSum := [(ATree.hdr a.d left).count, (ATree.hdr a.d left).count + (ATree.hdr a.d right).count],
    children := [left, right], root := true }

/-- `Arr.splitRoot` in terms of the named intermediates -/
theorem splitRoot_unfold (a : Arr) (c : Ctx) :
    a.splitRoot c =
      match ATree.split a.d (splitRootOld a c) (splitRootCtx a c) with
      | .error e => .error e
      | .ok (l, r, c') =>
        .ok (⟨a.d + 1, splitRootNew a l r, a.ty⟩,
             ((c'.emit (.store (ATree.hdr a.d l).id)).emit (.store (ATree.hdr a.d r).id)).emit
               (.store (ATree.hdr a.d (splitRoot0 a)).id)) := by
  obtain ⟨d, root, ty⟩ := a
  cases d with
  | zero =>
    simp only [Arr.splitRoot, splitRootOld, splitRootCtx, splitRoot0, splitRootNew, bind, Except.bind]
    split <;> simp_all [pure, Except.pure]
  | succ d =>
    simp only [Arr.splitRoot, splitRootOld, splitRootCtx, splitRoot0, splitRootNew, bind, Except.bind]
    split <;> simp_all [pure, Except.pure]

/-- the join point of `splitRoot` on ANY root slab `t` (for a data root: already with the adjusted size) -/
theorem Sl_Array_splitRoot_k1 (T : Nat) (look) (d : Nat) (t : ATree d) (c : Ctx)
    (hroot : ATree.isRoot d t = true)
    (hsplit : SplitAgrees T look d
      (ATree.setId d (ATree.setRoot d t false) (c.alloc (ATree.hdr d t).id.addr).1)
      (c.alloc (ATree.hdr d t).id.addr).2) :
    TransSl.Array_splitRoot.k1 (envA T look) ({ Storage := c, root := some (trTree d t) } : GArray) =
      match ATree.split d (ATree.setId d (ATree.setRoot d t false) (c.alloc (ATree.hdr d t).id.addr).1)
          (c.alloc (ATree.hdr d t).id.addr).2 with
      | .error e => some (some e,
          { Storage := (c.alloc (ATree.hdr d t).id.addr).2,
            root := some (trTree d (ATree.setId d (ATree.setRoot d t false) (c.alloc (ATree.hdr d t).id.addr).1)) })
      | .ok (l, r, c') => some (none,
          { Storage := ((c'.emit (.store (ATree.hdr d l).id)).emit (.store (ATree.hdr d r).id)).emit
              (.store (ATree.hdr d t).id),
            root := some (.metaSlab (trMeta
              ({ hdr := { id := (ATree.hdr d t).id, count := (ATree.hdr d l).count + (ATree.hdr d r).count,
                          size := arrayMetaDataSlabPrefixSize + arraySlabHeaderSize * 2 },
                 childHdrs := [ATree.hdr d l, ATree.hdr d r],
                 countSum := [(ATree.hdr d l).count, (ATree.hdr d l).count + (ATree.hdr d r).count],
                 children := [l, r], root := true } : MetaSlab (ATree d)))) }) := by
  unfold SplitAgrees at hsplit
  simp only [TransSl.Array_splitRoot.k1, Sl_disp_RemoveExtraData, Sl_disp_SlabID, TransSl.Array_Address, slR_hdr_setRoot,
    envA_gen, Option.isSome_none, Bool.false_eq_true, if_false, Sl_disp_SetSlabID, hsplit]
  cases hs : ATree.split d (ATree.setId d (ATree.setRoot d t false) (c.alloc (ATree.hdr d t).id.addr).1)
      (c.alloc (ATree.hdr d t).id.addr).2 with
  | error e => simp
  | ok res =>
    obtain ⟨l, r, c1⟩ := res
    simp only [Option.isSome_none, Bool.false_eq_true, if_false, Sl_disp_Header, trHdr_count, storeSlab_envA,
      Sl_disp_SlabID, storeSlab_meta, hroot]
    rw [u32_add']
    simp [trMeta, trHdr, trExtra, TransSl.ArraySlab_SlabID, TransSl.ArrayMetaDataSlab_SlabID]

/-- a data root: `splitRoot` adjusts the header size (root prefix -> data-slab prefix) and enters its join point -/
theorem Sl_Array_splitRoot_enter_data (T : Nat) (look) (s : DataSlab) (ty : Nat) (c : Ctx)
    (h5 : arrayRootDataSlabPrefixSize ≤ s.hdr.size) :
    TransSl.Array_splitRoot (envA T look) (trArr ⟨0, s, ty⟩ c) =
      TransSl.Array_splitRoot.k1 (envA T look) ({ Storage := c, root := some (.dataSlab (trData
        { s with hdr := { s.hdr with size := s.hdr.size - arrayRootDataSlabPrefixSize + arrayDataSlabPrefixSize } })) } :
        GArray) := by
  have e5 : UInt32.ofNat arrayRootDataSlabPrefixSize = u32 arrayRootDataSlabPrefixSize := rfl
  have e21 : UInt32.ofNat arrayDataSlabPrefixSize = u32 arrayDataSlabPrefixSize := rfl
  have hd : TransSl.ArraySlab_IsData (envA T look) (trTree 0 s) = true := rfl
  simp only [TransSl.Array_splitRoot, trArr_root, hd, if_true]
  show TransSl.Array_splitRoot.k1 _ _ = _
  congr 1
  rw [trData_header, trHdr_size, e5, e21, u32_sub' h5, u32_add']
  rfl

/-- `Array.splitRoot` enters its join point on the model's `root0` (`splitRoot0`) -/
theorem Sl_Array_splitRoot_enter (T : Nat) (look) (a : Arr) (c : Ctx)
    (hsz : a.d = 0 → arrayRootDataSlabPrefixSize ≤ (ATree.hdr a.d a.root).size) :
    TransSl.Array_splitRoot (envA T look) (trArr a c) =
      TransSl.Array_splitRoot.k1 (envA T look) ({ Storage := c, root := some (trTree a.d (splitRoot0 a)) } : GArray) := by
  obtain ⟨d, root, ty⟩ := a
  cases d with
  | zero => exact Sl_Array_splitRoot_enter_data T look root ty c (hsz rfl)
  | succ d =>
    simp only [TransSl.Array_splitRoot, trArr_root, Sl_disp_IsData]
    rfl

/-- `Array.splitRoot()`.  On success: the model's new root (an index slab over the two halves, extra data moved to
    it), three stores (left, right, root) after `Split`'s effects.  If `Split` fails (`SlabSplitError`: fewer than two
    elements / children) Go returns the error and leaves the array with the ALREADY MODIFIED old root (size adjusted,
    extra data removed, the fresh identifier) and the storage after the allocation. -/
theorem Sl_Array_splitRoot_eq_model (T : Nat) (look) (a : Arr) (c : Ctx)
    (hroot : ATree.isRoot a.d a.root = true)
    (hsz : a.d = 0 → arrayRootDataSlabPrefixSize ≤ (ATree.hdr a.d a.root).size)
    (hsplit : SplitAgrees T look a.d (splitRootOld a c) (splitRootCtx a c)) :
    TransSl.Array_splitRoot (envA T look) (trArr a c) =
      match a.splitRoot c with
      | .ok (a', c') => some (none, trArr a' c')
      | .error e => some (some e, trArr ⟨a.d, splitRootOld a c, a.ty⟩ (splitRootCtx a c)) := by
  have hroot0 : ATree.isRoot a.d (splitRoot0 a) = true := by
    obtain ⟨d, root, ty⟩ := a
    cases d <;> exact hroot
  rw [Sl_Array_splitRoot_enter T look a c hsz, splitRoot_unfold,
    Sl_Array_splitRoot_k1 T look a.d (splitRoot0 a) c hroot0 hsplit]
  simp only [splitRootOld, splitRootCtx]
  generalize ATree.split a.d (ATree.setId a.d (ATree.setRoot a.d (splitRoot0 a) false)
    (c.alloc (ATree.hdr a.d (splitRoot0 a)).id.addr).1) (c.alloc (ATree.hdr a.d (splitRoot0 a)).id.addr).2 = res
  cases res with
  | error e => rfl
  | ok res => rfl

/-! ### `Array.promoteChildAsNewRoot` -/

/-- the join point of `promoteChildAsNewRoot` on ANY root index slab `m` and child `child1` (for a data child: already
    with the adjusted size): the child takes the root's identifier and extra data, is stored, and the child's old
    identifier is removed from storage -/
theorem Sl_Array_promoteChildAsNewRoot_k1 (T : Nat) (look) (d : Nat) (m : MetaSlab (ATree d)) (c : Ctx) (id : SlabID)
    (child1 : ATree d) (err : Option AErr) :
    TransSl.Array_promoteChildAsNewRoot.k1 (envA T look)
        ({ Storage := c, root := some (trTree (d + 1) m) } : GArray) id (some (trTree d child1)) err =
      some (none, { Storage := (c.emit (.store m.hdr.id)).emit (.remove id),
                    root := some (trTree d (ATree.setRoot d (ATree.setId d child1 m.hdr.id) m.root)) }) := by
  have hrm : TransSl.ArraySlab_RemoveExtraData (envA T look) (trTree (d + 1) m) =
      (trExtra m.root, TransSl.ArraySlabV.metaSlab (trMeta ({ m with root := false } : MetaSlab (ATree d)))) := rfl
  have hid : TransSl.ArraySlab_SlabID (envA T look)
      (TransSl.ArraySlabV.metaSlab (trMeta ({ m with root := false } : MetaSlab (ATree d)))) = m.hdr.id := rfl
  simp only [TransSl.Array_promoteChildAsNewRoot.k1, hrm, hid, Sl_disp_SlabID, Sl_disp_SetSlabID,
    Sl_disp_SetExtraData, slR_hdr_setRoot, storeSlab_envA, Option.isSome_none, Bool.false_eq_true, if_false, envA_remove,
    slR_hdr_setId, envA_wrap]

/-- the model's `child1`: a data child with its size adjusted from data-slab prefix to root-data-slab prefix -/
def promoteChild1 : (d : Nat) → ATree d → ATree d
  | 0, (s : DataSlab) =>
    ({ s with hdr := { s.hdr with size := s.hdr.size - arrayDataSlabPrefixSize + arrayRootDataSlabPrefixSize } } : DataSlab)
  | _ + 1, m' => m'

/-- `Arr.promoteIfSingleChild` on a root index slab with exactly one child -/
theorem promote_unfold {d : Nat} (m : MetaSlab (ATree d)) (ty : Nat) (c : Ctx) (h : Hdr) (child : ATree d)
    (hch : m.childHdrs = [h]) (hcs : m.children = [child]) :
    (⟨d + 1, m, ty⟩ : Arr).promoteIfSingleChild c =
      (⟨d, ATree.setRoot d (ATree.setId d (promoteChild1 d child) m.hdr.id) true, ty⟩,
       (c.emit (.store m.hdr.id)).emit (.remove h.id)) := by
  simp only [Arr.promoteIfSingleChild, hch, hcs]
  cases d <;> rfl

/-- a data child: `promoteChildAsNewRoot` adjusts the header size (data-slab prefix -> root prefix) -/
theorem Sl_Array_promoteChildAsNewRoot_enter_data (T : Nat) (look) (g : GArray) (id : SlabID) (s : DataSlab)
    (hlook : look id = some (.dataSlab (trData s))) (h21 : arrayDataSlabPrefixSize ≤ s.hdr.size) :
    TransSl.Array_promoteChildAsNewRoot (envA T look) g id =
      TransSl.Array_promoteChildAsNewRoot.k1 (envA T look) g id (some (.dataSlab (trData
        { s with hdr := { s.hdr with size := s.hdr.size - arrayDataSlabPrefixSize + arrayRootDataSlabPrefixSize } })))
        none := by
  have e5 : UInt32.ofNat arrayRootDataSlabPrefixSize = u32 arrayRootDataSlabPrefixSize := rfl
  have e21 : UInt32.ofNat arrayDataSlabPrefixSize = u32 arrayDataSlabPrefixSize := rfl
  have hd : TransSl.ArraySlab_IsData (envA T look) (.dataSlab (trData s)) = true := rfl
  simp only [TransSl.Array_promoteChildAsNewRoot, envA_getArraySlab, hlook, Option.isSome_none, Bool.false_eq_true,
    if_false, hd, if_true]
  show TransSl.Array_promoteChildAsNewRoot.k1 _ _ _ _ _ = _
  congr 2
  rw [trData_header, trHdr_size, e5, e21, u32_sub' h21, u32_add']
  rfl

/-- `promoteChildAsNewRoot` fetches the child, adjusts a data child's header size and enters its join point -/
theorem Sl_Array_promoteChildAsNewRoot_enter (T : Nat) (look) {d : Nat} (g : GArray) (id : SlabID) (child : ATree d)
    (hlook : look id = some (trTree d child))
    (hsz : d = 0 → arrayDataSlabPrefixSize ≤ (ATree.hdr d child).size) :
    TransSl.Array_promoteChildAsNewRoot (envA T look) g id =
      TransSl.Array_promoteChildAsNewRoot.k1 (envA T look) g id (some (trTree d (promoteChild1 d child))) none := by
  obtain ⟨st, root⟩ := g
  cases d with
  | zero =>
    exact Sl_Array_promoteChildAsNewRoot_enter_data T look _ id child hlook (hsz rfl)
  | succ d =>
    simp only [TransSl.Array_promoteChildAsNewRoot, envA_getArraySlab, hlook, Option.isSome_none, Bool.false_eq_true,
      if_false, Sl_disp_IsData]
    rfl

/-- `Array.promoteChildAsNewRoot(childID)` on a root index slab with exactly one child that the storage returns: the
    model's `promoteIfSingleChild` (new root = the child with the root's identifier and extra data, a data child's size
    re-based on the root prefix; one store, one remove; no error). -/
theorem Sl_Array_promoteChildAsNewRoot_eq_model (T : Nat) (look) {d : Nat} (m : MetaSlab (ATree d)) (ty : Nat) (c : Ctx)
    (h : Hdr) (child : ATree d) (hch : m.childHdrs = [h]) (hcs : m.children = [child])
    (hlook : look h.id = some (trTree d child)) (hroot : m.root = true)
    (hsz : d = 0 → arrayDataSlabPrefixSize ≤ (ATree.hdr d child).size) :
    TransSl.Array_promoteChildAsNewRoot (envA T look) (trArr ⟨d + 1, m, ty⟩ c) h.id =
      some (none, trArr ((⟨d + 1, m, ty⟩ : Arr).promoteIfSingleChild c).1
                        ((⟨d + 1, m, ty⟩ : Arr).promoteIfSingleChild c).2) := by
  rw [Sl_Array_promoteChildAsNewRoot_enter T look _ h.id child hlook hsz, promote_unfold m ty c h child hch hcs]
  show TransSl.Array_promoteChildAsNewRoot.k1 (envA T look)
    ({ Storage := c, root := some (trTree (d + 1) m) } : GArray) _ _ _ = _
  rw [Sl_Array_promoteChildAsNewRoot_k1, hroot]
  rfl

/-- the child is not in storage (`getArraySlab` fails): the error is returned, nothing has changed -/
theorem Sl_Array_promoteChildAsNewRoot_notFound (T : Nat) (look) (a : Arr) (c : Ctx) (id : SlabID)
    (hlook : look id = none) :
    TransSl.Array_promoteChildAsNewRoot (envA T look) (trArr a c) id = some (some .slabNotFound, trArr a c) := by
  simp only [TransSl.Array_promoteChildAsNewRoot, envA_getArraySlab, hlook, Option.isSome_some, if_true]

/-! ### non-vacuity: a data root with three 50-byte elements is split, and the resulting root is promoted back -/

/-- the dispatched `Split` on a leaf agrees with the model (from `Sl_ArrayDataSlab_Split_eq_model`) -/
theorem Sl_splitAgrees_data (T : Nat) (look) (s : DataSlab) (c : Ctx) (hs : s.hdr.size < 2^32)
    (hpre : arrayDataSlabPrefixSize + sumSizes s.elems ≤ s.hdr.size) : SplitAgrees T look 0 s c := by
  unfold SplitAgrees
  simp only [trTree, TransSl.ArraySlab_Split, ATree.split, Sl_ArrayDataSlab_Split_eq_model T look s c hs hpre]
  cases DataSlab.split s c with
  | error e => rfl
  | ok res => rfl

/-- the dispatched `Split` on an index slab agrees with the model (from `Sl_ArrayMetaDataSlab_Split_eq_model`) -/
theorem Sl_splitAgrees_meta (T : Nat) (look) {d : Nat} (m : MetaSlab (ATree d)) (c : Ctx)
    (hcs : (m.childHdrs.length + 1) / 2 ≤ m.countSum.length)
    (hcov : (m.childHdrs.length + 1) / 2 * arraySlabHeaderSize ≤ m.hdr.size)
    (hcnt : MetaSlab.sumCounts (m.childHdrs.take ((m.childHdrs.length + 1) / 2)) ≤ m.hdr.count) :
    SplitAgrees T look (d + 1) m c := by
  unfold SplitAgrees
  simp only [trTree, TransSl.ArraySlab_Split, ATree.split, Sl_ArrayMetaDataSlab_Split_eq_model T look m c hcs hcov hcnt]
  cases MetaSlab.split m c with
  | error e => rfl
  | ok res => rfl

/-- `Array.splitRoot()` on a DATA root, no hypothesis left on `Split`: the header size fits `uint32` after the
    re-basing (+16) and accounts for the root prefix and the elements -/
theorem Sl_Array_splitRoot_dataRoot (T : Nat) (look) (s : DataSlab) (ty : Nat) (c : Ctx) (hroot : s.root = true)
    (hs : s.hdr.size + (arrayDataSlabPrefixSize - arrayRootDataSlabPrefixSize) < 2^32)
    (hpre : arrayRootDataSlabPrefixSize + sumSizes s.elems ≤ s.hdr.size) :
    TransSl.Array_splitRoot (envA T look) (trArr ⟨0, s, ty⟩ c) =
      match (⟨0, s, ty⟩ : Arr).splitRoot c with
      | .ok (a', c') => some (none, trArr a' c')
      | .error e => some (some e, trArr ⟨0, splitRootOld ⟨0, s, ty⟩ c, ty⟩ (splitRootCtx ⟨0, s, ty⟩ c)) := by
  simp only [arrayDataSlabPrefixSize, arrayRootDataSlabPrefixSize] at hs hpre
  refine Sl_Array_splitRoot_eq_model T look ⟨0, s, ty⟩ c hroot (fun _ => ?_) ?_
  · show arrayRootDataSlabPrefixSize ≤ s.hdr.size
    simp only [arrayRootDataSlabPrefixSize]; omega
  · refine Sl_splitAgrees_data T look _ _ ?_ ?_
    · show s.hdr.size - arrayRootDataSlabPrefixSize + arrayDataSlabPrefixSize < 2^32
      simp only [arrayDataSlabPrefixSize, arrayRootDataSlabPrefixSize]; omega
    · show arrayDataSlabPrefixSize + sumSizes s.elems ≤
        s.hdr.size - arrayRootDataSlabPrefixSize + arrayDataSlabPrefixSize
      simp only [arrayDataSlabPrefixSize, arrayRootDataSlabPrefixSize]; omega

def slRLeaf : DataSlab :=
  { hdr := ⟨⟨1, 1⟩, 155, 3⟩, next := SlabID.undef,
    elems := [⟨50, .val 0⟩, ⟨50, .val 1⟩, ⟨50, .val 2⟩], root := true, inlined := false }
def slRArr : Arr := ⟨0, slRLeaf, 7⟩
def slRCtx : Ctx := { ctr := 1, eff := [] }

example : TransSl.Array_Address (envA 256 (fun _ => none)) (trArr slRArr slRCtx) = some 1 := rfl

/-- the model splits it: left = 2 elements, right = 1 element, new root `⟨1, 1⟩`, old root re-identified `⟨1, 2⟩` -/
example : (slRArr.splitRoot slRCtx).toOption.map (fun r => (r.1.d, r.1.rootHdr, r.2.ctr)) =
    some (1, ⟨⟨1, 1⟩, 40, 3⟩, 3) := by decide

/-- through the theorem: the hypotheses hold on the concrete array, the generated function returns the model's result -/
example : TransSl.Array_splitRoot (envA 256 (fun _ => none)) (trArr slRArr slRCtx) =
    match slRArr.splitRoot slRCtx with
    | .ok (a', c') => some (none, trArr a' c')
    | .error e => some (some e, trArr ⟨0, splitRootOld slRArr slRCtx, 7⟩ (splitRootCtx slRArr slRCtx)) :=
  Sl_Array_splitRoot_eq_model 256 _ slRArr slRCtx rfl (fun _ => by decide)
    (Sl_splitAgrees_data 256 _ _ _ (by decide) (by decide))

/-- ... and by evaluation: no error, the new root is an index slab `⟨1, 1⟩` of 40 bytes over headers `⟨1, 2⟩` (2 elements,
    121 bytes) and `⟨1, 3⟩` (1 element, 71 bytes) carrying the extra data; two allocations, three stores -/
example : TransSl.Array_splitRoot (envA 256 (fun _ => none)) (trArr slRArr slRCtx) =
    some (none,
      { Storage := { ctr := 3, eff := [.alloc 1 ⟨1, 2⟩, .alloc 1 ⟨1, 3⟩, .store ⟨1, 2⟩, .store ⟨1, 3⟩, .store ⟨1, 1⟩] },
        root := some (.metaSlab
          { header := { slabID := ⟨1, 1⟩, size := 40, count := 3 },
            childrenHeaders := [{ slabID := ⟨1, 2⟩, size := 121, count := 2 }, { slabID := ⟨1, 3⟩, size := 71, count := 1 }],
            childrenCountSum := [2, 3], extraData := some () }) }) := by
  exact (Sl_Array_splitRoot_dataRoot 256 _ slRLeaf 7 slRCtx rfl (by decide) (by decide)).trans rfl

/-- a data root with ONE element cannot be split: Go returns `SlabSplitError` and leaves the array with the old root
    ALREADY re-based (55 -> 71 bytes), stripped of its extra data and re-identified `⟨1, 2⟩`, the allocation done -/
example :
    let s : DataSlab := { hdr := ⟨⟨1, 1⟩, 55, 1⟩, next := SlabID.undef, elems := [⟨50, .val 0⟩], root := true,
                          inlined := false }
    TransSl.Array_splitRoot (envA 256 (fun _ => none)) (trArr ⟨0, s, 7⟩ slRCtx) =
      some (some .slabSplit,
        { Storage := { ctr := 2, eff := [.alloc 1 ⟨1, 2⟩] },
          root := some (.dataSlab
            { next := SlabID.undef, header := { slabID := ⟨1, 2⟩, size := 71, count := 1 },
              elements := [some ⟨50, .val 0⟩], extraData := none, inlined := false }) }) := by
  intro s
  exact (Sl_Array_splitRoot_dataRoot 256 _ s 7 slRCtx rfl (by decide) (by decide)).trans rfl

/-- an INDEX root (two leaves) is split: through the theorem with `Sl_splitAgrees_meta` -/
def slRIndex : MetaSlab (ATree 0) :=
  { hdr := ⟨⟨1, 1⟩, 40, 3⟩, childHdrs := [⟨⟨1, 2⟩, 121, 2⟩, ⟨⟨1, 3⟩, 71, 1⟩], countSum := [2, 3],
    children := [({ slRLeaf with hdr := ⟨⟨1, 2⟩, 121, 2⟩, elems := slRLeaf.elems.take 2, root := false } : DataSlab),
                 ({ slRLeaf with hdr := ⟨⟨1, 3⟩, 71, 1⟩, elems := slRLeaf.elems.drop 2, root := false } : DataSlab)],
    root := true }

example : ∃ a' c', (⟨1, slRIndex, 7⟩ : Arr).splitRoot slRCtx = .ok (a', c') ∧ a'.d = 2 ∧
    TransSl.Array_splitRoot (envA 256 (fun _ => none)) (trArr ⟨1, slRIndex, 7⟩ slRCtx) = some (none, trArr a' c') := by
  have h := Sl_Array_splitRoot_eq_model 256 (fun _ => none) ⟨1, slRIndex, 7⟩ slRCtx rfl (fun h => by cases h)
    (Sl_splitAgrees_meta 256 _ _ _ (by decide) (by decide) (by decide))
  rw [h]
  exact ⟨_, _, rfl, rfl, rfl⟩

/-- `promoteChildAsNewRoot`: a root index slab with ONE data child `⟨1, 2⟩` (171 bytes), which the storage returns -/
def slRChild : DataSlab := { slRLeaf with hdr := ⟨⟨1, 2⟩, 171, 3⟩, root := false }
def slRSingle : MetaSlab (ATree 0) :=
  { hdr := ⟨⟨1, 1⟩, 26, 3⟩, childHdrs := [⟨⟨1, 2⟩, 171, 3⟩], countSum := [3], children := [slRChild], root := true }
def slRLook : SlabID → Option GSlab := fun id => if id = ⟨1, 2⟩ then some (trTree 0 slRChild) else none

example : TransSl.Array_promoteChildAsNewRoot (envA 256 slRLook) (trArr ⟨1, slRSingle, 7⟩ slRCtx) ⟨1, 2⟩ =
    some (none,
      { Storage := { ctr := 1, eff := [.store ⟨1, 1⟩, .remove ⟨1, 2⟩] },
        root := some (.dataSlab
          { next := SlabID.undef, header := { slabID := ⟨1, 1⟩, size := 155, count := 3 },
            elements := [some ⟨50, .val 0⟩, some ⟨50, .val 1⟩, some ⟨50, .val 2⟩], extraData := some (),
            inlined := false }) }) := by
  rw [show (⟨1, 2⟩ : SlabID) = (⟨⟨1, 2⟩, 171, 3⟩ : Hdr).id from rfl,
    Sl_Array_promoteChildAsNewRoot_eq_model 256 slRLook slRSingle 7 slRCtx ⟨⟨1, 2⟩, 171, 3⟩ slRChild rfl rfl rfl rfl
      (fun _ => by decide)]
  rfl

example : TransSl.Array_promoteChildAsNewRoot (envA 256 (fun _ => none)) (trArr ⟨1, slRSingle, 7⟩ slRCtx) ⟨1, 2⟩ =
    some (some .slabNotFound, trArr ⟨1, slRSingle, 7⟩ slRCtx) :=
  Sl_Array_promoteChildAsNewRoot_notFound 256 _ _ _ _ rfl

/-- `hsz` is needed: on a (corrupt) data root whose header says 2 bytes (less than the root prefix, 5), Go's
    `size - arrayRootDataSlabPrefixSize + arrayDataSlabPrefixSize` wraps around twice and gives 18, the model's
    truncated subtraction gives 21 (read off the old root that the failing `Split` leaves behind).  A valid root has
    `size = 5 + sumSizes elems`. -/
theorem Sl_Array_splitRoot_differs_at :
    let s : DataSlab := { hdr := ⟨⟨1, 1⟩, 2, 0⟩, next := SlabID.undef, elems := [], root := true, inlined := false }
    (TransSl.Array_splitRoot (envA 256 (fun _ => none)) (trArr ⟨0, s, 7⟩ slRCtx)).map
        (fun r => r.2.root.map (fun v => (TransSl.ArraySlab_Header (envA 256 (fun _ => none)) v).size)) =
      some (some 18) ∧
    (ATree.hdr 0 (splitRootOld ⟨0, s, 7⟩ slRCtx)).size = 21 := ⟨rfl, rfl⟩

end Atree.TransEq
