import AtreeProofs.Props.C17
import AtreeProofs.WorldOk
import AtreeProofs.World.MapRefW
import AtreeProofs.World.ArrRef
import AtreeProofs.Map.TreeInv2
import AtreeProofs.Map.TreeBasics
import AtreeProofs.MapIds
import AtreeProofs.Props.C17Ids
/-
  C17 — the copy theorems and an INLINED source (audit a1 F9 "inlined-source hypotheses
  undischarged", FX9H item 3).

  The pinned copy theorems of Props/C17.lean take raw hypotheses about the single root data slab `s`
  of the source:
    `copy_size_rebased_array / _map` : `s.hdr.size = s.prefixSize + Σ element sizes`, `s.root = true`
    `copy_inv_array`                 : `DataInv T true s`, `s.hdr.count < maxArrayElementCount + 1`
    `copy_inv_map`                   : `MDataInv T D true s`, `m.count = m.toList.length`, `KeysDistinct m.toList`
    `result_ids_fresh_*`             : every identifier in use is at most the allocation counter.
  For a STANDALONE source they are fields of `ArrInv` / `MapInv`.  For an INLINED source (a child
  container stored inside its parent's slab) the World invariant `WorldOk` gives `ArrInvInl` /
  `MapInvInl` (`ContOk`, AtreeProofs/WorldOk.lean).  Below: these imply every hypothesis above
  EXCEPT the upper size band `s.hdr.size ≤ maxThr T` (`DataInv.le_max` / `MDataInv.le_max`):
  `ArrInvInl` / `MapInvInl` deliberately have no band (an inlined child may exceed its budget in the
  middle of an operation); BETWEEN operations the band is the `SlotSync` clause of `WorldOk`
  (`x.isInlined = x.inlinable (lim - 2 * wrap)`: an inlined child fits its slot limit, which is
  below `maxThr T`).  It is kept here as the explicit hypothesis `hband`; deriving it from
  `WorldOk` needs the parent slot and is NOT done.
-/
namespace Atree.C17
open Atree Gen

variable {T r : Nat}

/-- Arrays: what `ArrInvInl` (World invariant of an inlined child) gives about the source of a copy. -/
theorem inlined_array_copy_hyps (a : Arr) (ctr : Nat) (h : ArrInvInl T a ctr)
    (hband : a.rootHdr.size ≤ maxThr T) :
    ∃ s, a.singleData = some s ∧ DataInv T true s ∧ s.hdr.count < maxArrayElementCount + 1 ∧
      s.hdr.size = s.prefixSize + sumSizes s.elems ∧ s.root = true ∧ s.inlined = true ∧
      s.next = SlabID.undef ∧ (∀ id ∈ ATree.slabIds a.d a.root, id.idx ≤ ctr) := by
  obtain ⟨s, ty, rfl, h1, h2, h3, h4, h5, h6, h7, h8, h9⟩ := h
  have hp : s.prefixSize = inlinedArrayDataSlabPrefixSize := by simp [DataSlab.prefixSize, h2]
  refine ⟨s, rfl, ⟨h4, by rw [hp]; exact h5, h6, h1, fun _ => rfl, hband, fun hf => by cases hf⟩, h9,
    by rw [hp]; exact h5, h1, h2, h3, ?_⟩
  intro id hid
  have hid' : id ∈ ATree.slabIds 0 (ofData s) := hid
  have : id = s.hdr.id := by simpa using hid'
  rw [this]; exact h8

/-- The copy of an INLINED array (as the World invariant describes it) that fits the band is a
    valid standalone array with the source's elements, type and count, whose size is re-based to
    the root prefix and whose only slab identifier is fresh and differs from the source's. -/
theorem copy_of_inlined_array (hT : legalThreshold T = true) (a : Arr) (addr : Nat) (c : Ctx)
    (h : ArrInvInl T a c.ctr) (hband : a.rootHdr.size ≤ maxThr T)
    (a' : Arr) (c' : Ctx) (hc : a.copyNonRefSimple addr c = .ok (a', c')) :
    ArrInv T a' c'.ctr ∧ a'.toList = a.toList ∧ a'.ty = a.ty ∧ a'.count = a.count ∧ a'.isInlined = false ∧
      a'.rootHdr.size = arrayRootDataSlabPrefixSize + sumSizes a'.toList ∧
      (∀ id ∈ ATree.slabIds a'.d a'.root, id.addr = addr ∧ c.ctr < id.idx ∧ id.idx ≤ c'.ctr) ∧
      (∀ id ∈ ATree.slabIds a'.d a'.root, id ∉ ATree.slabIds a.d a.root) := by
  have _ := hT
  obtain ⟨s, hs, hinv, hcnt, hsz, hroot, _, _, hold⟩ := inlined_array_copy_hyps a c.ctr h hband
  obtain ⟨g1, g2, g3, g4⟩ := copy_content_eq_array a addr c a' c' hc
  obtain ⟨f1, f2⟩ := result_ids_fresh_array_copy a addr c a' c' hc (fun id hid _ => hold id hid)
  exact ⟨copy_inv_array T a addr c a' c' hc s hs hinv hcnt, g1, g2, g3, g4,
    copy_size_rebased_array a addr c a' c' hc s hs hsz hroot, f1, f2⟩

/-- Maps: what `MapInvInl` gives about the source of a copy — including key distinctness and the
    count, which for an inlined map are consequences of the element-table invariant. -/
theorem inlined_map_copy_hyps (hT : legalThreshold T = true) (D : DigestFn (r + 1)) (m : OMap r) (ctr : Nat)
    (h : MapInvInl T D m ctr) (hband : m.rootHdr.size ≤ maxThr T) :
    ∃ s, m.singleData = some s ∧ MDataInv T D true s ∧ m.count = m.toList.length ∧ KeysDistinct m.toList ∧
      s.hdr.size = s.prefixSize + s.elems.size ∧ s.root = true ∧ s.inlined = true ∧ s.next = SlabID.undef ∧
      (∀ id ∈ m.slabIds, id.addr = m.addr → id.idx ≤ ctr) := by
  obtain ⟨s, ty, cnt, seed, rfl, h1, h2, h3, h4, h5, h6, h7, h8⟩ := h
  have hl := MapInvInl.loose (T := T) (D := D) (ctr := ctr)
    (⟨s, ty, cnt, seed, rfl, h1, h2, h3, h4, h5, h6, h7, h8⟩ : MapInvInl T D ⟨0, s, ty, cnt, seed⟩ ctr)
  obtain ⟨hloose, _, _, _, _⟩ := hl
  refine ⟨s, rfl, (mdataInv_iff hT true s).mpr ⟨hloose, hband, fun hf => by cases hf⟩, h7, hloose.distinct,
    hloose.size_eq, h1, h2, h3, h8⟩

/-- The copy of an INLINED map that fits the band is a valid standalone map (`MapInv`) with the
    source's pairs, type, count and seed; its size is re-based to the root prefix; its only slab
    identifier is fresh and not an identifier of the source. -/
theorem copy_of_inlined_map (hT : legalThreshold T = true) (D : DigestFn (r + 1)) (m : OMap r) (c : Ctx)
    (h : MapInvInl T D m c.ctr) (hband : m.rootHdr.size ≤ maxThr T)
    (m' : OMap r) (c' : Ctx) (hc : m.copyNonRefSimple m.addr c = .ok (m', c')) :
    MapInv T D m' ∧ m'.toList = m.toList ∧ m'.ty = m.ty ∧ m'.count = m.count ∧ m'.seed = m.seed ∧
      m'.isInlined = false ∧
      (∃ s', m'.singleData = some s' ∧ s'.hdr.size = mapRootDataSlabPrefixSize + s'.elems.size) ∧
      m'.rootID.addr = m.addr ∧ c.ctr < m'.rootID.idx ∧ m'.rootID.idx ≤ c'.ctr ∧ m'.rootID ∉ m.slabIds := by
  obtain ⟨s, hs, hinv, hcnt, hdist, hsz, hroot, _, _, hold⟩ := inlined_map_copy_hyps hT D m c.ctr h hband
  obtain ⟨g1, g2, g3, g4, g5⟩ := copy_content_eq_map m m.addr c m' c' hc
  obtain ⟨s', e1, e2, _⟩ := copy_size_rebased_map m m.addr c m' c' hc s hs hsz hroot
  obtain ⟨f1, f2, f3, f4, _⟩ := result_ids_fresh_map_copy m m.addr c m' c' hc m.slabIds hold
  exact ⟨copy_inv_map T D m m.addr c m' c' hc s hs hinv hcnt hdist, g1, g2, g3, g4, g5, ⟨s', e1, e2⟩, f1, f2, f3, f4⟩

/-! ## Where inlined sources come from, and non-vacuity

`MapDataSlab.Inline` (`OMap.inlineRoot`) applied to a valid single-slab map — e.g. a bulk-built
one — gives a map satisfying `MapInvInl`: the hypotheses of `copy_of_inlined_map` are met by the
inlined form of every valid small map whose inlined size is within the band. -/

theorem inlineRoot_invInl (D : DigestFn (r + 1)) (m : OMap r) (ctr : Nat) (h : MapInvI T D m ctr)
    (hd : m.d = 0) : MapInvInl T D m.inlineRoot ctr := by
  obtain ⟨d, root, ty, cnt, seed⟩ := m
  simp only at hd
  subst hd
  obtain ⟨hinv, hids⟩ := h
  have hdata : MDataInv T D true (root : MDataSlab r) := (mtreeInv_zero_iff T D true root).mp hinv.tree
  have hnext : (root : MDataSlab r).next = SlabID.undef := hinv.chain
  refine ⟨_, ty, cnt, seed, rfl, hdata.root_eq, rfl, hnext, hdata.elems_inv, rfl, hdata.first_eq, hinv.count_eq, ?_⟩
  intro id hid _
  have hid' : id ∈ CtxOk.mapSlabIds 0 (root : MDataSlab r) := by
    rw [mapSlabIds_zero] at hid
    rw [mapSlabIds_zero (root : MDataSlab r)]
    exact hid
  exact (hids.2 id hid').2.2

section NonVacuity
open MapExample

/-- an inlined array as the World invariant describes it: two 10-byte elements, identifier 7.3 -/
def inlArr : Arr :=
  ⟨0, ofData { hdr := { id := ⟨7, 3⟩, size := 37, count := 2 }, next := SlabID.undef,
               elems := [⟨10, .val 1⟩, ⟨10, .val 2⟩], root := true, inlined := true }, 0⟩

theorem inlArr_inv : ArrInvInl 256 inlArr 5 :=
  ⟨_, 0, rfl, rfl, rfl, rfl, rfl, rfl,
    by
      intro e he
      have he' : e ∈ [(⟨10, .val 1⟩ : Elem), ⟨10, .val 2⟩] := he
      simp only [List.mem_cons, List.not_mem_nil, or_false] at he'
      rcases he' with rfl | rfl <;> exact ⟨by decide, by decide⟩,
    by decide, by decide, by decide⟩

/-- the hypotheses of `copy_of_inlined_array` are met, and the copy is offered and succeeds -/
example : ArrInvInl 256 inlArr 5 ∧ inlArr.rootHdr.size ≤ maxThr 256 ∧
    ∃ a' c', inlArr.copyNonRefSimple 7 { ctr := 5, eff := [] } = .ok (a', c') ∧ ArrInv 256 a' c'.ctr ∧
      a'.toList = inlArr.toList ∧ a'.rootHdr.size = 25 := by
  refine ⟨inlArr_inv, by decide, ?_⟩
  obtain ⟨a', c', hc⟩ := (copy_succeeds_when_offered_array inlArr 7 { ctr := 5, eff := [] }).mpr (by decide)
  obtain ⟨h1, h2, _, _, _, h6, _⟩ := copy_of_inlined_array (T := 256) (by decide) inlArr 7 { ctr := 5, eff := [] }
    inlArr_inv (by decide) a' c' hc
  refine ⟨a', c', hc, h1, h2, ?_⟩
  rw [h6, h2]; rfl

/-- a bulk-built three-pair map, inlined by `MapDataSlab.Inline` -/
def smallKvs : List (MKey × Elem) := [(key 100, val 1), (key 200, val 2), (key 300, val 3)]
def smallBuilt : BRes (OMap 1 × Ctx) := OMap.fromBatchData cfg2 0 12345 smallKvs { ctr := 40, eff := [] }

theorem smallBuilt_shape :
    (match smallBuilt with
     | .ok (m, _) => decide (m.d = 0) && decide (m.inlineRoot.rootHdr.size ≤ maxThr 256) &&
         m.inlineRoot.canCopyNonRefSimple
     | .error _ => false) = true := by
  decide

/-- the hypotheses of `copy_of_inlined_map` are met by the inlined form of a bulk-built map -/
example : ∃ (m : OMap 1) (c' : Ctx), smallBuilt = .ok (m, c') ∧ MapInvInl 256 D2 m.inlineRoot c'.ctr ∧
    m.inlineRoot.rootHdr.size ≤ maxThr 256 ∧ m.inlineRoot.canCopyNonRefSimple = true := by
  obtain ⟨m, c', h1, h2, _⟩ := batch_map_invI D2 (T := 256) (by decide) cfg2 rfl rfl 0 12345 (by decide) smallKvs
    (by intro p hp; simp only [smallKvs, List.mem_cons, List.not_mem_nil, or_false] at hp
        rcases hp with rfl | rfl | rfl <;> exact ⟨key_ok _, val_ok _⟩)
    (by decide) (by unfold KeysDistinct; decide) { ctr := 40, eff := [] }
  have hb : smallBuilt = .ok (m, c') := h1
  have hs := smallBuilt_shape
  rw [hb] at hs
  simp only [Bool.and_eq_true, decide_eq_true_eq] at hs
  exact ⟨m, c', hb, inlineRoot_invInl D2 m c'.ctr h2 hs.1.1, hs.1.2, hs.2⟩

end NonVacuity

end Atree.C17
