import AtreeModel.Codec.Encode
/-
  C06 — the size limit of the large-value slab (`StorableSlab`, storable_slab.go).

  `StorableSlab.ByteSize()` is `versionAndFlagSize + storable.ByteSize()`, a `uint32`.
  `NewStorableSlab` refuses a storable larger than `maxStorableSizeInStorableSlab` (settings.go):
  that constant has to be EXACTLY the largest size for which the sum still is a `uint32`, otherwise
  either a slab is created whose reported size wraps around (constant too large) or a storable whose
  slab could report its size truthfully is refused (constant too small).

  `Gen.maxStorableSizeInStorableSlab` and `Gen.versionAndFlagSize` are regenerated from the Go
  sources by harness/cmd/extract on every check run, so these theorems stop compiling when either
  changes inconsistently (sweep s3, mutant T08: `maxStorableSizeInStorableSlab = math.MaxUint32`).
  The comparison operator of `NewStorableSlab` (mutant R01: `>` -> `>=`) is not a constant; it is
  checked against the real code by the directed program of the codec stream
  (harness/cmd/trace/codecstorslab.go: requests at limit-2 .. MaxUint32 through the `storableSize`
  argument, the limit computed by the harness as `MaxUint32 - versionAndFlagSize`).
-/
namespace Atree.C06
open Atree Atree.Codec Atree.Gen

/-- The limit is `MaxUint32` minus the 2-byte head every slab starts with. -/
theorem storable_slab_limit_eq :
    maxStorableSizeInStorableSlab = 2 ^ 32 - 1 - versionAndFlagSize := by decide

/-- A storable size is within the limit exactly when head + size fits a `uint32`: the limit is
    neither too large (wrap-around of the reported size) nor too small (needless refusal). -/
theorem storable_slab_size_fits_iff (n : Nat) :
    n ≤ maxStorableSizeInStorableSlab ↔ versionAndFlagSize + n < 2 ^ 32 := by
  have h := storable_slab_limit_eq
  have hv : versionAndFlagSize = 2 := by decide
  omega

/-- The size a `StorableSlab` within the limit reports as a `uint32` (`% 2^32`) is its size. -/
theorem storable_slab_byteSize_no_wrap (id : SlabID) (e : Elem)
    (h : e.size ≤ maxStorableSizeInStorableSlab) :
    (Slab.storable id e).byteSize % 2 ^ 32 = versionAndFlagSize + e.size := by
  have := (storable_slab_size_fits_iff e.size).mp h
  simp only [Slab.byteSize]
  exact Nat.mod_eq_of_lt this

/-- ... and so for the general form (wrapped values, references). -/
theorem storable_slab_byteSize_no_wrap_G (id : SlabID) (s : Stor)
    (h : s.size ≤ maxStorableSizeInStorableSlab) :
    (Slab.storableG id s).byteSize % 2 ^ 32 = versionAndFlagSize + s.size := by
  have := (storable_slab_size_fits_iff s.size).mp h
  simp only [Slab.byteSize]
  exact Nat.mod_eq_of_lt this

/-- Tightness / non-vacuity: the limit itself fits, one byte more does not. -/
theorem storable_slab_limit_tight :
    versionAndFlagSize + maxStorableSizeInStorableSlab < 2 ^ 32 ∧
    ¬ versionAndFlagSize + (maxStorableSizeInStorableSlab + 1) < 2 ^ 32 := by decide

end Atree.C06
