import AtreeModel.Array.Partial
import AtreeProofs.ArrayInv
import AtreeProofs.Array.Iter
import AtreeProofs.Array.Example
import AtreeProofs.Array.Top
/-
  C01 / C13 — the array model is TOTAL where Go panics or returns an error, OUTSIDE the invariant
  (audit a1/F10).  `AtreeModel/Array/Partial.lean` has `Except`-valued transcriptions of the same Go
  functions with the failure exits written out.  This file proves

  * INSIDE the invariant nothing changes: the `E`-version returns `.ok` of what the old function
    returns (so every existing theorem about the old functions is a theorem about the code paths
    that do not fail, and no existing proof is disturbed);
  * the failure conditions, exactly (`↔` where possible);
  * concrete states outside the invariant where the old model returns a value and Go panics /
    returns an error.
-/
namespace Atree.C01P
open Atree Gen ATree

variable {α : Type}

/-! ## index slabs: `LendToRight`, `BorrowFromRight`, `Merge` -/

/-- the part of `TreeInv` that matters here: the count sums run parallel to the child headers -/
def SumsParallel (m : MetaSlab α) : Prop := m.countSum.length = m.childHdrs.length

theorem prefixSums_length : ∀ (l : List Hdr) (acc : Nat), (MetaSlab.prefixSums l acc).length = l.length
  | [], _ => rfl
  | h :: hs, acc => by simp [MetaSlab.prefixSums, prefixSums_length hs]

theorem sumsParallel_of_treeInv {T d : Nat} {top : Bool} {m : MetaSlab (ATree d)} (h : TreeInv T (d + 1) top m) :
    SumsParallel m := by
  obtain ⟨_, _, h3, _⟩ := h
  unfold SumsParallel
  rw [h3, prefixSums_length]

/-- **LendToRight, inside its precondition.**  When the left slab has at least half of the children
    (and its count sums are not shorter than that), the explicit version does not fail and returns
    what the old model returns. -/
theorem lendToRightE_eq (l r : MetaSlab α)
    (h1 : (l.childHdrs.length + r.childHdrs.length) / 2 ≤ l.childHdrs.length)
    (h2 : (l.childHdrs.length + r.childHdrs.length) / 2 ≤ l.countSum.length) :
    MetaSlab.lendToRightE l r = .ok (MetaSlab.lendToRight l r) := by
  have hidx : ((l.childHdrs.length : Int) - ((l.childHdrs.length : Int) - (((l.childHdrs.length + r.childHdrs.length) / 2 : Nat) : Int))).toNat
      = (l.childHdrs.length + r.childHdrs.length) / 2 := by omega
  have hno : ¬ ((l.childHdrs.length : Int) - ((l.childHdrs.length : Int) - (((l.childHdrs.length + r.childHdrs.length) / 2 : Nat) : Int)) < 0 ∨
      (l.childHdrs.length : Int) < (l.childHdrs.length : Int) - ((l.childHdrs.length : Int) - (((l.childHdrs.length + r.childHdrs.length) / 2 : Nat) : Int))) := by
    omega
  have hno2 : ¬ l.countSum.length < (l.childHdrs.length + r.childHdrs.length) / 2 := by omega
  simp only [MetaSlab.lendToRightE, sliceLendToRightE, hno, if_false, hidx, hno2, bind, Except.bind, pure, Except.pure,
    MetaSlab.lendToRight]

/-- **LendToRight, outside: Go panics.**  Exactly when the left slab has fewer children than half of
    the total (or its count sums are too short) – where the old model silently keeps all children on
    the left and writes a header size for MORE children than there are. -/
theorem lendToRightE_panics_iff (l r : MetaSlab α) :
    MetaSlab.lendToRightE l r = .error .goPanic ↔
      l.childHdrs.length < (l.childHdrs.length + r.childHdrs.length) / 2 ∨
      l.countSum.length < (l.childHdrs.length + r.childHdrs.length) / 2 := by
  constructor
  · intro h
    by_cases h1 : (l.childHdrs.length + r.childHdrs.length) / 2 ≤ l.childHdrs.length
    · by_cases h2 : (l.childHdrs.length + r.childHdrs.length) / 2 ≤ l.countSum.length
      · rw [lendToRightE_eq l r h1 h2] at h; cases h
      · right; omega
    · left; omega
  · intro h
    by_cases h1 : (l.childHdrs.length + r.childHdrs.length) / 2 ≤ l.childHdrs.length
    · have h2 : l.countSum.length < (l.childHdrs.length + r.childHdrs.length) / 2 := by omega
      have hno : ¬ ((l.childHdrs.length : Int) - ((l.childHdrs.length : Int) - (((l.childHdrs.length + r.childHdrs.length) / 2 : Nat) : Int)) < 0 ∨
          (l.childHdrs.length : Int) < (l.childHdrs.length : Int) - ((l.childHdrs.length : Int) - (((l.childHdrs.length + r.childHdrs.length) / 2 : Nat) : Int))) := by
        omega
      simp only [MetaSlab.lendToRightE, sliceLendToRightE, hno, if_false, h2, if_true, bind, Except.bind, throw, throwThe,
        MonadExceptOf.throw]
    · have hyes : ((l.childHdrs.length : Int) - ((l.childHdrs.length : Int) - (((l.childHdrs.length + r.childHdrs.length) / 2 : Nat) : Int)) < 0 ∨
          (l.childHdrs.length : Int) < (l.childHdrs.length : Int) - ((l.childHdrs.length : Int) - (((l.childHdrs.length + r.childHdrs.length) / 2 : Nat) : Int))) := by
        omega
      simp only [MetaSlab.lendToRightE, sliceLendToRightE, hyes, if_true, bind, Except.bind]

/-- **BorrowFromRight, inside its precondition** (the left slab has at most half of the children, the
    right slab's count sums are parallel to its headers). -/
theorem borrowFromRightE_eq (l r : MetaSlab α)
    (h1 : l.childHdrs.length ≤ (l.childHdrs.length + r.childHdrs.length) / 2)
    (h2 : r.childHdrs.length ≤ r.countSum.length) :
    MetaSlab.borrowFromRightE l r = .ok (MetaSlab.borrowFromRight l r) := by
  have hidx : ((((l.childHdrs.length + r.childHdrs.length) / 2 : Nat) : Int) - (l.childHdrs.length : Int)).toNat
      = (l.childHdrs.length + r.childHdrs.length) / 2 - l.childHdrs.length := by omega
  have hno : ¬ ((((l.childHdrs.length + r.childHdrs.length) / 2 : Nat) : Int) - (l.childHdrs.length : Int) < 0 ∨
      (r.childHdrs.length : Int) < (((l.childHdrs.length + r.childHdrs.length) / 2 : Nat) : Int) - (l.childHdrs.length : Int)) := by
    omega
  have hno2 : ¬ r.countSum.length < (r.childHdrs.drop ((l.childHdrs.length + r.childHdrs.length) / 2 - l.childHdrs.length)).length := by
    rw [List.length_drop]; omega
  simp only [MetaSlab.borrowFromRightE, sliceBorrowFromRightE, hno, if_false, hidx, hno2, bind, Except.bind, pure, Except.pure,
    MetaSlab.borrowFromRight]

/-- **BorrowFromRight, outside: Go panics** when the left slab has more children than half of the total
    (negative `moveCount`; the old model moves nothing and writes a header size for FEWER children
    than the left slab has). -/
theorem borrowFromRightE_panics (l r : MetaSlab α)
    (h : (l.childHdrs.length + r.childHdrs.length) / 2 < l.childHdrs.length) :
    MetaSlab.borrowFromRightE l r = .error .goPanic := by
  have hyes : ((((l.childHdrs.length + r.childHdrs.length) / 2 : Nat) : Int) - (l.childHdrs.length : Int) < 0 ∨
      (r.childHdrs.length : Int) < (((l.childHdrs.length + r.childHdrs.length) / 2 : Nat) : Int) - (l.childHdrs.length : Int)) := by
    omega
  simp only [MetaSlab.borrowFromRightE, sliceBorrowFromRightE, hyes, if_true, bind, Except.bind]

/-- **Merge**: fails exactly when the left slab has no count sums; otherwise it is the old model. -/
theorem mergeE_eq (l r : MetaSlab α) (h : l.countSum ≠ []) : MetaSlab.mergeE l r = .ok (MetaSlab.merge l r) := by
  unfold MetaSlab.mergeE MetaSlab.merge
  cases hg : l.countSum.getLast? with
  | none => exact absurd (List.getLast?_eq_none_iff.mp hg) h
  | some b =>
    have : l.countSum.getLastD 0 = b := by
      rw [List.getLastD_eq_getLast?, hg]; rfl
    simp only [this]

theorem mergeE_panics_iff (l r : MetaSlab α) : MetaSlab.mergeE l r = .error .goPanic ↔ l.countSum = [] := by
  constructor
  · intro h
    by_cases hn : l.countSum = []
    · exact hn
    · rw [mergeE_eq l r hn] at h; cases h
  · intro h
    unfold MetaSlab.mergeE
    rw [h]; rfl

/-! ### the preconditions hold where the tree code calls these functions

`MergeOrRebalanceChildSlab` calls `LendToRight(left sibling, child)` only if the sibling
`CanLendToRight(underflowSize)` and the child `IsUnderflow`; `BorrowFromRight(child, right sibling)`
only if the sibling `CanLendToLeft`; `Merge(left, right)` on non-root index slabs.  With the size
bookkeeping of `TreeInv` (`size = 12 + 14 · #children`) that gives the preconditions. -/

/-- the size of an index slab is that of its header list -/
def SizeExact (m : MetaSlab α) : Prop :=
  m.hdr.size = arrayMetaDataSlabPrefixSize + arraySlabHeaderSize * m.childHdrs.length

theorem sizeExact_of_treeInv {T d : Nat} {top : Bool} {m : MetaSlab (ATree d)} (h : TreeInv T (d + 1) top m) :
    SizeExact m := by
  obtain ⟨_, h2, _, _, h5, _⟩ := h
  unfold SizeExact
  rw [h5, h2, List.length_map]

/-- a slab that can lend to an underflowing slab has more children than it -/
theorem more_children_of_canLend {T : Nat} {l r : MetaSlab α} {u : Nat} (hl : SizeExact l) (hr : SizeExact r)
    (hu : MetaSlab.isUnderflow T r = some u) (hc : MetaSlab.canLend T l u = true) :
    r.childHdrs.length < l.childHdrs.length := by
  unfold SizeExact at hl hr
  simp only [MetaSlab.isUnderflow] at hu
  split at hu
  · rename_i hmin
    simp only [MetaSlab.canLend] at hc
    split at hc
    · simp only [decide_eq_true_eq] at hc
      simp only [arraySlabHeaderSize, arrayMetaDataSlabPrefixSize] at *
      omega
    · cases hc
  · cases hu

/-- **in context: LendToRight does not panic** (left sibling can lend, child underflows) -/
theorem lendToRightE_in_context {T : Nat} (l r : MetaSlab α) (u : Nat) (hl : SizeExact l) (hr : SizeExact r)
    (hsl : SumsParallel l) (hu : MetaSlab.isUnderflow T r = some u) (hc : MetaSlab.canLend T l u = true) :
    MetaSlab.lendToRightE l r = .ok (MetaSlab.lendToRight l r) := by
  have := more_children_of_canLend hl hr hu hc
  unfold SumsParallel at hsl
  exact lendToRightE_eq l r (by omega) (by omega)

/-- **in context: BorrowFromRight does not panic** (child underflows, right sibling can lend) -/
theorem borrowFromRightE_in_context {T : Nat} (l r : MetaSlab α) (u : Nat) (hl : SizeExact l) (hr : SizeExact r)
    (hsr : SumsParallel r) (hu : MetaSlab.isUnderflow T l = some u) (hc : MetaSlab.canLend T r u = true) :
    MetaSlab.borrowFromRightE l r = .ok (MetaSlab.borrowFromRight l r) := by
  have := more_children_of_canLend hr hl hu hc
  unfold SumsParallel at hsr
  exact borrowFromRightE_eq l r (by omega) (by omega)

/-- **in context: Merge does not panic** on an index slab with at least one child whose count sums
    are parallel to its headers – in particular on every slab satisfying `TreeInv` that is not an
    empty root. -/
theorem mergeE_in_context (l r : MetaSlab α) (hs : SumsParallel l) (hne : l.childHdrs ≠ []) :
    MetaSlab.mergeE l r = .ok (MetaSlab.merge l r) := by
  refine mergeE_eq l r ?_
  intro h
  unfold SumsParallel at hs
  rw [h] at hs
  exact hne (List.eq_nil_of_length_eq_zero hs.symm)

theorem mergeE_of_treeInv {T d : Nat} (hT : legalThreshold T = true) {l : MetaSlab (ATree d)} (r : MetaSlab (ATree d))
    (h : TreeInv T (d + 1) false l) : MetaSlab.mergeE l r = .ok (MetaSlab.merge l r) := by
  refine mergeE_in_context l r (sumsParallel_of_treeInv h) ?_
  have hsz := sizeExact_of_treeInv h
  obtain ⟨_, _, _, _, _, _, _, _, hmin, _⟩ := h
  have hmin' := hmin rfl
  intro hnil
  unfold SizeExact at hsz
  rw [hnil] at hsz
  have F := thrFacts hT
  have h1 := F.lo
  rw [F.minE] at hmin'
  simp only [arrayMetaDataSlabPrefixSize, List.length_nil, Nat.mul_zero, Nat.add_zero] at hsz
  omega

/-! ### inside the invariant the explicit iterator does not fail -/

theorem data_nonempty {T : Nat} (hT : legalThreshold T = true) {s : DataSlab} (h : DataInv T false s) : s.elems ≠ [] := by
  intro he
  have F := thrFacts hT
  have h1 := h.size_eq
  have h2 := h.ge_min rfl
  have hroot : s.root = false := h.root_eq
  have hinl : s.inlined = false := by
    cases hi : s.inlined with
    | false => rfl
    | true => exact absurd (h.inl_root hi) (by simp)
  rw [he] at h1
  simp only [DataSlab.prefixSize, hinl, hroot, Bool.false_eq_true, if_false, sumSizes_nil, F.pfx] at h1
  rw [F.minE] at h2
  have := F.lo
  omega

theorem children_nonempty {T d : Nat} (hT : legalThreshold T = true) {top : Bool} {m : MetaSlab (ATree d)}
    (h : TreeInv T (d + 1) top m) : m.children ≠ [] := by
  have F := thrFacts hT
  obtain ⟨_, _, _, _, h5, _, _, _, hmin, htop⟩ := h
  intro hnil
  cases top with
  | true => have := htop rfl; rw [hnil] at this; simp at this
  | false =>
    have h2 := hmin rfl
    rw [hnil] at h5
    rw [F.minE] at h2
    simp only [F.mpfx, List.length_nil, Nat.mul_zero, Nat.add_zero] at h5
    have := F.lo
    omega

theorem leaves_nonempty {T : Nat} (hT : legalThreshold T = true) : ∀ (d : Nat) (t : ATree d), TreeInv T d false t →
    ∀ s ∈ Arr.leaves d t, s.elems ≠ []
  | 0, (t : DataSlab), h, s, hs => by
    have : s = t := List.mem_singleton.mp hs
    subst this
    exact data_nonempty hT h
  | d + 1, (m : MetaSlab (ATree d)), h, s, hs => by
    obtain ⟨_, _, _, _, _, h6, _⟩ := h
    obtain ⟨c, hc, hsc⟩ := List.mem_flatMap.mp hs
    exact leaves_nonempty hT d c (h6 c hc) s hsc

theorem first_leaf {T : Nat} (hT : legalThreshold T = true) : ∀ (d : Nat) (top : Bool) (t : ATree d), TreeInv T d top t →
    ∃ f rest, Arr.leaves d t = f :: rest ∧ Arr.firstDataSlabE d t = .ok f
  | 0, _, (t : DataSlab), _ => ⟨t, [], rfl, rfl⟩
  | d + 1, top, (m : MetaSlab (ATree d)), h => by
    have hne := children_nonempty hT h
    obtain ⟨_, _, _, _, _, h6, _⟩ := h
    cases hc : m.children with
    | nil => exact absurd hc hne
    | cons child cs =>
      obtain ⟨f, rest, h1, h2⟩ := first_leaf hT d false child (h6 child (by rw [hc]; simp))
      refine ⟨f, rest ++ cs.flatMap (Arr.leaves d), ?_, ?_⟩
      · show m.children.flatMap (Arr.leaves d) = _
        rw [hc, List.flatMap_cons, h1]; rfl
      · show (match m.children with
          | [] => (Except.error IterErr.goPanic : Except IterErr DataSlab)
          | child :: _ => Arr.firstDataSlabE d child) = _
        rw [hc]; exact h2

theorem length_le_flatMap_elems : ∀ (L : List DataSlab), (∀ s ∈ L, s.elems ≠ []) →
    L.length ≤ (L.flatMap (·.elems)).length
  | [], _ => Nat.le_refl _
  | s :: L, h => by
    have h1 : 1 ≤ s.elems.length := by
      cases he : s.elems with
      | nil => exact absurd he (h s (by simp))
      | cons _ _ => simp
    have h2 := length_le_flatMap_elems L (fun x hx => h x (by simp [hx]))
    simp only [List.flatMap_cons, List.length_append, List.length_cons]
    omega

theorem roIterFromE_spec : ∀ (rest pre : List DataSlab) (cur : DataSlab) (fuel idx remaining : Nat),
    LeafChain (cur :: rest) → ((pre ++ cur :: rest).map (·.hdr.id)).Nodup →
    (∀ s ∈ pre ++ cur :: rest, s.hdr.id ≠ SlabID.undef) → (∀ s ∈ rest, s.elems ≠ []) →
    rest.length + 1 ≤ fuel →
    Arr.roIterFromE (pre ++ cur :: rest) fuel cur idx remaining
      = .ok ((cur.elems.drop idx ++ rest.flatMap (·.elems)).take remaining) := by
  intro rest
  induction rest with
  | nil =>
    intro pre cur fuel idx remaining hchain _ _ _ hfuel
    obtain ⟨f, rfl⟩ : ∃ f, fuel = f + 1 := ⟨fuel - 1, by simp at hfuel; omega⟩
    have hnext : cur.next = SlabID.undef := hchain
    unfold Arr.roIterFromE
    by_cases h0 : remaining = 0
    · simp [h0]
    · simp only [h0, if_false, List.flatMap_nil, List.append_nil]
      by_cases h1 : (cur.elems.drop idx).length ≥ remaining
      · simp only [h1, if_true]
      · simp only [h1, if_false, hnext, if_true]
        rw [List.take_of_length_le (by omega)]
  | cons nxt rest ih =>
    intro pre cur fuel idx remaining hchain hnd hdef hne hfuel
    obtain ⟨f, rfl⟩ : ∃ f, fuel = f + 1 := ⟨fuel - 1, by simp at hfuel; omega⟩
    obtain ⟨hnext, hchain'⟩ : cur.next = nxt.hdr.id ∧ LeafChain (nxt :: rest) := hchain
    have hnu : ¬ nxt.hdr.id = SlabID.undef := hdef nxt (by simp)
    have hnz : ¬ nxt.elems.length = 0 := by
      intro h0
      exact hne nxt (by simp) (List.eq_nil_of_length_eq_zero h0)
    unfold Arr.roIterFromE
    by_cases h0 : remaining = 0
    · simp [h0]
    · simp only [h0, if_false]
      by_cases h1 : (cur.elems.drop idx).length ≥ remaining
      · simp only [h1, if_true]
        rw [List.take_append_of_le_length h1]
      · simp only [h1, if_false, hnext, hnu, find?_next pre rest cur nxt hnd, hnz]
        have hsplit : pre ++ cur :: nxt :: rest = (pre ++ [cur]) ++ nxt :: rest := by simp
        rw [hsplit, ih (pre ++ [cur]) nxt f 0 _ hchain' (by rw [← hsplit]; exact hnd)
          (by rw [← hsplit]; exact hdef) (fun s hs => hne s (by simp [hs])) (by simp at hfuel ⊢; omega)]
        simp only [List.drop_zero, List.flatMap_cons]
        rw [List.take_append (l₁ := cur.elems.drop idx),
          List.take_of_length_le (l := cur.elems.drop idx) (by omega)]

/-- **INSIDE THE INVARIANT THE READ-ONLY ITERATOR DOES NOT FAIL** and yields what the old model yields
    (`toList`): no missing `next` slab, no empty non-root slab, no childless index slab, and the
    fuel `count + 2` is enough. -/
theorem iterReadOnlyE_of_inv (T : Nat) (hT : legalThreshold T = true) (a : Arr) (ctr : Nat) (h : ArrInv T a ctr) :
    a.iterReadOnlyE = .ok a.iterReadOnly ∧ a.iterReadOnlyE = .ok a.toList := by
  have hold : a.iterReadOnly = a.toList := iterReadOnly_eq a ctr h
  rw [hold]
  refine ⟨?_, ?_⟩ <;>
  · obtain ⟨d, t, ty⟩ := a
    have hfl := leaves_flatMap_elems d t
    have hcount : (hdr d t).count = (flatten d t).length := h.shape.count_eq_length
    have hnd : ((Arr.leaves d t).map (·.hdr.id)).Nodup := h.ids.1.sublist (leaves_ids_sublist d t)
    have hdef : ∀ s ∈ Arr.leaves d t, s.hdr.id ≠ SlabID.undef := by
      intro s hs heq
      have hm : s.hdr.id ∈ slabIds d t :=
        (leaves_ids_sublist d t).subset (List.mem_map.2 ⟨s, hs, rfl⟩)
      have := (h.ids.2 _ hm).2.1
      rw [heq] at this
      simp [SlabID.undef] at this
    have hchain : LeafChain (Arr.leaves d t) := h.chain
    have htree : TreeInv T d true t := h.tree
    obtain ⟨first, rest, hl, hfirst⟩ := first_leaf hT d true t htree
    have hrest : ∀ s ∈ rest, s.elems ≠ [] := by
      cases d with
      | zero =>
        have : Arr.leaves 0 t = [t] := rfl
        rw [this] at hl
        have : rest = [] := (List.cons.inj hl).2.symm
        intro s hs; rw [this] at hs; cases hs
      | succ d' =>
        obtain ⟨_, _, _, _, _, h6, _⟩ := htree
        intro s hs
        have hs' : s ∈ Arr.leaves (d' + 1) t := by rw [hl]; simp [hs]
        obtain ⟨c, hc, hsc⟩ := List.mem_flatMap.mp hs'
        exact leaves_nonempty hT d' c (h6 c hc) s hsc
    show (if (hdr d t).count = 0 then (Except.ok [] : Except IterErr (List Elem))
      else match Arr.firstDataSlabE d t with
        | Except.error e => Except.error e
        | Except.ok first => Arr.roIterFromE (Arr.leaves d t) ((hdr d t).count + 2) first 0 (hdr d t).count)
      = Except.ok (flatten d t)
    by_cases h0 : (hdr d t).count = 0
    · rw [if_pos h0]
      have : (flatten d t).length = 0 := by omega
      rw [List.eq_nil_of_length_eq_zero this]
    · rw [if_neg h0, hfirst]
      simp only
      rw [hl] at hnd hdef hchain hfl
      have hlen := length_le_flatMap_elems rest hrest
      have hflen : (flatten d t).length = first.elems.length + (rest.flatMap (·.elems)).length := by
        rw [← hfl]; simp
      have := roIterFromE_spec rest [] first ((hdr d t).count + 2) 0 (hdr d t).count hchain
        (by simpa using hnd) (by simpa using hdef) hrest (by omega)
      simp only [List.nil_append, List.drop_zero] at this
      rw [hl, this, ← List.flatMap_cons (f := fun s : DataSlab => s.elems), hfl, hcount]
      rw [List.take_of_length_le (Nat.le_refl _)]

/-- the error exits, one step of the iterator: the current slab is used up, more elements are
    expected, `next` is defined and no slab has that ID ⇒ `SlabNotFoundError`; the slab with that ID is
    empty ⇒ `SlabDataError` -/
theorem roIterFromE_missing_next (all : List DataSlab) (fuel : Nat) (cur : DataSlab) (idx remaining : Nat)
    (h1 : (cur.elems.drop idx).length < remaining) (h2 : cur.next ≠ SlabID.undef)
    (h3 : all.find? (fun s => s.hdr.id == cur.next) = none) :
    Arr.roIterFromE all (fuel + 1) cur idx remaining = .error .slabNotFound := by
  have h0 : ¬ remaining = 0 := by omega
  have h1' : ¬ (cur.elems.drop idx).length ≥ remaining := by omega
  unfold Arr.roIterFromE
  simp only [h0, if_false, h1', h2, h3]

theorem roIterFromE_empty_next (all : List DataSlab) (fuel : Nat) (cur nxt : DataSlab) (idx remaining : Nat)
    (h1 : (cur.elems.drop idx).length < remaining) (h2 : cur.next ≠ SlabID.undef)
    (h3 : all.find? (fun s => s.hdr.id == cur.next) = some nxt) (h4 : nxt.elems = []) :
    Arr.roIterFromE all (fuel + 1) cur idx remaining = .error .slabData := by
  have h0 : ¬ remaining = 0 := by omega
  have h1' : ¬ (cur.elems.drop idx).length ≥ remaining := by omega
  unfold Arr.roIterFromE
  simp only [h0, if_false, h1', h2, h3, h4, List.length_nil, if_true]

/-! ### concrete states outside the invariant: the old model is total, Go panics -/
section MetaExamples

def h (i n : Nat) : Hdr := ⟨⟨1, i⟩, 221, n⟩
/-- an index slab with ONE child -/
def small : MetaSlab Unit := ⟨⟨⟨1, 10⟩, 26, 2⟩, [h 11 2], [2], [()], false⟩
/-- an index slab with THREE children -/
def big : MetaSlab Unit := ⟨⟨⟨1, 20⟩, 54, 6⟩, [h 21 2, h 22 2, h 23 2], [2, 4, 6], [(), (), ()], false⟩
/-- an index slab without children and count sums (only an emptied root can look like this) -/
def empty : MetaSlab Unit := ⟨⟨⟨1, 30⟩, 12, 0⟩, [], [], [], false⟩

/-- `small.LendToRight(big)`: Go computes `moveCount = 1 - 2 = -1` and panics in `lendToRight` … -/
example : MetaSlab.lendToRightE small big = .error .goPanic :=
  (lendToRightE_panics_iff small big).mpr (Or.inl (by decide))
/-- … the old model keeps the one child on the left and writes a header size for TWO children -/
example : (MetaSlab.lendToRight small big).1.childHdrs.length = 1 ∧
    (MetaSlab.lendToRight small big).1.hdr.size = arrayMetaDataSlabPrefixSize + 2 * arraySlabHeaderSize := by decide

/-- `big.BorrowFromRight(small)`: `moveCount = 2 - 3 = -1`, Go panics at `right[:count]` … -/
example : MetaSlab.borrowFromRightE big small = .error .goPanic := borrowFromRightE_panics big small (by decide)
/-- … the old model moves nothing and writes a header size for TWO children on a slab that has three -/
example : (MetaSlab.borrowFromRight big small).1.childHdrs.length = 3 ∧
    (MetaSlab.borrowFromRight big small).1.hdr.size = arrayMetaDataSlabPrefixSize + 2 * arraySlabHeaderSize := by decide

/-- `empty.Merge(big)`: `a.childrenCountSum[len-1]` is index −1, Go panics … -/
example : MetaSlab.mergeE empty big = .error .goPanic := (mergeE_panics_iff empty big).mpr rfl
/-- … the old model takes 0 as the base -/
example : (MetaSlab.merge empty big).countSum = [2, 4, 6] := by decide

/-- and the good direction: `big.LendToRight(small)` and `small.BorrowFromRight(big)` are the model's -/
example : MetaSlab.lendToRightE big small = .ok (MetaSlab.lendToRight big small) :=
  lendToRightE_eq big small (by decide) (by decide)
example : MetaSlab.borrowFromRightE small big = .ok (MetaSlab.borrowFromRight small big) :=
  borrowFromRightE_eq small big (by decide) (by decide)
example : MetaSlab.mergeE small big = .ok (MetaSlab.merge small big) := mergeE_eq small big (by decide)

end MetaExamples

/-! ## the read-only iterator -/
section IterExamples
open Atree.Example

/-- on the two-level example array (`ArrInv` holds: `Example.arr4_inv`) nothing fails and the result is
    the old model's, which is `toList` -/
example : arr4.iterReadOnlyE = .ok arr4.iterReadOnly := by rfl
example : arr4.iterReadOnlyE = .ok arr4.toList := by rfl

/-- the left leaf points to a slab that does not exist (`next = 1.9`) -/
def leftBadNext : DataSlab := { Example.left with next := ⟨1, 9⟩ }
def arrBadNext : Arr := ⟨1, ofMeta { rootSlab with children := [ofData leftBadNext, ofData Example.right] }, 0⟩
/-- Go: `SlabNotFoundError` after the first two elements; the old model: those two elements, no error -/
example : arrBadNext.iterReadOnlyE = .error .slabNotFound := by rfl
example : arrBadNext.iterReadOnly = [elem 0, elem 1] := by rfl

/-- the right leaf is empty (the index slab still counts four elements) -/
def rightEmpty : DataSlab := { Example.right with elems := [] }
def arrEmptyLeaf : Arr := ⟨1, ofMeta { rootSlab with children := [ofData Example.left, ofData rightEmpty] }, 0⟩
/-- Go: `SlabDataError("data slab contains 0 elements, expect more")`; the old model: the prefix -/
example : arrEmptyLeaf.iterReadOnlyE = .error .slabData := by rfl
example : arrEmptyLeaf.iterReadOnly = [elem 0, elem 1] := by rfl

/-- a root index slab that claims four elements and has no children -/
def arrNoChildren : Arr := ⟨1, ofMeta { rootSlab with children := [], childHdrs := [], countSum := [] }, 0⟩
/-- Go: `slab.childrenHeaders[0]` panics in `firstArrayDataSlab`; the old model: the empty list -/
example : arrNoChildren.iterReadOnlyE = .error .goPanic := by rfl
example : arrNoChildren.iterReadOnly = [] := by rfl

/-- a CYCLE: the right leaf points back to the left one, the root claims ten elements.  Go follows the
    links until `remainingCount` is used up (ten elements, no error); the old model's fuel (number
    of leaves + 1) stops after three visits. -/
def rightCycle : DataSlab := { Example.right with next := ⟨1, 2⟩ }
def arrCycle : Arr :=
  ⟨1, ofMeta { rootSlab with hdr := { rootSlab.hdr with count := 10 },
                             children := [ofData Example.left, ofData rightCycle] }, 0⟩
example : arrCycle.iterReadOnlyE =
    .ok [elem 0, elem 1, elem 2, elem 3, elem 0, elem 1, elem 2, elem 3, elem 0, elem 1] := by rfl
example : arrCycle.iterReadOnly = [elem 0, elem 1, elem 2, elem 3, elem 0, elem 1] := by decide

/-- the count is larger than what the chain holds and the chain ENDS (`next` undefined): Go's `Next`
    returns `nil, nil` – the iteration ends early WITHOUT an error; both models agree -/
def arrShort : Arr := ⟨1, ofMeta { rootSlab with hdr := { rootSlab.hdr with count := 9 } }, 0⟩
example : arrShort.iterReadOnlyE = .ok [elem 0, elem 1, elem 2, elem 3] := by rfl
example : arrShort.iterReadOnly = [elem 0, elem 1, elem 2, elem 3] := by rfl

end IterExamples

end Atree.C01P
