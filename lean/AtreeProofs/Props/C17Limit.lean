import AtreeProofs.Props.C17
import AtreeProofs.Props.C12
import AtreeProofs.Map.Example
/-
  C17 / C12 — bulk map build and the collision limit (audit a1, F4a).

  `NewMapFromBatchData` does not consult `maxCollisionLimitPerDigest`: a colliding pair goes
  through `prevElem.Set` (map.go:229-256), the limit lives in `hkeyElements.Set`
  (map_elements_hashkey.go:292-327).  `MapInv` has no limit clause — the limit is a setting of
  the single operations, not part of the structure — so `batch_map_inv` is true as stated.
  What holds about the limit:

  * `batch_map_may_exceed_limit` — a caller-made stream with more keys per first-level digest than
    the limit admits is accepted and yields a structurally valid map, although single operations
    under the same limit refuse the second key (model example; the harness counts the same fact
    on the implementation as `observation:batch-build-ignores-collision-limit`);
  * `batch_map_within_limit` / `batch_map_within_limit_of_source` — the result has exactly the
    keys of the stream, so if every first-level digest group of the stream holds at most
    `climit + 1` keys — in particular if the stream is the enumeration of a map that single
    operations built under `climit` — so does the result.
-/
namespace Atree.C17
open Atree Gen

/-- number of pairs of the sequence whose key has first-level digest `h` -/
def groupSize (kvs : List (MKey × Elem)) (h : Nat) : Nat :=
  (kvs.filter (fun p => p.1.dig 0 == h)).length

/-- Every first-level digest group of the pair sequence holds at most `climit + 1` entries: what
    single operations under collision limit `climit` maintain (`hkeyElements.Set` refuses a new
    key when the group already holds `climit + 1`, C12.limit_refuses_new_key). -/
def SeqWithinLimit (climit : Nat) (kvs : List (MKey × Elem)) : Prop :=
  ∀ h, groupSize kvs h ≤ climit + 1

theorem groupSize_zipWith (f : MKey × Elem → Ctx → MKey × Elem) (hf : ∀ p c, (f p c).1 = p.1) (h : Nat) :
    ∀ (kvs : List (MKey × Elem)) (cs : List Ctx), cs.length = kvs.length →
      groupSize (List.zipWith f kvs cs) h = groupSize kvs h
  | [], _, _ => by simp [groupSize]
  | p :: kvs, [], hl => by simp at hl
  | p :: kvs, c :: cs, hl => by
    have ih := groupSize_zipWith f hf h kvs cs (by simpa using hl)
    unfold groupSize at ih ⊢
    simp only [List.zipWith_cons_cons, List.filter_cons, hf]
    split <;> simp [ih]

theorem zipWith_keys (f : MKey × Elem → Ctx → MKey × Elem) (hf : ∀ p c, (f p c).1 = p.1) :
    ∀ (kvs : List (MKey × Elem)) (cs : List Ctx), cs.length = kvs.length →
      (List.zipWith f kvs cs).map Prod.fst = kvs.map Prod.fst
  | [], _, _ => by simp
  | p :: kvs, [], hl => by simp at hl
  | p :: kvs, c :: cs, hl => by
    simp only [List.zipWith_cons_cons, List.map_cons, hf, List.cons.injEq, true_and]
    exact zipWith_keys f hf kvs cs (by simpa using hl)

theorem groupSize_perm {a b : List (MKey × Elem)} (hp : a.Perm b) (h : Nat) : groupSize a h = groupSize b h :=
  (hp.filter _).length_eq

theorem groupSize_of_keys {a b : List (MKey × Elem)} (hk : a.map Prod.fst = b.map Prod.fst) (h : Nat) :
    groupSize a h = groupSize b h := by
  induction a generalizing b with
  | nil => cases b with
    | nil => rfl
    | cons _ _ => simp at hk
  | cons x a ih =>
    cases b with
    | nil => simp at hk
    | cons y b =>
      simp only [List.map_cons, List.cons.injEq] at hk
      have := ih hk.2
      unfold groupSize at this ⊢
      simp only [List.filter_cons, hk.1]
      split <;> simp [this]

/-- The bulk build of a stream that is sorted, duplicate-free and within the limit succeeds with
    a valid map that is within the limit (whatever limit the configuration carries: the build
    never looks at it). -/
theorem batch_map_within_limit {T r : Nat} (D : DigestFn (r + 1)) (hT : legalThreshold T = true)
    (cfg : MCfg) (hcT : cfg.T = T) (hcL : cfg.L = r + 1) (ty seed : Nat) (hseed : seed ≠ 0)
    (kvs : List (MKey × Elem)) (hkv : ∀ p ∈ kvs, KeyOk T (r + 1) D p.1 ∧ ValueOkM p.2)
    (hs : (kvs.map (fun p => p.1.dig 0)).Pairwise (· ≤ ·)) (hd : KeysDistinct kvs) (c : Ctx)
    (hlim : SeqWithinLimit cfg.climit kvs) :
    ∃ (m : OMap r) (c' : Ctx), OMap.fromBatchData cfg ty seed kvs c = .ok (m, c') ∧ MapInv T D m ∧
      (m.toList.map Prod.fst).Perm (kvs.map Prod.fst) ∧ SeqWithinLimit cfg.climit m.toList := by
  obtain ⟨m, c', h1, h2, _, _, _, cs, hcs, hperm⟩ := batch_map_inv D hT cfg hcT hcL ty seed hseed kvs hkv hs hd c
  refine ⟨m, c', h1, h2, ?_, ?_⟩
  · refine (hperm.map Prod.fst).trans (List.Perm.of_eq ?_)
    exact zipWith_keys (fun p c => (p.1, storedValue cfg p.1 p.2 c)) (fun _ _ => rfl) kvs cs hcs
  · intro h
    rw [groupSize_perm hperm h,
      groupSize_zipWith (fun p c => (p.1, storedValue cfg p.1 p.2 c)) (fun _ _ => rfl) h kvs cs hcs]
    exact hlim h

/-- C17 + C12: a bulk copy of a LEGAL source never exceeds the limit.  `src` is a valid map whose
    first-level groups are within the limit (what single operations under `cfg.climit` build); the
    stream has the keys of `src` in its iteration order (the values are whatever the caller reads
    back: plain values of any size).  Then the build succeeds, the result is valid, has the keys
    of the source and is within the limit. -/
theorem batch_map_within_limit_of_source {T r : Nat} (D : DigestFn (r + 1)) (hT : legalThreshold T = true)
    (cfg : MCfg) (hcT : cfg.T = T) (hcL : cfg.L = r + 1) (ty seed : Nat) (hseed : seed ≠ 0)
    (src : OMap r) (hsrc : MapInv T D src) (hlim : SeqWithinLimit cfg.climit src.toList)
    (kvs : List (MKey × Elem)) (hkeys : kvs.map Prod.fst = src.toList.map Prod.fst)
    (hval : ∀ p ∈ kvs, ValueOkM p.2) (c : Ctx) :
    ∃ (m : OMap r) (c' : Ctx), OMap.fromBatchData cfg ty seed kvs c = .ok (m, c') ∧ MapInv T D m ∧
      (m.toList.map Prod.fst).Perm (src.toList.map Prod.fst) ∧ SeqWithinLimit cfg.climit m.toList := by
  have hkv : ∀ p ∈ kvs, KeyOk T (r + 1) D p.1 ∧ ValueOkM p.2 := by
    intro p hp
    refine ⟨?_, hval p hp⟩
    have : p.1 ∈ src.toList.map Prod.fst := by rw [← hkeys]; exact List.mem_map.2 ⟨p, hp, rfl⟩
    obtain ⟨q, hq, hqe⟩ := List.mem_map.1 this
    rw [← hqe]; exact hsrc.allKeyOk q hq
  have hs : (kvs.map (fun p => p.1.dig 0)).Pairwise (· ≤ ·) := by
    have h0 := C12.order_canonical T D src hsrc
    have e1 : kvs.map (fun p => p.1.dig 0) = (kvs.map Prod.fst).map (fun k => k.dig 0) := by simp
    have e2 : src.toList.map (fun p => p.1.digs) = (src.toList.map Prod.fst).map (fun k => k.digs) := by simp
    rw [e1, hkeys, List.pairwise_map]
    rw [e2, List.pairwise_map] at h0
    refine h0.imp ?_
    intro a b hab
    rcases hab with hab | hab
    · simp [MKey.dig, hab]
    · unfold MKey.dig
      generalize a.digs = x at hab ⊢
      generalize b.digs = y at hab ⊢
      cases hab with
      | nil => simp
      | rel hlt => simp; omega
      | cons _ => simp
  have hd : KeysDistinct kvs := by
    have h0 := hsrc.distinct
    unfold KeysDistinct at h0 ⊢
    have e : ∀ l : List (MKey × Elem), l.Pairwise (fun a b => a.1.same b.1 = false) ↔
        (l.map Prod.fst).Pairwise (fun a b => a.same b = false) := by
      intro l; rw [List.pairwise_map]
    rw [e, hkeys, ← e]; exact h0
  have hl : SeqWithinLimit cfg.climit kvs := fun h => by rw [groupSize_of_keys hkeys h]; exact hlim h
  obtain ⟨m, c', h1, h2, h3, h4⟩ := batch_map_within_limit D hT cfg hcT hcL ty seed hseed kvs hkv hs hd c hl
  exact ⟨m, c', h1, h2, hkeys ▸ h3, h4⟩

/-! ### The exception: a caller-made stream exceeding the limit is accepted

Collision limit 0 (no two keys may share a first-level digest), digests `D2` of
`AtreeProofs/Map/Example.lean` (hundreds and tens digit of the payload): the keys 311, 321, 331
share the first-level digest 3 and have the second-level digests 1, 2, 3. -/
section Exceed
open MapExample

def cfgL0 : MCfg := { T := 256, L := 2, climit := 0, addr := 7 }
def kvs3 : List (MKey × Elem) := [(key 311, val 1), (key 321, val 2), (key 331, val 3)]
def built3 : BRes (OMap 1 × Ctx) := OMap.fromBatchData cfgL0 0 12345 kvs3 { ctr := 0, eff := [] }

/-- the stream is NOT within limit 0: three keys under first-level digest 3 -/
theorem kvs3_exceeds : ¬ SeqWithinLimit cfgL0.climit kvs3 := by
  intro h; have := h 3; revert this; decide

/-- … the bulk build at limit 0 accepts it: a map of three keys under one first-level digest,
    valid (`MapInv`, by `batch_map_inv`) … -/
theorem batch_map_may_exceed_limit :
    ∃ (m : OMap 1) (c' : Ctx), built3 = .ok (m, c') ∧ MapInv 256 D2 m ∧ m.count = 3 ∧
      C12.firstLevelGroupCount m (key 341) = 3 ∧ ¬ SeqWithinLimit cfgL0.climit m.toList := by
  obtain ⟨m, c', h1, h2, _, _, h5, _⟩ := batch_map_inv D2 (T := 256) (by decide) cfgL0 rfl rfl 0 12345 (by decide) kvs3
    (by intro p hp; simp only [kvs3, List.mem_cons, List.not_mem_nil, or_false] at hp
        rcases hp with rfl | rfl | rfl <;> exact ⟨key_ok _, val_ok _⟩)
    (by decide) (by unfold KeysDistinct; decide) { ctr := 0, eff := [] }
  refine ⟨m, c', h1, h2, h5, ?_, ?_⟩
  · have : built3 = .ok (m, c') := h1
    have hm : (match built3 with | .ok (m, _) => C12.firstLevelGroupCount m (key 341) | .error _ => 0) = 3 := by decide
    rw [this] at hm; exact hm
  · have : built3 = .ok (m, c') := h1
    have hm : (match built3 with | .ok (m, _) => groupSize m.toList 3 | .error _ => 0) = 3 := by decide
    rw [this] at hm
    simp only at hm
    intro h
    have h3 : groupSize m.toList 3 ≤ 0 + 1 := h 3
    omega

/-- single operations at limit 0 on the empty map: `Set(311)`, then `Set(321)` -/
def firstSet : Except MErr (Option Elem × OMap 1 × Ctx) :=
  let s0 : OMap 1 × Ctx := OMap.new (r := 1) cfgL0.addr 0 (fun id => id.idx) { ctr := 0, eff := [] }
  s0.1.set cfgL0 (key 311) (val 1) s0.2
def secondSet : Except MErr (Option Elem × OMap 1 × Ctx) :=
  match firstSet with
  | .ok (_, m1, c1) => m1.set cfgL0 (key 321) (val 2) c1
  | .error e => .error e

/-- … whereas single operations at limit 0 accept the first of these keys and refuse already
    the second with the collision-limit error. -/
theorem single_ops_refuse_second_key :
    (match firstSet with | .ok (none, _, _) => true | _ => false) = true ∧
    (match secondSet with | .error .collisionLimit => true | _ => false) = true := by
  decide

end Exceed

end Atree.C17
