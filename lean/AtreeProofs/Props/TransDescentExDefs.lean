import AtreeProofs.Trans.Descent
import AtreeProofs.Props.TransSlabsData
/-
  Concrete arrays for the instances of the DESCENT theorems (WP12): slab size 256 (min 128, max 384, elements up to 117
  bytes inline).  DEFINITIONS only (the evaluations are in Props/TransDescentEx.lean; the instances of the general
  theorems in Props/TransDescentTop*.lean).
-/
namespace Atree.TransEq
open Atree Atree.Gen

/-- a leaf `(1,id)` of elements with the given sizes (payloads `base, base+1, ..`) -/
def exLeaf (id next base : Nat) (sizes : List Nat) : DataSlab :=
  { hdr := ⟨⟨1, id⟩, 21 + sizes.sum, sizes.length⟩, next := ⟨1, next⟩,
    elems := sizes.mapIdx (fun i sz => ⟨sz, .val (base + i)⟩), root := false, inlined := false }

/-- a root index slab `(1,1)` over the given leaves -/
def exRoot (kids : List DataSlab) : MetaSlab (ATree 0) :=
  { hdr := ⟨⟨1, 1⟩, 12 + 14 * kids.length, MetaSlab.sumCounts (kids.map (·.hdr))⟩,
    childHdrs := kids.map (·.hdr), countSum := MetaSlab.prefixSums (kids.map (·.hdr)) 0, children := kids, root := true }

/-- three leaves: 4 x 60 bytes, 2 x 60, 2 x 60 -/
def exA : Arr := ⟨1, exRoot [exLeaf 2 3 0 [60, 60, 60, 60], exLeaf 3 4 10 [60, 60], exLeaf 4 0 20 [60, 60]], 7⟩
/-- two leaves: 100 + 100 + 100 + 60 (381 bytes: one step from full) and 2 x 60 -/
def exB : Arr := ⟨1, exRoot [exLeaf 2 3 0 [100, 100, 100, 60], exLeaf 3 0 10 [60, 60]], 7⟩
/-- two small leaves: 100 + 60 and 2 x 60 (a smaller first element makes the first one underflow; the sibling cannot lend) -/
def exC : Arr := ⟨1, exRoot [exLeaf 2 3 0 [100, 60], exLeaf 3 0 10 [60, 60]], 7⟩
/-- a root data slab of 100 + 100 + 100 + 60 bytes (365 with the root prefix 5) -/
def exD : Arr :=
  ⟨0, ({ hdr := ⟨⟨1, 1⟩, 5 + 360, 4⟩, next := SlabID.undef,
         elems := [⟨100, .val 0⟩, ⟨100, .val 1⟩, ⟨100, .val 2⟩, ⟨60, .val 3⟩], root := true, inlined := false } : DataSlab), 7⟩

/-- the storage that holds exactly the array, allocation counter 5 -/
def exSt (a : Arr) : HSt := ⟨heapOf a.d a.root, ⟨5, [], []⟩⟩

/-- the identifiers in play -/
def exIds : List SlabID := [⟨1, 1⟩, ⟨1, 2⟩, ⟨1, 3⟩, ⟨1, 4⟩, ⟨1, 5⟩, ⟨1, 6⟩, ⟨1, 7⟩, ⟨1, 8⟩]

/-- what is observed of a generated result: Go results, root of the handle, `Ctx`, the heap at `exIds` -/
def obs3 {α : Type} (r : Option (α × Option AErr × HArray)) :=
  r.map (fun r => (r.1, r.2.1, r.2.2.root, r.2.2.Storage.ctx, exIds.map r.2.2.Storage.heap))
def obs2 (r : Option (Option AErr × HArray)) :=
  r.map (fun r => (r.1, r.2.root, r.2.Storage.ctx, exIds.map r.2.Storage.heap))

/-- what the model says: the result, `trTree` of the new root, the model's `Ctx`, `heapOf` of the new tree -/
def exp3 (m : Except AErr (Elem × Arr × Ctx)) :=
  match m with
  | .ok (e, a, c) => some (some e, (none : Option AErr), some (trTree a.d a.root), c, exIds.map (heapOf a.d a.root))
  | .error _ => none
def exp2 (m : Except AErr (Arr × Ctx)) :=
  match m with
  | .ok (a, c) => some ((none : Option AErr), some (trTree a.d a.root), c, exIds.map (heapOf a.d a.root))
  | .error _ => none

end Atree.TransEq
