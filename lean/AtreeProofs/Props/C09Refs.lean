import AtreeProofs.ArrayRefs
import AtreeProofs.Array.Refs
import AtreeProofs.E2E.Created
import AtreeProofs.Props.C01
import AtreeProofs.Props.C05
import AtreeProofs.Props.C09
/-
  C09 / C01 / C05 — references to large-value slabs (audit a1, finding F2, array half).

  `ArrInv` constrains the slab IDs of the TREE only; an element `⟨19, .ref id⟩` (what `toStorable`
  leaves behind for a value too large to inline) was constrained by nothing, so the per-step
  theorems `C01.insert_refines`, `C05.inv_insert`, `C09.insert_effects_complete` admitted a state in
  which the next allocated ID is already referenced by an element (RefClash: two elements end up
  owning one slab).  `ARefsOk` (AtreeProofs/ArrayRefs.lean) closes the gap:

  PROPERTY THEOREMS
  * `refs_new / refs_insert / refs_append / refs_set / refs_remove / refs_popIterate / refs_setType`:
    every operation preserves `ARefsOk` relative to the new allocation counter;
  * `refs_set`, `refs_remove`: a reference handed back to the caller (overwritten / removed element)
    is no longer referenced by the array and is not a slab of the new tree: ownership passes to the
    caller exactly once;  `refs_popIterate`: every element is handed back, their references are
    pairwise different, are exactly the old references, and none is the remaining root slab;
  * `allocated_ids_fresh_refs(_set)`: IDs allocated by an insert / set are fresh against the tree AND
    against the references;
  * `created_fresh(_set)`: the large-value slab created by an insert / set is not a slab of the new
    tree, not a slab of the old tree, was not referenced before and is referenced afterwards.
-/
namespace Atree.C09R
open Atree Gen ATree

theorem addr_of_rootID {a a' : Arr} (h : a'.rootID = a.rootID) : a'.addr = a.addr := by
  unfold Arr.addr; rw [h]

theorem ids_le {T : Nat} {a : Arr} {ctr : Nat} (h : ArrInv T a ctr) :
    ∀ id ∈ slabIds a.d a.root, id.idx ≤ ctr := fun id hid => (h.ids.2 id hid).2.2

/-- the two outcomes of `toStorable`, as the `news` hypothesis of `refs_step` -/
theorem news_of_toStorable (T addr : Nat) (v : Elem) (c : Ctx) (hv : ValueOk v) :
    refIdsOf [(toStorable T addr v c).1] = [] ∨
    (refIdsOf [(toStorable T addr v c).1] = [⟨addr, (toStorable T addr v c).2.ctr⟩] ∧
      c.ctr < (toStorable T addr v c).2.ctr) := by
  rcases toStorable_cases T addr v c hv with ⟨_, h2, _, _⟩ | ⟨_, h2, h3, _⟩
  · exact Or.inl h2
  · right; rw [h2, h3]; exact ⟨rfl, by omega⟩

/-- an array without references -/
theorem refsOk_of_nil {a : Arr} {ctr : Nat} (h : a.refIds = []) : ARefsOk a ctr := by
  refine ⟨?_, ?_, ?_⟩
  · rw [h]; exact List.nodup_nil
  · rw [h]; intro _ hx; cases hx
  · rw [h]; intro _ hx; cases hx

/-- `NewArray`: no references. -/
theorem refs_new (addr ty : Nat) (c : Ctx) : ARefsOk (Arr.new addr ty c).1 (Arr.new addr ty c).2.ctr :=
  refsOk_of_nil rfl

/-- `Insert` preserves `ARefsOk`; the new references are the old ones plus the reference (if any)
    that stands for the inserted value. -/
theorem refs_insert (T : Nat) (hT : legalThreshold T = true) (a : Arr) (c : Ctx) (i : Nat) (v : Elem)
    (hv : ValueOk v) (h : ArrInv T a c.ctr) (hR : ARefsOk a c.ctr) (a' : Arr) (c' : Ctx)
    (hr : a.insert T i v c = .ok (a', c')) :
    ARefsOk a' c'.ctr ∧ a'.refIds.Perm (refIdsOf [C01.storedForm T a v c] ++ a.refIds) := by
  have hne : a.count ≠ maxArrayElementCount := by
    intro heq
    unfold Arr.insert at hr
    rw [if_pos heq] at hr
    cases hr
  have hlt : a.count < maxArrayElementCount := by have := h.count_lt; omega
  obtain ⟨hk', hnew⟩ := arr_insert_ids_above hT a c i v hv h a' c' hr
  rcases Nat.lt_or_ge a.toList.length i with hi | hi
  · rw [arr_insert_err a c i v h hne hi] at hr; cases hr
  · obtain ⟨a2, c2, heq, _, hl, hid, _⟩ := arr_insert_ok hT a c i v hv h hlt hi
    rw [heq] at hr
    cases hr
    have hperm' : a'.refIds.Perm (refIdsOf [(toStorable T a.addr v c).1] ++ refIdsOf a.toList) := by
      unfold Arr.refIds
      rw [hl, ← refIdsOf_cons]
      exact refIdsOf_perm (List.perm_insertIdx _ _ hi)
    exact ⟨(refs_step (olds := []) hR (ids_le h) (List.Perm.refl _) hperm'
      (news_of_toStorable T a.addr v c hv) (toStorable_ctr_le T a.addr v c) hk'
      (addr_of_rootID hid) hnew).1, hperm'⟩

/-- `Append` preserves `ARefsOk`. -/
theorem refs_append (T : Nat) (hT : legalThreshold T = true) (a : Arr) (c : Ctx) (v : Elem)
    (hv : ValueOk v) (h : ArrInv T a c.ctr) (hR : ARefsOk a c.ctr) (a' : Arr) (c' : Ctx)
    (hr : a.append T v c = .ok (a', c')) :
    ARefsOk a' c'.ctr ∧ a'.refIds.Perm (refIdsOf [C01.storedForm T a v c] ++ a.refIds) :=
  refs_insert T hT a c a.count v hv h hR a' c' hr

/-- `Set` preserves `ARefsOk`; a reference handed back (the overwritten element) was owned by the
    array, is owned by it no longer, and is not a slab of the new tree. -/
theorem refs_set (T : Nat) (hT : legalThreshold T = true) (a : Arr) (c : Ctx) (i : Nat) (v : Elem)
    (hv : ValueOk v) (h : ArrInv T a c.ctr) (hR : ARefsOk a c.ctr) (old : Elem) (a' : Arr) (c' : Ctx)
    (hr : a.set T i v c = .ok (old, a', c')) :
    ARefsOk a' c'.ctr ∧
    ∀ id, old.pay = .ref id → id ∈ a.refIds ∧ id ∉ a'.refIds ∧ id ∉ slabIds a'.d a'.root := by
  obtain ⟨hk', hnew⟩ := arr_set_ids_above hT a c i v hv h old a' c' hr
  rcases Nat.lt_or_ge i a.toList.length with hi | hi
  · obtain ⟨a2, c2, heq, _, hl, hid, _⟩ := arr_set_ok hT a c i v hv h hi
    rw [heq] at hr
    cases hr
    have hperm : a.refIds.Perm (refIdsOf [a.toList.getD i default] ++ refIdsOf (a.toList.eraseIdx i)) := by
      unfold Arr.refIds
      rw [← refIdsOf_cons]
      exact refIdsOf_perm (perm_old_eraseIdx _ _ hi)
    have hperm' : a'.refIds.Perm
        (refIdsOf [(toStorable T a.addr v c).1] ++ refIdsOf (a.toList.eraseIdx i)) := by
      unfold Arr.refIds
      rw [hl, ← refIdsOf_cons]
      exact refIdsOf_perm (perm_set_eraseIdx _ _ _ hi)
    obtain ⟨g1, g2⟩ := refs_step hR (ids_le h) hperm hperm'
      (news_of_toStorable T a.addr v c hv) (toStorable_ctr_le T a.addr v c) hk'
      (addr_of_rootID hid) hnew
    refine ⟨g1, fun id hp => g2 id ?_⟩
    exact mem_refIdsOf.2 ⟨_, by simp, hp⟩
  · rw [arr_set_err a c i v h hi] at hr; cases hr

/-- `Remove` preserves `ARefsOk`; a reference handed back (the removed element) was owned by the
    array, is owned by it no longer, and is not a slab of the new tree. -/
theorem refs_remove (T : Nat) (hT : legalThreshold T = true) (a : Arr) (c : Ctx) (i : Nat)
    (h : ArrInv T a c.ctr) (hR : ARefsOk a c.ctr) (old : Elem) (a' : Arr) (c' : Ctx)
    (hr : a.remove T i c = .ok (old, a', c')) :
    ARefsOk a' c'.ctr ∧
    ∀ id, old.pay = .ref id → id ∈ a.refIds ∧ id ∉ a'.refIds ∧ id ∉ slabIds a'.d a'.root := by
  obtain ⟨E, C, hlog, hacct⟩ := arr_remove_acct hT a c i h old a' c' hr
  have hnew : ∀ id ∈ slabIds a'.d a'.root, id ∈ slabIds a.d a.root ∨ c.ctr < id.idx := by
    intro id hid
    have := hacct.keys_new id (by rw [keys_slabs]; exact hid)
    rwa [keys_slabs] at this
  rcases Nat.lt_or_ge i a.toList.length with hi | hi
  · obtain ⟨a2, c2, heq, _, hl, hid, _⟩ := arr_remove_ok hT a c i h hi
    rw [heq] at hr
    cases hr
    have hperm : a.refIds.Perm (refIdsOf [a.toList.getD i default] ++ refIdsOf (a.toList.eraseIdx i)) := by
      unfold Arr.refIds
      rw [← refIdsOf_cons]
      exact refIdsOf_perm (perm_old_eraseIdx _ _ hi)
    have hperm' : a'.refIds.Perm ([] ++ refIdsOf (a.toList.eraseIdx i)) := by
      unfold Arr.refIds
      rw [hl]
      exact List.Perm.refl _
    obtain ⟨g1, g2⟩ := refs_step (k := c.ctr) hR (ids_le h) hperm hperm' (Or.inl rfl)
      (Nat.le_refl _) hlog.ctr_le (addr_of_rootID hid) hnew
    refine ⟨g1, fun id hp => g2 id ?_⟩
    exact mem_refIdsOf.2 ⟨_, by simp, hp⟩
  · rw [arr_remove_err a c i h hi] at hr; cases hr

/-- `PopIterate`: every element is handed back (last to first); the references among them are
    pairwise different, are exactly the references the array owned, none of them is the slab that
    remains (the emptied root); the emptied array owns no reference. -/
theorem refs_popIterate (T : Nat) (hT : legalThreshold T = true) (a : Arr) (c : Ctx)
    (h : ArrInv T a c.ctr) (hR : ARefsOk a c.ctr) :
    let r := a.popIterate c
    ARefsOk r.2.1 r.2.2.ctr ∧ r.2.1.refIds = [] ∧
    r.1 = a.toList.reverse ∧ (refIdsOf r.1).Nodup ∧
    (∀ id, id ∈ refIdsOf r.1 ↔ id ∈ a.refIds) ∧
    ∀ id ∈ refIdsOf r.1, id ∉ slabIds r.2.1.d r.2.1.root := by
  intro r
  have _ := hT; have _ := h
  obtain ⟨h1, h2, _, _⟩ := arr_popIterate_refines a c
  have hrefs : r.2.1.refIds = [] := by
    show refIdsOf (a.popIterate c).2.1.toList = []
    rw [h2]; rfl
  have hrev : refIdsOf r.1 = a.refIds.reverse := by
    show refIdsOf (a.popIterate c).1 = _
    rw [h1, refIdsOf_reverse]; rfl
  have hids' : slabIds r.2.1.d r.2.1.root = [a.rootID] := rfl
  refine ⟨refsOk_of_nil hrefs, hrefs, h1, ?_, ?_, ?_⟩
  · rw [hrev]; exact (List.reverse_perm _).nodup_iff.2 hR.nodup
  · intro id; rw [hrev]; exact List.mem_reverse
  · intro id hid
    rw [hrev, List.mem_reverse] at hid
    rw [hids', List.mem_singleton]
    intro heq
    exact hR.not_tree id hid (heq ▸ by
      show (hdr a.d a.root).id ∈ slabIds a.d a.root
      exact hdr_id_mem_slabIds a.d a.root)

/-- `SetType` preserves `ARefsOk`. -/
theorem refs_setType (a : Arr) (c : Ctx) (ty : Nat) (hR : ARefsOk a c.ctr) :
    ARefsOk (a.setType ty c).1 (a.setType ty c).2.ctr := by
  have hc : (a.setType ty c).2.ctr = c.ctr := by
    unfold Arr.setType; simp only; split <;> rfl
  rw [hc]
  exact ⟨hR.nodup, hR.not_tree, hR.alloc⟩

/-- The invariant including references is preserved by `Insert` (C05 form). -/
theorem invR_insert (T : Nat) (hT : legalThreshold T = true) (a : Arr) (c : Ctx) (i : Nat) (v : Elem)
    (hv : ValueOk v) (h : ArrInvR T a c.ctr) (a' : Arr) (c' : Ctx)
    (hr : a.insert T i v c = .ok (a', c')) : ArrInvR T a' c'.ctr :=
  ⟨C05.inv_insert T hT a c i v hv h.inv a' c' hr,
   (refs_insert T hT a c i v hv h.inv h.refs a' c' hr).1⟩

/-! ### freshness of allocated IDs against the references -/

/-- Slab IDs handed out during an `Insert` are fresh against the tree AND the references. -/
theorem allocated_ids_fresh_refs (T : Nat) (hT : legalThreshold T = true) (a : Arr) (c : Ctx) (i : Nat)
    (v : Elem) (hv : ValueOk v) (h : ArrInv T a c.ctr) (hR : ARefsOk a c.ctr) (a' : Arr) (c' : Ctx)
    (hr : a.insert T i v c = .ok (a', c')) :
    ∀ addr id, Eff.alloc addr id ∈ C09.newEffects c c' →
      id ∉ slabIds a.d a.root ∧ id ∉ a.refIds ∧ c.ctr < id.idx ∧ id.idx ≤ c'.ctr := by
  intro addr id hmem
  obtain ⟨h1, h2, h3⟩ := C09.allocated_ids_fresh T hT a c i v hv h a' c' hr addr id hmem
  refine ⟨h1, fun hin => ?_, h2, h3⟩
  have := (hR.alloc id hin).2.2
  omega

/-- Slab IDs handed out during a `Set` are fresh against the tree AND the references. -/
theorem allocated_ids_fresh_refs_set (T : Nat) (hT : legalThreshold T = true) (a : Arr) (c : Ctx) (i : Nat)
    (v : Elem) (hv : ValueOk v) (h : ArrInv T a c.ctr) (hR : ARefsOk a c.ctr) (old : Elem) (a' : Arr)
    (c' : Ctx) (hr : a.set T i v c = .ok (old, a', c')) :
    ∀ addr id, Eff.alloc addr id ∈ C09.newEffects c c' →
      id ∉ slabIds a.d a.root ∧ id ∉ a.refIds ∧ c.ctr < id.idx ∧ id.idx ≤ c'.ctr := by
  obtain ⟨E, C, hlog, _⟩ := arr_set_acct hT a c i v hv h old a' c' hr
  obtain ⟨_, h2, _⟩ := C09.newEffects_of_log hlog
  rw [h2]
  intro addr id hmem
  obtain ⟨h3, h4⟩ := hlog.allocs addr id hmem
  refine ⟨fun hin => ?_, fun hin => ?_, h3, h4⟩
  · have := (h.ids.2 id hin).2.2; omega
  · have := (hR.alloc id hin).2.2; omega

/-- the created slab is the one the stored form refers to -/
theorem crOf_ids (T addr : Nat) (v : Elem) (c : Ctx) (hv : ValueOk v) :
    (crOf T addr v c).map (·.1) = refIdsOf [(toStorable T addr v c).1] := by
  unfold crOf
  rcases toStorable_cases T addr v c hv with ⟨_, h2, _, h4⟩ | ⟨_, h2, _, h4⟩
  · rw [h2, h4]; simp
  · rw [h2, h4]; simp

/-- The large-value slab created by an `Insert` is not a slab of the new tree, not a slab of the
    old tree, was referenced by no element before and is referenced by an element afterwards. -/
theorem created_fresh (T : Nat) (hT : legalThreshold T = true) (a : Arr) (c : Ctx) (i : Nat)
    (v : Elem) (hv : ValueOk v) (h : ArrInv T a c.ctr) (hR : ARefsOk a c.ctr) (a' : Arr) (c' : Ctx)
    (hr : a.insert T i v c = .ok (a', c')) :
    ∀ id ∈ C09.newCreated c c',
      id ∉ slabIds a'.d a'.root ∧ id ∉ slabIds a.d a.root ∧ id ∉ a.refIds ∧ id ∈ a'.refIds := by
  obtain ⟨E, C, hlog, hcr, _, hC⟩ := arr_insert_created hT a c i v hv h a' c' hr
  obtain ⟨_, _, h3⟩ := C09.newEffects_of_log hlog
  rw [h3]
  intro id hid
  obtain ⟨_, g2, g3, _, _⟩ := hcr id hid
  refine ⟨g2, fun hin => ?_, fun hin => ?_, ?_⟩
  · have := (h.ids.2 id hin).2.2; omega
  · have := (hR.alloc id hin).2.2; omega
  · rw [hC, crOf_ids T a.addr v c hv] at hid
    exact (refs_insert T hT a c i v hv h hR a' c' hr).2.mem_iff.2 (List.mem_append.2 (Or.inl hid))

/-- The same for `Set`. -/
theorem created_fresh_set (T : Nat) (hT : legalThreshold T = true) (a : Arr) (c : Ctx) (i : Nat)
    (v : Elem) (hv : ValueOk v) (h : ArrInv T a c.ctr) (hR : ARefsOk a c.ctr) (old : Elem) (a' : Arr)
    (c' : Ctx) (hr : a.set T i v c = .ok (old, a', c')) :
    ∀ id ∈ C09.newCreated c c',
      id ∉ slabIds a'.d a'.root ∧ id ∉ slabIds a.d a.root ∧ id ∉ a.refIds ∧ id ∈ a'.refIds := by
  obtain ⟨E, C, hlog, hcr, _, hC⟩ := arr_set_created hT a c i v hv h old a' c' hr
  obtain ⟨_, _, h3⟩ := C09.newEffects_of_log hlog
  rw [h3]
  intro id hid
  obtain ⟨_, g2, g3, _, _⟩ := hcr id hid
  refine ⟨g2, fun hin => ?_, fun hin => ?_, ?_⟩
  · have := (h.ids.2 id hin).2.2; omega
  · have := (hR.alloc id hin).2.2; omega
  · rw [hC, crOf_ids T a.addr v c hv] at hid
    rcases Nat.lt_or_ge i a.toList.length with hi | hi
    · obtain ⟨a2, c2, heq, _, hl, _, _⟩ := arr_set_ok hT a c i v hv h hi
      rw [heq] at hr
      cases hr
      unfold Arr.refIds
      rw [hl]
      have hp := refIdsOf_perm (perm_set_eraseIdx a.toList i (toStorable T a.addr v c).1 hi)
      rw [refIdsOf_cons] at hp
      exact hp.mem_iff.2 (List.mem_append.2 (Or.inl hid))
    · rw [arr_set_err a c i v h hi] at hr; cases hr

/-! ### Non-vacuity, and the audit's counterexample is excluded -/
section NonVacuity
open Atree.Example Atree.C09

/-- `arrS` (Props/C09.lean): `arr4` after overwriting element 3 with a 5000-byte value; its last
    element is a real reference to the large-value slab 1.4, the counter is 4. -/
example : arrS.refIds = [⟨1, 4⟩] := by decide
theorem arrS_inv : ArrInv T0 arrS cS.ctr := by
  obtain ⟨a', c', h1, h2, _⟩ := arr_set_ok legal arr4 c3 3 ⟨5000, .val 7⟩ ⟨by decide, 7, rfl⟩ arr4_inv
    (by decide)
  rw [stepS] at h1; cases h1; exact h2
theorem arr4_refs : ARefsOk arr4 c3.ctr := refsOk_of_nil (by decide)
/-- a state holding a real reference satisfies `ARefsOk` (obtained from the theorem, and directly) -/
theorem arrS_refs : ARefsOk arrS cS.ctr :=
  (refs_set T0 legal arr4 c3 3 ⟨5000, .val 7⟩ ⟨by decide, 7, rfl⟩ arr4_inv arr4_refs (elem 3) arrS cS stepS).1
example : arrS.refIds.Nodup ∧ (∀ id ∈ arrS.refIds, id ∉ slabIds arrS.d arrS.root) ∧
    (∀ id ∈ arrS.refIds, id.addr = arrS.addr ∧ 1 ≤ id.idx ∧ id.idx ≤ cS.ctr) := by decide

/-- overwriting the reference again hands it back: slab 1.4 is no longer owned by the array -/
def arrS2 : Arr := okArr' (arrS.set T0 3 (elem 5) cS)
def cS2 : Ctx := okCtx' (arrS.set T0 3 (elem 5) cS)
theorem stepS2 : arrS.set T0 3 (elem 5) cS = .ok (⟨19, .ref ⟨1, 4⟩⟩, arrS2, cS2) := by rfl
example : (⟨1, 4⟩ : SlabID) ∈ arrS.refIds ∧ (⟨1, 4⟩ : SlabID) ∉ arrS2.refIds ∧
    (⟨1, 4⟩ : SlabID) ∉ slabIds arrS2.d arrS2.root :=
  (refs_set T0 legal arrS cS 3 (elem 5) (value_ok 5) arrS_inv arrS_refs _ arrS2 cS2 stepS2).2 ⟨1, 4⟩ rfl

/-- The audit's state (RefClash.lean): a single-slab array whose only element refers to slab 1.3
    while the allocation counter is 2.  It satisfies `ArrInv 256 a0 2` but NOT `ARefsOk a0 2`. -/
def clashSlab : DataSlab := ⟨⟨⟨1, 1⟩, 5 + 19, 1⟩, SlabID.undef, [⟨19, .ref ⟨1, 3⟩⟩], true, false⟩
def clashArr : Arr := ⟨0, clashSlab, 0⟩
example : ¬ ARefsOk clashArr 2 := by
  intro h
  have := (h.alloc ⟨1, 3⟩ (by decide)).2.2
  simp at this
/-- with the counter that really covers the reference the state is fine -/
example : ARefsOk clashArr 3 := ⟨by decide, by decide, by decide⟩

end NonVacuity

end Atree.C09R
