import AtreeProofs.MapHeapSpec
import AtreeProofs.MapInv
import AtreeProofs.MapLemmas
/-
  C09 (maps) — the storage calls a map operation makes are a COMPLETE account of how its slab
  tree (data slabs, index slabs, external collision-group slabs) changed; emptying a map releases
  every auxiliary slab.  Same shape as C09.lean for arrays.
-/
namespace Atree.C09Map
open Atree Gen

def newEffects (c c' : Ctx) : List Eff := c'.eff.drop c.eff.length
def newCreated (c c' : Ctx) : List SlabID := (c'.created.drop c.created.length).map (·.1)

variable {r : Nat}

theorem set_effects_complete (T : Nat) (hT : legalThreshold T = true) (D : DigestFn (r + 1)) (cfg : MCfg) (m : OMap r)
    (hcfg : CfgOk cfg T m) (h : MapInv T D m) (k : MKey) (hk : KeyOk T (r + 1) D k)
    (v : Elem) (hv : ValueOkM v) (c : Ctx) (hc : CtxOk m c)
    (old : Option Elem) (m' : OMap r) (c' : Ctx) (hr : m.set cfg k v c = .ok (old, m', c')) :
    c'.eff = c.eff ++ newEffects c c' ∧ MEffectsComplete m m' (newEffects c c') (newCreated c c') := by
  sorry

theorem remove_effects_complete (T : Nat) (hT : legalThreshold T = true) (D : DigestFn (r + 1)) (cfg : MCfg) (m : OMap r)
    (hcfg : CfgOk cfg T m) (h : MapInv T D m) (k : MKey) (hk : KeyOk T (r + 1) D k) (c : Ctx) (hc : CtxOk m c)
    (k0 : MKey) (v0 : Elem) (m' : OMap r) (c' : Ctx) (hr : m.remove cfg k c = .ok (k0, v0, m', c')) :
    c'.eff = c.eff ++ newEffects c c' ∧ MEffectsComplete m m' (newEffects c c') (newCreated c c') := by
  sorry

/-- Emptying a map releases every slab except the root (children of index slabs and external
    collision groups included), and the root is rewritten. -/
theorem pop_releases_all (T : Nat) (hT : legalThreshold T = true) (D : DigestFn (r + 1)) (m : OMap r)
    (h : MapInv T D m) (c : Ctx) (hc : CtxOk m c) :
    let res := m.popIterate c
    MEffectsComplete m res.2.1 (newEffects c res.2.2) [] ∧
    (MTree.slabs res.2.1.d res.2.1.root).map (·.1) = [m.rootID] ∧
    ∀ id ∈ (MTree.slabs m.d m.root).map (·.1), id ≠ m.rootID → lastAction (newEffects c res.2.2) id = some false := by
  sorry

/-- Slab IDs handed out during a set are fresh. -/
theorem allocated_ids_fresh (T : Nat) (hT : legalThreshold T = true) (D : DigestFn (r + 1)) (cfg : MCfg) (m : OMap r)
    (hcfg : CfgOk cfg T m) (h : MapInv T D m) (k : MKey) (hk : KeyOk T (r + 1) D k)
    (v : Elem) (hv : ValueOkM v) (c : Ctx) (hc : CtxOk m c)
    (old : Option Elem) (m' : OMap r) (c' : Ctx) (hr : m.set cfg k v c = .ok (old, m', c')) :
    ∀ addr id, Eff.alloc addr id ∈ newEffects c c' → id ∉ (MTree.slabs m.d m.root).map (·.1) ∧ c.ctr < id.idx ∧ id.idx ≤ c'.ctr := by
  sorry

end Atree.C09Map
