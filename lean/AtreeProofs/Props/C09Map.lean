import AtreeProofs.MapHeapSpec
import AtreeProofs.MapInv
import AtreeProofs.MapLemmas
import AtreeProofs.Map.EffectsLog
import AtreeProofs.Map.Example
import AtreeProofs.Array.EffectsTop
/-
  C09 (maps) — the storage calls a map operation makes are a COMPLETE account of how its slab
  tree (data slabs, index slabs, external collision-group slabs) changed; emptying a map releases
  every auxiliary slab.  Same shape as C09.lean for arrays.

  Hypothesis added with respect to the first draft of the statements: `MIdsOk m` — the slab IDs of
  the map (data slabs, index slabs AND external collision-group slabs) are pairwise distinct.
  `MapInv` does not say so, and without it `set_effects_complete` / `remove_effects_complete` are
  false (two external groups that share an ID: collapsing one removes the ID that the other still
  uses — see `Counterexample` below).  `MIdsOk` holds for a new map and is preserved by `set` and
  `remove` (`new_idsOk`, `set_preserves_idsOk`, `remove_preserves_idsOk`), so it holds in every
  reachable state.  `allocated_ids_fresh` and `pop_releases_all` do not need it.

  Proofs: `AtreeProofs/Map/Effects*.lean` (generic accounting `MAcct` with owner addresses and ID
  multiplicities, elements layer, first level of a data slab, repair steps of an index slab,
  induction over the depth, root fix-up, pop).
-/
namespace Atree.C09Map
open Atree Gen

def newEffects (c c' : Ctx) : List Eff := c'.eff.drop c.eff.length
def newCreated (c c' : Ctx) : List SlabID := (c'.created.drop c.created.length).map (·.1)

variable {r : Nat}

/-- `newEffects` / `newCreated` are what a run appended (`Log`) -/
theorem newEffects_of_log {c c' : Ctx} {E : List Eff} {C : List (SlabID × Elem)} (h : Log c c' E C) :
    c'.eff = c.eff ++ newEffects c c' ∧ newEffects c c' = E ∧ newCreated c c' = C.map (·.1) := by
  have h1 : newEffects c c' = E := by
    unfold newEffects; rw [h.eff]; exact List.drop_left
  have h2 : newCreated c c' = C.map (·.1) := by
    unfold newCreated; rw [h.created, List.drop_left]
  exact ⟨by rw [h1]; exact h.eff, h1, h2⟩

/-- A new map has distinct slab IDs. -/
theorem new_idsOk (addr ty : Nat) (seedOf : SlabID → Nat) (c : Ctx) :
    MIdsOk (OMap.new (r := r) addr ty seedOf c).1 := by
  simp [MIdsOk, OMap.new, mslabs_zero, MDataSlab.groupSlabs]

theorem set_effects_complete (T : Nat) (hT : legalThreshold T = true) (D : DigestFn (r + 1)) (cfg : MCfg) (m : OMap r)
    (hcfg : CfgOk cfg T m) (h : MapInv T D m) (hids : MIdsOk m) (k : MKey) (hk : KeyOk T (r + 1) D k)
    (v : Elem) (hv : ValueOkM v) (c : Ctx) (hc : CtxOk m c)
    (old : Option Elem) (m' : OMap r) (c' : Ctx) (hr : m.set cfg k v c = .ok (old, m', c')) :
    c'.eff = c.eff ++ newEffects c c' ∧ MEffectsComplete m m' (newEffects c c') (newCreated c c') := by
  obtain ⟨E, C, hlog, hacct, hroot, hrid⟩ := omap_set_acct hT hcfg h hk hv c hc hids hr
  obtain ⟨h1, h2, h3⟩ := newEffects_of_log hlog.toLog
  refine ⟨h1, ?_⟩
  rw [h2, h3]
  exact mEffectsComplete_of_acct hacct hids hrid hroot

/-- `set` preserves the distinctness of the slab IDs. -/
theorem set_preserves_idsOk (T : Nat) (hT : legalThreshold T = true) (D : DigestFn (r + 1)) (cfg : MCfg) (m : OMap r)
    (hcfg : CfgOk cfg T m) (h : MapInv T D m) (hids : MIdsOk m) (k : MKey) (hk : KeyOk T (r + 1) D k)
    (v : Elem) (hv : ValueOkM v) (c : Ctx) (hc : CtxOk m c)
    (old : Option Elem) (m' : OMap r) (c' : Ctx) (hr : m.set cfg k v c = .ok (old, m', c')) : MIdsOk m' := by
  obtain ⟨E, C, _, hacct, _⟩ := omap_set_acct hT hcfg h hk hv c hc hids hr
  exact hacct.nodup hids

theorem remove_effects_complete (T : Nat) (hT : legalThreshold T = true) (D : DigestFn (r + 1)) (cfg : MCfg) (m : OMap r)
    (hcfg : CfgOk cfg T m) (h : MapInv T D m) (hids : MIdsOk m) (k : MKey) (hk : KeyOk T (r + 1) D k) (c : Ctx)
    (hc : CtxOk m c)
    (k0 : MKey) (v0 : Elem) (m' : OMap r) (c' : Ctx) (hr : m.remove cfg k c = .ok (k0, v0, m', c')) :
    c'.eff = c.eff ++ newEffects c c' ∧ MEffectsComplete m m' (newEffects c c') (newCreated c c') := by
  obtain ⟨E, C, hlog, hacct, hroot, hrid⟩ := omap_remove_acct hT hcfg h hk c hc hids hr
  obtain ⟨h1, h2, h3⟩ := newEffects_of_log hlog.toLog
  refine ⟨h1, ?_⟩
  rw [h2, h3]
  exact mEffectsComplete_of_acct hacct hids hrid hroot

/-- `remove` preserves the distinctness of the slab IDs. -/
theorem remove_preserves_idsOk (T : Nat) (hT : legalThreshold T = true) (D : DigestFn (r + 1)) (cfg : MCfg) (m : OMap r)
    (hcfg : CfgOk cfg T m) (h : MapInv T D m) (hids : MIdsOk m) (k : MKey) (hk : KeyOk T (r + 1) D k) (c : Ctx)
    (hc : CtxOk m c)
    (k0 : MKey) (v0 : Elem) (m' : OMap r) (c' : Ctx) (hr : m.remove cfg k c = .ok (k0, v0, m', c')) : MIdsOk m' := by
  obtain ⟨E, C, _, hacct, _⟩ := omap_remove_acct hT hcfg h hk c hc hids hr
  exact hacct.nodup hids

/-- Emptying a map releases every slab except the root (children of index slabs and external
    collision groups included), and the root is rewritten. -/
theorem pop_releases_all (T : Nat) (hT : legalThreshold T = true) (D : DigestFn (r + 1)) (m : OMap r)
    (h : MapInv T D m) (c : Ctx) (hc : CtxOk m c) :
    let res := m.popIterate c
    MEffectsComplete m res.2.1 (newEffects c res.2.2) [] ∧
    (MTree.slabs res.2.1.d res.2.1.root).map (·.1) = [m.rootID] ∧
    ∀ id ∈ (MTree.slabs m.d m.root).map (·.1), id ≠ m.rootID → lastAction (newEffects c res.2.2) id = some false := by
  intro res
  have _ := hT
  have _ := hc
  obtain ⟨E, heff, hE1, hE2⟩ := omap_pop_log m c h.standalone
  have hnew : newEffects c res.2.2 = E ++ [.store m.rootID] := by
    unfold newEffects
    show (m.popIterate c).2.2.eff.drop _ = _
    rw [heff, List.append_assoc]; exact List.drop_left
  have hids' : AList.keys (MTree.slabs res.2.1.d res.2.1.root) = [m.rootID] := rfl
  have hla : ∀ id, lastAction (newEffects c res.2.2) id
      = if m.rootID = id then some true else lastAction E id := by
    intro id; rw [hnew]; exact lastAction_concat_store E m.rootID id
  have hgone : ∀ id ∈ AList.keys (MTree.slabs m.d m.root), id ≠ m.rootID →
      lastAction (newEffects c res.2.2) id = some false := by
    intro id hid hne
    rw [hla, if_neg (fun h => hne h.symm)]
    refine (lastAction_only_removes E hE1 id).1.2 (hE2 id ?_)
    rw [mslabs_eq, keys_cons'] at hid
    rcases List.mem_cons.1 hid with h1 | h1
    · exact absurd h1 hne
    · exact h1
  refine ⟨⟨?_, ?_, ?_, ?_⟩, hids', hgone⟩
  · intro id hsome _
    rw [mslabAt_isSome, hids', List.mem_singleton] at hsome
    rw [hla, if_pos hsome.symm]
  · intro id h1 h2
    rw [mslabAt_isSome] at h1
    rw [mslabAt_isNone, hids', List.mem_singleton] at h2
    exact hgone id h1 h2
  · intro id h1
    left
    rw [mslabAt_isSome, hids', List.mem_singleton]
    rw [hla] at h1
    split at h1
    · rename_i heq; exact heq.symm
    · exact absurd h1 (lastAction_only_removes E hE1 id).2
  · intro id h1
    rw [mslabAt_isNone, hids', List.mem_singleton]
    rw [hla] at h1
    split at h1
    · cases h1
    · rename_i hne; exact fun h => hne h.symm

/-- Slab IDs handed out during a set are fresh. -/
theorem allocated_ids_fresh (T : Nat) (hT : legalThreshold T = true) (D : DigestFn (r + 1)) (cfg : MCfg) (m : OMap r)
    (hcfg : CfgOk cfg T m) (h : MapInv T D m) (k : MKey) (hk : KeyOk T (r + 1) D k)
    (v : Elem) (hv : ValueOkM v) (c : Ctx) (hc : CtxOk m c)
    (old : Option Elem) (m' : OMap r) (c' : Ctx) (hr : m.set cfg k v c = .ok (old, m', c')) :
    ∀ addr id, Eff.alloc addr id ∈ newEffects c c' → id ∉ (MTree.slabs m.d m.root).map (·.1) ∧ c.ctr < id.idx ∧ id.idx ≤ c'.ctr := by
  obtain ⟨_, E, heff, hall⟩ := omap_set_alog hT hcfg h hk hv c hr
  have hE : newEffects c c' = E := by
    unfold newEffects; rw [heff]; exact List.drop_left
  rw [hE]
  intro addr id hmem
  obtain ⟨ha, h3, h4⟩ := hall addr id hmem
  refine ⟨fun hin => ?_, h3, h4⟩
  have := old_of_ctxOk hc id hin ha
  omega

/-! ### Non-vacuity

Concrete runs of the model on the example map of `AtreeProofs/Map/Example.lean` (`r = 1`, T = 256,
owner address 7): what `newEffects` is (by `decide`), and `MEffectsComplete` for these runs,
obtained from the theorems above (their hypotheses are satisfiable: `Good`, `MIdsOk` by `decide`). -/
section NonVacuity
open MapExample

/-- seven insertions into the root data slab `7.1`: an inline group under digest 1, a single
    element under digest 2, and an inline group with the colliding keys 311, 312, 313 under digest 3 -/
def s7 : OMap 1 × Ctx :=
  let s := st0
  let s := stepSet cfg2 s (key 211) (val 1)
  let s := stepSet cfg2 s (key 111) (val 2)
  let s := stepSet cfg2 s (key 112) (val 3)
  let s := stepSet cfg2 s (key 121) (val 4)
  let s := stepSet cfg2 s (key 311) (val 5)
  let s := stepSet cfg2 s (key 312) (val 6)
  stepSet cfg2 s (key 313) (val 7)

theorem s7_good : Good 256 D2 cfg2 s7 := by
  unfold s7
  simp only
  iterate 7 refine Good.set legal256 ?_ (key_ok _) (val_ok _)
  exact Good.new legal256 rfl rfl _ _ _

example : kinds s7.1 = ["inline", "single", "inline"] := by decide
example : (MTree.slabs s7.1.d s7.1.root).map (·.1) = [⟨7, 1⟩] := by decide
theorem s7_ids : MIdsOk s7.1 := by decide

/-- the fourth colliding key makes the inline group under digest 3 too large: it is EXPORTED to a
    new external collision-group slab `7.2` (allocated, stored), and the data slab is stored -/
def s8 : OMap 1 × Ctx := stepSet cfg2 s7 (key 314) (val 8)
theorem step8 : s7.1.set cfg2 (key 314) (val 8) s7.2 = .ok (none, s8.1, s8.2) := by rfl
theorem s8_good : Good 256 D2 cfg2 s8 := Good.set legal256 s7_good (key_ok _) (val_ok _)

example : kinds s8.1 = ["inline", "single", "external"] := by decide
example : (MTree.slabs s8.1.d s8.1.root).map (·.1) = [⟨7, 1⟩, ⟨7, 2⟩] := by decide
example : newEffects s7.2 s8.2 = [.alloc 7 ⟨7, 2⟩, .store ⟨7, 2⟩, .store ⟨7, 1⟩] := by decide
example : newCreated s7.2 s8.2 = [] := by decide
example : [⟨7, 1⟩, ⟨7, 2⟩].map (lastAction (newEffects s7.2 s8.2)) = [some true, some true] := by decide
example : MEffectsComplete s7.1 s8.1 (newEffects s7.2 s8.2) (newCreated s7.2 s8.2) :=
  (set_effects_complete 256 legal256 D2 cfg2 s7.1 s7_good.cfgok s7_good.inv s7_ids (key 314) (key_ok _)
    (val 8) (val_ok _) s7.2 s7_good.ctx none s8.1 s8.2 step8).2
example : ∀ addr id, Eff.alloc addr id ∈ newEffects s7.2 s8.2 →
    id ∉ (MTree.slabs s7.1.d s7.1.root).map (·.1) ∧ s7.2.ctr < id.idx ∧ id.idx ≤ s8.2.ctr :=
  allocated_ids_fresh 256 legal256 D2 cfg2 s7.1 s7_good.cfgok s7_good.inv (key 314) (key_ok _)
    (val 8) (val_ok _) s7.2 s7_good.ctx none s8.1 s8.2 step8
theorem s8_ids : MIdsOk s8.1 :=
  set_preserves_idsOk 256 legal256 D2 cfg2 s7.1 s7_good.cfgok s7_good.inv s7_ids (key 314) (key_ok _)
    (val 8) (val_ok _) s7.2 s7_good.ctx none s8.1 s8.2 step8

/-- a set that goes through the external group rewrites the group slab and the data slab -/
def s9 : OMap 1 × Ctx := stepSet cfg2 s8 (key 313) (val 70)
theorem step9 : s8.1.set cfg2 (key 313) (val 70) s8.2 = .ok (some (val 7), s9.1, s9.2) := by rfl
example : newEffects s8.2 s9.2 = [.store ⟨7, 2⟩, .store ⟨7, 1⟩] := by decide
example : MEffectsComplete s8.1 s9.1 (newEffects s8.2 s9.2) (newCreated s8.2 s9.2) :=
  (set_effects_complete 256 legal256 D2 cfg2 s8.1 s8_good.cfgok s8_good.inv s8_ids (key 313) (key_ok _)
    (val 70) (val_ok _) s8.2 s8_good.ctx _ s9.1 s9.2 step9).2

/-- removing three of the four colliding keys: the last removal leaves a single element in the
    external group, which COLLAPSES — the group slab `7.2` is stored one last time and removed -/
def r2 : OMap 1 × Ctx := stepRemove cfg2 (stepRemove cfg2 s8 (key 314)) (key 313)
theorem r2_good : Good 256 D2 cfg2 r2 :=
  Good.remove legal256 (Good.remove legal256 s8_good (key_ok _)) (key_ok _)
theorem r2_ids : MIdsOk r2.1 := by decide
def r3 : OMap 1 × Ctx := stepRemove cfg2 r2 (key 312)
theorem stepR : r2.1.remove cfg2 (key 312) r2.2 = .ok (key 312, val 6, r3.1, r3.2) := by rfl

example : kinds r2.1 = ["inline", "single", "external"] := by decide
example : kinds r3.1 = ["inline", "single", "single"] := by decide
example : (MTree.slabs r3.1.d r3.1.root).map (·.1) = [⟨7, 1⟩] := by decide
example : newEffects r2.2 r3.2 = [.store ⟨7, 2⟩, .remove ⟨7, 2⟩, .store ⟨7, 1⟩] := by decide
example : [⟨7, 1⟩, ⟨7, 2⟩].map (lastAction (newEffects r2.2 r3.2)) = [some true, some false] := by decide
example : MEffectsComplete r2.1 r3.1 (newEffects r2.2 r3.2) (newCreated r2.2 r3.2) :=
  (remove_effects_complete 256 legal256 D2 cfg2 r2.1 r2_good.cfgok r2_good.inv r2_ids (key 312) (key_ok _)
    r2.2 r2_good.ctx _ _ r3.1 r3.2 stepR).2

/-- the large example map `run` (index slab root `7.1` over the data slabs `7.3` and `7.4`, one
    external group `7.2` referenced from `7.3`): emptying it removes all of them and rewrites the root -/
example : (MTree.slabs run.1.d run.1.root).map (·.1) = [⟨7, 1⟩, ⟨7, 3⟩, ⟨7, 2⟩, ⟨7, 4⟩] := by decide
example : MIdsOk run.1 := by decide
example : newEffects run.2 (run.1.popIterate run.2).2.2
    = [.remove ⟨7, 4⟩, .remove ⟨7, 2⟩, .remove ⟨7, 3⟩, .store ⟨7, 1⟩] := by decide
example : MEffectsComplete run.1 (run.1.popIterate run.2).2.1 (newEffects run.2 (run.1.popIterate run.2).2.2) [] :=
  (pop_releases_all 256 legal256 D2 run.1 run_good.inv run.2 run_good.ctx).1

end NonVacuity

/-! ### Why `MIdsOk` is needed

`MapInv` and `CtxOk` do not exclude two external collision groups with the same slab ID.  Such a
map is built here by running the model with a reset allocation counter (so that the second export
re-issues the ID `7.2`); it satisfies `MapInv`, `CtxOk` (for a large enough counter) and `CfgOk`.
Collapsing one of the two groups removes slab `7.2` although the other group still lives there:
`remove_effects_complete` WITHOUT the hypothesis `MIdsOk` is false. -/
section Counterexample
open MapExample

/-- `OMap.set` preserves `MapInv` whatever the allocation counter is (the proof of `OMap.set_spec`
    without its `CtxOk` part) -/
theorem set_inv_any_ctx {T : Nat} (hT : legalThreshold T = true) {D : DigestFn (r + 1)} {cfg : MCfg} {m : OMap r}
    (hcfg : CfgOk cfg T m) (h : MapInv T D m) {k : MKey} (hk : KeyOk T (r + 1) D k) {v : Elem} (hv : ValueOkM v)
    (c : Ctx) : MapInv T D (stepSet cfg (m, c) k v).1 ∧ (stepSet cfg (m, c) k v).1.rootID = m.rootID := by
  have hc' : CfgFor cfg T (r + 1) := ⟨hcfg.1, hcfg.2.1⟩
  obtain ⟨d, root, ty, cnt, seed⟩ := m
  obtain ⟨h1, h2⟩ := MTree.set_spec hT hc' hk hv d true root c h.tree
  unfold stepSet
  by_cases hl : TLimited cfg d root k
  · have := h1 hl
    simp only [OMap.set, this, bind, Except.bind]
    exact ⟨h, trivial⟩
  · obtain ⟨old, root', c1, heq, hp⟩ := h2 hl
    have hinl : treeInl d root' = false := by
      rw [hp.inl, ← isInlined_eq d root ty cnt seed]; exact h.standalone
    have hle : (MTree.hdr d root').size ≤ maxThr T + slack1 T d := by
      have := hp.size_le; have := MTreeInv.le_max d true root h.tree; omega
    have hchain : ChainTo (MTree.leaves d root') SlabID.undef :=
      hp.leaves.2.2.2 _ ((mLeafChain_iff _).mp h.chain)
    obtain ⟨m3, c3, heq3, hpost⟩ := root_fixup hT d root' ty (if old.isNone then cnt + 1 else cnt) seed c1
      hp.sinv hinl hle hchain
    have hT' : cfg.T = T := hcfg.1
    have hset : OMap.set cfg (⟨d, root, ty, cnt, seed⟩ : OMap r) k v c = .ok (old, m3, c3) := by
      simp only [OMap.set, heq, bind, Except.bind, pure, Except.pure, hT']
      simp only [heq3]
    rw [hset]
    have htl : m3.toList = MTree.toList d root' := hpost.toList
    have hcnt : cnt = (MTree.toList d root).length := h.count_eq
    have hlen := hp.eff.length
    refine ⟨MapInv.of_rootPost hpost ?_, by rw [hpost.rootID]; exact hp.id_eq⟩
    rw [hpost.count, htl, hlen]
    show (if old.isNone then cnt + 1 else cnt) = _
    cases old <;> simp [hcnt]

/-- `s8` (external group `7.2` under digest 3) plus three colliding keys under digest 5 -/
def b0 : OMap 1 × Ctx :=
  stepSet cfg2 (stepSet cfg2 (stepSet cfg2 s8 (key 511) (val 21)) (key 512) (val 22)) (key 513) (val 23)
theorem b0_good : Good 256 D2 cfg2 b0 := by
  unfold b0
  iterate 3 refine Good.set legal256 ?_ (key_ok _) (val_ok _)
  exact s8_good

/-- the fourth colliding key under digest 5, inserted with the allocation counter RESET to 1: the
    exported group gets the ID `7.2` a second time -/
def b1 : OMap 1 := (stepSet cfg2 (b0.1, { ctr := 1, eff := [], created := [] }) (key 514) (val 24)).1
def c10 : Ctx := { ctr := 10, eff := [], created := [] }

example : kinds b1 = ["inline", "single", "external", "external"] := by decide
example : (MTree.slabs b1.d b1.root).map (·.1) = [⟨7, 1⟩, ⟨7, 2⟩, ⟨7, 2⟩] := by decide
example : ¬ MIdsOk b1 := by decide

theorem b1_good : Good 256 D2 cfg2 (b1, c10) := by
  obtain ⟨h1, h2⟩ := set_inv_any_ctx legal256 b0_good.cfgok b0_good.inv (key_ok 514) (val_ok 24)
    { ctr := 1, eff := [], created := [] }
  refine ⟨h1, ?_, b0_good.cfgok.1, b0_good.cfgok.2.1, ?_⟩
  · intro id hid _
    have : id ∈ [(⟨7, 1⟩ : SlabID), ⟨7, 2⟩, ⟨7, 2⟩] := by
      have e : CtxOk.mapSlabIds b1.d b1.root = [(⟨7, 1⟩ : SlabID), ⟨7, 2⟩, ⟨7, 2⟩] := by decide
      rw [← e]; exact hid
    simp only [List.mem_cons, List.not_mem_nil, or_false] at this
    rcases this with rfl | rfl | rfl <;> decide
  · rw [b0_good.cfgok.2.2]
    show b0.1.rootID.addr = b1.rootID.addr
    rw [show b1.rootID = b0.1.rootID from h2]

/-- two of the four keys of the second group are removed … -/
def b3 : OMap 1 × Ctx := stepRemove cfg2 (stepRemove cfg2 (b1, c10) (key 514)) (key 513)
theorem b3_good : Good 256 D2 cfg2 b3 :=
  Good.remove legal256 (Good.remove legal256 b1_good (key_ok _)) (key_ok _)

/-- … and the third removal collapses the second group: slab `7.2` is removed -/
def b4 : OMap 1 × Ctx := stepRemove cfg2 b3 (key 512)
theorem stepB : b3.1.remove cfg2 (key 512) b3.2 = .ok (key 512, val 22, b4.1, b4.2) := by rfl

example : kinds b3.1 = ["inline", "single", "external", "external"] := by decide
example : kinds b4.1 = ["inline", "single", "external", "single"] := by decide
example : newEffects b3.2 b4.2 = [.store ⟨7, 2⟩, .remove ⟨7, 2⟩, .store ⟨7, 1⟩] := by decide
/-- … although the first group still lives under that ID -/
example : (b4.1.slabAt ⟨7, 2⟩).isSome = true := by decide

/-- `remove_effects_complete` without `MIdsOk` is false: all its other hypotheses hold for this
    removal, its conclusion does not (`removed_not_in_tree` fails for slab `7.2`). -/
theorem remove_effects_complete_needs_idsOk :
    ∃ (m : OMap 1) (c : Ctx) (k k0 : MKey) (v0 : Elem) (m' : OMap 1) (c' : Ctx),
      CfgOk cfg2 256 m ∧ MapInv 256 D2 m ∧ KeyOk 256 2 D2 k ∧ CtxOk m c ∧
      m.remove cfg2 k c = .ok (k0, v0, m', c') ∧
      ¬ MEffectsComplete m m' (newEffects c c') (newCreated c c') := by
  refine ⟨b3.1, b3.2, key 512, key 512, val 22, b4.1, b4.2, b3_good.cfgok, b3_good.inv, key_ok _, b3_good.ctx,
    stepB, ?_⟩
  intro h
  have h1 := h.removed_not_in_tree ⟨7, 2⟩ (by decide)
  exact absurd h1 (by decide)

end Counterexample

end Atree.C09Map
