import AtreeProofs.Props.TransElemClosedInv
import AtreeProofs.Iter.MapExample
/-
  WP13, non-vacuity: the two-level example of `Iter/MapExample.lean` (`cfg.L = 2`; keys 11 and 12 collide at the first
  level and live in an inline collision group, key 25 is a single element) meets every hypothesis of the closed
  theorems, and the closed generated functions EVALUATE (kernel reduction) to the model's results on it.
-/
namespace Atree.TransEq.MclEx
open Atree Atree.TransEq Atree.IterExample

/-- a storage without slabs (the example has no external group) -/
def retr0 : mcl_Retrs Unit := fun _ c _ => (.nil, false, none, c)
def c0 : Ctx := { ctr := 5, eff := [] }

theorem fitG : mcl_FitG 2 rootElems := by
  refine ⟨by decide, by decide, ?_⟩
  intro el hel g hg
  simp only [rootElems, List.mem_cons, List.not_mem_nil, or_false] at hel
  rcases hel with rfl | rfl
  · have hg' : grp = g := Option.some.inj hg
    subst hg'
    refine ⟨by decide, by decide, ?_⟩
    intro el hel g hg
    simp only [grp, List.mem_cons, List.not_mem_nil, or_false] at hel
    rcases hel with rfl | rfl <;> simp [mei_nested] at hg
  · simp [mei_nested] at hg

theorem retrOk (c : Ctx) : mcl_RetrOk retr0 c 2 rootElems := by
  intro id sz s h
  simp [rootElems] at h

theorem kdig (n : Nat) (hn : n < 100) : ∀ lvl, (k n).dig lvl < 2^64 := by
  intro lvl
  match lvl with
  | 0 => show n / 10 < 2^64; omega
  | 1 => show n % 10 < 2^64; omega
  | _ + 2 => show 0 < 2^64; decide

/-- the hypotheses of `elements_Get_eq_model_closed` hold for the example (top level, `r = 2`, key 12 of the group) -/
example : clElements_Get cfg retr0 2 rootElems c0 (k 12) (u64 0) (u64 ((k 12).dig 0)) (.key (k 12)) =
    mei_rGet c0 ((MElems.ops 2).get cfg rootElems 0 (k 12)) :=
  elements_Get_eq_model_closed cfg (k 12) retr0 T0 D (by decide) (by decide) (by decide) (by decide) (kdig 12 (by decide))
    2 0 [] rootElems c0 root_elems_inv fitG (fun _ => retrOk c0)

/-- the closed generated `Get` evaluates: key 12 is found in the collision group -/
example : clElements_Get cfg retr0 2 rootElems c0 (k 12) (u64 0) (u64 ((k 12).dig 0)) (.key (k 12)) =
    (some (.key (k 12)), some (.val (v 3)), none, c0) := by rfl

/-- key 13 has the digest path of the group but is not there -/
example : clElements_Get cfg retr0 2 rootElems c0 (k 13) (u64 0) (u64 ((k 13).dig 0)) (.key (k 13)) =
    (none, none, some .keyNotFound, c0) := by rfl

/-- the closed generated `Remove` evaluates to the model's result: key 12 leaves the group, which collapses to the single
    element of key 11 -/
example : clElements_Remove cfg retr0 2 rootElems c0 (k 12) (u64 0) (u64 ((k 12).dig 0)) (.key (k 12)) =
    mei_rGRemove rootElems c0 ((MElems.ops 2).remove cfg rootElems 0 (k 12) c0) := by rfl

/-- the closed generated `Set` evaluates to the model's result: key 13 joins the collision group -/
example : clElements_Set cfg retr0 2 rootElems c0 cfg.addr () (k 13) (u64 0) (u64 ((k 13).dig 0)) (.key (k 13)) (.val (v 4)) =
    mei_rGSet rootElems c0 ((MElems.ops 2).set cfg rootElems 0 (k 13) (v 4) c0) := by rfl

/-- ... and key 35 collides with the single element of key 25: a new inline group is born -/
example : clElements_Set cfg retr0 2 rootElems c0 cfg.addr () (k 26) (u64 0) (u64 ((k 26).dig 0)) (.key (k 26)) (.val (v 4)) =
    mei_rGSet rootElems c0 ((MElems.ops 2).set cfg rootElems 0 (k 26) (v 4) c0) := by rfl

end Atree.TransEq.MclEx
