import AtreeProofs.Props.TransMapDescentInv
/-
  MAP DESCENT, round 3 (WP13): the MERGE-OR-REBALANCE tail `MMorTail` of the Set composition
  (`TransMapDescentSetFull.lean`) for the restructuring record `rs := rsOf T` (the generated code of
  `Gen/TransMapSlabs.lean` over the heap) and the provider invariant `Q := MQ T D` (`TransMapDescentInv.lean`).
  Helper names carry the prefix `mtm_`.
-/
namespace Atree.TransEq
open Atree

section ids
variable {r : Nat}

/-- what is below both results of a rebalance step is what was below both operands, in the same order -/
theorem mtm_kidIds_rebalanced (T : Nat) (d : Nat) (l rr : MTree r d) (b : Bool) :
    mrm_kidIds d (msl_rebalanced T d l rr b).1 ++ mrm_kidIds d (msl_rebalanced T d l rr b).2 =
      mrm_kidIds d l ++ mrm_kidIds d rr := by
  cases d with
  | zero => rfl
  | succ d =>
    cases b
    · simp only [msl_rebalanced, Bool.false_eq_true, if_false, MTree.lendToRight, MMetaSlab.lendToRight, mrm_kidIds,
        List.flatMap_append]
      rw [← List.append_assoc, ← List.flatMap_append, List.take_append_drop]
    · simp only [msl_rebalanced, if_true, MTree.borrowFromRight, MMetaSlab.borrowFromRight, mrm_kidIds,
        List.flatMap_append]
      rw [List.append_assoc, ← List.flatMap_append, List.take_append_drop]

theorem mtm_kidIds_merge (d : Nat) (l rr : MTree r d) :
    mrm_kidIds d (MTree.merge d l rr) = mrm_kidIds d l ++ mrm_kidIds d rr := by
  cases d with
  | zero => rfl
  | succ d => simp only [MTree.merge, MMetaSlab.merge, mrm_kidIds, List.flatMap_append]

theorem mtm_pair_perm (a b : SlabID) (X Y X' Y' : List SlabID) (h : X' ++ Y' = X ++ Y) :
    List.Perm ((a :: X') ++ (b :: Y')) ((a :: X) ++ (b :: Y)) := by
  have h1 : List.Perm ((a :: X') ++ (b :: Y')) (a :: b :: (X' ++ Y')) :=
    List.Perm.cons a List.perm_middle
  have h2 : List.Perm ((a :: X) ++ (b :: Y)) (a :: b :: (X ++ Y)) :=
    List.Perm.cons a List.perm_middle
  rw [h] at h1
  exact h1.trans h2.symm

/-- the identifiers of both results of a rebalance step are those of both operands -/
theorem mtm_ids_rebalanced (T : Nat) (d : Nat) (l rr : MTree r d) (b : Bool) :
    List.Perm (md_ids d (msl_rebalanced T d l rr b).1 ++ md_ids d (msl_rebalanced T d l rr b).2)
      (md_ids d l ++ md_ids d rr) := by
  obtain ⟨e1, e2⟩ := mrm_rebalanced_id T d l rr b
  rw [mrm_md_ids_eq, mrm_md_ids_eq, mrm_md_ids_eq d l, mrm_md_ids_eq d rr, e1, e2]
  exact mtm_pair_perm _ _ _ _ _ _ (mtm_kidIds_rebalanced T d l rr b)

/-- the identifiers of the merged slab are those of both operands without the right operand's root -/
theorem mtm_ids_merge (d : Nat) (l rr : MTree r d) :
    List.Perm ((MTree.hdr d rr).id :: md_ids d (MTree.merge d l rr)) (md_ids d l ++ md_ids d rr) := by
  rw [mrm_md_ids_eq, mrm_md_ids_eq d l, mrm_md_ids_eq d rr, mrm_merge_id, mtm_kidIds_merge]
  have h2 : List.Perm (((MTree.hdr d l).id :: mrm_kidIds d l) ++ ((MTree.hdr d rr).id :: mrm_kidIds d rr))
      ((MTree.hdr d l).id :: (MTree.hdr d rr).id :: (mrm_kidIds d l ++ mrm_kidIds d rr)) :=
    List.Perm.cons _ List.perm_middle
  exact (List.Perm.swap _ _ _).trans h2.symm

theorem mtm_split2 {α : Type} (cs : List α) (i : Nat) (a b : α) (ha : cs[i]? = some a) (hb : cs[i + 1]? = some b) :
    ∃ A B, cs = A ++ a :: b :: B ∧ A.length = i := by
  obtain ⟨A, B, e, hl⟩ := mds_split_at cs i a ha
  subst e
  subst hl
  rw [List.getElem?_append_right (by omega)] at hb
  have hb' : (a :: B)[1]? = some b := by
    have : A.length + 1 - A.length = 1 := by omega
    rw [this] at hb; exact hb
  cases B with
  | nil => cases hb'
  | cons b' B =>
    have : b' = b := by simpa using hb'
    subst this
    exact ⟨A, B, rfl, rfl⟩

/-- the identifiers of the parent after `rebalanceChildren` of two ADJACENT children that ARE its children `li`, `li + 1` -/
theorem mtm_ids_rebalanceChildren (T : Nat) (d : Nat) (m : MMetaSlab (MTree r d)) (l rr : MTree r d) (li : Nat)
    (b : Bool) (c : Ctx) (m' : MMetaSlab (MTree r d)) (c' : Ctx)
    (hl : m.children[li]? = some l) (hr : m.children[li + 1]? = some rr)
    (h : MMetaSlab.rebalanceChildren T m l rr li (li + 1) b c = .ok (m', c')) :
    List.Perm (md_ids (d + 1) m') (md_ids (d + 1) m) := by
  obtain ⟨hch, hid⟩ := mrm_rebalanceChildren_ok T d m l rr li (li + 1) b c m' c' h
  obtain ⟨A, B, e, hA⟩ := mtm_split2 m.children li l rr hl hr
  have e' : m'.children = A ++ (msl_rebalanced T d l rr b).1 :: (msl_rebalanced T d l rr b).2 :: B := by
    rw [hch, e, ← hA]
    simp
  show List.Perm (m'.hdr.id :: m'.children.flatMap (md_ids d)) (m.hdr.id :: m.children.flatMap (md_ids d))
  rw [hid, e', e]
  simp only [List.flatMap_append, List.flatMap_cons]
  refine List.Perm.cons _ (List.Perm.append_left _ ?_)
  rw [← List.append_assoc, ← List.append_assoc]
  exact List.Perm.append_right _ (mtm_ids_rebalanced T d l rr b)

theorem mtm_erase {α : Type} (A B : List α) (x y : α) : (A ++ x :: y :: B).eraseIdx (A.length + 1) = A ++ x :: B := by
  induction A with
  | nil => rfl
  | cons a A ih => simpa using ih

/-- ... after `mergeChildren`: the right operand's root identifier leaves -/
theorem mtm_ids_mergeChildren (d : Nat) (m : MMetaSlab (MTree r d)) (l rr : MTree r d) (li : Nat) (c : Ctx)
    (hl : m.children[li]? = some l) (hr : m.children[li + 1]? = some rr) :
    List.Perm ((MTree.hdr d rr).id :: md_ids (d + 1) (MMetaSlab.mergeChildren m l rr li (li + 1) c).1)
      (md_ids (d + 1) m) := by
  obtain ⟨A, B, e, hA⟩ := mtm_split2 m.children li l rr hl hr
  have e' : (MMetaSlab.mergeChildren m l rr li (li + 1) c).1.children = A ++ MTree.merge d l rr :: B := by
    show (m.children.set li (MTree.merge d l rr)).eraseIdx (li + 1) = _
    rw [e, ← hA, mds_set_at]
    exact mtm_erase A B _ _
  show List.Perm ((MTree.hdr d rr).id :: (m.hdr.id ::
    (MMetaSlab.mergeChildren m l rr li (li + 1) c).1.children.flatMap (md_ids d))) (m.hdr.id :: m.children.flatMap (md_ids d))
  rw [e', e]
  simp only [List.flatMap_append, List.flatMap_cons]
  refine (List.Perm.swap _ _ _).trans (List.Perm.cons _ ?_)
  refine List.perm_middle.symm.trans (List.Perm.append_left _ ?_)
  rw [← List.append_assoc]
  exact List.Perm.append_right _ (mtm_ids_merge d l rr)

end ids

/-! ### the identifiers after `MergeOrRebalanceChildSlab`, whichever branch is taken -/

section idpost
variable {r : Nat}

/-- the identifiers of the new parent are those of the old one - or those without ONE identifier, which is gone -/
def mtm_IdPost (s' : MHSt r) (d : Nat) (m m' : MMetaSlab (MTree r d)) : Prop :=
  m'.hdr.id = m.hdr.id ∧
  (List.Perm (md_ids (d + 1) m') (md_ids (d + 1) m) ∨
   ∃ rid, List.Perm (rid :: md_ids (d + 1) m') (md_ids (d + 1) m) ∧ s'.heap rid = none)

theorem mtm_rebHeapOf_popped (T : Nat) (d : Nat) (m : MMetaSlab (MTree r d)) (x : Option DX) (l rr : MTree r d)
    (li ri : Nat) (b : Bool) (s : MHSt r) : (mrm_rebHeapOf T d m x l rr li ri b s).popped = s.popped := by
  simp only [mrm_rebHeapOf]
  split <;> rfl

theorem mtm_morHeap_popped (T : Nat) (d : Nat) (m : MMetaSlab (MTree r d)) (x : Option DX) (child : MTree r d)
    (k u : Nat) (s : MHSt r) : (mrm_morHeap T d m x child k u s).popped = s.popped := by
  simp only [mrm_morHeap]
  repeat' split
  all_goals first | rfl | exact mtm_rebHeapOf_popped T d m x _ _ _ _ _ s

variable (T : Nat) (d : Nat) (m : MMetaSlab (MTree r d)) (x : Option DX) (child : MTree r d) (k : Nat) (s : MHSt r)
  (m' : MMetaSlab (MTree r d)) (c' : Ctx) (hh : mrm_MorHeld s d m child k) (hck : m.children[k]? = some child)
include hh hck

omit hh in
theorem mtm_leafRebR (y : MTree r d) (hy : m.children[k + 1]? = some y)
    (h : MMetaSlab.rebalanceChildren T m child y k (k + 1) true s.ctx = .ok (m', c')) :
    mtm_IdPost (mrm_rebHeapOf T d m x child y k (k + 1) true s) d m m' :=
  ⟨(mrm_rebalanceChildren_ok T d m child y k (k + 1) true s.ctx m' c' h).2,
    Or.inl (mtm_ids_rebalanceChildren T d m child y k true s.ctx m' c' hck hy h)⟩

omit hh in
theorem mtm_leafRebL (l : MTree r d) (hk0 : 0 < k) (hl : m.children[k - 1]? = some l)
    (h : MMetaSlab.rebalanceChildren T m l child (k - 1) k false s.ctx = .ok (m', c')) :
    mtm_IdPost (mrm_rebHeapOf T d m x l child (k - 1) k false s) d m m' := by
  obtain ⟨j, rfl⟩ : ∃ j, k = j + 1 := ⟨k - 1, by omega⟩
  simp only [Nat.add_sub_cancel] at hl h ⊢
  exact ⟨(mrm_rebalanceChildren_ok T d m l child j (j + 1) false s.ctx m' c' h).2,
    Or.inl (mtm_ids_rebalanceChildren T d m l child j false s.ctx m' c' hl hck h)⟩

theorem mtm_leafMrgR (y : MTree r d) (hy : m.children[k + 1]? = some y)
    (h : (Except.ok (MMetaSlab.mergeChildren m child y k (k + 1) s.ctx) : Except MErr _) = .ok (m', c')) :
    mtm_IdPost (mrm_mergeHeapOf d m x child y k (k + 1) s) d m m' := by
  have hm : (MMetaSlab.mergeChildren m child y k (k + 1) s.ctx).1 = m' := congrArg Prod.fst (Except.ok.inj h)
  subst hm
  have p := mrm_mergeHeapOf_post d m x child y k (k + 1) s (mrm_pairR s d m child k y hh hy)
  exact ⟨rfl, Or.inr ⟨_, mtm_ids_mergeChildren d m child y k s.ctx hck hy, p.2.2.1⟩⟩

theorem mtm_leafMrgL (l : MTree r d) (hk0 : 0 < k) (hl : m.children[k - 1]? = some l)
    (h : (Except.ok (MMetaSlab.mergeChildren m l child (k - 1) k s.ctx) : Except MErr _) = .ok (m', c')) :
    mtm_IdPost (mrm_mergeHeapOf d m x l child (k - 1) k s) d m m' := by
  have hm : (MMetaSlab.mergeChildren m l child (k - 1) k s.ctx).1 = m' := congrArg Prod.fst (Except.ok.inj h)
  subst hm
  have p := mrm_mergeHeapOf_post d m x l child (k - 1) k s (mrm_pairL s d m child k l hh hk0 hl)
  obtain ⟨j, rfl⟩ : ∃ j, k = j + 1 := ⟨k - 1, by omega⟩
  simp only [Nat.add_sub_cancel] at hl p ⊢
  exact ⟨rfl, Or.inr ⟨_, mtm_ids_mergeChildren d m l child j s.ctx hl hck, p.2.2.1⟩⟩

theorem mtm_mor_idpost (u : Nat)
    (h : MMetaSlab.mergeOrRebalanceChildSlab T m child k u s.ctx = .ok (m', c')) :
    mtm_IdPost (mrm_morHeap T d m x child k u s) d m m' := by
  revert h
  simp only [MMetaSlab.mergeOrRebalanceChildSlab, mrm_morHeap]
  cases hl : (if k > 0 then m.children[k - 1]? else none) with
  | none =>
    cases hx : (if k + 1 < m.childHdrs.length then m.children[k + 1]? else none) with
    | none => simp only [Bool.or_false, Bool.false_eq_true, if_false]; intro h; cases h
    | some y =>
      have hy : m.children[k + 1]? = some y := by
        by_cases hk : k + 1 < m.childHdrs.length
        · rw [if_pos hk] at hx; exact hx
        · rw [if_neg hk] at hx; cases hx
      simp only [Bool.false_or]
      split
      · exact mtm_leafRebR T d m x child k s m' c' hck y hy
      · exact mtm_leafMrgR d m x child k s m' c' hh hck y hy
  | some l =>
    have hkl : 0 < k ∧ m.children[k - 1]? = some l := by
      by_cases hk : k > 0
      · rw [if_pos hk] at hl; exact ⟨hk, hl⟩
      · rw [if_neg hk] at hl; cases hl
    obtain ⟨hk0, hl'⟩ := hkl
    cases hx : (if k + 1 < m.childHdrs.length then m.children[k + 1]? else none) with
    | none =>
      simp only [Bool.or_false]
      split
      · exact mtm_leafRebL T d m x child k s m' c' hck l hk0 hl'
      · exact mtm_leafMrgL d m x child k s m' c' hh hck l hk0 hl'
    | some y =>
      have hy : m.children[k + 1]? = some y := by
        by_cases hk : k + 1 < m.childHdrs.length
        · rw [if_pos hk] at hx; exact hx
        · rw [if_neg hk] at hx; cases hx
      simp only []
      repeat' split
      all_goals first
        | exact mtm_leafRebR T d m x child k s m' c' hck y hy
        | exact mtm_leafMrgR d m x child k s m' c' hh hck y hy
        | exact mtm_leafRebL T d m x child k s m' c' hck l hk0 hl'
        | exact mtm_leafMrgL d m x child k s m' c' hh hck l hk0 hl'

end idpost

/-! ### from `mds_Pre` to the hypotheses of the heap theorems, and from their conclusions to `mds_Post` -/

section assemble
variable {r : Nat}

theorem mtm_nodup_of_mem {α β : Type} (f : α → List β) : ∀ (l : List α), (l.flatMap f).Nodup → ∀ c ∈ l, (f c).Nodup
  | [], _, c, hc => by cases hc
  | x :: xs, h, c, hc => by
    rw [List.flatMap_cons, List.nodup_append] at h
    rcases List.mem_cons.1 hc with e | hin
    · subst e; exact h.1
    · exact mtm_nodup_of_mem f xs h.2.1 c hin

theorem mtm_disj_lt {α β : Type} (f : α → List β) : ∀ (l : List α), (l.flatMap f).Nodup →
    ∀ (i j : Nat) (a b : α), i < j → l[i]? = some a → l[j]? = some b → ∀ x ∈ f a, x ∉ f b
  | [], _, i, j, a, b, _, ha, _ => by simp at ha
  | c :: cs, h, 0, j + 1, a, b, _, ha, hb => by
    rw [List.flatMap_cons, List.nodup_append] at h
    have e : c = a := by simpa using ha
    subst e
    have hb' : cs[j]? = some b := by simpa using hb
    intro x hx hxb
    exact h.2.2 x hx x (List.mem_flatMap.mpr ⟨b, List.mem_of_getElem? hb', hxb⟩) rfl
  | c :: cs, h, i + 1, j + 1, a, b, hij, ha, hb => by
    rw [List.flatMap_cons, List.nodup_append] at h
    exact mtm_disj_lt f cs h.2.1 i j a b (by omega) (by simpa using ha) (by simpa using hb)
  | c :: cs, _, i + 1, 0, a, b, hij, _, _ => by omega
  | c :: cs, _, 0, 0, a, b, hij, _, _ => by omega

theorem mtm_disj {α β : Type} (f : α → List β) (l : List α) (h : (l.flatMap f).Nodup)
    (i j : Nat) (a b : α) (hij : i ≠ j) (ha : l[i]? = some a) (hb : l[j]? = some b) : ∀ x ∈ f a, x ∉ f b := by
  rcases Nat.lt_or_gt_of_ne hij with hlt | hgt
  · exact mtm_disj_lt f l h i j a b hlt ha hb
  · intro x hx hxb
    exact mtm_disj_lt f l h j i b a hgt hb ha x hxb hx

theorem mtm_at_eq {d : Nat} (m : MMetaSlab (MTree r d)) (child : MTree r d) (k j : Nat)
    (hck : m.children[k]? = some child) : mrm_at m child k j = m.children[j]? := by
  simp only [mrm_at]
  split
  · rename_i e; rw [e, hck]
  · rfl

/-- the hypothesis of the heap-post theorems from what the descent guarantees before a restructuring call -/
theorem mtm_MorHeld_of_Pre {Q : (d : Nat) → MTree r d → Prop} {addr : Nat} {s1 : MHSt r} {d : Nat}
    {m1 : MMetaSlab (MTree r d)} (hp : mds_Pre Q addr s1 d m1) (child : MTree r d) (k : Nat)
    (hck : m1.children[k]? = some child) : mrm_MorHeld s1 d m1 child k := by
  have hids : md_ids (d + 1) m1 = m1.hdr.id :: m1.children.flatMap (md_ids d) := rfl
  have hnd := hp.nodup
  rw [hids, List.nodup_cons] at hnd
  refine ⟨mrm_MHolds_kids _ d child none (hp.held child (List.mem_of_getElem? hck)),
    fun j c _ hj => hp.held c (List.mem_of_getElem? hj), fun j c hj hin => ?_, fun i j a b hij hi hj => ?_,
    fun j c hj hin => ?_⟩
  · rw [mtm_at_eq m1 child k j hck] at hj
    exact hnd.1 (List.mem_flatMap.mpr ⟨c, List.mem_of_getElem? hj, hin⟩)
  · rw [mtm_at_eq m1 child k i hck] at hi
    rw [mtm_at_eq m1 child k j hck] at hj
    exact mtm_disj (md_ids d) m1.children hnd.2 i j a b hij hi hj
  · rw [mtm_at_eq m1 child k j hck] at hj
    have hc := mtm_nodup_of_mem (md_ids d) m1.children hnd.2 c (List.mem_of_getElem? hj)
    rw [mrm_md_ids_eq, List.nodup_cons] at hc
    exact hc.1 hin

theorem mtm_rebHeapOf_ctr (T : Nat) (d : Nat) (m : MMetaSlab (MTree r d)) (x : Option DX) (l rr : MTree r d)
    (li ri : Nat) (b : Bool) (s : MHSt r) : (mrm_rebHeapOf T d m x l rr li ri b s).ctx.ctr = s.ctx.ctr := by
  simp only [mrm_rebHeapOf]
  split <;> rfl

theorem mtm_morHeap_ctr (T : Nat) (d : Nat) (m : MMetaSlab (MTree r d)) (x : Option DX) (child : MTree r d)
    (k u : Nat) (s : MHSt r) : (mrm_morHeap T d m x child k u s).ctx.ctr = s.ctx.ctr := by
  simp only [mrm_morHeap]
  repeat' split
  all_goals first | rfl | exact mtm_rebHeapOf_ctr T d m x _ _ _ _ _ s

/-- `mds_Post` from the two facts about the heap after the call -/
theorem mtm_Post {Q : (d : Nat) → MTree r d → Prop} {addr : Nat} {s1 s' : MHSt r} {d : Nat}
    {m1 m' : MMetaSlab (MTree r d)} {x : Option DX} {child : MTree r d} {k : Nat}
    (hp : mds_Pre Q addr s1 d m1) (hck : m1.children[k]? = some child)
    (hpost : mrm_MorPost s1 s' d m1 x child m') (hid : mtm_IdPost s' d m1 m') (hctr : s'.ctx.ctr = s1.ctx.ctr) :
    mds_Post addr s1 s' (d + 1) m1 m' x := by
  obtain ⟨hroot, hids⟩ := hid
  have hI : md_ids (d + 1) m1 = m1.hdr.id :: m1.children.flatMap (md_ids d) := rfl
  have hsub : ∀ id ∈ md_ids (d + 1) m', id ∈ md_ids (d + 1) m1 := by
    intro id hin
    rcases hids with hperm | ⟨rid, hperm, _⟩
    · exact hperm.subset hin
    · exact hperm.subset (List.mem_cons_of_mem _ hin)
  have hchild : ∀ c ∈ m1.children, (MTree.hdr d c).id ∈ md_ids (d + 1) m1 := fun c hc => by
    rw [hI]; exact List.mem_cons_of_mem _ (List.mem_flatMap.mpr ⟨c, hc, mrm_hid d c⟩)
  have hframe : ∀ id, id ∉ md_ids (d + 1) m1 → s'.heap id = s1.heap id := by
    intro id hn
    refine hpost.2.2 id (fun e => hn (e ▸ (hI ▸ List.mem_cons_self))) (fun e => hn ?_) (fun j c hj e => hn ?_)
    · rw [e]; exact hchild child (List.mem_of_getElem? hck)
    · rw [e]; exact hchild c (List.mem_of_getElem? hj)
  have hsome : ∀ id ∈ md_ids (d + 1) m1, (s1.heap id).isSome = true := by
    intro id hin
    rw [hI] at hin
    rcases List.mem_cons.mp hin with e | hm
    · rw [e]; exact hp.rootSome
    · obtain ⟨c, hc, hic⟩ := List.mem_flatMap.mp hm
      exact mds_MHolds_some d c none s1.heap (hp.held c hc) id hic
  refine ⟨?_, fun id hin => hp.addrOk id (hsub id hin), ⟨?_, hpost.2.1⟩, fun id hin hn => absurd (hsub id hin) hn, ?_,
    fun id hn _ => hframe id hn, fun id ha hlt => ?_⟩
  · rcases hids with hperm | ⟨rid, hperm, _⟩
    · exact hperm.nodup_iff.mpr hp.nodup
    · exact (List.nodup_cons.mp (hperm.nodup_iff.mpr hp.nodup)).2
  · show s'.heap m'.hdr.id = _
    rw [hroot]; exact hpost.1
  · intro id hin hn
    rcases hids with hperm | ⟨rid, hperm, hgone⟩
    · exact absurd (hperm.symm.subset hin) hn
    · rcases List.mem_cons.mp (hperm.symm.subset hin) with e | h'
      · rw [e]; exact hgone
      · exact absurd h' hn
  · have hnone : s1.heap id = none := hp.ff id ha (hctr ▸ hlt)
    have hn : id ∉ md_ids (d + 1) m1 := fun hin => by
      have := hsome id hin; rw [hnone] at this; cases this
    rw [hframe id hn]; exact hnone

end assemble

/-! ### one call of `(rsOf T).mergeOrRebalance` in a state satisfying `mds_Pre` -/

section call
variable {r : Nat}

/-- the conclusion of `MMorTail` for ONE call, from `mds_Pre` and the numeric side conditions of
    `Ob_MergeOrRebalanceChildSlab_heap` (all about MODEL values) -/
theorem mtm_call {Q : (d : Nat) → MTree r d → Prop} (T addr d : Nat) (m1 : MMetaSlab (MTree r d)) (x : Option DX)
    (child' : MTree r d) (k u : Nat) (s1 : MHSt r)
    (hp : mds_Pre Q addr s1 d m1) (hck : m1.children[k]? = some child')
    (hsz : Gen.mapSlabHeaderSize ≤ m1.hdr.size)
    (hfit : mrm_MorFit T d m1 child' k u) (hfc : mr_RootFit d child')
    (hsize : ∀ i t, (i + 1 = k ∨ i = k + 1) → m1.children[i]? = some t → (MTree.hdr d t).size < 2^32)
    (hLend : ∀ t, 0 < k → m1.children[k - 1]? = some t → MTree.canLendToRight T d t u = true → msl_LendOK T d t child')
    (hBorrow : ∀ t, m1.children[k + 1]? = some t → MTree.canLendToLeft T d t u = true → msl_BorrowOK T d child' t)
    (hMergeL : ∀ t, 0 < k → m1.children[k - 1]? = some t → msl_MergeOK d t child')
    (hMergeR : ∀ t, m1.children[k + 1]? = some t → msl_MergeOK d child' t) :
    match m1.mergeOrRebalanceChildSlab T child' k u s1.ctx with
    | .ok (m', c') =>
      ∃ s' w, (rsOf T).mergeOrRebalance (md_meta m1 x) s1 (md_tree d child' none) (Int.ofNat k) (u32 u) =
          (none, md_meta m' x, s', w) ∧
        s'.ctx = c' ∧ s'.popped = s1.popped ∧ mds_Post addr s1 s' (d + 1) m1 m' x
    | .error e =>
      ∃ a s' w, (rsOf T).mergeOrRebalance (md_meta m1 x) s1 (md_tree d child' none) (Int.ofNat k) (u32 u) =
        (some e, a, s', w) := by
  have hlen : m1.children.length = m1.childHdrs.length := by rw [hp.hdrs, List.length_map]
  have hk : k < m1.childHdrs.length := by
    rw [← hlen]; exact (List.getElem?_eq_some_iff.mp hck).1
  have hheap : ∀ i t h, (i + 1 = k ∨ i = k + 1) → m1.children[i]? = some t → m1.childHdrs[i]? = some h →
      s1.heap h.id = some (md_tree d t none) := by
    intro i t h _ ht hh
    rw [hp.hdrs, List.getElem?_map, ht] at hh
    have e : MTree.hdr d t = h := by simpa using hh
    rw [← e]
    exact (hp.held t (List.mem_of_getElem? ht)).root
  have hob := Ob_MergeOrRebalanceChildSlab_heap T d m1 x child' k u s1 hlen hk hsz hheap hfit hfc hsize hLend hBorrow
    hMergeL hMergeR
  cases hres : m1.mergeOrRebalanceChildSlab T child' k u s1.ctx with
  | error e =>
    rw [hres] at hob
    exact ⟨_, _, _, hob⟩
  | ok p =>
    obtain ⟨m', c'⟩ := p
    rw [hres] at hob
    have hh := mtm_MorHeld_of_Pre hp child' k hck
    refine ⟨_, _, hob, mrm_morHeap_ctx T d m1 x child' k u s1 m' c' hres, mtm_morHeap_popped T d m1 x child' k u s1,
      mtm_Post hp hck (Ob_MergeOrRebalanceChildSlab_heapPost T d m1 x child' k s1 m' c' hh u hres)
        (mtm_mor_idpost T d m1 x child' k s1 m' c' hh hck u hres) (mtm_morHeap_ctr T d m1 x child' k u s1)⟩

end call

/-! ### the numeric side conditions from the provider invariant `MQ` -/

section numeric
variable {r : Nat} {T : Nat} {D : DigestFn (r + 1)}

/-- what the side conditions need of ONE child (from `MQ`): a data slab is in WP10's working state `MDataWork`, its
    `uint` fields are in range, its header size is exact (non-root prefix); an index slab has exact size, at least one
    child, a `uint32` size -/
def mtm_CW (T : Nat) : (d : Nat) → MTree r d → Prop
  | 0, (s : MDataSlab r) =>
    MDataWork T s ∧ mr_HFit s.elems ∧ s.hdr.size = Gen.mapDataSlabPrefixSize + s.elems.size ∧ s.elems.level = 0
  | d + 1, (m : MMetaSlab (MTree r d)) =>
    m.hdr.size = 12 + 18 * m.childHdrs.length ∧ 1 ≤ m.childHdrs.length ∧ m.hdr.size < 2^32

theorem mtm_CW_of_MQ (hT : legalThreshold T = true) : ∀ (d : Nat) (t : MTree r d), MQ T D d t → mtm_CW T d t
  | 0, t, h => by
    have hl : MDataLoose T D false (t : MDataSlab r) := h.1
    have hinv := hl.elems_inv
    simp only [ElemsInv] at hinv
    have hlv := hinv.2.1
    have hlen := hinv.2.2.1
    have hsz := hinv.2.2.2.2.1
    have hse := hl.size_eq
    rw [hl.prefix_nontop] at hse
    have hb : (MDataSlab.hdr t).size ≤ maxThr T + (maxEntry T + 16) := h.2.1
    have hme := maxEntry_eq hT
    have hbd := map_legal_bounds hT
    have hfit := thresholds_fit hT
    have hmx : maxThr T = 3 * T / 2 := rfl
    simp only [Gen.mapDataSlabPrefixSize] at hse
    have hsle : (MDataSlab.elems t).size ≤ 2 * maxThr T := by omega
    refine ⟨⟨hlen, hsz, by rw [hlv]; decide, hsle⟩, ⟨by omega, by rw [hlv]; decide, h.2.2⟩, hse, hlv⟩
  | d + 1, t, h => by
    have hl : MetaLoose T D d false (t : MMetaSlab (MTree r d)) := h.1.1
    have h1 : 1 ≤ (MMetaSlab.children t).length := h.1.2
    have hh := hl.2.1
    have hs := hl.2.2.1
    have hb : (MMetaSlab.hdr t).size ≤ maxThr T + 18 := h.2.1
    have hfit := thresholds_fit hT
    have hlen : (MMetaSlab.childHdrs t).length = (MMetaSlab.children t).length := by rw [hh, List.length_map]
    simp only [Gen.mapMetaDataSlabPrefixSize, Gen.mapSlabHeaderSize] at hs
    exact ⟨by rw [hlen]; exact hs, by rw [hlen]; exact h1, by omega⟩

theorem mtm_CW_size (hT : legalThreshold T = true) : ∀ (d : Nat) (t : MTree r d), mtm_CW T d t →
    (MTree.hdr d t).size < 2^32
  | 0, t, h => by
    have h1 := (msafe_work_fits hT h.1).1
    have h2 := h.2.2.1
    simp only [Gen.mapDataSlabPrefixSize] at h2
    show (MDataSlab.hdr t).size < 2^32
    omega
  | _ + 1, _, h => h.2.2

theorem mtm_CW_fit : ∀ (d : Nat) (t : MTree r d), mtm_CW T d t → mr_RootFit d t
  | 0, _, h => h.2.1
  | _ + 1, _, _ => trivial

theorem mtm_MergeOK (hT : legalThreshold T = true) : ∀ (d : Nat) (l rr : MTree r d), mtm_CW T d l → mtm_CW T d rr →
    msl_MergeOK d l rr
  | 0, l, rr, hl, hr => by
    have h1 := msafe_work_fits hT hl.1
    have h2 := msafe_work_fits hT hr.1
    exact ⟨h2.2.1, by omega⟩
  | d + 1, l, rr, _, hr => by
    show Gen.mapMetaDataSlabPrefixSize ≤ (MMetaSlab.hdr rr).size
    have := hr.1
    simp only [Gen.mapMetaDataSlabPrefixSize]; omega

theorem mtm_meta_canLend {α : Type} (m : MMetaSlab α) (u : Nat) (h : MMetaSlab.canLend T m u = true) :
    minThr T < m.hdr.size := by
  simp only [MMetaSlab.canLend] at h
  split at h
  · have := of_decide_eq_true h; omega
  · cases h

theorem mtm_LendOK (hT : legalThreshold T = true) : ∀ (d : Nat) (l c : MTree r d) (u : Nat), mtm_CW T d l →
    mtm_CW T d c → MTree.canLendToRight T d l u = true → MTree.isUnderflow T d c = some u → msl_LendOK T d l c
  | 0, l, c, u, hl, hc, _, _ => by
    have ht := thresholds_fit hT
    have h1 := msafe_work_fits hT hl.1
    have h2 := msafe_work_fits hT hc.1
    exact ⟨ht.2.1, ht.2.2.2.2.2.1, hl.1.level_lt, hc.1.level_lt, by omega, h2.2.1, h1.2.2.2, hl.1.hkeys_len⟩
  | d + 1, l, c, u, hl, hc, hcan, hun => by
    have h1 := mtm_meta_canLend (l : MMetaSlab (MTree r d)) u hcan
    have h2 : minThr T > (MMetaSlab.hdr c).size := by
      have hun' : MMetaSlab.isUnderflow T (c : MMetaSlab (MTree r d)) = some u := hun
      simp only [MMetaSlab.isUnderflow] at hun'
      split at hun'
      · assumption
      · cases hun'
    have e1 := hl.1
    have e2 := hc.1
    have e3 := hl.2.1
    show (MMetaSlab.childHdrs c).length ≤ (MMetaSlab.childHdrs l).length + 1 ∧
      0 < (MMetaSlab.childHdrs l).length + (MMetaSlab.childHdrs c).length
    omega

theorem mtm_BorrowOK (hT : legalThreshold T = true) : ∀ (d : Nat) (c rr : MTree r d) (u : Nat), mtm_CW T d c →
    mtm_CW T d rr → MTree.canLendToLeft T d rr u = true → MTree.isUnderflow T d c = some u → msl_BorrowOK T d c rr
  | 0, c, rr, u, hc, hr, _, _ => by
    have ht := thresholds_fit hT
    have h1 := msafe_work_fits hT hc.1
    have h2 := msafe_work_fits hT hr.1
    have hlen := hr.1.hkeys_len
    exact ⟨ht.2.1, ht.2.2.2.2.2.1, hc.1.level_lt, hr.1.level_lt, by omega, h1.2.1, h2.2.2.2, by omega⟩
  | d + 1, c, rr, u, hc, hr, hcan, hun => by
    have h1 := mtm_meta_canLend (rr : MMetaSlab (MTree r d)) u hcan
    have h2 : minThr T > (MMetaSlab.hdr c).size := by
      have hun' : MMetaSlab.isUnderflow T (c : MMetaSlab (MTree r d)) = some u := hun
      simp only [MMetaSlab.isUnderflow] at hun'
      split at hun'
      · assumption
      · cases hun'
    have e1 := hr.1
    have e2 := hc.1
    have e3 := hr.2.1
    show (MMetaSlab.childHdrs c).length ≤ (MMetaSlab.childHdrs rr).length ∧ 0 < (MMetaSlab.childHdrs rr).length
    omega

end numeric

/-! ### the `uint` ranges of the result slabs (`mrm_MorFit`) -/

section fits
variable {r : Nat} {T : Nat}

theorem mtm_lend_struct {α : Type} (o : ElemsOps α) (T : Nat) (l rr le re : HkeyElems α)
    (h : HkeyElems.lendToRight o T l rr = .ok (le, re)) :
    le.level = l.level ∧ re.level = rr.level ∧ (∀ x ∈ le.hkeys, x ∈ l.hkeys) ∧
    (∀ x ∈ re.hkeys, x ∈ l.hkeys ∨ x ∈ rr.hkeys) := by
  simp only [HkeyElems.lendToRight] at h
  split at h
  · cases h
  · revert h
    generalize HkeyElems.lendLoop _ _ _ _ _ _ = res
    obtain ⟨lc, ls⟩ := res
    intro h
    simp only [Except.ok.injEq, Prod.mk.injEq] at h
    obtain ⟨rfl, rfl⟩ := h
    refine ⟨rfl, rfl, fun x hx => List.mem_of_mem_take hx, fun x hx => ?_⟩
    rcases List.mem_append.mp hx with hx | hx
    · exact Or.inl (List.mem_of_mem_drop hx)
    · exact Or.inr hx

theorem mtm_borrow_struct {α : Type} (o : ElemsOps α) (T : Nat) (l rr le re : HkeyElems α)
    (h : HkeyElems.borrowFromRight o T l rr = .ok (le, re)) :
    le.level = l.level ∧ re.level = rr.level ∧ (∀ x ∈ le.hkeys, x ∈ l.hkeys ∨ x ∈ rr.hkeys) ∧
    (∀ x ∈ re.hkeys, x ∈ rr.hkeys) := by
  simp only [HkeyElems.borrowFromRight] at h
  split at h
  · cases h
  · revert h
    generalize HkeyElems.borrowLoop _ _ _ _ _ _ = res
    obtain ⟨lc, ls⟩ := res
    intro h
    simp only [Except.ok.injEq, Prod.mk.injEq] at h
    obtain ⟨rfl, rfl⟩ := h
    refine ⟨rfl, rfl, fun x hx => ?_, fun x hx => List.mem_of_mem_drop hx⟩
    rcases List.mem_append.mp hx with hx | hx
    · exact Or.inl hx
    · exact Or.inr (List.mem_of_mem_take hx)

/-- both results of a data-slab rebalance step are in `uint` range when both operands are in the working state -/
theorem mtm_fit_rebalanced0 (hT : legalThreshold T = true) (l rr : MDataSlab r) (b : Bool)
    (hl : mtm_CW (r := r) T 0 l) (hr : mtm_CW (r := r) T 0 rr) :
    mr_RootFit (r := r) 0 (msl_rebalanced T 0 l rr b).1 ∧ mr_RootFit (r := r) 0 (msl_rebalanced T 0 l rr b).2 := by
  have h1 := msafe_work_fits hT hl.1
  have h2 := msafe_work_fits hT hr.1
  have fl : mr_HFit l.elems := hl.2.1
  have fr : mr_HFit rr.elems := hr.2.1
  cases b
  · simp only [msl_rebalanced, Bool.false_eq_true, if_false, MTree.lendToRight, MDataSlab.lendToRight, bind, Except.bind,
      pure, Except.pure]
    cases hres : HkeyElems.lendToRight (MDataSlab.eops r) T l.elems rr.elems with
    | error e => exact ⟨fl, fr⟩
    | ok p =>
      obtain ⟨le, re⟩ := p
      have hs := msl_hkey_lend_sizes (MDataSlab.eops r) T l.elems rr.elems le re h1.2.2.2 h2.2.1 hres
      obtain ⟨s1, s2, s3, s4⟩ := mtm_lend_struct (MDataSlab.eops r) T l.elems rr.elems le re hres
      show mr_HFit le ∧ mr_HFit re
      refine ⟨⟨by omega, by rw [s1]; exact fl.level, fun x hx => fl.dig x (s3 x hx)⟩,
        ⟨by omega, by rw [s2]; exact fr.level, fun x hx => ?_⟩⟩
      rcases s4 x hx with hx | hx
      · exact fl.dig x hx
      · exact fr.dig x hx
  · simp only [msl_rebalanced, if_true, MTree.borrowFromRight, MDataSlab.borrowFromRight, bind, Except.bind,
      pure, Except.pure]
    cases hres : HkeyElems.borrowFromRight (MDataSlab.eops r) T l.elems rr.elems with
    | error e => exact ⟨fl, fr⟩
    | ok p =>
      obtain ⟨le, re⟩ := p
      have hs := msl_hkey_borrow_sizes (MDataSlab.eops r) T l.elems rr.elems le re h2.2.2.2 h1.2.1 hres
      obtain ⟨s1, s2, s3, s4⟩ := mtm_borrow_struct (MDataSlab.eops r) T l.elems rr.elems le re hres
      show mr_HFit le ∧ mr_HFit re
      refine ⟨⟨by omega, by rw [s1]; exact fl.level, fun x hx => ?_⟩,
        ⟨by omega, by rw [s2]; exact fr.level, fun x hx => fr.dig x (s4 x hx)⟩⟩
      rcases s3 x hx with hx | hx
      · exact fl.dig x hx
      · exact fr.dig x hx

theorem mtm_fit_rebalanced (hT : legalThreshold T = true) : ∀ (d : Nat) (l rr : MTree r d) (b : Bool),
    mtm_CW T d l → mtm_CW T d rr →
    mr_RootFit d (msl_rebalanced T d l rr b).1 ∧ mr_RootFit d (msl_rebalanced T d l rr b).2
  | 0, l, rr, b, hl, hr => mtm_fit_rebalanced0 hT l rr b hl hr
  | _ + 1, _, _, _, _, _ => ⟨trivial, trivial⟩

theorem mtm_fit_merge (hT : legalThreshold T = true) : ∀ (d : Nat) (l rr : MTree r d),
    mtm_CW T d l → mtm_CW T d rr → mr_RootFit d (MTree.merge d l rr)
  | 0, l, rr, hl, hr => by
    have h1 := msafe_work_fits hT hl.1
    have h2 := msafe_work_fits hT hr.1
    have fl : mr_HFit (MDataSlab.elems l) := hl.2.1
    have fr : mr_HFit (MDataSlab.elems rr) := hr.2.1
    show mr_HFit (HkeyElems.merge (MDataSlab.elems l) (MDataSlab.elems rr))
    refine ⟨?_, fl.level, fun x hx => ?_⟩
    · show (MDataSlab.elems l).size + ((MDataSlab.elems rr).size - Gen.hkeyElementsPrefixSize) < 2^32
      omega
    · rcases List.mem_append.mp hx with hx | hx
      · exact fl.dig x hx
      · exact fr.dig x hx
  | _ + 1, _, _, _, _ => trivial

end fits

/-! ### THE TAIL -/

section tail
variable {r : Nat} {T : Nat} {D : DigestFn (r + 1)}

theorem mtm_underflow_le : ∀ (d : Nat) (t : MTree r d) (u : Nat), MTree.isUnderflow T d t = some u → u ≤ minThr T
  | 0, t, u, h => by
    have h' : MDataSlab.isUnderflow T (t : MDataSlab r) = some u := h
    simp only [MDataSlab.isUnderflow] at h'
    split at h'
    · have := Option.some.inj h'; omega
    · cases h'
  | d + 1, t, u, h => by
    have h' : MMetaSlab.isUnderflow T (t : MMetaSlab (MTree r d)) = some u := h
    simp only [MMetaSlab.isUnderflow] at h'
    split at h'
    · have := Option.some.inj h'; omega
    · cases h'

/-- **the MERGE-OR-REBALANCE tail for `rs := rsOf T`, `Q := MQ T D`** - the body of `MMorTail T (rsOf T) (MQ T D)`
    (same quantifiers, same conclusion) with ONE extra premise about the model value `m1`: the receiver's header size
    covers one child header, `hsz` (FORCED: Go's `m.header.size -= mapSlabHeaderSize` wraps around in `uint32`, the
    model's truncated subtraction gives 0; `mds_Pre` constrains only the CHILDREN of `m1`, so `MMorTail` itself is not
    provable for `rsOf T`).  Everything else - the neighbours read from the heap, the `uint` ranges, the hypotheses of
    the slab-level theorems, the heap afterwards (`mds_Post`) - is discharged from `mds_Pre (MQ T D)`. -/
theorem MMorTail_rsOf_partial (hT : legalThreshold T = true) :
    ∀ (addr d : Nat) (m1 : MMetaSlab (MTree r d)) (x : Option DX) (child' : MTree r d) (k u : Nat) (s1 : MHSt r),
      mds_Pre (MQ T D) addr s1 d m1 → Gen.mapSlabHeaderSize ≤ m1.hdr.size →
      m1.children[k]? = some child' → MTree.isFull T d child' = false →
      MTree.isUnderflow T d child' = some u →
      match m1.mergeOrRebalanceChildSlab T child' k u s1.ctx with
      | .ok (m', c') =>
        ∃ s' w, (rsOf T).mergeOrRebalance (md_meta m1 x) s1 (md_tree d child' none) (Int.ofNat k) (u32 u) =
            (none, md_meta m' x, s', w) ∧
          s'.ctx = c' ∧ s'.popped = s1.popped ∧ mds_Post addr s1 s' (d + 1) m1 m' x
      | .error e =>
        ∃ a s' w, (rsOf T).mergeOrRebalance (md_meta m1 x) s1 (md_tree d child' none) (Int.ofNat k) (u32 u) =
          (some e, a, s', w) := by
  intro addr d m1 x child' k u s1 hp hsz hck _ hun
  have hcw : ∀ (j : Nat) (t : MTree r d), m1.children[j]? = some t → mtm_CW T d t :=
    fun j t ht => mtm_CW_of_MQ hT d t (hp.inv t (List.mem_of_getElem? ht))
  have hc := hcw k child' hck
  have hu : u < 2^32 := by
    have := mtm_underflow_le d child' u hun
    have := (thresholds_fit hT).2.1
    omega
  refine mtm_call T addr d m1 x child' k u s1 hp hck hsz
    ⟨hu, fun i t _ ht => mtm_CW_fit d t (hcw i t ht),
      fun t _ ht => mtm_fit_rebalanced hT d t child' false (hcw _ t ht) hc,
      fun t ht => mtm_fit_rebalanced hT d child' t true hc (hcw _ t ht),
      fun t _ ht => mtm_fit_merge hT d t child' (hcw _ t ht) hc,
      fun t ht => mtm_fit_merge hT d child' t hc (hcw _ t ht)⟩
    (mtm_CW_fit d child' hc)
    (fun i t _ ht => mtm_CW_size hT d t (hcw i t ht))
    (fun t _ ht hcan => mtm_LendOK hT d t child' u (hcw _ t ht) hc hcan hun)
    (fun t ht hcan => mtm_BorrowOK hT d child' t u hc (hcw _ t ht) hcan hun)
    (fun t _ ht => mtm_MergeOK hT d t child' (hcw _ t ht) hc)
    (fun t ht => mtm_MergeOK hT d child' t hc (hcw _ t ht))

/-- `MMorTail` itself for any invariant that ALSO bounds the receiver: if every `m1` satisfying `mds_Pre (MQ T D)` at a
    call has `mapSlabHeaderSize ≤ m1.hdr.size` (hypothesis `hrecv`, about model values), the tail holds as stated -/
theorem MMorTail_rsOf_of_recv (hT : legalThreshold T = true)
    (hrecv : ∀ (addr d : Nat) (m1 : MMetaSlab (MTree r d)) (s1 : MHSt r), mds_Pre (MQ T D) addr s1 d m1 →
      Gen.mapSlabHeaderSize ≤ m1.hdr.size) :
    MMorTail T (rsOf T) (MQ T D) :=
  fun addr d m1 x child' k u s1 hp hck hnf hun =>
    MMorTail_rsOf_partial hT addr d m1 x child' k u s1 hp (hrecv addr d m1 s1 hp) hck hnf hun

end tail

end Atree.TransEq
