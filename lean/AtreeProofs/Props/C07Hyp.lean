import AtreeProofs.Codec.HypB
import AtreeProofs.Props.C06
import AtreeProofs.Props.C07
import AtreeProofs.Props.SlabAllDepth
/-
  C07 (and the C06 statements that share its hypotheses) — the hypotheses of the codec theorems are
  EVALUATED by the trace replayer on every slab the implementation encodes
  (`Codec.Slab.hypReport`, `AtreeModel/Codec/Hyp.lean`).  This file says what a passed check means:

  * `hyp_sound_…`: each Bool checker implies (indeed, is equivalent to) the Prop-valued hypothesis
    of the corresponding theorem of `Props/C07.lean` / `Props/C07Depth.lean`;
  * `hyp_sound`: if every REQUIRED clause of `hypReport` holds (`Slab.hypOK`), the slab satisfies
    `SlabOKG` (Codec/SlabAll.lean), THE hypothesis of the general theorems `C07.decode_encode`,
    `C07.reencode_fixpoint`, `C06.enc_len`, `C06.decoded_size_eq` — for array / map data slabs with the
    EXACT nesting clause `Slab.vdepth ≤ maxNestedLevels` (entry `nest-exact`) — and conversely
    (`hyp_complete`): `hypOK_iff`;
  * `hyp_roundtrip`: so on such a slab the model decoder accepts the model encoder's bytes, the decoded
    slab re-encodes to the same bytes and reports the same size (an instance of the general theorems).
-/
namespace Atree.C07
open Atree Atree.Codec Atree.Gen

/-! ### one checker per hypothesis -/

/-- the check on a map data slab passed ⇒ it is in the domain of `decode_encode_mdata_compact` -/
theorem hyp_sound_mdata (m : MapData) : mapDataOKCB m = true → MapDataOKC m := (mapDataOKCB_iff m).1
/-- … of `decode_encode_adata_compact` -/
theorem hyp_sound_adata (a : ArrData) : arrDataOKCB a = true → ArrDataOKC a := (arrDataOKCB_iff a).1
/-- … of `decode_encode_adata_wrapped` -/
theorem hyp_sound_adata_wrapped (a : ArrData) : arrDataOKWB a = true → ArrDataOKW a := (arrDataOKWB_iff a).1
/-- … of `decode_encode_mdata_inlined` -/
theorem hyp_sound_mdata_inlined (m : MapData) : mapDataOKIB m = true → MapDataOKI m := (mapDataOKIB_iff m).1
/-- … of `decode_encode_adata_inlined` -/
theorem hyp_sound_adata_inlined (a : ArrData) : arrDataOKIB a = true → ArrDataOKI a := (arrDataOKIB_iff a).1
/-- … of `decode_encode_mdata` (no inlined slab) -/
theorem hyp_sound_mdata_flat (m : MapData) : mapDataOKB m = true → MapDataOK m := (mapDataOKB_iff m).1
/-- … of `decode_encode_mindex` -/
theorem hyp_sound_mindex (m : MapMeta) : mapMetaOKB m = true → MapMetaOK m := (mapMetaOKB_iff m).1
/-- … of `decode_encode_data` -/
theorem hyp_sound_data (ty : TyInfo) (s : DataSlab) : dataOKB ty s = true → DataOK ty s := (dataOKB_iff ty s).1
/-- … of `decode_encode_meta` -/
theorem hyp_sound_meta (ty : TyInfo) (m : MetaSlab Unit) : metaOKB ty m = true → MetaOK ty m := (metaOKB_iff ty m).1
/-- … of `decode_encode_storable` -/
theorem hyp_sound_storable (e : Elem) : validElemB e = true → validElem e := (validElemB_iff e).1
/-- … of `decode_encode_storable_wrapped` -/
theorem hyp_sound_storable_wrapped (s : Stor) :
    storableGOKB s = true → ∃ x, s = .some x ∧ x.RT ∧ x.noInl ∧ x.vneed + 1 ≤ maxNestedLevels :=
  (storableGOKB_iff s).1
/-- … of `decode_encode_mdata_exact` (Props/C07Depth.lean): the exact nesting clause -/
theorem hyp_sound_mdata_exact (m : MapData) : mapDataOKXB m = true → MapDataOKX m := (mapDataOKXB_iff m).1
/-- … of `decode_encode_adata_exact` -/
theorem hyp_sound_adata_exact (a : ArrData) : arrDataOKXB a = true → ArrDataOKX a := (arrDataOKXB_iff a).1
/-- … of `decodeSlab_encodeArrDataWX` (wrapped elements, exact nesting clause) -/
theorem hyp_sound_adata_wrapped_exact (a : ArrData) : arrDataOKWXB a = true → ArrDataOKWX a :=
  (arrDataOKWXB_iff a).1
/-- the state checks: `XOK` / `XOKC` of `decode_encode_inlined_extra_data(_compact)`, `reencode_decoded_storable` -/
theorem hyp_sound_xok (xs : List XD) : xokB xs = true → XOK xs := (xokB_iff xs).1
theorem hyp_sound_xokc (xs : List XD) : xokcB xs = true → XOKC xs := (xokcB_iff xs).1

/-- The checkers DECIDE the hypotheses (both directions), so a failed check on a slab of the trace
    means the slab is outside the theorem's domain — it is not an artefact of the checker. -/
theorem hyp_checkers_exact :
    (∀ m, mapDataOKCB m = true ↔ MapDataOKC m) ∧ (∀ a, arrDataOKCB a = true ↔ ArrDataOKC a) ∧
    (∀ a, arrDataOKWB a = true ↔ ArrDataOKW a) ∧ (∀ m, mapDataOKIB m = true ↔ MapDataOKI m) ∧
    (∀ a, arrDataOKIB a = true ↔ ArrDataOKI a) ∧ (∀ m, mapDataOKB m = true ↔ MapDataOK m) ∧
    (∀ m, mapMetaOKB m = true ↔ MapMetaOK m) ∧ (∀ ty s, dataOKB ty s = true ↔ DataOK ty s) ∧
    (∀ ty m, metaOKB ty m = true ↔ MetaOK ty m) ∧ (∀ e, validElemB e = true ↔ validElem e) :=
  ⟨mapDataOKCB_iff, arrDataOKCB_iff, arrDataOKWB_iff, mapDataOKIB_iff, arrDataOKIB_iff, mapDataOKB_iff,
    mapMetaOKB_iff, dataOKB_iff, metaOKB_iff, validElemB_iff⟩

/-- … also the checkers of the predicates with the exact nesting clause -/
theorem hyp_checkers_exact_depth :
    (∀ m, mapDataOKXB m = true ↔ MapDataOKX m) ∧ (∀ a, arrDataOKXB a = true ↔ ArrDataOKX a) ∧
    (∀ a, arrDataOKWXB a = true ↔ ArrDataOKWX a) :=
  ⟨mapDataOKXB_iff, arrDataOKXB_iff, arrDataOKWXB_iff⟩

/-! ### the dispatcher -/

/-- `SlabOKG`, unfolded per kind (what the required clauses of `hypReq` spell out). -/
theorem slabOKG_unfold (s : Slab) :
    SlabOKG s ↔
      match s with
      | .data ty s => DataOK (ty.getD default) s ∧ ty.isSome = s.root
      | .index ty m => MetaOK (ty.getD default) m ∧ ty.isSome = m.root
      | .storable _ e => validElem e
      | .adata a => ArrDataOKX a ∨ ArrDataOKWX a
      | .mdata m => MapDataOKX m
      | .mindex m => MapMetaOK m
      | .storableG _ s => ∃ x, s = .some x ∧ x.RT ∧ x.noInl ∧ x.vneed + 1 ≤ maxNestedLevels := by
  cases s with
  | data _ _ => exact Iff.rfl
  | index _ _ => exact Iff.rfl
  | storable _ _ => exact Iff.rfl
  | adata _ => exact Iff.rfl
  | mdata _ => exact Iff.rfl
  | mindex _ => exact Iff.rfl
  | storableG id x =>
    constructor
    · rintro ⟨hrt, hni, hfl, hnest⟩
      obtain ⟨y, rfl⟩ := storableG_shape hni hfl
      exact ⟨y, rfl, hrt, hni, by simpa [Stor.vneed] using hnest⟩
    · rintro ⟨y, rfl, hrt, hni, hnest⟩
      exact ⟨hrt, hni, rfl, by simpa [Stor.vneed] using hnest⟩

theorem hypOK_data (ty : Option TyInfo) (s : DataSlab) :
    (Slab.data ty s).hypOK = (dataOKB (ty.getD default) s && (ty.isSome == s.root)) := by
  simp only [Slab.hypOK, Slab.hypReq, List.all_cons, List.all_nil, Bool.and_true, dataOKB, Bool.and_assoc]

theorem hypOK_index (ty : Option TyInfo) (m : MetaSlab Unit) :
    (Slab.index ty m).hypOK = (metaOKB (ty.getD default) m && (ty.isSome == m.root)) := by
  simp only [Slab.hypOK, Slab.hypReq, List.all_cons, List.all_nil, Bool.and_true, metaOKB, Bool.and_assoc]

theorem hypOK_storable (id : SlabID) (e : Elem) : (Slab.storable id e).hypOK = validElemB e := by
  simp only [Slab.hypOK, Slab.hypReq, List.all_cons, List.all_nil, Bool.and_true]

theorem hypOK_mdata (m : MapData) : (Slab.mdata m).hypOK = mapDataOKXB m := by
  simp only [Slab.hypOK, Slab.hypReq, List.all_cons, List.all_nil, Bool.and_true, mapDataOKXB]

theorem hypOK_mindex (m : MapMeta) : (Slab.mindex m).hypOK = mapMetaOKB m := by
  simp only [Slab.hypOK, Slab.hypReq, List.all_cons, List.all_nil, Bool.and_true, mapMetaOKB]

theorem hypOK_storableG (id : SlabID) (s : Stor) : (Slab.storableG id s).hypOK = storableGOKB s := by
  cases s <;>
    simp only [Slab.hypOK, Slab.hypReq, List.all_cons, List.all_nil, Bool.and_true, Bool.true_and, storableGOKB]

/-- an array data slab: the clauses `ArrDataOKX` and `ArrDataOKWX` share, and one of the two ways of
    not being a flat data slab -/
theorem hypOK_adata (a : ArrData) :
    (Slab.adata a).hypOK = (rtiStsB a.elems && (nodupKeysStsB a.elems &&
      (decide ((Slab.adata a).vdepth ≤ maxNestedLevels) && (decide (a.elems.length < 65536) &&
        ((!(encSts a.elems []).2.isEmpty || (noInlStsB a.elems && a.elems.any (fun s => !s.isFlat))) &&
          (decide ((encSts a.elems []).2.length ≤ 256) && (validNextB a.next &&
            (optAllB validTyB a.ty && decide (a.size ≤ maxUint32))))))))) := by
  simp only [Slab.hypOK, Slab.hypReq, List.all_cons, List.all_nil, Bool.and_true]

-- (`Stor.nodupKeys_of_noCompact` and its mutual block: AtreeProofs/Codec/Hoisted.lean)

theorem hypOK_adata_iff (a : ArrData) : (Slab.adata a).hypOK = true ↔ (ArrDataOKX a ∨ ArrDataOKWX a) := by
  rw [hypOK_adata]
  simp only [Bool.and_eq_true, Bool.or_eq_true, decide_eq_true_eq, rtiStsB_iff, nodupKeysStsB_iff,
    not_isEmpty_iff, noInlStsB_iff, anyNotFlat_iff, validNextB_iff, optAllB_iff validTyB_iff]
  constructor
  · rintro ⟨h1, h2, h3, h4, h5, h6, h7, h8, h9⟩
    rcases h5 with h5 | ⟨h5, h5'⟩
    · exact Or.inl ⟨h1, h2, h3, h4, h5, h6, h7, h8, h9⟩
    · exact Or.inr ⟨h1, h5, h5', h3, h4, h7, h8, h9⟩
  · rintro (ok | ok)
    · exact ⟨ok.rt, ok.nodup, ok.nest, ok.count, Or.inl ok.inlined, ok.entries, ok.next, ok.ty, ok.size⟩
    · refine ⟨ok.rt, nodupKeysSts_of_noCompact _ (noCompactSts_of_noInl _ ok.noInl), ok.nest, ok.count,
        Or.inr ⟨ok.noInl, ok.wrapped⟩, ?_, ok.next, ok.ty, ok.size⟩
      rw [encSts_noInl a.elems [] ok.noInl]
      simp

/-- THE CHECK IS EXACT: every required clause of `hypReport` holds on a slab iff the slab satisfies
    `SlabOKG`, the hypothesis of the general theorems (`C07.decode_encode`, `C07.reencode_fixpoint`,
    `C06.enc_len`, `C06.decoded_size_eq`). -/
theorem hypOK_iff (s : Slab) : s.hypOK = true ↔ SlabOKG s := by
  rw [slabOKG_unfold]
  cases s with
  | data ty d =>
    rw [hypOK_data]
    simp only [Bool.and_eq_true, beq_iff_eq, dataOKB_iff]
  | index ty m =>
    rw [hypOK_index]
    simp only [Bool.and_eq_true, beq_iff_eq, metaOKB_iff]
  | storable id e => rw [hypOK_storable]; exact validElemB_iff e
  | adata a => exact hypOK_adata_iff a
  | mdata m => rw [hypOK_mdata]; exact mapDataOKXB_iff m
  | mindex m => rw [hypOK_mindex]; exact mapMetaOKB_iff m
  | storableG id x => rw [hypOK_storableG]; exact storableGOKB_iff x

/-- "The Bool check passed on this slab" means "this slab is in the domain of the general theorems". -/
theorem hyp_sound (s : Slab) (h : s.hypOK = true) : SlabOKG s := (hypOK_iff s).1 h

/-- … and a slab in the domain passes the check. -/
theorem hyp_complete (s : Slab) (h : SlabOKG s) : s.hypOK = true := (hypOK_iff s).2 h

/-- for the kinds of the first part of the model `SlabOK` is enough -/
theorem hypOK_of_slabOK (s : Slab) (h : SlabOK s) : s.hypOK = true := hyp_complete s (SlabOKG_of_SlabOK h)

/-- the older, non-tight predicates pass the check too (their nesting clause implies `nest-exact`) -/
theorem hypOK_of_okc :
    (∀ m, MapDataOKC m → (Slab.mdata m).hypOK = true) ∧ (∀ a, ArrDataOKC a → (Slab.adata a).hypOK = true) ∧
    (∀ a, ArrDataOKW a → (Slab.adata a).hypOK = true) :=
  ⟨fun m h => hyp_complete _ (slabOKG_covers.2.2.1 m h), fun a h => hyp_complete _ (slabOKG_covers.2.2.2.2.2.1 a h),
   fun a h => hyp_complete _ (slabOKG_covers.2.2.2.2.2.2.2.1 a h)⟩

/-- What the passed check buys, for EVERY slab kind of the model: the model decoder accepts the
    model encoder's bytes (which the replayer has compared with the implementation's), the slab it
    returns re-encodes to the same bytes, and reports the same size. -/
theorem hyp_roundtrip (s : Slab) (h : s.hypOK = true) (n : Nat) :
    ∃ s' k, decodeSlab s.id (encodeSlab s) n = .ok s' k ∧ encodeSlab s' = encodeSlab s ∧
      s'.byteSize = s.byteSize := by
  have ok := hyp_sound s h
  obtain ⟨s', k, hd, hsz⟩ := C06.decoded_size_eq s ok n
  exact ⟨s', k, hd, reencode_fixpoint s ok n s' k hd, hsz⟩

/-- … with the decoder's result and allocation count spelt out, and the exact length law -/
theorem hyp_roundtrip_all (s : Slab) (h : s.hypOK = true) (n : Nat) :
    decodeSlab s.id (encodeSlab s) n = .ok (normSlab s) (n + s.decodeAllocsG) ∧
      encodeSlab (normSlab s) = encodeSlab s ∧ (normSlab s).byteSize = s.byteSize ∧
      (s.rootNoSibling → (encodeSlab s).length + s.omittedNext + s.hoisted = s.byteSize + s.extraDataLen) :=
  have ok := hyp_sound s h
  ⟨decode_encode s ok n, encodeSlab_normSlab s ok, byteSize_normSlab s ok, C06.enc_len s ok⟩

/-- … and when moreover the informative `noCompact` entry is true, the decoded slab IS the encoded one
    (map data slabs; array data slabs alike) -/
theorem hyp_roundtrip_exact_mdata (m : MapData) (h : (Slab.mdata m).hypOK = true) (hc : m.els.noCompactB = true)
    (n : Nat) : ∃ k, decodeSlab m.id (encodeMapData m) n = .ok (.mdata m) k := by
  have := decode_encode (.mdata m) (hyp_sound (.mdata m) h) n
  rw [normSlab_noCompact (.mdata m) ((MEls.noCompactB_iff m.els).1 hc)] at this
  exact ⟨_, this⟩

theorem hyp_roundtrip_exact_adata (a : ArrData) (h : (Slab.adata a).hypOK = true)
    (hc : noCompactStsB a.elems = true) (n : Nat) :
    ∃ k, decodeSlab a.id (encodeArrData a) n = .ok (.adata a) k := by
  have := decode_encode (.adata a) (hyp_sound (.adata a) h) n
  rw [normSlab_noCompact (.adata a) ((noCompactStsB_iff a.elems).1 hc)] at this
  exact ⟨_, this⟩

/-! ### non-vacuity: concrete slabs on which the check passes / fails -/

/-- a root map data slab whose one value is an inlined map of a composite type, written in the COMPACT
    form (count 2 = two single elements with plain keys), one of whose values is an inlined array
    holding a wrapped value -/
def exMap : MapData :=
  { id := ⟨1, 1⟩, next := ⟨0, 0⟩, extra := some ⟨.plain 1, 1, 7⟩,
    els := .hkey 0 [5] [.single (.mk (.val 9 3)
      (.map ⟨.composite 1, 2, 7⟩ 4 (.hkey 0 [0, 1]
        [.single (.mk (.val 9 3) (.val 6 10)),
         .single (.mk (.val 9 4) (.arr (.plain 24) 5 [.some (.val 5 11)]))])))],
    anySize := false, group := false }

/-- the same with the second key equal to the first: `nodupKeys` fails -/
def exMapDup : MapData :=
  { exMap with
    els := .hkey 0 [5] [.single (.mk (.val 9 3)
      (.map ⟨.composite 1, 2, 7⟩ 4 (.hkey 0 [0, 1]
        [.single (.mk (.val 9 3) (.val 6 10)),
         .single (.mk (.val 9 3) (.arr (.plain 24) 5 [.some (.val 5 11)]))])))] }

/-- an array data slab holding the inlined compact map and a slab reference -/
def exArr : ArrData :=
  { id := ⟨1, 1⟩, next := ⟨1, 2⟩, ty := none,
    elems := [.map ⟨.composite 1, 1, 7⟩ 4 (.hkey 0 [0] [.single (.mk (.val 9 3) (.val 6 10))]), .ref ⟨1, 9⟩] }

/-- an array data slab with a wrapped element and no inlined slab -/
def exArrW : ArrData :=
  { id := ⟨1, 1⟩, next := ⟨0, 0⟩, ty := some (.plain 3), elems := [.some (.some (.val 5 11)), .val 9 3] }

theorem exMap_report :
    (Slab.mdata exMap).hypReport =
      [("rt", true), ("nodupKeys", true), ("nest-exact", true), ("entries", true), ("next", true),
       ("extra", true), ("size", true), ("nest-vneed", true), ("noCompact", false), ("noInl", false),
       ("xokc", true)] := by decide

theorem exMap_hypOK : (Slab.mdata exMap).hypOK = true := by decide
theorem exMap_ok : MapDataOKC exMap := hyp_sound_mdata exMap (by decide)
theorem exMap_okx : MapDataOKX exMap := hyp_sound_mdata_exact exMap (by decide)
theorem exMapDup_fails : (Slab.mdata exMapDup).hypFailed = ["nodupKeys"] := by decide
theorem exMapDup_not_ok : ¬ MapDataOKC exMapDup := fun ok => by
  have := (mapDataOKCB_iff exMapDup).2 ok
  revert this; decide
theorem exArr_ok : ArrDataOKC exArr := hyp_sound_adata exArr (by decide)
theorem exArr_okx : ArrDataOKX exArr := hyp_sound_adata_exact exArr (by decide)
theorem exArr_hypOK : (Slab.adata exArr).hypOK = true := by decide
theorem exArrW_ok : ArrDataOKW exArrW := hyp_sound_adata_wrapped exArrW (by decide)
theorem exArrW_hypOK : (Slab.adata exArrW).hypOK = true := by decide
theorem exStorableG_hypOK : (Slab.storableG ⟨1, 2⟩ (.some (.some (.val 300 11)))).hypOK = true := by decide

/-- 15 nested inlined arrays / 7 nested inlined maps (Props/C07Depth.lean): the check PASSES — the
    required nesting clause is the exact one — while the informative older clause `nest-vneed` fails;
    the default `hypFailed` reports nothing; one level more and the required clause fails (and the
    register does not decode: `ad16_rejected`, `md8_rejected`) -/
theorem ad15_hypOK : (Slab.adata (ad 15)).hypOK = true := hyp_complete _ slabOKG_ad15
theorem md7_hypOK : (Slab.mdata (md 7)).hypOK = true := hyp_complete _ slabOKG_md7
theorem ad15_md7_vneed_fails :
    (Slab.adata (ad 15)).hypInfo.lookup "nest-vneed" = some false ∧
    (Slab.mdata (md 7)).hypInfo.lookup "nest-vneed" = some false := by decide
theorem ad15_md7_hypFailed : (Slab.adata (ad 15)).hypFailed = [] ∧ (Slab.mdata (md 7)).hypFailed = [] := by decide
theorem ad16_md8_hypFailed :
    (Slab.adata (ad 16)).hypFailed = ["nest-exact"] ∧ (Slab.mdata (md 8)).hypFailed = ["nest-exact"] := by decide
/-- a value under 32 wrappers: passes; `ArrDataOKW` does not hold -/
theorem aw32_hypOK : (Slab.adata aw32).hypOK = true := hyp_complete _ slabOKG_aw32
/-- a large-value slab's required nesting clause is `nest-vneed`; the default `optional` list does not hide it -/
theorem exStorableG_deep_hypFailed : (Slab.storableG ⟨1, 2⟩ (wrapN 32)).hypFailed = ["nest-vneed"] := by decide

theorem exMindex_hypOK :
    (Slab.mindex { id := ⟨1, 1⟩, extra := some ⟨.plain 1, 5, 7⟩,
                   childHdrs := [⟨⟨1, 2⟩, 100, 0⟩, ⟨⟨1, 3⟩, 120, 77⟩] }).hypOK = true := by decide

end Atree.C07
