import AtreeProofs.Batch.MapIdsBuild
import AtreeProofs.Props.C17
import AtreeProofs.Props.C13
import AtreeProofs.Props.C05MapIds
import AtreeProofs.Map.Example
/-
  C17 — slab identifiers of a bulk-built map (audit a1 F9, FX9H).  PROPERTY THEOREMS about
  `OMap.fromBatchData` (`NewMapFromBatchData`, AtreeModel/Map/Batch.lean), the analogue of
  `C17.batch_array_ids_fresh` and of the `ids` clause in `C17.batch_array_inv`.

  The identifiers concerned are ALL slab identifiers of the result (`OMap.slabIds`: data slabs,
  index slabs, external collision-group slabs).  "Fresh" = allocated during the call: owner address
  of the call, index above the allocation counter before the call and at most the counter after
  it.  Hence the result shares no slab with anything that existed before (in particular not with
  the map the stream was read from): independence of the source.
-/
namespace Atree.C17
open Atree Gen

variable {T r : Nat}

/-- `batch_map_ids_fresh`: if `NewMapFromBatchData` succeeds (keys within the key limit, plain
    values of any size ≥ 1), the slab identifiers of the result satisfy the preserved identifier
    clause `MapIdsOk` w.r.t. the counter after the call (pairwise different, of the map's owner
    address, index ≥ 1 and ≤ the counter), the owner is the address the call was made for, and
    EVERY slab identifier of the result has an index above the counter before the call. -/
theorem batch_map_ids_fresh (D : DigestFn (r + 1)) (hT : legalThreshold T = true) (cfg : MCfg)
    (hcT : cfg.T = T) (hcL : cfg.L = r + 1) (ty seed : Nat) (kvs : List (MKey × Elem))
    (hkv : ∀ p ∈ kvs, KeyOk T (r + 1) D p.1 ∧ ValueOkM p.2) (c : Ctx)
    (m : OMap r) (c' : Ctx) (h : OMap.fromBatchData cfg ty seed kvs c = .ok (m, c')) :
    MapIdsOk m c'.ctr ∧ m.addr = cfg.addr ∧ c.ctr < c'.ctr ∧
      ∀ id ∈ m.slabIds, id.addr = cfg.addr ∧ c.ctr < id.idx ∧ id.idx ≤ c'.ctr := by
  obtain ⟨hF, hlt, _⟩ := fromBatchData_ids (D := D) hT ⟨hcT, hcL⟩ ty seed kvs hkv c m c' h
  have hF' : FreshIds cfg.addr c.ctr c'.ctr m.slabIds :=
    hF.subperm (List.sublist_append_left _ _).subperm
  have haddr : m.addr = cfg.addr := (hF'.2.2 m.rootID m.rootID_mem_slabIds).1
  refine ⟨?_, haddr, hlt, hF'.2.2⟩
  unfold MapIdsOk
  rw [haddr]
  exact hF'.idsOk

/-- `batch_map_invI`: for every legal threshold, digest assignment, non-zero seed and every stream
    that is sorted by first-level digest with pairwise different keys, `NewMapFromBatchData`
    succeeds and its result satisfies `MapInvI` — the map invariant `MapInv` TOGETHER WITH the
    identifier clause, relative to the counter after the call — i.e. exactly the invariant that
    every single operation preserves (`C05.mapIds_set / _remove / _popIterate / _setType`); the
    configuration of the call is the configuration of the result (`CfgOk`: same owner address). -/
theorem batch_map_invI (D : DigestFn (r + 1)) (hT : legalThreshold T = true)
    (cfg : MCfg) (hcT : cfg.T = T) (hcL : cfg.L = r + 1) (ty seed : Nat) (hseed : seed ≠ 0)
    (kvs : List (MKey × Elem)) (hkv : ∀ p ∈ kvs, KeyOk T (r + 1) D p.1 ∧ ValueOkM p.2)
    (hs : (kvs.map (fun p => p.1.dig 0)).Pairwise (· ≤ ·)) (hd : KeysDistinct kvs) (c : Ctx) :
    ∃ (m : OMap r) (c' : Ctx), OMap.fromBatchData cfg ty seed kvs c = .ok (m, c') ∧
      MapInvI T D m c'.ctr ∧ CfgOk cfg T m ∧ m.seed = seed ∧ m.ty = ty ∧ m.count = kvs.length ∧
      c.ctr < c'.ctr ∧ ∀ id ∈ m.slabIds, c.ctr < id.idx := by
  obtain ⟨m, c', h1, h2, h3, h4, h5, _⟩ := batch_map_inv D hT cfg hcT hcL ty seed hseed kvs hkv hs hd c
  obtain ⟨g1, g2, g3, g4⟩ := batch_map_ids_fresh D hT cfg hcT hcL ty seed kvs hkv c m c' h1
  exact ⟨m, c', h1, ⟨h2, g1⟩, ⟨hcT, hcL, g2.symm⟩, h3, h4, h5, g3, fun id hid => (g4 id hid).2.1⟩

/-- Consequence: every theorem stated for `MapInvI` applies to a bulk-built map.  Instance: the
    read-only iterator over the result enumerates exactly its pair sequence
    (`C13.map_ro_iter_eq_toList`), and the tree-ownership facts of C09 hold
    (`C09Map.tree_ownership`). -/
theorem batch_map_iterable (D : DigestFn (r + 1)) (hT : legalThreshold T = true)
    (cfg : MCfg) (hcT : cfg.T = T) (hcL : cfg.L = r + 1) (ty seed : Nat) (hseed : seed ≠ 0)
    (kvs : List (MKey × Elem)) (hkv : ∀ p ∈ kvs, KeyOk T (r + 1) D p.1 ∧ ValueOkM p.2)
    (hs : (kvs.map (fun p => p.1.dig 0)).Pairwise (· ≤ ·)) (hd : KeysDistinct kvs) (c : Ctx) :
    ∃ (m : OMap r) (c' : Ctx), OMap.fromBatchData cfg ty seed kvs c = .ok (m, c') ∧
      m.iterReadOnly = .ok m.toList ∧
      m.slabIds.Nodup ∧ (∀ id ∈ m.slabIds, id.addr = m.addr ∧ id ≠ SlabID.undef) ∧
      AList.keys (MTree.slabs m.d m.root) = m.slabIds := by
  obtain ⟨m, c', h1, hI, hcfg, _⟩ := batch_map_invI D hT cfg hcT hcL ty seed hseed kvs hkv hs hd c
  obtain ⟨o1, o2, o3, o4, _⟩ := C09Map.tree_ownership T D m c'.ctr hI
  exact ⟨m, c', h1, C13.map_ro_iter_eq_toList T hT D cfg m hcfg c'.ctr hI, o1,
    fun id hid => ⟨o2 id hid, (o4 id hid).1⟩, o3⟩

/-- A single `Set` on a bulk-built map: the C09 account of `set_effects_complete_I` applies with
    the counter left by the build (no separate hypothesis about the identifiers). -/
theorem batch_map_then_set (D : DigestFn (r + 1)) (hT : legalThreshold T = true)
    (cfg : MCfg) (hcT : cfg.T = T) (hcL : cfg.L = r + 1) (ty seed : Nat) (hseed : seed ≠ 0)
    (kvs : List (MKey × Elem)) (hkv : ∀ p ∈ kvs, KeyOk T (r + 1) D p.1 ∧ ValueOkM p.2)
    (hs : (kvs.map (fun p => p.1.dig 0)).Pairwise (· ≤ ·)) (hd : KeysDistinct kvs) (c : Ctx)
    (k : MKey) (hk : KeyOk T (r + 1) D k) (v : Elem) (hv : ValueOkM v) :
    ∃ (m : OMap r) (c' : Ctx), OMap.fromBatchData cfg ty seed kvs c = .ok (m, c') ∧
      ∀ old m'' c'', m.set cfg k v c' = .ok (old, m'', c'') →
        MapInvI T D m'' c''.ctr ∧ m''.rootID = m.rootID ∧
        (∀ addr id, Eff.alloc addr id ∈ C09Map.newEffects c' c'' → id ∉ m.slabIds ∧ c'.ctr < id.idx) := by
  obtain ⟨m, c', h1, hI, hcfg, _⟩ := batch_map_invI D hT cfg hcT hcL ty seed hseed kvs hkv hs hd c
  refine ⟨m, c', h1, ?_⟩
  intro old m'' c'' hr
  obtain ⟨_, _, a3, a4, a5⟩ := C09Map.set_effects_complete_I T hT D cfg m hcfg k hk v hv c' hI old m'' c'' hr
  exact ⟨a4, a5, fun addr id hm => ⟨(a3 addr id hm).1, (a3 addr id hm).2.1⟩⟩

/-! ### Non-vacuity: a bulk build of two levels with an external collision group and a large value

Threshold 256, digests `D2` (hundreds and tens digit of the payload), owner 7, counter 40 before the
call: 24 pairs with 10-byte keys; the keys 311, 321, …, 391 share the first-level digest 3 (their
group is exported to a slab of its own); the value of key 500 has 300 bytes and goes to a
large-value slab. -/
section NonVacuity
open MapExample

def idsKeys : List Nat :=
  [100, 110, 120, 130, 200, 210, 220, 230, 311, 321, 331, 341, 351, 361, 371, 381, 391, 400, 410, 500, 510, 600, 610, 700]

def idsKvs : List (MKey × Elem) :=
  idsKeys.map (fun n => (key n, if n = 500 then ({ size := 300, pay := .val 500 } : Elem) else val n))

def idsCtx : Ctx := { ctr := 40, eff := [] }

def idsBuilt : BRes (OMap 1 × Ctx) := OMap.fromBatchData cfg2 0 12345 idsKvs idsCtx

theorem idsKvs_ok : ∀ p ∈ idsKvs, KeyOk 256 2 D2 p.1 ∧ ValueOkM p.2 := by
  intro p hp
  obtain ⟨n, _, rfl⟩ := List.mem_map.mp hp
  refine ⟨key_ok n, ?_⟩
  simp only
  split
  · exact ⟨by decide, _, rfl⟩
  · exact ⟨(by decide : 1 ≤ 10), _, rfl⟩

/-- the build succeeds with an index root over several data slabs, an external collision group
    and one reference to a large-value slab -/
theorem idsBuilt_shape :
    (match idsBuilt with
     | .ok (m, c') => decide (m.d = 1) && decide (5 ≤ m.slabIds.length) && decide (m.refIds.length = 1) &&
         decide (m.count = 24) && decide (40 < c'.ctr)
     | .error _ => false) = true := by
  decide

/-- the hypotheses of `batch_map_ids_fresh` / `batch_map_invI` are met by this call -/
example : ∃ (m : OMap 1) (c' : Ctx), idsBuilt = .ok (m, c') ∧ MapInvI 256 D2 m c'.ctr ∧ m.d = 1 ∧
    5 ≤ m.slabIds.length ∧ m.refIds.length = 1 ∧ ∀ id ∈ m.slabIds, 40 < id.idx := by
  obtain ⟨m, c', h1, h2, _, _, _, _, _, h8⟩ := batch_map_invI D2 (T := 256) (by decide) cfg2 rfl rfl 0 12345
    (by decide) idsKvs idsKvs_ok (by decide) (by unfold KeysDistinct; decide) idsCtx
  have hb : idsBuilt = .ok (m, c') := h1
  have hs := idsBuilt_shape
  rw [hb] at hs
  simp only [Bool.and_eq_true, decide_eq_true_eq] at hs
  exact ⟨m, c', hb, h2, hs.1.1.1.1, hs.1.1.1.2, hs.1.1.2, h8⟩

end NonVacuity

end Atree.C17
