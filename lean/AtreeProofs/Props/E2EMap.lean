import AtreeProofs.E2EMapSpec
import AtreeProofs.E2EMap.Writes
import AtreeProofs.E2EMap.RepStep
import AtreeProofs.E2EMap.Load
import AtreeProofs.E2EMap.History
import AtreeProofs.Props.E2E
/-
  E2EMap — END-TO-END for ordered maps: map model + effect logs + storage state machine +
  commit / reopen + lazy slab loading (C03 / C08 / C15 at container level, maps).  Same shape as
  `Props/E2E.lean` (arrays); external collision-group slabs are separate stored slabs, fetched by
  the loader through the references in the data slabs.

  PROPERTY THEOREMS.  Abstract codec with `RoundTrip c` as hypothesis.  Definitions:
  `AtreeProofs/E2EMapSpec.lean`; helpers: `AtreeProofs/E2EMap/*.lean`.
-/
namespace Atree.E2EM
open Atree Gen St

variable {β : Type} {r : Nat}

/-! ### effect logs on the storage -/

/-- last write wins (maps): the view after a log run with the final contents -/
theorem map_applyEffs_view (c : Codec (MSSlab r) β) (s : St (MSSlab r) β)
    (content : SlabID → Option (MSSlab r)) (E : List Eff) (id : SlabID) (hid : id ≠ SlabID.undef)
    (hwf : lastAction E id = some true → (content id).isSome) :
    (applyEffs c s content E).view c id =
      (match lastAction E id with
       | some true => content id
       | some false => none
       | none => s.view c id) ∧
    (applyEffs c s content E).cache = s.cache ∧ (applyEffs c s content E).base = s.base :=
  ⟨view_applyEffs c s content E id hid hwf, applyEffs_frame c s content E⟩

/-- storing intermediate contents instead of the final ones gives the same storage state (maps) -/
theorem map_intermediate_contents_irrelevant (c : Codec (MSSlab r) β) (s : St (MSSlab r) β)
    (content : SlabID → Option (MSSlab r)) (EC : List (Eff × (SlabID → Option (MSSlab r))))
    (hlast : ∀ id, LastOk content id EC.reverse) :
    (∀ id, id ≠ SlabID.undef →
      AList.find? (applyEffsI c s EC).deltas id =
        AList.find? (applyEffs c s content (EC.map (·.1))).deltas id) ∧
    (∀ id, id ≠ SlabID.undef →
      (applyEffsI c s EC).view c id = (applyEffs c s content (EC.map (·.1))).view c id) ∧
    (applyEffsI c s EC).cache = (applyEffs c s content (EC.map (·.1))).cache ∧
    (applyEffsI c s EC).base = (applyEffs c s content (EC.map (·.1))).base ∧
    (∀ addr, addr ≠ 0 → (AList.find? (applyEffsI c s EC).alloc addr).getD 0 =
      (AList.find? (applyEffs c s content (EC.map (·.1))).alloc addr).getD 0) := by
  apply applyEffsI_eq_applyEffs
  intro id
  have := lastWrite_of_lastOk content id EC.reverse (hlast id)
  rwa [List.reverse_reverse] at this

/-! ### one operation -/

/-- REP STEP (maps).  If the storage represents `m` and the effect log `E` is a complete account
    (C09Map) of the change from `m` to `m'`, the storage obtained by running `E` represents `m'`. -/
theorem map_rep_step (c : Codec (MSSlab r) β) (s : St (MSSlab r) β) (m m' : OMap r)
    (extra : SlabID → Option Elem) (ctr ctr' : Nat) (E : List Eff) (created : List (SlabID × Elem))
    (hrep : MRep c s m extra ctr) (heff : MEffectsComplete m m' E (created.map (·.1)))
    (haddr : m'.addr = m.addr) (hne : m.addr ≠ 0) (hle : ctr ≤ ctr')
    (hcr : ∀ p ∈ created, p.1.idx ≤ ctr') :
    MRep c (applyEffs c s (mstored m' (AList.find? created)) E) m' (extraStep m' E created extra) ctr' :=
  rep_step_gen c s m m' extra ctr ctr' E created hrep heff haddr hne hle hcr

/-! ### histories

FULL STATEMENT (as for arrays, `E2E.rep_history`), of which `map_rep_history_partial` proves
everything except the parts marked (*):
    for every list of requests (set / remove / popIterate / setType; rejected ones change nothing)
    starting from `NewMap` on an empty storage, at every point `MapInv`, `MIdsOk`, `CtxOk`, `Inv`
    hold, the storage represents the map with
      (*) `extra = AList.find? ctx.created` (every large-value slab created so far is live), and
      (*) `AllocSync s addr ctx.ctr` (the storage's allocation counter agrees with the model's),
    and (*) the dictionary of VALUES is the dictionary semantics of the history.
What is missing for (*): the two trace-level facts "a created large-value slab is stored and not
removed later in the same operation" and "the counter advances by the number of allocation events",
proved for arrays in `AtreeProofs/E2E/Created.lean` by an induction over the operations which has
not been redone for the (much larger) map operations.  Instead: the live large-value slabs are SOME
function `extra` (determined by the logs: `extraStep`), and the dictionary semantics is the model's
(`(runS …).1 = runM …`, whose steps are characterised by C02 `set_refines` / `remove_refines`). -/

/-- REP HISTORY (maps, partial – see above). -/
theorem map_rep_history_partial (c : Codec (MSSlab r) β) (hc : RoundTrip c) (T : Nat)
    (hT : legalThreshold T = true) (D : DigestFn (r + 1)) (cfg : MCfg) (hcT : cfg.T = T)
    (hcL : cfg.L = r + 1) (haddr : cfg.addr ≠ 0) (ty : Nat) (seedOf : SlabID → Nat)
    (ops : List MOp) (hops : ∀ op ∈ ops, op.Ok T D) :
    let x := runS c cfg (newS c cfg.addr ty seedOf) ops
    let m := x.1.1
    let ctx := x.1.2
    let s := x.2
    x.1 = runM cfg (OMap.new (r := r) cfg.addr ty seedOf ⟨0, [], []⟩) ops ∧
    MapInv T D m ∧ MIdsOk m ∧ CtxOk m ctx ∧ MAddrOk m ∧
    (∃ extra, MRep c s m extra ctx.ctr) ∧ Inv c s ∧ m.rootID = ⟨cfg.addr, 1⟩ := by
  intro x m ctx s
  obtain ⟨g0, r0⟩ := mgood_new c hc T hT D cfg hcT hcL haddr ty seedOf
  obtain ⟨g, r1⟩ := mgood_runS c hc T hT D cfg ops _ g0 hops
  exact ⟨runS_fst c cfg ops _, g.inv, g.ids, g.ctx, g.aok, g.rep, g.st, r1.trans r0⟩

/-- the same from any state satisfying the invariant `MGood` -/
theorem map_rep_run (c : Codec (MSSlab r) β) (hc : RoundTrip c) (T : Nat) (hT : legalThreshold T = true)
    (D : DigestFn (r + 1)) (cfg : MCfg) (x : (OMap r × Ctx) × St (MSSlab r) β)
    (hg : MGood c T D cfg x) (ops : List MOp) (hops : ∀ op ∈ ops, op.Ok T D) :
    MGood c T D cfg (runS c cfg x ops) ∧ (runS c cfg x ops).1.1.rootID = x.1.1.rootID :=
  mgood_runS c hc T hT D cfg ops x hg hops

/-! ### loading -/

/-- LOAD SLABS (maps).  The map – its tree AND its external collision groups – is determined by
    its stored slabs: loading from them by following the child headers and the group references
    from the root ID rebuilds `m` (with type info, count and seed from the root's extra data). -/
theorem map_load_slabs (T : Nat) (hT : legalThreshold T = true) (D : DigestFn (r + 1)) (m : OMap r)
    (hinv : MapInv T D m) (hids : MIdsOk m) (haok : MAddrOk m) (extra : SlabID → Option Elem)
    (fuel : Nat) (hf : m.d < fuel) :
    loadMap (mstored m extra) m.rootID fuel = some m :=
  loadMap_of_agree hT m hinv hids haok extra (mstored m extra) (fun _ _ => rfl) fuel hf

/-- … and so does loading through the storage that represents `m`, with any transparent fetch. -/
theorem map_load_from_storage (c : Codec (MSSlab r) β) (T : Nat) (hT : legalThreshold T = true)
    (D : DigestFn (r + 1)) (s : St (MSSlab r) β) (m : OMap r) (extra : SlabID → Option Elem)
    (ctr : Nat) (hinv : MapInv T D m) (hids : MIdsOk m) (haok : MAddrOk m)
    (hrep : MRep c s m extra ctr) (hI : Inv c s)
    (fetch : MFetch r (St (MSSlab r) β)) (hf : MFetchOk c fetch) (fuel : Nat) (hfuel : m.d < fuel) :
    ∃ s', loadMapSt fetch s m.rootID fuel = .ok (some m, s') ∧ MRep c s' m extra ctr ∧ Inv c s' ∧
      s'.deltas = s.deltas ∧ s'.base = s.base := by
  obtain ⟨s', h1, k⟩ := loadMapSt_spec c fetch hf s hI m.rootID fuel
  rw [loadMap_of_agree hT m hinv hids haok extra (s.view c) hrep.view fuel hfuel] at h1
  exact ⟨s', h1, ⟨fun id hid => by rw [k.view]; exact hrep.view id hid, hrep.extra_fresh⟩, k.inv,
    k.deltas, k.base⟩

theorem map_retrieve_is_fetch (c : Codec (MSSlab r) β) : MFetchOk c (fun s id => s.retrieve c id) :=
  retrieve_fetchOk c

theorem map_scheduled_retrieve_is_fetch (c : Codec (MSSlab r) β)
    (sched : St (MSSlab r) β → SlabID → List (Op (MSSlab r))) : MFetchOk c (fetchWith c sched) :=
  fetchWith_fetchOk c sched

/-! ### commit and reopen -/

/-- any commit attempt (with any faults) keeps the representation and the invariants -/
theorem rep_commit_attempt (c : Codec (MSSlab r) β) (hc : RoundTrip c) (s : St (MSSlab r) β) (a : OMap r)
    (extra : SlabID → Option Elem) (ctr : Nat) (hrep : MRep c s a extra ctr) (hI : Inv c s)
    (kind : CommitKind) (fault : Nat → Bool) (mo dlo : List SlabID) :
    MRep c (commitW c kind fault mo dlo s).st a extra ctr ∧ Inv c (commitW c kind fault mo dlo s).st ∧
    Adv c s (commitW c kind fault mo dlo s).st ∧
    (commitW c kind fault mo dlo s).st.alloc = s.alloc := by
  obtain ⟨h1, h2, _⟩ := commitW_spec c hc kind fault mo dlo s hI
  exact ⟨⟨fun id hid => by rw [h2.view id]; exact hrep.view id hid, hrep.extra_fresh⟩, h1, h2,
    (commitW_aux c kind fault mo dlo s).1⟩

/-- a storage reopened over the ledger of a completely committed state represents the map -/
theorem rep_reopen (c : Codec (MSSlab r) β) (s s' : St (MSSlab r) β) (a : OMap r)
    (extra : SlabID → Option Elem) (ctr : Nat) (hrep : MRep c s a extra ctr) (hne : a.addr ≠ 0)
    (hI' : Inv c s') (hadv : Adv c s s')
    (hall : ∀ id, id.isTemp = false → AList.find? s'.deltas id = none)
    (base : AList SlabID β) (hbase : base = s'.base) (alloc : AList Nat Nat) :
    MRep c (St.fresh base alloc : St (MSSlab r) β) a extra ctr ∧ Inv c (St.fresh base alloc : St (MSSlab r) β) := by
  subst hbase
  refine ⟨⟨?_, hrep.extra_fresh⟩, ?_⟩
  · intro id hid
    rw [view_fresh, ← hrep.view id hid]
    exact hadv.committed_eq_view hI' hall id (E2E.isTemp_of_addr hid hne)
  · have := inv_fresh c s' hI'
    constructor
    · intro id v h; simp [St.fresh] at h
    · simp [St.fresh, AList.keys]
    · simp [St.fresh, AList.keys]
    · exact hI'.baseNodup
    · exact hI'.noTempBase
    · exact hI'.baseDecodes


/-- COMMIT, REOPEN, LOAD = IDENTITY (maps; C03, C08).  If the storage represents `m`, then after a
    fault-free commit of either kind (any worker orders) the commit reports no error, and a
    brand-new storage opened over the same ledger loads – through `Retrieve` or any transparent
    fetch – exactly `m`: same tree, same external collision groups, same entries, same root ID,
    type info, count and seed; the reopened storage represents `m`. -/
theorem map_commit_reopen_identity (c : Codec (MSSlab r) β) (hc : RoundTrip c) (T : Nat)
    (hT : legalThreshold T = true) (D : DigestFn (r + 1)) (s : St (MSSlab r) β) (m : OMap r)
    (extra : SlabID → Option Elem) (ctr : Nat) (hinv : MapInv T D m) (hids : MIdsOk m)
    (haok : MAddrOk m) (hne : m.addr ≠ 0) (hrep : MRep c s m extra ctr)
    (hI : Inv c s) (henc : NoEncodeFailure c s)
    (kind : CommitKind) (mo dlo : List SlabID)
    (fetch : MFetch r (St (MSSlab r) β)) (hf : MFetchOk c fetch) (fuel : Nat) (hfuel : m.d < fuel) :
    (St.step c s (.commit kind [] mo dlo)).2 = .unit ∧
    let reopened := St.run c s [.commit kind [] mo dlo, .recreate]
    reopened.deltas = [] ∧ reopened.cache = [] ∧
    MRep c reopened m extra ctr ∧
    ∃ s', loadMapSt fetch reopened m.rootID fuel = .ok (some m, s') ∧ MRep c s' m extra ctr := by
  have hfp : ∀ n, faultPlan [] n = false := fun n => by simp [faultPlan]
  obtain ⟨g1, g2, _⟩ := commitW_complete c hc kind (faultPlan []) hfp mo dlo s hI henc
  obtain ⟨r1, r2, r3, _⟩ := rep_commit_attempt c hc s m extra ctr hrep hI kind (faultPlan []) mo dlo
  have hrun : St.run c s [.commit kind [] mo dlo, .recreate] =
      (St.fresh (commitW c kind (faultPlan []) mo dlo s).st.base
        (commitW c kind (faultPlan []) mo dlo s).st.alloc : St (MSSlab r) β) := by
    simp only [St.run, List.foldl_cons, List.foldl_nil, step_commit]
    rfl
  refine ⟨by rw [step_commit, g1], ?_⟩
  intro reopened
  have hre : reopened = _ := hrun
  obtain ⟨p1, p2⟩ := rep_reopen c s _ m extra ctr hrep hne r2 r3 g2 _ rfl
    (commitW c kind (faultPlan []) mo dlo s).st.alloc
  rw [← hre] at p1 p2
  refine ⟨by rw [hre]; rfl, by rw [hre]; rfl, p1, ?_⟩
  obtain ⟨s', h1, h2, _⟩ := map_load_from_storage c T hT D reopened m extra ctr hinv hids haok p1 p2
    fetch hf fuel hfuel
  exact ⟨s', h1, h2⟩

/-- the map operations never write to the ledger -/
theorem runS_base (c : Codec (MSSlab r) β) (cfg : MCfg) :
    ∀ (ops : List MOp) (x : (OMap r × Ctx) × St (MSSlab r) β), (runS c cfg x ops).2.base = x.2.base
  | [], _ => rfl
  | op :: ops, x => by
    show (runS c cfg (stepS c cfg x op) ops).2.base = x.2.base
    rw [runS_base c cfg ops]
    exact (applyEffs_frame c x.2 _ _).2

/-- CRASH BEFORE COMMIT (maps).  Commit, then any further history of map operations, then abandon
    the in-memory storage without committing: the reopened storage loads the map as of the last
    commit. -/
theorem map_crash_reopen_last_commit (c : Codec (MSSlab r) β) (hc : RoundTrip c) (T : Nat)
    (hT : legalThreshold T = true) (D : DigestFn (r + 1)) (cfg : MCfg)
    (x : (OMap r × Ctx) × St (MSSlab r) β) (hg : MGood c T D cfg x)
    (henc : NoEncodeFailure c x.2) (kind : CommitKind) (mo dlo : List SlabID)
    (later : List MOp) (hlater : ∀ op ∈ later, op.Ok T D)
    (fetch : MFetch r (St (MSSlab r) β)) (hf : MFetchOk c fetch) (fuel : Nat) (hfuel : x.1.1.d < fuel) :
    let committed := (St.step c x.2 (.commit kind [] mo dlo)).1
    let y := runS c cfg (x.1, committed) later
    let reopened := (St.step c y.2 .recreate).1
    MGood c T D cfg y ∧
    ∃ s', loadMapSt fetch reopened x.1.1.rootID fuel = .ok (some x.1.1, s') := by
  intro committed y reopened
  have hfp : ∀ n, faultPlan [] n = false := fun n => by simp [faultPlan]
  have hcm : committed = (commitW c kind (faultPlan []) mo dlo x.2).st := by
    show (St.step c x.2 (.commit kind [] mo dlo)).1 = _
    rw [step_commit]
  obtain ⟨extra, hrep⟩ := hg.rep
  obtain ⟨_, g2, _⟩ := commitW_complete c hc kind (faultPlan []) hfp mo dlo x.2 hg.st henc
  obtain ⟨r1, r2, r3, _⟩ := rep_commit_attempt c hc x.2 x.1.1 _ _ hrep hg.st kind (faultPlan []) mo dlo
  rw [← hcm] at g2 r1 r2 r3
  have hgc : MGood c T D cfg (x.1, committed) :=
    ⟨hg.inv, hg.ids, hg.ctx, hg.cfg, hg.aok, hg.addr, r2, hg.cre, ⟨extra, r1⟩⟩
  obtain ⟨gy, _⟩ := mgood_runS c hc T hT D cfg later (x.1, committed) hgc hlater
  refine ⟨gy, ?_⟩
  have hbase : y.2.base = committed.base := runS_base c cfg later (x.1, committed)
  obtain ⟨p1, p2⟩ := rep_reopen c x.2 committed x.1.1 _ _ hrep hg.addr r2 r3 g2 y.2.base hbase y.2.alloc
  obtain ⟨s', h1, _⟩ := map_load_from_storage c T hT D (St.fresh y.2.base y.2.alloc) x.1.1 _ _ hg.inv
    hg.ids hg.aok p1 p2 fetch hf fuel hfuel
  exact ⟨s', h1⟩

/-- FAILED COMMIT, THEN RETRY (maps; C14).  After any sequence of commit attempts, failing wherever
    they fail, the in-memory storage still represents the map, and a fault-free retry succeeds and,
    after a reopen, loads exactly the map. -/
theorem map_failed_commit_then_retry (c : Codec (MSSlab r) β) (hc : RoundTrip c) (T : Nat)
    (hT : legalThreshold T = true) (D : DigestFn (r + 1)) (cfg : MCfg)
    (x : (OMap r × Ctx) × St (MSSlab r) β) (hg : MGood c T D cfg x)
    (henc : NoEncodeFailure c x.2)
    (attempts : List (CommitKind × List Nat × List SlabID × List SlabID))
    (kind : CommitKind) (mo dlo : List SlabID)
    (fetch : MFetch r (St (MSSlab r) β)) (hf : MFetchOk c fetch) (fuel : Nat) (hfuel : x.1.1.d < fuel) :
    let s' := attempts.foldl (fun s at_ => (St.step c s (.commit at_.1 at_.2.1 at_.2.2.1 at_.2.2.2)).1) x.2
    MGood c T D cfg (x.1, s') ∧
    (St.step c s' (.commit kind [] mo dlo)).2 = .unit ∧
    let reopened := St.run c s' [.commit kind [] mo dlo, .recreate]
    ∃ s'', loadMapSt fetch reopened x.1.1.rootID fuel = .ok (some x.1.1, s'') := by
  intro s'
  have key : ∀ (l : List (CommitKind × List Nat × List SlabID × List SlabID)) (s : St (MSSlab r) β),
      MGood c T D cfg (x.1, s) → NoEncodeFailure c s →
      MGood c T D cfg (x.1, l.foldl (fun s at_ => (St.step c s (.commit at_.1 at_.2.1 at_.2.2.1 at_.2.2.2)).1) s) ∧
      NoEncodeFailure c (l.foldl (fun s at_ => (St.step c s (.commit at_.1 at_.2.1 at_.2.2.1 at_.2.2.2)).1) s) := by
    intro l
    induction l with
    | nil => intro s h1 h2; exact ⟨h1, h2⟩
    | cons at_ l ih =>
      intro s h1 h2
      simp only [List.foldl_cons]
      obtain ⟨extra, hrep⟩ := h1.rep
      obtain ⟨r1, r2, r3, _⟩ := rep_commit_attempt c hc s x.1.1 _ _ hrep h1.st at_.1
        (faultPlan at_.2.1) at_.2.2.1 at_.2.2.2
      apply ih
      · rw [step_commit]
        exact ⟨h1.inv, h1.ids, h1.ctx, h1.cfg, h1.aok, h1.addr, r2, h1.cre, ⟨extra, r1⟩⟩
      · rw [step_commit]
        exact r3.noEncodeFailure h2
  obtain ⟨hg', henc'⟩ := key attempts x.2 hg henc
  refine ⟨hg', ?_⟩
  obtain ⟨extra, hrep⟩ := hg'.rep
  obtain ⟨h1, h2⟩ := map_commit_reopen_identity c hc T hT D s' x.1.1 _ _ hg'.inv hg'.ids hg'.aok hg'.addr
    hrep hg'.st henc' kind mo dlo fetch hf fuel hfuel
  refine ⟨h1, ?_⟩
  intro reopened
  obtain ⟨_, _, _, s'', h4, _⟩ := h2
  exact ⟨s'', h4⟩

/-! ### Non-vacuity

The example map of C02 / C09Map (`MapExample.run`: two digest levels, T = 256, 19 `set`s and one
`remove`: index-slab root over three data slabs, inline collision groups, an EXTERNAL collision
group) extended by a value too large to inline (large-value slab), a rejected removal and
`SetType`, run against the storage state machine with the identity codec; the theorems are
instantiated on it and compared with direct evaluation. -/
section NonVacuity
open MapExample

def idCodecM : Codec (MSSlab 1) (MSSlab 1) := { enc := some, dec := fun _ b => some b, size := fun _ => 0 }

theorem idCodecM_roundTrip : RoundTrip idCodecM := by
  intro id v b h
  simp only [idCodecM, Option.some.injEq] at h
  simp [idCodecM, h]

theorem idCodecM_noEncodeFailure (s : St (MSSlab 1) (MSSlab 1)) : NoEncodeFailure idCodecM s :=
  fun _ _ _ => rfl

def mhist : List MOp :=
  [.set (key 211) (val 1), .set (key 111) (val 2), .set (key 112) (val 3), .set (key 121) (val 4),
   .set (key 311) (val 5), .set (key 312) (val 6), .set (key 313) (val 7), .set (key 314) (val 8),
   .set (key 321) (val 9), .set (key 411) (val 10), .set (key 511) (val 11), .set (key 611) (val 12),
   .remove (key 411), .set (key 711) (val 13), .set (key 811) (val 14), .set (key 911) (val 15),
   .set (key 11) (val 16), .set (key 521) (val 17), .set (key 621) (val 18), .set (key 221) (val 19),
   .set (key 999) ⟨5000, .val 7⟩, .remove (key 12345), .setType 9]

theorem mhist_ok : ∀ op ∈ mhist, op.Ok 256 D2 := by
  intro op hop
  simp only [mhist, List.mem_cons, List.not_mem_nil, or_false] at hop
  rcases hop with rfl | rfl | rfl | rfl | rfl | rfl | rfl | rfl | rfl | rfl | rfl | rfl | rfl | rfl | rfl | rfl | rfl | rfl | rfl | rfl | rfl | rfl | rfl
  all_goals first
    | exact ⟨key_ok _, val_ok _⟩
    | exact key_ok _
    | exact ⟨key_ok _, ⟨by decide, 7, rfl⟩⟩
    | trivial

/-- the state after the history -/
def xM : (OMap 1 × Ctx) × St (MSSlab 1) (MSSlab 1) :=
  runS idCodecM cfg2 (newS idCodecM cfg2.addr 0 (fun id => id.idx)) mhist

/-- decidable summary of a map: depth, entries (key payload, stored value), type, count, seed, IDs -/
structure MSum where
  d : Nat
  l : List (Nat × Elem)
  ty : Nat
  count : Nat
  seed : Nat
  ids : List SlabID
deriving DecidableEq

def msummary (m : OMap 1) : MSum :=
  ⟨m.d, m.toList.map (fun p => (p.1.pay, p.2)), m.ty, m.count, m.seed,
    (MTree.slabs m.d m.root).map (·.1)⟩
def msummaryR (x : Except StErr (Option (OMap 1) × St (MSSlab 1) (MSSlab 1))) : Option MSum :=
  match x with
  | .ok (some m, _) => some (msummary m)
  | _ => none

/-- the first twenty requests are `MapExample.run` (compared through the summary) -/
example : msummary (runM cfg2 st0 (mhist.take 20)).1 = msummary MapExample.run.1 := by decide

/-- the map after the history: an index-slab root (7.1) over the data slabs 7.3 and 7.4 and the
    external collision group 7.2; 19 entries, the last one a reference to the large-value slab 7.5 -/
example : (msummary xM.1.1).d = 1 ∧ (msummary xM.1.1).ids = [⟨7, 1⟩, ⟨7, 3⟩, ⟨7, 2⟩, ⟨7, 4⟩] ∧
    (msummary xM.1.1).count = 19 ∧ (msummary xM.1.1).ty = 9 ∧ (msummary xM.1.1).seed = 1 ∧
    (msummary xM.1.1).l.getLast? = some (999, ⟨19, .ref ⟨7, 5⟩⟩) := by decide
example : kinds xM.1.1
    = ["single", "inline", "inline", "external", "inline", "inline", "single", "single", "inline"] := by
  decide
example : xM.1.2.created = [(⟨7, 5⟩, ⟨5000, .val 7⟩)] := by decide
/-- everything is pending, nothing in the ledger yet -/
example : xM.2.deltas.map (·.1) = [⟨7, 1⟩, ⟨7, 4⟩, ⟨7, 5⟩, ⟨7, 3⟩, ⟨7, 2⟩] ∧ xM.2.base = [] := by decide

/-- `map_rep_history_partial` instantiated -/
theorem xM_good : MGood idCodecM 256 D2 cfg2 xM :=
  (mgood_runS idCodecM idCodecM_roundTrip 256 legal256 D2 cfg2 mhist _
    (mgood_new idCodecM idCodecM_roundTrip 256 legal256 D2 cfg2 rfl rfl (by decide) 0 _).1 mhist_ok).1
example := map_rep_history_partial idCodecM idCodecM_roundTrip 256 legal256 D2 cfg2 rfl rfl (by decide) 0
  (fun id => id.idx) mhist mhist_ok

/-- `MRep` is not trivially true: the empty storage does not represent the map -/
example (extra : SlabID → Option Elem) : ¬ MRep idCodecM (St.init : St (MSSlab 1) (MSSlab 1)) xM.1.1 extra 5 := by
  intro h
  have h1 := h.view ⟨7, 1⟩ (by decide)
  have h2 : ((St.init : St (MSSlab 1) (MSSlab 1)).view idCodecM ⟨7, 1⟩).isSome = false := by decide
  have h3 : (xM.1.1.slabAt ⟨7, 1⟩).isSome = true := by
    rw [mslabAt_isSome]; exact hdr_id_mem_keys _ _
  rw [h1] at h2
  cases hs : xM.1.1.slabAt ⟨7, 1⟩ with
  | none => rw [hs] at h3; cases h3
  | some p => rw [mstored_of_some hs] at h2; cases h2

/-- `map_load_slabs` on the map -/
example (extra : SlabID → Option Elem) : loadMap (mstored xM.1.1 extra) xM.1.1.rootID 2 = some xM.1.1 :=
  map_load_slabs 256 legal256 D2 xM.1.1 xM_good.inv xM_good.ids xM_good.aok extra 2 (by decide)

/-- `map_commit_reopen_identity` instantiated, and the same by evaluation: the ledger holds the
    five slabs (the external collision group 7.2 and the large value 7.5 among them), and loading
    through `Retrieve` returns the map, external group included -/
example (extra : SlabID → Option Elem) (hrep : MRep idCodecM xM.2 xM.1.1 extra xM.1.2.ctr) :=
  map_commit_reopen_identity idCodecM idCodecM_roundTrip 256 legal256 D2 xM.2 xM.1.1 extra _ xM_good.inv
    xM_good.ids xM_good.aok (by decide) hrep xM_good.st (idCodecM_noEncodeFailure _) .det [] []
    _ (map_retrieve_is_fetch idCodecM) 2 (by decide)
def reopenedM : St (MSSlab 1) (MSSlab 1) := St.run idCodecM xM.2 [.commit .det [] [] [], .recreate]
example : reopenedM.base.map (·.1) = [⟨7, 5⟩, ⟨7, 4⟩, ⟨7, 3⟩, ⟨7, 2⟩, ⟨7, 1⟩] ∧ reopenedM.deltas = [] := by decide
example : msummaryR (loadMapSt (fun s id => s.retrieve idCodecM id) reopenedM ⟨7, 1⟩ 2)
    = some (msummary xM.1.1) := by decide
example : (msummaryR (loadMapSt (fun s id => s.retrieve idCodecM id) reopenedM ⟨7, 1⟩ 2)).map
    (fun _ => kinds xM.1.1) = some (kinds xM.1.1) := by decide
/-- the number of first-level entries of the external groups referenced from a stored data slab -/
def extGroupSizes (s : Option (MSSlab 1)) : List Nat :=
  match s with
  | some (.tree (.data d) _) =>
    d.elems.elems.filterMap (fun el =>
      match el with
      | .ext _ _ g => some (g.elems : HkeyElems (MElems 0)).elems.length
      | _ => none)
  | _ => []
/-- the STORED data slab 7.3 only references the external group 7.2 (placeholder, 0 entries); the
    model's data slab contains it (2 entries), and so does the LOADED one: the loader fetched 7.2 -/
example : extGroupSizes (reopenedM.view idCodecM ⟨7, 3⟩) = [0] ∧
    extGroupSizes ((xM.1.1.slabAt ⟨7, 3⟩).map (fun p => MSSlab.tree p.1 p.2)) = [2] ∧
    extGroupSizes (match loadMapSt (fun s id => s.retrieve idCodecM id) reopenedM ⟨7, 1⟩ 2 with
      | .ok (some m, _) => (m.slabAt ⟨7, 3⟩).map (fun p => MSSlab.tree p.1 p.2)
      | _ => none) = [2] := by decide

/-- `map_crash_reopen_last_commit`: after the commit the map is emptied and one entry is set, then
    the storage is abandoned: the reopened storage loads the map of the commit -/
def mlater : List MOp := [.popIterate, .set (key 5) (val 5)]
example := map_crash_reopen_last_commit idCodecM idCodecM_roundTrip 256 legal256 D2 cfg2 xM xM_good
  (idCodecM_noEncodeFailure _) .det [] [] mlater
  (by intro op hop
      simp only [mlater, List.mem_cons, List.not_mem_nil, or_false] at hop
      rcases hop with rfl | rfl
      · trivial
      · exact ⟨key_ok _, val_ok _⟩)
  _ (map_retrieve_is_fetch idCodecM) 2 (by decide)
def crashedM : St (MSSlab 1) (MSSlab 1) :=
  (St.step idCodecM (runS idCodecM cfg2 (xM.1, (St.step idCodecM xM.2 (.commit .det [] [] [])).1) mlater).2
    .recreate).1
example : (msummary (runS idCodecM cfg2 (xM.1, (St.step idCodecM xM.2 (.commit .det [] [] [])).1) mlater).1.1).l
    = [(5, val 5)] := by decide
example : msummaryR (loadMapSt (fun s id => s.retrieve idCodecM id) crashedM ⟨7, 1⟩ 2)
    = some (msummary xM.1.1) := by decide

/-- `map_failed_commit_then_retry`: the first attempt fails at its third write -/
example := map_failed_commit_then_retry idCodecM idCodecM_roundTrip 256 legal256 D2 cfg2 xM xM_good
  (idCodecM_noEncodeFailure _) [(.det, [2], [], [])] .nondet [] []
  _ (map_retrieve_is_fetch idCodecM) 2 (by decide)
example :
    let res := xM.2.fastCommit idCodecM (faultPlan [2])
    res.err = some .external ∧ res.st.base.map (·.1) = [⟨7, 2⟩, ⟨7, 1⟩] ∧
    res.st.deltas.map (·.1) = [⟨7, 4⟩, ⟨7, 5⟩, ⟨7, 3⟩] := by decide
def retriedM : St (MSSlab 1) (MSSlab 1) :=
  St.run idCodecM (xM.2.fastCommit idCodecM (faultPlan [2])).st [.commit .nondet [] [] [], .recreate]
example : msummaryR (loadMapSt (fun s id => s.retrieve idCodecM id) retriedM ⟨7, 1⟩ 2)
    = some (msummary xM.1.1) := by decide

end NonVacuity

end Atree.E2EM
