import AtreeModel.Gen.TransMapElem
import AtreeModel.Gen.TransMapElems
/-
  ELEMENT layer of the maps, error exits the hand-written model does not have: a failing callback / interface method /
  storage call comes back through `wrapErrorfAsExternalErrorIfNeeded`, with the exact state left.  For ANY environment
  (no hypothesis on `env` beyond the failing call itself).  Generated code: `AtreeModel/Gen/TransMapElem.lean`,
  `TransMapElems.lean`.  Core Lean only.
-/
namespace Atree.TransEq
open Atree

section unitB
open Atree.Gen.TransElem
variable {G V W X D B S ε : Type} (env : Env G V W X D B S ε)

/-- `singleElement.Get`: a failing comparator comes back wrapped; no key / value -/
theorem singleElement_Get_cmpError (e : singleElement V) (st st' : S) (d : D) (lvl hk : UInt64) (key : W) (eq : Bool) (err : ε)
    (h : env.ValueComparator st key e.key = (eq, some err, st')) :
    singleElement_Get env e st d lvl hk key = (none, none, env.wrapErrorfAsExternalErrorIfNeeded (some err), st') := by
  simp [singleElement_Get, h]

/-- `singleElement.Remove`: a failing comparator comes back wrapped; nothing removed -/
theorem singleElement_Remove_cmpError (e : singleElement V) (st st' : S) (d : D) (lvl hk : UInt64) (key : W) (eq : Bool) (err : ε)
    (h : env.ValueComparator st key e.key = (eq, some err, st')) :
    singleElement_Remove env e st d lvl hk key = (none, none, .nil, env.wrapErrorfAsExternalErrorIfNeeded (some err), st') := by
  simp [singleElement_Remove, h]

/-- `singleElement.Set`: a failing comparator comes back wrapped; the element is untouched -/
theorem singleElement_Set_cmpError (e : singleElement V) (st st' : S) (a : Nat) (b : B) (d : D) (lvl hk : UInt64) (key value : W)
    (eq : Bool) (err : ε) (h : env.ValueComparator st key e.key = (eq, some err, st')) :
    singleElement_Set env e st a b d lvl hk key value =
      some (.nil, none, none, env.wrapErrorfAsExternalErrorIfNeeded (some err), e, st') := by
  simp [singleElement_Set, h]

/-- `singleElement.Set`, key matches: a failing `value.Storable` comes back wrapped; the element is untouched -/
theorem singleElement_Set_storableError (e : singleElement V) (st st1 st2 : S) (a : Nat) (b : B) (d : D) (lvl hk : UInt64)
    (key value : W) (ks : V) (vs : Option V) (err : ε) (hk' : e.key = some ks)
    (h : env.ValueComparator st key e.key = (true, none, st1))
    (h2 : env.Value_Storable value st1 a (env.maxInlineMapValueSize (env.Storable_ByteSize ks)) = (vs, some err, st2)) :
    singleElement_Set env e st a b d lvl hk key value =
      some (.nil, none, none, env.wrapErrorfAsExternalErrorIfNeeded (some err), e, st2) := by
  rw [hk'] at h
  simp [singleElement_Set, h, hk', h2]

/-- `singleElement.Set`, collision below the last level: a failing `key.StoredValue` comes back wrapped -/
theorem singleElement_Set_storedValueError (e : singleElement V) (st st1 st2 : S) (a : Nat) (b : B) (d : D) (lvl hk : UInt64)
    (key value kv : W) (ks : V) (err : ε) (hk' : e.key = some ks)
    (h : env.ValueComparator st key e.key = (false, none, st1))
    (hlv : ¬ (lvl + 1 = env.Digester_Levels d))
    (h2 : env.Storable_StoredValue ks st1 = (kv, some err, st2)) :
    singleElement_Set env e st a b d lvl hk key value =
      some (.nil, none, none, env.wrapErrorfAsExternalErrorIfNeeded (some err), e, st2) := by
  rw [hk'] at h
  simp [singleElement_Set, h, hk', h2, hlv]

/-- ... a failing `DigesterBuilder.Digest` comes back wrapped -/
theorem singleElement_Set_builderError (e : singleElement V) (st st1 st2 : S) (a : Nat) (b : B) (d d' : D) (lvl hk : UInt64)
    (key value kv : W) (ks : V) (err : ε) (hk' : e.key = some ks)
    (h : env.ValueComparator st key e.key = (false, none, st1))
    (hlv : ¬ (lvl + 1 = env.Digester_Levels d))
    (h2 : env.Storable_StoredValue ks st1 = (kv, none, st2))
    (h3 : env.DigesterBuilder_Digest b kv = (d', some err)) :
    singleElement_Set env e st a b d lvl hk key value =
      some (.nil, none, none, env.wrapErrorfAsExternalErrorIfNeeded (some err), e, st2) := by
  rw [hk'] at h
  simp [singleElement_Set, h, hk', h2, hlv, h3]

/-- ... a failing `Digester.Digest(level + 1)` of the resident key comes back wrapped -/
theorem singleElement_Set_digestError (e : singleElement V) (st st1 st2 : S) (a : Nat) (b : B) (d d' : D) (lvl hk dg : UInt64)
    (key value kv : W) (ks : V) (err : ε) (hk' : e.key = some ks)
    (h : env.ValueComparator st key e.key = (false, none, st1))
    (hlv : ¬ (lvl + 1 = env.Digester_Levels d))
    (h2 : env.Storable_StoredValue ks st1 = (kv, none, st2))
    (h3 : env.DigesterBuilder_Digest b kv = (d', none))
    (h4 : env.Digester_Digest d' (lvl + 1) = (dg, some err)) :
    singleElement_Set env e st a b d lvl hk key value =
      some (.nil, none, none, env.wrapErrorfAsExternalErrorIfNeeded (some err), e, st2) := by
  rw [hk'] at h
  simp [singleElement_Set, h, hk', h2, hlv, h3, h4]

/-- `externalCollisionGroup.Remove`: a failing `storage.Retrieve` comes back wrapped -/
theorem externalCollisionGroup_Remove_retrieveError (e : externalCollisionGroup) (st st' : S) (d : D) (lvl hk : UInt64) (key : W)
    (slab : MapSlab G X) (found : Bool) (err : ε)
    (h : env.SlabStorage_Retrieve st e.slabID = (slab, found, some err, st')) :
    externalCollisionGroup_Remove env e st d lvl hk key =
      some (none, none, .nil, env.wrapErrorfAsExternalErrorIfNeeded (some err), st') := by
  simp [externalCollisionGroup_Remove, h]

/-- `externalCollisionGroup.Remove`: the slab is not in the storage -/
theorem externalCollisionGroup_Remove_notFound (e : externalCollisionGroup) (st st' : S) (d : D) (lvl hk : UInt64) (key : W)
    (slab : MapSlab G X)
    (h : env.SlabStorage_Retrieve st e.slabID = (slab, false, none, st')) :
    externalCollisionGroup_Remove env e st d lvl hk key = some (none, none, .nil, env.NewSlabNotFoundErrorf, st') := by
  simp [externalCollisionGroup_Remove, h]

/-- `externalCollisionGroup.Remove`: the slab in the storage is not a data slab: SlabDataError -/
theorem externalCollisionGroup_Remove_notDataSlab (e : externalCollisionGroup) (st st' : S) (d : D) (lvl hk : UInt64) (key : W)
    (m : MapMetaDataSlab X)
    (h : env.SlabStorage_Retrieve st e.slabID = (.metaSlab m, true, none, st')) :
    externalCollisionGroup_Remove env e st d lvl hk key = some (none, none, .nil, env.NewSlabDataErrorf, st') := by
  simp [externalCollisionGroup_Remove, h]

/-- `inlineCollisionGroup.Set`, oversized first-level group: a failing `GenerateSlabID` comes back wrapped; the group keeps
    the new element (the nested `Set` has already happened) -/
theorem inlineCollisionGroup_Set_genError (e : inlineCollisionGroup G) (st st1 st2 : S) (a : Nat) (b : B) (d : D) (hk dg : UInt64)
    (key value : W) (ks old : Option V) (g' : G) (id : SlabID) (err : ε) (derr : Option ε)
    (hlv : env.Digester_Levels d ≠ 0)
    (h1 : env.Digester_Digest d 1 = (dg, derr))
    (h2 : env.elements_Set e.elements st a b d 1 dg key value = (ks, old, none, g', st1))
    (hbig : (UInt32.ofNat Gen.inlineCollisionGroupPrefixSize) + env.elements_Size g' > env.maxInlineMapElementSize)
    (h3 : env.SlabStorage_GenerateSlabID st1 a = (id, some err, st2)) :
    inlineCollisionGroup_Set env e st a b d 0 hk key value =
      some (.nil, none, none, env.wrapErrorfAsExternalErrorIfNeeded (some err), { e with elements := g' }, st2) := by
  simp [inlineCollisionGroup_Set, inlineCollisionGroup_Size, hlv, h1, h2, hbig, h3]

/-- `inlineCollisionGroup.Set`, oversized first-level group, no failure: the group is EXPORTED - the slab value handed to
    `storage.Store` is spelled out (fresh id, size = data-slab prefix + elements size, firstKey of the elements, the elements
    themselves, anySize, collisionGroup; the model's effect log only records the id), the element returned is the external
    group with that id and size prefix + SlabIDStorable size; the receiver keeps the new elements -/
theorem inlineCollisionGroup_Set_export_slab (e : inlineCollisionGroup G) (st st1 st2 st3 : S) (a : Nat) (b : B) (d : D)
    (hk dg : UInt64) (key value : W) (ks old : Option V) (g' : G) (id : SlabID) (derr : Option ε)
    (hlv : env.Digester_Levels d ≠ 0)
    (h1 : env.Digester_Digest d 1 = (dg, derr))
    (h2 : env.elements_Set e.elements st a b d 1 dg key value = (ks, old, none, g', st1))
    (hbig : (UInt32.ofNat Gen.inlineCollisionGroupPrefixSize) + env.elements_Size g' > env.maxInlineMapElementSize)
    (h3 : env.SlabStorage_GenerateSlabID st1 a = (id, none, st2))
    (h4 : env.SlabStorage_Store st2 id (.dataSlab
      ({ header := { slabID := id, size := (UInt32.ofNat Gen.mapDataSlabPrefixSize) + env.elements_Size g',
                     firstKey := env.elements_firstKey g' },
         elements := g', anySize := true, collisionGroup := true } : MapDataSlab G X)) = (none, st3)) :
    inlineCollisionGroup_Set env e st a b d 0 hk key value =
      some (.externalGroup { slabID := id, size := (UInt32.ofNat Gen.externalCollisionGroupPrefixSize) + env.SlabIDStorable_ByteSize },
            ks, old, none, { e with elements := g' }, st3) := by
  simp [inlineCollisionGroup_Set, inlineCollisionGroup_Size, storeSlab, MapSlab_SlabID, MapDataSlab_SlabID,
    hlv, h1, h2, hbig, h3, h4]

/-- `getElementAndNextKey` of the three implementations: key, value, error and state are those of `Get` whenever that holds
    of the nested `elements` / of the slab fetched from the storage (same level adjustment, same digest) -/
theorem singleElement_getElementAndNextKey_get (e : singleElement V) (st : S) (d : D) (lvl hk : UInt64) (key : W) :
    (let r := singleElement_getElementAndNextKey env e st d lvl hk key; (r.1, r.2.1, r.2.2.1, r.2.2.2.1, r.2.2.2.2)) =
      (let g := singleElement_Get env e st d lvl hk key; (g.1, g.2.1, none, g.2.2.1, g.2.2.2)) := by
  simp [singleElement_getElementAndNextKey]

theorem inlineCollisionGroup_getElementAndNextKey_get (e : inlineCollisionGroup G) (st : S) (d : D) (lvl hk : UInt64) (key : W)
    (h : ∀ g st d l hk w, (let r := env.elements_getElementAndNextKey g st d l hk w; (r.1, r.2.1, r.2.2.2.1, r.2.2.2.2)) =
      env.elements_Get g st d l hk w) :
    (let r := inlineCollisionGroup_getElementAndNextKey env e st d lvl hk key; (r.1, r.2.1, r.2.2.2.1, r.2.2.2.2)) =
      inlineCollisionGroup_Get env e st d lvl hk key := by
  simp only [inlineCollisionGroup_getElementAndNextKey, inlineCollisionGroup_Get]
  split
  · rfl
  · exact h _ _ _ _ _ _

theorem externalCollisionGroup_getElementAndNextKey_get (e : externalCollisionGroup) (st : S) (d : D) (lvl hk : UInt64) (key : W)
    (h : ∀ (m : MapSlab G X) st d l hk w, (let r := env.MapSlab_getElementAndNextKey m st d l hk w; (r.1, r.2.1, r.2.2.2.1, r.2.2.2.2)) =
      env.MapSlab_Get m st d l hk w) :
    (let r := externalCollisionGroup_getElementAndNextKey env e st d lvl hk key; (r.1, r.2.1, r.2.2.2.1, r.2.2.2.2)) =
      externalCollisionGroup_Get env e st d lvl hk key := by
  simp only [externalCollisionGroup_getElementAndNextKey, externalCollisionGroup_Get]
  split
  · rfl
  · split
    · rfl
    · exact h _ _ _ _ _ _

end unitB

section unitA
open Atree.Gen.TransElems
variable {E V W S ε : Type} (env : Env E V W S ε)

/-- `hkeyElements.Set`, first element: a failing `newSingleElement` is handed on as it is (already categorised); the
    group is untouched -/
theorem hkeyElements_Set_newElemError (e : hkeyElements E) (st st' : S) (a : Nat) (lvl hk : UInt64) (key value : W)
    (ne : singleElement V) (err : ε)
    (hlv : ¬ (lvl ≥ env.Digester_Levels)) (hempty : e.hkeys = [])
    (h : env.newSingleElement st a key value = (ne, some err, st')) :
    hkeyElements_Set env e st a lvl hk key value = some (none, none, some err, e, st') := by
  simp [hkeyElements_Set, hlv, hempty, h]

end unitA
end Atree.TransEq
