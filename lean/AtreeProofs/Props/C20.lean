import AtreeProofs.HealthSpec
import AtreeProofs.HealthLemmas
/-
  C20 — The storage health check accepts exactly the healthy storages.
  PROPERTY THEOREMS about the model of `CheckStorageHealth` (as repaired by the `fix:` commit that
  rejects references to slabs that are not in storage) for EVERY heap of loaded slabs.
-/
namespace Atree.C20
open Atree Health

/-- Soundness: whatever the check accepts is healthy, the returned set is the true set of roots,
    and its size is the expected one. -/
theorem health_sound (h : Heap) (hk : (AList.keys h).Nodup) (expected : Option Nat) (R : List SlabID)
    (hok : check h expected = .ok R) :
    Healthy h R ∧ (∀ n, expected = some n → R.length = n) := by
  have _ := hk   -- not needed: an accepted heap has unique keys anyway
  exact check_sound h expected R hok

/-- Completeness: every healthy heap with the expected number of roots is accepted, and the
    returned roots are the true roots. -/
theorem health_complete (h : Heap) (hk : (AList.keys h).Nodup) (R : List SlabID) (hh : Healthy h R)
    (expected : Option Nat) (hn : ∀ n, expected = some n → R.length = n) :
    ∃ R', check h expected = .ok R' ∧ (∀ id, id ∈ R' ↔ id ∈ R) ∧ R'.length = R.length :=
  check_complete h hk R hh expected hn

/-- Deleting a referenced slab makes the check fail. -/
theorem delete_referenced_fails (h : Heap) (hk : (AList.keys h).Nodup) (R : List SlabID) (hh : Healthy h R)
    (id : SlabID) (href : id ∈ (edges h).map (·.2)) (expected : Option Nat) :
    ∀ R', check (AList.erase h id) expected ≠ .ok R' := by
  intro R' hok
  have hh' := (health_sound _ (AList.nodup_keys_erase h id hk) expected R' hok).1
  obtain ⟨p, he⟩ := (mem_targets h id).mp href
  have hne : p ≠ id := by
    rintro rfl
    exact no_self_loop hh p he
  have := hh'.resolves _ (mem_edges_erase h id p id he hne)
  simp only at this
  rw [contains_erase_self] at this
  cases this

/-- Adding a slab that nobody references makes the check fail when the expected root count is the
    original one.

    REPAIRED STATEMENT: the hypothesis `hroots` (the new slab does not reference one of the old
    roots) was added.  Without it the statement is false: a new slab that adopts exactly one old
    root yields a healthy heap with the same number of roots, see
    `extra_unreferenced_counterexample` below. -/
theorem extra_unreferenced_fails (h : Heap) (hk : (AList.keys h).Nodup) (R : List SlabID) (hh : Healthy h R)
    (id : SlabID) (s : HSlab) (hnew : AList.contains h id = false) (hunref : id ∉ (edges h).map (·.2))
    (hrefs : ∀ r ∈ s.refs, r ≠ id) (hroots : ∀ r ∈ s.refs, r ∉ R) :
    ∀ R', check ((id, s) :: h) (some R.length) ≠ .ok R' := by
  intro R' hok
  obtain ⟨hh', hlen⟩ := health_sound _ (keys_nodup_cons h hk id s hnew) _ R' hok
  have hlen := hlen _ rfl
  cases hs : s.refs with
  | nil =>
    -- the new slab is an additional root
    have htg : targets ((id, s) :: h) = targets h := by rw [targets_cons, hs]; rfl
    have hidR : id ∉ R := by
      intro hm
      have := ((hh.roots_iff id).mp hm).1
      rw [hnew] at this
      cases this
    have hmem : ∀ x, x ∈ R' ↔ x ∈ id :: R := by
      intro x
      rw [hh'.roots_iff, targets_def, htg, contains_cons, List.mem_cons, hh.roots_iff, targets_def]
      constructor
      · rintro ⟨h1 | h1, h2⟩
        · exact Or.inl h1
        · exact Or.inr ⟨h1, h2⟩
      · rintro (rfl | ⟨h1, h2⟩)
        · exact ⟨Or.inl rfl, hunref⟩
        · exact ⟨Or.inr h1, h2⟩
    have hperm := (List.perm_ext_iff_of_nodup hh'.roots_nodup
      (List.nodup_cons.mpr ⟨hidR, hh.roots_nodup⟩)).mpr hmem
    have := hperm.length_eq
    simp at this
    omega
  | cons r rs =>
    -- the first reference is either unresolved or a second reference to a non-root
    have hr : r ∈ s.refs := by rw [hs]; exact List.mem_cons_self ..
    have he : (id, r) ∈ edges ((id, s) :: h) := by
      rw [edges_cons]
      exact List.mem_append_left _ (List.mem_map.mpr ⟨r, hr, rfl⟩)
    have hres := hh'.resolves _ he
    simp only at hres
    rw [contains_cons] at hres
    rcases hres with hres | hres
    · exact hrefs r hr hres
    · have hrt : r ∈ targets h := by
        apply Classical.byContradiction
        intro hnt
        exact hroots r hr ((hh.roots_iff r).mpr ⟨hres, hnt⟩)
      have hsingle := hh'.single
      rw [targets_def, targets_cons, List.nodup_append] at hsingle
      exact hsingle.2.2 r hr r hrt rfl

/-- Referencing one slab from two places makes the check fail (whatever root count is expected). -/
theorem double_reference_fails (h : Heap) (hk : (AList.keys h).Nodup) (id : SlabID) (s : HSlab)
    (hnew : AList.contains h id = false) (target : SlabID) (ht : target ∈ s.refs)
    (hdup : target ∈ (edges h).map (·.2)) (expected : Option Nat) :
    ∀ R', check ((id, s) :: h) expected ≠ .ok R' := by
  intro R' hok
  have hh' := (health_sound _ (keys_nodup_cons h hk id s hnew) expected R' hok).1
  have hsingle := hh'.single
  rw [targets_def, targets_cons, List.nodup_append] at hsingle
  exact hsingle.2.2 target ht target hdup rfl

/-- Referencing a slab owned by a different address makes the check fail. -/
theorem foreign_owner_fails (h : Heap) (hk : (AList.keys h).Nodup) (id : SlabID) (s : HSlab)
    (hnew : AList.contains h id = false) (target : SlabID) (t : HSlab) (ht : target ∈ s.refs)
    (hfind : AList.find? h target = some t) (hne : target ≠ id) (hown : t.self.addr ≠ s.self.addr)
    (expected : Option Nat) :
    ∀ R', check ((id, s) :: h) expected ≠ .ok R' := by
  intro R' hok
  have hh' := (health_sound _ (keys_nodup_cons h hk id s hnew) expected R' hok).1
  have he : (id, target) ∈ edges ((id, s) :: h) := by
    rw [edges_cons]
    exact List.mem_append_left _ (List.mem_map.mpr ⟨target, ht, rfl⟩)
  have h1 : AList.find? ((id, s) :: h) id = some s := by simp [AList.find?_cons]
  have h2 : AList.find? ((id, s) :: h) target = some t := by
    rw [AList.find?_cons]
    have : ¬ id = target := fun e => hne e.symm
    simp [this, hfind]
  exact hown (hh'.owner _ he s t h1 h2).symm

/-- The all-child-references query returns exactly the resolvable and the broken references
    reachable from the given slab, on EVERY heap with unique keys and no reference cycle below the
    slab (no `Healthy` hypothesis; references may be broken): an identifier is reported iff it is the
    target of a reference held by a slab that `root` reaches - necessarily through slabs of the heap,
    only they have references - as a reference when it is a slab of the heap, as a broken reference
    when it is not.  (A slab reachable along several paths is listed once per path, as in Go.) -/
theorem allrefs_general (h : Heap) (hk : (AList.keys h).Nodup) (root : SlabID)
    (hroot : AList.contains h root = true) (hac : NoCycleBelow h root) :
    ∃ refs broken, allChildReferences h root = .ok (refs, broken) ∧
      (∀ id, id ∈ refs ↔ (AList.contains h id = true ∧ ∃ p, Reach h root p ∧ (p, id) ∈ edges h)) ∧
      (∀ id, id ∈ broken ↔ (AList.contains h id = false ∧ ∃ p, Reach h root p ∧ (p, id) ∈ edges h)) :=
  allChildReferences_general h hk root hroot hac

/-- The query never returns a truncated answer: it reports `diverges` exactly when there is a
    reference cycle below the slab (where the Go loop does not terminate, see DESIGN 13.4). -/
theorem allrefs_diverges_iff (h : Heap) (hk : (AList.keys h).Nodup) (root : SlabID)
    (hroot : AList.contains h root = true) :
    allChildReferences h root = .error .diverges ↔ ¬ NoCycleBelow h root :=
  allChildReferences_diverges_iff h hk root hroot

/-- The healthy case: nothing is broken and the references are the slabs below `root`.
    (STATEMENT CHANGED with the explicit divergence outcome: `allChildReferences` now returns
    `Except HErr _`, so `= some (refs, broken)` became `= .ok (refs, broken)`.) -/
theorem allrefs_exact (h : Heap) (hk : (AList.keys h).Nodup) (R : List SlabID) (hh : Healthy h R)
    (root : SlabID) (hroot : AList.contains h root = true) :
    ∃ refs broken, allChildReferences h root = .ok (refs, broken) ∧ broken = [] ∧
      (∀ id, id ∈ refs ↔ (Reach h root id ∧ id ≠ root)) :=
  allChildReferences_healthy h hk R hh root hroot

/-- The verdict does not depend on the order in which the slabs are visited (Go iterates maps in
    random order): two orders of one heap with unique keys are accepted together, with the same set
    of roots, and when both runs fail without diverging the same check fired. -/
theorem check_order_independent (h h' : Heap) (hk : (AList.keys h).Nodup) (hp : h.Perm h')
    (expected : Option Nat) :
    (∀ R, check h expected = .ok R → ∃ R', check h' expected = .ok R' ∧ ∀ id, id ∈ R' ↔ id ∈ R) ∧
    (∀ R', check h' expected = .ok R' → ∃ R, check h expected = .ok R ∧ ∀ id, id ∈ R ↔ id ∈ R') ∧
    (∀ k k', check h expected = .error k → check h' expected = .error k' → k ≠ .diverges →
      k' ≠ .diverges → k' = k) :=
  Health.check_order_independent h h' hk hp expected

/-! ### Decidable equality of check results (for the `decide` examples below) -/

instance decEqCheckResult {α : Type} [DecidableEq α] : DecidableEq (Except HErr α)
  | .ok a, .ok b =>
    if hab : a = b then isTrue (by rw [hab]) else isFalse (by intro e; cases e; exact hab rfl)
  | .error a, .error b =>
    if hab : a = b then isTrue (by rw [hab]) else isFalse (by intro e; cases e; exact hab rfl)
  | .ok _, .error _ => isFalse (by intro e; cases e)
  | .error _, .ok _ => isFalse (by intro e; cases e)

/-! ### Why `extra_unreferenced_fails` needed the extra hypothesis `hroots` -/

/-- Counterexample to `extra_unreferenced_fails` as originally stated (without `hroots`): the heap
    consisting of the single root `1.1` is healthy; adding the unreferenced slab `1.2`, which does
    not reference itself but references the old root `1.1`, gives a heap that the check accepts
    with the original root count 1 (the new slab replaces the old root as the only root). -/
theorem extra_unreferenced_counterexample :
    ∃ (h : Heap) (R : List SlabID) (id : SlabID) (s : HSlab),
      (AList.keys h).Nodup ∧ Healthy h R ∧ AList.contains h id = false ∧
      id ∉ (edges h).map (·.2) ∧ (∀ r ∈ s.refs, r ≠ id) ∧
      ∃ R', check ((id, s) :: h) (some R.length) = .ok R' := by
  refine ⟨[(⟨1, 1⟩, ⟨⟨1, 1⟩, []⟩)], [⟨1, 1⟩], ⟨1, 2⟩, ⟨⟨1, 2⟩, [⟨1, 1⟩]⟩, by decide, ?_, by decide,
    by decide, by decide, [⟨1, 2⟩], by decide⟩
  exact (health_sound _ (by decide) none _ (by decide)).1

/-! ### Non-vacuity: a concrete healthy heap and its four corruptions -/

section NonVacuity

/-- first tree (owner address 1): root → index → {a, b, c}, a → d -/
def exRoot1 : SlabID := ⟨1, 1⟩
def exIdx : SlabID := ⟨1, 2⟩
def exA : SlabID := ⟨1, 3⟩
def exB : SlabID := ⟨1, 4⟩
def exC : SlabID := ⟨1, 5⟩
def exD : SlabID := ⟨1, 6⟩
/-- second tree (owner address 2): a single root slab -/
def exRoot2 : SlabID := ⟨2, 1⟩

/-- the example heap, deliberately not in top-down order -/
def exHeap : Heap :=
  [ (exB, ⟨exB, []⟩),
    (exIdx, ⟨exIdx, [exA, exB, exC]⟩),
    (exRoot2, ⟨exRoot2, []⟩),
    (exD, ⟨exD, []⟩),
    (exRoot1, ⟨exRoot1, [exIdx]⟩),
    (exA, ⟨exA, [exD]⟩),
    (exC, ⟨exC, []⟩) ]

theorem exHeap_keys_nodup : (AList.keys exHeap).Nodup := by decide

/-- the check accepts the example with the expected root count 2 and returns the two roots -/
theorem exHeap_check : check exHeap (some 2) = .ok [exRoot2, exRoot1] := by decide

theorem exHeap_check_any : check exHeap none = .ok [exRoot2, exRoot1] := by decide

/-- a wrong expected root count is rejected -/
theorem exHeap_check_wrong_count : check exHeap (some 1) = .error .rootCount := by decide

/-- the example satisfies the specification directly (not via `health_sound`) -/
theorem exHeap_healthy : Healthy exHeap [exRoot2, exRoot1] where
  resolves := by decide
  single := by decide
  owner := by
    intro e he p c hp hc
    have hdec : ∀ e ∈ edges exHeap,
        (AList.find? exHeap e.1).all (fun p => (AList.find? exHeap e.2).all
          (fun c => decide (p.self.addr = c.self.addr))) = true := by decide
    have := hdec e he
    rw [hp, hc] at this
    simpa using this
  roots_iff := by
    intro id
    constructor
    · intro hid
      have hdec : ∀ r ∈ [exRoot2, exRoot1],
          AList.contains exHeap r = true ∧ r ∉ (edges exHeap).map (·.2) := by decide
      exact hdec id hid
    · rintro ⟨hc, hn⟩
      have hdec : ∀ k ∈ AList.keys exHeap,
          k ∉ (edges exHeap).map (·.2) → k ∈ [exRoot2, exRoot1] := by decide
      exact hdec id ((contains_iff_mem_keys exHeap id).mp hc) hn
  roots_nodup := by decide
  reach := by
    intro id hid
    have hkeys : id ∈ AList.keys exHeap := (contains_iff_mem_keys exHeap id).mp hid
    have r1 : Reach exHeap exRoot1 exRoot1 := Reach.refl _
    have rIdx : Reach exHeap exRoot1 exIdx := Reach.step r1 (by decide)
    have rA : Reach exHeap exRoot1 exA := Reach.step rIdx (by decide)
    have rB : Reach exHeap exRoot1 exB := Reach.step rIdx (by decide)
    have rC : Reach exHeap exRoot1 exC := Reach.step rIdx (by decide)
    have rD : Reach exHeap exRoot1 exD := Reach.step rA (by decide)
    have r2 : Reach exHeap exRoot2 exRoot2 := Reach.refl _
    simp only [AList.keys, exHeap, List.map_cons, List.map_nil, List.mem_cons, List.not_mem_nil,
      or_false] at hkeys
    rcases hkeys with rfl | rfl | rfl | rfl | rfl | rfl | rfl
    · exact ⟨exRoot1, by decide, rB⟩
    · exact ⟨exRoot1, by decide, rIdx⟩
    · exact ⟨exRoot2, by decide, r2⟩
    · exact ⟨exRoot1, by decide, rD⟩
    · exact ⟨exRoot1, by decide, r1⟩
    · exact ⟨exRoot1, by decide, rA⟩
    · exact ⟨exRoot1, by decide, rC⟩

/-- the all-child-references query on the example -/
theorem exHeap_allrefs :
    allChildReferences exHeap exRoot1 = .ok ([exIdx, exA, exB, exC, exD], []) := by decide

/-- corruption 1: a referenced slab (`a`, an inner slab; `d`, a leaf) is deleted -/
theorem exHeap_delete_inner :
    check (AList.erase exHeap exA) (some 2) = .error .slabNotFound ∧
    check (AList.erase exHeap exA) none = .error .slabNotFound := by decide

theorem exHeap_delete_leaf :
    check (AList.erase exHeap exD) (some 2) = .error .slabNotFound ∧
    check (AList.erase exHeap exD) none = .error .slabNotFound := by decide

/-- the broken reference is also what the all-child-references query reports -/
theorem exHeap_delete_allrefs :
    allChildReferences (AList.erase exHeap exD) exRoot1 = .ok ([exIdx, exA, exB, exC], [exD]) := by
  decide

/-- `allrefs_general` applies to that heap (one broken reference, no cycle) -/
example : NoCycleBelow (AList.erase exHeap exD) exRoot1 := by
  intro x y _ hxy hyx
  -- the rank "index of the slab" strictly increases along every edge of the example
  have hrk : ∀ e ∈ edges (AList.erase exHeap exD), e.1.idx < e.2.idx := by decide
  have hmono : ∀ a b, Reach (AList.erase exHeap exD) a b → a.idx ≤ b.idx := by
    intro a b hr
    induction hr with
    | refl => exact Nat.le_refl _
    | step _ he ih => have := hrk _ he; simp only at this; omega
  have h1 := hrk _ hxy
  have h2 := hmono _ _ hyx
  simp only at h1
  omega

/-- a reference cycle below the root (A -> B -> A, A -> L; no slab has two parents): the model
    reports that the Go functions do not return (observation O-cycle, DESIGN 13.4) -/
def cycA : SlabID := ⟨1, 1⟩
def cycB : SlabID := ⟨1, 2⟩
def cycL : SlabID := ⟨1, 3⟩
def cycHeap : Heap := [(cycA, ⟨cycA, [cycB, cycL]⟩), (cycB, ⟨cycB, [cycA]⟩), (cycL, ⟨cycL, []⟩)]

theorem cycHeap_allrefs_diverges : allChildReferences cycHeap cycA = .error .diverges := by decide

theorem cycHeap_check_diverges : check cycHeap none = .error .diverges := by decide

example : ¬ NoCycleBelow cycHeap cycA :=
  (allrefs_diverges_iff cycHeap (by decide) cycA (by decide)).mp cycHeap_allrefs_diverges

/-- corruption 2: an extra slab that nobody references, with the original expected root count -/
theorem exHeap_extra_unreferenced :
    check ((⟨1, 7⟩, ⟨⟨1, 7⟩, []⟩) :: exHeap) (some 2) = .error .rootCount := by decide

/-- corruption 3: a new slab holds a second reference to `d` -/
theorem exHeap_double_reference :
    check ((⟨1, 7⟩, ⟨⟨1, 7⟩, [exD]⟩) :: exHeap) (some 2) = .error .twoParents ∧
    check ((⟨1, 7⟩, ⟨⟨1, 7⟩, [exD]⟩) :: exHeap) none = .error .twoParents := by decide

/-- corruption 4: a new slab of owner 2 references the root of the tree of owner 1 -/
theorem exHeap_foreign_owner :
    check ((⟨2, 7⟩, ⟨⟨2, 7⟩, [exRoot1]⟩) :: exHeap) (some 2) = .error .owner ∧
    check ((⟨2, 7⟩, ⟨⟨2, 7⟩, [exRoot1]⟩) :: exHeap) none = .error .owner := by decide

/-- the example heap visited in the opposite order: same verdicts (`check_order_independent`), by
    evaluation -/
example : check exHeap.reverse (some 2) = .ok [exRoot2, exRoot1] := by decide
example : check (AList.erase exHeap exA).reverse (some 2) = .error .slabNotFound := by decide
example : check ((⟨2, 7⟩, ⟨⟨2, 7⟩, [exRoot1]⟩) :: exHeap).reverse none = .error .owner := by decide
/-- the one pair of outcomes that does depend on the order: a foreign owner on one parent chain, a
    reference cycle on another -/
def raceHeap : Heap :=
  [(⟨1, 1⟩, ⟨⟨1, 1⟩, [⟨1, 2⟩, ⟨1, 3⟩]⟩), (⟨1, 2⟩, ⟨⟨1, 2⟩, [⟨1, 1⟩]⟩), (⟨1, 3⟩, ⟨⟨1, 3⟩, []⟩),
   (⟨2, 1⟩, ⟨⟨2, 1⟩, [⟨1, 4⟩]⟩), (⟨1, 4⟩, ⟨⟨1, 4⟩, []⟩)]
example : check raceHeap none = .error .diverges := by decide
example : check raceHeap.reverse none = .error .owner := by decide

/-- the general theorems apply to the example (their hypotheses are satisfiable) -/
example : ∀ R', check (AList.erase exHeap exA) (some 2) ≠ .ok R' :=
  delete_referenced_fails exHeap exHeap_keys_nodup _ exHeap_healthy exA (by decide) (some 2)

example : ∀ R', check ((⟨1, 7⟩, ⟨⟨1, 7⟩, []⟩) :: exHeap) (some 2) ≠ .ok R' :=
  extra_unreferenced_fails exHeap exHeap_keys_nodup _ exHeap_healthy ⟨1, 7⟩ ⟨⟨1, 7⟩, []⟩
    (by decide) (by decide) (by decide) (by decide)

example : ∀ R', check ((⟨1, 7⟩, ⟨⟨1, 7⟩, [exD]⟩) :: exHeap) none ≠ .ok R' :=
  double_reference_fails exHeap exHeap_keys_nodup ⟨1, 7⟩ ⟨⟨1, 7⟩, [exD]⟩ (by decide) exD
    (by decide) (by decide) none

example : ∀ R', check ((⟨2, 7⟩, ⟨⟨2, 7⟩, [exRoot1]⟩) :: exHeap) none ≠ .ok R' :=
  foreign_owner_fails exHeap exHeap_keys_nodup ⟨2, 7⟩ ⟨⟨2, 7⟩, [exRoot1]⟩ (by decide) exRoot1
    ⟨exRoot1, [exIdx]⟩ (by decide) (by decide) (by decide) (by decide) none

end NonVacuity

end Atree.C20
