import AtreeProofs.HealthSpec
import AtreeProofs.HealthLemmas
/-
  C20 — The storage health check accepts exactly the healthy storages.
  PROPERTY THEOREMS about the model of `CheckStorageHealth` (as repaired by the `fix:` commit that
  rejects references to slabs that are not in storage) for EVERY heap of loaded slabs.
-/
namespace Atree.C20
open Atree Health

/-- Soundness: whatever the check accepts is healthy, the returned set is the true set of roots,
    and its size is the expected one. -/
theorem health_sound (h : Heap) (hk : (AList.keys h).Nodup) (expected : Option Nat) (R : List SlabID)
    (hok : check h expected = .ok R) :
    Healthy h R ∧ (∀ n, expected = some n → R.length = n) := by
  sorry

/-- Completeness: every healthy heap with the expected number of roots is accepted, and the
    returned roots are the true roots. -/
theorem health_complete (h : Heap) (hk : (AList.keys h).Nodup) (R : List SlabID) (hh : Healthy h R)
    (expected : Option Nat) (hn : ∀ n, expected = some n → R.length = n) :
    ∃ R', check h expected = .ok R' ∧ (∀ id, id ∈ R' ↔ id ∈ R) ∧ R'.length = R.length := by
  sorry

/-- Deleting a referenced slab makes the check fail. -/
theorem delete_referenced_fails (h : Heap) (hk : (AList.keys h).Nodup) (R : List SlabID) (hh : Healthy h R)
    (id : SlabID) (href : id ∈ (edges h).map (·.2)) (expected : Option Nat) :
    ∀ R', check (AList.erase h id) expected ≠ .ok R' := by
  sorry

/-- Adding a slab that nobody references makes the check fail when the expected root count is the
    original one. -/
theorem extra_unreferenced_fails (h : Heap) (hk : (AList.keys h).Nodup) (R : List SlabID) (hh : Healthy h R)
    (id : SlabID) (s : HSlab) (hnew : AList.contains h id = false) (hunref : id ∉ (edges h).map (·.2))
    (hrefs : ∀ r ∈ s.refs, r ≠ id) :
    ∀ R', check ((id, s) :: h) (some R.length) ≠ .ok R' := by
  sorry

/-- Referencing one slab from two places makes the check fail (whatever root count is expected). -/
theorem double_reference_fails (h : Heap) (hk : (AList.keys h).Nodup) (id : SlabID) (s : HSlab)
    (hnew : AList.contains h id = false) (target : SlabID) (ht : target ∈ s.refs)
    (hdup : target ∈ (edges h).map (·.2)) (expected : Option Nat) :
    ∀ R', check ((id, s) :: h) expected ≠ .ok R' := by
  sorry

/-- Referencing a slab owned by a different address makes the check fail. -/
theorem foreign_owner_fails (h : Heap) (hk : (AList.keys h).Nodup) (id : SlabID) (s : HSlab)
    (hnew : AList.contains h id = false) (target : SlabID) (t : HSlab) (ht : target ∈ s.refs)
    (hfind : AList.find? h target = some t) (hne : target ≠ id) (hown : t.self.addr ≠ s.self.addr)
    (expected : Option Nat) :
    ∀ R', check ((id, s) :: h) expected ≠ .ok R' := by
  sorry

/-- The all-child-references query returns exactly the resolvable and the broken references
    reachable from the given slab (on a heap without reference cycles below it, where the Go loop
    terminates): a reference is reported iff it is the target of an edge whose source is reachable
    from the root through resolvable slabs. -/
theorem allrefs_exact (h : Heap) (hk : (AList.keys h).Nodup) (R : List SlabID) (hh : Healthy h R)
    (root : SlabID) (hroot : AList.contains h root = true) :
    ∃ refs broken, allChildReferences h root = some (refs, broken) ∧ broken = [] ∧
      (∀ id, id ∈ refs ↔ (Reach h root id ∧ id ≠ root)) := by
  sorry

end Atree.C20
