import AtreeModel.Commit
import AtreeProofs.StorageLemmas
import AtreeProofs.CommitLemmas
/-
  C16 — Parallel commit/preload are sequential-equal (the part that is logic: the message-passing
  model of the worker pools).  Data races in the Go memory model, real preemption and sync.Pool
  internals are exercised by the harness under the race detector, not proved; see DESIGN.md.
-/
namespace Atree.C16
open Atree St Pool

/-- Whatever the schedule, the pool never loses, duplicates or invents a result: when it has
    finished, the results are a permutation of `jobs` paired with `f job`. -/
theorem pool_results_perm {ι ρ : Type} (f : ι → ρ) (jobs : List ι) (workers : Nat) (sched : List Nat)
    (hfin : finished (runSchedule f (initState jobs workers) sched) = true) :
    (runSchedule f (initState jobs workers) sched).results.Perm (jobs.map (fun j => (j, f j))) := by
  sorry

/-- At every moment of every schedule, the number of buffered results never exceeds the number of
    jobs (so a send on the result channel, whose capacity is the job count, never blocks), and no
    job is in two places. -/
theorem pool_results_bounded {ι ρ : Type} (f : ι → ρ) (jobs : List ι) (workers : Nat) (sched : List Nat) :
    let s := runSchedule f (initState jobs workers) sched
    s.results.length + (s.holding.filter (·.isSome)).length + s.queue.length = jobs.length := by
  sorry

/-- The pool finishes under the round-robin schedule for any worker count ≥ 1 (termination and
    drainage are possible under a fair scheduler). -/
theorem pool_terminates {ι ρ : Type} (f : ι → ρ) (jobs : List ι) (workers : Nat) (hw : 1 ≤ workers) :
    finished (runSchedule f (initState jobs workers) (roundRobin workers jobs.length)) = true := by
  sorry

variable {σ β : Type} (c : Codec σ β)

/-- Committing with any number of workers under any finishing schedule produces the same
    registers, cache, write set, error and call log as doing the work on one goroutine. -/
theorem parallel_commit_sequential_equal (s : St σ β) (h : Inv c s) (fault : Nat → Bool)
    (workers : Nat) (hw : 1 ≤ workers) (sched : List Nat)
    (hfin : finished (runSchedule (encodeJob c s)
              (initState (sortedOwnedDeltaKeys s) (min workers (sortedOwnedDeltaKeys s).length)) sched) = true) :
    let r := s.fastCommitPool c fault workers sched
    let r0 := s.fastCommit c fault
    r.st = r0.st ∧ r.err = r0.err ∧ r.log = r0.log := by
  sorry

/-- Preloading in parallel: for every arrival order of the decoded slabs (a permutation of the
    requested identifiers, which are distinct), the resulting cache and view are those of the
    sequential preload. -/
theorem parallel_preload_sequential_equal (hc : RoundTrip c) (s : St σ β) (h : Inv c s)
    (ids arrival : List SlabID) (hnd : ids.Nodup) (hperm : arrival.Perm ids) :
    let p := s.preloadArrival c arrival
    let q := (s.batchPreload c ids).1
    (s.batchPreload c ids).2 = none ∧
    (∀ id, AList.find? p.cache id = AList.find? q.cache id) ∧
    p.deltas = q.deltas ∧ p.base = q.base ∧ (∀ id, p.view c id = s.view c id) := by
  sorry

end Atree.C16
