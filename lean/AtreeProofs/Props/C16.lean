import AtreeModel.Commit
import AtreeProofs.StorageLemmas
import AtreeProofs.CommitLemmas
import AtreeProofs.StorageLemmas2
import AtreeProofs.PoolLemmas
import AtreeProofs.StorageExample2
/-
  C16 — Parallel commit/preload are sequential-equal (the part that is logic: the message-passing
  model of the worker pools).  Data races in the Go memory model, real preemption and sync.Pool
  internals are exercised by the harness under the race detector, not proved; see DESIGN.md.
-/
namespace Atree.C16
open Atree St Pool

/-- Whatever the schedule, the pool never loses, duplicates or invents a result: when it has
    finished, the results are a permutation of `jobs` paired with `f job`. -/
theorem pool_results_perm {ι ρ : Type} (f : ι → ρ) (jobs : List ι) (workers : Nat) (sched : List Nat)
    (hfin : finished (runSchedule f (initState jobs workers) sched) = true) :
    (runSchedule f (initState jobs workers) sched).results.Perm (jobs.map (fun j => (j, f j))) := by
  exact pinv_finished f jobs _ (pinv_run f jobs sched _ (pinv_init f jobs workers)) hfin

/-- At every moment of every schedule, the number of buffered results never exceeds the number of
    jobs (so a send on the result channel, whose capacity is the job count, never blocks), and no
    job is in two places. -/
theorem pool_results_bounded {ι ρ : Type} (f : ι → ρ) (jobs : List ι) (workers : Nat) (sched : List Nat) :
    let s := runSchedule f (initState jobs workers) sched
    s.results.length + (s.holding.filter (·.isSome)).length + s.queue.length = jobs.length := by
  exact pinv_count f jobs _ (pinv_run f jobs sched _ (pinv_init f jobs workers))

/-- The pool finishes under the round-robin schedule for any worker count ≥ 1 (termination and
    drainage are possible under a fair scheduler). -/
theorem pool_terminates {ι ρ : Type} (f : ι → ρ) (jobs : List ι) (workers : Nat) (hw : 1 ≤ workers) :
    finished (runSchedule f (initState jobs workers) (roundRobin workers jobs.length)) = true := by
  exact roundRobin_finishes f jobs workers hw

variable {σ β : Type} (c : Codec σ β)

/-- Committing with any number of workers under any finishing schedule produces the same
    registers, cache, write set, error and call log as doing the work on one goroutine. -/
theorem parallel_commit_sequential_equal (s : St σ β) (h : Inv c s) (fault : Nat → Bool)
    (workers : Nat) (hw : 1 ≤ workers) (sched : List Nat)
    (hfin : finished (runSchedule (encodeJob c s)
              (initState (sortedOwnedDeltaKeys s) (min workers (sortedOwnedDeltaKeys s).length)) sched) = true) :
    let r := s.fastCommitPool c fault workers sched
    let r0 := s.fastCommit c fault
    r.st = r0.st ∧ r.err = r0.err ∧ r.log = r0.log := by
  intro r r0
  have _ := hw   -- (the worker count is clamped to the job count; `1 ≤ workers` is not needed)
  have : r = r0 := fastCommitPool_eq c fault s h.deltasNodup workers sched hfin
  rw [this]
  exact ⟨rfl, rfl, rfl⟩

/-- Preloading in parallel: for every arrival order of the decoded slabs (a permutation of the
    requested identifiers, which are distinct), the resulting cache and view are those of the
    sequential preload. -/
theorem parallel_preload_sequential_equal (hc : RoundTrip c) (s : St σ β) (h : Inv c s)
    (ids arrival : List SlabID) (hnd : ids.Nodup) (hperm : arrival.Perm ids) :
    let p := s.preloadArrival c arrival
    let q := (s.batchPreload c ids).1
    (s.batchPreload c ids).2 = none ∧
    (∀ id, AList.find? p.cache id = AList.find? q.cache id) ∧
    p.deltas = q.deltas ∧ p.base = q.base ∧ (∀ id, p.view c id = s.view c id) := by
  intro p q
  have _ := hc
  have _ := hnd  -- (re-caching an identifier is idempotent; distinctness is not needed)
  have hq : s.batchPreload c ids = (ids.foldl (cacheDecoded c) s, none) :=
    batchPreload_eq c ids s h.baseDecodes
  have hq' : q = ids.foldl (cacheDecoded c) s := by show (s.batchPreload c ids).1 = _; rw [hq]
  have hp : p = arrival.foldl (cacheDecoded c) s := preloadArrival_eq c s arrival
  obtain ⟨p1, p2, p3⟩ := cacheDecoded_fold c arrival s
  obtain ⟨q1, q2, q3⟩ := cacheDecoded_fold c ids s
  refine ⟨by rw [hq], ?_, ?_, ?_, ?_⟩
  · intro id
    rw [hp, hq', p3 id, q3 id]
    simp only [hperm.mem_iff]
  · rw [hp, hq', p2, q2]
  · rw [hp, hq', p1, q1]
  · rw [hp]
    exact (cacheDecoded_fold_inv c arrival s h).2

/-! ### Non-vacuity

The pool theorems are evaluated on a 3-worker pool with 4 jobs under an interleaved schedule; the
commit and preload theorems are instantiated on `Example.poolSt` / `Example.exSt`. -/
section NonVacuity
open Atree.Example

/-- 3 workers, jobs `10, 20, 30, 40`, `f = (· + 1)`, the interleaved schedule `poolSched`: the pool
    finishes, results arrive out of order, nothing is lost or duplicated. -/
example :
    let s := runSchedule (fun n : Nat => n + 1) (initState [10, 20, 30, 40] 3) poolSched
    finished s = true ∧ s.results = [(30, 31), (10, 11), (40, 41), (20, 21)] := by decide
example := pool_results_perm (fun n : Nat => n + 1) [10, 20, 30, 40] 3 poolSched (by decide)

/-- In the middle of the schedule: one result buffered, two jobs held, one queued. -/
example :
    let s := runSchedule (fun n : Nat => n + 1) (initState [10, 20, 30, 40] 3) [0, 1, 2, 2]
    finished s = false ∧ s.results.length = 1 ∧ (s.holding.filter (·.isSome)).length = 2 ∧
    s.queue.length = 1 := by decide

/-- `finished` is a real hypothesis of `pool_results_perm` (an unfinished pool has fewer results),
    and `1 ≤ workers` a real hypothesis of `pool_terminates` (no workers, no progress). -/
example : (runSchedule (fun n : Nat => n + 1) (initState [10, 20, 30, 40] 3) [0, 1, 2, 2]).results
    = [(30, 31)] := by decide
example : finished (runSchedule (fun n : Nat => n + 1) (initState [10] 0) (roundRobin 0 1)) = false := by
  decide
example : finished (runSchedule (fun n : Nat => n + 1) (initState [10, 20, 30, 40] 3) (roundRobin 3 4))
    = true := by decide

/-- `parallel_commit_sequential_equal` on `poolSt` (four owned pending identifiers, 3 workers, the
    interleaved schedule; encoder results arrive as `1.5, 1.1, 2.1, 1.2`), with and without a
    failing base-storage call. -/
example : RoundTrip natCodec ∧ Inv natCodec poolSt := ⟨roundTrip, poolInv⟩
example :
    finished (runSchedule (encodeJob natCodec poolSt)
      (initState (sortedOwnedDeltaKeys poolSt) (min 3 (sortedOwnedDeltaKeys poolSt).length)) poolSched) = true := by
  decide
example :
    let r := poolSt.fastCommitPool natCodec (faultPlan [2]) 3 poolSched
    let r0 := poolSt.fastCommit natCodec (faultPlan [2])
    r.st.base = r0.st.base ∧ r.st.deltas = r0.st.deltas ∧ r.st.cache = r0.st.cache ∧
    r.err = r0.err ∧ r.log.map callRepr = r0.log.map callRepr ∧ r0.err = some .external ∧
    r0.log.map callRepr = [(⟨1, 1⟩, some 5), (⟨1, 2⟩, none), (⟨1, 5⟩, some 2)] := by decide
example := parallel_commit_sequential_equal natCodec poolSt poolInv (fun _ => false) 3 (by decide)
  poolSched (by decide)

/-- An encoding failure is reported before anything is written, under the pool as sequentially. -/
example :
    let cBad : Codec Nat Nat := { natCodec with enc := fun v => if v = 2 then none else some v }
    let r := poolSt.fastCommitPool cBad (fun _ => false) 3 poolSched
    let r0 := poolSt.fastCommit cBad (fun _ => false)
    r.err = some .encoding ∧ r0.err = some .encoding ∧ r.log.length = 0 ∧ r0.log.length = 0 ∧
    r.st.base = poolSt.base := by decide

theorem arrivalPerm : ([⟨1, 3⟩, ⟨1, 2⟩, ⟨1, 9⟩, ⟨1, 4⟩] : List SlabID).Perm [⟨1, 4⟩, ⟨1, 9⟩, ⟨1, 2⟩, ⟨1, 3⟩] :=
  List.reverse_perm ([⟨1, 4⟩, ⟨1, 9⟩, ⟨1, 2⟩, ⟨1, 3⟩] : List SlabID)

/-- `parallel_preload_sequential_equal` on `exSt` (registers `1.4, 1.3, 1.2`; `1.9` is absent):
    arrival order reversed. -/
example :
    let ids : List SlabID := [⟨1, 4⟩, ⟨1, 9⟩, ⟨1, 2⟩, ⟨1, 3⟩]
    let arrival : List SlabID := [⟨1, 3⟩, ⟨1, 2⟩, ⟨1, 9⟩, ⟨1, 4⟩]
    ids.Nodup ∧ arrival.Perm ids ∧
    (exSt.preloadArrival natCodec arrival).cache ≠ (exSt.batchPreload natCodec ids).1.cache ∧
    AList.find? (exSt.preloadArrival natCodec arrival).cache ⟨1, 4⟩ = some (some 9) ∧
    AList.find? (exSt.batchPreload natCodec ids).1.cache ⟨1, 4⟩ = some (some 9) ∧
    AList.find? (exSt.batchPreload natCodec ids).1.cache ⟨1, 9⟩ = none := by
  exact ⟨by decide, arrivalPerm, by decide, by decide, by decide, by decide⟩
example := parallel_preload_sequential_equal natCodec roundTrip exSt inv
  [⟨1, 4⟩, ⟨1, 9⟩, ⟨1, 2⟩, ⟨1, 3⟩] [⟨1, 3⟩, ⟨1, 2⟩, ⟨1, 9⟩, ⟨1, 4⟩] (by decide)
  arrivalPerm

end NonVacuity

end Atree.C16
