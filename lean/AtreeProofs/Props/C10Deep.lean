import AtreeProofs.World.DeepOpsArr2
import AtreeProofs.World.DeepOpsMap
import AtreeProofs.World.DeepOpsMisc
import AtreeProofs.Props.C09WHist
/-
  C10 "… IS PERSISTED BY THE NEXT COMMIT", THE DEEP ACCOUNT (`WC.DeepStoredC`, definitions in
  `AtreeProofs/WorldCodec/DeepDefs.lean`): for EVERY operation of a history `C09W.Hist`, a slab that is
  in the heap before and after the operation with the same SHALLOW content (`World.slabAt`: a child
  is `{size, ref vid}` whether inlined or not) but whose DEEP content differs — the storable
  `World.stor e` of one of its local elements, which embeds the inlined children recursively — has a
  store as its last action in the log of the operation.  PROPERTY THEOREMS.

  This is the hypothesis `DeepStored` that `Props/C10Persist.lean` (`deep_op_persisted`) leaves open,
  in the form of the codec translation.  Together with the shallow account
  (`C09W.*_effects_complete`: every slab whose shallow content changed or that is new was stored,
  every slab that left the heap was removed) it says: the log of an operation is a complete account
  of the change of the BYTES of every register.

  Proof (files `AtreeProofs/World/Deep*.lean`):
  * `Deep.not_deepSame` — if `stor` of a local element of a slab differs, a container reached from
    the slab through inlined containers has a different entry and is inlined before or after;
  * `Deep.notifyDeep` — the callback chain, by induction on the fuel along `World.notifyHeap`: every
    `Array.set` / `OrderedMap.set` of the chain on a parent that owns the slab holding the reference
    to the notifying child stores that slab (`arr_set_holds`, `omap_set_holds`, and the new
    `Deep.omapInl_set_holds` for the external collision groups of an INLINED map); identification
    of "the slab the core lemma stored" with "the slab in question" by `UniqueRef` and
    `leaf_positions'` / `mslab_vals_perm`; the chain does not stop below the standalone host because
    the handle is current (`HandleOk`);
  * `Deep.deep_of_track` — the operations: the value handed in was referenced by nobody, the value
    handed back is referenced by nobody, everything else that changed is on the chain.

  Two forms of every theorem: `*_deepStored` with the hypotheses of the constructors of `C09W.Hist`
  (as requested), `*_deepStored_ok` with `WorldOk'` and `HeapOk` only.
-/
namespace Atree.C10Deep
open Atree Gen World
open Atree.C09 (newEffects)
open Atree.Deep

variable (D : SlabID → DigestFn 4)

/-! ### under the invariants -/

theorem arrInsert_deepStored_ok {w : World} {cx : Ctx} {p : SlabID} {i : Nat} {v : WVal} {w' : World} {cx' : Ctx}
    (H : WorldOk' D w cx.ctr) (Hh : HeapOk w cx.ctr) (hh : HandleOk w p) (hv : WValOk w p (maxInlineArr w.T) v)
    (hr : w.arrInsert p i v cx = .ok (w', cx')) : WC.DeepStoredC w w' (newEffects cx cx') := by
  obtain ⟨rank, H0⟩ := H
  obtain ⟨rank', hrk, hv'⟩ := C09W.wvalH_of_ok H0 hv
  exact deepStoredC_of Hh (arrInsert_heap ((HInv.of_pk H0).with_rank hrk) Hh hv' hr) (arrInsert_deepM H0 Hh hh hv hr)

theorem arrSet_deepStored_ok {w : World} {cx : Ctx} {p : SlabID} {i : Nat} {v : WVal} {old : Elem} {w' : World} {cx' : Ctx}
    (H : WorldOk' D w cx.ctr) (Hh : HeapOk w cx.ctr) (hh : HandleOk w p) (hv : WValOk w p (maxInlineArr w.T) v)
    (hr : w.arrSet p i v cx = .ok (old, w', cx')) : WC.DeepStoredC w w' (newEffects cx cx') := by
  obtain ⟨rank, H0⟩ := H
  obtain ⟨rank', hrk, hv'⟩ := C09W.wvalH_of_ok H0 hv
  exact deepStoredC_of Hh (arrSet_heap ((HInv.of_pk H0).with_rank hrk) Hh hv' hr) (arrSet_deepM H0 Hh hh hv hr)

theorem arrRemove_deepStored_ok {w : World} {cx : Ctx} {p : SlabID} {i : Nat} {old : Elem} {w' : World} {cx' : Ctx}
    (H : WorldOk' D w cx.ctr) (Hh : HeapOk w cx.ctr) (hh : HandleOk w p)
    (hr : w.arrRemove p i cx = .ok (old, w', cx')) : WC.DeepStoredC w w' (newEffects cx cx') := by
  obtain ⟨rank, H0⟩ := H
  exact deepStoredC_of Hh (arrRemove_heap (HInv.of_pk H0) Hh hr) (arrRemove_deepM H0 Hh hh hr)

theorem mapSet_deepStored_ok {w : World} {cx : Ctx} {p : SlabID} {k : MKey} {v : WVal} {old : Option Elem} {w' : World}
    {cx' : Ctx} (H : WorldOk' D w cx.ctr) (Hh : HeapOk w cx.ctr) (hh : HandleOk w p) (hk : KeyOk w.T 4 (D p) k)
    (hv : WValOk w p (maxInlineMapValue w.T k.size) v)
    (hr : w.mapSet p k v cx = .ok (old, w', cx')) : WC.DeepStoredC w w' (newEffects cx cx') := by
  obtain ⟨rank, H0⟩ := H
  obtain ⟨rank', hrk, hv'⟩ := C09W.wvalH_of_ok H0 hv
  exact deepStoredC_of Hh (mapSet_heap ((HInv.of_pk H0).with_rank hrk) Hh hk hv' hr) (mapSet_deepM H0 Hh hh hk hv hr)

theorem mapRemove_deepStored_ok {w : World} {cx : Ctx} {p : SlabID} {k rk : MKey} {rv : Elem} {w' : World} {cx' : Ctx}
    (H : WorldOk' D w cx.ctr) (Hh : HeapOk w cx.ctr) (hh : HandleOk w p) (hk : KeyOk w.T 4 (D p) k)
    (hr : w.mapRemove p k cx = .ok (rk, rv, w', cx')) : WC.DeepStoredC w w' (newEffects cx cx') := by
  obtain ⟨rank, H0⟩ := H
  exact deepStoredC_of Hh (mapRemove_heap (HInv.of_pk H0) Hh hk hr) (mapRemove_deepM H0 Hh hh hk hr)

theorem setType_deepStored_ok {w : World} {cx : Ctx} {p : SlabID} {ty : Nat} {w' : World} {cx' : Ctx}
    (H : WorldOk' D w cx.ctr) (Hh : HeapOk w cx.ctr) (hh : HandleOk w p)
    (hr : w.setType p ty cx = .ok (w', cx')) : WC.DeepStoredC w w' (newEffects cx cx') := by
  obtain ⟨rank, H0⟩ := H
  exact deepStoredC_of Hh (setType_heap (HInv.of_pk H0) Hh hr) (setType_deepM H0 Hh hh hr)

theorem newArr_deepStored_ok {w : World} {cx : Ctx} (ty : Nat) (H : WorldOk' D w cx.ctr) (Hh : HeapOk w cx.ctr) :
    WC.DeepStoredC w (w.newArr ty cx).2.1 (newEffects cx (w.newArr ty cx).2.2) := by
  obtain ⟨rank, H0⟩ := H
  exact deepStoredC_of Hh (newArr_heap (ty := ty) (HInv.of_pk H0) Hh) (newArr_deepM H0)

theorem newMap_deepStored_ok {w : World} {cx : Ctx} (ty seed : Nat) (H : WorldOk' D w cx.ctr) (Hh : HeapOk w cx.ctr) :
    WC.DeepStoredC w (w.newMap ty seed cx).2.1 (newEffects cx (w.newMap ty seed cx).2.2) := by
  obtain ⟨rank, H0⟩ := H
  exact deepStoredC_of Hh (newMap_heap (ty := ty) (seed := seed) (HInv.of_pk H0) Hh) (newMap_deepM H0)

/-! ### one step of a history: the deep account holds -/

/-- `Array.Insert` -/
theorem arrInsert_deepStored {w : World} {cx : Ctx} {p : SlabID} {i : Nat} {v : WVal} {w' : World} {cx' : Ctx}
    (h : C09W.Hist D w cx) (hh : HandleOk w p) (hv : WValOk w p (maxInlineArr w.T) v)
    (hr : w.arrInsert p i v cx = .ok (w', cx')) : WC.DeepStoredC w w' (newEffects cx cx') := by
  obtain ⟨H, Hh, _⟩ := C09W.world_heap_exact D w cx h
  exact arrInsert_deepStored_ok D H Hh hh hv hr

/-- `Array.Set` -/
theorem arrSet_deepStored {w : World} {cx : Ctx} {p : SlabID} {i : Nat} {v : WVal} {old : Elem} {w' : World} {cx' : Ctx}
    (h : C09W.Hist D w cx) (hh : HandleOk w p) (hv : WValOk w p (maxInlineArr w.T) v)
    (hr : w.arrSet p i v cx = .ok (old, w', cx')) : WC.DeepStoredC w w' (newEffects cx cx') := by
  obtain ⟨H, Hh, _⟩ := C09W.world_heap_exact D w cx h
  exact arrSet_deepStored_ok D H Hh hh hv hr

/-- `Array.Remove` -/
theorem arrRemove_deepStored {w : World} {cx : Ctx} {p : SlabID} {i : Nat} {old : Elem} {w' : World} {cx' : Ctx}
    (h : C09W.Hist D w cx) (hh : HandleOk w p)
    (hr : w.arrRemove p i cx = .ok (old, w', cx')) : WC.DeepStoredC w w' (newEffects cx cx') := by
  obtain ⟨H, Hh, _⟩ := C09W.world_heap_exact D w cx h
  exact arrRemove_deepStored_ok D H Hh hh hr

/-- `OrderedMap.Set` -/
theorem mapSet_deepStored {w : World} {cx : Ctx} {p : SlabID} {k : MKey} {v : WVal} {old : Option Elem} {w' : World}
    {cx' : Ctx} (h : C09W.Hist D w cx) (hh : HandleOk w p) (hk : KeyOk w.T 4 (D p) k)
    (hv : WValOk w p (maxInlineMapValue w.T k.size) v)
    (hr : w.mapSet p k v cx = .ok (old, w', cx')) : WC.DeepStoredC w w' (newEffects cx cx') := by
  obtain ⟨H, Hh, _⟩ := C09W.world_heap_exact D w cx h
  exact mapSet_deepStored_ok D H Hh hh hk hv hr

/-- `OrderedMap.Remove` -/
theorem mapRemove_deepStored {w : World} {cx : Ctx} {p : SlabID} {k rk : MKey} {rv : Elem} {w' : World} {cx' : Ctx}
    (h : C09W.Hist D w cx) (hh : HandleOk w p) (hk : KeyOk w.T 4 (D p) k)
    (hr : w.mapRemove p k cx = .ok (rk, rv, w', cx')) : WC.DeepStoredC w w' (newEffects cx cx') := by
  obtain ⟨H, Hh, _⟩ := C09W.world_heap_exact D w cx h
  exact mapRemove_deepStored_ok D H Hh hh hk hr

/-- `Array.SetType` / `OrderedMap.SetType` -/
theorem setType_deepStored {w : World} {cx : Ctx} {p : SlabID} {ty : Nat} {w' : World} {cx' : Ctx}
    (h : C09W.Hist D w cx) (hh : HandleOk w p)
    (hr : w.setType p ty cx = .ok (w', cx')) : WC.DeepStoredC w w' (newEffects cx cx') := by
  obtain ⟨H, Hh, _⟩ := C09W.world_heap_exact D w cx h
  exact setType_deepStored_ok D H Hh hh hr

/-- `NewArray`: no existing container changes -/
theorem newArr_deepStored {w : World} {cx : Ctx} (ty : Nat) (h : C09W.Hist D w cx) :
    WC.DeepStoredC w (w.newArr ty cx).2.1 (newEffects cx (w.newArr ty cx).2.2) := by
  obtain ⟨H, Hh, _⟩ := C09W.world_heap_exact D w cx h
  exact newArr_deepStored_ok D ty H Hh

/-- `NewMap` -/
theorem newMap_deepStored {w : World} {cx : Ctx} (ty seed : Nat) (h : C09W.Hist D w cx) :
    WC.DeepStoredC w (w.newMap ty seed cx).2.1 (newEffects cx (w.newMap ty seed cx).2.2) := by
  obtain ⟨H, Hh, _⟩ := C09W.world_heap_exact D w cx h
  exact newMap_deepStored_ok D ty seed H Hh

/-- `Array.Get` (and the mutable iterator): the table of containers is unchanged, whatever the log -/
theorem arrGet_deepStored {w : World} {cx : Ctx} {p : SlabID} {i : Nat} {el : Elem} {w' : World}
    (h : C09W.Hist D w cx) (hh : HandleOk w p) (hr : w.arrGet p i = .ok (el, w')) (E : List Eff) :
    WC.DeepStoredC w w' E := by
  obtain ⟨H, _, _⟩ := C09W.world_heap_exact D w cx h
  exact deepStoredC_of_conts (C10W.worldOk'_arrGet D w p i el w' cx.ctr H hh hr).2.1 E

/-- `OrderedMap.Get` -/
theorem mapGet_deepStored {w : World} {cx : Ctx} {p : SlabID} {k : MKey} {el : Elem} {w' : World}
    (h : C09W.Hist D w cx) (hh : HandleOk w p) (hk : KeyOk w.T 4 (D p) k) (hr : w.mapGet p k = .ok (el, w'))
    (E : List Eff) : WC.DeepStoredC w w' E := by
  obtain ⟨H, _, _⟩ := C09W.world_heap_exact D w cx h
  exact deepStoredC_of_conts (C10W.worldOk'_mapGet D w p k el w' cx.ctr H hh hk hr).2.1 E

/-- reopening drops the handles only -/
theorem reopen_deepStored (w : World) (E : List Eff) : WC.DeepStoredC w w.reopen E :=
  deepStoredC_of_conts (w := w) (w' := w.reopen) (fun _ => rfl) E

/-- the congruence used by the three read-only operations -/
theorem stor_congr_conts {w w' : World} (h : ∀ z, w'.cont? z = w.cont? z) (e : Elem) : w'.stor e = w.stor e :=
  Deep.stor_congr_conts h e

/-! ### consequence: the log is a complete account of the deep content (`C10Persist.Complete`) -/

/-- THE DEEP CONTENT of the slab stored under `id` AS THE CODEC SEES IT: the shallow slab together with
    the storables of its local elements (inlined children embedded recursively) -/
def deepC (w : World) (id : SlabID) : Option (WSlab × List Codec.Stor) :=
  (w.slabAt id).map (fun s => (s, (C10Persist.slabElems s).map w.stor))

/-- the shallow account and the deep account together: a complete account of the deep content -/
theorem deepC_complete {w w' : World} {E : List Eff} (h : WEffectsComplete w w' E []) (hd : WC.DeepStoredC w w' E) :
    C10Persist.Complete (deepC w) (deepC w') E := by
  have hsome : ∀ (v : World) id, ((deepC v) id).isSome = (v.slabAt id).isSome := by
    intro v id; unfold deepC; cases v.slabAt id <;> rfl
  have hnone : ∀ (v : World) id, ((deepC v) id).isNone = (v.slabAt id).isNone := by
    intro v id; unfold deepC; cases v.slabAt id <;> rfl
  refine ⟨?_, ?_, ?_, ?_⟩
  · intro id h1 h2
    rw [hsome] at h1
    by_cases he : w'.slabAt id = w.slabAt id
    · obtain ⟨s, hs'⟩ := Option.isSome_iff_exists.1 h1
      have hs : w.slabAt id = some s := by rw [← he]; exact hs'
      refine hd id s hs' hs ?_
      intro hsame
      apply h2
      unfold deepC
      rw [hs', hs]
      simp only [Option.map_some, Option.some.injEq, Prod.mk.injEq, true_and]
      exact List.map_congr_left hsame
    · exact h.changed_stored id h1 he
  · intro id h1 h2
    rw [hsome] at h1; rw [hnone] at h2
    exact h.gone_removed id h1 h2
  · intro id hl
    rw [hsome]
    rcases h.stored_in_heap id hl with h1 | h1
    · exact h1
    · cases h1
  · intro id hl
    rw [hnone]
    exact h.removed_not_in_heap id hl

/-- DEEP, UNCONDITIONAL IN THE CORE LEMMA: one operation (whose log satisfies the shallow and the deep
    account — both are theorems for every operation of a history), then commit, then reopen: the new
    storage holds, for every heap slab, the slab AND the storables of its local elements as of the
    new world.  (`C10Persist.deep_op_persisted` with its hypothesis `DeepStored` discharged, for the
    deep content in codec form.) -/
theorem deepC_op_persisted {β : Type} (c : Codec (WSlab × List Codec.Stor) β) (hc : RoundTrip c)
    (s : St (WSlab × List Codec.Stor) β) (w w' : World) (E : List Eff)
    (hrep : C10Persist.Rep c s (deepC w)) (hI : Atree.Inv c s) (hcomp : WEffectsComplete w w' E [])
    (hdeep : WC.DeepStoredC w w' E) (kind : CommitKind) (mo dlo : List SlabID) :
    let s' := WE2E.applyEffs c s (deepC w') E
    C10Persist.Rep c s' (deepC w') ∧ Atree.Inv c s' ∧
    (NoEncodeFailure c s' →
      (St.step c s' (.commit kind [] mo dlo)).2 = .unit ∧
      let reopened := St.run c s' [.commit kind [] mo dlo, .recreate]
      reopened.deltas = [] ∧ reopened.cache = [] ∧
      ∀ id, id.isTemp = false → reopened.view c id = (deepC w') id) := by
  intro s'
  have hrep' : C10Persist.Rep c s' (deepC w') := C10Persist.rep_step c s _ _ _ hrep (deepC_complete hcomp hdeep)
  have hI' : Atree.Inv c s' := C10Persist.applyEffs_keeps_inv c hc s _ _ hI
  refine ⟨hrep', hI', fun henc => ?_⟩
  obtain ⟨k1, k2⟩ := C10Persist.rep_commit_reopen c hc s' _ hrep' hI' henc kind mo dlo
  exact ⟨k1, k2.1, k2.2.1, k2.2.2.2⟩

end Atree.C10Deep
