import AtreeProofs.Props.TransMapDescentPop
/-
  WP13 (pop, top level): the generated `OrderedMap_PopIterate` and `OrderedMap_Count` of `Gen/TransMapDescent.lean` over a
  heap (`envD`) are the model's `OMap.popIterate` / `OMap.count`.
-/
namespace Atree.TransEq
open Atree Atree.Gen.TransMapD

variable {r : Nat}

/-- the storage after `OrderedMap.PopIterate`: the tree below the root is gone, the new empty root data slab (old root
    identifier, old extra data with `Count = 0`) is stored UNLESS the map is inlined -/
def mdp_topPost (m : OMap r) (s : MHSt r) : MHSt r :=
  if m.isInlined then mdp_post m.d m.root s
  else (mdp_post m.d m.root s).store m.rootID
    (md_tree 0 (OMap.popIterate m s.ctx).2.1.root (some (md_extra (OMap.popIterate m s.ctx).2.1)))

/-- `OrderedMap.Count` (map.go) -/
theorem Ob_OrderedMap_Count_heap (T : Nat) (eb : DEnvB r) (rs : DRestruct r) (m : OMap r) (s : MHSt r) :
    OrderedMap_Count (envD T eb rs) (md_map m s) = some (u64 m.count) := by
  obtain ⟨d, root, ty, cnt, seed⟩ := m
  cases d <;> rfl

/-- the model's new root as a generated record: what `OrderedMap.PopIterate` builds (`&MapDataSlab{header: {slabID: rootID,
    size: prefixSize + hkeyElementsPrefixSize}, elements: newHkeyElements(0), extraData: extraData, inlined: inlined}`) -/
theorem mdp_newRoot (T : Nat) (eb : DEnvB r) (rs : DRestruct r) (m : OMap r) (c : Ctx) :
    md_tree (m.popIterate c).2.1.d (m.popIterate c).2.1.root (some (md_extra (m.popIterate c).2.1)) =
      .dataSlab { header := { slabID := m.rootID,
                              size := (if m.isInlined then UInt32.ofNat Gen.inlinedMapDataSlabPrefixSize
                                       else UInt32.ofNat Gen.mapRootDataSlabPrefixSize) +
                                      UInt32.ofNat Gen.hkeyElementsPrefixSize },
                  elements := (envD T eb rs).newHkeyElements 0,
                  extraData := some (m.ty, 0, m.seed), inlined := m.isInlined } := by
  show MapSlab.dataSlab (md_data _ _) = _
  cases hi : m.isInlined <;> simp only [md_data, md_hdr, md_extra, MapSlab.dataSlab.injEq, MapDataSlab.mk.injEq,
      MapSlabHeader.mk.injEq, Option.some.injEq, Prod.mk.injEq, true_and] <;>
    refine ⟨rfl, ⟨rfl, ?_, rfl⟩, rfl, ⟨rfl, rfl, rfl⟩, hi⟩ <;>
    · show UInt32.ofNat ((if m.isInlined then _ else _) + _) = _
      rw [hi]; rfl

theorem Ob_OrderedMap_PopIterate_heap (T : Nat) (eb : DEnvB r) (rs : DRestruct r) (depth : Nat) (m : OMap r)
    (s : MHSt r) (hd : m.d ≤ depth)
    (hh : MHolds s.heap m.d m.root (some (md_extra m))) (hnd : (md_ids m.d m.root).Nodup) (hw : mdp_Wf m.d m.root)
    (hx : mdp_RootOk m.d m.root (some (md_extra m))) (hl : mdp_LeafOk m.d m.root) :
    OrderedMap_PopIterate (envD T eb rs) depth (md_map m s) =
      some (none, md_map (OMap.popIterate m s.ctx).2.1 (mdp_topPost m s)) := by
  have hspec := mdp_recSpec T eb rs depth m.d hd m.root (some (md_extra m)) s hh hnd hw hx hl
  have hR := mdp_newRoot T eb rs m s.ctx
  have hR' : md_tree 0 (m.popIterate s.ctx).2.1.root (some (md_extra (m.popIterate s.ctx).2.1)) = _ := hR
  have h1 : ∀ x c, MapSlab_SlabID (envD T eb rs) (mdp_treeRes m.d m.root x c) = some m.rootID := by
    obtain ⟨d, root, ty, cnt, seed⟩ := m
    cases d <;> exact fun _ _ => rfl
  have h2 : ∀ x c, MapSlab.extraData_ (mdp_treeRes m.d m.root x c) = x := by
    obtain ⟨d, root, ty, cnt, seed⟩ := m
    cases d <;> exact fun _ _ => rfl
  have h3 : ∀ x c, MapSlab_Inlined (envD T eb rs) (mdp_treeRes m.d m.root x c) = some m.isInlined := by
    obtain ⟨d, root, ty, cnt, seed⟩ := m
    cases d <;> exact fun _ _ => rfl
  simp only [OrderedMap_PopIterate, md_map, hspec, h1, h2, h3, hR, mdp_topPost, hR']
  cases hi : m.isInlined <;>
    simp [OrderedMap_Inlined, MapSlab_Inlined, MapDataSlab_Inlined, storeSlab, MapSlab_SlabID, MapDataSlab_SlabID,
      md_extra]

/-- the storage `Ob_OrderedMap_PopIterate_heap` ends in: the model's `Ctx` (one `store` of the root unless inlined), the
    callback received the model's list, the heap holds the new root (unless inlined: then nothing is stored), the old
    tree below the root is gone, everything outside the old tree is untouched -/
theorem Ob_OrderedMap_PopIterate_heap_post (m : OMap r) (s : MHSt r) :
    (mdp_topPost m s).ctx = (OMap.popIterate m s.ctx).2.2 ∧
    (mdp_topPost m s).popped = s.popped ++ (OMap.popIterate m s.ctx).1 ∧
    (OMap.popIterate m s.ctx).2.1.count = 0 ∧
    (m.isInlined = false →
      MHolds (mdp_topPost m s).heap (OMap.popIterate m s.ctx).2.1.d (OMap.popIterate m s.ctx).2.1.root
        (some (md_extra (OMap.popIterate m s.ctx).2.1))) ∧
    (m.isInlined = true → (mdp_topPost m s).heap = (mdp_post m.d m.root s).heap) ∧
    (∀ id ∈ md_ids m.d m.root, id ≠ m.rootID → (mdp_topPost m s).heap id = none) ∧
    (∀ id, id ∉ md_ids m.d m.root → (mdp_topPost m s).heap id = s.heap id) := by
  have hroot : m.rootID = (MTree.hdr m.d m.root).id := rfl
  have hctx : (OMap.popIterate m s.ctx).2.2 =
      if m.isInlined then (MTree.popIterate m.d m.root s.ctx).2.2
      else (MTree.popIterate m.d m.root s.ctx).2.2.emit (.store m.rootID) := rfl
  have hpop : (OMap.popIterate m s.ctx).1 = (MTree.popIterate m.d m.root s.ctx).1 := rfl
  refine ⟨?_, ?_, rfl, ?_, ?_, ?_, ?_⟩
  · rw [hctx]; cases hi : m.isInlined <;> simp [mdp_topPost, hi, mdp_post]
  · rw [hpop]; cases hi : m.isInlined <;> simp [mdp_topPost, hi, mdp_post]
  · intro hi
    show MHolds _ 0 _ _
    simp only [MHolds, mdp_topPost, hi]
    simp only [md_tree, Bool.false_eq_true, if_false, MHSt.store_heap]
    have hid : (OMap.popIterate m s.ctx).2.1.root.hdr.id = m.rootID := rfl
    exact if_pos hid
  · intro hi; simp [mdp_topPost, hi]
  · intro id hid hne
    have hid' := hid
    rw [mdp_ids_cons, ← hroot] at hid'
    have ht : id ∈ (md_ids m.d m.root).tail := by
      rcases List.mem_cons.mp hid' with h | h
      · exact absurd h hne
      · exact h
    cases hi : m.isInlined <;> simp [mdp_topPost, hi, mdp_post, ht, hne]
  · intro id hid
    have hne : id ≠ m.rootID := fun h => hid (by rw [mdp_ids_cons, ← hroot, h]; exact List.mem_cons_self)
    have ht : id ∉ (md_ids m.d m.root).tail := fun h => hid (by rw [mdp_ids_cons]; exact List.mem_cons_of_mem _ h)
    cases hi : m.isInlined <;> simp [mdp_topPost, hi, mdp_post, ht, hne]

/-! ### non-vacuity: the depth-1 map of `TransMapDescentPop.lean` (two data slabs, count 2) -/

def mdp_exMap : OMap 0 := ⟨1, mdp_exM, 0, 2, 0⟩

example (T : Nat) (eb : DEnvB 0) (rs : DRestruct 0) :
    OrderedMap_Count (envD T eb rs) (md_map mdp_exMap mdp_exSt) = some 2 :=
  Ob_OrderedMap_Count_heap T eb rs mdp_exMap mdp_exSt

/-- both entries popped last to first, both children removed, count 0, the new empty root (size 2 + 8) stored under the
    old root identifier with the old type and seed -/
example (T : Nat) (eb : DEnvB 0) (rs : DRestruct 0) :
    ∃ (m' : OMap 0) (s' : MHSt 0),
      OrderedMap_PopIterate (envD T eb rs) 1 (md_map mdp_exMap mdp_exSt) = some (none, md_map m' s') ∧
      OrderedMap_Count (envD T eb rs) (md_map m' s') = some 0 ∧
      s'.popped = [(mdp_exKB, default), (mdp_exKA, default)] ∧
      s'.ctx.eff = [.remove ⟨1, 3⟩, .remove ⟨1, 2⟩, .store ⟨1, 1⟩] ∧
      s'.heap ⟨1, 2⟩ = none ∧ s'.heap ⟨1, 3⟩ = none ∧
      s'.heap ⟨1, 1⟩ = some (.dataSlab { header := ⟨⟨1, 1⟩, 10, 0⟩, elements := ⟨[], [], 8, 0⟩,
                                          extraData := some (0, 0, 0) }) := by
  obtain ⟨h1, h2, h3, h4, h5⟩ := mdp_ex_hyps
  have hpost := Ob_OrderedMap_PopIterate_heap_post mdp_exMap mdp_exSt
  obtain ⟨hc, hp, _, hh, _, hg, _⟩ := hpost
  refine ⟨_, _, Ob_OrderedMap_PopIterate_heap T eb rs 1 mdp_exMap mdp_exSt (Nat.le_refl _) h1 h2 h3 h4 h5,
    Ob_OrderedMap_Count_heap T eb rs _ _, hp, ?_, hg ⟨1, 2⟩ (by decide) (by decide), hg ⟨1, 3⟩ (by decide) (by decide),
    hh rfl⟩
  rw [hc]; rfl

/-- an INLINED root data slab: `PopIterate` stores nothing (`if !m.Inlined()`), the new root has the inlined prefix
    (14 + 8), the storage still has the old entry -/
def mdp_exInl : OMap 0 := ⟨0, ({ mdp_exA with root := true, inlined := true } : MDataSlab 0), 0, 1, 0⟩
def mdp_exInlSt : MHSt 0 := { heap := md_heapOf 0 mdp_exInl.root (some (md_extra mdp_exInl)), ctx := ⟨7, [], []⟩ }

example (T : Nat) (eb : DEnvB 0) (rs : DRestruct 0) :
    ∃ (m' : OMap 0) (s' : MHSt 0),
      OrderedMap_PopIterate (envD T eb rs) 0 (md_map mdp_exInl mdp_exInlSt) = some (none, md_map m' s') ∧
      (md_map m' s').root = .dataSlab { header := ⟨⟨1, 2⟩, 22, 0⟩, elements := ⟨[], [], 8, 0⟩,
                                        extraData := some (0, 0, 0), inlined := true } ∧
      s'.popped = [(mdp_exKA, default)] ∧ s'.ctx.eff = [] ∧ s'.heap ⟨1, 2⟩ = mdp_exInlSt.heap ⟨1, 2⟩ :=
  ⟨_, _, Ob_OrderedMap_PopIterate_heap T eb rs 0 mdp_exInl mdp_exInlSt (Nat.le_refl _) rfl (by decide) trivial rfl
    trivial, rfl, rfl, rfl, rfl⟩

end Atree.TransEq
