import AtreeModel.Gen.Facts
/-
  C18 — "bounds checks precede any mutation", "key-not-found is detected before any mutation",
  "the collision limit is checked before inserting": the CODE ORDER, as a regenerated fact.

  `Gen.argCheckPrefix` is regenerated from the Go sources by harness/cmd/extract on every check
  run.  For every site of a request-level function at which the request can still be refused – a
  `return …, New…Error(…)` statement (`check:<constructor>`) or a call that hands the request down
  to the root / a child slab / an element (`descend:<callee>`, the callee has its own checks) – it
  lists the kinds of the statements that may have been executed before that site (calls with their
  callee, assignments to anything but a local variable, earlier checks, earlier exits).  The
  classification of those kinds is done HERE, in the statement: `allowedBeforeRefusal` is the
  complete list of statement kinds that may precede a refusal; everything else (a call of
  `value.Storable`, `storeSlab`, `storage.Remove`, `GenerateSlabID`, `slices.Insert`, `append`, a
  call of `Set`/`Insert`/`Remove` one level down, an assignment to a field of the receiver or of any
  other object, an unknown helper) counts as an effect.

  Seeded change s06 (`value.Storable` hoisted above the bounds check of `ArrayDataSlab.Insert`) and
  s23 (empty-range shortcut hoisted above the range checks of `Array.RangeIterator`) make this
  theorem fail: see INTEGRATION-fx5.md.
-/
namespace Atree.C18
open Atree

/-- Statement kinds that have no effect on a container, its ancestors or the storage: reads,
    pure helpers, constructors of fresh objects, calls of caller-supplied read-only components
    (comparator, digester, `StoredValue`), earlier checks that did not fire, earlier exits with an
    error, and look-ups handed down (`descend:….Get`). -/
def allowedBeforeRefusal : List String := [
  -- reads of the receiver / the storage
  "call:a.Address", "call:a.Count", "call:a.childSlabIndexInfo", "call:getArraySlab", "call:getMapSlab",
  "call:m.SlabID", "call:m.getChildSlabByDigest", "call:e.getElement", "call:elem.Count", "call:elem.Size",
  "call:storage.Retrieve", "call:errors.As",
  -- caller-supplied read-only components
  "call:m.digesterBuilder.Digest", "call:keyDigest.Digest", "call:digester.Levels", "call:digester.Digest",
  "call:b.Digest", "call:existingKeyDigest.Digest", "call:comparator", "call:e.key.StoredValue",
  "defer:putDigester",
  -- fresh objects
  "call:newSingleElementsWithElement", "call:newHkeyElementsWithElement",
  -- look-ups handed down
  "descend:a.root.Get", "descend:child.Get", "descend:m.get", "descend:m.root.Get", "descend:elem.Get",
  "descend:e.get", "descend:e.elements.Get", "descend:slab.Get",
  -- earlier checks that did not fire
  "check:NewArrayElementCannotExceedMaxElementCountError", "check:NewSliceOutOfBoundsError",
  "check:NewInvalidSliceIndexError", "check:NewIndexOutOfBoundsError", "check:NewKeyNotFoundError",
  "check:NewCollisionLimitError", "check:NewHashLevelErrorf", "check:NewMapElementCountError",
  "check:NewSlabNotFoundErrorf", "check:NewSlabDataErrorf",
  -- earlier branches that always return with an error / by delegation
  "exit:err", "exit:descend:group.Set"]

/-- position checks: nothing at all is decided before them (no earlier successful exit either) -/
def boundsChecks : List String :=
  ["check:NewIndexOutOfBoundsError", "check:NewSliceOutOfBoundsError", "check:NewInvalidSliceIndexError"]

/-- the refusals the property names, with the function that raises them: they must be present -/
def requiredChecks : List (String × String) := [
  ("ArrayDataSlab.Get", "check:NewIndexOutOfBoundsError"), ("ArrayDataSlab.Set", "check:NewIndexOutOfBoundsError"),
  ("ArrayDataSlab.Insert", "check:NewIndexOutOfBoundsError"), ("ArrayDataSlab.Remove", "check:NewIndexOutOfBoundsError"),
  ("ArrayMetaDataSlab.childSlabIndexInfo", "check:NewIndexOutOfBoundsError"),
  ("ArrayMetaDataSlab.Insert", "check:NewIndexOutOfBoundsError"), ("ArrayMetaDataSlab.Remove", "check:NewIndexOutOfBoundsError"),
  ("ArrayMetaDataSlab.Get", "descend:child.Get"), ("ArrayMetaDataSlab.Set", "descend:child.Set"),
  ("ArrayMetaDataSlab.Insert", "descend:child.Insert"), ("ArrayMetaDataSlab.Remove", "descend:child.Remove"),
  ("Array.Get", "descend:a.root.Get"), ("Array.set", "descend:a.root.Set"), ("Array.Insert", "descend:a.root.Insert"),
  ("Array.remove", "descend:a.root.Remove"),
  ("Array.RangeIterator", "check:NewSliceOutOfBoundsError"), ("Array.RangeIterator", "check:NewInvalidSliceIndexError"),
  ("Array.ReadOnlyRangeIteratorWithMutationCallback", "check:NewSliceOutOfBoundsError"),
  ("Array.ReadOnlyRangeIteratorWithMutationCallback", "check:NewInvalidSliceIndexError"),
  ("OrderedMap.get", "descend:m.root.Get"), ("OrderedMap.set", "descend:m.root.Set"),
  ("OrderedMap.remove", "descend:m.root.Remove"),
  ("MapDataSlab.Set", "descend:m.elements.Set"), ("MapDataSlab.Remove", "descend:m.elements.Remove"),
  ("MapMetaDataSlab.getChildSlabByDigest", "check:NewKeyNotFoundError"),
  ("MapMetaDataSlab.Set", "descend:child.Set"), ("MapMetaDataSlab.Remove", "check:NewKeyNotFoundError"),
  ("MapMetaDataSlab.Remove", "descend:child.Remove"),
  ("hkeyElements.getElement", "check:NewKeyNotFoundError"), ("hkeyElements.Remove", "check:NewKeyNotFoundError"),
  ("hkeyElements.Set", "check:NewCollisionLimitError"), ("hkeyElements.Set", "descend:elem.Set"),
  ("hkeyElements.Remove", "descend:elem.Remove"),
  ("singleElements.get", "check:NewKeyNotFoundError"), ("singleElements.Remove", "check:NewKeyNotFoundError"),
  ("singleElement.Get", "check:NewKeyNotFoundError"), ("singleElement.Remove", "check:NewKeyNotFoundError"),
  ("singleElement.Set", "descend:group.Set"),
  ("inlineCollisionGroup.Set", "descend:e.elements.Set"), ("inlineCollisionGroup.Remove", "descend:e.elements.Remove"),
  ("externalCollisionGroup.Set", "descend:slab.Set"), ("externalCollisionGroup.Remove", "descend:dataSlab.Remove")]

/-- clause (1): nothing but allowed kinds and successful exits of other branches before a refusal site -/
def effectFree (facts : List (String × String × List String)) : Bool :=
  facts.all (fun e => e.2.2.all (fun k => allowedBeforeRefusal.contains k || k == "exit:ok"))

/-- clause (2): no successful exit before a position check -/
def boundsFirst (facts : List (String × String × List String)) : Bool :=
  facts.all (fun e => !boundsChecks.contains e.2.1 || !e.2.2.contains "exit:ok")

/-- clause (3): no listed function is missing, every required refusal site is there -/
def allPresent (facts : List (String × String × List String)) : Bool :=
  facts.all (fun e => e.2.1 != "missing") &&
  requiredChecks.all (fun x => facts.any (fun e => e.1 == x.1 && e.2.1 == x.2))

/-- the Boolean the theorem evaluates -/
def orderOk (facts : List (String × String × List String)) : Bool :=
  effectFree facts && boundsFirst facts && allPresent facts

/-- ARGUMENT CHECKS PRECEDE EFFECTS (source order, regenerated on every run).  In every
    request-level function of arrays and maps (Array / ArrayDataSlab / ArrayMetaDataSlab Get, Set,
    Insert, Remove and the range iterators; OrderedMap / MapDataSlab / MapMetaDataSlab /
    hkeyElements / singleElements / singleElement / inline and external collision group Get, Set,
    Remove, incl. the collision-limit check), on every path to a statement that can still refuse
    the request
      (1) only statements of the kinds in `allowedBeforeRefusal` (reads, earlier checks, error
          exits) and earlier successful exits of OTHER branches have been executed – in particular
          no `value.Storable`, `storeSlab`, `storage.Remove`, `GenerateSlabID`, `slices.Insert`,
          `append`, no assignment to a field, no `Set`/`Insert`/`Remove` one level down;
      (2) before a position check (index / slice out of bounds, invalid slice) there is no earlier
          successful exit either: the check is unconditional;
      (3) none of the listed functions has disappeared, and each refusal the property names is
          there. -/
theorem arg_checks_precede_effects : orderOk Gen.argCheckPrefix = true := by decide

/-- what the Boolean means, clause (1), in logical form -/
theorem arg_checks_precede_effects_spec :
    ∀ e ∈ Gen.argCheckPrefix, ∀ k ∈ e.2.2, k ∈ allowedBeforeRefusal ∨ k = "exit:ok" := by
  have h := arg_checks_precede_effects
  simp only [orderOk, effectFree, Bool.and_eq_true, List.all_eq_true] at h
  intro e he k hk
  have := h.1.1 e he k hk
  simpa [List.contains_iff_mem] using this

/-! ### the statement has teeth: the two seeded reorderings, as data -/

/-- `ArrayDataSlab.Insert` of seeded change s06: `value.Storable` runs before the bounds check -/
example : effectFree [("ArrayDataSlab.Insert", "check:NewIndexOutOfBoundsError", ["call:value.Storable", "exit:err"])]
    = false := by decide

/-- `Array.RangeIterator` of seeded change s23: the empty-range exit precedes the range check
    (clause (2); clause (1) alone would accept it) -/
example : boundsFirst [("Array.RangeIterator", "check:NewSliceOutOfBoundsError", ["exit:ok", "call:a.Count"])]
    = false := by decide
example : effectFree [("Array.RangeIterator", "check:NewSliceOutOfBoundsError", ["exit:ok", "call:a.Count"])]
    = true := by decide

/-- a mutation of the receiver before a key-not-found check; `storeSlab` before the collision limit -/
example : effectFree [("hkeyElements.Remove", "check:NewKeyNotFoundError", ["mutate:e.size"])] = false := by decide
example : effectFree [("hkeyElements.Set", "check:NewCollisionLimitError", ["call:elem.Count", "call:storeSlab"])]
    = false := by decide

/-- a deleted check is noticed by clause (3) -/
example : allPresent (Gen.argCheckPrefix.filter (fun e => e.1 != "ArrayDataSlab.Insert")) = false := by decide

end Atree.C18
