import AtreeProofs.Props.C20
import AtreeProofs.Health.Iter
import AtreeProofs.Health.Storage
import AtreeProofs.Health.StorageMap
/-
  C20 — The storage health check accepts exactly the healthy storages: the STORAGE part.
  PROPERTY THEOREMS about
    * the model of `PersistentSlabStorage.SlabIterator` (`Health.slabIterator`, on the storage state
      machine `St` of C15) and of `CheckStorageHealth` run on what it yields (`Health.checkStorage`);
    * "every storage produced by valid histories": the heaps of the array model and of the ordered
      map model are `Healthy` after every history, and the whole pipeline accepts their storages.
  (`Props/C20.lean` holds the theorems about the check on an abstract heap.)
-/
namespace Atree.C20
open Atree Health Gen

variable {σ β : Type}

/-! ### slab iteration -/

/-- Whatever the iterator yields under an ID is the slab visible under that ID (latest store /
    remove, else cache, else ledger) - in EVERY state, slabs fetched from the ledger included. -/
theorem iterator_sound (c : Codec σ β) (abs : SlabID → σ → HSlab) (s : St σ β)
    (hd : (AList.keys s.deltas).Nodup) (ys : List (SlabID × σ))
    (hok : slabIterator c abs s = .ok ys) : ∀ p ∈ ys, s.view c p.1 = some p.2 :=
  slabIterator_sound c abs s hd ys hok

/-- A deleted slab (nil entry of the write set or of the cache) is never yielded, and never looked
    up in the ledger: the iterator cannot see that something still refers to it (finding F1 lived
    here; `CheckStorageHealth` must compare the referenced IDs with the yielded ones). -/
theorem iterator_skips_deleted (c : Codec σ β) (abs : SlabID → σ → HSlab) (s : St σ β)
    (hd : (AList.keys s.deltas).Nodup) (ys : List (SlabID × σ))
    (hok : slabIterator c abs s = .ok ys) (id : SlabID) (hv : s.view c id = none) :
    id ∉ ys.map (·.1) :=
  slabIterator_skips_deleted c abs s hd ys hok id hv

/-- WITH ALL SLABS LOADED the iterator yields exactly the live slabs of the view, each once -
    unless a live slab refers to an ID that is in neither map (then, the ledger not having it
    either, it fails with `SlabNotFoundError`). -/
theorem iterator_exact (c : Codec σ β) (abs : SlabID → σ → HSlab) (s : St σ β)
    (hd : (AList.keys s.deltas).Nodup) (hc : (AList.keys s.cache).Nodup) (hall : AllLoaded s) :
    (RefsLoaded abs s →
      ∃ ys, slabIterator c abs s = .ok ys ∧ (ys.map (·.1)).Nodup ∧
        ∀ id v, (id, v) ∈ ys ↔ s.view c id = some v) ∧
    (¬ RefsLoaded abs s → slabIterator c abs s = .error .slabNotFound) := by
  rw [slabIterator_allLoaded c abs s hc hall]
  constructor
  · intro h
    rw [if_pos h]
    exact ⟨loadedLive s, rfl, loadedLive_nodup s hd hc,
      fun id v => mem_loadedLive_iff_view c s hd hc hall id v⟩
  · intro h
    rw [if_neg h]

/-- WITH ALL SLABS LOADED `CheckStorageHealth(storage, n)` is the check of `Props/C20.lean` on the
    heap of the live slabs (so `health_sound`, `health_complete` and the four corruption theorems
    speak about the real pipeline); the `duplicate slab` test never fires. -/
theorem storage_check_is_heap_check (c : Codec σ β) (abs : SlabID → σ → HSlab) (s : St σ β)
    (hd : (AList.keys s.deltas).Nodup) (hc : (AList.keys s.cache).Nodup) (hall : AllLoaded s)
    (expected : Option Nat) :
    (RefsLoaded abs s → checkStorage c abs s expected = check (heapOfLoaded abs s) expected) ∧
    (¬ RefsLoaded abs s → checkStorage c abs s expected = .error .slabNotFound) := by
  rw [checkStorage_allLoaded c abs s hd hc hall expected]
  exact ⟨fun h => if_pos h, fun h => if_neg h⟩

/-- the heap the check then works on holds, under every ID, the slab visible under that ID -/
theorem heap_is_view (c : Codec σ β) (abs : SlabID → σ → HSlab) (s : St σ β)
    (hd : (AList.keys s.deltas).Nodup) (hc : (AList.keys s.cache).Nodup) (hall : AllLoaded s)
    (id : SlabID) : AList.find? (heapOfLoaded abs s) id = (s.view c id).map (abs id) :=
  find?_heapOfLoaded c abs s hd hc hall id

/-- If the view of a storage with all slabs loaded is a healthy heap, slab iteration followed by the
    checks accepts it and returns its roots. -/
theorem storage_complete (c : Codec σ β) (abs : SlabID → σ → HSlab) (s : St σ β)
    (hd : (AList.keys s.deltas).Nodup) (hc : (AList.keys s.cache).Nodup) (hall : AllLoaded s)
    (h : Heap) (R : List SlabID) (hk : (AList.keys h).Nodup) (hh : Healthy h R)
    (hview : ∀ id, (s.view c id).map (abs id) = AList.find? h id)
    (expected : Option Nat) (hn : ∀ n, expected = some n → R.length = n) :
    ∃ R', checkStorage c abs s expected = .ok R' ∧ (∀ id, id ∈ R' ↔ id ∈ R) ∧ R'.length = R.length :=
  checkStorage_accepts c abs s hd hc hall h R hk hh hview expected hn

/-! ### every storage produced by valid histories -/

/-- ARRAYS.  After any valid history from `NewArray` on an empty storage the slabs the storage
    holds (tree slabs and large-value slabs) form a healthy heap with unique keys, the array's root
    is one of its roots, and the heap is exactly what the storage shows under the array's address. -/
theorem array_histories_healthy (c : Codec E2E.SSlab β) (hc : RoundTrip c) (T : Nat)
    (hT : legalThreshold T = true) (addr ty : Nat) (haddr : addr ≠ 0) (ops : List E2E.AOp)
    (hops : ∀ op ∈ ops, op.Ok) :
    let x := E2E.runS c T (E2E.newS c addr ty) ops
    let a := x.1.1
    let created := x.1.2.created
    (AList.keys (arrHeap a created)).Nodup ∧
    Healthy (arrHeap a created) (rootsOf (arrHeap a created)) ∧
    a.rootID ∈ rootsOf (arrHeap a created) ∧
    (∀ id, id.addr = addr → (x.2.view c id).map (E2E.SSlab.toH id) = AList.find? (arrHeap a created) id) :=
  E2E.array_history_healthy c hc T hT addr ty haddr ops hops

/-- ... and `CheckStorageHealth` (iterator + checks) accepts that storage, for "any number of roots"
    and for the true number, returning the array's root and the unreferenced large-value slabs. -/
theorem array_histories_accepted (c : Codec E2E.SSlab β) (hc : RoundTrip c) (T : Nat)
    (hT : legalThreshold T = true) (addr ty : Nat) (haddr : addr ≠ 0) (ops : List E2E.AOp)
    (hops : ∀ op ∈ ops, op.Ok) :
    let x := E2E.runS c T (E2E.newS c addr ty) ops
    let h := arrHeap x.1.1 x.1.2.created
    (∃ R, checkStorage c E2E.SSlab.toH x.2 none = .ok R ∧
      (∀ id, id ∈ R ↔ (id = ⟨addr, 1⟩ ∨
        (id ∈ x.1.2.created.map (·.1) ∧ id ∉ elemRefs x.1.1.toList)))) ∧
    (∃ R, checkStorage c E2E.SSlab.toH x.2 (some (rootsOf h).length) = .ok R ∧
      (∀ id, id ∈ R ↔ (id = ⟨addr, 1⟩ ∨
        (id ∈ x.1.2.created.map (·.1) ∧ id ∉ elemRefs x.1.1.toList)))) :=
  E2E.array_history_storage_check c hc T hT addr ty haddr ops hops

/-- ORDERED MAPS (external collision-group slabs included). -/
theorem map_histories_healthy {r : Nat} (c : Codec (E2EM.MSSlab r) β) (hc : RoundTrip c) (T : Nat)
    (hT : legalThreshold T = true) (D : DigestFn (r + 1)) (cfg : MCfg) (hcT : cfg.T = T)
    (hcL : cfg.L = r + 1) (haddr : cfg.addr ≠ 0) (ty : Nat) (seedOf : SlabID → Nat)
    (ops : List E2EM.MOp) (hops : ∀ op ∈ ops, op.Ok T D) :
    let x := E2EM.runS c cfg (E2EM.newS c cfg.addr ty seedOf) ops
    let m := x.1.1
    let created := x.1.2.created
    (AList.keys (mapHeap m created)).Nodup ∧
    Healthy (mapHeap m created) (rootsOf (mapHeap m created)) ∧
    m.rootID ∈ rootsOf (mapHeap m created) ∧
    (∀ id, id.addr = cfg.addr →
      (x.2.view c id).map (E2EM.MSSlab.toH id) = AList.find? (mapHeap m created) id) :=
  E2EM.map_history_healthy c hc T hT D cfg hcT hcL haddr ty seedOf ops hops

theorem map_histories_accepted {r : Nat} (c : Codec (E2EM.MSSlab r) β) (hc : RoundTrip c) (T : Nat)
    (hT : legalThreshold T = true) (D : DigestFn (r + 1)) (cfg : MCfg) (hcT : cfg.T = T)
    (hcL : cfg.L = r + 1) (haddr : cfg.addr ≠ 0) (ty : Nat) (seedOf : SlabID → Nat)
    (ops : List E2EM.MOp) (hops : ∀ op ∈ ops, op.Ok T D) :
    let x := E2EM.runS c cfg (E2EM.newS c cfg.addr ty seedOf) ops
    let h := mapHeap x.1.1 x.1.2.created
    (∃ R, checkStorage c E2EM.MSSlab.toH x.2 none = .ok R ∧
      (∀ id, id ∈ R ↔ (id = ⟨cfg.addr, 1⟩ ∨
        (id ∈ x.1.2.created.map (·.1) ∧ id ∉ valRefs x.1.1.toList)))) ∧
    (∃ R, checkStorage c E2EM.MSSlab.toH x.2 (some (rootsOf h).length) = .ok R ∧
      (∀ id, id ∈ R ↔ (id = ⟨cfg.addr, 1⟩ ∨
        (id ∈ x.1.2.created.map (·.1) ∧ id ∉ valRefs x.1.1.toList)))) :=
  E2EM.map_history_storage_check c hc T hT D cfg hcT hcL haddr ty seedOf ops hops

/-- SEVERAL INDEPENDENT CONTAINERS: healthy heaps over pairwise disjoint sets of slab IDs (arrays and
    maps at different addresses, or different root slabs at one address) form a healthy heap whose
    roots are all their roots, and the check accepts it with the total root count.
    (At the level of heaps: the storage state machine is instantiated with ONE slab type per
    container kind, so a storage holding an array AND a map is not expressible yet; with a sum slab
    type `storage_complete` applies to the joined heap as it stands.) -/
theorem independent_containers_accepted (hs : List (Heap × List SlabID))
    (hall : ∀ p ∈ hs, Healthy p.1 p.2)
    (hpw : hs.Pairwise (fun p q => ∀ x, AList.contains p.1 x = true → AList.contains q.1 x = false))
    (hk : (AList.keys (hs.flatMap (·.1))).Nodup) :
    Healthy (hs.flatMap (·.1)) (hs.flatMap (·.2)) ∧
    ∃ R, check (hs.flatMap (·.1)) (some (hs.flatMap (·.2)).length) = .ok R ∧
      (∀ id, id ∈ R ↔ id ∈ hs.flatMap (·.2)) := by
  have hh := healthy_join hs hall hpw
  obtain ⟨R, hok, hmem, _⟩ := health_complete _ hk _ hh (some (hs.flatMap (·.2)).length)
    (fun n hn => by cases hn; rfl)
  exact ⟨hh, R, hok, hmem⟩

/-! ### Non-vacuity -/
section NonVacuity
open Atree.Example

/-- a storage with a pending deletion, a cached deletion, a shadowed cache entry and an unloaded
    register: write set {1.1 ↦ A, 1.4 ↦ nil}, cache {1.2 ↦ B, 1.1 ↦ old, 1.5 ↦ nil},
    ledger {1.1, 1.2, 1.3, 1.5}; A refers to 1.2 and 1.3, 1.3 is NOT loaded -/
def exSt : St HSlab HSlab :=
  { deltas := [(⟨1, 1⟩, some ⟨⟨1, 1⟩, [⟨1, 2⟩, ⟨1, 3⟩]⟩), (⟨1, 4⟩, none)],
    cache := [(⟨1, 2⟩, some ⟨⟨1, 2⟩, []⟩), (⟨1, 1⟩, some ⟨⟨1, 1⟩, []⟩), (⟨1, 5⟩, none)],
    base := [(⟨1, 1⟩, ⟨⟨1, 1⟩, []⟩), (⟨1, 2⟩, ⟨⟨1, 2⟩, []⟩), (⟨1, 3⟩, ⟨⟨1, 3⟩, []⟩),
             (⟨1, 5⟩, ⟨⟨1, 5⟩, []⟩)],
    tempIx := 0, alloc := [] }

def hCodec : Codec HSlab HSlab := { enc := some, dec := fun _ b => some b, size := fun _ => 0 }

/-- the unloaded slab 1.3 is fetched (once); the deleted 1.4 / 1.5 and the shadowed cache entry of
    1.1 are not yielded -/
example : (slabIterator hCodec (fun _ v => v) exSt).map (fun ys => ys.map (·.1))
    = .ok [⟨1, 1⟩, ⟨1, 3⟩, ⟨1, 2⟩] := by decide
example : checkStorage hCodec (fun _ v => v) exSt (some 1) = .ok [⟨1, 1⟩] := by decide

/-- after loading 1.3 everything is loaded: `iterator_exact` applies -/
def exSt' : St HSlab HSlab := { exSt with cache := (⟨1, 3⟩, some ⟨⟨1, 3⟩, []⟩) :: exSt.cache }
example : AllLoaded exSt' := by
  intro id hid
  have : id ∈ AList.keys exSt'.base := (contains_iff_mem_keys' (m := exSt'.base)).mp hid
  simp only [exSt', exSt, AList.keys, List.map_cons, List.map_nil, List.mem_cons, List.not_mem_nil,
    or_false] at this
  rcases this with rfl | rfl | rfl | rfl <;> first | exact Or.inl (by decide) | exact Or.inr (by decide)
example : (slabIterator hCodec (fun _ v => v) exSt').map (fun ys => ys.map (·.1))
    = .ok [⟨1, 1⟩, ⟨1, 3⟩, ⟨1, 2⟩] := by decide

/-- two references to an unloaded register: it is yielded twice; the two-parents test of the check
    fires before the duplicate test can -/
def exDup : St HSlab HSlab :=
  { deltas := [(⟨1, 1⟩, some ⟨⟨1, 1⟩, [⟨1, 3⟩]⟩), (⟨1, 2⟩, some ⟨⟨1, 2⟩, [⟨1, 3⟩]⟩)], cache := [],
    base := [(⟨1, 3⟩, ⟨⟨1, 3⟩, []⟩)], tempIx := 0, alloc := [] }
example : (slabIterator hCodec (fun _ v => v) exDup).map (fun ys => ys.map (·.1))
    = .ok [⟨1, 1⟩, ⟨1, 3⟩, ⟨1, 2⟩, ⟨1, 3⟩] := by decide
example : checkStorage hCodec (fun _ v => v) exDup none = .error .twoParents := by decide
/-- the duplicate test itself, on a slice that lists an ID twice without a second reference -/
example : checkYield [(⟨1, 1⟩, ⟨⟨1, 1⟩, []⟩), (⟨1, 1⟩, ⟨⟨1, 1⟩, []⟩)] none = .error .duplicate := by
  decide

/-- a reference cycle among registers that are not loaded: the Go loop of the iterator does not
    terminate either -/
def exLazyCycle : St HSlab HSlab :=
  { deltas := [(⟨1, 1⟩, some ⟨⟨1, 1⟩, [⟨1, 2⟩]⟩)], cache := [],
    base := [(⟨1, 2⟩, ⟨⟨1, 2⟩, [⟨1, 3⟩]⟩), (⟨1, 3⟩, ⟨⟨1, 3⟩, [⟨1, 2⟩]⟩)], tempIx := 0, alloc := [] }
example : slabIterator hCodec (fun _ v => v) exLazyCycle = .error .diverges := by decide

/-- two independent containers (the example heap of `Props/C20.lean`, split into its two trees) -/
example := independent_containers_accepted
  [([(exRoot1, ⟨exRoot1, []⟩)], [exRoot1]), ([(exRoot2, ⟨exRoot2, []⟩)], [exRoot2])]

end NonVacuity

end Atree.C20
