import AtreeProofs.Trans.MapDescent
import AtreeProofs.Props.TransElemSlab
/-
  WP13 (map descent, Remove): the generated `MapMetaDataSlab_Remove` / `MapDataSlab_Remove` / `MapSlab_Remove` of
  `Gen/TransMapDescent.lean` (namespace `Atree.Gen.TransMapD`) over a heap of slabs (`envD T eb rs`, Trans/MapDescent.lean).

  * `mdr_Remove_loop1`      the binary search fuel loop = the model's `MMetaSlab.findChild` (`-1` <-> `none`)
  * `Ob_MapDataSlab_Remove_heap`   the leaf: `MapDataSlab.Remove` on a data slab of the tree = `MDataSlab.remove`
  * `Ob_MapMetaDataSlab_Remove_step` (+ `_keyNotFound`, `_slabNotFound`, `_childErr`)   ONE level of the descent, for ANY
    restructuring record `rs` and ANY element layer `eb`: search, child fetched from the heap, dispatch on the child,
    header / firstKey refresh, then split / mergeOrRebalance / storeSlab.
  Helper names carry the prefix `mdr_`.
-/
namespace Atree.TransEq
open Atree Atree.Gen.TransMapD

/-! ## 1. the binary search -/

/-- Go's `ans` (an `int`, `-1` = no child found yet) -/
def mdr_enc : Option Nat → Int
  | none => -1
  | some n => Int.ofNat n

@[simp] theorem mdr_enc_none : mdr_enc none = -1 := rfl
@[simp] theorem mdr_enc_some (n : Nat) : mdr_enc (some n) = Int.ofNat n := rfl

theorem mdr_enc_eq_neg1 (a : Option Nat) : (mdr_enc a = (-1 : Int)) ↔ a = none := by
  cases a with
  | none => simp
  | some n => simp only [mdr_enc_some, Int.ofNat_eq_natCast, reduceCtorEq, iff_false]


theorem mdr_goIdx_ofNat {β : Type} (l : List β) (h : Nat) : goIdx l (Int.ofNat h) = l[h]? := by
  unfold goIdx
  rw [if_neg (by simp only [Int.ofNat_eq_natCast]; omega)]
  rfl

theorem mdr_goIdx_hdrs {α : Type} (m : MMetaSlab α) (x : Option DX) (h : Nat) (hlt : h < m.childHdrs.length) :
    goIdx (md_meta m x).childrenHeaders (Int.ofNat h) = some (md_hdr (m.childHdrs.getD h default)) := by
  rw [mdr_goIdx_ofNat]
  simp only [md_meta, List.getElem?_map, List.getD_eq_getElem?_getD, List.getElem?_eq_getElem hlt, Option.map_some,
    Option.getD_some]

theorem mdr_getD_mem {β : Type} [Inhabited β] (l : List β) (h : Nat) (hlt : h < l.length) : l.getD h default ∈ l := by
  rw [List.getD_eq_getElem?_getD, List.getElem?_eq_getElem hlt]
  exact List.getElem_mem hlt

section loop
variable {r : Nat} (env : DEnv r)

/-- the binary search of `MapMetaDataSlab.Remove` = the model's `MMetaSlab.findChild`: with enough fuel the loop never
    runs out of fuel (never `.ret`), and its `ans` encodes the model's result (`-1` <-> `none`) -/
theorem mdr_Remove_loop1 {α : Type} (m : MMetaSlab α) (x : Option DX) (hk : Nat) (hhk : hk < 2^64)
    (hfk : ∀ h ∈ m.childHdrs, h.firstKey < 2^64) (hlen : m.childHdrs.length < 2^62) :
    ∀ (fuel i j : Nat) (a : Option Nat), i ≤ j → j ≤ m.childHdrs.length → j - i < fuel →
      ∃ i' j' : Int, MapMetaDataSlab_Remove.loop1 env (md_meta m x) (u64 hk) fuel (mdr_enc a) (Int.ofNat i) (Int.ofNat j) =
        .done (mdr_enc (MMetaSlab.findChild m.childHdrs hk i j a fuel), i', j') := by
  intro fuel
  induction fuel with
  | zero => intro i j a _ _ h; omega
  | succ fuel ih =>
    intro i j a hij hj hf
    simp only [MapMetaDataSlab_Remove.loop1, MMetaSlab.findChild, int_dlt]
    by_cases c : i < j
    · simp only [c, decide_true, if_true]
      rw [mid_eq i j (by omega)]
      have hlt : (i + j) / 2 < m.childHdrs.length := by omega
      simp only [mdr_goIdx_hdrs m x _ hlt]
      have hm := hfk _ (mdr_getD_mem m.childHdrs _ hlt)
      generalize m.childHdrs.getD ((i + j) / 2) default = hd at *
      have hgt : decide ((md_hdr hd).firstKey > u64 hk) = decide (hd.firstKey > hk) := u64_dgt hm hhk
      simp only [hgt]
      by_cases c1 : hd.firstKey > hk
      · simp only [c1, decide_true, if_true]
        exact ih i ((i + j) / 2) a (by omega) (by omega) (by omega)
      · simp only [c1, decide_false, if_false, Bool.false_eq_true]
        exact ih ((i + j) / 2 + 1) j (some ((i + j) / 2)) (by omega) hj (by omega)
    · simp only [c, decide_false, if_false, Bool.false_eq_true]
      exact ⟨_, _, rfl⟩

/-- the search as `MapMetaDataSlab.Remove` starts it: `ans = -1`, `i = 0`, `j = len(childrenHeaders)`, fuel `j - i + 1` -/
theorem mdr_Remove_loop1_top {α : Type} (m : MMetaSlab α) (x : Option DX) (hk : Nat) (hhk : hk < 2^64)
    (hfk : ∀ h ∈ m.childHdrs, h.firstKey < 2^64) (hlen : m.childHdrs.length < 2^62) :
    ∃ i' j' : Int, MapMetaDataSlab_Remove.loop1 env (md_meta m x) (u64 hk) (m.childHdrs.length + 1) (-1 : Int) (0 : Int)
        (Int.ofNat m.childHdrs.length) =
      .done (mdr_enc (MMetaSlab.findChild m.childHdrs hk 0 m.childHdrs.length none (m.childHdrs.length + 1)), i', j') :=
  mdr_Remove_loop1 env m x hk hhk hfk hlen (m.childHdrs.length + 1) 0 m.childHdrs.length none (Nat.zero_le _)
    (Nat.le_refl _) (by omega)
end loop

/-! ## 2. the leaf -/

/-- `getPrefixSize` on a data slab of the tree -/
theorem mdr_getPrefixSize {r : Nat} (env : DEnv r) (sl : MDataSlab r) (x : Option DX) (hx : x.isSome = sl.root)
    (g : DG r) (h : MapSlabHeader) :
    MapDataSlab_getPrefixSize env ({ md_data sl x with elements := g, header := h }) = u32 sl.prefixSize := by
  obtain ⟨hdr, nx, el, rt, inl⟩ := sl
  simp only at hx
  subst hx
  unfold MapDataSlab_getPrefixSize MDataSlab.prefixSize
  cases inl <;> cases x <;> rfl

/-- the storage after `MapDataSlab.Remove`: context `c'` (the model's, it contains the `store` effect) and, unless the slab
    is inlined, the new slab stored under its identifier -/
def mdr_leafSt {r : Nat} (s : MHSt r) (sl' : MDataSlab r) (x : Option DX) (c' : Ctx) : MHSt r :=
  { heap := if sl'.inlined then s.heap else fun i => if i = sl'.hdr.id then some (.dataSlab (md_data sl' x)) else s.heap i,
    ctx := c', popped := s.popped }

/-- `MapDataSlab.Remove` on a data slab of the tree, over a heap = the model's `MDataSlab.remove`: results, the new slab,
    the slab stored (`storeSlab`) unless inlined, the `Ctx` of the model; next to an error nothing changed -/
theorem Ob_MapDataSlab_Remove_heap {r : Nat} (T : Nat) (eb : DEnvB r) (rs : DRestruct r) (cfg : MCfg) (k : MKey) (v : Elem)
    (P : DG r → Prop) (hE : ElemsSpec cfg k v P eb) (sl : MDataSlab r) (x : Option DX) (hx : x.isSome = sl.root)
    (hP : P sl.elems) (s : MHSt r) :
    MapDataSlab_Remove (envD T eb rs) (md_data sl x) s k (u64 0) (u64 (k.dig 0)) (.key k) =
      match MDataSlab.remove cfg sl k s.ctx with
      | .ok (rk, rv, sl', c') => some (some (.key rk), some (.val rv), none, md_data sl' x, mdr_leafSt s sl' x c')
      | .error err => some (none, none, some err, md_data sl x, s) := by
  have hg := hE.remove sl.elems s.ctx hP
  unfold MapDataSlab_Remove MDataSlab.remove
  have e0 : (md_data sl x).elements = sl.elems := rfl
  simp only [envD_elemRemove, e0, hg, MDataSlab.eops, bind, Except.bind, pure, Except.pure]
  rcases HkeyElems.remove (MElems.ops r) cfg sl.elems 0 k s.ctx with err | ⟨rk, rv, g', c'⟩
  · simp only [mei_rGRemove, Option.isNone_some, Bool.not_false, if_true]
    rfl
  · simp only [mei_rGRemove, Option.isNone_none, Bool.not_true, Bool.false_eq_true, if_false, envD_elemFirst, envD_elemSize,
      hE.first, hE.size, mdr_getPrefixSize _ sl x hx]
    cases hi : sl.inlined
    · have e1 : (md_data sl x).inlined = false := hi
      simp only [e1, Bool.not_false, if_true, storeSlab, MapSlab_SlabID, MapDataSlab_SlabID, envD_store,
        Option.isNone_none, Bool.not_true, Bool.false_eq_true, if_false]
      simp only [md_data, md_hdr, mdr_leafSt, MDataSlab.storeIfNotInlined, hi, Bool.false_eq_true, if_false,
        MHSt.store, MHSt.withCtx, (UInt32.ofNat_add _ _).symm]
    · have e1 : (md_data sl x).inlined = true := hi
      simp only [e1, Bool.not_true, Bool.false_eq_true, if_false]
      simp only [md_data, md_hdr, mdr_leafSt, MDataSlab.storeIfNotInlined, hi, if_true,
        MHSt.withCtx, (UInt32.ofNat_add _ _).symm]

/-! ## 3. one level of the descent -/

section step
variable {r : Nat} (T : Nat) (eb : DEnvB r) (rs : DRestruct r)

/-- the header of a (non-nil) slab value -/
def mdr_hdrOf : DSlab r → MapSlabHeader
  | .nil => {}
  | .dataSlab o => o.header
  | .metaSlab o => o.header

/-- the receiver after the child came back: `m.childrenHeaders[i] = child.Header()`, and
    `if i == 0 { m.header.firstKey = m.childrenHeaders[0].firstKey }` -/
def mdr_m1 (m : MapMetaDataSlab DX) (i : Nat) (h : MapSlabHeader) : MapMetaDataSlab DX :=
  { m with childrenHeaders := m.childrenHeaders.set i h,
           header := if i = 0 then { m.header with firstKey := h.firstKey } else m.header }

/-- what `MapMetaDataSlab.Remove` does after the header refresh: `SplitChildSlab` if the child is full, else
    `MergeOrRebalanceChildSlab` if it underflows, else `storeSlab(m)` -/
def mdr_after (m1 : MapMetaDataSlab DX) (s1 : MHSt r) (child' : DSlab r) (i : Nat) (rk rv : Option SV) :
    Option (Option SV × Option SV × Option GE × MapMetaDataSlab DX × MHSt r) :=
  match MapSlab_IsFull (envD T eb rs) child' with
  | none => none
  | some true =>
    let q := rs.splitChild m1 s1 child' (Int.ofNat i)
    if (!q.1.isNone) then some (none, none, q.1, q.2.1, q.2.2.1) else some (rk, rv, none, q.2.1, q.2.2.1)
  | some false =>
    match MapSlab_IsUnderflow (envD T eb rs) child' with
    | none => none
    | some (u, true) =>
      let q := rs.mergeOrRebalance m1 s1 child' (Int.ofNat i) u
      if (!q.1.isNone) then some (none, none, q.1, q.2.1, q.2.2.1) else some (rk, rv, none, q.2.1, q.2.2.1)
    | some (_, false) => some (rk, rv, none, m1, s1.store m1.header.slabID (.metaSlab m1))

theorem mdr_getMapSlab_found (s : MHSt r) (id : SlabID) (child : DSlab r) (hh : s.heap id = some child)
    (hn : child.isNil = false) : getMapSlab (envD T eb rs) s id = (child, none, s) := by
  simp only [getMapSlab, envD_retrieve, hh, Option.isNone_none, Bool.not_true, Bool.false_eq_true, if_false, hn,
    Bool.not_false, if_true]

theorem mdr_getMapSlab_none (s : MHSt r) (id : SlabID) (hh : s.heap id = none) :
    getMapSlab (envD T eb rs) s id = (.nil, some .slabNotFound, s) := by
  simp only [getMapSlab, envD_retrieve, hh, Option.isNone_none, Bool.not_true, Bool.false_eq_true, if_false,
    Bool.not_false, if_true, envD_snf]

/-- the dispatch never returns a nil slab, and panics on a nil receiver -/
theorem mdr_disp_nonnil {rec_ : MapMetaDataSlab DX → MHSt r → MKey → UInt64 → UInt64 → SW →
      Option (Option SV × Option SV × Option GE × MapMetaDataSlab DX × MHSt r)}
    {child child' : DSlab r} {s s1 : MHSt r} {d : MKey} {l hk : UInt64} {w : SW} {rk rv : Option SV} {e : Option GE}
    (h : MapSlab_Remove (envD T eb rs) rec_ child s d l hk w = some (rk, rv, e, child', s1)) :
    child.isNil = false ∧ MapSlab_Header (envD T eb rs) child' = some (mdr_hdrOf child') := by
  unfold MapSlab_Remove at h
  cases child with
  | nil => simp at h
  | dataSlab o =>
    refine ⟨rfl, ?_⟩
    simp only at h
    split at h
    · simp at h
    · simp only [Option.some.injEq, Prod.mk.injEq] at h
      rw [← h.2.2.2.1]; rfl
  | metaSlab o =>
    refine ⟨rfl, ?_⟩
    simp only at h
    split at h
    · simp at h
    · simp only [Option.some.injEq, Prod.mk.injEq] at h
      rw [← h.2.2.2.1]; rfl

variable {α : Type} (m : MMetaSlab α) (x : Option DX) (s : MHSt r) (k : MKey) (hk : Nat) (depth : Nat)

/-- the key is not in the range of any child (`ans` stays `-1`): `KeyNotFoundError`, nothing changed -/
theorem Ob_MapMetaDataSlab_Remove_keyNotFound (hhk : hk < 2^64) (hfk : ∀ h ∈ m.childHdrs, h.firstKey < 2^64)
    (hlen : m.childHdrs.length < 2^62)
    (hfind : MMetaSlab.findChild m.childHdrs hk 0 m.childHdrs.length none (m.childHdrs.length + 1) = none) :
    MapMetaDataSlab_Remove (envD T eb rs) (depth + 1) (md_meta m x) s k (u64 0) (u64 hk) (.key k) =
      some (none, none, some .keyNotFound, md_meta m x, s) := by
  obtain ⟨i', j', hl⟩ := mdr_Remove_loop1_top (envD T eb rs) m x hk hhk hfk hlen
  rw [hfind] at hl
  have elen : (md_meta m x).childrenHeaders.length = m.childHdrs.length := by simp [md_meta]
  have efuel : (Int.ofNat m.childHdrs.length - (0 : Int) + 1).toNat = m.childHdrs.length + 1 := by
    simp only [Int.ofNat_eq_natCast]; omega
  unfold MapMetaDataSlab_Remove
  simp only [elen, efuel, hl, mdr_enc_none, decide_true, if_true, envD_knf]

/-- the part of `MapMetaDataSlab.Remove` up to the child's `Remove` -/
theorem mdr_Remove_prefix (hhk : hk < 2^64) (hfk : ∀ h ∈ m.childHdrs, h.firstKey < 2^64)
    (hlen : m.childHdrs.length < 2^62) (i : Nat)
    (hfind : MMetaSlab.findChild m.childHdrs hk 0 m.childHdrs.length none (m.childHdrs.length + 1) = some i)
    (hi : i < m.childHdrs.length) :
    MapMetaDataSlab_Remove (envD T eb rs) (depth + 1) (md_meta m x) s k (u64 0) (u64 hk) (.key k) =
      (let r5_ := getMapSlab (envD T eb rs) s (m.childHdrs.getD i default).id
       if (!r5_.2.1.isNone) then some (none, none, r5_.2.1, md_meta m x, r5_.2.2)
       else
        match MapSlab_Remove (envD T eb rs) (MapMetaDataSlab_Remove (envD T eb rs) depth) r5_.1 r5_.2.2 k (u64 0) (u64 hk)
            (.key k) with
        | none => none
        | some r6_ =>
          if (!r6_.2.2.1.isNone) then some (none, none, r6_.2.2.1, md_meta m x, r6_.2.2.2.2)
          else
            match MapSlab_Header (envD T eb rs) r6_.2.2.2.1 with
            | none => none
            | some p7_ => mdr_after T eb rs (mdr_m1 (md_meta m x) i p7_) r6_.2.2.2.2 r6_.2.2.2.1 i r6_.1 r6_.2.1) := by
  obtain ⟨i', j', hl⟩ := mdr_Remove_loop1_top (envD T eb rs) m x hk hhk hfk hlen
  rw [hfind] at hl
  have elen : (md_meta m x).childrenHeaders.length = m.childHdrs.length := by simp [md_meta]
  have efuel : (Int.ofNat m.childHdrs.length - (0 : Int) + 1).toNat = m.childHdrs.length + 1 := by
    simp only [Int.ofNat_eq_natCast]; omega
  have hne : ¬ (Int.ofNat i = (-1 : Int)) := by simp only [Int.ofNat_eq_natCast]; omega
  have hrange : goInRange (md_meta m x).childrenHeaders (Int.ofNat i) = true := by
    simp only [goInRange, elen, Int.ofNat_eq_natCast, Bool.and_eq_true, decide_eq_true_eq]; omega
  unfold MapMetaDataSlab_Remove
  simp only [elen, efuel, hl, mdr_enc_some, hne, decide_false, Bool.false_eq_true, if_false, mdr_goIdx_hdrs m x i hi, md_hdr]
  rcases getMapSlab (envD T eb rs) s (m.childHdrs.getD i default).id with ⟨c5, e5, s5⟩
  cases e5 with
  | some e => rfl
  | none =>
    simp only [Option.isNone_none, Bool.not_true, Bool.false_eq_true, if_false]
    generalize MapSlab_Remove (envD T eb rs) (MapMetaDataSlab_Remove (envD T eb rs) depth) c5 s5 k (u64 0) (u64 hk)
      (.key k) = q6
    cases q6 with
    | none => rfl
    | some r6 =>
      obtain ⟨rk, rv, e6, c6, s6⟩ := r6
      cases e6 with
      | some e => rfl
      | none =>
        simp only [Option.isNone_none, Bool.not_true, Bool.false_eq_true, if_false]
        cases MapSlab_Header (envD T eb rs) c6 with
        | none => rfl
        | some p7 =>
          simp only []
          simp only [hrange, if_true, show (Int.ofNat i).toNat = i from rfl, int_deq_zero]
          have hset : i < (md_meta m x).childrenHeaders.length := by rw [elen]; exact hi
          by_cases c0 : i = 0
          · subst c0
            simp only [decide_true, if_true, mdr_goIdx_ofNat, List.getElem?_set_self hset]
            simp only [mdr_after, mdr_m1, if_true, envD_splitChild, envD_mor, storeSlab, MapSlab_SlabID,
              MapMetaDataSlab_SlabID, envD_store, Option.isNone_none, Bool.not_true, Bool.false_eq_true, if_false]
            cases MapSlab_IsFull (envD T eb rs) c6 with
            | none => rfl
            | some b =>
              cases b with
              | true =>
                rfl
              | false =>
                simp only [Bool.false_eq_true, if_false]
                cases MapSlab_IsUnderflow (envD T eb rs) c6 with
                | none => rfl
                | some p =>
                  obtain ⟨u, b⟩ := p
                  cases b with
                  | true =>
                    rfl
                  | false => rfl
          · simp only [c0, decide_false, Bool.false_eq_true, if_false]
            simp only [mdr_after, mdr_m1, c0, if_false, envD_splitChild, envD_mor, storeSlab, MapSlab_SlabID,
              MapMetaDataSlab_SlabID, envD_store, Option.isNone_none, Bool.not_true, Bool.false_eq_true]
            cases MapSlab_IsFull (envD T eb rs) c6 with
            | none => rfl
            | some b =>
              cases b with
              | true =>
                rfl
              | false =>
                simp only [Bool.false_eq_true, if_false]
                cases MapSlab_IsUnderflow (envD T eb rs) c6 with
                | none => rfl
                | some p =>
                  obtain ⟨u, b⟩ := p
                  cases b with
                  | true =>
                    rfl
                  | false => rfl

/-- ONE level of `MapMetaDataSlab.Remove` (for ANY restructuring record `rs`, ANY element layer `eb`): the search finds
    child `i`, the heap holds `child` under the identifier of header `i`, the dispatch on the child returned
    `(rk, rv, nil, child', s1)`.  Then the receiver gets header `i` := `child'.Header()` and (iff `i = 0`) its `firstKey`
    refreshed (`mdr_m1`), and (`mdr_after`): `SplitChildSlab` if `child'` is full, else `MergeOrRebalanceChildSlab` if it
    underflows, else `storeSlab(m)`; the removed key / value are returned -/
theorem Ob_MapMetaDataSlab_Remove_step (hhk : hk < 2^64) (hfk : ∀ h ∈ m.childHdrs, h.firstKey < 2^64)
    (hlen : m.childHdrs.length < 2^62) (i : Nat)
    (hfind : MMetaSlab.findChild m.childHdrs hk 0 m.childHdrs.length none (m.childHdrs.length + 1) = some i)
    (hi : i < m.childHdrs.length) (child child' : DSlab r) (s1 : MHSt r) (rk rv : Option SV)
    (hheap : s.heap (m.childHdrs.getD i default).id = some child)
    (hdisp : MapSlab_Remove (envD T eb rs) (MapMetaDataSlab_Remove (envD T eb rs) depth) child s k (u64 0) (u64 hk) (.key k) =
      some (rk, rv, none, child', s1)) :
    MapMetaDataSlab_Remove (envD T eb rs) (depth + 1) (md_meta m x) s k (u64 0) (u64 hk) (.key k) =
      mdr_after T eb rs (mdr_m1 (md_meta m x) i (mdr_hdrOf child')) s1 child' i rk rv := by
  obtain ⟨hn, hh⟩ := mdr_disp_nonnil T eb rs hdisp
  rw [mdr_Remove_prefix T eb rs m x s k hk depth hhk hfk hlen i hfind hi]
  simp only [mdr_getMapSlab_found T eb rs s _ child hheap hn, Option.isNone_none, Bool.not_true, Bool.false_eq_true,
    if_false, hdisp, hh]

/-- the child is not in the storage: `SlabNotFoundError`, nothing changed -/
theorem Ob_MapMetaDataSlab_Remove_slabNotFound (hhk : hk < 2^64) (hfk : ∀ h ∈ m.childHdrs, h.firstKey < 2^64)
    (hlen : m.childHdrs.length < 2^62) (i : Nat)
    (hfind : MMetaSlab.findChild m.childHdrs hk 0 m.childHdrs.length none (m.childHdrs.length + 1) = some i)
    (hi : i < m.childHdrs.length) (hheap : s.heap (m.childHdrs.getD i default).id = none) :
    MapMetaDataSlab_Remove (envD T eb rs) (depth + 1) (md_meta m x) s k (u64 0) (u64 hk) (.key k) =
      some (none, none, some .slabNotFound, md_meta m x, s) := by
  rw [mdr_Remove_prefix T eb rs m x s k hk depth hhk hfk hlen i hfind hi]
  simp only [mdr_getMapSlab_none T eb rs s _ hheap, Option.isNone_some, Bool.not_false, if_true]

/-- the child's `Remove` returned an error: passed on, the receiver unchanged (no header refresh, no store) -/
theorem Ob_MapMetaDataSlab_Remove_childErr (hhk : hk < 2^64) (hfk : ∀ h ∈ m.childHdrs, h.firstKey < 2^64)
    (hlen : m.childHdrs.length < 2^62) (i : Nat)
    (hfind : MMetaSlab.findChild m.childHdrs hk 0 m.childHdrs.length none (m.childHdrs.length + 1) = some i)
    (hi : i < m.childHdrs.length) (child child' : DSlab r) (s1 : MHSt r) (rk rv : Option SV) (e : GE)
    (hheap : s.heap (m.childHdrs.getD i default).id = some child)
    (hdisp : MapSlab_Remove (envD T eb rs) (MapMetaDataSlab_Remove (envD T eb rs) depth) child s k (u64 0) (u64 hk) (.key k) =
      some (rk, rv, some e, child', s1)) :
    MapMetaDataSlab_Remove (envD T eb rs) (depth + 1) (md_meta m x) s k (u64 0) (u64 hk) (.key k) =
      some (none, none, some e, md_meta m x, s1) := by
  obtain ⟨hn, _⟩ := mdr_disp_nonnil T eb rs hdisp
  rw [mdr_Remove_prefix T eb rs m x s k hk depth hhk hfk hlen i hfind hi]
  simp only [mdr_getMapSlab_found T eb rs s _ child hheap hn, Option.isNone_none, Bool.not_true, Bool.false_eq_true,
    if_false, hdisp, Option.isNone_some, Bool.not_false, if_true]

/-- the store branch spelled out: neither full nor underflowing -> `storeSlab(m)` -/
theorem Ob_MapMetaDataSlab_Remove_step_store (hhk : hk < 2^64) (hfk : ∀ h ∈ m.childHdrs, h.firstKey < 2^64)
    (hlen : m.childHdrs.length < 2^62) (i : Nat)
    (hfind : MMetaSlab.findChild m.childHdrs hk 0 m.childHdrs.length none (m.childHdrs.length + 1) = some i)
    (hi : i < m.childHdrs.length) (child child' : DSlab r) (s1 : MHSt r) (rk rv : Option SV)
    (hheap : s.heap (m.childHdrs.getD i default).id = some child)
    (hdisp : MapSlab_Remove (envD T eb rs) (MapMetaDataSlab_Remove (envD T eb rs) depth) child s k (u64 0) (u64 hk) (.key k) =
      some (rk, rv, none, child', s1))
    (hfull : MapSlab_IsFull (envD T eb rs) child' = some false) (u : UInt32)
    (hunder : MapSlab_IsUnderflow (envD T eb rs) child' = some (u, false)) :
    MapMetaDataSlab_Remove (envD T eb rs) (depth + 1) (md_meta m x) s k (u64 0) (u64 hk) (.key k) =
      some (rk, rv, none, mdr_m1 (md_meta m x) i (mdr_hdrOf child'),
        s1.store m.hdr.id (.metaSlab (mdr_m1 (md_meta m x) i (mdr_hdrOf child')))) := by
  rw [Ob_MapMetaDataSlab_Remove_step T eb rs m x s k hk depth hhk hfk hlen i hfind hi child child' s1 rk rv hheap hdisp]
  simp only [mdr_after, hfull, hunder]
  have : (mdr_m1 (md_meta m x) i (mdr_hdrOf child')).header.slabID = m.hdr.id := by
    simp only [mdr_m1]; split <;> rfl
  rw [this]

/-- the split branch spelled out -/
theorem Ob_MapMetaDataSlab_Remove_step_split (hhk : hk < 2^64) (hfk : ∀ h ∈ m.childHdrs, h.firstKey < 2^64)
    (hlen : m.childHdrs.length < 2^62) (i : Nat)
    (hfind : MMetaSlab.findChild m.childHdrs hk 0 m.childHdrs.length none (m.childHdrs.length + 1) = some i)
    (hi : i < m.childHdrs.length) (child child' : DSlab r) (s1 : MHSt r) (rk rv : Option SV)
    (hheap : s.heap (m.childHdrs.getD i default).id = some child)
    (hdisp : MapSlab_Remove (envD T eb rs) (MapMetaDataSlab_Remove (envD T eb rs) depth) child s k (u64 0) (u64 hk) (.key k) =
      some (rk, rv, none, child', s1))
    (hfull : MapSlab_IsFull (envD T eb rs) child' = some true) (m' : MapMetaDataSlab DX) (s' : MHSt r) (c'' : DSlab r)
    (hsplit : rs.splitChild (mdr_m1 (md_meta m x) i (mdr_hdrOf child')) s1 child' (Int.ofNat i) = (none, m', s', c'')) :
    MapMetaDataSlab_Remove (envD T eb rs) (depth + 1) (md_meta m x) s k (u64 0) (u64 hk) (.key k) =
      some (rk, rv, none, m', s') := by
  rw [Ob_MapMetaDataSlab_Remove_step T eb rs m x s k hk depth hhk hfk hlen i hfind hi child child' s1 rk rv hheap hdisp]
  simp only [mdr_after, hfull, hsplit, Option.isNone_none, Bool.not_true, Bool.false_eq_true, if_false]

/-- the merge / rebalance branch spelled out -/
theorem Ob_MapMetaDataSlab_Remove_step_merge (hhk : hk < 2^64) (hfk : ∀ h ∈ m.childHdrs, h.firstKey < 2^64)
    (hlen : m.childHdrs.length < 2^62) (i : Nat)
    (hfind : MMetaSlab.findChild m.childHdrs hk 0 m.childHdrs.length none (m.childHdrs.length + 1) = some i)
    (hi : i < m.childHdrs.length) (child child' : DSlab r) (s1 : MHSt r) (rk rv : Option SV)
    (hheap : s.heap (m.childHdrs.getD i default).id = some child)
    (hdisp : MapSlab_Remove (envD T eb rs) (MapMetaDataSlab_Remove (envD T eb rs) depth) child s k (u64 0) (u64 hk) (.key k) =
      some (rk, rv, none, child', s1))
    (hfull : MapSlab_IsFull (envD T eb rs) child' = some false) (u : UInt32)
    (hunder : MapSlab_IsUnderflow (envD T eb rs) child' = some (u, true)) (m' : MapMetaDataSlab DX) (s' : MHSt r)
    (c'' : DSlab r)
    (hmor : rs.mergeOrRebalance (mdr_m1 (md_meta m x) i (mdr_hdrOf child')) s1 child' (Int.ofNat i) u = (none, m', s', c'')) :
    MapMetaDataSlab_Remove (envD T eb rs) (depth + 1) (md_meta m x) s k (u64 0) (u64 hk) (.key k) =
      some (rk, rv, none, m', s') := by
  rw [Ob_MapMetaDataSlab_Remove_step T eb rs m x s k hk depth hhk hfk hlen i hfind hi child child' s1 rk rv hheap hdisp]
  simp only [mdr_after, hfull, hunder, hmor, Option.isNone_none, Bool.not_true, Bool.false_eq_true, if_false]

end step

/-! ## non-vacuity: a 2-child index slab over two data slabs, the element layer of WP11 (`mei_envH`) -/

namespace MdrEx
open MeiEx
def ebx : DEnvB 0 := mei_envH (MElems.ops 0) cfg k1 v3 (fun c _ => (.nil, false, none, c))
theorem ebx_ok : ElemsSpec cfg k1 v3 (fun _ => True) ebx :=
  ElemsSpec.of_EnvB (mei_envH_ok (MElems.ops 0) cfg k1 v3 _)
def kB : MKey := { size := 3, pay := 21, digs := [20, 1] }
def xB : SElem := { key := kB, val := v2, size := 8 }
def dA : MDataSlab 0 :=
  { hdr := { id := ⟨1, 2⟩, size := 24, firstKey := 5 }, next := ⟨1, 3⟩,
    elems := ({ level := 0, hkeys := [5], elems := [.single x1], size := 20 } : HkeyElems SingleElems), root := false, inlined := false }
def dB : MDataSlab 0 :=
  { hdr := { id := ⟨1, 3⟩, size := 24, firstKey := 20 }, next := SlabID.undef,
    elems := ({ level := 0, hkeys := [20], elems := [.single xB], size := 20 } : HkeyElems SingleElems), root := false, inlined := false }
def mm : MMetaSlab (MTree 0 0) :=
  { hdr := { id := ⟨1, 1⟩, size := 50, firstKey := 5 }, childHdrs := [dA.hdr, dB.hdr], children := [dA, dB], root := true }
def xx : Option DX := some (0, 2, 0)
def s0 : MHSt 0 :=
  { heap := fun id => if id = ⟨1, 2⟩ then some (.dataSlab (md_data dA none))
      else if id = ⟨1, 3⟩ then some (.dataSlab (md_data dB none)) else none, ctx := c0 }
def rsx : DRestruct 0 :=
  { splitChild := fun m s c _ => (none, m, s, c), mergeOrRebalance := fun m s c _ _ => (none, m, s, c),
    splitRoot := fun m => (none, m), promote := fun m _ => (none, m) }

/-- the leaf after `k1` left: empty, header refreshed -/
def dA' : MDataSlab 0 :=
  { hdr := { id := ⟨1, 2⟩, size := 22, firstKey := 0 }, next := ⟨1, 3⟩,
    elems := ({ level := 0, hkeys := [], elems := [], size := 4 } : HkeyElems SingleElems), root := false, inlined := false }
def cA : Ctx := { ctr := 5, eff := [.store ⟨1, 2⟩] }

/-- non-vacuity of `Ob_MapDataSlab_Remove_heap`: the key is removed, the slab stored -/
example (T : Nat) : MapDataSlab_Remove (envD T ebx rsx) (md_data dA none) s0 k1 (u64 0) (u64 5) (.key k1) =
    some (some (.key k1), some (.val v1), none, md_data dA' none, mdr_leafSt s0 dA' none cA) :=
  (Ob_MapDataSlab_Remove_heap T ebx rsx cfg k1 v3 _ ebx_ok dA none rfl trivial s0).trans rfl

/-- ... and an absent key: `KeyNotFoundError`, nothing changed -/
example (T : Nat) : MapDataSlab_Remove (envD T ebx rsx) (md_data dB none) s0 k1 (u64 0) (u64 5) (.key k1) =
    some (none, none, some .keyNotFound, md_data dB none, s0) :=
  (Ob_MapDataSlab_Remove_heap T ebx rsx cfg k1 v3 _ ebx_ok dB none rfl trivial s0).trans rfl

theorem hdispA (T depth : Nat) :
    MapSlab_Remove (envD T ebx rsx) (MapMetaDataSlab_Remove (envD T ebx rsx) depth) (.dataSlab (md_data dA none)) s0 k1 (u64 0)
      (u64 5) (.key k1) =
    some (some (.key k1), some (.val v1), none, .dataSlab (md_data dA' none), mdr_leafSt s0 dA' none cA) := by
  simp only [MapSlab_Remove]
  rw [show u64 5 = u64 (k1.dig 0) from rfl, Ob_MapDataSlab_Remove_heap T ebx rsx cfg k1 v3 _ ebx_ok dA none rfl trivial s0]
  rfl

/-- the receiver after the descent: header 0 := the child's new header, `firstKey` refreshed (5 -> 0) -/
def mm1 : MapMetaDataSlab DX :=
  { header := { slabID := ⟨1, 1⟩, size := 50, firstKey := 0 },
    childrenHeaders := [{ slabID := ⟨1, 2⟩, size := 22, firstKey := 0 }, { slabID := ⟨1, 3⟩, size := 24, firstKey := 20 }],
    extraData := xx }

/-- non-vacuity of the step theorem, store branch (`T = 16`: 8 <= 22 <= 24): header and firstKey refreshed, `storeSlab` -/
example : MapMetaDataSlab_Remove (envD 16 ebx rsx) 1 (md_meta mm xx) s0 k1 (u64 0) (u64 5) (.key k1) =
    some (some (.key k1), some (.val v1), none, mm1, (mdr_leafSt s0 dA' none cA).store ⟨1, 1⟩ (.metaSlab mm1)) :=
  Ob_MapMetaDataSlab_Remove_step_store 16 ebx rsx mm xx s0 k1 5 0 (by decide) (by decide) (by decide) 0 rfl (by decide)
    _ _ _ _ _ rfl (hdispA 16 0) rfl 0 rfl

/-- split branch (`T = 4`: 22 > 6): `rs.splitChild` is called with the refreshed receiver -/
example : MapMetaDataSlab_Remove (envD 4 ebx rsx) 1 (md_meta mm xx) s0 k1 (u64 0) (u64 5) (.key k1) =
    some (some (.key k1), some (.val v1), none, mm1, mdr_leafSt s0 dA' none cA) :=
  Ob_MapMetaDataSlab_Remove_step_split 4 ebx rsx mm xx s0 k1 5 0 (by decide) (by decide) (by decide) 0 rfl (by decide)
    _ _ _ _ _ rfl (hdispA 4 0) rfl _ _ _ rfl

/-- merge / rebalance branch (`T = 1024`: 512 > 22) -/
example : MapMetaDataSlab_Remove (envD 1024 ebx rsx) 1 (md_meta mm xx) s0 k1 (u64 0) (u64 5) (.key k1) =
    some (some (.key k1), some (.val v1), none, mm1, mdr_leafSt s0 dA' none cA) :=
  Ob_MapMetaDataSlab_Remove_step_merge 1024 ebx rsx mm xx s0 k1 5 0 (by decide) (by decide) (by decide) 0 rfl (by decide)
    _ _ _ _ _ rfl (hdispA 1024 0) rfl (u32 490) rfl _ _ _ rfl

/-- a digest below every child's first key: `KeyNotFoundError` (`ans` stays -1) -/
example (T : Nat) : MapMetaDataSlab_Remove (envD T ebx rsx) 1 (md_meta mm xx) s0 k4 (u64 0) (u64 3) (.key k4) =
    some (none, none, some .keyNotFound, md_meta mm xx, s0) :=
  Ob_MapMetaDataSlab_Remove_keyNotFound T ebx rsx mm xx s0 k4 3 0 (by decide) (by decide) (by decide) rfl

/-- the child is missing from the storage: `SlabNotFoundError` -/
example (T : Nat) : MapMetaDataSlab_Remove (envD T ebx rsx) 1 (md_meta mm xx) { s0 with heap := fun _ => none } k1 (u64 0) (u64 5)
      (.key k1) =
    some (none, none, some .slabNotFound, md_meta mm xx, { s0 with heap := fun _ => none }) :=
  Ob_MapMetaDataSlab_Remove_slabNotFound T ebx rsx mm xx _ k1 5 0 (by decide) (by decide) (by decide) 0 rfl (by decide) rfl

/-- the binary search on the two headers (first keys 5, 20) -/
example : ∃ i' j', MapMetaDataSlab_Remove.loop1 (envD 16 ebx rsx) (md_meta mm xx) (u64 20) 3 (-1) 0 2 =
    .done (1, i', j') :=
  mdr_Remove_loop1_top (envD 16 ebx rsx) mm xx 20 (by decide) (by decide) (by decide)
end MdrEx

end Atree.TransEq
