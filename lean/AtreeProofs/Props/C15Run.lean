import AtreeProofs.Props.C15
import AtreeProofs.StorageLemmas2
import AtreeProofs.CommitLemmas2
/-
  C15 (continued; audit a3 items F6, "C15 lift") — the overlay refinement LIFTED TO WHOLE HISTORIES, the
  size observer, and freshness of generated identifiers.

  * `deltas_size_is_sum`, `size_after_store`, `sizes_after_commit` –
        `DeltasSizeWithoutTempAddresses` / `DeltasWithoutTempAddresses` are the sum of the byte sizes /
        the number of the owned pending stores of the overlay;
  * `Overlay.Step` / `Overlay.Run` – the overlay specification as a (nondeterministic) transition
        relation on `abs`, for EVERY operation including commits that fail;
        `history_refines` – every history refines it: `abs (run ops s) ` is reachable from `abs s` by
        `Overlay.Run` with exactly the observations the storage returned (induction from the per-step
        statement + invariant preservation);
  * `Overlay.step` / `Overlay.run` / `Overlay.obs` – the deterministic specification;
        `clean_history_refines` – for histories whose commits are fault-free and whose stored slabs can
        be encoded: `abs (run ops s) = Overlay.run ops (abs s)` and the observations are the ones the
        specification determines;
  * `genID_fresh` – identifiers generated for one address in one history have strictly increasing
        indices (so they never repeat), whatever happens in between – for owned addresses even across
        failed commits and re-creation of the storage.
-/
namespace Atree

namespace Overlay
variable {σ β : Type}

theorem ext' {o o' : Overlay σ} (h1 : o'.pend = o.pend) (h2 : o'.comm = o.comm) : o' = o := by
  cases o; cases o'; simp_all

/-- What a commit that reports an error may have done: the view is unchanged, and every identifier
    is either untouched (same pending entry, same committed slab) or durably written (no longer
    pending, the committed slab is the one that was visible). -/
def PartialCommit (o o' : Overlay σ) : Prop :=
  (∀ id, o'.view id = o.view id) ∧
  ∀ id, (o'.pend id = o.pend id ∧ o'.comm id = o.comm id) ∨ (o'.pend id = none ∧ o'.comm id = o.view id)

/-- THE OVERLAY SPECIFICATION AS A TRANSITION RELATION: what operation `op` may do to the overlay `o`
    (result `o'`) and what it may return (`obs`).  Deterministic except for
    * commits: success (`commitAll`) or a reported error with partial progress (`PartialCommit`);
      a commit without injected faults whose pending slabs all encode must succeed;
    * `RetrieveIfLoaded`: the visible slab or nothing (whether a slab is loaded is not part of the
      overlay);
    * `GenerateSlabID`: some defined identifier of the requested address (see `genID_fresh`). -/
def Step (c : Codec σ β) (o : Overlay σ) (op : Op σ) (o' : Overlay σ) (obs : Obs σ) : Prop :=
  match op with
  | .store id v =>
      if id = SlabID.undef then obs = .err .slabIDUndefined ∧ o' = o else obs = .unit ∧ o' = o.store id v
  | .remove id =>
      if id = SlabID.undef then obs = .err .slabIDUndefined ∧ o' = o else obs = .unit ∧ o' = o.remove id
  | .retrieve id => obs = .slab (o.view id) ∧ o' = o
  | .retrieveIfLoaded id => (obs = .slab (o.view id) ∨ obs = .slab none) ∧ o' = o
  | .retrieveIgnoringDeltas id _ => obs = .slab (o.comm id) ∧ o' = o
  | .commit _ faults _ _ =>
      ((obs = .unit ∧ o' = o.commitAll) ∨ (∃ e, obs = .err e ∧ PartialCommit o o')) ∧
      (faults = [] → (∀ id v, o.pend id = some (some v) → (c.enc v).isSome) → obs = .unit)
  | .dropDeltas => obs = .unit ∧ o' = o.dropPending
  | .dropCache => obs = .unit ∧ o' = o
  | .preload _ => obs = .unit ∧ o' = o
  | .recreate => obs = .unit ∧ o' = o.dropPending
  | .genID a => (∃ i, obs = .id i ∧ i.addr = a ∧ i ≠ SlabID.undef) ∧ o' = o

/-- a history of the specification: a chain of `Step`s with the list of observations -/
inductive Run (c : Codec σ β) : Overlay σ → List (Op σ) → Overlay σ → List (Obs σ) → Prop
  | nil (o : Overlay σ) : Run c o [] o []
  | cons {o o1 o2 : Overlay σ} {op : Op σ} {ops : List (Op σ)} {obs : Obs σ} {os : List (Obs σ)} :
      Step c o op o1 obs → Run c o1 ops o2 os → Run c o (op :: ops) o2 (obs :: os)

/-- THE DETERMINISTIC SPECIFICATION (commits succeed). -/
def step (o : Overlay σ) : Op σ → Overlay σ
  | .store id v => if id = SlabID.undef then o else o.store id v
  | .remove id => if id = SlabID.undef then o else o.remove id
  | .commit _ _ _ _ => o.commitAll
  | .dropDeltas => o.dropPending
  | .recreate => o.dropPending
  | _ => o

def run (o : Overlay σ) (ops : List (Op σ)) : Overlay σ := ops.foldl step o

/-- the observation the deterministic specification determines (`none`: not determined by the overlay:
    `RetrieveIfLoaded`, `GenerateSlabID`) -/
def obs (o : Overlay σ) : Op σ → Option (Obs σ)
  | .store id _ => some (if id = SlabID.undef then .err .slabIDUndefined else .unit)
  | .remove id => some (if id = SlabID.undef then .err .slabIDUndefined else .unit)
  | .retrieve id => some (.slab (o.view id))
  | .retrieveIgnoringDeltas id _ => some (.slab (o.comm id))
  | .retrieveIfLoaded _ => none
  | .genID _ => none
  | _ => some .unit

/-- the observations of a history of the deterministic specification -/
def obsRun (o : Overlay σ) : List (Op σ) → List (Option (Obs σ))
  | [] => []
  | op :: ops => obs o op :: obsRun (step o op) ops

end Overlay

namespace C15
open Atree St

variable {σ β : Type} (c : Codec σ β)

/-! ### F6: `DeltasSizeWithoutTempAddresses` -/

/-- the byte size a pending entry contributes: the slab's size for a pending store, nothing for a
    pending deletion or no entry -/
def pendSize (e : Option (Option σ)) : Nat :=
  match e with
  | some (some v) => c.size v
  | _ => 0

/-- the owned entries of a write set, weighted -/
def ownedSum (w : SlabID → Option σ → Nat) (l : AList SlabID (Option σ)) : Nat :=
  ((l.filter (fun p => !p.1.isTemp)).map (fun p => w p.1 p.2)).sum

theorem ownedSum_cons (w : SlabID → Option σ → Nat) (k : SlabID) (e : Option σ)
    (l : AList SlabID (Option σ)) :
    ownedSum w ((k, e) :: l) = (if k.isTemp then 0 else w k e) + ownedSum w l := by
  unfold ownedSum
  cases ht : k.isTemp <;> simp [List.filter_cons, ht]

theorem foldl_add {α : Type} (f : Nat → α → Nat) (g : α → Nat) (hf : ∀ acc p, f acc p = acc + g p)
    (l : List α) (acc : Nat) : l.foldl f acc = acc + (l.map g).sum := by
  induction l generalizing acc with
  | nil => simp
  | cons p l ih => rw [List.foldl_cons, ih, hf, List.map_cons, List.sum_cons, Nat.add_assoc]

theorem ownedSum_eq_map (w : SlabID → Option σ → Nat) (l : AList SlabID (Option σ)) :
    ownedSum w l = (l.map (fun p => if p.1.isTemp then 0 else w p.1 p.2)).sum := by
  induction l with
  | nil => rfl
  | cons p l ih =>
    obtain ⟨k, e⟩ := p
    rw [ownedSum_cons, ih, List.map_cons, List.sum_cons]

/-- the loop of `DeltasSizeWithoutTempAddresses` sums the sizes of the owned pending stores -/
theorem deltasSize_eq (s : St σ β) :
    s.deltasSizeWithoutTemp c = ownedSum (fun _ e => pendSize c (some e)) s.deltas := by
  unfold St.deltasSizeWithoutTemp
  rw [ownedSum_eq_map, foldl_add _ (fun p => if p.1.isTemp then 0 else pendSize c (some p.2)), Nat.zero_add]
  intro acc p
  obtain ⟨k, e⟩ := p
  cases e with
  | none => cases ht : k.isTemp <;> simp [pendSize]
  | some v => cases ht : k.isTemp <;> simp [pendSize]

theorem erase_of_not_mem (l : AList SlabID (Option σ)) (id : SlabID) (h : id ∉ AList.keys l) :
    AList.erase l id = l := by
  unfold AList.erase
  rw [List.filter_eq_self]
  intro p hp
  have : p.1 ≠ id := fun e => h (e ▸ List.mem_map_of_mem (f := (·.1)) hp)
  simp [this]

/-- splitting off the entry of one owned identifier -/
theorem ownedSum_erase (w : SlabID → Option σ → Nat) (l : AList SlabID (Option σ))
    (hnd : (AList.keys l).Nodup) (id : SlabID) (hid : id.isTemp = false) :
    ownedSum w l = (match AList.find? l id with | some e => w id e | none => 0) + ownedSum w (AList.erase l id) := by
  induction l with
  | nil => simp [ownedSum, AList.find?, AList.erase]
  | cons p l ih =>
    obtain ⟨k, e⟩ := p
    rw [AList.keys_cons, List.nodup_cons] at hnd
    by_cases hk : k = id
    · subst hk
      have he : AList.erase ((k, e) :: l) k = l := by
        have : AList.erase ((k, e) :: l) k = AList.erase l k := by simp [AList.erase]
        rw [this, erase_of_not_mem l k hnd.1]
      rw [he, ownedSum_cons, hid]
      simp [AList.find?]
    · have he : AList.erase ((k, e) :: l) id = (k, e) :: AList.erase l id := by
        simp [AList.erase, hk]
      rw [he, ownedSum_cons, ownedSum_cons, ih hnd.2]
      simp only [AList.find?, hk, if_false]
      omega

/-- THE SIZE OBSERVER (`DeltasSizeWithoutTempAddresses`) AND THE COUNT OBSERVER
    (`DeltasWithoutTempAddresses`) AGAINST THE OVERLAY.  Let `keys` be the owned identifiers of the
    write set (each exactly once; exactly the owned identifiers with a pending change in the overlay
    `abs s`).  The count observer is their number; the size observer is the sum, over them, of the
    byte size (`Slab.ByteSize`) of the pending slab – pending deletions and temporary identifiers
    contribute nothing. -/
theorem deltas_size_is_sum (s : St σ β) (h : (AList.keys s.deltas).Nodup) :
    let keys := (AList.keys s.deltas).filter (fun k => !k.isTemp)
    keys.Nodup ∧ (∀ k, k ∈ keys ↔ ((s.abs c).pend k ≠ none ∧ k.isTemp = false)) ∧
    s.deltasWithoutTemp = keys.length ∧
    s.deltasSizeWithoutTemp c = (keys.map (fun k => pendSize c ((s.abs c).pend k))).sum := by
  intro keys
  refine ⟨h.sublist List.filter_sublist, ?_, ?_, ?_⟩
  · intro k
    show k ∈ (AList.keys s.deltas).filter (fun k => !k.isTemp) ↔ _
    rw [List.mem_filter, ← AList.find?_ne_none_iff]
    simp [St.abs]
  · simp [St.deltasWithoutTemp, keys, AList.keys, List.filter_map, Function.comp_def]
  · have hk : keys = (s.deltas.filter (fun p => !p.1.isTemp)).map (·.1) := by
      simp [keys, AList.keys, List.filter_map, Function.comp_def]
    rw [deltasSize_eq, hk, List.map_map]
    unfold ownedSum
    congr 1
    apply List.map_congr_left
    intro p hp
    have hm : p ∈ s.deltas := (List.mem_filter.1 hp).1
    have hf : AList.find? s.deltas p.1 = some p.2 := (AList.mem_iff_find? s.deltas h p.1 p.2).1 hm
    simp [St.abs, hf]

/-- `Store` of an owned identifier changes the size observer by the size of the new slab minus the
    size of the slab that was pending under that identifier (if any), and adds one to the count
    observer unless the identifier was already pending. -/
theorem size_after_store (s : St σ β) (h : (AList.keys s.deltas).Nodup) (id : SlabID) (v : σ)
    (hid : id.isTemp = false) :
    let s' : St σ β := { s with deltas := AList.insert s.deltas id (some v) }
    s.store id v = .ok s' ∧
    s'.deltasSizeWithoutTemp c + pendSize c ((s.abs c).pend id) = s.deltasSizeWithoutTemp c + c.size v ∧
    s'.deltasWithoutTemp + (if ((s.abs c).pend id).isSome then 1 else 0) = s.deltasWithoutTemp + 1 := by
  intro s'
  have hu : id ≠ SlabID.undef := fun e => by rw [e, SlabID.isTemp_undef] at hid; cases hid
  refine ⟨by simp [St.store, hu, s'], ?_, ?_⟩
  · have h1 : s'.deltasSizeWithoutTemp c = c.size v + ownedSum (fun _ e => pendSize c (some e)) (AList.erase s.deltas id) := by
      rw [deltasSize_eq]
      show ownedSum _ ((id, some v) :: AList.erase s.deltas id) = _
      rw [ownedSum_cons, hid]
      rfl
    have h2 : s.deltasSizeWithoutTemp c = ownedSum (fun _ e => pendSize c (some e)) s.deltas :=
      deltasSize_eq c s
    rw [h1, h2, ownedSum_erase _ s.deltas h id hid]
    have : pendSize c ((s.abs c).pend id) =
        (match AList.find? s.deltas id with | some e => pendSize c (some e) | none => 0) := by
      simp only [St.abs]
      cases AList.find? s.deltas id <;> rfl
    rw [this]
    omega
  · have cnt : ∀ l : AList SlabID (Option σ), (l.filter (fun p => !p.1.isTemp)).length = ownedSum (fun _ _ => 1) l := by
      intro l
      unfold ownedSum
      induction (l.filter (fun p => !p.1.isTemp)) with
      | nil => rfl
      | cons a t ih => simp [ih, Nat.add_comm]
    have h1 : s'.deltasWithoutTemp = 1 + ownedSum (fun _ _ => 1) (AList.erase s.deltas id) := by
      show (((id, some v) :: AList.erase s.deltas id).filter (fun p => !p.1.isTemp)).length = _
      rw [cnt, ownedSum_cons, hid]
      rfl
    have h2 : s.deltasWithoutTemp = ownedSum (fun _ _ => 1) s.deltas := cnt s.deltas
    rw [h1, h2, ownedSum_erase _ s.deltas h id hid]
    simp only [St.abs]
    generalize ownedSum (fun _ _ => 1) (AList.erase s.deltas id) = N
    have key : ∀ x : Option (Option σ), (1 + N + if x.isSome then 1 else 0) =
        (match x with | some _ => 1 | none => 0) + N + 1 := by
      intro x; cases x <;> simp <;> omega
    exact key _

/-- After a commit attempt that reports success (either function, any fault plan) both observers are
    zero: the owned write set is empty. -/
theorem sizes_after_commit (hc : RoundTrip c) (s : St σ β) (h : Inv c s) (kind : CommitKind)
    (fault : Nat → Bool) (mo dlo : List SlabID) :
    let r := commitW c kind fault mo dlo s
    r.err = none → r.st.deltasWithoutTemp = 0 ∧ r.st.deltasSizeWithoutTemp c = 0 := by
  intro r herr
  obtain ⟨h1, _, h3⟩ := commitW_spec c hc kind fault mo dlo s h
  obtain ⟨_, k2, k3, k4⟩ := deltas_size_is_sum c r.st h1.deltasNodup
  have hnil : (AList.keys r.st.deltas).filter (fun k => !k.isTemp) = [] := by
    rw [List.eq_nil_iff_forall_not_mem]
    intro k hk
    obtain ⟨hp, ht⟩ := (k2 k).1 hk
    exact hp (by simpa [St.abs] using h3 herr k ht)
  rw [k3, k4, hnil]
  exact ⟨rfl, rfl⟩

/-! ### every operation refines the specification relation -/

/-- run a history and collect what the operations return -/
def runObs (s : St σ β) : List (Op σ) → St σ β × List (Obs σ)
  | [] => (s, [])
  | op :: ops => ((runObs (St.step c s op).1 ops).1, (St.step c s op).2 :: (runObs (St.step c s op).1 ops).2)

theorem runObs_fst (s : St σ β) (ops : List (Op σ)) : (runObs c s ops).1 = St.run c s ops := by
  induction ops generalizing s with
  | nil => rfl
  | cons op ops ih => exact ih _

theorem runObs_length (s : St σ β) (ops : List (Op σ)) : (runObs c s ops).2.length = ops.length := by
  induction ops generalizing s with
  | nil => rfl
  | cons op ops ih => simp [runObs, ih]

theorem abs_eq_of (s s' : St σ β) (hd : s'.deltas = s.deltas) (hb : s'.base = s.base) :
    s'.abs c = s.abs c := by
  apply Overlay.ext'
  · simp [St.abs, hd]
  · funext id
    simp [St.abs, St.committed, hb]

theorem abs_insertDelta (s : St σ β) (id : SlabID) (e : Option σ) :
    St.abs c { s with deltas := AList.insert s.deltas id e } =
      { s.abs c with pend := fun j => if j = id then some e else (s.abs c).pend j } := by
  apply Overlay.ext'
  · funext j
    simp only [St.abs, AList.find?_insert]
    by_cases hj : id = j
    · simp [hj]
    · have : ¬ j = id := fun e => hj e.symm
      simp [hj, this]
  · rfl

/-- ONE OPERATION (all eleven kinds, failing commits included) is a step of the specification. -/
theorem step_sound (hc : RoundTrip c) (s : St σ β) (h : Inv c s) (op : Op σ) :
    Overlay.Step c (s.abs c) op ((St.step c s op).1.abs c) (St.step c s op).2 := by
  cases op with
  | store id v =>
    by_cases hid : id = SlabID.undef
    · simp [Overlay.Step, St.step, St.store, hid]
    · simp only [Overlay.Step, St.step, St.store, hid, if_false, true_and]
      rw [abs_insertDelta]; rfl
  | remove id =>
    by_cases hid : id = SlabID.undef
    · simp [Overlay.Step, St.step, St.remove, hid]
    · simp only [Overlay.Step, St.step, St.remove, hid, if_false, true_and]
      rw [abs_insertDelta]; rfl
  | retrieve id =>
    obtain ⟨s', h1, _, _, h4, h5⟩ := retrieve_spec c s h id
    simp only [Overlay.Step, St.step, h1]
    exact ⟨by rw [abs_view c s h id], abs_eq_of c s s' h4 h5⟩
  | retrieveIfLoaded id =>
    simp only [Overlay.Step, St.step, and_true]
    unfold St.retrieveIfLoaded
    cases hd : AList.find? s.deltas id with
    | some v => left; simp [Overlay.view, St.abs, hd]
    | none =>
      cases hcache : AList.find? s.cache id with
      | none => right; rfl
      | some v =>
        left
        have := h.coherent id v hcache
        simp [Overlay.view, St.abs, hd, this]
  | retrieveIgnoringDeltas id ch =>
    obtain ⟨s', h1, _, _, h4, h5⟩ := retrieveIgnoringDeltas_spec c s h id ch
    simp only [Overlay.Step, St.step, h1]
    refine ⟨?_, abs_eq_of c s s' h4 h5⟩
    cases hcache : AList.find? s.cache id with
    | none => rfl
    | some v => rw [h.coherent id v hcache]; rfl
  | commit kind faults mo dlo =>
    simp only [Overlay.Step]
    rw [step_commit]
    dsimp only
    obtain ⟨h1, h2, h3⟩ := commitW_spec c hc kind (faultPlan faults) mo dlo s h
    obtain ⟨hon, _⟩ := commitW_oldOrNew c kind (faultPlan faults) mo dlo s h.deltasNodup
    refine ⟨?_, ?_⟩
    · cases herr : (commitW c kind (faultPlan faults) mo dlo s).err with
      | none =>
        left
        refine ⟨rfl, Overlay.ext' ?_ ?_⟩
        · funext id
          simp only [St.abs, Overlay.commitAll]
          cases ht : id.isTemp with
          | true => simpa using h2.temp id ht
          | false => simpa using h3 herr id ht
        · funext id
          have hv := abs_view c s h id
          simp only [St.abs, Overlay.commitAll] at hv ⊢
          cases ht : id.isTemp with
          | true => simp [St.committed, h1.noTempBase id ht, h.noTempBase id ht]
          | false =>
            simp only [Bool.false_eq_true, if_false]
            rw [hv]
            exact h2.committed_eq_view h1 (h3 herr) id ht
      | some e =>
        right
        refine ⟨e, rfl, ?_, ?_⟩
        · intro id
          rw [abs_view c _ h1 id, abs_view c s h id, h2.view id]
        · intro id
          rcases committed_of_oldOrNew c s _ h2 hon id with ⟨a, b⟩ | ⟨a, b⟩
          · exact Or.inl ⟨a, b⟩
          · exact Or.inr ⟨a, by rw [abs_view c s h id]; exact b⟩
    · intro hf hne
      have hf' : ∀ n, faultPlan faults n = false := by
        intro n; subst hf; simp [faultPlan]
      have hne' : NoEncodeFailure c s := fun id v hv => hne id v hv
      rw [(commitW_complete c hc kind (faultPlan faults) hf' mo dlo s h hne').1]
  | dropDeltas => exact ⟨rfl, rfl⟩
  | dropCache => exact ⟨rfl, rfl⟩
  | preload ids =>
    have hq := batchPreload_eq c ids s h.baseDecodes
    obtain ⟨_, _, h3, h4⟩ := batchPreload_spec c s h ids
    simp only [Overlay.Step, St.step, hq, true_and]
    rw [hq] at h3 h4
    exact abs_eq_of c s _ h3 h4
  | recreate => exact ⟨rfl, rfl⟩
  | genID a =>
    simp only [Overlay.Step]
    by_cases ha : a = 0
    · simp only [St.step, St.generateSlabID, ha, if_true]
      exact ⟨⟨_, rfl, rfl, by simp [SlabID.undef]⟩, rfl⟩
    · simp only [St.step, St.generateSlabID, ha, if_false]
      exact ⟨⟨_, rfl, rfl, by simp [SlabID.undef, ha]⟩, rfl⟩

/-- THE LIFTED REFINEMENT: EVERY HISTORY REFINES THE OVERLAY SPECIFICATION.  For any state satisfying
    the invariant (in particular the empty storage) and ANY list of operations – stores, removes, all
    three kinds of reads, both commits with arbitrary fault plans, drops, preloads, re-creations,
    identifier generation – the abstraction of the final state is reached from the abstraction of the
    initial state by a run of the specification that returns exactly the observations the storage
    returned.  (Induction on the history from `step_sound` and preservation of the invariant.) -/
theorem history_refines (hc : RoundTrip c) (s : St σ β) (h : Inv c s) (ops : List (Op σ)) :
    Overlay.Run c (s.abs c) ops ((St.run c s ops).abs c) (runObs c s ops).2 := by
  induction ops generalizing s with
  | nil => exact Overlay.Run.nil _
  | cons op ops ih =>
    exact Overlay.Run.cons (step_sound c hc s h op) (ih _ (inv_step_aux c hc s op h))

/-- … in particular from the empty storage: the overlay starts empty. -/
theorem history_refines_init (hc : RoundTrip c) (ops : List (Op σ)) :
    Overlay.Run c ⟨fun _ => none, fun _ => none⟩ ops ((St.run c (St.init : St σ β) ops).abs c)
      (runObs c (St.init : St σ β) ops).2 :=
  history_refines c hc St.init (inv_init c) ops

/-! ### the deterministic specification -/

/-- a history whose commits carry no injected faults and whose stored slabs can be encoded -/
def CleanOp : Op σ → Prop
  | .store _ v => (c.enc v).isSome
  | .commit _ faults _ _ => faults = []
  | _ => True

theorem noEnc_insert (s : St σ β) (hne : NoEncodeFailure c s) (id : SlabID) (e : Option σ)
    (he : ∀ v, e = some v → (c.enc v).isSome) :
    NoEncodeFailure c { s with deltas := AList.insert s.deltas id e } := by
  intro j v hj
  have hj' : AList.find? (AList.insert s.deltas id e) j = some (some v) := hj
  rw [AList.find?_insert] at hj'
  split at hj'
  · exact he v (Option.some.inj hj')
  · exact hne j v hj'

/-- encodability of the pending slabs is kept by every clean operation -/
theorem noEnc_step (hc : RoundTrip c) (s : St σ β) (h : Inv c s) (hne : NoEncodeFailure c s) (op : Op σ)
    (hcl : CleanOp c op) : NoEncodeFailure c (St.step c s op).1 := by
  cases op with
  | store id v =>
    by_cases hid : id = SlabID.undef
    · simpa [St.step, St.store, hid] using hne
    · simp only [St.step, St.store, hid, if_false]
      exact noEnc_insert c s hne id (some v) (fun w hw => by cases hw; exact hcl)
  | remove id =>
    by_cases hid : id = SlabID.undef
    · simpa [St.step, St.remove, hid] using hne
    · simp only [St.step, St.remove, hid, if_false]
      exact noEnc_insert c s hne id none (fun w hw => by cases hw)
  | retrieve id =>
    obtain ⟨s', h1, _, _, h4, _⟩ := retrieve_spec c s h id
    simp only [St.step, h1]
    intro j v hj; rw [h4] at hj; exact hne j v hj
  | retrieveIfLoaded id => exact hne
  | retrieveIgnoringDeltas id ch =>
    obtain ⟨s', h1, _, _, h4, _⟩ := retrieveIgnoringDeltas_spec c s h id ch
    simp only [St.step, h1]
    intro j v hj; rw [h4] at hj; exact hne j v hj
  | commit kind faults mo dlo =>
    rw [step_commit]
    exact (commitW_spec c hc kind (faultPlan faults) mo dlo s h).2.1.noEncodeFailure hne
  | dropDeltas => intro j v hj; simp [St.step, St.dropDeltas, AList.find?] at hj
  | dropCache => exact hne
  | preload ids =>
    rw [step_preload_fst]
    obtain ⟨_, _, h3, _⟩ := batchPreload_spec c s h ids
    intro j v hj; rw [h3] at hj; exact hne j v hj
  | recreate => intro j v hj; simp [St.step, St.fresh, AList.find?] at hj
  | genID a =>
    simp only [St.step, St.generateSlabID]
    split <;> exact hne

/-- a clean step of the relation is the step of the deterministic specification -/
theorem step_deterministic (o o' : Overlay σ) (op : Op σ) (ob : Obs σ) (hcl : CleanOp c op)
    (hne : ∀ id v, o.pend id = some (some v) → (c.enc v).isSome) (hs : Overlay.Step c o op o' ob) :
    o' = Overlay.step o op ∧ ∀ x, Overlay.obs o op = some x → ob = x := by
  cases op with
  | store id v =>
    by_cases hid : id = SlabID.undef
    · simp only [Overlay.Step, hid, if_true] at hs
      simp [Overlay.step, Overlay.obs, hid, hs.1, hs.2]
    · simp only [Overlay.Step, hid, if_false] at hs
      simp [Overlay.step, Overlay.obs, hid, hs.1, hs.2]
  | remove id =>
    by_cases hid : id = SlabID.undef
    · simp only [Overlay.Step, hid, if_true] at hs
      simp [Overlay.step, Overlay.obs, hid, hs.1, hs.2]
    · simp only [Overlay.Step, hid, if_false] at hs
      simp [Overlay.step, Overlay.obs, hid, hs.1, hs.2]
  | retrieve id => exact ⟨hs.2, fun x hx => by cases hx; exact hs.1⟩
  | retrieveIfLoaded id => exact ⟨hs.2, fun x hx => by cases hx⟩
  | retrieveIgnoringDeltas id ch => exact ⟨hs.2, fun x hx => by cases hx; exact hs.1⟩
  | commit kind faults mo dlo =>
    obtain ⟨h1, h2⟩ := hs
    have hu : ob = .unit := h2 hcl hne
    rcases h1 with ⟨_, ho⟩ | ⟨e, he, _⟩
    · exact ⟨ho, fun x hx => by cases hx; exact hu⟩
    · rw [hu] at he; cases he
  | dropDeltas => exact ⟨hs.2, fun x hx => by cases hx; exact hs.1⟩
  | dropCache => exact ⟨hs.2, fun x hx => by cases hx; exact hs.1⟩
  | preload ids => exact ⟨hs.2, fun x hx => by cases hx; exact hs.1⟩
  | recreate => exact ⟨hs.2, fun x hx => by cases hx; exact hs.1⟩
  | genID a => exact ⟨hs.2, fun x hx => by cases hx⟩

/-- agreement of a list of determined observations with a list of actual ones -/
def ObsAgree : List (Option (Obs σ)) → List (Obs σ) → Prop
  | [], [] => True
  | e :: es, a :: as => (∀ x, e = some x → a = x) ∧ ObsAgree es as
  | _, _ => False

/-- THE LIFTED REFINEMENT, DETERMINISTIC FORM: `abs (run ops s) = Overlay.run ops (abs s)` and the
    observations are equal.  For every state satisfying the invariant whose pending slabs can be
    encoded (e.g. the empty storage) and every history of operations of all kinds in which commits
    carry no injected faults and stored slabs can be encoded: the abstraction of the final state IS
    the final state of the deterministic overlay specification run on the abstraction of the initial
    state, and every observation the specification determines (all but `RetrieveIfLoaded` and
    `GenerateSlabID`, which depend on state outside the overlay) is the one the storage returned. -/
theorem clean_history_refines (hc : RoundTrip c) (s : St σ β) (h : Inv c s) (hne : NoEncodeFailure c s)
    (ops : List (Op σ)) (hcl : ∀ op ∈ ops, CleanOp c op) :
    (St.run c s ops).abs c = Overlay.run (s.abs c) ops ∧
    ObsAgree (Overlay.obsRun (s.abs c) ops) (runObs c s ops).2 := by
  induction ops generalizing s with
  | nil => exact ⟨rfl, trivial⟩
  | cons op ops ih =>
    have hst := step_sound c hc s h op
    obtain ⟨d1, d2⟩ := step_deterministic c _ _ op _ (hcl op (List.mem_cons_self ..))
      (fun id v hv => hne id v hv) hst
    obtain ⟨i1, i2⟩ := ih (St.step c s op).1 (inv_step_aux c hc s op h)
      (noEnc_step c hc s h hne op (hcl op (List.mem_cons_self ..)))
      (fun o ho => hcl o (List.mem_cons_of_mem _ ho))
    refine ⟨?_, ?_⟩
    · show (St.run c (St.step c s op).1 ops).abs c = Overlay.run (Overlay.step (s.abs c) op) ops
      rw [i1, d1]
    · show ObsAgree (Overlay.obs (s.abs c) op :: Overlay.obsRun (Overlay.step (s.abs c) op) ops)
        ((St.step c s op).2 :: (runObs c (St.step c s op).1 ops).2)
      rw [← d1]
      exact ⟨d2, i2⟩

/-! ### freshness of generated identifiers -/

/-- the allocation counter of an address: the storage's own counter for the temporary address, the
    base storage's per-address counter otherwise -/
def idCounter (s : St σ β) (a : Nat) : Nat :=
  if a = 0 then s.tempIx else (AList.find? s.alloc a).getD 0

def isRecreate : Op σ → Bool
  | .recreate => true
  | _ => false

/-- `GenerateSlabID(a)` returns the identifier `(a, counter + 1)` and advances the counter. -/
theorem step_genID (s : St σ β) (a : Nat) :
    (St.step c s (.genID a)).2 = .id ⟨a, idCounter s a + 1⟩ ∧
    idCounter (St.step c s (.genID a)).1 a = idCounter s a + 1 := by
  by_cases ha : a = 0
  · subst ha
    simp [St.step, St.generateSlabID, idCounter]
  · simp [St.step, St.generateSlabID, idCounter, ha, AList.find?_insert]

theorem preload_fold_aux (ids : List SlabID) (r : St σ β × Option StErr) :
    (ids.foldl (preloadOne c) r).1.alloc = r.1.alloc ∧ (ids.foldl (preloadOne c) r).1.tempIx = r.1.tempIx := by
  induction ids generalizing r with
  | nil => exact ⟨rfl, rfl⟩
  | cons id ids ih =>
    have h1 : (preloadOne c r id).1.alloc = r.1.alloc ∧ (preloadOne c r id).1.tempIx = r.1.tempIx := by
      unfold preloadOne
      split
      · exact ⟨rfl, rfl⟩
      · dsimp only
        split
        · exact ⟨rfl, rfl⟩
        · split <;> exact ⟨rfl, rfl⟩
    obtain ⟨g1, g2⟩ := ih (preloadOne c r id)
    exact ⟨g1.trans h1.1, g2.trans h1.2⟩

/-- No operation ever decreases the counter of an address – except that re-creating the storage
    resets the counter of the TEMPORARY address (temporary identifiers are never persisted). -/
theorem step_counter_mono (s : St σ β) (op : Op σ) (a : Nat) (h : a ≠ 0 ∨ isRecreate op = false) :
    idCounter s a ≤ idCounter (St.step c s op).1 a := by
  have key : ∀ s' : St σ β, s'.alloc = s.alloc → s'.tempIx = s.tempIx → idCounter s a ≤ idCounter s' a := by
    intro s' h1 h2
    unfold idCounter
    rw [h1, h2]
    exact Nat.le_refl _
  cases op with
  | store id v =>
    by_cases hid : id = SlabID.undef <;> simp only [St.step, St.store, hid, if_true, if_false] <;>
      exact key _ rfl rfl
  | remove id =>
    by_cases hid : id = SlabID.undef <;> simp only [St.step, St.remove, hid, if_true, if_false] <;>
      exact key _ rfl rfl
  | retrieve id =>
    simp only [St.step]
    split
    · rename_i v s' hr
      obtain ⟨_, _, f3, f4⟩ := retrieve_frame c s s' id v hr
      exact key _ f3 f4
    · exact Nat.le_refl _
  | retrieveIfLoaded id => exact Nat.le_refl _
  | retrieveIgnoringDeltas id ch =>
    simp only [St.step]
    split
    · rename_i v s' hr
      obtain ⟨_, _, f3, f4⟩ := retrieveIgnoringDeltas_frame c s s' id ch v hr
      exact key _ f3 f4
    · exact Nat.le_refl _
  | commit kind faults mo dlo =>
    rw [step_commit]
    obtain ⟨f1, f2⟩ := commitW_aux c kind (faultPlan faults) mo dlo s
    exact key _ f1 f2
  | dropDeltas => exact key _ rfl rfl
  | dropCache => exact key _ rfl rfl
  | preload ids =>
    rw [step_preload_fst]
    obtain ⟨f1, f2⟩ := preload_fold_aux c ids (s, none)
    exact key _ f1 f2
  | recreate =>
    rcases h with h | h
    · simp [St.step, St.fresh, idCounter, h]
    · cases h
  | genID b =>
    by_cases hb : b = a
    · subst hb
      rw [(step_genID c s b).2]
      exact Nat.le_succ _
    · by_cases hb0 : b = 0
      · subst hb0
        have ha : a ≠ 0 := fun e => hb e.symm
        simp [St.step, St.generateSlabID, idCounter, ha]
      · simp only [St.step, St.generateSlabID, hb0, if_false, idCounter]
        by_cases ha : a = 0
        · simp [ha]
        · simp [ha, AList.find?_insert, hb]

theorem run_counter_mono (ops : List (Op σ)) (s : St σ β) (a : Nat)
    (h : a ≠ 0 ∨ ∀ op ∈ ops, isRecreate op = false) :
    idCounter s a ≤ idCounter (St.run c s ops) a := by
  induction ops generalizing s with
  | nil => exact Nat.le_refl _
  | cons op ops ih =>
    have h1 := step_counter_mono c s op a (h.imp id (fun hh => hh op (List.mem_cons_self ..)))
    have h2 := ih (St.step c s op).1 (h.imp id (fun hh o ho => hh o (List.mem_cons_of_mem _ ho)))
    exact Nat.le_trans h1 h2

/-- FRESHNESS OF GENERATED IDENTIFIERS.  Two calls of `GenerateSlabID` for the same address in one
    history return identifiers of that address with STRICTLY INCREASING index – hence never the same
    identifier twice – whatever operations lie in between: stores, removes, reads, commits of either
    kind with arbitrary injected faults, drops, preloads and, for an owned address, abandoning the
    storage and re-creating it from the ledger (the counter of an owned address lives in the ledger).
    For the temporary address the same holds between two re-creations.  (Freshness with respect to
    identifiers a client passes to `Store` on its own is not claimed and does not hold: nothing stops
    `Store(⟨a, 100⟩, …)` before the counter reaches 100.) -/
theorem genID_fresh (s : St σ β) (a : Nat) (mid : List (Op σ))
    (h : a ≠ 0 ∨ ∀ op ∈ mid, isRecreate op = false) :
    let r1 := St.step c s (.genID a)
    let r2 := St.step c (St.run c r1.1 mid) (.genID a)
    ∃ i j, r1.2 = .id i ∧ r2.2 = .id j ∧ i.addr = a ∧ j.addr = a ∧ i.idx < j.idx ∧
      i ≠ SlabID.undef ∧ j ≠ SlabID.undef := by
  intro r1 r2
  obtain ⟨a1, a2⟩ := step_genID c s a
  obtain ⟨b1, _⟩ := step_genID c (St.run c r1.1 mid) a
  have hm := run_counter_mono c mid r1.1 a h
  refine ⟨_, _, a1, b1, rfl, rfl, ?_, ?_, ?_⟩
  · show idCounter s a + 1 < idCounter (St.run c r1.1 mid) a + 1
    have : idCounter r1.1 a = idCounter s a + 1 := a2
    omega
  · simp [SlabID.undef]
  · simp [SlabID.undef]

/-! ### Non-vacuity -/
section NonVacuity
open Atree.Example

deriving instance DecidableEq for Obs

/-- two value sizes: the size of the slab `v` is `v + 10` bytes -/
def szCodec : Codec Nat Nat := { natCodec with size := fun v => v + 10 }

/-- `deltas_size_is_sum` on `exSt` (pending store `1.1 ↦ 5`, pending deletion `1.2`, pending TEMPORARY
    slab `0.1 ↦ 8`): two owned pending identifiers, 15 bytes (the deletion and the temporary slab do not
    count). -/
example : exSt.deltasWithoutTemp = 2 ∧ exSt.deltasSizeWithoutTemp szCodec = 15 ∧ exSt.deltasCount = 3 := by
  decide
example := deltas_size_is_sum szCodec exSt inv.deltasNodup
/-- overwriting the pending `1.1 ↦ 5` by `1.1 ↦ 20`: the size moves from 15 to 30, the count stays -/
example :
    let s' : St Nat Nat := { exSt with deltas := AList.insert exSt.deltas ⟨1, 1⟩ (some 20) }
    s'.deltasSizeWithoutTemp szCodec = 30 ∧ s'.deltasWithoutTemp = 2 := by decide
example := size_after_store szCodec exSt inv.deltasNodup ⟨1, 1⟩ 20 rfl
example := sizes_after_commit natCodec roundTrip exSt inv .det (faultPlan [5]) [] []
example : (commitW natCodec .det (faultPlan [5]) [] [] exSt).err = none := by decide

/-- a history with every kind of operation, among them a commit that FAILS after one write and a
    successful retry -/
def liftOps : List (Op Nat) :=
  [.genID 1, .store ⟨1, 1⟩ 5, .store ⟨1, 2⟩ 6, .retrieveIfLoaded ⟨1, 2⟩, .commit .det [1] [] [],
   .retrieve ⟨1, 2⟩, .remove ⟨1, 2⟩, .commit .nondet [] [] [], .dropCache, .retrieveIgnoringDeltas ⟨1, 1⟩ true,
   .preload [⟨1, 1⟩], .store ⟨1, 3⟩ 7, .dropDeltas, .retrieve ⟨1, 3⟩, .recreate, .genID 1]

example := history_refines_init natCodec roundTrip liftOps
/-- what the history returned: the failing commit reports the external error -/
example : (runObs natCodec (St.init : St Nat Nat) liftOps).2 =
    [.id ⟨1, 1⟩, .unit, .unit, .slab (some 6), .err .external, .slab (some 6), .unit, .unit, .unit,
     .slab (some 5), .unit, .unit, .unit, .slab none, .unit, .id ⟨1, 2⟩] := by decide

/-- the same history without the injected fault is clean: the deterministic form applies -/
def cleanOps : List (Op Nat) :=
  [.genID 1, .store ⟨1, 1⟩ 5, .store ⟨1, 2⟩ 6, .retrieveIfLoaded ⟨1, 2⟩, .commit .det [] [] [],
   .retrieve ⟨1, 2⟩, .remove ⟨1, 2⟩, .commit .nondet [] [] [], .dropCache, .retrieveIgnoringDeltas ⟨1, 1⟩ true,
   .preload [⟨1, 1⟩], .store ⟨1, 3⟩ 7, .dropDeltas, .retrieve ⟨1, 3⟩, .recreate, .genID 1]
theorem cleanOps_clean : ∀ op ∈ cleanOps, CleanOp natCodec op := by
  intro op hop
  simp only [cleanOps, List.mem_cons, List.not_mem_nil, or_false] at hop
  rcases hop with rfl | rfl | rfl | rfl | rfl | rfl | rfl | rfl | rfl | rfl | rfl | rfl | rfl | rfl | rfl | rfl <;>
    first | trivial | rfl
example := clean_history_refines natCodec roundTrip (St.init : St Nat Nat) (inv_init natCodec)
  (fun _ _ h => by simp [St.init, St.fresh, AList.find?] at h) cleanOps cleanOps_clean
/-- the specification's run, evaluated at two identifiers: `1.1` committed, `1.2` deleted -/
example :
    let o := Overlay.run (⟨fun _ => none, fun _ => none⟩ : Overlay Nat) cleanOps
    o.view ⟨1, 1⟩ = some 5 ∧ o.view ⟨1, 2⟩ = none ∧ o.view ⟨1, 3⟩ = none ∧ o.pend ⟨1, 1⟩ = none := by decide
/-- `CleanOp` is a real restriction: `liftOps` (with the injected fault) is not clean -/
example : ¬ ∀ op ∈ liftOps, CleanOp natCodec op := by
  intro h
  have := h (.commit .det [1] [] []) (by simp [liftOps])
  simp [CleanOp] at this

/-- `genID_fresh` across a failing commit and a re-creation, and its necessity restriction for the
    temporary address: after a re-creation the temporary counter restarts. -/
example := genID_fresh natCodec (St.init : St Nat Nat) 1
  [.store ⟨1, 1⟩ 5, .commit .det [0] [] [], .recreate, .genID 2] (Or.inl (by decide))
example :
    (St.step natCodec (St.init : St Nat Nat) (.genID 0)).2 = .id ⟨0, 1⟩ ∧
    (St.step natCodec (St.run natCodec (St.step natCodec (St.init : St Nat Nat) (.genID 0)).1 [.recreate])
      (.genID 0)).2 = .id ⟨0, 1⟩ := by decide

end NonVacuity

end C15
end Atree
