import AtreeProofs.Props.TransElemInline
import AtreeProofs.Props.TransElemSlab
import AtreeProofs.Trans.MapElemOn
/-
  ELEMENT layer of the maps: the generated DYNAMIC DISPATCH of the closed interface `element` (`element_Get`, `element_Set`,
  `element_Remove` of `AtreeModel/Gen/TransMapElem.lean`) equals the model's `MElemF.get / set / remove`
  (`AtreeModel/Map/Elems.lean`) on every element: single element, inline collision group, external collision group (for the
  latter the storage returns the group's slab, which the model embeds in the element: `hret`).  These are the functions
  the hkeyElements layer (`Gen/TransMapElems.lean`, `EnvA`) takes as parameters.  Core Lean only.
-/
namespace Atree.TransEq
open Atree Atree.Gen.TransElem

section
variable {α X : Type} (o : ElemsOps α) (cfg : MCfg) (k : MKey) (v : Elem) (env : Env α SV SW X MKey Unit Ctx GE)

/-- `element.Get` (dispatch) = `MElemF.get`, for every element -/
theorem element_Get_eq_model (hE : EnvB o cfg k v env) (el : MElemF α) (c : Ctx) (level : Nat) (hk : UInt64)
    (hl : level + 1 < 2^64) (hL : cfg.L < 2^64)
    (hret : ∀ id sz s, el = .ext id sz s →
      env.SlabStorage_Retrieve c id = (.dataSlab (mei_cGroupSlab s), true, none, c))
    (hget : ∀ (d : MapDataSlab α X) c dg lvl hk w,
      env.MapSlab_Get (.dataSlab d) c dg lvl hk w = env.elements_Get d.elements c dg lvl hk w) :
    element_Get env (mei_cEl el) c k (u64 level) hk (.key k) = some (mei_rGet c (el.get o cfg level k)) := by
  cases el with
  | single x =>
    simp only [mei_cEl, element_Get, singleElement_Get_eq_model o cfg k v env hE x c k (u64 level) hk level]
  | inl g =>
    simp only [mei_cEl, element_Get, inlineCollisionGroup_Get_eq_model o cfg k v env hE g c level hk hl hL]
  | ext id sz s =>
    simp only [mei_cEl, element_Get,
      externalCollisionGroup_Get_eq_model o cfg k v env hE id sz s c level hk hl hL (hret id sz s rfl) hget]

/-- the nested `elements` of a collision group (`none` for a single element) -/
def mei_nested : MElemF α → Option α
  | .single _ => none
  | .inl g => some g
  | .ext _ _ s => some s.elems

/-- `element_Get_eq_model` over the relativised environment `EnvBOn` -/
theorem element_Get_eq_model_on {Qg Qs Qr : α → Nat → Ctx → Prop} {Qn : Nat → SElem → Prop}
    (hE : EnvBOn o cfg k v env Qg Qs Qr Qn) (el : MElemF α) (c : Ctx) (level : Nat) (hk : UInt64)
    (hl : level + 1 < 2^64) (hL : cfg.L < 2^64)
    (hret : ∀ id sz s, el = .ext id sz s →
      env.SlabStorage_Retrieve c id = (.dataSlab (mei_cGroupSlab s), true, none, c))
    (hget : ∀ (d : MapDataSlab α X) c dg lvl hk w,
      env.MapSlab_Get (.dataSlab d) c dg lvl hk w = env.elements_Get d.elements c dg lvl hk w)
    (hQ : ∀ g, mei_nested el = some g → Qg g (level + 1) c) :
    element_Get env (mei_cEl el) c k (u64 level) hk (.key k) = some (mei_rGet c (el.get o cfg level k)) := by
  cases el with
  | single x =>
    simp only [mei_cEl, element_Get, singleElement_Get_eq_model_on o cfg k v env hE x c k (u64 level) hk level]
  | inl g =>
    simp only [mei_cEl, element_Get, inlineCollisionGroup_Get_eq_model_on o cfg k v env hE g c level hk hl hL (hQ g rfl)]
  | ext id sz s =>
    simp only [mei_cEl, element_Get,
      externalCollisionGroup_Get_eq_model_on o cfg k v env hE id sz s c level hk hl hL (hret id sz s rfl) hget
        (hQ s.elems rfl)]

/-- `element_Remove_eq_model` over the relativised environment `EnvBOn` -/
theorem element_Remove_eq_model_on {Qg Qs Qr : α → Nat → Ctx → Prop} {Qn : Nat → SElem → Prop}
    (hE : EnvBOn o cfg k v env Qg Qs Qr Qn) (el : MElemF α) (c : Ctx) (level : Nat) (hk : UInt64)
    (hl : level + 1 < 2^64) (hL : cfg.L < 2^64)
    (hcnt : ∀ g, mei_nested el = some g → ∀ rk rv g' c', o.remove cfg g (level + 1) k c = .ok (rk, rv, g', c') →
      o.count g' < 2^32)
    (hret : ∀ id sz s, el = .ext id sz s →
      env.SlabStorage_Retrieve c id = (.dataSlab (mei_cGroupSlab s), true, none, c))
    (hQ : ∀ g, mei_nested el = some g → Qr g (level + 1) c) :
    (element_Remove env (mei_cEl el) c k (u64 level) hk (.key k)).map
        (fun r => (r.1, r.2.1, r.2.2.1, r.2.2.2.1, r.2.2.2.2.2)) =
      some (mei_rERemove c (el.remove o cfg level k c)) := by
  cases el with
  | single x =>
    simp only [mei_cEl, element_Remove, singleElement_Remove_eq_model_on o cfg k v env hE x c k (u64 level) hk level,
      Option.map_some]
  | inl g =>
    simp only [mei_cEl, element_Remove,
      inlineCollisionGroup_Remove_eq_model_on o cfg k v env hE g c level hk hl hL (hcnt g rfl) (hQ g rfl), Option.map_some]
  | ext id sz s =>
    simp only [mei_cEl, element_Remove,
      externalCollisionGroup_Remove_eq_model_on o cfg k v env hE id sz s c level hk hl hL (hcnt s.elems rfl)
        (hret id sz s rfl) (hQ s.elems rfl), Option.map_some]

/-- `element.Remove` (dispatch) = `MElemF.remove`, for every element: Go results and storage state (the dispatcher's extra
    component, the receiver's new state, is left out: for a group it is in `inlineCollisionGroup_Remove_eq_model`) -/
theorem element_Remove_eq_model (hE : EnvB o cfg k v env) (el : MElemF α) (c : Ctx) (level : Nat) (hk : UInt64)
    (hl : level + 1 < 2^64) (hL : cfg.L < 2^64)
    (hcnt : ∀ g, mei_nested el = some g → ∀ rk rv g' c', o.remove cfg g (level + 1) k c = .ok (rk, rv, g', c') →
      o.count g' < 2^32)
    (hret : ∀ id sz s, el = .ext id sz s →
      env.SlabStorage_Retrieve c id = (.dataSlab (mei_cGroupSlab s), true, none, c)) :
    (element_Remove env (mei_cEl el) c k (u64 level) hk (.key k)).map
        (fun r => (r.1, r.2.1, r.2.2.1, r.2.2.2.1, r.2.2.2.2.2)) =
      some (mei_rERemove c (el.remove o cfg level k c)) :=
  element_Remove_eq_model_on o cfg k v env hE.toOn el c level hk hl hL hcnt hret (fun _ _ => trivial)

/-- `element_Set_eq_model` over the relativised environment `EnvBOn` -/
theorem element_Set_eq_model_on {Qg Qs Qr : α → Nat → Ctx → Prop} {Qn : Nat → SElem → Prop}
    (hE : EnvBOn o cfg k v env Qg Qs Qr Qn) (el : MElemF α) (c : Ctx) (level : Nat) (hk : UInt64) (b : Unit)
    (hl : level + 1 < 2^64) (hL : cfg.L < 2^64) (hT : maxInlineMapElem cfg.T < 2^32)
    (hsz : ∀ g, (mei_nested el = some g ∨ ∃ x, el = .single x ∧ o.newWith cfg (level + 1) x = .ok g) →
      ∀ ks old g' c', o.set cfg g (level + 1) k v c = .ok (ks, old, g', c') → o.size g' + 2 < 2^32)
    (hsingle : ∀ x, el = .single x → x.key.size < 2^32 ∧ x.size < 2^32 ∧
      (x.key.same k = false → ∃ g, o.newWith cfg (level + 1) x = .ok g))
    (hret : ∀ id sz s, el = .ext id sz s → s.hdr.id.addr = cfg.addr ∧
      env.SlabStorage_Retrieve c id = (.dataSlab (mei_cGroupSlab s), true, none, c))
    (hset : ∀ (d : MapDataSlab α X) c b dg lvl hk w w', env.MapSlab_Set (.dataSlab d) c b dg lvl hk w w' =
      match MapDataSlab_Set env d c b dg lvl hk w w' with
      | some r => (r.1, r.2.1, r.2.2.1, .dataSlab r.2.2.2.1, r.2.2.2.2)
      | none => (none, none, none, .dataSlab d, c))
    (hQ : ∀ g, (mei_nested el = some g ∨ ∃ x, el = .single x ∧ o.newWith cfg (level + 1) x = .ok g) → Qs g (level + 1) c)
    (hQn : ∀ x, el = .single x → Qn (level + 1) x) :
    (element_Set env (mei_cEl el) c cfg.addr b k (u64 level) hk (.key k) (.val v)).map
        (fun r => (r.1, r.2.1, r.2.2.1, r.2.2.2.1, r.2.2.2.2.2)) =
      some (mei_rESet c (el.set o cfg level k v c)) := by
  cases el with
  | single x =>
    obtain ⟨h1, h2, h3⟩ := hsingle x rfl
    simp only [mei_cEl, element_Set,
      singleElement_Set_eq_model_on o cfg k v env hE x c level hk b hl hL hT
        (fun g ks old g' c' hg => hsz g (Or.inr ⟨x, rfl, hg⟩) ks old g' c') h1 h2 h3
        (hQn x rfl) (fun g hg => hQ g (Or.inr ⟨x, rfl, hg⟩)), Option.map_some]
  | inl g =>
    simp only [mei_cEl, element_Set,
      inlineCollisionGroup_Set_eq_model_on o cfg k v env hE g c level hk b hl hL hT (hsz g (Or.inl rfl))
        (hQ g (Or.inl rfl)),
      Option.map_some, MElemF.set]
  | ext id sz s =>
    obtain ⟨ha, hr⟩ := hret id sz s rfl
    simp only [mei_cEl, element_Set,
      externalCollisionGroup_Set_eq_model_on o cfg k v env hE id sz s c level hk cfg.addr b hl hL ha hr hset
        (hQ s.elems (Or.inl rfl)),
      Option.map_some]

/-- `element.Set` (dispatch) = `MElemF.set`, for every element: Go results and storage state -/
theorem element_Set_eq_model (hE : EnvB o cfg k v env) (el : MElemF α) (c : Ctx) (level : Nat) (hk : UInt64) (b : Unit)
    (hl : level + 1 < 2^64) (hL : cfg.L < 2^64) (hT : maxInlineMapElem cfg.T < 2^32)
    (hsz : ∀ g, (mei_nested el = some g ∨ ∃ x, el = .single x ∧ o.newWith cfg (level + 1) x = .ok g) →
      ∀ ks old g' c', o.set cfg g (level + 1) k v c = .ok (ks, old, g', c') → o.size g' + 2 < 2^32)
    (hsingle : ∀ x, el = .single x → x.key.size < 2^32 ∧ x.size < 2^32 ∧
      (x.key.same k = false → ∃ g, o.newWith cfg (level + 1) x = .ok g))
    (hret : ∀ id sz s, el = .ext id sz s → s.hdr.id.addr = cfg.addr ∧
      env.SlabStorage_Retrieve c id = (.dataSlab (mei_cGroupSlab s), true, none, c))
    (hset : ∀ (d : MapDataSlab α X) c b dg lvl hk w w', env.MapSlab_Set (.dataSlab d) c b dg lvl hk w w' =
      match MapDataSlab_Set env d c b dg lvl hk w w' with
      | some r => (r.1, r.2.1, r.2.2.1, .dataSlab r.2.2.2.1, r.2.2.2.2)
      | none => (none, none, none, .dataSlab d, c)) :
    (element_Set env (mei_cEl el) c cfg.addr b k (u64 level) hk (.key k) (.val v)).map
        (fun r => (r.1, r.2.1, r.2.2.1, r.2.2.2.1, r.2.2.2.2.2)) =
      some (mei_rESet c (el.set o cfg level k v c)) :=
  element_Set_eq_model_on o cfg k v env hE.toOn el c level hk b hl hL hT hsz hsingle hret hset (fun _ _ => trivial) (fun _ _ => trivial)

end
end Atree.TransEq
