import AtreeProofs.Trans.MapElem
import AtreeProofs.Trans.MapElemOn
/-
  Unit B, slab part: the GENERATED `storeSlab`, `getMapSlab`, `MapDataSlab.Set / Remove` and
  `externalCollisionGroup.Get / Set / Remove` (`AtreeModel/Gen/TransMapElem.lean`) against the model
  (`MElemF.get / set / remove` on `.ext`, `MElemF.groupSlabUpdate`, `MDataSlab.set / remove`).  Core Lean only.
-/
namespace Atree.TransEq
open Atree Atree.Gen.TransElem

section
variable {α X : Type} (o : ElemsOps α) (cfg : MCfg) (k : MKey) (v : Elem) (env : Env α SV SW X MKey Unit Ctx GE)

/-- `mei_storeSlab_data` over the relativised environment `EnvBOn` -/
theorem mei_storeSlab_data_on {Qg Qs Qr : α → Nat → Ctx → Prop} {Qn : Nat → SElem → Prop}
    (hE : EnvBOn o cfg k v env Qg Qs Qr Qn) (m : MapDataSlab α X) (c : Ctx) :
    storeSlab env c (.dataSlab m) = some (none, c.emit (.store m.header.slabID)) := by
  simp only [storeSlab, MapSlab_SlabID, MapDataSlab_SlabID, hE.store, Option.isNone_none, Bool.not_true,
    Bool.false_eq_true, if_false]

theorem mei_storeSlab_data (hE : EnvB o cfg k v env) (m : MapDataSlab α X) (c : Ctx) :
    storeSlab env c (.dataSlab m) = some (none, c.emit (.store m.header.slabID)) :=
  mei_storeSlab_data_on o cfg k v env hE.toOn m c

set_option linter.unusedVariables false in
/-- `mei_getMapSlab_found` over the relativised environment `EnvBOn` -/
theorem mei_getMapSlab_found_on {Qg Qs Qr : α → Nat → Ctx → Prop} {Qn : Nat → SElem → Prop}
    (hE : EnvBOn o cfg k v env Qg Qs Qr Qn) (c : Ctx) (id : SlabID) (m : MapDataSlab α X)
    (hret : env.SlabStorage_Retrieve c id = (.dataSlab m, true, none, c)) :
    getMapSlab env c id = (.dataSlab m, none, c) := by
  simp only [getMapSlab, hret, Option.isNone_none, Bool.not_true, Bool.false_eq_true, if_false, MapSlab.isNil,
    Bool.not_false]

set_option linter.unusedVariables false in
theorem mei_getMapSlab_found (hE : EnvB o cfg k v env) (c : Ctx) (id : SlabID) (m : MapDataSlab α X)
    (hret : env.SlabStorage_Retrieve c id = (.dataSlab m, true, none, c)) :
    getMapSlab env c id = (.dataSlab m, none, c) :=
  mei_getMapSlab_found_on o cfg k v env hE.toOn c id m hret

/-- `getPrefixSize` as a number -/
def mei_prefix (m : MapDataSlab α X) : Nat :=
  if m.inlined then Gen.inlinedMapDataSlabPrefixSize else if m.extraData.isSome then Gen.mapRootDataSlabPrefixSize else Gen.mapDataSlabPrefixSize

theorem mei_getPrefixSize (m : MapDataSlab α X) : MapDataSlab_getPrefixSize env m = u32 (mei_prefix m) := by
  unfold MapDataSlab_getPrefixSize mei_prefix
  cases m.inlined <;> cases m.extraData <;> rfl

/-- `MapDataSlab_Set_eq` over the relativised environment `EnvBOn` -/
theorem MapDataSlab_Set_eq_on {Qg Qs Qr : α → Nat → Ctx → Prop} {Qn : Nat → SElem → Prop}
    (hE : EnvBOn o cfg k v env Qg Qs Qr Qn) (m : MapDataSlab α X) (c : Ctx) (level : Nat) (b : Unit)
    (hl : level < 2^64) (ha : m.header.slabID.addr = cfg.addr)
    (hQ : Qs m.elements level c) :
    MapDataSlab_Set env m c b k (u64 level) (u64 (k.dig level)) (.key k) (.val v) =
      match o.set cfg m.elements level k v c with
      | .ok (ks, old, g', c') => some (some (.key ks), old.map .val, none,
          { m with elements := g', header := { m.header with firstKey := u64 (o.firstKey g'), size := u32 (mei_prefix m + o.size g') } },
          if m.inlined then c' else c'.emit (.store m.header.slabID))
      | .error err => some (none, none, some err, m, c) := by
  have hg := hE.gSet m.elements c level b hl hQ
  unfold MapDataSlab_Set
  simp only [MapDataSlab_SlabID, ha, hg]
  rcases o.set cfg m.elements level k v c with err | ⟨ks, old, g', c'⟩
  · simp [mei_rGSet]
  · simp only [mei_rGSet, Option.isNone_none, Bool.not_true, Bool.false_eq_true, if_false, mei_storeSlab_data_on o cfg k v env hE,
      mei_getPrefixSize, hE.gFirst, hE.gSize, msl_u32_add']
    cases hi : m.inlined <;> simp [mei_prefix, hi]

/-- `MapDataSlab.Set` on ANY data slab: the nested `elements.Set`, then header maintenance (firstKey, size = prefix +
    elements size), then `storeSlab` unless inlined; next to an error nothing changed -/
theorem MapDataSlab_Set_eq (hE : EnvB o cfg k v env) (m : MapDataSlab α X) (c : Ctx) (level : Nat) (b : Unit)
    (hl : level < 2^64) (ha : m.header.slabID.addr = cfg.addr) :
    MapDataSlab_Set env m c b k (u64 level) (u64 (k.dig level)) (.key k) (.val v) =
      match o.set cfg m.elements level k v c with
      | .ok (ks, old, g', c') => some (some (.key ks), old.map .val, none,
          { m with elements := g', header := { m.header with firstKey := u64 (o.firstKey g'), size := u32 (mei_prefix m + o.size g') } },
          if m.inlined then c' else c'.emit (.store m.header.slabID))
      | .error err => some (none, none, some err, m, c) :=
  MapDataSlab_Set_eq_on o cfg k v env hE.toOn m c level b hl ha trivial

/-- `MapDataSlab_Remove_eq` over the relativised environment `EnvBOn` -/
theorem MapDataSlab_Remove_eq_on {Qg Qs Qr : α → Nat → Ctx → Prop} {Qn : Nat → SElem → Prop}
    (hE : EnvBOn o cfg k v env Qg Qs Qr Qn) (m : MapDataSlab α X) (c : Ctx) (level : Nat) (hl : level < 2^64)
    (hQ : Qr m.elements level c) :
    MapDataSlab_Remove env m c k (u64 level) (u64 (k.dig level)) (.key k) =
      match o.remove cfg m.elements level k c with
      | .ok (rk, rv, g', c') => some (some (.key rk), some (.val rv), none,
          { m with elements := g', header := { m.header with firstKey := u64 (o.firstKey g'), size := u32 (mei_prefix m + o.size g') } },
          if m.inlined then c' else c'.emit (.store m.header.slabID))
      | .error err => some (none, none, some err, m, c) := by
  have hg := hE.gRemove m.elements c level hl hQ
  unfold MapDataSlab_Remove
  simp only [hg]
  rcases o.remove cfg m.elements level k c with err | ⟨rk, rv, g', c'⟩
  · simp [mei_rGRemove]
  · simp only [mei_rGRemove, Option.isNone_none, Bool.not_true, Bool.false_eq_true, if_false, mei_storeSlab_data_on o cfg k v env hE,
      mei_getPrefixSize, hE.gFirst, hE.gSize, msl_u32_add']
    cases hi : m.inlined <;> simp [mei_prefix, hi]

theorem MapDataSlab_Remove_eq (hE : EnvB o cfg k v env) (m : MapDataSlab α X) (c : Ctx) (level : Nat) (hl : level < 2^64) :
    MapDataSlab_Remove env m c k (u64 level) (u64 (k.dig level)) (.key k) =
      match o.remove cfg m.elements level k c with
      | .ok (rk, rv, g', c') => some (some (.key rk), some (.val rv), none,
          { m with elements := g', header := { m.header with firstKey := u64 (o.firstKey g'), size := u32 (mei_prefix m + o.size g') } },
          if m.inlined then c' else c'.emit (.store m.header.slabID))
      | .error err => some (none, none, some err, m, c) :=
  MapDataSlab_Remove_eq_on o cfg k v env hE.toOn m c level hl trivial

/-- `MapDataSlab_Set_groupSlab` over the relativised environment `EnvBOn` -/
theorem MapDataSlab_Set_groupSlab_on {Qg Qs Qr : α → Nat → Ctx → Prop} {Qn : Nat → SElem → Prop}
    (hE : EnvBOn o cfg k v env Qg Qs Qr Qn) (s : GroupSlab α) (c : Ctx) (level : Nat) (b : Unit)
    (hl : level < 2^64) (ha : s.hdr.id.addr = cfg.addr)
    (hQ : Qs s.elems level c) :
    MapDataSlab_Set env (mei_cGroupSlab s : MapDataSlab α X) c b k (u64 level) (u64 (k.dig level)) (.key k) (.val v) =
      match o.set cfg s.elems level k v c with
      | .ok (ks, old, g', c') => some (some (.key ks), old.map .val, none,
          mei_cGroupSlab (MElemF.groupSlabUpdate o s g' c').1, (MElemF.groupSlabUpdate o s g' c').2)
      | .error err => some (none, none, some err, mei_cGroupSlab s, c) := by
  rw [MapDataSlab_Set_eq_on o cfg k v env hE (mei_cGroupSlab s) c level b hl ha hQ]
  show (match o.set cfg s.elems level k v c with | .ok (ks, old, g', c') => _ | .error err => _) = _
  rcases o.set cfg s.elems level k v c with err | ⟨ks, old, g', c'⟩
  · rfl
  · rfl

/-- the slab of an external collision group: `MapDataSlab.Set` = the model's `groupSlabUpdate` after the nested set -/
theorem MapDataSlab_Set_groupSlab (hE : EnvB o cfg k v env) (s : GroupSlab α) (c : Ctx) (level : Nat) (b : Unit)
    (hl : level < 2^64) (ha : s.hdr.id.addr = cfg.addr) :
    MapDataSlab_Set env (mei_cGroupSlab s : MapDataSlab α X) c b k (u64 level) (u64 (k.dig level)) (.key k) (.val v) =
      match o.set cfg s.elems level k v c with
      | .ok (ks, old, g', c') => some (some (.key ks), old.map .val, none,
          mei_cGroupSlab (MElemF.groupSlabUpdate o s g' c').1, (MElemF.groupSlabUpdate o s g' c').2)
      | .error err => some (none, none, some err, mei_cGroupSlab s, c) :=
  MapDataSlab_Set_groupSlab_on o cfg k v env hE.toOn s c level b hl ha trivial

/-- `MapDataSlab_Remove_groupSlab` over the relativised environment `EnvBOn` -/
theorem MapDataSlab_Remove_groupSlab_on {Qg Qs Qr : α → Nat → Ctx → Prop} {Qn : Nat → SElem → Prop}
    (hE : EnvBOn o cfg k v env Qg Qs Qr Qn) (s : GroupSlab α) (c : Ctx) (level : Nat) (hl : level < 2^64)
    (hQ : Qr s.elems level c) :
    MapDataSlab_Remove env (mei_cGroupSlab s : MapDataSlab α X) c k (u64 level) (u64 (k.dig level)) (.key k) =
      match o.remove cfg s.elems level k c with
      | .ok (rk, rv, g', c') => some (some (.key rk), some (.val rv), none,
          mei_cGroupSlab (MElemF.groupSlabUpdate o s g' c').1, (MElemF.groupSlabUpdate o s g' c').2)
      | .error err => some (none, none, some err, mei_cGroupSlab s, c) := by
  rw [MapDataSlab_Remove_eq_on o cfg k v env hE (mei_cGroupSlab s) c level hl hQ]
  show (match o.remove cfg s.elems level k c with | .ok (rk, rv, g', c') => _ | .error err => _) = _
  rcases o.remove cfg s.elems level k c with err | ⟨rk, rv, g', c'⟩
  · rfl
  · rfl

/-- the slab of an external collision group: `MapDataSlab.Remove` = the model's `groupSlabUpdate` after the nested remove -/
theorem MapDataSlab_Remove_groupSlab (hE : EnvB o cfg k v env) (s : GroupSlab α) (c : Ctx) (level : Nat) (hl : level < 2^64) :
    MapDataSlab_Remove env (mei_cGroupSlab s : MapDataSlab α X) c k (u64 level) (u64 (k.dig level)) (.key k) =
      match o.remove cfg s.elems level k c with
      | .ok (rk, rv, g', c') => some (some (.key rk), some (.val rv), none,
          mei_cGroupSlab (MElemF.groupSlabUpdate o s g' c').1, (MElemF.groupSlabUpdate o s g' c').2)
      | .error err => some (none, none, some err, mei_cGroupSlab s, c) :=
  MapDataSlab_Remove_groupSlab_on o cfg k v env hE.toOn s c level hl trivial

end

/-- a data slab of the slab tree as the generated record (`x` = its extraData pointer, present iff root) -/
def mei_cData {r : Nat} {X : Type} (s : MDataSlab r) (x : Option X) : MapDataSlab (HkeyElems (MElems r)) X :=
  { next := s.next, header := mei_cHdr s.hdr, elements := s.elems, extraData := x, anySize := false, collisionGroup := false, inlined := s.inlined }

theorem mei_prefix_cData {r : Nat} {X : Type} (s : MDataSlab r) (x : Option X) (hx : x.isSome = s.root) :
    mei_prefix (mei_cData s x) = s.prefixSize := by
  simp only [mei_prefix, mei_cData, MDataSlab.prefixSize, hx]

/-- `MapDataSlab_Set_eq_model` over the relativised environment `EnvBOn` -/
theorem MapDataSlab_Set_eq_model_on {r : Nat} {X : Type} (cfg : MCfg) (k : MKey) (v : Elem)
    (env : Env (HkeyElems (MElems r)) SV SW X MKey Unit Ctx GE)
    {Qg Qs Qr : HkeyElems (MElems r) → Nat → Ctx → Prop} {Qn : Nat → SElem → Prop}
    (hE : EnvBOn (HkeyElems.ops (MElems.ops r)) cfg k v env Qg Qs Qr Qn)
    (s : MDataSlab r) (x : Option X) (hx : x.isSome = s.root) (c : Ctx) (b : Unit) (ha : s.hdr.id.addr = cfg.addr)
    (hQ : Qs s.elems 0 c) :
    MapDataSlab_Set env (mei_cData s x) c b k (u64 0) (u64 (k.dig 0)) (.key k) (.val v) =
      match MDataSlab.set cfg s k v c with
      | .ok (ks, old, s', c') => some (some (.key ks), old.map .val, none, mei_cData s' x, c')
      | .error err => some (none, none, some err, mei_cData s x, c) := by
  rw [MapDataSlab_Set_eq_on _ cfg k v env hE (mei_cData s x) c 0 b (by decide) ha hQ, mei_prefix_cData s x hx]
  unfold MDataSlab.set
  have e : (HkeyElems.ops (MElems.ops r)).set cfg (mei_cData s x).elements 0 k v c =
      HkeyElems.set (MElems.ops r) cfg s.elems 0 k v c := rfl
  rw [e]
  simp only [MDataSlab.eops, bind, Except.bind, pure, Except.pure]
  rcases HkeyElems.set (MElems.ops r) cfg s.elems 0 k v c with err | ⟨ks, old, g', c'⟩
  · rfl
  · rfl

/-- `MapDataSlab.Set` on a data slab of the tree (level 0) = the model's `MDataSlab.set` -/
theorem MapDataSlab_Set_eq_model {r : Nat} {X : Type} (cfg : MCfg) (k : MKey) (v : Elem)
    (env : Env (HkeyElems (MElems r)) SV SW X MKey Unit Ctx GE) (hE : EnvB (HkeyElems.ops (MElems.ops r)) cfg k v env)
    (s : MDataSlab r) (x : Option X) (hx : x.isSome = s.root) (c : Ctx) (b : Unit) (ha : s.hdr.id.addr = cfg.addr) :
    MapDataSlab_Set env (mei_cData s x) c b k (u64 0) (u64 (k.dig 0)) (.key k) (.val v) =
      match MDataSlab.set cfg s k v c with
      | .ok (ks, old, s', c') => some (some (.key ks), old.map .val, none, mei_cData s' x, c')
      | .error err => some (none, none, some err, mei_cData s x, c) :=
  MapDataSlab_Set_eq_model_on cfg k v env hE.toOn s x hx c b ha trivial

/-- `MapDataSlab_Remove_eq_model` over the relativised environment `EnvBOn` -/
theorem MapDataSlab_Remove_eq_model_on {r : Nat} {X : Type} (cfg : MCfg) (k : MKey) (v : Elem)
    (env : Env (HkeyElems (MElems r)) SV SW X MKey Unit Ctx GE)
    {Qg Qs Qr : HkeyElems (MElems r) → Nat → Ctx → Prop} {Qn : Nat → SElem → Prop}
    (hE : EnvBOn (HkeyElems.ops (MElems.ops r)) cfg k v env Qg Qs Qr Qn)
    (s : MDataSlab r) (x : Option X) (hx : x.isSome = s.root) (c : Ctx)
    (hQ : Qr s.elems 0 c) :
    MapDataSlab_Remove env (mei_cData s x) c k (u64 0) (u64 (k.dig 0)) (.key k) =
      match MDataSlab.remove cfg s k c with
      | .ok (rk, rv, s', c') => some (some (.key rk), some (.val rv), none, mei_cData s' x, c')
      | .error err => some (none, none, some err, mei_cData s x, c) := by
  rw [MapDataSlab_Remove_eq_on _ cfg k v env hE (mei_cData s x) c 0 (by decide) hQ, mei_prefix_cData s x hx]
  unfold MDataSlab.remove
  have e : (HkeyElems.ops (MElems.ops r)).remove cfg (mei_cData s x).elements 0 k c =
      HkeyElems.remove (MElems.ops r) cfg s.elems 0 k c := rfl
  rw [e]
  simp only [MDataSlab.eops, bind, Except.bind, pure, Except.pure]
  rcases HkeyElems.remove (MElems.ops r) cfg s.elems 0 k c with err | ⟨rk, rv, g', c'⟩
  · rfl
  · rfl

/-- `MapDataSlab.Remove` on a data slab of the tree (level 0) = the model's `MDataSlab.remove` -/
theorem MapDataSlab_Remove_eq_model {r : Nat} {X : Type} (cfg : MCfg) (k : MKey) (v : Elem)
    (env : Env (HkeyElems (MElems r)) SV SW X MKey Unit Ctx GE) (hE : EnvB (HkeyElems.ops (MElems.ops r)) cfg k v env)
    (s : MDataSlab r) (x : Option X) (hx : x.isSome = s.root) (c : Ctx) :
    MapDataSlab_Remove env (mei_cData s x) c k (u64 0) (u64 (k.dig 0)) (.key k) =
      match MDataSlab.remove cfg s k c with
      | .ok (rk, rv, s', c') => some (some (.key rk), some (.val rv), none, mei_cData s' x, c')
      | .error err => some (none, none, some err, mei_cData s x, c) :=
  MapDataSlab_Remove_eq_model_on cfg k v env hE.toOn s x hx c trivial

theorem mei_u64_succ (n : Nat) : u64 n + (1 : UInt64) = u64 (n + 1) := (UInt64.ofNat_add n 1).symm

section
variable {α X : Type} (o : ElemsOps α) (cfg : MCfg) (k : MKey) (v : Elem) (env : Env α SV SW X MKey Unit Ctx GE)

/-- `externalCollisionGroup_Get_eq_model` over the relativised environment `EnvBOn` -/
theorem externalCollisionGroup_Get_eq_model_on {Qg Qs Qr : α → Nat → Ctx → Prop} {Qn : Nat → SElem → Prop}
    (hE : EnvBOn o cfg k v env Qg Qs Qr Qn) (id : SlabID) (sz : Nat) (s : GroupSlab α) (c : Ctx)
    (level : Nat) (hk : UInt64) (hl : level + 1 < 2^64) (hL : cfg.L < 2^64)
    (hret : env.SlabStorage_Retrieve c id = (.dataSlab (mei_cGroupSlab s), true, none, c))
    (hget : ∀ (d : MapDataSlab α X) c dg lvl hk w, env.MapSlab_Get (.dataSlab d) c dg lvl hk w = env.elements_Get d.elements c dg lvl hk w)
    (hQ : Qg s.elems (level + 1) c) :
    externalCollisionGroup_Get env { slabID := id, size := u32 sz } c k (u64 level) hk (.key k) =
      mei_rGet c (MElemF.get o cfg (.ext id sz s) level k) := by
  unfold externalCollisionGroup_Get
  simp only [mei_getMapSlab_found_on o cfg k v env hE c id _ hret, Option.isNone_none, Bool.not_true, Bool.false_eq_true,
    if_false, mei_u64_succ, hE.levels, u64_dgt hl hL, MElemF.get]
  by_cases h : level + 1 > cfg.L
  · simp only [h, decide_true, if_true, hE.eHashLevel, mei_rGet]
  · simp only [h, decide_false, Bool.false_eq_true, if_false, hE.dig k (level + 1) hl, hget, hE.gGet (mei_cGroupSlab s : MapDataSlab α X).elements c (level + 1) hl hQ]
    rfl

/-- `externalCollisionGroup.Get`; `hret`: the storage returns the group's slab (the model embeds it in the element);
    `hget`: Go's method promotion - `MapDataSlab.Get` IS `elements.Get` of the embedded field -/
theorem externalCollisionGroup_Get_eq_model (hE : EnvB o cfg k v env) (id : SlabID) (sz : Nat) (s : GroupSlab α) (c : Ctx)
    (level : Nat) (hk : UInt64) (hl : level + 1 < 2^64) (hL : cfg.L < 2^64)
    (hret : env.SlabStorage_Retrieve c id = (.dataSlab (mei_cGroupSlab s), true, none, c))
    (hget : ∀ (d : MapDataSlab α X) c dg lvl hk w, env.MapSlab_Get (.dataSlab d) c dg lvl hk w = env.elements_Get d.elements c dg lvl hk w) :
    externalCollisionGroup_Get env { slabID := id, size := u32 sz } c k (u64 level) hk (.key k) =
      mei_rGet c (MElemF.get o cfg (.ext id sz s) level k) :=
  externalCollisionGroup_Get_eq_model_on o cfg k v env hE.toOn id sz s c level hk hl hL hret hget trivial
/-- `externalCollisionGroup_Set_eq_model` over the relativised environment `EnvBOn` -/
theorem externalCollisionGroup_Set_eq_model_on {Qg Qs Qr : α → Nat → Ctx → Prop} {Qn : Nat → SElem → Prop}
    (hE : EnvBOn o cfg k v env Qg Qs Qr Qn) (id : SlabID) (sz : Nat) (s : GroupSlab α) (c : Ctx)
    (level : Nat) (hk : UInt64) (a : Nat) (b : Unit) (hl : level + 1 < 2^64) (hL : cfg.L < 2^64) (ha : s.hdr.id.addr = cfg.addr)
    (hret : env.SlabStorage_Retrieve c id = (.dataSlab (mei_cGroupSlab s), true, none, c))
    (hset : ∀ (d : MapDataSlab α X) c b dg lvl hk w w', env.MapSlab_Set (.dataSlab d) c b dg lvl hk w w' =
      match MapDataSlab_Set env d c b dg lvl hk w w' with
      | some r => (r.1, r.2.1, r.2.2.1, .dataSlab r.2.2.2.1, r.2.2.2.2)
      | none => (none, none, none, .dataSlab d, c))
    (hQ : Qs s.elems (level + 1) c) :
    externalCollisionGroup_Set env { slabID := id, size := u32 sz } c a b k (u64 level) hk (.key k) (.val v) =
      mei_rESet c (MElemF.set o cfg (.ext id sz s) level k v c) := by
  unfold externalCollisionGroup_Set
  simp only [mei_getMapSlab_found_on o cfg k v env hE c id _ hret, Option.isNone_none, Bool.not_true, Bool.false_eq_true,
    if_false, mei_u64_succ, hE.levels, u64_dgt hl hL, MElemF.set]
  by_cases h : level + 1 > cfg.L
  · simp only [h, decide_true, if_true, hE.eHashLevel, mei_rESet, bind, Except.bind, throw, throwThe, MonadExceptOf.throw]
  · simp only [h, decide_false, Bool.false_eq_true, if_false, hE.dig k (level + 1) hl, hset,
      MapDataSlab_Set_groupSlab_on o cfg k v env hE s c (level + 1) b hl ha hQ, bind, Except.bind, pure, Except.pure]
    rcases o.set cfg s.elems (level + 1) k v c with err | ⟨ks, old, g', c'⟩
    · rfl
    · rfl

/-- `externalCollisionGroup.Set`; `hset`: dynamic dispatch of `MapSlab.Set` on a data slab is the translated `MapDataSlab.Set` -/
theorem externalCollisionGroup_Set_eq_model (hE : EnvB o cfg k v env) (id : SlabID) (sz : Nat) (s : GroupSlab α) (c : Ctx)
    (level : Nat) (hk : UInt64) (a : Nat) (b : Unit) (hl : level + 1 < 2^64) (hL : cfg.L < 2^64) (ha : s.hdr.id.addr = cfg.addr)
    (hret : env.SlabStorage_Retrieve c id = (.dataSlab (mei_cGroupSlab s), true, none, c))
    (hset : ∀ (d : MapDataSlab α X) c b dg lvl hk w w', env.MapSlab_Set (.dataSlab d) c b dg lvl hk w w' =
      match MapDataSlab_Set env d c b dg lvl hk w w' with
      | some r => (r.1, r.2.1, r.2.2.1, .dataSlab r.2.2.2.1, r.2.2.2.2)
      | none => (none, none, none, .dataSlab d, c)) :
    externalCollisionGroup_Set env { slabID := id, size := u32 sz } c a b k (u64 level) hk (.key k) (.val v) =
      mei_rESet c (MElemF.set o cfg (.ext id sz s) level k v c) :=
  externalCollisionGroup_Set_eq_model_on o cfg k v env hE.toOn id sz s c level hk a b hl hL ha hret hset trivial
/-- `externalCollisionGroup_Remove_eq_model` over the relativised environment `EnvBOn` -/
theorem externalCollisionGroup_Remove_eq_model_on {Qg Qs Qr : α → Nat → Ctx → Prop} {Qn : Nat → SElem → Prop}
    (hE : EnvBOn o cfg k v env Qg Qs Qr Qn) (id : SlabID) (sz : Nat) (s : GroupSlab α) (c : Ctx)
    (level : Nat) (hk : UInt64) (hl : level + 1 < 2^64) (hL : cfg.L < 2^64)
    (hcnt : ∀ rk rv g' c', o.remove cfg s.elems (level + 1) k c = .ok (rk, rv, g', c') → o.count g' < 2^32)
    (hret : env.SlabStorage_Retrieve c id = (.dataSlab (mei_cGroupSlab s), true, none, c))
    (hQ : Qr s.elems (level + 1) c) :
    externalCollisionGroup_Remove env { slabID := id, size := u32 sz } c k (u64 level) hk (.key k) =
      some (mei_rERemove c (MElemF.remove o cfg (.ext id sz s) level k c)) := by
  unfold externalCollisionGroup_Remove
  simp only [hret, Option.isNone_none, Bool.not_true, Bool.false_eq_true,
    if_false, mei_u64_succ, hE.levels, u64_dgt hl hL, MElemF.remove]
  by_cases h : level + 1 > cfg.L
  · simp only [h, decide_true, if_true, hE.eHashLevel, mei_rERemove, bind, Except.bind, throw, throwThe, MonadExceptOf.throw]
  · simp only [h, decide_false, Bool.false_eq_true, if_false, hE.dig k (level + 1) hl,
      MapDataSlab_Remove_groupSlab_on o cfg k v env hE s c (level + 1) hl hQ, bind, Except.bind, pure, Except.pure]
    rcases hrm : o.remove cfg s.elems (level + 1) k c with err | ⟨rk, rv, g', c'⟩
    · rfl
    · have h1 : (1 : UInt32) = u32 1 := rfl
      simp only [Option.isNone_none, Bool.not_true, Bool.false_eq_true, if_false, mei_cGroupSlab, MElemF.groupSlabUpdate,
        hE.gCount, h1, u32_inj (hcnt rk rv g' c' hrm) (by decide : 1 < 2^32), hE.remove]
      by_cases hc : o.count g' = 1
      · obtain ⟨el, hel, hs⟩ := (hE.gSole g').1 hc
        simp only [hc, decide_true, if_true, hel, hs, Option.isNone_none, Bool.not_true, Bool.false_eq_true, if_false]
        cases el <;> rfl
      · simp only [hc, decide_false, Bool.false_eq_true, if_false, (hE.gSole g').2 hc]
        rfl

/-- `externalCollisionGroup.Remove` (fully translated: Retrieve, type test, `MapDataSlab.Remove`, collapse to the sole single
    element with removal of the external slab).  `hcnt` (the count of the group AFTER the removal fits `uint32`) is asked of
    the result of the nested remove only: `∀ g', o.count g' < 2^32` would be unsatisfiable for the model's list-based
    `SingleElems.ops` / `HkeyElems.ops` (lists of any length exist), i.e. the theorem would be vacuous for them. -/
theorem externalCollisionGroup_Remove_eq_model (hE : EnvB o cfg k v env) (id : SlabID) (sz : Nat) (s : GroupSlab α) (c : Ctx)
    (level : Nat) (hk : UInt64) (hl : level + 1 < 2^64) (hL : cfg.L < 2^64)
    (hcnt : ∀ rk rv g' c', o.remove cfg s.elems (level + 1) k c = .ok (rk, rv, g', c') → o.count g' < 2^32)
    (hret : env.SlabStorage_Retrieve c id = (.dataSlab (mei_cGroupSlab s), true, none, c)) :
    externalCollisionGroup_Remove env { slabID := id, size := u32 sz } c k (u64 level) hk (.key k) =
      some (mei_rERemove c (MElemF.remove o cfg (.ext id sz s) level k c)) :=
  externalCollisionGroup_Remove_eq_model_on o cfg k v env hE.toOn id sz s c level hk hl hL hcnt hret trivial
end

/-! ## non-vacuity: a concrete environment satisfying `EnvB`, `hret`, `hget`, `hset`, and the theorems at work on it -/

/-- an environment built from the model's operations `o` (`MapSlab.Set` still a dummy) -/
def mei_env0 {α X : Type} (o : ElemsOps α) (cfg : MCfg) (k : MKey) (v : Elem)
    (elemAt : α → Int → element α SV × Option GE) (newS : UInt64 → singleElement SV → α)
    (newH : UInt64 → UInt64 → element α SV → α) (retr : Ctx → SlabID → MapSlab α X × Bool × Option GE × Ctx) :
    Env α SV SW X MKey Unit Ctx GE where
  DigesterBuilder_Digest := fun _ w => match w with | .key k' => (k', none) | .val _ => (k, none)
  Digester_Digest := fun d lvl => (u64 (d.dig lvl.toNat), none)
  Digester_Levels := fun _ => u64 cfg.L
  MapSlab_Get := fun sl c d lvl _ _ => match sl with
    | .dataSlab m => mei_rGet c (o.get cfg m.elements lvl.toNat d)
    | _ => (none, none, some .goPanic, c)
  MapSlab_Set := fun sl c _ _ _ _ _ _ => (none, none, some .goPanic, sl, c)
  MapSlab_getElementAndNextKey := fun _ c _ _ _ _ => (none, none, none, some .goPanic, c)
  NewHashLevelErrorf := some .hashLevel
  NewKeyNotFoundError := some .keyNotFound
  NewSlabDataErrorf := some .goPanic
  NewSlabNotFoundErrorf := some .slabNotFound
  SlabIDStorable_ByteSize := u32 slabIDStorableSize
  SlabStorage_GenerateSlabID := fun c a => ((c.alloc a).1, none, (c.alloc a).2)
  SlabStorage_Remove := fun c id => (none, c.emit (.remove id))
  SlabStorage_Retrieve := retr
  SlabStorage_Store := fun c id _ => (none, c.emit (.store id))
  Storable_ByteSize := fun sv => match sv with | .key k' => u32 k'.size | .val v' => u32 v'.size
  Storable_StoredValue := fun sv c => match sv with | .key k' => (.key k', none, c) | .val v' => (.val v', none, c)
  ValueComparator := fun c _ ov => match ov with | some (.key k') => (k'.same k, none, c) | _ => (false, none, c)
  Value_Storable := fun _ c a lim => (some (.val (toStorableLim lim.toNat a v c).1), none, (toStorableLim lim.toNat a v c).2)
  elements_Count := fun g => u32 (o.count g)
  elements_Element := elemAt
  elements_Get := fun g c d lvl _ _ => mei_rGet c (o.get cfg g lvl.toNat d)
  elements_Remove := fun g c d lvl _ _ => mei_rGRemove g c (o.remove cfg g lvl.toNat d c)
  elements_Set := fun g c _ _ d lvl _ _ _ => mei_rGSet g c (o.set cfg g lvl.toNat d v c)
  elements_Size := fun g => u32 (o.size g)
  elements_firstKey := fun g => u64 (o.firstKey g)
  elements_getElementAndNextKey := fun _ c _ _ _ _ => (none, none, none, some .goPanic, c)
  maxInlineMapElementSize := u32 (maxInlineMapElem cfg.T)
  maxInlineMapValueSize := fun x => u32 (maxInlineMapValue cfg.T x.toNat)
  newHkeyElementsWithElement := newH
  newSingleElementsWithElement := newS
  wrapErrorfAsExternalErrorIfNeeded := fun e => e

/-- the same with `MapSlab.Set` on a data slab dispatching to the translated `MapDataSlab.Set` -/
def mei_env {α X : Type} (o : ElemsOps α) (cfg : MCfg) (k : MKey) (v : Elem)
    (elemAt : α → Int → element α SV × Option GE) (newS : UInt64 → singleElement SV → α)
    (newH : UInt64 → UInt64 → element α SV → α) (retr : Ctx → SlabID → MapSlab α X × Bool × Option GE × Ctx) :
    Env α SV SW X MKey Unit Ctx GE :=
  { mei_env0 o cfg k v elemAt newS newH retr with
    MapSlab_Set := fun sl c b d lvl hk w w' => match sl with
      | .dataSlab m =>
        (match MapDataSlab_Set (mei_env0 o cfg k v elemAt newS newH retr) m c b d lvl hk w w' with
         | some r => (r.1, r.2.1, r.2.2.1, .dataSlab r.2.2.2.1, r.2.2.2.2)
         | none => (none, none, none, .dataSlab m, c))
      | _ => (none, none, some .goPanic, sl, c) }

section
variable {α X : Type} (o : ElemsOps α) (cfg : MCfg) (k : MKey) (v : Elem)
    (elemAt : α → Int → element α SV × Option GE) (newS : UInt64 → singleElement SV → α)
    (newH : UInt64 → UInt64 → element α SV → α) (retr : Ctx → SlabID → MapSlab α X × Bool × Option GE × Ctx)

theorem mei_env_ok
    (hSole : ∀ g, (o.count g = 1 → ∃ el, elemAt g 0 = (mei_cEl el, none) ∧
                  o.soleSingle g = (match el with | .single x => some x | _ => none)) ∧
               (o.count g ≠ 1 → o.soleSingle g = none))
    (hNew : ∀ lvl x g, lvl < 2^64 → x.size < 2^32 → o.newWith cfg lvl x = .ok g →
      (if lvl = cfg.L then newS (u64 lvl) (mei_cE x) = g else newH (u64 lvl) (u64 (x.key.dig lvl)) (.single (mei_cE x)) = g)) :
    EnvB o cfg k v (mei_env o cfg k v elemAt newS newH retr) where
  levels := fun _ => rfl
  dig := fun d lvl h => by simp only [mei_env, mei_env0, u64_toNat h]
  builder := fun _ _ => rfl
  stored := fun _ _ => rfl
  cmp := fun _ _ => rfl
  keySize := fun _ => rfl
  valSize := fun _ => rfl
  maxInline := fun n h => by simp only [mei_env, mei_env0, u32_toNat h]
  storable := fun _ _ => rfl
  maxElem := rfl
  sidSize := rfl
  gSize := fun _ => rfl
  gCount := fun _ => rfl
  gFirst := fun _ => rfl
  gGet := fun g c lvl h => by simp only [mei_env, mei_env0, u64_toNat h]
  gSet := fun g c lvl b h => by simp only [mei_env, mei_env0, u64_toNat h]
  gRemove := fun g c lvl h => by simp only [mei_env, mei_env0, u64_toNat h]
  gSole := hSole
  newWith := hNew
  gen := fun _ _ => rfl
  store := fun _ _ _ => rfl
  remove := fun _ _ => rfl
  wrapNone := rfl
  eHashLevel := rfl
  eKeyNotFound := rfl
  eSlabNotFound := rfl

/-- `hget` of `externalCollisionGroup_Get_eq_model` -/
theorem mei_env_hget (d : MapDataSlab α X) (c : Ctx) (dg : MKey) (lvl hk : UInt64) (w : SW) :
    (mei_env o cfg k v elemAt newS newH retr).MapSlab_Get (.dataSlab d) c dg lvl hk w =
      (mei_env o cfg k v elemAt newS newH retr).elements_Get d.elements c dg lvl hk w := rfl

/-- `hset` of `externalCollisionGroup_Set_eq_model` -/
theorem mei_env_hset (d : MapDataSlab α X) (c : Ctx) (b : Unit) (dg : MKey) (lvl hk : UInt64) (w w' : SW) :
    (mei_env o cfg k v elemAt newS newH retr).MapSlab_Set (.dataSlab d) c b dg lvl hk w w' =
      match MapDataSlab_Set (mei_env o cfg k v elemAt newS newH retr) d c b dg lvl hk w w' with
      | some r => (r.1, r.2.1, r.2.2.1, .dataSlab r.2.2.2.1, r.2.2.2.2)
      | none => (none, none, none, .dataSlab d, c) := rfl
end

/-! ### instance 1: the nested `elements` are `singleElements` (the collision groups of a one-level digester) -/

def mei_elemAtS (g : SingleElems) (i : Int) : element SingleElems SV × Option GE :=
  match g.elems[i.toNat]? with
  | some x => (.single (mei_cE x), none)
  | none => (.nil, some .goPanic)

def mei_newS (lvl : UInt64) (e : singleElement SV) : SingleElems :=
  match e.key, e.value with
  | some (.key k'), some (.val v') =>
    { level := lvl.toNat, size := Gen.singleElementsPrefixSize + e.size.toNat, elems := [{ key := k', val := v', size := e.size.toNat }] }
  | _, _ => { level := 0, size := 0, elems := [] }

def mei_envS {X : Type} (cfg : MCfg) (k : MKey) (v : Elem) (retr : Ctx → SlabID → MapSlab SingleElems X × Bool × Option GE × Ctx) :
    Env SingleElems SV SW X MKey Unit Ctx GE :=
  mei_env SingleElems.ops cfg k v mei_elemAtS mei_newS (fun _ _ _ => { level := 0, size := 0, elems := [] }) retr

theorem mei_envS_ok {X : Type} (cfg : MCfg) (k : MKey) (v : Elem) (retr : Ctx → SlabID → MapSlab SingleElems X × Bool × Option GE × Ctx) :
    EnvB SingleElems.ops cfg k v (mei_envS cfg k v retr) := by
  apply mei_env_ok
  · intro g
    rcases g with ⟨elems, sz, lv⟩
    constructor
    · intro h
      match elems, h with
      | [x], _ => exact ⟨.single x, rfl, rfl⟩
    · intro h
      match elems, h with
      | [], _ => rfl
      | _ :: _ :: _, _ => rfl
      | [x], h => exact absurd rfl h
  · intro lvl x g hl hx hg
    simp only [SingleElems.ops] at hg
    by_cases h : lvl = cfg.L
    · simp only [h, ne_eq, not_true_eq_false, if_false, Except.ok.injEq] at hg
      simp only [h, if_true, mei_newS, mei_cE, u64_toNat (h ▸ hl), u32_toNat hx, ← hg]
    · simp only [ne_eq, h, not_false_eq_true, if_true, reduceCtorEq] at hg

namespace MeiEx
def cfg : MCfg := { T := 1024, L := 1, climit := 255, addr := 1 }
def k1 : MKey := { size := 3, pay := 7, digs := [5, 9] }
def k2 : MKey := { size := 3, pay := 8, digs := [5, 9] }
def k3 : MKey := { size := 3, pay := 9, digs := [5, 9] }
def v1 : Elem := { size := 4, pay := .val 11 }
def v2 : Elem := { size := 4, pay := .val 12 }
def v3 : Elem := { size := 5, pay := .val 13 }
def x1 : SElem := { key := k1, val := v1, size := 8 }
def x2 : SElem := { key := k2, val := v2, size := 8 }
def gid : SlabID := ⟨1, 2⟩
/-- the slab of an external collision group with two entries -/
def gs : GroupSlab SingleElems :=
  { hdr := { id := gid, size := 30, firstKey := 0 }, elems := { level := 1, size := 20, elems := [x1, x2] } }
def c0 : Ctx := { ctr := 5, eff := [] }
def retr : Ctx → SlabID → MapSlab SingleElems Unit × Bool × Option GE × Ctx :=
  fun c _ => (.dataSlab (mei_cGroupSlab gs), true, none, c)
def ext : externalCollisionGroup := { slabID := gid, size := u32 17 }

/-- `Get` of a key of the external group: found -/
example : externalCollisionGroup_Get (mei_envS cfg k1 v3 retr) ext c0 k1 (u64 0) 5 (.key k1) =
    (some (.key k1), some (.val v1), none, c0) :=
  (externalCollisionGroup_Get_eq_model SingleElems.ops cfg k1 v3 _ (mei_envS_ok cfg k1 v3 retr) gid 17 gs c0 0 5
    (by decide) (by decide) rfl (fun _ _ _ _ _ _ => rfl)).trans rfl

/-- `Get` one level too deep: `HashLevelError` -/
example : externalCollisionGroup_Get (mei_envS cfg k1 v3 retr) ext c0 k1 (u64 1) 5 (.key k1) =
    (none, none, some .hashLevel, c0) :=
  (externalCollisionGroup_Get_eq_model SingleElems.ops cfg k1 v3 _ (mei_envS_ok cfg k1 v3 retr) gid 17 gs c0 1 5
    (by decide) (by decide) rfl (fun _ _ _ _ _ _ => rfl)).trans rfl

/-- `Set` of a third key: appended to the group, the group's slab is stored, the element stays the external group -/
example : externalCollisionGroup_Set (mei_envS cfg k3 v3 retr) ext c0 1 () k3 (u64 0) 5 (.key k3) (.val v3) =
    (.externalGroup ext, some (.key k3), none, none, { ctr := 5, eff := [.store gid] }) :=
  (externalCollisionGroup_Set_eq_model SingleElems.ops cfg k3 v3 _ (mei_envS_ok cfg k3 v3 retr) gid 17 gs c0 0 5 1 ()
    (by decide) (by decide) rfl rfl (fun _ _ _ _ _ _ _ _ => rfl)).trans rfl

/-- `Set` of a resident key: the old value comes back -/
example : externalCollisionGroup_Set (mei_envS cfg k1 v3 retr) ext c0 1 () k1 (u64 0) 5 (.key k1) (.val v3) =
    (.externalGroup ext, some (.key k1), some (.val v1), none, { ctr := 5, eff := [.store gid] }) :=
  (externalCollisionGroup_Set_eq_model SingleElems.ops cfg k1 v3 _ (mei_envS_ok cfg k1 v3 retr) gid 17 gs c0 0 5 1 ()
    (by decide) (by decide) rfl rfl (fun _ _ _ _ _ _ _ _ => rfl)).trans rfl

/-- `Remove` of one of two keys: the group collapses to the remaining single element and its slab is removed -/
example : externalCollisionGroup_Remove (mei_envS cfg k1 v3 retr) ext c0 k1 (u64 0) 5 (.key k1) =
    some (some (.key k1), some (.val v1), .single (mei_cE x2), none, { ctr := 5, eff := [.store gid, .remove gid] }) :=
  (externalCollisionGroup_Remove_eq_model SingleElems.ops cfg k1 v3 _ (mei_envS_ok cfg k1 v3 retr) gid 17 gs c0 0 5
    (by decide) (by decide) (fun _ _ _ _ h => by cases h; decide) rfl).trans rfl

/-- `Remove` of an absent key: `KeyNotFoundError`, nothing changed -/
example : externalCollisionGroup_Remove (mei_envS cfg k3 v3 retr) ext c0 k3 (u64 0) 5 (.key k3) =
    some (none, none, .nil, some .keyNotFound, c0) :=
  (externalCollisionGroup_Remove_eq_model SingleElems.ops cfg k3 v3 _ (mei_envS_ok cfg k3 v3 retr) gid 17 gs c0 0 5
    (by decide) (by decide) (fun _ _ _ _ h => nomatch h) rfl).trans rfl
end MeiEx

/-! ### instance 2: the nested `elements` are `hkeyElements` (the elements of a data slab of the tree) -/

def mei_elemAtH {α : Type} (g : HkeyElems α) (i : Int) : element (HkeyElems α) SV × Option GE :=
  match g.elems[i.toNat]? with
  | some (.single x) => (.single (mei_cE x), none)
  | some _ => (.externalGroup { slabID := SlabID.undef, size := u32 0 }, none)
  | none => (.nil, some .goPanic)

def mei_newH {α : Type} (lvl : UInt64) (_ : UInt64) (el : element (HkeyElems α) SV) : HkeyElems α :=
  match el with
  | .single e =>
    (match e.key, e.value with
     | some (.key k'), some (.val v') =>
       { level := lvl.toNat, hkeys := [k'.dig lvl.toNat], elems := [.single { key := k', val := v', size := e.size.toNat }],
         size := Gen.hkeyElementsPrefixSize + Gen.digestSize + e.size.toNat }
     | _, _ => { level := 0, hkeys := [], elems := [], size := 0 })
  | _ => { level := 0, hkeys := [], elems := [], size := 0 }

def mei_envH {α X : Type} (o : ElemsOps α) (cfg : MCfg) (k : MKey) (v : Elem)
    (retr : Ctx → SlabID → MapSlab (HkeyElems α) X × Bool × Option GE × Ctx) :
    Env (HkeyElems α) SV SW X MKey Unit Ctx GE :=
  mei_env (HkeyElems.ops o) cfg k v mei_elemAtH (fun _ _ => { level := 0, hkeys := [], elems := [], size := 0 }) mei_newH retr

theorem mei_envH_ok {α X : Type} (o : ElemsOps α) (cfg : MCfg) (k : MKey) (v : Elem)
    (retr : Ctx → SlabID → MapSlab (HkeyElems α) X × Bool × Option GE × Ctx) :
    EnvB (HkeyElems.ops o) cfg k v (mei_envH o cfg k v retr) := by
  apply mei_env_ok
  · intro g
    rcases g with ⟨hkeys, elems, sz, lv⟩
    constructor
    · intro h
      match elems, h with
      | [.single x], _ => exact ⟨.single x, rfl, rfl⟩
      | [.inl _], _ | [.ext _ _ _], _ =>
        exact ⟨.ext SlabID.undef 0 { hdr := ⟨SlabID.undef, 0, 0⟩, elems := { level := 0, hkeys := [], elems := [], size := 0 } }, rfl, rfl⟩
    · intro h
      match elems, h with
      | [], _ => rfl
      | a :: _ :: _, _ => cases a <;> rfl
      | [x], h => exact absurd rfl h
  · intro lvl x g hl hx hg
    simp only [HkeyElems.ops] at hg
    by_cases h : lvl ≥ cfg.L
    · simp only [h, if_true, reduceCtorEq] at hg
    · simp only [h, if_false, Except.ok.injEq] at hg
      have h' : lvl ≠ cfg.L := by omega
      simp only [h', if_false, mei_newH, mei_cE, u64_toNat hl, u32_toNat hx, ← hg]

namespace MeiEx
def k4 : MKey := { size := 3, pay := 10, digs := [3, 1] }
/-- a root data slab with one element (one-level digester: `r = 0`) -/
def ds (inl : Bool) : MDataSlab 0 :=
  { hdr := { id := ⟨1, 1⟩, size := 40, firstKey := 5 }, next := SlabID.undef,
    elems := ({ level := 0, hkeys := [5], elems := [.single x1], size := 20 } : HkeyElems SingleElems), root := true, inlined := inl }
def retrH : Ctx → SlabID → MapSlab (HkeyElems (MElems 0)) Unit × Bool × Option GE × Ctx := fun c _ => (.nil, false, none, c)

/-- `MapDataSlab.Set` of a smaller digest on a root data slab: prepended, header maintained, slab stored -/
example : MapDataSlab_Set (mei_envH (MElems.ops 0) cfg k4 v3 retrH) (mei_cData (ds false) (some ())) c0 () k4 (u64 0) (u64 3) (.key k4) (.val v3) =
    some (some (.key k4), none, none,
      mei_cData ({ hdr := { id := ⟨1, 1⟩, size := 39, firstKey := 3 }, next := SlabID.undef,
                   elems := ({ level := 0, hkeys := [3, 5], elems := [.single { key := k4, val := v3, size := 9 }, .single x1], size := 37 } : HkeyElems SingleElems),
                   root := true, inlined := false } : MDataSlab 0) (some ()),
      { ctr := 5, eff := [.store ⟨1, 1⟩] }) :=
  (MapDataSlab_Set_eq_model cfg k4 v3 _ (mei_envH_ok (MElems.ops 0) cfg k4 v3 retrH) (ds false) (some ()) rfl c0 () rfl).trans rfl

/-- the same on an inlined slab: not stored -/
example : (MapDataSlab_Set (mei_envH (MElems.ops 0) cfg k4 v3 retrH) (mei_cData (ds true) (some ())) c0 () k4 (u64 0) (u64 3) (.key k4) (.val v3)).map (·.2.2.2.2) =
    some c0 :=
  (congrArg _ (MapDataSlab_Set_eq_model cfg k4 v3 _ (mei_envH_ok (MElems.ops 0) cfg k4 v3 retrH) (ds true) (some ()) rfl c0 () rfl)).trans rfl

/-- `MapDataSlab.Remove` of the only key: the slab is empty afterwards and stored -/
example : MapDataSlab_Remove (mei_envH (MElems.ops 0) cfg k1 v3 retrH) (mei_cData (ds false) (some ())) c0 k1 (u64 0) (u64 5) (.key k1) =
    some (some (.key k1), some (.val v1), none,
      mei_cData ({ hdr := { id := ⟨1, 1⟩, size := 6, firstKey := 0 }, next := SlabID.undef,
                   elems := ({ level := 0, hkeys := [], elems := [], size := 4 } : HkeyElems SingleElems),
                   root := true, inlined := false } : MDataSlab 0) (some ()),
      { ctr := 5, eff := [.store ⟨1, 1⟩] }) :=
  (MapDataSlab_Remove_eq_model cfg k1 v3 _ (mei_envH_ok (MElems.ops 0) cfg k1 v3 retrH) (ds false) (some ()) rfl c0).trans rfl

/-- `MapDataSlab.Remove` of an absent key: `KeyNotFoundError`, slab and storage unchanged -/
example : MapDataSlab_Remove (mei_envH (MElems.ops 0) cfg k4 v3 retrH) (mei_cData (ds false) (some ())) c0 k4 (u64 0) (u64 3) (.key k4) =
    some (none, none, some .keyNotFound, mei_cData (ds false) (some ()), c0) :=
  (MapDataSlab_Remove_eq_model cfg k4 v3 _ (mei_envH_ok (MElems.ops 0) cfg k4 v3 retrH) (ds false) (some ()) rfl c0).trans rfl
end MeiEx

end Atree.TransEq
