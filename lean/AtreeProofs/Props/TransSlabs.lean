import AtreeProofs.Trans.Slabs
/-
  Equivalence of the GENERATED translation of atree's array-slab code (`AtreeModel/Gen/TransSlabs.lean`, namespace
  `Atree.Gen.TransSl`, regenerated on every run) with the hand-written model (`AtreeModel/Array/Slab.lean`):
  the slice_utils.go generics and the leaf operations of `ArrayDataSlab`
  (`getPrefixSize`, `Get`, `Set`, `Insert`, `Remove`, `PopIterate`), and what the Go code leaves behind on its error
  exits for ANY environment.  Core Lean only.
-/
namespace Atree.TransEq
open Atree Atree.Gen

/-! ### 1. everything on the white list was translated -/

theorem Sl_all_translated : TransSl.untranslatedFunctions = [] := rfl

/-! ### 2. the generics of slice_utils.go (any environment, any element type) -/

section generics
variable {σ υ ξ ε S Φ : Type} {E : Type} [Inhabited E]

theorem Sl_goSlice_neg_lo {α : Type} (l : List α) (lo hi : Int) (h : lo < 0) : TransSl.goSlice l lo hi = none := by
  have : ¬ (0 ≤ lo) := by omega
  simp [TransSl.goSlice, this]

theorem Sl_goSlice_neg_hi {α : Type} (l : List α) (lo hi : Int) (h : hi < 0) : TransSl.goSlice l lo hi = none := by
  have : ¬ (0 ≤ lo ∧ lo ≤ hi ∧ hi ≤ l.length) := by omega
  simp [TransSl.goSlice, this]

/-- `split(s, n)`: `(s[:n], s[n:])`; panics when `n > len(s)` -/
theorem Sl_split_spec (env : TransSl.Env σ υ ξ ε S Φ) (s : List E) (n : Nat) :
    TransSl.split env s (Int.ofNat n) = if n ≤ s.length then some (s.take n, s.drop n) else none := by
  simp only [TransSl.split, goSlice_ofNat, goDelete_ofNat]
  by_cases h : n ≤ s.length <;> simp [h, List.take_of_length_le]

/-- `split(s, n)` with a negative count panics -/
theorem Sl_split_neg (env : TransSl.Env σ υ ξ ε S Φ) (s : List E) (k : Int) (h : k < 0) :
    TransSl.split env s k = none := by
  simp only [TransSl.split, Sl_goSlice_neg_lo _ _ _ h]

/-- `merge(left, right)`: `left ++ right` and the right slice cleared (`clear(right)`: same length, zero values) -/
theorem Sl_merge_spec (env : TransSl.Env σ υ ξ ε S Φ) (l r : List E) :
    TransSl.merge env l r = (l ++ r, List.replicate r.length default) := rfl

/-- `lendToRight(left, right, n)`: the last `n` elements of `left` go to the front of `right` -/
theorem Sl_lendToRight_spec (env : TransSl.Env σ υ ξ ε S Φ) (l r : List E) (n : Nat) :
    TransSl.lendToRight env l r (Int.ofNat n) =
      if n ≤ l.length then some (l.take (l.length - n), l.drop (l.length - n) ++ r) else none := by
  by_cases h : n ≤ l.length
  · have e : (Int.ofNat l.length) - (Int.ofNat n) = Int.ofNat (l.length - n) := by
      simp only [Int.ofNat_eq_natCast]; omega
    have z : (0 : Int) = Int.ofNat 0 := rfl
    simp only [TransSl.lendToRight, e, goSlice_ofNat, goDelete_ofNat, z, goInsert_ofNat]
    have h1 : l.length - n ≤ l.length := by omega
    simp [h, h1, List.take_of_length_le]
  · have e : (Int.ofNat l.length) - (Int.ofNat n) < 0 := by
      simp only [Int.ofNat_eq_natCast]; omega
    simp only [TransSl.lendToRight, Sl_goSlice_neg_lo _ _ _ e, h, if_false]

/-- `lendToRight` with a negative count panics -/
theorem Sl_lendToRight_neg (env : TransSl.Env σ υ ξ ε S Φ) (l r : List E) (k : Int) (h : k < 0) :
    TransSl.lendToRight env l r k = none := by
  have : ¬ (0 ≤ (Int.ofNat l.length - k) ∧ (Int.ofNat l.length - k) ≤ Int.ofNat l.length ∧
      Int.ofNat l.length ≤ (l.length : Int)) := by
    simp only [Int.ofNat_eq_natCast]; omega
  simp only [TransSl.lendToRight, TransSl.goSlice, this, if_false]

/-- `borrowFromRight(left, right, n)`: the first `n` elements of `right` go to the end of `left` -/
theorem Sl_borrowFromRight_spec (env : TransSl.Env σ υ ξ ε S Φ) (l r : List E) (n : Nat) :
    TransSl.borrowFromRight env l r (Int.ofNat n) =
      if n ≤ r.length then some (l ++ r.take n, r.drop n) else none := by
  have z : (0 : Int) = Int.ofNat 0 := rfl
  simp only [TransSl.borrowFromRight, z, goSlice_ofNat, goInsert_ofNat]
  by_cases h : n ≤ r.length <;> simp [h, List.take_of_length_le]

/-- `borrowFromRight` with a negative count panics -/
theorem Sl_borrowFromRight_neg (env : TransSl.Env σ υ ξ ε S Φ) (l r : List E) (k : Int) (h : k < 0) :
    TransSl.borrowFromRight env l r k = none := by
  simp only [TransSl.borrowFromRight, Sl_goSlice_neg_hi _ _ _ h]

end generics

/-! ### 3. the leaf operations of `ArrayDataSlab` against `Atree.DataSlab` -/

/-- `ArrayDataSlab.Get` -/
theorem Sl_ArrayDataSlab_Get_eq_model (T : Nat) (look) (s : DataSlab) (i : Nat)
    (hi : i < 2^64) (hlen : s.elems.length < 2^63) :
    TransSl.ArrayDataSlab_Get (envA T look) (trData s) (u64 i) =
      some (match s.get i with
        | .ok e => (some e, none)
        | .error e => (none, some e)) := by
  have hidx : (u64 i).toNat = i := u64_toNat hi
  simp only [TransSl.ArrayDataSlab_Get, DataSlab.get, trData_elements, List.length_map, u64_len,
    u64_dge hi (show s.elems.length < 2^64 by omega), hidx, goIdx_map_some, envA_ioob]
  by_cases hge : i ≥ s.elems.length
  · have : s.elems[i]? = none := List.getElem?_eq_none hge
    simp [hge]
  · have hlt : i < s.elems.length := by omega
    simp [hge, List.getElem?_eq_getElem hlt]

/-- `ArrayDataSlab.Insert`.  No range hypotheses on size and count: the `uint32` additions of Go are the model's
    additions modulo 2^32, which is how `trData` reads the model's numbers. -/
theorem Sl_ArrayDataSlab_Insert_eq_model (T : Nat) (look) (s : DataSlab) (i : Nat) (v : Elem) (c : Ctx)
    (hi : i < 2^64) (hlen : s.elems.length < 2^63) (hmax : maxInlineArr T < 2^32) :
    TransSl.ArrayDataSlab_Insert (envA T look) (trData s) c s.hdr.id.addr (u64 i) (some v) =
      match s.insert T i v c with
      | .error e => some (some e, trData s, c)
      | .ok (s', c') => some (none, trData s', c') := by
  have hidx : (u64 i).toNat = i := u64_toNat hi
  simp only [TransSl.ArrayDataSlab_Insert, DataSlab.insert, trData_elements, List.length_map, u64_len,
    u64_dgt hi (show s.elems.length < 2^64 by omega)]
  by_cases hgt : i > s.elems.length
  · simp [hgt]
  · simp only [hgt, decide_false, Bool.false_eq_true, if_false]
    simp only [envA_storable, envA_maxInline, hidx, u32_toNat hmax, toStorableMax_eq, Option.isSome_none,
      Bool.false_eq_true, if_false, goInsert_ofNat, List.length_map, envA_byteSize]
    have hle : i ≤ s.elems.length := by omega
    simp only [hle, if_true]
    generalize hts : toStorable T s.hdr.id.addr v c = ts
    obtain ⟨e, c'⟩ := ts
    simp only
    have e1 : (1 : UInt32) = u32 1 := rfl
    simp only [storeSlab_data, map_some_insertIdx _ _ _ hle, trData_header, trHdr_size, trHdr_count, trHdr_slabID,
      u32_add', e1, trData_inlined, trData_next, trData_extraData, Option.isSome_none,
      Bool.false_eq_true, if_false, DataSlab.storeIfNotInlined]
    cases hin : s.inlined <;> simp [trData, trHdr]

/-- `ArrayDataSlab.Remove` -/
theorem Sl_ArrayDataSlab_Remove_eq_model (T : Nat) (look) (s : DataSlab) (i : Nat) (c : Ctx)
    (hi : i < 2^64) (hlen : s.elems.length < 2^63)
    (hcnt : i < s.elems.length → 1 ≤ s.hdr.count)
    (hsz : ∀ v, s.elems[i]? = some v → v.size ≤ s.hdr.size) :
    TransSl.ArrayDataSlab_Remove (envA T look) (trData s) c (u64 i) =
      match s.remove i c with
      | .error e => some (none, some e, trData s, c)
      | .ok (v, s', c') => some (some v, none, trData s', c') := by
  have hidx : (u64 i).toNat = i := u64_toNat hi
  simp only [TransSl.ArrayDataSlab_Remove, DataSlab.remove, trData_elements, List.length_map, u64_len,
    u64_dge hi (show s.elems.length < 2^64 by omega), hidx, goIdx_map_some, envA_ioob]
  by_cases hge : i ≥ s.elems.length
  · simp [hge]
  · have hlt : i < s.elems.length := by omega
    have h1 : (u64 i + 1).toNat = i + 1 := by
      have e1 : (1 : UInt64) = u64 1 := rfl
      rw [e1, u64_add (by omega), u64_toNat (by omega)]
    have hget : s.elems[i]? = some s.elems[i] := List.getElem?_eq_getElem hlt
    have hs := hsz _ hget
    have hc := hcnt hlt
    have e1 : (1 : UInt32) = u32 1 := rfl
    have hdel : i ≤ i + 1 ∧ i + 1 ≤ s.elems.length := by omega
    simp only [hge, decide_false, Bool.false_eq_true, if_false, hget, Option.map_some, h1, goDelete_ofNat,
      List.length_map, hdel, and_self, if_true, map_some_eraseIdx, envA_byteSize, storeSlab_data, trData_header,
      trHdr_size, trHdr_count, trHdr_slabID, e1, u32_sub' hs, u32_sub' hc, trData_inlined, Option.isSome_none,
      DataSlab.storeIfNotInlined]
    cases hin : s.inlined <;> simp [trData, trHdr]

/-- `getPrefixSize` as a function of `inlined` and of the presence of extra data -/
def Sl_gPrefix (inl root : Bool) : Nat :=
  if inl then inlinedArrayDataSlabPrefixSize else if root then arrayRootDataSlabPrefixSize else arrayDataSlabPrefixSize

theorem Sl_getPrefixSize_eq {σ υ ξ ε S Φ : Type} (env : TransSl.Env σ υ ξ ε S Φ) (a : TransSl.ArrayDataSlab σ ξ) :
    TransSl.ArrayDataSlab_getPrefixSize env a = u32 (Sl_gPrefix a.inlined a.extraData.isSome) := by
  simp only [TransSl.ArrayDataSlab_getPrefixSize, Sl_gPrefix]
  cases a.inlined <;> cases a.extraData.isSome <;> rfl

theorem Sl_gPrefix_eq (s : DataSlab) : Sl_gPrefix s.inlined s.root = s.prefixSize := rfl

/-- `ArrayDataSlab.getPrefixSize` -/
theorem Sl_ArrayDataSlab_getPrefixSize_eq_model (T : Nat) (look) (s : DataSlab) :
    TransSl.ArrayDataSlab_getPrefixSize (envA T look) (trData s) = u32 s.prefixSize := by
  simp only [Sl_getPrefixSize_eq, trData_inlined, trData_extraData, trExtra_isSome, Sl_gPrefix_eq]

/-- the size loop of `ArrayDataSlab.Set`: the `uint32` sum of the element sizes is the `uint32` of the sum -/
theorem Sl_Set_loop1 (T : Nat) (look) (l : List Elem) (z : Nat) :
    TransSl.ArrayDataSlab_Set.loop1 (envA T look) (l.map some) (u32 z) = .done (u32 (z + sumSizes l)) := by
  induction l generalizing z with
  | nil => simp [TransSl.ArrayDataSlab_Set.loop1, sumSizes_nil]
  | cons e t ih =>
    simp only [List.map_cons, TransSl.ArrayDataSlab_Set.loop1, envA_byteSize, u32_add', ih, sumSizes_cons,
      Nat.add_assoc]

/-- `ArrayDataSlab.Set` -/
theorem Sl_ArrayDataSlab_Set_eq_model (T : Nat) (look) (s : DataSlab) (i : Nat) (v : Elem) (c : Ctx)
    (hi : i < 2^64) (hlen : s.elems.length < 2^63) (hmax : maxInlineArr T < 2^32) :
    TransSl.ArrayDataSlab_Set (envA T look) (trData s) c s.hdr.id.addr (u64 i) (some v) =
      match s.set T i v c with
      | .error e => some (none, some e, trData s, c)
      | .ok (old, s', c') => some (some old, none, trData s', c') := by
  have hidx : (u64 i).toNat = i := u64_toNat hi
  simp only [TransSl.ArrayDataSlab_Set, DataSlab.set, trData_elements, List.length_map, u64_len,
    u64_dge hi (show s.elems.length < 2^64 by omega), hidx, goIdx_map_some, envA_ioob]
  by_cases hge : i ≥ s.elems.length
  · simp [hge]
  · have hlt : i < s.elems.length := by omega
    have hget : s.elems[i]? = some s.elems[i] := List.getElem?_eq_getElem hlt
    simp only [hge, decide_false, Bool.false_eq_true, if_false, hget, Option.map_some,
      envA_storable, envA_maxInline, u32_toNat hmax, toStorableMax_eq, Option.isSome_none, goSet_ofNat,
      List.length_map, hlt, if_true, envA_wrap]
    generalize hts : toStorable T s.hdr.id.addr v c = ts
    obtain ⟨e, c'⟩ := ts
    have hmap : (s.elems.map some).set i (some e) = (s.elems.set i e).map some := by
      rw [List.map_set]
    simp only [Sl_getPrefixSize_eq, trData_inlined, trData_extraData, trExtra_isSome, Sl_gPrefix_eq, hmap,
      Sl_Set_loop1, storeSlab_data, trData_header, trHdr_slabID,
      Option.isSome_none, Bool.false_eq_true, if_false, DataSlab.storeIfNotInlined]
    cases hin : s.inlined <;> simp [trData, trHdr]

/-- the loop of `ArrayDataSlab.PopIterate` after `k` steps from index `k - 1`: the callback got the first `k` elements,
    last to first -/
theorem Sl_PopIterate_loop1 (T : Nat) (look) (a : GData) (k : Nat) (hk : k ≤ a.elements.length)
    (acc : List (Option Elem)) :
    TransSl.ArrayDataSlab_PopIterate.loop1 (envA T look) a k (Int.ofNat k - 1) acc =
      .done (acc ++ (a.elements.take k).reverse) := by
  induction k generalizing acc with
  | zero => simp [TransSl.ArrayDataSlab_PopIterate.loop1]
  | succ k ih =>
    have e : Int.ofNat (k + 1) - 1 = Int.ofNat k := by simp only [Int.ofNat_eq_natCast]; omega
    have hlt : k < a.elements.length := by omega
    have hget : a.elements[k]? = some a.elements[k] := List.getElem?_eq_getElem hlt
    simp only [TransSl.ArrayDataSlab_PopIterate.loop1, e, int_dge0, if_true, goIdx_ofNat, hget, envA_call,
      ih (by omega), List.take_add_one, Option.toList_some, List.reverse_append, List.reverse_cons, List.reverse_nil,
      List.nil_append, List.append_assoc]

/-- `ArrayDataSlab.PopIterate` (the callback world is the list of the elements handed over) -/
theorem Sl_ArrayDataSlab_PopIterate_eq_model (T : Nat) (look) (s : DataSlab) (acc : List (Option Elem)) :
    TransSl.ArrayDataSlab_PopIterate (envA T look) (trData s) acc =
      some (none, trData (s.popIterate).2, acc ++ (s.popIterate).1.map some) := by
  have e : Int.ofNat (trData s).elements.length - 1 + 1 = Int.ofNat (trData s).elements.length := by omega
  have e3 : (Int.ofNat (trData s).elements.length).toNat = (trData s).elements.length := rfl
  simp only [TransSl.ArrayDataSlab_PopIterate, e, e3, Sl_PopIterate_loop1 _ _ _ _ (Nat.le_refl _),
    List.take_length, Sl_getPrefixSize_eq]
  simp [DataSlab.popIterate, trData, trHdr, Sl_gPrefix_eq]

/-! ### 4. the error exits, with the state the Go code leaves behind (ANY environment, any slab) -/

section errorExits
variable {σ υ ξ ε S Φ : Type}

theorem Sl_u64_dgt_len (index : UInt64) (n : Nat) (hn : n < 2^64) :
    decide (index > UInt64.ofInt (Int.ofNat n)) = decide (index.toNat > n) := by
  rw [u64_len]; simp only [gt_iff_lt, UInt64.lt_iff_toNat_lt, u64_toNat hn]

theorem Sl_u64_dge_len (index : UInt64) (n : Nat) (hn : n < 2^64) :
    decide (index ≥ UInt64.ofInt (Int.ofNat n)) = decide (index.toNat ≥ n) := by
  rw [u64_len]; simp only [ge_iff_le, UInt64.le_iff_toNat_le, u64_toNat hn]

/-- `ArrayDataSlab.Insert` when `storeSlab` fails: the error comes back wrapped, and the slab ALREADY holds the new
    element, count and size (Go mutates the slab before it stores it). -/
theorem Sl_ArrayDataSlab_Insert_storeError (env : TransSl.Env σ υ ξ ε S Φ) (a : TransSl.ArrayDataSlab σ ξ)
    (storage storage' storage'' : S) (address : Nat) (index : UInt64) (p : υ) (st : σ) (e : ε)
    (hin : a.inlined = false) (hlen : a.elements.length < 2^64) (hidx : index.toNat ≤ a.elements.length)
    (hst : env.Value_Storable p storage address env.maxInlineArrayElementSize = (some st, none, storage'))
    (hstore : env.SlabStorage_Store storage' a.header.slabID
        (some (.dataSlab
          { next := a.next,
            header := { slabID := a.header.slabID, size := a.header.size + env.Storable_ByteSize st,
                        count := a.header.count + 1 },
            elements := a.elements.take index.toNat ++ [some st] ++ a.elements.drop index.toNat,
            extraData := a.extraData, inlined := a.inlined })) = (some e, storage'')) :
    TransSl.ArrayDataSlab_Insert env a storage address index (some p) =
      some (env.wrapErrorfAsExternalErrorIfNeeded (some e),
        { next := a.next,
          header := { slabID := a.header.slabID, size := a.header.size + env.Storable_ByteSize st,
                      count := a.header.count + 1 },
          elements := a.elements.take index.toNat ++ [some st] ++ a.elements.drop index.toNat,
          extraData := a.extraData, inlined := a.inlined },
        storage'') := by
  have hgt : ¬ index.toNat > a.elements.length := by omega
  simp only [hin] at hstore
  simp only [TransSl.ArrayDataSlab_Insert, Sl_u64_dgt_len _ _ hlen, hgt, decide_false, Bool.false_eq_true, if_false,
    hst, Option.isSome_none, goInsert_ofNat, hidx, if_true, hin, Bool.not_false, TransSl.storeSlab,
    TransSl.ArraySlab_SlabID, TransSl.ArrayDataSlab_SlabID, hstore, Option.isSome_some]
  cases hw : env.wrapErrorfAsExternalErrorIfNeeded (some e) <;> simp

/-- `ArrayDataSlab.Remove` when `storeSlab` fails (and wrapping a non-nil error gives a non-nil error): no value, the
    wrapped error, and the slab ALREADY without the element, count and size updated. -/
theorem Sl_ArrayDataSlab_Remove_storeError (env : TransSl.Env σ υ ξ ε S Φ) (a : TransSl.ArrayDataSlab σ ξ)
    (storage storage' : S) (index : UInt64) (st : σ) (e : ε)
    (hin : a.inlined = false) (hlen : a.elements.length < 2^64)
    (hget : a.elements[index.toNat]? = some (some st))
    (hw : (env.wrapErrorfAsExternalErrorIfNeeded (some e)).isSome = true)
    (hstore : env.SlabStorage_Store storage a.header.slabID
        (some (.dataSlab
          { next := a.next,
            header := { slabID := a.header.slabID, size := a.header.size - env.Storable_ByteSize st,
                        count := a.header.count - 1 },
            elements := a.elements.take index.toNat ++ a.elements.drop (index.toNat + 1),
            extraData := a.extraData, inlined := a.inlined })) = (some e, storage')) :
    TransSl.ArrayDataSlab_Remove env a storage index =
      some (none, env.wrapErrorfAsExternalErrorIfNeeded (some e),
        { next := a.next,
          header := { slabID := a.header.slabID, size := a.header.size - env.Storable_ByteSize st,
                      count := a.header.count - 1 },
          elements := a.elements.take index.toNat ++ a.elements.drop (index.toNat + 1),
          extraData := a.extraData, inlined := a.inlined },
        storage') := by
  have hlt : index.toNat < a.elements.length := by
    rcases Nat.lt_or_ge index.toNat a.elements.length with h | h
    · exact h
    · rw [List.getElem?_eq_none h] at hget; cases hget
  have hge : ¬ index.toNat ≥ a.elements.length := by omega
  have h1 : (index + 1).toNat = index.toNat + 1 := by
    rw [UInt64.toNat_add]; simp only [UInt64.toNat_one]; omega
  have hdel : index.toNat ≤ index.toNat + 1 ∧ index.toNat + 1 ≤ a.elements.length := by omega
  simp only [hin] at hstore
  simp only [TransSl.ArrayDataSlab_Remove, Sl_u64_dge_len _ _ hlen, hge, decide_false, Bool.false_eq_true, if_false,
    goIdx_ofNat, hget, h1, goDelete_ofNat, hdel, and_self, if_true, hin, Bool.not_false, TransSl.storeSlab,
    TransSl.ArraySlab_SlabID, TransSl.ArrayDataSlab_SlabID, hstore, Option.isSome_some, hw]

/-- `ArrayDataSlab.Set` when `Value.Storable` fails: no old element, the wrapped error, the slab UNCHANGED, the storage
    as `Value.Storable` left it. -/
theorem Sl_ArrayDataSlab_Set_storableError (env : TransSl.Env σ υ ξ ε S Φ) (a : TransSl.ArrayDataSlab σ ξ)
    (storage storage' : S) (address : Nat) (index : UInt64) (p : υ) (x : Option σ) (e : ε)
    (hlen : a.elements.length < 2^64) (hidx : index.toNat < a.elements.length)
    (hst : env.Value_Storable p storage address env.maxInlineArrayElementSize = (x, some e, storage')) :
    TransSl.ArrayDataSlab_Set env a storage address index (some p) =
      some (none, env.wrapErrorfAsExternalErrorIfNeeded (some e), a, storage') := by
  have hge : ¬ index.toNat ≥ a.elements.length := by omega
  simp only [TransSl.ArrayDataSlab_Set, Sl_u64_dge_len _ _ hlen, hge, decide_false, Bool.false_eq_true, if_false,
    goIdx_ofNat, List.getElem?_eq_getElem hidx, hst, Option.isSome_some, if_true]

end errorExits

/-! ### 5. non-vacuity: the generated functions evaluated on a concrete slab -/

section examples

/-- a non-root, not inlined leaf with three elements of 10 bytes (threshold 1024) -/
private def exS : DataSlab :=
  { hdr := ⟨⟨1, 2⟩, 21 + 30, 3⟩, next := ⟨0, 0⟩, elems := [⟨10, .val 1⟩, ⟨10, .val 2⟩, ⟨10, .val 3⟩],
    root := false, inlined := false }
private def exC : Ctx := { ctr := 7, eff := [] }
private abbrev exEnv : SEnv := envA 1024 (fun _ => none)

example : TransSl.split exEnv [1, 2, 3, 4, 5] 2 = some ([1, 2], [3, 4, 5]) := by decide
example : TransSl.split exEnv [1, 2, 3] 4 = none := by decide
example : TransSl.split exEnv [1, 2, 3] (-1) = none := by decide
example : TransSl.merge exEnv [1, 2] [3, 4, 5] = ([1, 2, 3, 4, 5], [0, 0, 0]) := by decide
example : TransSl.lendToRight exEnv [1, 2, 3] [4, 5] 2 = some ([1], [2, 3, 4, 5]) := by decide
example : TransSl.lendToRight exEnv [1, 2, 3] [4, 5] 4 = none := by decide
example : TransSl.borrowFromRight exEnv [1, 2] [3, 4, 5] 2 = some ([1, 2, 3, 4], [5]) := by decide
example : TransSl.borrowFromRight exEnv [1, 2] [3, 4, 5] 4 = none := by decide

example : TransSl.ArrayDataSlab_getPrefixSize exEnv (trData exS) = 21 := by decide

example : TransSl.ArrayDataSlab_Get exEnv (trData exS) 1 = some (some ⟨10, .val 2⟩, none) := by decide
example : TransSl.ArrayDataSlab_Get exEnv (trData exS) 3 = some (none, some .indexOutOfBounds) := by decide

example : TransSl.ArrayDataSlab_Insert exEnv (trData exS) exC 1 1 (some ⟨10, .val 9⟩) =
    some (none,
      trData { exS with hdr := ⟨⟨1, 2⟩, 61, 4⟩, elems := [⟨10, .val 1⟩, ⟨10, .val 9⟩, ⟨10, .val 2⟩, ⟨10, .val 3⟩] },
      { ctr := 7, eff := [.store ⟨1, 2⟩] }) := by rfl
example : TransSl.ArrayDataSlab_Insert exEnv (trData exS) exC 1 4 (some ⟨10, .val 9⟩) =
    some (some .indexOutOfBounds, trData exS, exC) := by rfl

example : TransSl.ArrayDataSlab_Set exEnv (trData exS) exC 1 1 (some ⟨12, .val 9⟩) =
    some (some ⟨10, .val 2⟩, none,
      trData { exS with hdr := ⟨⟨1, 2⟩, 53, 3⟩, elems := [⟨10, .val 1⟩, ⟨12, .val 9⟩, ⟨10, .val 3⟩] },
      { ctr := 7, eff := [.store ⟨1, 2⟩] }) := by rfl
example : TransSl.ArrayDataSlab_Set exEnv (trData exS) exC 1 3 (some ⟨12, .val 9⟩) =
    some (none, some .indexOutOfBounds, trData exS, exC) := by rfl

example : TransSl.ArrayDataSlab_Remove exEnv (trData exS) exC 1 =
    some (some ⟨10, .val 2⟩, none,
      trData { exS with hdr := ⟨⟨1, 2⟩, 41, 2⟩, elems := [⟨10, .val 1⟩, ⟨10, .val 3⟩] },
      { ctr := 7, eff := [.store ⟨1, 2⟩] }) := by rfl
example : TransSl.ArrayDataSlab_Remove exEnv (trData exS) exC 3 =
    some (none, some .indexOutOfBounds, trData exS, exC) := by rfl

example : TransSl.ArrayDataSlab_PopIterate exEnv (trData exS) [] =
    some (none, trData { exS with hdr := ⟨⟨1, 2⟩, 21, 0⟩, elems := [] },
      [some ⟨10, .val 3⟩, some ⟨10, .val 2⟩, some ⟨10, .val 1⟩]) := by rfl

/-- a value above the inline limit is moved to a slab of its own (`GenerateSlabID`, `Store`) and referenced -/
example : TransSl.ArrayDataSlab_Insert exEnv (trData exS) exC 1 3 (some ⟨2000, .val 9⟩) =
    some (none,
      trData { exS with hdr := ⟨⟨1, 2⟩, 51 + slabIDStorableSize, 4⟩,
                        elems := exS.elems ++ [⟨slabIDStorableSize, .ref ⟨1, 8⟩⟩] },
      { ctr := 8, eff := [.alloc 1 ⟨1, 8⟩, .store ⟨1, 8⟩, .store ⟨1, 2⟩],
        created := [(⟨1, 8⟩, ⟨2000, .val 9⟩)] }) := by rfl

/-! the hypotheses of the theorems hold for the example slab -/
example := Sl_ArrayDataSlab_Get_eq_model 1024 (fun _ => none) exS 1 (by decide) (by decide)
example := Sl_ArrayDataSlab_Insert_eq_model 1024 (fun _ => none) exS 1 ⟨10, .val 9⟩ exC (by decide) (by decide)
  (by decide)
example := Sl_ArrayDataSlab_Set_eq_model 1024 (fun _ => none) exS 1 ⟨12, .val 9⟩ exC (by decide) (by decide)
  (by decide)
example := Sl_ArrayDataSlab_Remove_eq_model 1024 (fun _ => none) exS 1 exC (by decide) (by decide) (by decide)
  (by intro v h; cases h; decide)

/-- where Go and the model part (excluded by `hcnt`): on a slab whose header count is 0 although it has an element,
    Go's `a.header.count--` wraps around to 2^32 - 1, the model's truncated subtraction stays at 0 -/
private def exBad : DataSlab := { exS with hdr := ⟨⟨1, 2⟩, 51, 0⟩ }
example : (TransSl.ArrayDataSlab_Remove exEnv (trData exBad) exC 1).map (·.2.2.1.header.count) = some 4294967295 := by
  decide
example : (match exBad.remove 1 exC with
    | .ok (_, s', _) => some (trData s').header.count
    | .error _ => none) = some 0 := by decide

/-- an environment whose `SlabStorage.Store` fails (after logging the call) -/
private def exEnvFail : SEnv :=
  { exEnv with SlabStorage_Store := fun c id _ => (some .slabNotFound, c.emit (.store id)) }

/-- `Insert` with a failing store: the error, and the slab already changed -/
example : TransSl.ArrayDataSlab_Insert exEnvFail (trData exS) exC 1 1 (some ⟨10, .val 9⟩) =
    some (some .slabNotFound,
      trData { exS with hdr := ⟨⟨1, 2⟩, 61, 4⟩, elems := [⟨10, .val 1⟩, ⟨10, .val 9⟩, ⟨10, .val 2⟩, ⟨10, .val 3⟩] },
      { ctr := 7, eff := [.store ⟨1, 2⟩] }) := by rfl
example := Sl_ArrayDataSlab_Insert_storeError exEnvFail (trData exS) exC exC { ctr := 7, eff := [.store ⟨1, 2⟩] }
  1 1 ⟨10, .val 9⟩ ⟨10, .val 9⟩ .slabNotFound rfl (by decide) (by decide) rfl rfl

/-- `Remove` with a failing store: no value, the error, and the slab already changed -/
example : TransSl.ArrayDataSlab_Remove exEnvFail (trData exS) exC 1 =
    some (none, some .slabNotFound,
      trData { exS with hdr := ⟨⟨1, 2⟩, 41, 2⟩, elems := [⟨10, .val 1⟩, ⟨10, .val 3⟩] },
      { ctr := 7, eff := [.store ⟨1, 2⟩] }) := by rfl
example := Sl_ArrayDataSlab_Remove_storeError exEnvFail (trData exS) exC { ctr := 7, eff := [.store ⟨1, 2⟩] }
  1 ⟨10, .val 2⟩ .slabNotFound rfl (by decide) rfl rfl rfl

/-- an environment whose `Value.Storable` fails -/
private def exEnvFailV : SEnv :=
  { exEnv with Value_Storable := fun _ c _ _ => (none, some .notValue, c) }

/-- `Set` with a failing `Value.Storable`: the error, the slab unchanged -/
example : TransSl.ArrayDataSlab_Set exEnvFailV (trData exS) exC 1 1 (some ⟨12, .val 9⟩) =
    some (none, some .notValue, trData exS, exC) := by rfl
example := Sl_ArrayDataSlab_Set_storableError exEnvFailV (trData exS) exC exC 1 1 ⟨12, .val 9⟩ none .notValue
  (by decide) (by decide) rfl

end examples

end Atree.TransEq
