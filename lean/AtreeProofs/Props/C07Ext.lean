import AtreeProofs.Props.C07
import AtreeProofs.Props.C06Exact
import AtreeProofs.Codec.CmpExt
/-
  C07 — the compact-map exception, extensionally.

  `C07.compact_child_shape` describes the decoded compact child through `normVals elems cached st`,
  whose entries are found by a totalised lookup (`normFind`, default `.val 0 0`): read alone it does
  not exclude a decoder that loses or invents values.  `compact_child_extensional` states what the
  decoded child IS in terms of the encoded one: same slab index, type and count; the same number of
  elements; the same key set, each key once (in the shared entry's order, a permutation of its own);
  under every key the decoded form of the value the original stored under THAT key, and nothing
  else; a value that holds no compact map itself comes back unchanged — so a compact child whose
  values hold no compact maps comes back as a permutation of its own elements.
-/
namespace Atree.C07
open Atree Atree.Codec Atree.Gen

/-- The decoded compact child, extensionally (hypotheses of `compact_child_shape` plus distinct keys).
    `st` in the third clause is the encoder's extra-data state at the moment it wrote the value: an
    extension of `xs` by valid entries (`StateOKC xs st`); `normSt v st` is the decoded form of `v`
    (`v` itself when `v` holds no compact map, fourth clause). -/
theorem compact_child_extensional (x : MapExtra) (idx level : Nat) (hkeys : List Nat) (elems : List MEl)
    (keys : List (Nat × Nat)) (xs : List XD) (hx : XOKC xs)
    (h : (Stor.map x idx (.hkey level hkeys elems)).RTI)
    (nd : (Stor.map x idx (.hkey level hkeys elems)).nodupKeys)
    (hc : compactKeys x elems = some keys) :
    ∃ (x' : MapExtra) (hk' : List Nat) (es' : List MEl),
      normSt (.map x idx (.hkey level hkeys elems)) xs = .map x' idx (.hkey 0 hk' es') ∧
      x'.ty = x.ty ∧ x'.count = x.count ∧ hk'.length = es'.length ∧
      -- same number of elements; same key set, each key once
      es'.length = elems.length ∧
      (∃ keys', es'.mapM compactKey = some keys' ∧ keys'.Perm keys ∧ keys'.Nodup) ∧
      -- under every key the decoded form of the value stored under it …
      (∀ s p v, MEl.single (.mk (.val s p) v) ∈ elems →
          ∃ st, StateOKC xs st ∧ MEl.single (.mk (.val s p) (normSt v st)) ∈ es') ∧
      -- … and nothing else
      (∀ e ∈ es', ∃ s p v st,
          e = MEl.single (.mk (.val s p) (normSt v st)) ∧ MEl.single (.mk (.val s p) v) ∈ elems) ∧
      -- values without compact maps inside come back unchanged
      (∀ s p v, MEl.single (.mk (.val s p) v) ∈ elems → v.noCompact → MEl.single (.mk (.val s p) v) ∈ es') ∧
      ((∀ s p v, MEl.single (.mk (.val s p) v) ∈ elems → v.noCompact) → es'.Perm elems) := by
  have hv := cmap_validC h.1 h.2.2.1 hc
  have hes : rtiMElList elems := h.2.2.1.2.2.2.2.1
  obtain ⟨ha, hxa, x', hk', hget⟩ := addCompactXD_specC xs x hkeys keys hx hv
  have hperm := addCompactXD_perm xs x hkeys keys
  have hent : (XD.cmap x' hk' (addCompactXD xs x hkeys keys).2.1).validC := hxa _ (List.mem_of_getElem? hget)
  have hm := compactKeys_mapM hc
  have hnd : keys.Nodup := nd.1 keys hc
  obtain ⟨hlen, ⟨hkeys', hnodup⟩, hfwd, hbwd, hpermEl⟩ :=
    normVals_extensional elems keys (addCompactXD xs x hkeys keys).2.1 (addCompactXD xs x hkeys keys).2.2 hm hnd hperm
  refine ⟨x', hk', normVals elems (addCompactXD xs x hkeys keys).2.1 (addCompactXD xs x hkeys keys).2.2, ?_,
    addCompactXD_entry_ty xs x hkeys keys hx hv hget, ?_, ?_, hlen, ⟨_, hkeys', hperm, hnodup⟩, ?_, hbwd, ?_, hpermEl⟩
  · simp only [normSt, hc, foldl_normFind_eq, List.nil_append, hget]
  · have h1 := hent.2.2.2.2.2.2
    have h2 := hv.2.2.2.2.2.2
    have := hperm.length_eq
    omega
  · rw [length_normVals]; exact hent.2.1
  · intro s p v hin
    obtain ⟨pre, post, _, hmem⟩ := hfwd s p v hin
    exact ⟨_, StateOKC.trans ⟨ha, hxa⟩ (encVals_stateC elems hes pre _ hxa), hmem⟩
  · intro s p v hin hnc
    obtain ⟨pre, post, _, hmem⟩ := hfwd s p v hin
    rw [normSt_noCompact v _ hnc] at hmem
    exact hmem

/-! ### non-vacuity: the second of two same-typed compact maps comes back in the first one's key order -/

open Atree.C06 in
/-- the encoder's state after the first map `exCompact1` (keys `(2,5)`, `(2,6)`): one shared entry -/
theorem ex_state : (encSt exCompact1 []).2
    = [.cmap { ty := .composite 7, count := 2, seed := 11 } [100, 200] [(2, 5), (2, 6)]] := by decide

open Atree.C06 in
/-- `exCompact2` stores `(2,6) ↦ val 4 70000`, `(2,5) ↦ val 2 3` with seed 12 and digests `[300,400]`;
    decoded after `exCompact1` it has the first map's seed, digests and key ORDER, and under each key
    its own value -/
theorem ex_decoded : normSt exCompact2 (encSt exCompact1 []).2
    = .map { ty := .composite 7, count := 2, seed := 11 } 4
        (.hkey 0 [100, 200] [.single (.mk (.val 2 5) (.val 2 3)), .single (.mk (.val 2 6) (.val 4 70000))]) := by
  rw [ex_state]; rfl

open Atree.C06 in
/-- the hypotheses of `compact_child_extensional` hold for that second map in that state -/
theorem compact_child_extensional_nonvacuous :
    XOKC (encSt exCompact1 []).2 ∧ exCompact2.RTI ∧ exCompact2.nodupKeys ∧
    compactKeys { ty := .composite 7, count := 2, seed := 12 }
      [.single (.mk (.val 2 6) (.val 4 70000)), .single (.mk (.val 2 5) (.val 2 3))] = some [(2, 6), (2, 5)] := by
  refine ⟨?_, ?_, exCompact2_nodup, exCompact2_keys⟩
  · rw [ex_state]
    intro y hy
    simp only [List.mem_cons, List.not_mem_nil, or_false] at hy
    subst hy
    simp only [XD.validC, validMapExtra, validTy]
    decide
  · simp only [exCompact2, Stor.RTI, MEls.RTI, rtiMElList, MEl.RTI, SEl.RTI, validMapExtra, validTy, sizeMEl,
      MEl.size, SEl.size, Stor.size, MEls.size]
    decide

end Atree.C07
