import AtreeModel.SlabIdStorages
import AtreeModel.Gen.TransStorage
/-
  C15: `BasicSlabStorage` (storage.go), REGENERATED from the Go source on every run
  (`Gen/TransStorage.lean`, harness/cmd/gotrans/stateful*.go), computes what the hand-written model
  `SlabIdB.Basic` (`AtreeModel/SlabIdStorages.lean`, byte-level identifiers) computes: for every state, no
  invariant.  The two records have the same fields; `toB` / `ofB` rename them.
-/
namespace Atree.TransEq
open Atree Atree.SlabIdB Atree.Gen.TransSt

variable {σ ε : Type} (env : BasicSlabStorage_Env σ ε)

/-- the model state of a generated `BasicSlabStorage` -/
def toB (s : BasicSlabStorage σ) : Basic σ := { slabs := s.Slabs, slabIndex := s.slabIndex }
/-- and back -/
def ofB (m : Basic σ) : BasicSlabStorage σ := { Slabs := m.slabs, slabIndex := m.slabIndex }

theorem ofB_toB (s : BasicSlabStorage σ) : ofB (toB s) = s := rfl
theorem toB_ofB (m : Basic σ) : toB (ofB m) = m := rfl

/-- `GenerateSlabID(address)`: next index of that address (zero address included), never an error -/
theorem Basic_generateSlabID_eq_model (s : BasicSlabStorage σ) (a : Address) :
    BasicSlabStorage_GenerateSlabID env s a =
      ((((toB s).generateSlabID a).2, none), ofB ((toB s).generateSlabID a).1) := by
  simp only [BasicSlabStorage_GenerateSlabID, Basic.generateSlabID, genNext, GoMap.get, GoMap.get2, toB, ofB]
  cases AList.find? s.slabIndex a <;> rfl

/-- `RetrieveIfLoaded(id)` = `s.Slabs[id]` -/
theorem Basic_retrieveIfLoaded_eq_model (s : BasicSlabStorage σ) (id : SlabIDB) :
    BasicSlabStorage_RetrieveIfLoaded env s id = (toB s).retrieveIfLoaded id := by
  simp only [BasicSlabStorage_RetrieveIfLoaded, Basic.retrieveIfLoaded, GoMap.get, GoMap.get2, toB]
  cases AList.find? s.Slabs id <;> rfl

/-- `Retrieve(id)`: the entry and whether the KEY is present (a stored nil slab is found), never an error -/
theorem Basic_retrieve_eq_model (s : BasicSlabStorage σ) (id : SlabIDB) :
    BasicSlabStorage_Retrieve env s id = (((toB s).retrieve id).1, ((toB s).retrieve id).2, none) := by
  simp only [BasicSlabStorage_Retrieve, Basic.retrieve, GoMap.get2, toB]
  cases AList.find? s.Slabs id <;> rfl

/-- `Store(id, slab)`: no check of the identifier, never an error -/
theorem Basic_store_eq_model (s : BasicSlabStorage σ) (id : SlabIDB) (slab : Option σ) :
    BasicSlabStorage_Store env s id slab = (none, ofB ((toB s).store id slab)) := rfl

/-- `Remove(id)`: the key is deleted (no tombstone), never an error -/
theorem Basic_remove_eq_model (s : BasicSlabStorage σ) (id : SlabIDB) :
    BasicSlabStorage_Remove env s id = (none, ofB ((toB s).remove id)) := rfl

/-- `Count()` = `len(s.Slabs)` -/
theorem Basic_count_eq_model (s : BasicSlabStorage σ) :
    BasicSlabStorage_Count env s = Int.ofNat (toB s).count := rfl

/-- non-vacuity: store, store nil, remove on a concrete storage -/
example :
    let a : Address := ⟨[0, 0, 0, 0, 0, 0, 0, 1], rfl⟩
    let e : BasicSlabStorage_Env Nat Unit := {}
    let s0 : BasicSlabStorage Nat := { Slabs := [], slabIndex := [] }
    let g := BasicSlabStorage_GenerateSlabID e s0 a
    let s1 := (BasicSlabStorage_Store e g.2 g.1.1 (some 5)).2
    let s2 := (BasicSlabStorage_Store e s1 SlabIDUndefined none).2
    BasicSlabStorage_Retrieve e s2 g.1.1 = (some 5, true, none) ∧
    BasicSlabStorage_Retrieve e s2 SlabIDUndefined = (none, true, none) ∧
    BasicSlabStorage_Retrieve e (BasicSlabStorage_Remove e s2 SlabIDUndefined).2 SlabIDUndefined = (none, false, none) ∧
    BasicSlabStorage_Count e s2 = 2 := by decide

end Atree.TransEq
