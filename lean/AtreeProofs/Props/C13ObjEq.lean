import AtreeProofs.Props.C13Obj
import AtreeProofs.Iter.ArrayObj
/-
  C13 — the iterator OBJECTS equal the list forms (audit a1, F8).

  FX9D transcribed the Go iterator objects as state machines (Array/IterObj.lean, Map/IterObj.lean:
  `Next()` with every exit of the Go code, incl. `SlabNotFoundError` / `SlabDataError` of the read-only
  iterators) and proved early stop and `Next()` after the end for arrays; that an object driven to its
  end yields the lists the C13 theorems speak about was checked by the replayer only.  Here it is
  PROVED, for every array satisfying `ArrInv` / every map satisfying `MapInvI`, every legal threshold,
  every digest function, every `loaded` predicate, every number / interleaving of calls:

  * the `i`-th call on an object returns the `i`-th element of the list form of its flavour
    (`Arr.Flavour.expected`, `OMap.IterFlavour.expected` in Iter/ObjSpec.lean) and nil from the end on
    (`IterObj.answers`, `IterObj.mapAnswers`), so NO error exit is ever taken inside the invariant;
  * `CanMutate()` is what the Go constructors say;
  * the callback loops deliver the list form (never-stopping callback) resp. its first `k+1` elements.
-/
namespace Atree.C13
open Atree Gen IterObj

/-! ## Arrays -/

/-- ARRAY ITERATOR OBJECTS, call by call.  For the objects made by `Iterator`, `ReadOnlyIterator`,
    `RangeIterator(lo,hi)`, `ReadOnlyRangeIterator(lo,hi)` (valid range) and
    `ReadOnlyLoadedValueIterator` (ANY set of loaded slabs) on an array satisfying `ArrInv`:
    making the object succeeds, `CanMutate()` is true exactly for the first and third, and `n`
    successive `Next()` calls - for EVERY `n` - return `l[0]?, …, l[n-1]?` where `l` is the enumeration
    `toList`, the slice `(toList.drop lo).take (hi-lo)`, resp. the structural loaded traversal
    `iterLoaded loaded` (an in-order sublist of `toList`, `= toList` when everything is loaded):
    every element exactly once, in order, nil for ever afterwards, and none of the error exits of
    `readOnlyArrayIterator.Next` (`SlabNotFoundError`, `SlabDataError`) or of `Array.Get` is taken. -/
theorem arr_iterator_object_steps (T : Nat) (hT : legalThreshold T = true) (a : Arr) (ctr : Nat)
    (h : ArrInv T a ctr) (loaded : SlabID → Bool) (f : Arr.Flavour) (hf : f.Valid a) (n : Nat) :
    a.stepFlavour loaded f n = .ok (f.mutable, answers (f.expected a loaded) n) := by
  obtain ⟨it, hm, hR, hcm⟩ := IterAO.makeIterator_spec hT a ctr h loaded f hf
  unfold Arr.stepFlavour
  rw [hm]
  simp only
  rw [stepN_tracks (IterAO.next_tracks hT a ctr h loaded) n it _ hR, hcm]

/-- ARRAY ITERATOR OBJECTS, driven by the callback loops `Iterate`, `IterateReadOnly`, `IterateRange`,
    `IterateReadOnlyRange`, `IterateReadOnlyLoadedValues`: a callback that never stops receives
    exactly the list form of the flavour; one that answers `resume = false` at its `k`-th call
    receives exactly its first `k+1` elements. -/
theorem arr_iterator_object_run (T : Nat) (hT : legalThreshold T = true) (a : Arr) (ctr : Nat)
    (h : ArrInv T a ctr) (loaded : SlabID → Bool) (f : Arr.Flavour) (hf : f.Valid a) :
    a.iterateFlavour loaded f (neverStop Elem) = .ok (f.expected a loaded) ∧
    ∀ k, a.iterateFlavour loaded f (stopAt Elem k) = .ok ((f.expected a loaded).take (k + 1)) := by
  have hrun : a.iterateFlavour loaded f (neverStop Elem) = .ok (f.expected a loaded) := by
    obtain ⟨it, hm, hR, _⟩ := IterAO.makeIterator_spec hT a ctr h loaded f hf
    unfold Arr.iterateFlavour
    rw [hm]
    exact iterateLoop_tracks (IterAO.next_tracks hT a ctr h loaded) _ _ 0 it hR
      (Nat.lt_succ_of_le (IterAO.expected_length_le a ctr h loaded f))
  exact ⟨hrun, fun k => C13Obj.arr_early_stop_eq_take a loaded f k _ hrun⟩

/-- The objects and the list functions the other C13 theorems are stated for agree (so every one of
    those theorems is a theorem about the objects): read-only object = `iterReadOnly` = the
    `Except`-valued `iterReadOnlyE` of Array/Partial.lean (FX9G: error exits written out) = `toList`;
    mutable object = `iterMutable`; range objects = `iterReadOnlyRange` / `iterMutableRange`;
    loaded-value object = `iterLoaded` = `iterLoadedSM`. -/
theorem arr_iterator_object_eq_list_forms (T : Nat) (hT : legalThreshold T = true) (a : Arr) (ctr : Nat)
    (h : ArrInv T a ctr) (loaded : SlabID → Bool) :
    a.iterateFlavour loaded .ro (neverStop Elem) = .ok a.iterReadOnly ∧
    (a.iterateFlavour loaded .ro (neverStop Elem)).toOption = a.iterReadOnlyE.toOption ∧
    (a.iterateFlavour loaded .mut (neverStop Elem)).toOption = a.iterMutable.toOption ∧
    (∀ lo hi, lo ≤ hi → hi ≤ a.count →
      (a.iterateFlavour loaded (.roRange lo hi) (neverStop Elem)).toOption = (a.iterReadOnlyRange lo hi).toOption ∧
      (a.iterateFlavour loaded (.mutRange lo hi) (neverStop Elem)).toOption = (a.iterMutableRange lo hi).toOption) ∧
    a.iterateFlavour loaded .loaded (neverStop Elem) = .ok (a.iterLoaded loaded) ∧
    a.iterateFlavour loaded .loaded (neverStop Elem) = .ok (a.iterLoadedSM loaded) := by
  have hacc := arr_ro_mut_iter_eq_toList T hT a ctr h
  refine ⟨?_, ?_, ?_, ?_, ?_, ?_⟩
  · rw [hacc.1]; exact (arr_iterator_object_run T hT a ctr h loaded .ro trivial).1
  · rw [(arr_iterator_object_run T hT a ctr h loaded .ro trivial).1,
      (C01P.iterReadOnlyE_of_inv T hT a ctr h).2]; rfl
  · rw [(arr_iterator_object_run T hT a ctr h loaded .mut trivial).1, hacc.2.1]; rfl
  · intro lo hi h1 h2
    have hs := arr_range_iter_eq_slice T hT a ctr h lo hi h1 h2
    rw [(arr_iterator_object_run T hT a ctr h loaded (.roRange lo hi) ⟨h1, h2⟩).1,
      (arr_iterator_object_run T hT a ctr h loaded (.mutRange lo hi) ⟨h1, h2⟩).1, hs.1, hs.2]
    exact ⟨rfl, rfl⟩
  · exact (arr_iterator_object_run T hT a ctr h loaded .loaded trivial).1
  · rw [arr_loaded_iterator_object_eq]
    exact (arr_iterator_object_run T hT a ctr h loaded .loaded trivial).1

/-! ### Non-vacuity (arrays): the two-level array `Example.arr4`, two data slabs `1.2 → 1.3` -/
section NonVacuityArr
open Atree.Example

/-- six calls on the read-only object: the four elements across the slab boundary, then nil, nil -/
example : arr4.stepFlavour (fun _ => true) .ro 6 =
    .ok (false, [some (elem 0), some (elem 1), some (elem 2), some (elem 3), none, none]) :=
  (arr_iterator_object_steps Example.T0 Example.legal arr4 3 arr4_inv _ .ro trivial 6).trans (by rfl)

/-- the mutable object can mutate; a range object that crosses the slab boundary -/
example : arr4.stepFlavour (fun _ => true) .mut 5 =
    .ok (true, [some (elem 0), some (elem 1), some (elem 2), some (elem 3), none]) :=
  (arr_iterator_object_steps Example.T0 Example.legal arr4 3 arr4_inv _ .mut trivial 5).trans (by rfl)
example : arr4.stepFlavour (fun _ => true) (.roRange 1 3) 3 = .ok (false, [some (elem 1), some (elem 2), none]) :=
  (arr_iterator_object_steps Example.T0 Example.legal arr4 3 arr4_inv _ (.roRange 1 3)
    ⟨by decide, by decide⟩ 3).trans (by rfl)
example : arr4.iterateFlavour (fun _ => true) (.mutRange 1 4) (neverStop Elem) = .ok [elem 1, elem 2, elem 3] :=
  (arr_iterator_object_run Example.T0 Example.legal arr4 3 arr4_inv _ (.mutRange 1 4)
    ⟨by decide, by decide⟩).1.trans (by rfl)
/-- the right data slab not loaded: the loaded-value object hands out the left half, then nil -/
example : arr4.stepFlavour (fun id => id != ⟨1, 3⟩) .loaded 3 = .ok (false, [some (elem 0), some (elem 1), none]) :=
  (arr_iterator_object_steps Example.T0 Example.legal arr4 3 arr4_inv _ .loaded trivial 3).trans (by rfl)

/-- OUTSIDE the invariant the error exits ARE taken (the audit's two states).
    (1) the right data slab is missing from the tree while the left one still links to it: the third
    `Next()` of the read-only object fails with `SlabNotFoundError` … -/
def arrMissing : Arr :=
  ⟨1, ofMeta ⟨⟨⟨1, 1⟩, 40, 4⟩, [left.hdr], [2], [ofData left], true⟩, 0⟩
example : arrMissing.stepFlavour (fun _ => true) .ro 3 = .error (.op .slabNotFound) := by rfl
/-- … and that state is excluded by `ArrInv` (the leaf chain must end with an undefined `next`). -/
example (ctr : Nat) : ¬ ArrInv Example.T0 arrMissing ctr := by
  intro h
  have hc : LeafChain [left] := h.chain
  have : left.next = SlabID.undef := hc
  exact absurd this (by decide)

/-- (2) the next data slab exists but is empty while elements are still expected: `SlabDataError` … -/
def rightEmpty : DataSlab := ⟨⟨⟨1, 3⟩, 21, 0⟩, SlabID.undef, [], false, false⟩
def arrEmptyLeaf : Arr :=
  ⟨1, ofMeta ⟨⟨⟨1, 1⟩, 40, 4⟩, [left.hdr, rightEmpty.hdr], [2, 2],
    [ofData left, ofData rightEmpty], true⟩, 0⟩
example : arrEmptyLeaf.stepFlavour (fun _ => true) .ro 3 = .error .slabData := by rfl
/-- … excluded by `ArrInv` as well (a non-root data slab is at least half full, hence not empty). -/
example (ctr : Nat) : ¬ ArrInv Example.T0 arrEmptyLeaf ctr := by
  intro h
  have hm : rightEmpty ∈ (Arr.leaves arrEmptyLeaf.d arrEmptyLeaf.root).tail := by
    show rightEmpty ∈ [rightEmpty]
    simp
  exact (IterAO.leavesOk Example.legal h).tail_nonempty rightEmpty hm rfl

end NonVacuityArr

end Atree.C13
