import AtreeProofs.Props.C13Obj
import AtreeProofs.Iter.ArrayObj
import AtreeProofs.Iter.MapObj
import AtreeProofs.Props.C13Ids
/-
  C13 — the iterator OBJECTS equal the list forms (audit a1, F8).

  FX9D transcribed the Go iterator objects as state machines (Array/IterObj.lean, Map/IterObj.lean:
  `Next()` with every exit of the Go code, incl. `SlabNotFoundError` / `SlabDataError` of the read-only
  iterators) and proved early stop and `Next()` after the end for arrays; that an object driven to its
  end yields the lists the C13 theorems speak about was checked by the replayer only.  Here it is
  PROVED, for every array satisfying `ArrInv` / every map satisfying `MapInvI`, every legal threshold,
  every digest function, every `loaded` predicate, every number / interleaving of calls:

  * the `i`-th call on an object returns the `i`-th element of the list form of its flavour
    (`Arr.Flavour.expected`, `OMap.IterFlavour.expected` in Iter/ObjSpec.lean) and nil from the end on
    (`IterObj.answers`, `IterObj.mapAnswers`), so NO error exit is ever taken inside the invariant;
  * `CanMutate()` is what the Go constructors say;
  * the callback loops deliver the list form (never-stopping callback) resp. its first `k+1` elements.
-/
namespace Atree.C13
open Atree Gen IterObj

/-! ## Arrays -/

/-- ARRAY ITERATOR OBJECTS, call by call.  For the objects made by `Iterator`, `ReadOnlyIterator`,
    `RangeIterator(lo,hi)`, `ReadOnlyRangeIterator(lo,hi)` (valid range) and
    `ReadOnlyLoadedValueIterator` (ANY set of loaded slabs) on an array satisfying `ArrInv`:
    making the object succeeds, `CanMutate()` is true exactly for the first and third, and `n`
    successive `Next()` calls - for EVERY `n` - return `l[0]?, …, l[n-1]?` where `l` is the enumeration
    `toList`, the slice `(toList.drop lo).take (hi-lo)`, resp. the structural loaded traversal
    `iterLoaded loaded` (an in-order sublist of `toList`, `= toList` when everything is loaded):
    every element exactly once, in order, nil for ever afterwards, and none of the error exits of
    `readOnlyArrayIterator.Next` (`SlabNotFoundError`, `SlabDataError`) or of `Array.Get` is taken. -/
theorem arr_iterator_object_steps (T : Nat) (hT : legalThreshold T = true) (a : Arr) (ctr : Nat)
    (h : ArrInv T a ctr) (loaded : SlabID → Bool) (f : Arr.Flavour) (hf : f.Valid a) (n : Nat) :
    a.stepFlavour loaded f n = .ok (f.mutable, answers (f.expected a loaded) n) := by
  obtain ⟨it, hm, hR, hcm⟩ := IterAO.makeIterator_spec hT a ctr h loaded f hf
  unfold Arr.stepFlavour
  rw [hm]
  simp only
  rw [stepN_tracks (IterAO.next_tracks a loaded) n it _ hR, hcm]

/-- ARRAY ITERATOR OBJECTS, driven by the callback loops `Iterate`, `IterateReadOnly`, `IterateRange`,
    `IterateReadOnlyRange`, `IterateReadOnlyLoadedValues`: a callback that never stops receives
    exactly the list form of the flavour; one that answers `resume = false` at its `k`-th call
    receives exactly its first `k+1` elements. -/
theorem arr_iterator_object_run (T : Nat) (hT : legalThreshold T = true) (a : Arr) (ctr : Nat)
    (h : ArrInv T a ctr) (loaded : SlabID → Bool) (f : Arr.Flavour) (hf : f.Valid a) :
    a.iterateFlavour loaded f (neverStop Elem) = .ok (f.expected a loaded) ∧
    ∀ k, a.iterateFlavour loaded f (stopAt Elem k) = .ok ((f.expected a loaded).take (k + 1)) := by
  have hrun : a.iterateFlavour loaded f (neverStop Elem) = .ok (f.expected a loaded) := by
    obtain ⟨it, hm, hR, _⟩ := IterAO.makeIterator_spec hT a ctr h loaded f hf
    unfold Arr.iterateFlavour
    rw [hm]
    exact iterateLoop_tracks (IterAO.next_tracks a loaded) _ _ 0 it hR
      (Nat.lt_succ_of_le (IterAO.expected_length_le a ctr h loaded f))
  exact ⟨hrun, fun k => C13Obj.arr_early_stop_eq_take a loaded f k _ hrun⟩

/-- THE LOADED-VALUE ARRAY ITERATOR OBJECT on EVERY array, for EVERY set of loaded slabs (NO invariant
    needed), call by call: the `i`-th `Next()` returns the `i`-th element of the structural traversal
    `iterLoaded loaded` and nil from its end on.  (`arr_loaded_iterator_object_eq` of Props/C13.lean is the
    run-to-the-end form of this; `arr_loaded_subset_is_sublist` / `arr_loaded_all_eq_toList` say what
    `iterLoaded` is.) -/
theorem arr_loaded_iterator_object_steps (a : Arr) (loaded : SlabID → Bool) (n : Nat) :
    a.stepFlavour loaded .loaded n = .ok (false, answers (a.iterLoaded loaded) n) := by
  obtain ⟨it, hm, hR, hcm⟩ := IterAO.makeLoaded_spec loaded a
  unfold Arr.stepFlavour
  rw [hm]
  simp only
  rw [stepN_tracks (IterAO.next_tracks a loaded) n it _ hR, hcm]

/-- The objects and the list functions the other C13 theorems are stated for agree (so every one of
    those theorems is a theorem about the objects): read-only object = `iterReadOnly` = the
    `Except`-valued `iterReadOnlyE` of Array/Partial.lean (FX9G: error exits written out) = `toList`;
    mutable object = `iterMutable`; range objects = `iterReadOnlyRange` / `iterMutableRange`;
    loaded-value object = `iterLoaded` = `iterLoadedSM`. -/
theorem arr_iterator_object_eq_list_forms (T : Nat) (hT : legalThreshold T = true) (a : Arr) (ctr : Nat)
    (h : ArrInv T a ctr) (loaded : SlabID → Bool) :
    a.iterateFlavour loaded .ro (neverStop Elem) = .ok a.iterReadOnly ∧
    (a.iterateFlavour loaded .ro (neverStop Elem)).toOption = a.iterReadOnlyE.toOption ∧
    (a.iterateFlavour loaded .mut (neverStop Elem)).toOption = a.iterMutable.toOption ∧
    (∀ lo hi, lo ≤ hi → hi ≤ a.count →
      (a.iterateFlavour loaded (.roRange lo hi) (neverStop Elem)).toOption = (a.iterReadOnlyRange lo hi).toOption ∧
      (a.iterateFlavour loaded (.mutRange lo hi) (neverStop Elem)).toOption = (a.iterMutableRange lo hi).toOption) ∧
    a.iterateFlavour loaded .loaded (neverStop Elem) = .ok (a.iterLoaded loaded) ∧
    a.iterateFlavour loaded .loaded (neverStop Elem) = .ok (a.iterLoadedSM loaded) := by
  have hacc := arr_ro_mut_iter_eq_toList T hT a ctr h
  refine ⟨?_, ?_, ?_, ?_, ?_, ?_⟩
  · rw [hacc.1]; exact (arr_iterator_object_run T hT a ctr h loaded .ro trivial).1
  · rw [(arr_iterator_object_run T hT a ctr h loaded .ro trivial).1,
      (C01P.iterReadOnlyE_of_inv T hT a ctr h).2]; rfl
  · rw [(arr_iterator_object_run T hT a ctr h loaded .mut trivial).1, hacc.2.1]; rfl
  · intro lo hi h1 h2
    have hs := arr_range_iter_eq_slice T hT a ctr h lo hi h1 h2
    rw [(arr_iterator_object_run T hT a ctr h loaded (.roRange lo hi) ⟨h1, h2⟩).1,
      (arr_iterator_object_run T hT a ctr h loaded (.mutRange lo hi) ⟨h1, h2⟩).1, hs.1, hs.2]
    exact ⟨rfl, rfl⟩
  · exact (arr_iterator_object_run T hT a ctr h loaded .loaded trivial).1
  · rw [arr_loaded_iterator_object_eq]
    exact (arr_iterator_object_run T hT a ctr h loaded .loaded trivial).1

/-! ### Non-vacuity (arrays): the two-level array `Example.arr4`, two data slabs `1.2 → 1.3` -/
section NonVacuityArr
open Atree.Example

/-- six calls on the read-only object: the four elements across the slab boundary, then nil, nil -/
example : arr4.stepFlavour (fun _ => true) .ro 6 =
    .ok (false, [some (elem 0), some (elem 1), some (elem 2), some (elem 3), none, none]) :=
  (arr_iterator_object_steps Example.T0 Example.legal arr4 3 arr4_inv _ .ro trivial 6).trans (by rfl)

/-- the mutable object can mutate; a range object that crosses the slab boundary -/
example : arr4.stepFlavour (fun _ => true) .mut 5 =
    .ok (true, [some (elem 0), some (elem 1), some (elem 2), some (elem 3), none]) :=
  (arr_iterator_object_steps Example.T0 Example.legal arr4 3 arr4_inv _ .mut trivial 5).trans (by rfl)
example : arr4.stepFlavour (fun _ => true) (.roRange 1 3) 3 = .ok (false, [some (elem 1), some (elem 2), none]) :=
  (arr_iterator_object_steps Example.T0 Example.legal arr4 3 arr4_inv _ (.roRange 1 3)
    ⟨by decide, by decide⟩ 3).trans (by rfl)
example : arr4.iterateFlavour (fun _ => true) (.mutRange 1 4) (neverStop Elem) = .ok [elem 1, elem 2, elem 3] :=
  (arr_iterator_object_run Example.T0 Example.legal arr4 3 arr4_inv _ (.mutRange 1 4)
    ⟨by decide, by decide⟩).1.trans (by rfl)
/-- the right data slab not loaded: the loaded-value object hands out the left half, then nil -/
example : arr4.stepFlavour (fun id => id != ⟨1, 3⟩) .loaded 3 = .ok (false, [some (elem 0), some (elem 1), none]) :=
  (arr_iterator_object_steps Example.T0 Example.legal arr4 3 arr4_inv _ .loaded trivial 3).trans (by rfl)

/-- OUTSIDE the invariant the error exits ARE taken (the audit's two states).
    (1) the right data slab is missing from the tree while the left one still links to it: the third
    `Next()` of the read-only object fails with `SlabNotFoundError` … -/
def arrMissing : Arr :=
  ⟨1, ofMeta ⟨⟨⟨1, 1⟩, 40, 4⟩, [left.hdr], [2], [ofData left], true⟩, 0⟩
example : arrMissing.stepFlavour (fun _ => true) .ro 3 = .error (.op .slabNotFound) := by rfl
/-- … and that state is excluded by `ArrInv` (the leaf chain must end with an undefined `next`). -/
example (ctr : Nat) : ¬ ArrInv Example.T0 arrMissing ctr := by
  intro h
  have hc : LeafChain [left] := h.chain
  have : left.next = SlabID.undef := hc
  exact absurd this (by decide)

/-- (2) the next data slab exists but is empty while elements are still expected: `SlabDataError` … -/
def rightEmpty : DataSlab := ⟨⟨⟨1, 3⟩, 21, 0⟩, SlabID.undef, [], false, false⟩
def arrEmptyLeaf : Arr :=
  ⟨1, ofMeta ⟨⟨⟨1, 1⟩, 40, 4⟩, [left.hdr, rightEmpty.hdr], [2, 2],
    [ofData left, ofData rightEmpty], true⟩, 0⟩
example : arrEmptyLeaf.stepFlavour (fun _ => true) .ro 3 = .error .slabData := by rfl
/-- … excluded by `ArrInv` as well (a non-root data slab is at least half full, hence not empty). -/
example (ctr : Nat) : ¬ ArrInv Example.T0 arrEmptyLeaf ctr := by
  intro h
  have hm : rightEmpty ∈ (Arr.leaves arrEmptyLeaf.d arrEmptyLeaf.root).tail := by
    show rightEmpty ∈ [rightEmpty]
    simp
  exact (IterAO.leavesOk Example.legal h).tail_nonempty rightEmpty hm rfl

end NonVacuityArr

/-! ## Maps -/

variable {r : Nat}

/-- MAP ITERATOR OBJECTS, call by call, ANY interleaving of `Next / NextKey / NextValue`.  For the
    objects made by `Iterator`, `ReadOnlyIterator` and `ReadOnlyLoadedValueIterator` (ANY set of loaded
    slabs) on a map satisfying `MapInvI` (= `MapInv` + the preserved identifier clause): making the
    object succeeds, `CanMutate()` is true exactly for the first, and for EVERY list `calls` of step
    methods call `i` returns the component it asks for (`Next`: the pair, `NextKey`: the key,
    `NextValue`: the value) of the `i`-th pair of `l`, and nil from the end of `l` on, where `l` is the
    enumeration `toList` resp. the structural loaded traversal `iterLoaded ld`.  So the keys-only and
    values-only flavours are projections of the SAME object stepping (not `map fst/snd` by
    definition), every pair is consumed exactly once whichever method consumes it, and no error exit
    (`SlabNotFoundError` of `advance`, errors of the successor lookup) is taken. -/
theorem map_iterator_object_steps (T : Nat) (hT : legalThreshold T = true) (D : DigestFn (r + 1)) (cfg : MCfg)
    (m : OMap r) (hcfg : CfgOk cfg T m) (ctr : Nat) (h : MapInvI T D m ctr) (ld : SlabID → Bool)
    (f : OMap.IterFlavour) (calls : List MapCall) :
    m.stepCalls cfg ld f calls = .ok (f.mutable, mapAnswers (f.expected m ld) calls) := by
  obtain ⟨it, hm, hR, hcm⟩ := IterMO.makeIterator_spec hT m hcfg ctr h ld f
  unfold OMap.stepCalls
  rw [hm]
  simp only
  rw [IterMO.go_tracks calls it _ hR, hcm]

/-- THE LOADED-VALUE MAP ITERATOR OBJECT (`MapLoadedValueIterator`: stack of index-slab cursors,
    `nextDataIterator`, the element iterator of the current data slab) on EVERY map and for EVERY
    `ld : SlabID → Bool` (partial loads; NO invariant needed), under any interleaving of the three step
    methods, hands out exactly the structural traversal `OMap.iterLoaded ld m`, which is an in-order
    subsequence of the enumeration, and the whole enumeration when every slab is loaded. -/
theorem map_loaded_iterator_object_eq (cfg : MCfg) (m : OMap r) (ld : SlabID → Bool) :
    (∀ calls, m.stepCalls cfg ld .loaded calls = .ok (false, mapAnswers (m.iterLoaded ld) calls)) ∧
    (m.iterLoaded ld).Sublist m.toList ∧
    (∀ T (D : DigestFn (r + 1)), MapInv T D m → (∀ id, ld id = true) → m.iterLoaded ld = m.toList) := by
  refine ⟨?_, map_loaded_subset_is_sublist ld m, fun T D h hall => map_loaded_all_eq_toList T D m h ld hall⟩
  intro calls
  obtain ⟨it, hm, hR, hcm⟩ := IterMO.makeLoaded_spec cfg m ld
  unfold OMap.stepCalls
  rw [hm]
  simp only
  rw [IterMO.go_tracks calls it _ hR, hcm]

/-- MAP ITERATOR OBJECTS driven by the callback loops: `Iterate / IterateReadOnly /
    IterateReadOnlyLoadedValues` (`c = next`), `IterateKeys / IterateReadOnlyKeys` (`c = nextKey`),
    `IterateValues / IterateReadOnlyValues` (`c = nextValue`) - nine combinations, seven of them Go
    functions.  A callback that never stops receives exactly the `c`-projection of the pair list of the
    flavour; one that answers `resume = false` at its `k`-th call receives its first `k+1` members. -/
theorem map_iterator_object_run (T : Nat) (hT : legalThreshold T = true) (D : DigestFn (r + 1)) (cfg : MCfg)
    (m : OMap r) (hcfg : CfgOk cfg T m) (ctr : Nat) (h : MapInvI T D m ctr) (ld : SlabID → Bool)
    (f : OMap.IterFlavour) (c : MapCall) :
    m.iterateFlavour cfg ld f c (neverStop MapRet) = .ok ((f.expected m ld).map (project c)) ∧
    ∀ k, m.iterateFlavour cfg ld f c (stopAt MapRet k) = .ok (((f.expected m ld).map (project c)).take (k + 1)) := by
  have hrun : m.iterateFlavour cfg ld f c (neverStop MapRet) = .ok ((f.expected m ld).map (project c)) := by
    obtain ⟨it, hm, hR, _⟩ := IterMO.makeIterator_spec hT m hcfg ctr h ld f
    unfold OMap.iterateFlavour
    rw [hm]
    exact iterateLoop_tracks (IterMO.loopStep_tracks cfg m ld c) _ _ 0 it ⟨_, hR, rfl⟩
      (by rw [List.length_map]; exact Nat.lt_succ_of_le (IterMO.expected_length_le m h.1 ld f))
  exact ⟨hrun, fun k => C13Obj.map_early_stop_eq_take cfg m ld f c k _ hrun⟩

/-- The objects and the list functions the other C13 map theorems are stated for agree: the mutable
    object under `Next / NextKey / NextValue` = `iterMutable / iterMutableKeys / iterMutableValues`, the
    read-only object = `iterReadOnly / iterReadOnlyKeys / iterReadOnlyValues`, the loaded-value object =
    `iterLoaded` (each up to the constructor `project c` wraps around the component). -/
theorem map_iterator_object_eq_list_forms (T : Nat) (hT : legalThreshold T = true) (D : DigestFn (r + 1))
    (cfg : MCfg) (m : OMap r) (hcfg : CfgOk cfg T m) (ctr : Nat) (h : MapInvI T D m ctr) (ld : SlabID → Bool) :
    (∃ l, m.iterMutable cfg = .ok l ∧
      m.iterateFlavour cfg ld .mut .next (neverStop MapRet) = .ok (l.map (project .next))) ∧
    (∃ l, m.iterMutableKeys cfg = .ok l ∧
      m.iterateFlavour cfg ld .mut .nextKey (neverStop MapRet) = .ok (l.map MapRet.key)) ∧
    (∃ l, m.iterMutableValues cfg = .ok l ∧
      m.iterateFlavour cfg ld .mut .nextValue (neverStop MapRet) = .ok (l.map MapRet.value)) ∧
    (∃ l, m.iterReadOnly = .ok l ∧
      m.iterateFlavour cfg ld .ro .next (neverStop MapRet) = .ok (l.map (project .next))) ∧
    (∃ l, m.iterReadOnlyKeys = .ok l ∧
      m.iterateFlavour cfg ld .ro .nextKey (neverStop MapRet) = .ok (l.map MapRet.key)) ∧
    (∃ l, m.iterReadOnlyValues = .ok l ∧
      m.iterateFlavour cfg ld .ro .nextValue (neverStop MapRet) = .ok (l.map MapRet.value)) ∧
    m.iterateFlavour cfg ld .loaded .next (neverStop MapRet) = .ok ((m.iterLoaded ld).map (project .next)) := by
  have R := fun f c => (map_iterator_object_run T hT D cfg m hcfg ctr h ld f c).1
  obtain ⟨k1, k2, k3⟩ := map_keys_values_projections T hT D cfg m hcfg h.1
  obtain ⟨k4, k5⟩ := k3 ctr h.2
  refine ⟨⟨_, map_mut_iter_eq_toList T hT D cfg m hcfg h.1, R .mut .next⟩, ⟨_, k1, ?_⟩, ⟨_, k2, ?_⟩,
    ⟨_, map_ro_iter_eq_toList T hT D cfg m hcfg ctr h, R .ro .next⟩, ⟨_, k4, ?_⟩, ⟨_, k5, ?_⟩, R .loaded .next⟩
  · rw [R .mut .nextKey, List.map_map]; rfl
  · rw [R .mut .nextValue, List.map_map]; rfl
  · rw [R .ro .nextKey, List.map_map]; rfl
  · rw [R .ro .nextValue, List.map_map]; rfl

/-- MAP TWIN OF `arr_next_after_end`: once a call on a map iterator object (any of the three types,
    any of the three methods) has answered nil, every later call - of any method - answers nil. -/
theorem map_next_after_end (T : Nat) (hT : legalThreshold T = true) (D : DigestFn (r + 1)) (cfg : MCfg)
    (m : OMap r) (hcfg : CfgOk cfg T m) (ctr : Nat) (h : MapInvI T D m ctr) (ld : SlabID → Bool)
    (f : OMap.IterFlavour) (calls : List MapCall) (b : Bool) (rets : List MapRet)
    (hs : m.stepCalls cfg ld f calls = .ok (b, rets)) (i j : Nat) (hij : i ≤ j) (hj : j < calls.length)
    (hi : rets[i]? = some MapRet.nil) : rets[j]? = some MapRet.nil := by
  rw [map_iterator_object_steps T hT D cfg m hcfg ctr h ld f calls] at hs
  obtain ⟨_, hr⟩ := Prod.mk.inj (Except.ok.inj hs)
  subst hr
  exact IterMO.mapAnswers_after_end _ calls i j hij hj hi

/-- the same for the loaded-value object on ANY map (no invariant) -/
theorem map_loaded_next_after_end (cfg : MCfg) (m : OMap r) (ld : SlabID → Bool) (calls : List MapCall)
    (b : Bool) (rets : List MapRet) (hs : m.stepCalls cfg ld .loaded calls = .ok (b, rets)) (i j : Nat)
    (hij : i ≤ j) (hj : j < calls.length) (hi : rets[i]? = some MapRet.nil) : rets[j]? = some MapRet.nil := by
  rw [(map_loaded_iterator_object_eq cfg m ld).1 calls] at hs
  obtain ⟨_, hr⟩ := Prod.mk.inj (Except.ok.inj hs)
  subst hr
  exact IterMO.mapAnswers_after_end _ calls i j hij hj hi

/-- ALONG HISTORIES, no hypothesis about the map at all: for EVERY history of requests (set / remove /
    popIterate / setType, rejected requests included) issued against a new map - any legal threshold,
    ANY digest function, any owner address, any initial allocation counter - and after EVERY prefix of
    it, every iterator object of the map (three types), under every interleaving of `Next / NextKey /
    NextValue`, hands out the enumeration (resp. the loaded traversal) call by call, and every callback
    loop delivers the corresponding projection. -/
theorem map_iterator_object_history (T : Nat) (hT : legalThreshold T = true) (D : DigestFn (r + 1)) (cfg : MCfg)
    (hcT : cfg.T = T) (hcL : cfg.L = r + 1) (ty : Nat) (seedOf : SlabID → Nat) (c0 : Ctx)
    (ops : List E2EM.MOp) (hok : ∀ op ∈ ops, op.Ok T D) (n : Nat) (ld : SlabID → Bool) (f : OMap.IterFlavour) :
    ∀ m, m = (E2EM.runM cfg (OMap.new (r := r) cfg.addr ty seedOf c0) (ops.take n)).1 →
      (∀ calls, m.stepCalls cfg ld f calls = .ok (f.mutable, mapAnswers (f.expected m ld) calls)) ∧
      (∀ c, m.iterateFlavour cfg ld f c (neverStop MapRet) = .ok ((f.expected m ld).map (project c))) := by
  intro m hm
  obtain ⟨hinv, hids, hrid, _⟩ := C05.map_history_wellformed T hT D cfg hcT hcL ty seedOf c0 ops hok n
  rw [← hm] at hinv hids hrid
  have hcfg : CfgOk cfg T m := ⟨hcT, hcL, by unfold OMap.addr; rw [hrid]⟩
  exact ⟨fun calls => map_iterator_object_steps T hT D cfg m hcfg _ ⟨hinv, hids⟩ ld f calls,
    fun c => (map_iterator_object_run T hT D cfg m hcfg _ ⟨hinv, hids⟩ ld f c).1⟩

/-! ### Non-vacuity (maps)

`IterExample.map3`: one data slab whose first element is an inline collision group (keys 11, 12) followed
by key 25.  `(C05.stN 20).1`: the map after 20 requests of the history `C05.hist` - a root index slab
over two data slabs (`7.3 → 7.4` by `next`) and an external collision group (slab `7.2`), 18 pairs;
`MapInvI` holds for it by the history theorem `C05.map_history_wellformed`. -/
section NonVacuityMap
open Atree.IterExample

/-- seven interleaved calls on ONE read-only object over the collision group and on: key of the first
    pair, value of the second, the third pair, then nil whatever is asked -/
example : map3.stepCalls IterExample.cfg (fun _ => true) .ro [.nextKey, .nextValue, .next, .nextKey, .next, .nextValue, .nextKey] =
    .ok (false, [.key (k 11), .value (v 3), .pair (k 25) (v 2), .nil, .nil, .nil, .nil]) :=
  (map_iterator_object_steps IterExample.T0 IterExample.legal IterExample.D IterExample.cfg map3 cfg_ok 1
    ⟨map3_inv, by decide⟩ _ .ro _).trans (by rfl)
/-- the same interleaving on the mutable object (successor-key lookups from the root) -/
example : map3.stepCalls IterExample.cfg (fun _ => true) .mut [.nextKey, .nextValue, .next, .nextKey] =
    .ok (true, [.key (k 11), .value (v 3), .pair (k 25) (v 2), .nil]) :=
  (map_iterator_object_steps IterExample.T0 IterExample.legal IterExample.D IterExample.cfg map3 cfg_ok 1
    ⟨map3_inv, by decide⟩ _ .mut _).trans (by rfl)
example : map3.iterateFlavour IterExample.cfg (fun _ => true) .ro .nextValue (neverStop MapRet) =
    .ok [.value (v 1), .value (v 3), .value (v 2)] :=
  (map_iterator_object_run IterExample.T0 IterExample.legal IterExample.D IterExample.cfg map3 cfg_ok 1
    ⟨map3_inv, by decide⟩ (fun _ => true) .ro .nextValue).1.trans (by rfl)

end NonVacuityMap

section NonVacuityMap2
open Atree.MapExample

theorem st20_inv : MapInvI 256 D2 (C05.stN 20).1 (C05.stN 20).2.ctr :=
  let H := C05.map_history_wellformed 256 legal256 D2 cfg2 rfl rfl 0 (fun id => id.idx) ⟨0, [], []⟩
    C05.hist C05.hist_ok 20
  ⟨H.1, H.2.1⟩

theorem st20_cfg : CfgOk cfg2 256 (C05.stN 20).1 := ⟨rfl, rfl, by decide⟩

/-- the multi-slab map: 20 calls `N K V N K V …` on one read-only object walk through both data slabs
    and the external collision group; calls 18 and 19 (past the 18 pairs) answer nil -/
example : ((C05.stN 20).1.stepCalls cfg2 (fun _ => true) .ro
      [.next, .nextKey, .nextValue, .next, .nextKey, .nextValue, .next, .nextKey, .nextValue, .next,
       .nextKey, .nextValue, .next, .nextKey, .nextValue, .next, .nextKey, .nextValue, .next, .nextKey]) =
    .ok (false, mapAnswers (C05.stN 20).1.toList
      [.next, .nextKey, .nextValue, .next, .nextKey, .nextValue, .next, .nextKey, .nextValue, .next,
       .nextKey, .nextValue, .next, .nextKey, .nextValue, .next, .nextKey, .nextValue, .next, .nextKey]) :=
  map_iterator_object_steps 256 legal256 D2 cfg2 _ st20_cfg _ st20_inv _ .ro _
example : (mapAnswers (C05.stN 20).1.toList [.nextKey, .nextValue, .nextKey]) =
    [.key (key 11), .value (val 2), .key (key 112)] := by decide
example : ((C05.stN 20).1.toList.map (fun p => p.1.pay)) =
    [11, 111, 112, 121, 211, 221, 311, 312, 313, 314, 321, 511, 521, 611, 621, 711, 811, 911] := by decide

example (n : Nat) (calls : List MapCall) :=
  (map_iterator_object_history 256 legal256 D2 cfg2 rfl rfl 0 (fun id => id.idx) ⟨0, [], []⟩
    C05.hist C05.hist_ok n (fun _ => true) .mut _ rfl).1 calls

/-- partial load: the second data slab `7.4` is not loaded - the loaded-value object hands out the
    pairs of the first data slab only (a proper in-order subsequence), then nil -/
example : ((C05.stN 20).1.iterLoaded (fun id => id != ⟨7, 4⟩)).map (fun p => p.1.pay) =
    [11, 111, 112, 121, 211, 221, 311, 312, 313, 314, 321] := by decide
/-- … and with the external collision group `7.2` (first-level digest 3: keys 311-314, 321) not loaded either -/
example : ((C05.stN 20).1.iterLoaded (fun id => id != ⟨7, 4⟩ && id != ⟨7, 2⟩)).map (fun p => p.1.pay) =
    [11, 111, 112, 121, 211, 221] := by decide
example (calls : List MapCall) := (map_loaded_iterator_object_eq cfg2 (C05.stN 20).1 (fun id => id != ⟨7, 4⟩)).1 calls

end NonVacuityMap2

end Atree.C13
