import AtreeModel.StorageOps
import AtreeModel.Gen.Facts
import AtreeProofs.StorageLemmas
import AtreeProofs.CommitLemmas
import AtreeProofs.StorageLemmas2
import AtreeProofs.StorageExample
/-
  C03 — Commits are durable and complete; uncommitted state never reaches the ledger.
  PROPERTY THEOREMS (storage level).  The container level ("every slab whose content changed was
  stored, every slab that left the tree was removed": `effects_complete`) is in C09.lean / the
  array and map files; the codec round trip is C07.
-/
namespace Atree.C03
open Atree St

variable {σ β : Type} (c : Codec σ β)

/-- is this operation a commit? -/
def isCommit : Op σ → Bool
  | .commit _ _ _ _ => true
  | _ => false

/-- Between commits no register is written or deleted: every operation other than a commit leaves
    the ledger exactly as it was (same association list, not just the same lookups). -/
theorem only_commit_touches_ledger (s : St σ β) (op : Op σ) (h : isCommit op = false) :
    (St.step c s op).1.base = s.base := by
  apply step_base_of_not_commit c s op
  cases op <;> first | rfl | exact h

/-- … hence any history without commits leaves the ledger untouched. -/
theorem uncommitted_never_reaches_ledger (s : St σ β) (ops : List (Op σ))
    (h : ∀ op ∈ ops, isCommit op = false) :
    (St.run c s ops).base = s.base := by
  apply run_base_of_no_commit c ops s
  intro op hop
  have := h op hop
  cases op <;> first | rfl | exact this

/-- Durability: after a successful commit, a brand-new storage opened over the same ledger sees,
    for every owned identifier, exactly the slab that was visible at commit time (`Retrieve`
    returns it), using nothing but the registers. -/
theorem commit_durable_on_reopen (hc : RoundTrip c) (s : St σ β) (h : Inv c s) (hne : NoEncodeFailure c s)
    (id : SlabID) (hown : id.isTemp = false) :
    let r := s.fastCommit c (fun _ => false)
    let fresh : St σ β := St.fresh r.st.base r.st.alloc
    r.err = none ∧ fresh.view c id = s.view c id ∧
    ∃ fresh', fresh.retrieve c id = .ok (s.view c id, fresh') := by
  intro r fresh
  have hr : r = commitW c .det (fun _ => false) [] [] s := rfl
  obtain ⟨h1, h2, _⟩ := commitW_spec c hc .det (fun _ => false) [] [] s h
  obtain ⟨g1, g2, _⟩ := commitW_complete c hc .det (fun _ => false) (fun _ => rfl) [] [] s h hne
  rw [← hr] at h1 h2 g1 g2
  have hview : fresh.view c id = s.view c id := by
    rw [view_fresh]
    exact h2.committed_eq_view h1 g2 id hown
  refine ⟨g1, hview, ?_⟩
  obtain ⟨s', hs', _⟩ := retrieve_spec c fresh (inv_fresh c r.st h1) id
  exact ⟨s', by rw [hs', hview]⟩

/-- Crash recovery: commit, then any history without a commit, then abandon the in-memory storage
    at any point: the reopened storage shows precisely the state of the last successful commit. -/
theorem crash_recovers_last_commit (hc : RoundTrip c) (s : St σ β) (h : Inv c s) (hne : NoEncodeFailure c s)
    (ops : List (Op σ)) (hno : ∀ op ∈ ops, isCommit op = false) (id : SlabID) (hown : id.isTemp = false) :
    let committed := (s.fastCommit c (fun _ => false)).st
    let later := St.run c committed ops
    let reopened : St σ β := St.fresh later.base later.alloc
    reopened.view c id = s.view c id := by
  intro committed later reopened
  have hr : committed = (commitW c .det (fun _ => false) [] [] s).st := rfl
  obtain ⟨h1, h2, _⟩ := commitW_spec c hc .det (fun _ => false) [] [] s h
  obtain ⟨_, g2, _⟩ := commitW_complete c hc .det (fun _ => false) (fun _ => rfl) [] [] s h hne
  rw [← hr] at h1 h2 g2
  have hbase : later.base = committed.base :=
    uncommitted_never_reaches_ledger c committed ops hno
  show (St.fresh later.base later.alloc : St σ β).view c id = s.view c id
  rw [view_fresh, hbase]
  exact h2.committed_eq_view h1 g2 id hown

/-- Slabs owned by the temporary (zero) address are never written, in any history. -/
theorem temp_never_written (hc : RoundTrip c) (ops : List (Op σ)) (id : SlabID) (ht : id.isTemp = true) :
    AList.find? (St.run c (St.init : St σ β) ops).base id = none := by
  exact (inv_run c hc ops _ (inv_init c)).noTempBase id ht

/-- The premise that ties `only_commit_touches_ledger` to the code: in the source, the only
    functions that call `baseStorage.Store` / `baseStorage.Remove` are the three commit functions
    (regenerated from the Go source on every run). -/
theorem base_writes_only_in_commit_functions :
    Gen.baseStoreCallers = ["PersistentSlabStorage.FastCommit", "PersistentSlabStorage.NondeterministicFastCommit", "PersistentSlabStorage.commit"] ∧
    Gen.baseRemoveCallers = ["PersistentSlabStorage.FastCommit", "PersistentSlabStorage.NondeterministicFastCommit", "PersistentSlabStorage.commit"] := by
  exact ⟨rfl, rfl⟩

/-! ### Non-vacuity

The hypotheses (`RoundTrip`, `Inv`, `NoEncodeFailure`) hold together on `Example.exSt`
(AtreeProofs/StorageExample.lean: pending store `1.1 ↦ 5`, pending deletion `1.2`, pending temporary
slab `0.1`, cached `1.3`, committed `1.2`, `1.3`, `1.4`).  The theorems are instantiated on it and
the instances are checked against direct evaluation of the model. -/
section NonVacuity
open Atree.Example

example : RoundTrip natCodec ∧ Inv natCodec exSt ∧ NoEncodeFailure natCodec exSt :=
  ⟨roundTrip, inv, noEncodeFailure exSt⟩

/-- A history without commits (stores, removes, reads, preload, cache drop, re-creation). -/
def laterOps : List (Op Nat) :=
  [.store ⟨1, 1⟩ 6, .remove ⟨1, 4⟩, .retrieve ⟨1, 3⟩, .preload [⟨1, 4⟩, ⟨1, 3⟩], .dropCache,
   .store ⟨1, 9⟩ 1, .retrieveIgnoringDeltas ⟨1, 4⟩ true, .genID 1]

example : ∀ op ∈ laterOps, isCommit op = false := by decide

/-- `only_commit_touches_ledger` is not true of commits: the commit of `exSt` changes the ledger. -/
example : (St.step natCodec exSt (.commit .det [] [] [])).1.base ≠ exSt.base := by decide

/-- … while the commit-free history changes the view but leaves the ledger alone. -/
example : (St.run natCodec exSt laterOps).base = exSt.base :=
  uncommitted_never_reaches_ledger natCodec exSt laterOps (by decide)
example : (St.run natCodec exSt laterOps).view natCodec ⟨1, 1⟩ = some 6 ∧
    exSt.view natCodec ⟨1, 1⟩ = some 5 ∧ exSt.committed natCodec ⟨1, 1⟩ = none := by decide

/-- Durability on reopen: the theorem's instance and the same facts by evaluation. -/
example := commit_durable_on_reopen natCodec roundTrip exSt inv (noEncodeFailure exSt) ⟨1, 1⟩ rfl
example :
    let r := exSt.fastCommit natCodec (fun _ => false)
    let fresh : St Nat Nat := St.fresh r.st.base r.st.alloc
    r.err = none ∧ fresh.view natCodec ⟨1, 1⟩ = some 5 ∧ fresh.view natCodec ⟨1, 2⟩ = none ∧
    fresh.view natCodec ⟨1, 4⟩ = some 9 ∧ exSt.view natCodec ⟨1, 2⟩ = none := by decide

/-- Crash recovery: commit `exSt`, run the commit-free history (which overwrites `1.1`, deletes
    `1.4`, creates `1.9`), crash: the reopened storage shows the state of the commit. -/
example :
    let committed := (exSt.fastCommit natCodec (fun _ => false)).st
    let later := St.run natCodec committed laterOps
    let reopened : St Nat Nat := St.fresh later.base later.alloc
    later.view natCodec ⟨1, 1⟩ = some 6 ∧ reopened.view natCodec ⟨1, 1⟩ = some 5 ∧
    later.view natCodec ⟨1, 4⟩ = none ∧ reopened.view natCodec ⟨1, 4⟩ = some 9 ∧
    later.view natCodec ⟨1, 9⟩ = some 1 ∧ reopened.view natCodec ⟨1, 9⟩ = none ∧
    reopened.view natCodec ⟨1, 2⟩ = none := by decide
example := crash_recovers_last_commit natCodec roundTrip exSt inv (noEncodeFailure exSt) laterOps
  (by decide) ⟨1, 1⟩ rfl

/-- The restriction to owned identifiers is necessary: the pending temporary slab `0.1` is visible
    before the crash and gone afterwards. -/
example :
    let committed := (exSt.fastCommit natCodec (fun _ => false)).st
    exSt.view natCodec ⟨0, 1⟩ = some 8 ∧
    (St.fresh committed.base committed.alloc : St Nat Nat).view natCodec ⟨0, 1⟩ = none := by decide

/-- `temp_never_written` on the history that builds `exSt` (it stores the temporary slab `0.1`)
    followed by a commit. -/
example : AList.find? (St.run natCodec (St.init : St Nat Nat) (exOps ++ [.commit .det [] [] []])).base ⟨0, 1⟩ = none :=
  temp_never_written natCodec roundTrip _ ⟨0, 1⟩ rfl
example : AList.find? (St.run natCodec (St.init : St Nat Nat) (exOps ++ [.commit .det [] [] []])).base ⟨1, 1⟩ = some 5 := by
  decide

end NonVacuity

end Atree.C03
