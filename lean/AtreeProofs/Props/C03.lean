import AtreeModel.StorageOps
import AtreeModel.Gen.Facts
import AtreeProofs.StorageLemmas
import AtreeProofs.CommitLemmas
/-
  C03 — Commits are durable and complete; uncommitted state never reaches the ledger.
  PROPERTY THEOREMS (storage level).  The container level ("every slab whose content changed was
  stored, every slab that left the tree was removed": `effects_complete`) is in C09.lean / the
  array and map files; the codec round trip is C07.
-/
namespace Atree.C03
open Atree St

variable {σ β : Type} (c : Codec σ β)

/-- is this operation a commit? -/
def isCommit : Op σ → Bool
  | .commit _ _ _ _ => true
  | _ => false

/-- Between commits no register is written or deleted: every operation other than a commit leaves
    the ledger exactly as it was (same association list, not just the same lookups). -/
theorem only_commit_touches_ledger (s : St σ β) (op : Op σ) (h : isCommit op = false) :
    (St.step c s op).1.base = s.base := by
  sorry

/-- … hence any history without commits leaves the ledger untouched. -/
theorem uncommitted_never_reaches_ledger (s : St σ β) (ops : List (Op σ))
    (h : ∀ op ∈ ops, isCommit op = false) :
    (St.run c s ops).base = s.base := by
  sorry

/-- Durability: after a successful commit, a brand-new storage opened over the same ledger sees,
    for every owned identifier, exactly the slab that was visible at commit time (`Retrieve`
    returns it), using nothing but the registers. -/
theorem commit_durable_on_reopen (hc : RoundTrip c) (s : St σ β) (h : Inv c s) (hne : NoEncodeFailure c s)
    (id : SlabID) (hown : id.isTemp = false) :
    let r := s.fastCommit c (fun _ => false)
    let fresh : St σ β := St.fresh r.st.base r.st.alloc
    r.err = none ∧ fresh.view c id = s.view c id ∧
    ∃ fresh', fresh.retrieve c id = .ok (s.view c id, fresh') := by
  sorry

/-- Crash recovery: commit, then any history without a commit, then abandon the in-memory storage
    at any point: the reopened storage shows precisely the state of the last successful commit. -/
theorem crash_recovers_last_commit (hc : RoundTrip c) (s : St σ β) (h : Inv c s) (hne : NoEncodeFailure c s)
    (ops : List (Op σ)) (hno : ∀ op ∈ ops, isCommit op = false) (id : SlabID) (hown : id.isTemp = false) :
    let committed := (s.fastCommit c (fun _ => false)).st
    let later := St.run c committed ops
    let reopened : St σ β := St.fresh later.base later.alloc
    reopened.view c id = s.view c id := by
  sorry

/-- Slabs owned by the temporary (zero) address are never written, in any history. -/
theorem temp_never_written (hc : RoundTrip c) (ops : List (Op σ)) (id : SlabID) (ht : id.isTemp = true) :
    AList.find? (St.run c (St.init : St σ β) ops).base id = none := by
  sorry

/-- The premise that ties `only_commit_touches_ledger` to the code: in the source, the only
    functions that call `baseStorage.Store` / `baseStorage.Remove` are the three commit functions
    (regenerated from the Go source on every run). -/
theorem base_writes_only_in_commit_functions :
    Gen.baseStoreCallers = ["PersistentSlabStorage.FastCommit", "PersistentSlabStorage.NondeterministicFastCommit", "PersistentSlabStorage.commit"] ∧
    Gen.baseRemoveCallers = ["PersistentSlabStorage.FastCommit", "PersistentSlabStorage.NondeterministicFastCommit", "PersistentSlabStorage.commit"] := by
  sorry

end Atree.C03
