import AtreeProofs.E2EBytesGSpec
import AtreeProofs.E2E.BytesG
import AtreeProofs.Props.E2EBytes
/-
  E2EBytesG — the END-TO-END theorems for arrays with the byte codec, LARGE-VALUE SLABS OF ANY
  STORABLE the codec model supports: plain values, slab references and – new – wrapped values
  (`hx.SomeStorable`, nested; `Codec.Slab.storableG`, C07 `decode_encode_storable_wrapped`).
  The array elements themselves are plain values and references (inline wrapped values need the
  `adata` slab kind and are not covered).  What the large-value slab of a caller value holds is given
  by an interpretation `E2E.LargeInterp` (see `AtreeProofs/E2EBytesGSpec.lean`); `Props/E2EBytes.lean`
  is the special case of the plain interpretation (`keyedCodecG_plain`).
-/
namespace Atree.E2E
open Atree Atree.Codec Gen St

variable (I : LargeInterp)

/-- ROUND TRIP AT THE OWN KEY (general large-value slabs). -/
theorem bytesG_roundtrip_own_key (v : SSlab) (ok : OkG I v) (id : SlabID)
    (hid : ownId v = id ∨ ∃ e, v = .large e) : decG I id (encG I v) = some v :=
  decG_encG I v ok id hid

/-- The keyed byte codec with general large-value slabs satisfies the abstract round-trip law. -/
theorem keyed_codecG_roundtrip : RoundTrip (keyedCodecG I) := keyedCodecG_roundTrip I

/-- STORED SLABS ARE ENCODABLE (general large-value slabs). -/
theorem stored_slabs_encodableG (T : Nat) (hT : legalThreshold T = true) (a : Arr)
    (extra : SlabID → Option Elem) (ctr : Nat) (hinv : ArrInv T a ctr) (henc : EncOkG I a extra ctr)
    (id : SlabID) (v : SSlab) (hv : stored a extra id = some v) :
    OkG I v ∧ (ownId v = id ∨ ∃ e, v = .large e) :=
  stored_okG I hT a extra ctr hinv henc id v hv

theorem runS_addrG (T : Nat) (hT : legalThreshold T = true) (addr ty : Nat) (haddr : addr ≠ 0)
    (ops : List AOp) (hops : ∀ op ∈ ops, op.Ok) :
    Good (keyedCodecG I) T (runS (keyedCodecG I) T (newS (keyedCodecG I) addr ty) ops) ∧
    (runS (keyedCodecG I) T (newS (keyedCodecG I) addr ty) ops).1.1.addr = addr := by
  obtain ⟨g0, _, r0, _⟩ := good_new (keyedCodecG I) (keyedCodecG_roundTrip I) T hT addr ty haddr
  obtain ⟨g, _, r, _⟩ := good_runS (keyedCodecG I) (keyedCodecG_roundTrip I) T hT ops _ g0 hops
  refine ⟨g, ?_⟩
  show (runS (keyedCodecG I) T (newS (keyedCodecG I) addr ty) ops).1.1.rootID.addr = addr
  rw [r, r0]

/-- NO ENCODING FAILURE ALONG HISTORIES (general large-value slabs): values that fit the inline limit
    are plain values of the harness, larger ones have an encodable large-value slab (any supported
    storable). -/
theorem bytesG_history_no_encode_failure (T : Nat) (hT : legalThreshold T = true) (addr ty : Nat)
    (ops : List AOp) (hops : ∀ op ∈ ops, op.Ok) (henc : ∀ op ∈ ops, AOp.EncG I T op)
    (hb : Bounds addr ty (runS (keyedCodecG I) T (newS (keyedCodecG I) addr ty) ops).1.2.ctr) :
    NoEncodeFailure (keyedCodecG I) (runS (keyedCodecG I) T (newS (keyedCodecG I) addr ty) ops).2 := by
  obtain ⟨g, ha⟩ := runS_addrG I T hT addr ty hb.addr_pos ops hops
  obtain ⟨g0, _⟩ := good_new (keyedCodecG I) (keyedCodecG_roundTrip I) T hT addr ty hb.addr_pos
  have he := encStG_runS I (keyedCodecG I) (keyedCodecG_roundTrip I) T hT ops _ g0
    (encStG_new I (keyedCodecG I) addr ty hb.ty) hops henc
  exact noEncodeFailure_of_goodG I T hT _ g he (by rw [ha]; exact hb.addr) hb.ctr

/-- END-TO-END WITH THE BYTE CODEC, general large-value slabs.  Every history of array requests, run
    against the storage state machine, followed by a fault-free commit of either kind and a reopen on
    a fresh storage, yields – by `DecodeSlab` on the registers – exactly the same array, and the
    values follow the `List` semantics; every large-value slab (plain, reference or wrapped storable)
    reads back the value it was created for.  No hypothesis on the codec. -/
theorem bytesG_commit_reopen_identity (T : Nat) (hT : legalThreshold T = true) (addr ty : Nat)
    (ops : List AOp) (hops : ∀ op ∈ ops, op.Ok) (henc : ∀ op ∈ ops, AOp.EncG I T op)
    (hb : Bounds addr ty (runS (keyedCodecG I) T (newS (keyedCodecG I) addr ty) ops).1.2.ctr)
    (kind : CommitKind) (mo dlo : List SlabID)
    (fetch : Fetch (St SSlab (SlabID × Bytes))) (hf : FetchOk (keyedCodecG I) fetch) (fuel : Nat) :
    let x := runS (keyedCodecG I) T (newS (keyedCodecG I) addr ty) ops
    x.1.1.d < fuel →
    (St.step (keyedCodecG I) x.2 (.commit kind [] mo dlo)).2 = .unit ∧
    let reopened := St.run (keyedCodecG I) x.2 [.commit kind [] mo dlo, .recreate]
    (∃ s', loadArrSt fetch reopened ⟨addr, 1⟩ fuel = .ok (some x.1.1, s') ∧
      values x.1 = specRun [] ops) ∧
    (∀ id w, AList.find? x.1.2.created id = some w → reopened.view (keyedCodecG I) id = some (.large w)) := by
  intro x hfuel
  obtain ⟨g, ha⟩ := runS_addrG I T hT addr ty hb.addr_pos ops hops
  have hne := bytesG_history_no_encode_failure I T hT addr ty ops hops henc hb
  obtain ⟨_, _, _, _, _, _, hval, hroot, _⟩ :=
    rep_history (keyedCodecG I) (keyedCodecG_roundTrip I) T hT addr ty hb.addr_pos ops hops
  obtain ⟨h1, h2⟩ := commit_reopen_identity (keyedCodecG I) (keyedCodecG_roundTrip I) T hT x.2 x.1.1 _ _ g.inv
    g.addr g.rep g.st hne kind mo dlo fetch hf fuel hfuel
  refine ⟨h1, ?_⟩
  intro reopened
  obtain ⟨_, _, hrep, s', h3, _⟩ := h2
  have hroot' : x.1.1.rootID = ⟨addr, 1⟩ := hroot
  rw [hroot'] at h3
  refine ⟨⟨s', h3, hval⟩, ?_⟩
  intro id w hf'
  have hm := mem_of_find?_some hf'
  have hpa := g.caddr _ hm
  simp only at hpa
  rw [hrep.view id hpa]
  have hnone := (g.rep.extra_fresh id (by rw [hf']; rfl)).1
  have hs : x.1.1.slabAt id = none := by
    cases h : x.1.1.slabAt id with
    | none => rfl
    | some q => rw [h] at hnone; cases hnone
  rw [stored_of_none hs, hf']
  rfl

/-! ### the plain interpretation: `Props/E2EBytes.lean` is a special case -/

def elemOfStorA : Stor → Option Elem
  | .val s p => some ⟨s, .val p⟩
  | .ref id => some ⟨slabIDStorableSize, .ref id⟩
  | _ => none

theorem ofElem_isFlat (v : Elem) : (Stor.ofElem v).isFlat = true := by
  unfold Stor.ofElem
  cases v.pay <;> rfl

/-- every large-value slab holds the plain encoding of its value -/
def plainInterp : LargeInterp where
  γ := Stor.ofElem
  δ := elemOfStorA
  ok := fun v => decide (validElem v)
  flat := fun v hv _ => ⟨rfl, of_decide_eq_true hv⟩
  wrapped := fun v _ hf => by rw [ofElem_isFlat] at hf; cases hf
  inv := fun v hv => by
    have hv' : validElem v := of_decide_eq_true hv
    obtain ⟨sz, pay⟩ := v
    unfold Stor.ofElem
    cases pay with
    | val p => rfl
    | ref id =>
      unfold validElem at hv'
      simp only at hv'
      simp only [elemOfStorA, hv'.1]

/-- with the plain interpretation the general codec is the codec of `Props/E2EBytes.lean` -/
theorem keyedCodecG_plain (v : SSlab) : (keyedCodecG plainInterp).enc v = keyedCodec.enc v := by
  cases v with
  | tree t ty => rfl
  | large e =>
    simp only [keyedCodecG, keyedCodec, OkG, OkS, plainInterp, decide_eq_true_eq, toSlab, SlabOK, encG, encS,
      toSlabG, ofElem_isFlat, if_true]

/-! ### Non-vacuity: large values are WRAPPED storables

The interpretation `wrapInterp`: a value of at least 100 bytes is a wrapped value of the harness
(`hx.SomeStorable` around a plain value two bytes shorter: the wrapper costs two bytes), smaller
ones are plain.  The history `histB` of `Props/E2EBytes.lean` (its 150-byte value goes to a
large-value slab, which now holds a WRAPPED storable: slab kind `storableG`). -/
section NonVacuity
open Atree.Example

def wrapG (v : Elem) : Stor :=
  match v.pay with
  | .val p => if 100 ≤ v.size then .some (.val (v.size - 2) p) else .val v.size p
  | .ref id => .ref id

def unwrapG : Stor → Option Elem
  | .some (.val s p) => some ⟨s + 2, .val p⟩
  | .val s p => some ⟨s, .val p⟩
  | .ref id => some ⟨slabIDStorableSize, .ref id⟩
  | _ => none

def okW (v : Elem) : Bool :=
  match v.pay with
  | .val p => if 100 ≤ v.size then decide (validElem ⟨v.size - 2, .val p⟩) else decide (validElem v)
  | .ref _ => decide (validElem v)

def wrapInterp : LargeInterp where
  γ := wrapG
  δ := unwrapG
  ok := okW
  flat := by
    intro v hv hf
    obtain ⟨sz, pay⟩ := v
    cases pay with
    | val p =>
      by_cases h : 100 ≤ sz
      · simp [wrapG, h, Stor.isFlat] at hf
      · simp only [okW, h, if_false, decide_eq_true_eq] at hv
        exact ⟨by simp [wrapG, h, Stor.ofElem], hv⟩
    | ref id =>
      simp only [okW, decide_eq_true_eq] at hv
      exact ⟨rfl, hv⟩
  wrapped := by
    intro v hv hf
    obtain ⟨sz, pay⟩ := v
    cases pay with
    | val p =>
      by_cases h : 100 ≤ sz
      · simp only [okW, h, if_true, decide_eq_true_eq] at hv
        refine ⟨.val (sz - 2) p, by simp [wrapG, h], hv, trivial, ?_⟩
        simp [Stor.vneed, maxNestedLevels]
      · simp [wrapG, h, Stor.isFlat] at hf
    | ref id => simp [wrapG, Stor.isFlat] at hf
  inv := by
    intro v hv
    obtain ⟨sz, pay⟩ := v
    cases pay with
    | val p =>
      by_cases h : 100 ≤ sz
      · have : sz - 2 + 2 = sz := by omega
        simp [wrapG, h, unwrapG, this]
      · simp [wrapG, h, unwrapG]
    | ref id =>
      simp only [okW, decide_eq_true_eq] at hv
      unfold validElem at hv
      simp only at hv
      simp [wrapG, unwrapG, hv.1]

theorem histB_encG : ∀ op ∈ histB, AOp.EncG wrapInterp T0 op := by decide

/-- the state after the history, with registers of bytes -/
def xG : (Arr × Ctx) × St SSlab (SlabID × Bytes) :=
  runS (keyedCodecG wrapInterp) T0 (newS (keyedCodecG wrapInterp) 1 0) histB

theorem xG_bounds : Bounds 1 0 xG.1.2.ctr := ⟨by decide, by decide, by decide, by decide⟩

example := bytesG_history_no_encode_failure wrapInterp T0 legal 1 0 histB histB_ok histB_encG xG_bounds
example := bytesG_commit_reopen_identity wrapInterp T0 legal 1 0 histB histB_ok histB_encG xG_bounds .det [] []
  _ (retrieve_is_fetch (keyedCodecG wrapInterp)) 2 (by decide)

def reopenedG : St SSlab (SlabID × Bytes) :=
  St.run (keyedCodecG wrapInterp) xG.2 [.commit .det [] [] [], .recreate]

def largeOf (v : Option SSlab) : Option Elem :=
  match v with
  | some (.large e) => some e
  | _ => none

def codecKind (b : Bytes) : Nat :=
  match decodeSlab ⟨1, 5⟩ b 0 with
  | .ok (.storable _ _) _ => 1
  | .ok (.storableG _ (.some (.val _ _))) _ => 2
  | .ok _ _ => 3
  | _ => 0

-- the register of the large value 1.5: 152 bytes; version 1, flags "storable, any size"; then the tag
-- 165 of the wrapper: `DecodeSlab` returns a `storableG` slab holding a wrapped plain value, and the
-- keyed codec reads back the caller's value of 150 bytes
set_option maxRecDepth 100000 in
example : ((AList.find? reopenedG.base ⟨1, 5⟩).map (fun p => (p.2.length, p.2.take 4, codecKind p.2,
      largeOf (decG wrapInterp ⟨1, 5⟩ p.2))))
    = some (152, [0x10, 0x3f, 0xd8, 165], 2, some ⟨150, .val 7⟩) := by decide +kernel

-- with the plain interpretation the same slab is a `storable` slab (kind 1) of the same length
set_option maxRecDepth 100000 in
example : ((AList.find? reopenedB.base ⟨1, 5⟩).map (fun p => (p.2.length, codecKind p.2))) = some (152, 1) := by
  decide +kernel

-- loading through `Retrieve` gives the array back; the large-value slab reads back the value
set_option maxRecDepth 100000 in
example : summaryR' (loadArrSt (fun s id => s.retrieve (keyedCodecG wrapInterp) id) reopenedG ⟨1, 1⟩ 2)
    = some (summary xG.1.1) := by decide +kernel

/-- the preconditions are not trivially true: a 150-byte value whose payload does not fit the
    wrapped plain value is refused -/
example : (keyedCodecG wrapInterp).enc (.large ⟨150, .val (256 ^ 8)⟩) = none ∧
    ((keyedCodecG wrapInterp).enc (.large ⟨150, .val 7⟩)).isSome = true := by decide

end NonVacuity

end Atree.E2E
