import AtreeProofs.Trans.MapSlabs
/-
  `MapMetaDataSlab` (map_metadata_slab.go): the GENERATED full translation of Merge / Split / LendToRight /
  BorrowFromRight / updateChildrenHeadersAfterMerge (`AtreeModel/Gen/TransMapSlabs.lean`) applied to the translation
  `cMeta m x` of a model slab yields the translation of the model function's result IN FULL: the children headers, the
  header (slab ID, size, first key), the allocated slab ID, the new storage state and the error value.
  Machine arithmetic: `UInt32.ofNat` is a ring homomorphism, so `+` and `*` need no range hypothesis at all; only the
  two subtractions (`Merge`, `Split`) need "no underflow", where the model's truncated `Nat` subtraction and Go's
  wrap-around differ.
-/
namespace Atree.TransEq
open Atree Atree.Gen.TransMap

section metaSlab
variable {E V W X S ε α : Type}

/-! ## helpers -/

/-- `hs[0]` of a non-empty translated header list = the model's `headD default` -/
theorem msl_goIdx_zero_hdrs (l : List MHdr) (h : 0 < l.length) :
    goIdx (l.map cHdr) (0 : Int) = some (cHdr (l.headD default)) := by
  cases l with
  | nil => simp at h
  | cons a t => simp [goIdx]

/-- `hs[0]` of an empty list panics -/
theorem msl_goIdx_zero_nil {β : Type} : goIdx ([] : List β) (0 : Int) = none := by simp [goIdx]

theorem msl_ceilHalfMap (n : Nat) : goCeilDivInt (Int.ofNat n) 2 = Int.ofNat ((n + 1) / 2) := by
  simp [goCeilDivInt]

theorem msl_tdivHalf (a b : Nat) : Int.tdiv (Int.ofNat a + Int.ofNat b) 2 = Int.ofNat ((a + b) / 2) := by
  have eadd : Int.ofNat a + Int.ofNat b = Int.ofNat (a + b) := by simp
  rw [eadd]; simp [Int.tdiv]

/-- `uint32(prefix) + uint32(n) * uint32(headerSize)` never differs from the model's `Nat` value seen as `uint32` -/
theorem msl_metaSize_u32 (n : Nat) :
    UInt32.ofNat Gen.mapMetaDataSlabPrefixSize + UInt32.ofInt (Int.ofNat n) * UInt32.ofNat Gen.mapSlabHeaderSize =
      u32 (Gen.mapMetaDataSlabPrefixSize + n * Gen.mapSlabHeaderSize) := by
  rw [u32_ofInt]; simp only [u32, UInt32.ofNat_add, UInt32.ofNat_mul]

/-- `slices.Delete(l, i, i+1)` = `eraseIdx` -/
theorem msl_goSlicesDelete_one {β : Type} (l : List β) (i : Nat) (h : i < l.length) :
    goSlicesDelete l (Int.ofNat i) (Int.ofNat i + (1 : Int)) = some (l.eraseIdx i) := by
  have e1 : Int.ofNat i + (1 : Int) = Int.ofNat (i + 1) := by simp
  have hd : (0 : Int) ≤ Int.ofNat i ∧ Int.ofNat i ≤ Int.ofNat (i + 1) ∧ Int.ofNat (i + 1) ≤ Int.ofNat l.length := by
    simp only [Int.ofNat_eq_natCast]; omega
  rw [e1]
  simp only [goSlicesDelete]
  rw [if_pos hd]
  simp [List.eraseIdx_eq_take_drop_succ]

/-- `lendToRight` with a negative count panics (`left[len(left)-count:]` is out of range) -/
theorem msl_lendToRight_neg {β : Type} (l r : List β) (c : Int) (h : c < 0) : lendToRight l r c = none := by
  have hn : ¬ ((0 : Int) ≤ Int.ofNat l.length - c ∧ Int.ofNat l.length - c ≤ Int.ofNat l.length ∧
      Int.ofNat l.length ≤ Int.ofNat l.length) := by
    simp only [Int.ofNat_eq_natCast]; omega
  simp only [lendToRight, goSlice, Option.getD_some, Option.getD_none, if_neg hn]

/-- `borrowFromRight` with a negative count panics (`right[:count]`) -/
theorem msl_borrowFromRight_neg {β : Type} (l r : List β) (c : Int) (h : c < 0) : borrowFromRight l r c = none := by
  have hn : ¬ ((0 : Int) ≤ 0 ∧ (0 : Int) ≤ c ∧ c ≤ Int.ofNat r.length) := by omega
  simp only [borrowFromRight, goSlice, Option.getD_some, Option.getD_none, if_neg hn]

/-! ## Merge -/

/-- `MapMetaDataSlab.Merge` IN FULL.  Needs: the right header size covers the prefix (otherwise Go's
    `rightSlab.header.size - mapMetaDataSlabPrefixSize` wraps around and the model's truncated subtraction gives 0). -/
theorem MapMetaDataSlab_Merge_full_eq_model (env : Env E V W X S ε) (l r : MMetaSlab α) (x y : Option X)
    (hpre : Gen.mapMetaDataSlabPrefixSize ≤ r.hdr.size) :
    MapMetaDataSlab_Merge env (cMeta l x) (.metaSlab (cMeta r y)) =
      some (none, cMeta (MMetaSlab.merge l r) x) := by
  simp only [MapMetaDataSlab_Merge, MMetaSlab.merge, cMeta, cHdr, msl_merge_eq, List.map_append, u32]
  rw [UInt32.ofNat_add, UInt32.ofNat_sub hpre]

/-- the failed type assertion `slab.(*MapMetaDataSlab)` panics -/
theorem MapMetaDataSlab_Merge_wrong_type (env : Env E V W X S ε) (m : MapMetaDataSlab X) :
    (∀ d, MapMetaDataSlab_Merge env m (.dataSlab d) = none) ∧ MapMetaDataSlab_Merge env m .nil = none :=
  ⟨fun _ => rfl, rfl⟩

/-! ## Split -/

/-- `MapMetaDataSlab.Split` IN FULL: with fewer than 2 children the `SlabSplitError`, receiver and storage untouched;
    otherwise both slabs (the left one is the receiver), the slab ID taken from the storage and the new storage
    state.  The new right slab has no extra data.  Needs (only when there are 2+ children): the header size covers
    the child headers that stay left (otherwise Go's `m.header.size - uint32(leftSize)` wraps around). -/
theorem MapMetaDataSlab_Split_full_eq_model (env : Env E V W X Ctx GE) (hS : EnvS env)
    (hsplit : env.NewSlabSplitErrorf = some .slabSplit) (m : MMetaSlab α) (x : Option X) (c : Ctx)
    (hcov : 2 ≤ m.childHdrs.length → (m.childHdrs.length + 1) / 2 * Gen.mapSlabHeaderSize ≤ m.hdr.size) :
    MapMetaDataSlab_Split env (cMeta m x) c =
      match m.split c with
      | .error e => some (.nil, .nil, some e, cMeta m x, c)
      | .ok (l, r, c') => some (.metaSlab (cMeta l x), .metaSlab (cMeta r none), none, cMeta l x, c') := by
  simp only [MapMetaDataSlab_Split, MMetaSlab.split, cMeta, List.length_map, int_dlt_two, msl_ceilHalfMap,
    MapMetaDataSlab_SlabID, hS.gen, hsplit]
  by_cases hl : m.childHdrs.length < 2
  · simp [hl]
  · have hcov' := hcov (by omega)
    have hlen : (m.childHdrs.length + 1) / 2 ≤ (m.childHdrs.map cHdr).length := by
      rw [List.length_map]; omega
    have hne : 0 < (m.childHdrs.drop ((m.childHdrs.length + 1) / 2)).length := by
      rw [List.length_drop]; omega
    have emul : Int.ofNat ((m.childHdrs.length + 1) / 2) * Int.ofNat Gen.mapSlabHeaderSize =
        Int.ofNat ((m.childHdrs.length + 1) / 2 * Gen.mapSlabHeaderSize) := by simp
    simp only [hl, decide_false, if_false, Bool.false_eq_true, Option.isNone_none, Bool.not_true,
      msl_split_eq _ _ hlen, ← List.map_drop, ← List.map_take, msl_goIdx_zero_hdrs _ hne, emul, u32_ofInt]
    simp only [cHdr, u32, UInt32.ofNat_add, UInt32.ofNat_sub hcov']

/-! ## LendToRight -/

/-- `MapMetaDataSlab.LendToRight` IN FULL.  Needs: the move count `len(left) - (len(left)+len(right))/2` is not
    negative (`lendToRight` slices `left[len(left)-count:]`) and there is at least one child in all (the code reads
    `rightSlab.childrenHeaders[0]`).  No range hypothesis: the new sizes are sums and products. -/
theorem MapMetaDataSlab_LendToRight_full_eq_model (env : Env E V W X S ε) (l r : MMetaSlab α) (x y : Option X)
    (hmv : r.childHdrs.length ≤ l.childHdrs.length + 1)
    (hne : 0 < l.childHdrs.length + r.childHdrs.length) :
    MapMetaDataSlab_LendToRight env (cMeta l x) (.metaSlab (cMeta r y)) =
      some (none, cMeta (MMetaSlab.lendToRight l r).1 x, .metaSlab (cMeta (MMetaSlab.lendToRight l r).2 y)) := by
  simp only [MapMetaDataSlab_LendToRight, MMetaSlab.lendToRight, cMeta, List.length_map, msl_tdivHalf]
  have esub : Int.ofNat (l.childHdrs.length + r.childHdrs.length) -
      Int.ofNat ((l.childHdrs.length + r.childHdrs.length) / 2) =
      Int.ofNat (l.childHdrs.length + r.childHdrs.length - (l.childHdrs.length + r.childHdrs.length) / 2) := by
    simp only [Int.ofNat_eq_natCast]; omega
  have eadd : Int.ofNat l.childHdrs.length + Int.ofNat r.childHdrs.length =
      Int.ofNat (l.childHdrs.length + r.childHdrs.length) := by simp
  have emv : Int.ofNat l.childHdrs.length - Int.ofNat ((l.childHdrs.length + r.childHdrs.length) / 2) =
      Int.ofNat (l.childHdrs.length - (l.childHdrs.length + r.childHdrs.length) / 2) := by
    simp only [Int.ofNat_eq_natCast]; omega
  have hc : l.childHdrs.length - (l.childHdrs.length + r.childHdrs.length) / 2 ≤ (l.childHdrs.map cHdr).length := by
    rw [List.length_map]; omega
  have hk : l.childHdrs.length - (l.childHdrs.length - (l.childHdrs.length + r.childHdrs.length) / 2) =
      (l.childHdrs.length + r.childHdrs.length) / 2 := by omega
  have hne' : 0 < (l.childHdrs.drop ((l.childHdrs.length + r.childHdrs.length) / 2) ++ r.childHdrs).length := by
    rw [List.length_append, List.length_drop]; omega
  simp only [eadd, esub, emv, msl_lendToRight_eq _ _ _ hc, List.length_map, hk, ← List.map_drop, ← List.map_take,
    ← List.map_append, msl_goIdx_zero_hdrs _ hne', msl_metaSize_u32]
  simp only [cHdr]

/-- outside the hypothesis on the move count the code panics (the model does not: it lends nothing) -/
theorem MapMetaDataSlab_LendToRight_panics (env : Env E V W X S ε) (l r : MMetaSlab α) (x y : Option X)
    (hmv : l.childHdrs.length + 1 < r.childHdrs.length) :
    MapMetaDataSlab_LendToRight env (cMeta l x) (.metaSlab (cMeta r y)) = none := by
  simp only [MapMetaDataSlab_LendToRight, cMeta, List.length_map, msl_tdivHalf]
  rw [msl_lendToRight_neg _ _ _ (by simp only [Int.ofNat_eq_natCast]; omega)]

/-- ... and with no child at all it panics on `rightSlab.childrenHeaders[0]` -/
theorem MapMetaDataSlab_LendToRight_panics_empty (env : Env E V W X S ε) (l r : MMetaSlab α) (x y : Option X)
    (hl : l.childHdrs = []) (hr : r.childHdrs = []) :
    MapMetaDataSlab_LendToRight env (cMeta l x) (.metaSlab (cMeta r y)) = none := by
  simp [MapMetaDataSlab_LendToRight, cMeta, hl, hr, lendToRight, goSlice, goSlicesInsert, goSlicesDelete, goIdx]

/-! ## BorrowFromRight -/

/-- `MapMetaDataSlab.BorrowFromRight` IN FULL.  Needs: the move count `(len(left)+len(right))/2 - len(left)` is not
    negative (`borrowFromRight` slices `right[:count]`) and the right slab has a child (the code reads
    `rightSlab.childrenHeaders[0]` after the move; with `len(left) ≤ len(right)` at least one child stays). -/
theorem MapMetaDataSlab_BorrowFromRight_full_eq_model (env : Env E V W X S ε) (l r : MMetaSlab α) (x y : Option X)
    (hmv : l.childHdrs.length ≤ r.childHdrs.length)
    (hne : 0 < r.childHdrs.length) :
    MapMetaDataSlab_BorrowFromRight env (cMeta l x) (.metaSlab (cMeta r y)) =
      some (none, cMeta (MMetaSlab.borrowFromRight l r).1 x,
        .metaSlab (cMeta (MMetaSlab.borrowFromRight l r).2 y)) := by
  simp only [MapMetaDataSlab_BorrowFromRight, MMetaSlab.borrowFromRight, cMeta, List.length_map, msl_tdivHalf]
  have esub : Int.ofNat (l.childHdrs.length + r.childHdrs.length) -
      Int.ofNat ((l.childHdrs.length + r.childHdrs.length) / 2) =
      Int.ofNat (l.childHdrs.length + r.childHdrs.length - (l.childHdrs.length + r.childHdrs.length) / 2) := by
    simp only [Int.ofNat_eq_natCast]; omega
  have eadd : Int.ofNat l.childHdrs.length + Int.ofNat r.childHdrs.length =
      Int.ofNat (l.childHdrs.length + r.childHdrs.length) := by simp
  have emv : Int.ofNat ((l.childHdrs.length + r.childHdrs.length) / 2) - Int.ofNat l.childHdrs.length =
      Int.ofNat ((l.childHdrs.length + r.childHdrs.length) / 2 - l.childHdrs.length) := by
    simp only [Int.ofNat_eq_natCast]; omega
  have hc : (l.childHdrs.length + r.childHdrs.length) / 2 - l.childHdrs.length ≤ (r.childHdrs.map cHdr).length := by
    rw [List.length_map]; omega
  have hne' : 0 < (r.childHdrs.drop ((l.childHdrs.length + r.childHdrs.length) / 2 - l.childHdrs.length)).length := by
    rw [List.length_drop]; omega
  simp only [eadd, esub, emv, msl_borrowFromRight_eq _ _ _ hc, ← List.map_drop, ← List.map_take,
    ← List.map_append, msl_goIdx_zero_hdrs _ hne', msl_metaSize_u32]
  simp only [cHdr]

/-- outside the hypothesis on the move count the code panics (the model does not: it moves nothing but still
    rewrites both sizes) -/
theorem MapMetaDataSlab_BorrowFromRight_panics (env : Env E V W X S ε) (l r : MMetaSlab α) (x y : Option X)
    (hmv : r.childHdrs.length < l.childHdrs.length) :
    MapMetaDataSlab_BorrowFromRight env (cMeta l x) (.metaSlab (cMeta r y)) = none := by
  simp only [MapMetaDataSlab_BorrowFromRight, cMeta, List.length_map, msl_tdivHalf]
  rw [msl_borrowFromRight_neg _ _ _ (by simp only [Int.ofNat_eq_natCast]; omega)]

/-- ... and with no child at all it panics on `rightSlab.childrenHeaders[0]` -/
theorem MapMetaDataSlab_BorrowFromRight_panics_empty (env : Env E V W X S ε) (l r : MMetaSlab α) (x y : Option X)
    (hl : l.childHdrs = []) (hr : r.childHdrs = []) :
    MapMetaDataSlab_BorrowFromRight env (cMeta l x) (.metaSlab (cMeta r y)) = none := by
  simp [MapMetaDataSlab_BorrowFromRight, cMeta, hl, hr, borrowFromRight, goSlice, goSlicesInsert, goIdx]

/-! ## updateChildrenHeadersAfterMerge -/

/-- `MapMetaDataSlab.updateChildrenHeadersAfterMerge`: `childrenHeaders[li] = h`, then `childrenHeaders[ri]` deleted -
    the `childHdrs` update of the model's `MMetaSlab.mergeChildren`; header and extra data untouched -/
theorem MapMetaDataSlab_updateChildrenHeadersAfterMerge_eq (env : Env E V W X S ε) (m : MMetaSlab α) (x : Option X)
    (h : MHdr) (li ri : Nat) (hli : li < m.childHdrs.length) (hri : ri < m.childHdrs.length) :
    MapMetaDataSlab_updateChildrenHeadersAfterMerge env (cMeta m x) (cHdr h) (Int.ofNat li) (Int.ofNat ri) =
      some (cMeta { m with childHdrs := (m.childHdrs.set li h).eraseIdx ri } x) := by
  have hr : goInRange (m.childHdrs.map cHdr) (Int.ofNat li) = true := by
    simp only [goInRange, List.length_map, Bool.and_eq_true, decide_eq_true_eq, Int.ofNat_eq_natCast]
    omega
  have hri' : ri < ((m.childHdrs.map cHdr).set li (cHdr h)).length := by
    rw [List.length_set, List.length_map]; exact hri
  have eli : (Int.ofNat li).toNat = li := rfl
  simp only [MapMetaDataSlab_updateChildrenHeadersAfterMerge, cMeta, hr, if_true, eli, msl_goSlicesDelete_one _ _ hri']
  simp [List.eraseIdx_eq_take_drop_succ, List.map_take, List.map_drop]

/-- the same with the generated record spelled out (the form a proof about `mergeChildren`, which also changes the
    header, rewrites with) -/
theorem MapMetaDataSlab_updateChildrenHeadersAfterMerge_eq' (env : Env E V W X S ε) (m : MMetaSlab α) (x : Option X)
    (h : MHdr) (li ri : Nat) (hli : li < m.childHdrs.length) (hri : ri < m.childHdrs.length) :
    MapMetaDataSlab_updateChildrenHeadersAfterMerge env (cMeta m x) (cHdr h) (Int.ofNat li) (Int.ofNat ri) =
      some { cMeta m x with childrenHeaders := ((m.childHdrs.set li h).eraseIdx ri).map cHdr } :=
  MapMetaDataSlab_updateChildrenHeadersAfterMerge_eq env m x h li ri hli hri

end metaSlab

/-! ## non-vacuity: the hypotheses are satisfiable and the generated code computes the expected values -/

section examples

/-- a storage environment that satisfies `EnvS` (every other parameter is a dummy) -/
private def msl_envEx : Env Unit Unit Unit Unit Ctx GE where
  Digester_Levels := 0
  MapSlab_CanLendToLeft := fun _ _ => false
  MapSlab_CanLendToRight := fun _ _ => false
  NewHashLevelErrorf := none
  NewKeyNotFoundError := none
  NewNotApplicableError := some .notApplicable
  NewSlabDataErrorf := none
  NewSlabMergeError := some .slabMerge
  NewSlabNotFoundErrorf := none
  NewSlabRebalanceError := some .slabRebalance
  NewSlabRebalanceErrorf := some .slabRebalance
  NewSlabSplitErrorf := some .slabSplit
  SlabStorage_GenerateSlabID := fun c a => ((c.alloc a).1, none, (c.alloc a).2)
  SlabStorage_Remove := fun c id => (none, c.emit (.remove id))
  SlabStorage_Retrieve := fun c _ => (.nil, false, none, c)
  SlabStorage_Store := fun c id _ => (none, c.emit (.store id))
  Storable_ByteSize := fun _ => 0
  ValueComparator := fun c _ _ => (false, none, c)
  Value_Storable := fun _ c _ _ => (none, none, c)
  element_Size := fun _ => 0
  maxInlineMapValueSize := fun x => x
  minThreshold := 0
  newSingleElement := fun c _ _ _ => ({}, none, c)
  wrapErrorfAsExternalErrorIfNeeded := fun e => e

private theorem msl_envEx_EnvS : EnvS msl_envEx := ⟨fun _ _ => rfl, fun _ _ _ => rfl, fun _ _ => rfl, rfl⟩

/-- child header `i` of the examples: slab ID (1, i), size 100, first key 10 * i -/
private def msl_hdrEx (i : Nat) : MHdr := { id := ⟨1, i⟩, size := 100, firstKey := 10 * i }

/-- an index slab with slab ID (1, id) and the children `is`, its size consistent with the number of children -/
private def msl_metaEx (id : Nat) (is : List Nat) : MMetaSlab Unit :=
  { hdr := { id := ⟨1, id⟩, size := 12 + 18 * is.length, firstKey := 10 * is.headD 0 },
    childHdrs := is.map msl_hdrEx, children := is.map (fun _ => ()), root := false }

/-- what the examples look at: slab ID index, size, first key, slab ID indices of the children -/
private def msl_obs (m : MapMetaDataSlab Unit) : Nat × Nat × Nat × List Nat :=
  (m.header.slabID.idx, m.header.size.toNat, m.header.firstKey.toNat, m.childrenHeaders.map (·.slabID.idx))

private def msl_obsSlab : MapSlab Unit Unit Unit → Option (Nat × Nat × Nat × List Nat)
  | .metaSlab m => some (msl_obs m)
  | _ => none

/-- Merge: theorem instantiated, and the generated code evaluated -/
example : MapMetaDataSlab_Merge msl_envEx (cMeta (msl_metaEx 7 [1, 2]) none) (.metaSlab (cMeta (msl_metaEx 8 [3, 4, 5]) none)) =
    some (none, cMeta (MMetaSlab.merge (msl_metaEx 7 [1, 2]) (msl_metaEx 8 [3, 4, 5])) none) :=
  MapMetaDataSlab_Merge_full_eq_model msl_envEx _ _ _ _ (by decide)
example : (MapMetaDataSlab_Merge msl_envEx (cMeta (msl_metaEx 7 [1, 2]) none)
    (.metaSlab (cMeta (msl_metaEx 8 [3, 4, 5]) none))).map (fun p => (p.1, msl_obs p.2)) =
      some (none, 7, 12 + 18 * 5, 10, [1, 2, 3, 4, 5]) := by rfl

/-- Split: 5 children, 3 stay; the new slab gets the next slab ID of the storage (counter 40 -> 41) -/
example : MapMetaDataSlab_Split msl_envEx (cMeta (msl_metaEx 7 [1, 2, 3, 4, 5]) (some ())) ⟨40, [], []⟩ =
    match (msl_metaEx 7 [1, 2, 3, 4, 5]).split ⟨40, [], []⟩ with
    | .error e => some (.nil, .nil, some e, cMeta (msl_metaEx 7 [1, 2, 3, 4, 5]) (some ()), ⟨40, [], []⟩)
    | .ok (l, r, c') => some (.metaSlab (cMeta l (some ())), .metaSlab (cMeta r none), none, cMeta l (some ()), c') :=
  MapMetaDataSlab_Split_full_eq_model msl_envEx msl_envEx_EnvS rfl _ _ _ (by decide)
example : (MapMetaDataSlab_Split msl_envEx (cMeta (msl_metaEx 7 [1, 2, 3, 4, 5]) (some ())) ⟨40, [], []⟩).map
    (fun p => (msl_obsSlab p.1, msl_obsSlab p.2.1, p.2.2.1, msl_obs p.2.2.2.1, p.2.2.2.2.ctr, p.2.2.2.2.eff)) =
      some (some (7, 12 + 18 * 3, 10, [1, 2, 3]), some (41, 12 + 18 * 2, 40, [4, 5]), none,
        (7, 12 + 18 * 3, 10, [1, 2, 3]), 41, [.alloc 1 ⟨1, 41⟩]) := by rfl
/-- Split of a slab with one child: the error, nothing changed -/
example : (MapMetaDataSlab_Split msl_envEx (cMeta (msl_metaEx 7 [1]) none) ⟨40, [], []⟩).map
    (fun p => (msl_obsSlab p.1, msl_obsSlab p.2.1, p.2.2.1, msl_obs p.2.2.2.1, p.2.2.2.2.ctr, p.2.2.2.2.eff)) =
      some (none, none, some .slabSplit, (7, 12 + 18, 10, [1]), 40, []) := by rfl

/-- LendToRight: 4 + 1 children -> 2 + 3 -/
example : MapMetaDataSlab_LendToRight msl_envEx (cMeta (msl_metaEx 7 [1, 2, 3, 4]) none) (.metaSlab (cMeta (msl_metaEx 8 [5]) none)) =
    some (none, cMeta (MMetaSlab.lendToRight (msl_metaEx 7 [1, 2, 3, 4]) (msl_metaEx 8 [5])).1 none,
      .metaSlab (cMeta (MMetaSlab.lendToRight (msl_metaEx 7 [1, 2, 3, 4]) (msl_metaEx 8 [5])).2 none)) :=
  MapMetaDataSlab_LendToRight_full_eq_model msl_envEx _ _ _ _ (by decide) (by decide)
example : (MapMetaDataSlab_LendToRight msl_envEx (cMeta (msl_metaEx 7 [1, 2, 3, 4]) none)
    (.metaSlab (cMeta (msl_metaEx 8 [5]) none))).map (fun p => (p.1, msl_obs p.2.1, msl_obsSlab p.2.2)) =
      some (none, (7, 12 + 18 * 2, 10, [1, 2]), some (8, 12 + 18 * 3, 30, [3, 4, 5])) := by rfl

/-- BorrowFromRight: 1 + 4 children -> 2 + 3 -/
example : MapMetaDataSlab_BorrowFromRight msl_envEx (cMeta (msl_metaEx 7 [1]) none) (.metaSlab (cMeta (msl_metaEx 8 [2, 3, 4, 5]) none)) =
    some (none, cMeta (MMetaSlab.borrowFromRight (msl_metaEx 7 [1]) (msl_metaEx 8 [2, 3, 4, 5])).1 none,
      .metaSlab (cMeta (MMetaSlab.borrowFromRight (msl_metaEx 7 [1]) (msl_metaEx 8 [2, 3, 4, 5])).2 none)) :=
  MapMetaDataSlab_BorrowFromRight_full_eq_model msl_envEx _ _ _ _ (by decide) (by decide)
example : (MapMetaDataSlab_BorrowFromRight msl_envEx (cMeta (msl_metaEx 7 [1]) none)
    (.metaSlab (cMeta (msl_metaEx 8 [2, 3, 4, 5]) none))).map (fun p => (p.1, msl_obs p.2.1, msl_obsSlab p.2.2)) =
      some (none, (7, 12 + 18 * 2, 10, [1, 2]), some (8, 12 + 18 * 3, 30, [3, 4, 5])) := by rfl

/-- updateChildrenHeadersAfterMerge: child 1 replaced by the merged header, child 2 deleted -/
example : (MapMetaDataSlab_updateChildrenHeadersAfterMerge msl_envEx (cMeta (msl_metaEx 7 [1, 2, 3, 4]) none)
    (cHdr (msl_hdrEx 9)) (Int.ofNat 1) (Int.ofNat 2)).map msl_obs = some (7, 12 + 18 * 4, 10, [1, 9, 4]) := by rfl

/-! ### where the code and the model part outside the hypotheses (concrete inputs) -/

/-- Merge with a right header size below the prefix size (here 0): Go's `0 - 12` wraps around, so the new size is
    `100 + 2^32 - 12` modulo 2^32 = 88; the model's truncated subtraction leaves 100 -/
example : (MapMetaDataSlab_Merge msl_envEx (cMeta ({ hdr := ⟨⟨1, 7⟩, 100, 0⟩, childHdrs := [], children := [], root := false } : MMetaSlab Unit) none)
      (.metaSlab (cMeta ({ hdr := ⟨⟨1, 8⟩, 0, 0⟩, childHdrs := [], children := [], root := false } : MMetaSlab Unit) none))).map
        (fun p => p.2.header.size.toNat) = some 88 ∧
    (MMetaSlab.merge ({ hdr := ⟨⟨1, 7⟩, 100, 0⟩, childHdrs := [], children := [], root := false } : MMetaSlab Unit)
      { hdr := ⟨⟨1, 8⟩, 0, 0⟩, childHdrs := [], children := [], root := false }).hdr.size = 100 := ⟨by rfl, by rfl⟩

/-- Split with a header size that does not cover the child headers that stay left (size 10, 2 children, one stays):
    Go's `10 - 18` wraps around, the right slab gets the size `2^32 - 8`; the model's truncated subtraction gives 0 -/
example : (MapMetaDataSlab_Split msl_envEx (cMeta ({ hdr := ⟨⟨1, 7⟩, 10, 0⟩, childHdrs := [msl_hdrEx 1, msl_hdrEx 2], children := [(), ()], root := false } : MMetaSlab Unit) none)
      ⟨40, [], []⟩).map (fun p => (msl_obsSlab p.2.1).map (·.2.1)) = some (some (2 ^ 32 - 8)) ∧
    (match MMetaSlab.split ({ hdr := ⟨⟨1, 7⟩, 10, 0⟩, childHdrs := [msl_hdrEx 1, msl_hdrEx 2], children := [(), ()], root := false } : MMetaSlab Unit) ⟨40, [], []⟩ with
     | .ok (_, r, _) => some r.hdr.size
     | .error _ => none) = some 0 := ⟨by rfl, by rfl⟩

/-- LendToRight with 1 + 3 children: the move count is -1, Go panics; the model lends nothing (1 + 3 children stay,
    sizes recomputed for 2 + 2) -/
example : MapMetaDataSlab_LendToRight msl_envEx (cMeta (msl_metaEx 7 [1]) none) (.metaSlab (cMeta (msl_metaEx 8 [2, 3, 4]) none)) = none ∧
    ((MMetaSlab.lendToRight (msl_metaEx 7 [1]) (msl_metaEx 8 [2, 3, 4])).1.childHdrs.length,
     (MMetaSlab.lendToRight (msl_metaEx 7 [1]) (msl_metaEx 8 [2, 3, 4])).2.childHdrs.length) = (1, 3) :=
  ⟨MapMetaDataSlab_LendToRight_panics msl_envEx _ _ _ _ (by decide), by decide⟩

/-- BorrowFromRight with 3 + 1 children: the move count is -1, Go panics; the model moves nothing -/
example : MapMetaDataSlab_BorrowFromRight msl_envEx (cMeta (msl_metaEx 7 [1, 2, 3]) none) (.metaSlab (cMeta (msl_metaEx 8 [4]) none)) = none ∧
    ((MMetaSlab.borrowFromRight (msl_metaEx 7 [1, 2, 3]) (msl_metaEx 8 [4])).1.childHdrs.length,
     (MMetaSlab.borrowFromRight (msl_metaEx 7 [1, 2, 3]) (msl_metaEx 8 [4])).2.childHdrs.length) = (3, 1) :=
  ⟨MapMetaDataSlab_BorrowFromRight_panics msl_envEx _ _ _ _ (by decide), by decide⟩

end examples

end Atree.TransEq
