import AtreeProofs.Codec.RoundTrip
import AtreeProofs.Codec.HeadG
import AtreeProofs.Codec.RoundTripD
import AtreeProofs.Codec.RoundTripW
/-
  C07 — Slab encoding is canonical, self-describing and round-trips exactly.
  PROPERTY THEOREMS about the byte-level model (`AtreeModel/Codec`).

  Round trip / re-encoding: standalone array data slabs (root / non-root, with or without sibling
  link), array index slabs and large-value slabs (`SlabOK`; it is `False` for the kinds of the
  second part of the model, which have their own theorems).  The hypotheses `DataOK` / `MetaOK` /
  `validElem` collect what the encoder relies on (field widths, `count = len(elements)`,
  `size = prefix + Σ sizes`, children share the parent's address, …); they follow from the tree
  invariant of C05 (`C06.no_uint16_truncation` for the two `uint16` casts).

  Header flags (`flags_truthful`): ALL slab kinds of the model, without hypothesis — array and map
  data / index slabs, collision-group slabs, large-value slabs, with inlined children and wrappers;
  "has pointers" means a slab reference anywhere inside an element (inside a wrapper, inside an
  inlined array or map at any depth, or an external collision group).
-/
namespace Atree.C07
open Atree Atree.Codec Atree.Gen

/-- Decoding the encoding of a data slab gives the slab back (with `make(n)` for its `n` elements). -/
theorem decode_encode_data (ty : TyInfo) (s : DataSlab) (ok : DataOK ty s) (n : Nat) :
    decodeSlab s.hdr.id (encodeDataSlab ty s) n
      = .ok (.data (if s.root then some ty else none) s) (n + s.elems.length) := by
  have := decodeSlab_encodeDataSlab ty s ok [] n
  simpa using this

/-- Decoding the encoding of an index slab gives the slab back. -/
theorem decode_encode_meta (ty : TyInfo) (m : MetaSlab Unit) (ok : MetaOK ty m) (n : Nat) :
    decodeSlab m.hdr.id (encodeMetaSlab ty m) n
      = .ok (.index (if m.root then some ty else none) m) (n + m.childHdrs.length + m.childHdrs.length) := by
  have := decodeSlab_encodeMetaSlab ty m ok [] n
  simpa using this

/-- Decoding the encoding of a large-value slab gives the slab back. -/
theorem decode_encode_storable (id : SlabID) (e : Elem) (hv : validElem e) (n : Nat) :
    decodeSlab id (encodeStorableSlab e) n = .ok (.storable id e) n := by
  have := decodeSlab_encodeStorableSlab id e hv [] n
  simpa using this

/-- Round trip for every modelled slab kind. -/
theorem decode_encode (s : Slab) (ok : SlabOK s) (n : Nat) :
    decodeSlab s.id (encodeSlab s) n = .ok s (n + s.decodeAllocs) :=
  decodeSlab_encodeSlab s ok n

/-- Re-encoding whatever the decoder returns for a register produced by the encoder yields the
    identical byte string. -/
theorem reencode_fixpoint (s : Slab) (ok : SlabOK s) (n : Nat) (s' : Slab) (k : Nat)
    (h : decodeSlab s.id (encodeSlab s) n = .ok s' k) : encodeSlab s' = encodeSlab s := by
  rw [decodeSlab_encodeSlab s ok n] at h
  cases h
  rfl

/-- is the slab the root of a value (does it carry extra data) -/
def isRoot : Slab → Bool
  | .data _ s => s.root
  | .index _ m => m.root
  | .storable _ _ => false
  | .adata a => a.ty.isSome
  | .mdata m => m.extra.isSome
  | .mindex m => m.extra.isSome
  | .storableG _ _ => false

/-- does some *element* of the slab refer to another slab (`SlabIDStorable`); an index slab has no
    elements — its children are named in child headers, and `ArrayMetaDataSlab.Encode` never sets
    the flag -/
def hasRefElem : Slab → Bool
  | .data _ s => s.elems.any elemIsRef
  | .index _ _ => false
  | .storable _ e => elemIsRef e
  -- the kinds of the second part: a reference anywhere inside an element — directly, inside a wrapper,
  -- inside an inlined array / map at any depth, or an external collision group (`Stor.hasPtr`)
  | .adata a => anyPtrSts a.elems
  | .mdata m => m.els.hasPtr
  | .mindex _ => false
  | .storableG _ s => s.hasPtr

/-- is the slab exempt from the size limit: a large-value slab, or — among the kinds of the second
    part — a map data slab flagged `anySize` (the slab of an external collision group) -/
def isStorable : Slab → Bool
  | .storable _ _ => true
  | .storableG _ _ => true
  | .mdata m => m.anySize
  | _ => false

theorem headOf_cons2 (b0 b1 : Nat) (tail : Bytes) : headOf (b0 :: b1 :: tail) = pure ⟨b0, b1⟩ := by
  unfold headOf
  have h2 : ¬ (b0 :: b1 :: tail).length < versionAndFlagSize := by simp [versionAndFlagSize]
  rw [if_neg h2]
  unfold sliceTo
  rw [if_pos (by simp [versionAndFlagSize])]
  simp only [DM.pure_bind, versionAndFlagSize, List.take_succ_cons, List.take_zero, newHeadFromData]

/-- The three header queries on the raw register describe the slab's content: root flag ⇔ the
    slab carries extra data, has-pointers ⇔ some element is a slab reference, size-limit ⇔ the slab
    is not a large-value slab.  (No hypothesis on the slab: only the two head bytes matter.) -/
theorem flags_truthful (s : Slab) (n : Nat) :
    isRootOfAnObject (encodeSlab s) n = .ok (isRoot s) n ∧
    hasPointers (encodeSlab s) n = .ok (hasRefElem s) n ∧
    hasSizeLimit (encodeSlab s) n = .ok (!isStorable s) n := by
  cases s with
  | data ty d =>
    have hf := head_data_facts (decide (d.next ≠ SlabID.undef)) (d.elems.any elemIsRef) d.root
    simp only at hf
    simp only [encodeSlab, encodeDataSlab, List.cons_append, List.nil_append, isRootOfAnObject,
      Codec.hasPointers, hasSizeLimit, headOf_cons2, DM.pure_bind, isRoot, hasRefElem, isStorable]
    rw [hf.2.2.2.1, hf.2.2.2.2.1, hf.2.2.2.2.2.1]
    exact ⟨rfl, rfl, rfl⟩
  | index ty m =>
    have hf := head_meta_facts m.root
    simp only at hf
    simp only [encodeSlab, encodeMetaSlab, List.cons_append, List.nil_append, isRootOfAnObject,
      Codec.hasPointers, hasSizeLimit, headOf_cons2, DM.pure_bind, isRoot, hasRefElem, isStorable]
    rw [hf.2.2.2.1, hf.2.2.2.2.1, hf.2.2.2.2.2]
    exact ⟨rfl, rfl, rfl⟩
  | storable id e =>
    have hf := head_storable_facts (elemIsRef e)
    simp only at hf
    simp only [encodeSlab, encodeStorableSlab, List.cons_append, List.nil_append, isRootOfAnObject,
      Codec.hasPointers, hasSizeLimit, headOf_cons2, DM.pure_bind, isRoot, hasRefElem, isStorable]
    rw [hf.2.1, hf.2.2.1, hf.2.2.2]
    exact ⟨rfl, rfl, rfl⟩
  | adata a =>
    have hf := head_adata_facts (decide (a.next ≠ SlabID.undef)) (!(encSts a.elems []).2.isEmpty)
      (anyPtrSts a.elems) a.ty.isSome
    simp only at hf
    simp only [encodeSlab, encodeArrData, List.cons_append, List.nil_append, isRootOfAnObject,
      Codec.hasPointers, hasSizeLimit, headOf_cons2, DM.pure_bind, isRoot, hasRefElem, isStorable]
    rw [hf.2.2.2.1, hf.2.2.2.2.1, hf.2.2.2.2.2.1]
    exact ⟨rfl, rfl, rfl⟩
  | mdata m =>
    have hf := head_mdata_facts (decide (m.next ≠ SlabID.undef)) (!(encMEls m.els []).2.isEmpty)
      m.group m.els.hasPtr m.anySize m.extra.isSome
    simp only at hf
    simp only [encodeSlab, encodeMapData, List.cons_append, List.nil_append, isRootOfAnObject,
      Codec.hasPointers, hasSizeLimit, headOf_cons2, DM.pure_bind, isRoot, hasRefElem, isStorable]
    rw [hf.2.2.2.1, hf.2.2.2.2.1, hf.2.2.2.2.2.1]
    exact ⟨rfl, rfl, rfl⟩
  | mindex m =>
    have hf := head_mmeta_facts m.extra.isSome
    simp only at hf
    simp only [encodeSlab, encodeMapMeta, List.cons_append, List.nil_append, isRootOfAnObject,
      Codec.hasPointers, hasSizeLimit, headOf_cons2, DM.pure_bind, isRoot, hasRefElem, isStorable]
    rw [hf.2.2.2.1, hf.2.2.2.2.1, hf.2.2.2.2.2]
    exact ⟨rfl, rfl, rfl⟩
  | storableG id x =>
    have hf := head_storable_facts x.hasPtr
    simp only at hf
    simp only [encodeSlab, encodeStorableSlabG, List.cons_append, List.nil_append, isRootOfAnObject,
      Codec.hasPointers, hasSizeLimit, headOf_cons2, DM.pure_bind, isRoot, hasRefElem, isStorable]
    rw [hf.2.1, hf.2.2.1, hf.2.2.2]
    exact ⟨rfl, rfl, rfl⟩

/-- A version-1 data slab register with extra bytes after the elements is rejected
    ("Check if data reached EOF", array_data_slab_decode.go). -/
theorem decode_rejects_trailing (ty : TyInfo) (s : DataSlab) (ok : DataOK ty s) (extra : Bytes)
    (hex : extra ≠ []) (n : Nat) :
    decodeSlab s.hdr.id (encodeDataSlab ty s ++ extra) n = .error .decoding (n + s.elems.length) := by
  rw [decodeSlab_encodeDataSlab ty s ok extra n, if_pos hex]

/-- An index slab register with extra bytes after the child headers is rejected (length check). -/
theorem decode_rejects_trailing_meta (ty : TyInfo) (m : MetaSlab Unit) (ok : MetaOK ty m) (extra : Bytes)
    (hex : extra ≠ []) (n : Nat) :
    decodeSlab m.hdr.id (encodeMetaSlab ty m ++ extra) n = .error .decoding n := by
  rw [decodeSlab_encodeMetaSlab ty m ok extra n, if_pos hex]

/-- OBSERVATION (not a violation of the property, which is about registers the library produced):
    a large-value slab register followed by arbitrary extra bytes is ACCEPTED and decodes to the
    same slab — the `slabStorable` branch of `DecodeSlab` has no end-of-data check, so this kind
    has more than one accepted byte string per slab. -/
theorem storable_accepts_trailing (id : SlabID) (e : Elem) (hv : validElem e) (extra : Bytes) (n : Nat) :
    decodeSlab id (encodeStorableSlab e ++ extra) n = .ok (.storable id e) n :=
  decodeSlab_encodeStorableSlab id e hv extra n

/-! ## Second part of the model: map slabs

  `MapMetaOK` / `MapDataOK` collect what encoder and decoder rely on: slab IDs, digests, counts and
  seeds fit their fixed-width fields; sizes fit `uint32`; children of an index slab share its
  address; an `hkeyElements` has one digest per element and fewer than 8192 of them, a
  `singleElements` is not empty; digest levels are below 24 (Go refuses levels above
  `maxDigestLevel`); the nesting of collision groups and wrappers stays within the CBOR library's
  limit of 32 levels (`MEls.vneed`); plain values are values of the harness.
  `MapDataOK.noInl`: keys and values are plain values, slab references and wrapped ones; slabs with
  inlined arrays / maps follow in the next section. -/

/-- Decoding the encoding of a map index slab gives the slab back. -/
theorem decode_encode_mindex (m : MapMeta) (ok : MapMetaOK m) (n : Nat) :
    decodeSlab m.id (encodeMapMeta m) n = .ok (.mindex m) (n + m.childHdrs.length) := by
  have := decodeSlab_encodeMapMeta m ok [] n
  simpa using this

/-- A map index slab register with extra bytes after the child headers is rejected (length check). -/
theorem decode_rejects_trailing_mindex (m : MapMeta) (ok : MapMetaOK m) (extra : Bytes) (hex : extra ≠ [])
    (n : Nat) : decodeSlab m.id (encodeMapMeta m ++ extra) n = .error .decoding n := by
  rw [decodeSlab_encodeMapMeta m ok extra n, if_pos hex]

/-- Decoding the encoding of a map data slab — root, non-root with or without sibling link, or the
    slab of an external collision group; `hkeyElements` with single elements, inline collision
    groups (nested), references to external collision groups; last-level `singleElements`; keys and
    values plain, slab references or wrapped — gives the slab back. -/
theorem decode_encode_mdata (s : MapData) (ok : MapDataOK s) (n : Nat) :
    decodeSlab s.id (encodeMapData s) n = .ok (.mdata s) (n + s.els.allocs) := by
  have := decodeSlab_encodeMapData s ok [] n
  simpa using this

/-- Re-encoding whatever the decoder returns for a register of a map slab yields the identical bytes. -/
theorem reencode_fixpoint_mdata (s : MapData) (ok : MapDataOK s) (n : Nat) (s' : Slab) (k : Nat)
    (h : decodeSlab s.id (encodeMapData s) n = .ok s' k) : encodeSlab s' = encodeMapData s := by
  rw [decode_encode_mdata s ok n] at h
  cases h
  rfl

theorem reencode_fixpoint_mindex (m : MapMeta) (ok : MapMetaOK m) (n : Nat) (s' : Slab) (k : Nat)
    (h : decodeSlab m.id (encodeMapMeta m) n = .ok s' k) : encodeSlab s' = encodeMapMeta m := by
  rw [decode_encode_mindex m ok n] at h
  cases h
  rfl

/-- A slab decoded from its register reports the same size as the slab that produced the register —
    including the non-root map data slab whose sibling link was omitted from the register (C06). -/
theorem decoded_size_eq_mdata (s : MapData) (ok : MapDataOK s) (n : Nat) :
    ∃ s' k, decodeSlab s.id (encodeMapData s) n = .ok s' k ∧ s'.byteSize = s.size :=
  ⟨_, _, decode_encode_mdata s ok n, rfl⟩

/-- OBSERVATION (not a violation of the property, which is about registers the library produced):
    a map data slab register followed by arbitrary extra bytes is ACCEPTED and decodes to the same
    slab — unlike the array data slab decoder ("Check if data reached EOF"), `newMapDataSlabFromDataV1`
    has no end-of-data check, so this kind has more than one accepted byte string per slab. -/
theorem mdata_accepts_trailing (s : MapData) (ok : MapDataOK s) (extra : Bytes) (n : Nat) :
    decodeSlab s.id (encodeMapData s ++ extra) n = .ok (.mdata s) (n + s.els.allocs) :=
  decodeSlab_encodeMapData s ok extra n

/-! ## Second part of the model: inlined arrays and maps, the shared inlined-extra-data section

  `MapDataOKI` / `ArrDataOKI`: as above, with `Stor.RTI` instead of `Stor.RT` (inlined slabs: valid
  type infos, slab indexes, counts, seeds; sizes fit `uint32`; element counts fit the fixed-width
  heads), `noCompact` (no inlined map is written in the compact form), at most 256 entries in the
  shared section (the extra-data index is one byte; Go refuses more), nesting within the CBOR
  library's limit (`vneedI`).  Inlined arrays and maps nest to any depth, inside wrappers, inside
  collision groups, as keys or values; array extra data is shared between same-typed children and a
  type info that occurs in more than one entry is written once and referred to by
  `CBORTagTypeInfoRef` — `newInlinedExtraDataFromData_enc` is the round trip of that section.
  The decoder is handed the complete entry list while the encoder assigned indexes to a growing
  list; `decStG_encI` relates the two. -/

/-- Decoding the encoding of a map data slab with inlined arrays / maps gives the slab back. -/
theorem decode_encode_mdata_inlined (s : MapData) (ok : MapDataOKI s) (n : Nat) :
    decodeSlab s.id (encodeMapData s) n
      = .ok (.mdata s) (n + iedAllocs (encMEls s.els []).2 + s.els.allocsI) := by
  have := decodeSlab_encodeMapDataI s ok [] n
  simpa using this

/-- Decoding the encoding of an array data slab with inlined arrays / maps gives the slab back. -/
theorem decode_encode_adata_inlined (a : ArrData) (ok : ArrDataOKI a) (n : Nat) :
    decodeSlab a.id (encodeArrData a) n
      = .ok (.adata a) (n + iedAllocs (encSts a.elems []).2 + a.elems.length + allocsISts a.elems) := by
  have := decodeSlab_encodeArrDataI a ok [] n
  simpa using this

/-- … and one with wrapped elements but no inlined slab (the has-inlined-slabs flag is clear). -/
theorem decode_encode_adata_wrapped (a : ArrData) (ok : ArrDataOKW a) (n : Nat) :
    decodeSlab a.id (encodeArrData a) n = .ok (.adata a) (n + a.elems.length + allocsISts a.elems) := by
  have := decodeSlab_encodeArrDataW a ok [] n
  simpa using this

/-- A large-value slab holding a wrapped value. -/
theorem decode_encode_storable_wrapped (id : SlabID) (x : Stor) (hrt : x.RT) (hni : x.noInl)
    (hnest : x.vneed + 1 ≤ maxNestedLevels) (n : Nat) :
    decodeSlab id (encodeStorableSlabG (.some x)) n = .ok (.storableG id (.some x)) n := by
  have := decodeSlab_encodeStorableSlabG id x hrt hni hnest [] n
  simpa using this

/-- An array data slab register with inlined children followed by extra bytes is rejected. -/
theorem decode_rejects_trailing_adata_inlined (a : ArrData) (ok : ArrDataOKI a) (extra : Bytes)
    (hex : extra ≠ []) (n : Nat) :
    decodeSlab a.id (encodeArrData a ++ extra) n
      = .error .decoding (n + iedAllocs (encSts a.elems []).2 + a.elems.length + allocsISts a.elems) := by
  rw [decodeSlab_encodeArrDataI a ok extra n, if_pos hex]

/-- Re-encoding whatever the decoder returns for a register of a slab with inlined children yields
    the identical byte string. -/
theorem reencode_fixpoint_mdata_inlined (s : MapData) (ok : MapDataOKI s) (n : Nat) (s' : Slab) (k : Nat)
    (h : decodeSlab s.id (encodeMapData s) n = .ok s' k) : encodeSlab s' = encodeMapData s := by
  rw [decode_encode_mdata_inlined s ok n] at h
  cases h
  rfl

theorem reencode_fixpoint_adata_inlined (a : ArrData) (ok : ArrDataOKI a) (n : Nat) (s' : Slab) (k : Nat)
    (h : decodeSlab a.id (encodeArrData a) n = .ok s' k) : encodeSlab s' = encodeArrData a := by
  rw [decode_encode_adata_inlined a ok n] at h
  cases h
  rfl

/-- The shared inlined-extra-data section round-trips: array and map extra data in first-use order,
    duplicated type infos written once and referred to by `CBORTagTypeInfoRef`. -/
theorem decode_encode_inlined_extra_data (xs : List XD) (hx : XOK xs) (hne : xs ≠ []) (hlen : xs.length ≤ 256)
    (rest : Bytes) (n : Nat) :
    newInlinedExtraDataFromData (encodeIED xs ++ rest) n
      = .ok (xs, rest) (n + (findDuplicateTypeInfo xs).length + xs.length) :=
  newInlinedExtraDataFromData_enc xs hx hne hlen rest n

/-- PARTIAL with respect to the property text: the two theorems above cover every slab with inlined
    arrays / maps EXCEPT those in which some inlined map is written in the COMPACT form (tag 252,
    `compactMapExtraData`: same-typed composite maps sharing hoisted keys and digests).  For those
    the property allows the decoded children to adopt the shared seed and key order; the model
    implements exactly that (`decInlCMap`, `encFind`) and the `codec` stream compares, for every
    compact-encoded slab of every history, the model's bytes with `EncodeSlab`'s, the model's decoded
    form with `DecodeSlab`'s, and checks in Go that content is preserved up to seed and order and that
    re-encoding the decoded slab gives the register back — but there is no Lean theorem for the
    compact form beyond the length law `C06.enc_len_*_compact`.  Stated here so that the gap is
    visible in the theorem list: both non-compact round trips, as one statement. -/
theorem decode_encode_inlined_partial :
    (∀ (s : MapData), MapDataOKI s → ∀ n, decodeSlab s.id (encodeMapData s) n
        = .ok (.mdata s) (n + iedAllocs (encMEls s.els []).2 + s.els.allocsI)) ∧
    (∀ (a : ArrData), ArrDataOKI a → ∀ n, decodeSlab a.id (encodeArrData a) n
        = .ok (.adata a) (n + iedAllocs (encSts a.elems []).2 + a.elems.length + allocsISts a.elems)) :=
  ⟨decode_encode_mdata_inlined, decode_encode_adata_inlined⟩

end Atree.C07
