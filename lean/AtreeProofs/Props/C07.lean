import AtreeProofs.Codec.RoundTrip
import AtreeProofs.Codec.HeadG
import AtreeProofs.Codec.RoundTripD
import AtreeProofs.Codec.RoundTripW
import AtreeProofs.Codec.CmpSlab
import AtreeProofs.Codec.CmpFix
import AtreeProofs.Codec.SlabAll
/-
  C07 — Slab encoding is canonical, self-describing and round-trips exactly.
  PROPERTY THEOREMS about the byte-level model (`AtreeModel/Codec`).

  Round trip / re-encoding: standalone array data slabs (root / non-root, with or without sibling
  link), array index slabs and large-value slabs (`SlabOK`, `decode_encode_flat`), and — the
  general statements `decode_encode` / `reencode_fixpoint` — ALL SEVEN slab kinds under `SlabOKG`
  (Codec/SlabAll.lean: per kind the hypotheses of the kind-specific theorem below, for `.adata` /
  `.mdata` with the EXACT nesting clause `Slab.vdepth ≤ maxNestedLevels` — `MapDataOKX`, `ArrDataOKX`,
  `ArrDataOKWX`, implied by the `…OKC` / `…OKI` / `…OKW` / `MapDataOK` predicates below; never
  `False`; `SlabOK s → SlabOKG s`).  The hypotheses `DataOK` / `MetaOK` /
  `validElem` collect what the encoder relies on (field widths, `count = len(elements)`,
  `size = prefix + Σ sizes`, children share the parent's address, …); they follow from the tree
  invariant of C05 (`C06.no_uint16_truncation` for the two `uint16` casts).

  Header flags (`flags_truthful`): ALL slab kinds of the model, without hypothesis — array and map
  data / index slabs, collision-group slabs, large-value slabs, with inlined children and wrappers;
  "has pointers" means a slab reference anywhere inside an element (inside a wrapper, inside an
  inlined array or map at any depth, or an external collision group).
-/
namespace Atree.C07
open Atree Atree.Codec Atree.Gen

/-- Decoding the encoding of a data slab gives the slab back (with `make(n)` for its `n` elements). -/
theorem decode_encode_data (ty : TyInfo) (s : DataSlab) (ok : DataOK ty s) (n : Nat) :
    decodeSlab s.hdr.id (encodeDataSlab ty s) n
      = .ok (.data (if s.root then some ty else none) s) (n + s.elems.length) := by
  have := decodeSlab_encodeDataSlab ty s ok [] n
  simpa using this

/-- Decoding the encoding of an index slab gives the slab back. -/
theorem decode_encode_meta (ty : TyInfo) (m : MetaSlab Unit) (ok : MetaOK ty m) (n : Nat) :
    decodeSlab m.hdr.id (encodeMetaSlab ty m) n
      = .ok (.index (if m.root then some ty else none) m) (n + m.childHdrs.length + m.childHdrs.length) := by
  have := decodeSlab_encodeMetaSlab ty m ok [] n
  simpa using this

/-- Decoding the encoding of a large-value slab gives the slab back. -/
theorem decode_encode_storable (id : SlabID) (e : Elem) (hv : validElem e) (n : Nat) :
    decodeSlab id (encodeStorableSlab e) n = .ok (.storable id e) n := by
  have := decodeSlab_encodeStorableSlab id e hv [] n
  simpa using this

/-- Round trip for the three kinds of the first part (`SlabOK`). -/
theorem decode_encode_flat (s : Slab) (ok : SlabOK s) (n : Nat) :
    decodeSlab s.id (encodeSlab s) n = .ok s (n + s.decodeAllocs) :=
  decodeSlab_encodeSlab s ok n

/-- Round trip for ALL SEVEN slab kinds: decoding the register the encoder wrote gives the slab back
    — in its decoded form `normSlab s`, which is `s` itself unless an inlined map is written in the
    compact form (the documented exception: `normSlab_eq_of_noCompact`, `compact_child_shape`,
    `compact_child_extensional`); allocation count exact. -/
theorem decode_encode (s : Slab) (ok : SlabOKG s) (n : Nat) :
    decodeSlab s.id (encodeSlab s) n = .ok (normSlab s) (n + s.decodeAllocsG) :=
  decodeSlab_encodeSlab_all s ok n

/-- Re-encoding whatever the decoder returns for a register produced by the encoder yields the
    identical byte string: ALL SEVEN slab kinds, compact maps included. -/
theorem reencode_fixpoint (s : Slab) (ok : SlabOKG s) (n : Nat) (s' : Slab) (k : Nat)
    (h : decodeSlab s.id (encodeSlab s) n = .ok s' k) : encodeSlab s' = encodeSlab s := by
  rw [decodeSlab_encodeSlab_all s ok n] at h
  cases h
  exact encodeSlab_normSlab s ok

/-- is the slab the root of a value (does it carry extra data) -/
def isRoot : Slab → Bool
  | .data _ s => s.root
  | .index _ m => m.root
  | .storable _ _ => false
  | .adata a => a.ty.isSome
  | .mdata m => m.extra.isSome
  | .mindex m => m.extra.isSome
  | .storableG _ _ => false

/-- does some *element* of the slab refer to another slab (`SlabIDStorable`); an index slab has no
    elements — its children are named in child headers, and `ArrayMetaDataSlab.Encode` never sets
    the flag -/
def hasRefElem : Slab → Bool
  | .data _ s => s.elems.any elemIsRef
  | .index _ _ => false
  | .storable _ e => elemIsRef e
  -- the kinds of the second part: a reference anywhere inside an element — directly, inside a wrapper,
  -- inside an inlined array / map at any depth, or an external collision group (`Stor.hasPtr`)
  | .adata a => anyPtrSts a.elems
  | .mdata m => m.els.hasPtr
  | .mindex _ => false
  | .storableG _ s => s.hasPtr

/-- is the slab exempt from the size limit: a large-value slab, or — among the kinds of the second
    part — a map data slab flagged `anySize` (the slab of an external collision group) -/
def isStorable : Slab → Bool
  | .storable _ _ => true
  | .storableG _ _ => true
  | .mdata m => m.anySize
  | _ => false

theorem headOf_cons2 (b0 b1 : Nat) (tail : Bytes) : headOf (b0 :: b1 :: tail) = pure ⟨b0, b1⟩ := by
  unfold headOf
  have h2 : ¬ (b0 :: b1 :: tail).length < versionAndFlagSize := by simp [versionAndFlagSize]
  rw [if_neg h2]
  unfold sliceTo
  rw [if_pos (by simp [versionAndFlagSize])]
  simp only [DM.pure_bind, versionAndFlagSize, List.take_succ_cons, List.take_zero, newHeadFromData]

/-- The three header queries on the raw register describe the slab's content: root flag ⇔ the
    slab carries extra data, has-pointers ⇔ some element is a slab reference, size-limit ⇔ the slab
    is not a large-value slab.  (No hypothesis on the slab: only the two head bytes matter.) -/
theorem flags_truthful (s : Slab) (n : Nat) :
    isRootOfAnObject (encodeSlab s) n = .ok (isRoot s) n ∧
    hasPointers (encodeSlab s) n = .ok (hasRefElem s) n ∧
    hasSizeLimit (encodeSlab s) n = .ok (!isStorable s) n := by
  cases s with
  | data ty d =>
    have hf := head_data_facts (decide (d.next ≠ SlabID.undef)) (d.elems.any elemIsRef) d.root
    simp only at hf
    simp only [encodeSlab, encodeDataSlab, List.cons_append, List.nil_append, isRootOfAnObject,
      Codec.hasPointers, hasSizeLimit, headOf_cons2, DM.pure_bind, isRoot, hasRefElem, isStorable]
    rw [hf.2.2.2.1, hf.2.2.2.2.1, hf.2.2.2.2.2.1]
    exact ⟨rfl, rfl, rfl⟩
  | index ty m =>
    have hf := head_meta_facts m.root
    simp only at hf
    simp only [encodeSlab, encodeMetaSlab, List.cons_append, List.nil_append, isRootOfAnObject,
      Codec.hasPointers, hasSizeLimit, headOf_cons2, DM.pure_bind, isRoot, hasRefElem, isStorable]
    rw [hf.2.2.2.1, hf.2.2.2.2.1, hf.2.2.2.2.2]
    exact ⟨rfl, rfl, rfl⟩
  | storable id e =>
    have hf := head_storable_facts (elemIsRef e)
    simp only at hf
    simp only [encodeSlab, encodeStorableSlab, List.cons_append, List.nil_append, isRootOfAnObject,
      Codec.hasPointers, hasSizeLimit, headOf_cons2, DM.pure_bind, isRoot, hasRefElem, isStorable]
    rw [hf.2.1, hf.2.2.1, hf.2.2.2]
    exact ⟨rfl, rfl, rfl⟩
  | adata a =>
    have hf := head_adata_facts (decide (a.next ≠ SlabID.undef)) (!(encSts a.elems []).2.isEmpty)
      (anyPtrSts a.elems) a.ty.isSome
    simp only at hf
    simp only [encodeSlab, encodeArrData, List.cons_append, List.nil_append, isRootOfAnObject,
      Codec.hasPointers, hasSizeLimit, headOf_cons2, DM.pure_bind, isRoot, hasRefElem, isStorable]
    rw [hf.2.2.2.1, hf.2.2.2.2.1, hf.2.2.2.2.2.1]
    exact ⟨rfl, rfl, rfl⟩
  | mdata m =>
    have hf := head_mdata_facts (decide (m.next ≠ SlabID.undef)) (!(encMEls m.els []).2.isEmpty)
      m.group m.els.hasPtr m.anySize m.extra.isSome
    simp only at hf
    simp only [encodeSlab, encodeMapData, List.cons_append, List.nil_append, isRootOfAnObject,
      Codec.hasPointers, hasSizeLimit, headOf_cons2, DM.pure_bind, isRoot, hasRefElem, isStorable]
    rw [hf.2.2.2.1, hf.2.2.2.2.1, hf.2.2.2.2.2.1]
    exact ⟨rfl, rfl, rfl⟩
  | mindex m =>
    have hf := head_mmeta_facts m.extra.isSome
    simp only at hf
    simp only [encodeSlab, encodeMapMeta, List.cons_append, List.nil_append, isRootOfAnObject,
      Codec.hasPointers, hasSizeLimit, headOf_cons2, DM.pure_bind, isRoot, hasRefElem, isStorable]
    rw [hf.2.2.2.1, hf.2.2.2.2.1, hf.2.2.2.2.2]
    exact ⟨rfl, rfl, rfl⟩
  | storableG id x =>
    have hf := head_storable_facts x.hasPtr
    simp only at hf
    simp only [encodeSlab, encodeStorableSlabG, List.cons_append, List.nil_append, isRootOfAnObject,
      Codec.hasPointers, hasSizeLimit, headOf_cons2, DM.pure_bind, isRoot, hasRefElem, isStorable]
    rw [hf.2.1, hf.2.2.1, hf.2.2.2]
    exact ⟨rfl, rfl, rfl⟩

/-- A version-1 data slab register with extra bytes after the elements is rejected
    ("Check if data reached EOF", array_data_slab_decode.go). -/
theorem decode_rejects_trailing (ty : TyInfo) (s : DataSlab) (ok : DataOK ty s) (extra : Bytes)
    (hex : extra ≠ []) (n : Nat) :
    decodeSlab s.hdr.id (encodeDataSlab ty s ++ extra) n = .error .decoding (n + s.elems.length) := by
  rw [decodeSlab_encodeDataSlab ty s ok extra n, if_pos hex]

/-- An index slab register with extra bytes after the child headers is rejected (length check). -/
theorem decode_rejects_trailing_meta (ty : TyInfo) (m : MetaSlab Unit) (ok : MetaOK ty m) (extra : Bytes)
    (hex : extra ≠ []) (n : Nat) :
    decodeSlab m.hdr.id (encodeMetaSlab ty m ++ extra) n = .error .decoding n := by
  rw [decodeSlab_encodeMetaSlab ty m ok extra n, if_pos hex]

/-- OBSERVATION (not a violation of the property, which is about registers the library produced):
    a large-value slab register followed by arbitrary extra bytes is ACCEPTED and decodes to the
    same slab — the `slabStorable` branch of `DecodeSlab` has no end-of-data check, so this kind
    has more than one accepted byte string per slab. -/
theorem storable_accepts_trailing (id : SlabID) (e : Elem) (hv : validElem e) (extra : Bytes) (n : Nat) :
    decodeSlab id (encodeStorableSlab e ++ extra) n = .ok (.storable id e) n :=
  decodeSlab_encodeStorableSlab id e hv extra n

/-! ## Second part of the model: map slabs

  `MapMetaOK` / `MapDataOK` collect what encoder and decoder rely on: slab IDs, digests, counts and
  seeds fit their fixed-width fields; sizes fit `uint32`; children of an index slab share its
  address; an `hkeyElements` has one digest per element and fewer than 8192 of them, a
  `singleElements` is not empty; digest levels are below 24 (Go refuses levels above
  `maxDigestLevel`); the nesting of collision groups and wrappers stays within the CBOR library's
  limit of 32 levels (`MEls.vneed`); plain values are values of the harness.
  `MapDataOK.noInl`: keys and values are plain values, slab references and wrapped ones; slabs with
  inlined arrays / maps follow in the next section. -/

/-- Decoding the encoding of a map index slab gives the slab back. -/
theorem decode_encode_mindex (m : MapMeta) (ok : MapMetaOK m) (n : Nat) :
    decodeSlab m.id (encodeMapMeta m) n = .ok (.mindex m) (n + m.childHdrs.length) := by
  have := decodeSlab_encodeMapMeta m ok [] n
  simpa using this

/-- A map index slab register with extra bytes after the child headers is rejected (length check). -/
theorem decode_rejects_trailing_mindex (m : MapMeta) (ok : MapMetaOK m) (extra : Bytes) (hex : extra ≠ [])
    (n : Nat) : decodeSlab m.id (encodeMapMeta m ++ extra) n = .error .decoding n := by
  rw [decodeSlab_encodeMapMeta m ok extra n, if_pos hex]

/-- Decoding the encoding of a map data slab — root, non-root with or without sibling link, or the
    slab of an external collision group; `hkeyElements` with single elements, inline collision
    groups (nested), references to external collision groups; last-level `singleElements`; keys and
    values plain, slab references or wrapped — gives the slab back. -/
theorem decode_encode_mdata (s : MapData) (ok : MapDataOK s) (n : Nat) :
    decodeSlab s.id (encodeMapData s) n = .ok (.mdata s) (n + s.els.allocs) := by
  have := decodeSlab_encodeMapData s ok [] n
  simpa using this

/-- Re-encoding whatever the decoder returns for a register of a map slab yields the identical bytes. -/
theorem reencode_fixpoint_mdata (s : MapData) (ok : MapDataOK s) (n : Nat) (s' : Slab) (k : Nat)
    (h : decodeSlab s.id (encodeMapData s) n = .ok s' k) : encodeSlab s' = encodeMapData s := by
  rw [decode_encode_mdata s ok n] at h
  cases h
  rfl

theorem reencode_fixpoint_mindex (m : MapMeta) (ok : MapMetaOK m) (n : Nat) (s' : Slab) (k : Nat)
    (h : decodeSlab m.id (encodeMapMeta m) n = .ok s' k) : encodeSlab s' = encodeMapMeta m := by
  rw [decode_encode_mindex m ok n] at h
  cases h
  rfl

/-- A slab decoded from its register reports the same size as the slab that produced the register —
    including the non-root map data slab whose sibling link was omitted from the register (C06). -/
theorem decoded_size_eq_mdata (s : MapData) (ok : MapDataOK s) (n : Nat) :
    ∃ s' k, decodeSlab s.id (encodeMapData s) n = .ok s' k ∧ s'.byteSize = s.size :=
  ⟨_, _, decode_encode_mdata s ok n, rfl⟩

/-- OBSERVATION (not a violation of the property, which is about registers the library produced):
    a map data slab register followed by arbitrary extra bytes is ACCEPTED and decodes to the same
    slab — unlike the array data slab decoder ("Check if data reached EOF"), `newMapDataSlabFromDataV1`
    has no end-of-data check, so this kind has more than one accepted byte string per slab. -/
theorem mdata_accepts_trailing (s : MapData) (ok : MapDataOK s) (extra : Bytes) (n : Nat) :
    decodeSlab s.id (encodeMapData s ++ extra) n = .ok (.mdata s) (n + s.els.allocs) :=
  decodeSlab_encodeMapData s ok extra n

/-! ## Second part of the model: inlined arrays and maps, the shared inlined-extra-data section

  `MapDataOKI` / `ArrDataOKI`: as above, with `Stor.RTI` instead of `Stor.RT` (inlined slabs: valid
  type infos, slab indexes, counts, seeds; sizes fit `uint32`; element counts fit the fixed-width
  heads), `noCompact` (no inlined map is written in the compact form), at most 256 entries in the
  shared section (the extra-data index is one byte; Go refuses more), nesting within the CBOR
  library's limit (`vneedI`).  Inlined arrays and maps nest to any depth, inside wrappers, inside
  collision groups, as keys or values; array extra data is shared between same-typed children and a
  type info that occurs in more than one entry is written once and referred to by
  `CBORTagTypeInfoRef` — `newInlinedExtraDataFromData_enc` is the round trip of that section.
  The decoder is handed the complete entry list while the encoder assigned indexes to a growing
  list; `decStG_encI` relates the two. -/

/-- Decoding the encoding of a map data slab with inlined arrays / maps gives the slab back. -/
theorem decode_encode_mdata_inlined (s : MapData) (ok : MapDataOKI s) (n : Nat) :
    decodeSlab s.id (encodeMapData s) n
      = .ok (.mdata s) (n + iedAllocs (encMEls s.els []).2 + s.els.allocsI) := by
  have := decodeSlab_encodeMapDataI s ok [] n
  simpa using this

/-- Decoding the encoding of an array data slab with inlined arrays / maps gives the slab back. -/
theorem decode_encode_adata_inlined (a : ArrData) (ok : ArrDataOKI a) (n : Nat) :
    decodeSlab a.id (encodeArrData a) n
      = .ok (.adata a) (n + iedAllocs (encSts a.elems []).2 + a.elems.length + allocsISts a.elems) := by
  have := decodeSlab_encodeArrDataI a ok [] n
  simpa using this

/-- … and one with wrapped elements but no inlined slab (the has-inlined-slabs flag is clear). -/
theorem decode_encode_adata_wrapped (a : ArrData) (ok : ArrDataOKW a) (n : Nat) :
    decodeSlab a.id (encodeArrData a) n = .ok (.adata a) (n + a.elems.length + allocsISts a.elems) := by
  have := decodeSlab_encodeArrDataW a ok [] n
  simpa using this

/-- A large-value slab holding a wrapped value. -/
theorem decode_encode_storable_wrapped (id : SlabID) (x : Stor) (hrt : x.RT) (hni : x.noInl)
    (hnest : x.vneed + 1 ≤ maxNestedLevels) (n : Nat) :
    decodeSlab id (encodeStorableSlabG (.some x)) n = .ok (.storableG id (.some x)) n := by
  have := decodeSlab_encodeStorableSlabG id x hrt hni hnest [] n
  simpa using this

/-- An array data slab register with inlined children followed by extra bytes is rejected. -/
theorem decode_rejects_trailing_adata_inlined (a : ArrData) (ok : ArrDataOKI a) (extra : Bytes)
    (hex : extra ≠ []) (n : Nat) :
    decodeSlab a.id (encodeArrData a ++ extra) n
      = .error .decoding (n + iedAllocs (encSts a.elems []).2 + a.elems.length + allocsISts a.elems) := by
  rw [decodeSlab_encodeArrDataI a ok extra n, if_pos hex]

/-- Re-encoding whatever the decoder returns for a register of a slab with inlined children yields
    the identical byte string. -/
theorem reencode_fixpoint_mdata_inlined (s : MapData) (ok : MapDataOKI s) (n : Nat) (s' : Slab) (k : Nat)
    (h : decodeSlab s.id (encodeMapData s) n = .ok s' k) : encodeSlab s' = encodeMapData s := by
  rw [decode_encode_mdata_inlined s ok n] at h
  cases h
  rfl

theorem reencode_fixpoint_adata_inlined (a : ArrData) (ok : ArrDataOKI a) (n : Nat) (s' : Slab) (k : Nat)
    (h : decodeSlab a.id (encodeArrData a) n = .ok s' k) : encodeSlab s' = encodeArrData a := by
  rw [decode_encode_adata_inlined a ok n] at h
  cases h
  rfl

/-- The shared inlined-extra-data section round-trips: array and map extra data in first-use order,
    duplicated type infos written once and referred to by `CBORTagTypeInfoRef`. -/
theorem decode_encode_inlined_extra_data (xs : List XD) (hx : XOK xs) (hne : xs ≠ []) (hlen : xs.length ≤ 256)
    (rest : Bytes) (n : Nat) :
    newInlinedExtraDataFromData (encodeIED xs ++ rest) n
      = .ok (xs, rest) (n + (findDuplicateTypeInfo xs).length + xs.length) :=
  newInlinedExtraDataFromData_enc xs hx hne hlen rest n

/-- Both non-compact round trips, as one statement.  (Historical name: this conjunction marked the
    gap "no Lean theorem for the COMPACT form of inlined maps" while that was open.  The gap is closed
    by `decode_encode_mdata_compact` / `decode_encode_adata_compact` below, which subsume this
    statement — `normMEls_noCompact` / `normSts_noCompact` — and whose result for compact maps is the
    documented exception: shared seed, digests and key order.) -/
theorem decode_encode_inlined_partial :
    (∀ (s : MapData), MapDataOKI s → ∀ n, decodeSlab s.id (encodeMapData s) n
        = .ok (.mdata s) (n + iedAllocs (encMEls s.els []).2 + s.els.allocsI)) ∧
    (∀ (a : ArrData), ArrDataOKI a → ∀ n, decodeSlab a.id (encodeArrData a) n
        = .ok (.adata a) (n + iedAllocs (encSts a.elems []).2 + a.elems.length + allocsISts a.elems)) :=
  ⟨decode_encode_mdata_inlined, decode_encode_adata_inlined⟩

/-! ### the compact form of inlined maps (tag 252) — the documented exception

  An inlined map of a composite type whose elements are all single elements with plain keys is
  written as `[extra-data index, slab index, [values …]]`.  Keys, digests, count, seed and type info
  live in ONE extra-data entry per (type, key set), created by the first such map the encoder meets
  (`addCompactXD`); later maps of the group write their values in the FIRST map's key order
  (`encFind`).  `DecodeSlab` therefore does not give the encoded value back: every map of a group
  comes back with the first map's key order, digests and seed (the count and the type are equal
  anyway), and with level 0.  `normSt s xs` (Codec/CmpDefs.lean) is that decoded value as a function
  of the value `s` and the encoder's extra-data state `xs` before `s`; `normSts` / `normMEls` thread
  the state through element lists.  Without compact maps it is the identity (`norm_id_of_noCompact`);
  it never changes sizes (`decoded_size_eq_compact`); `compact_child_shape` says what a compact child
  looks like after decoding.

  `MapDataOKC` / `ArrDataOKC`: `MapDataOKI` / `ArrDataOKI` with `nodupKeys` (the keys of every
  compact-eligible map are distinct — the library's maps have distinct keys) instead of `noCompact`.
  So these two theorems cover EVERY shape of inlined child, at any depth, in any mixture. -/

/-- Decoding the encoding of a map data / collision-group slab whose elements contain inlined slabs
    in any form (inlined arrays, inlined maps, compact maps) gives the slab with its elements as
    `normMEls` describes them; allocation count exact. -/
theorem decode_encode_mdata_compact (s : MapData) (ok : MapDataOKC s) (n : Nat) :
    decodeSlab s.id (encodeMapData s) n
      = .ok (.mdata { s with els := normMEls s.els [] })
          (n + iedAllocsC (encMEls s.els []).2 + (normMEls s.els []).allocsI) := by
  have := decodeSlab_encodeMapDataC s ok [] n
  simpa using this

/-- The same for an array data slab. -/
theorem decode_encode_adata_compact (a : ArrData) (ok : ArrDataOKC a) (n : Nat) :
    decodeSlab a.id (encodeArrData a) n
      = .ok (.adata { a with elems := normSts a.elems [] })
          (n + iedAllocsC (encSts a.elems []).2 + a.elems.length + allocsISts (normSts a.elems [])) := by
  have := decodeSlab_encodeArrDataC a ok [] n
  simpa using this

/-- … and followed by extra bytes it is rejected. -/
theorem decode_rejects_trailing_adata_compact (a : ArrData) (ok : ArrDataOKC a) (extra : Bytes)
    (hex : extra ≠ []) (n : Nat) :
    decodeSlab a.id (encodeArrData a ++ extra) n
      = .error .decoding (n + iedAllocsC (encSts a.elems []).2 + a.elems.length + allocsISts (normSts a.elems [])) := by
  rw [decodeSlab_encodeArrDataC a ok extra n, if_pos hex]

/-- Without compact maps the decoded value is the encoded value (so the two theorems above contain
    `decode_encode_mdata_inlined` / `decode_encode_adata_inlined`). -/
theorem norm_id_of_noCompact :
    (∀ (els : MEls) (xs : List XD), els.noCompact → normMEls els xs = els) ∧
    (∀ (l : List Stor) (xs : List XD), noCompactSts l → normSts l xs = l) :=
  ⟨normMEls_noCompact, normSts_noCompact⟩

/-- Decoding never changes sizes: the decoded elements have the byte sizes of the encoded ones (so
    the slab's computed size, its split / merge decisions and its header size fields are unaffected
    by the exception). -/
theorem decoded_size_eq_compact :
    (∀ (els : MEls) (xs : List XD), els.nodupKeys → (normMEls els xs).size = els.size) ∧
    (∀ (l : List Stor) (xs : List XD), nodupKeysSts l → sizeSts (normSts l xs) = sizeSts l) :=
  ⟨size_normMEls, sizeSts_norm⟩

/-- What a compact child looks like after decoding: the slab index is its own; type and count are its
    own; seed and digests are those of the shared entry (`x'`, `hk'`); the elements are single
    elements, one per cached key — a permutation of its own keys — each holding the decoded form of
    the value it stored under that key; the level is 0. -/
theorem compact_child_shape (x : MapExtra) (idx level : Nat) (hkeys : List Nat) (elems : List MEl)
    (keys : List (Nat × Nat)) (xs : List XD) (hx : XOKC xs) (h : (Stor.map x idx (.hkey level hkeys elems)).RTI)
    (hc : compactKeys x elems = some keys) :
    ∃ (x' : MapExtra) (hk' : List Nat) (cached : List (Nat × Nat)) (st : List XD),
      normSt (.map x idx (.hkey level hkeys elems)) xs = .map x' idx (.hkey 0 hk' (normVals elems cached st)) ∧
      cached.Perm keys ∧ x'.ty = x.ty ∧ x'.count = x.count ∧ hk'.length = cached.length := by
  have hv := cmap_validC h.1 h.2.2.1 hc
  obtain ⟨_, hxa, x', hk', hget⟩ := addCompactXD_specC xs x hkeys keys hx hv
  have hperm := addCompactXD_perm xs x hkeys keys
  have hent : (XD.cmap x' hk' (addCompactXD xs x hkeys keys).2.1).validC := hxa _ (List.mem_of_getElem? hget)
  refine ⟨x', hk', (addCompactXD xs x hkeys keys).2.1, (addCompactXD xs x hkeys keys).2.2, ?_, hperm,
    addCompactXD_entry_ty xs x hkeys keys hx hv hget, ?_, hent.2.1⟩
  · simp only [normSt, hc, foldl_normFind_eq, List.nil_append, hget]
  · have h1 := hent.2.2.2.2.2.2
    have h2 := hv.2.2.2.2.2.2
    have := hperm.length_eq
    omega

/-- The shared inlined-extra-data section with compact-map entries round-trips. -/
theorem decode_encode_inlined_extra_data_compact (xs : List XD) (hx : XOKC xs) (hne : xs ≠ [])
    (hlen : xs.length ≤ 256) (rest : Bytes) (n : Nat) :
    newInlinedExtraDataFromData (encodeIED xs ++ rest) n
      = .ok (xs, rest) (n + (findDuplicateTypeInfo xs).length + xs.length + (xs.map xdAllocs).sum) :=
  newInlinedExtraDataFromData_encC xs hx hne hlen rest n

/-- Re-encoding whatever the decoder returns for the register of a slab with inlined children in any
    form, compact maps included, yields the identical byte string: although a decoded compact child
    differs from the encoded one (seed, digests, key order, level), it encodes to the same bytes and
    asks for the same shared extra-data entries in the same order. -/
theorem reencode_fixpoint_mdata_compact (s : MapData) (ok : MapDataOKC s) (n : Nat) (s' : Slab) (k : Nat)
    (h : decodeSlab s.id (encodeMapData s) n = .ok s' k) : encodeSlab s' = encodeMapData s := by
  rw [decode_encode_mdata_compact s ok n] at h
  cases h
  exact encodeMapData_norm s ok

theorem reencode_fixpoint_adata_compact (a : ArrData) (ok : ArrDataOKC a) (n : Nat) (s' : Slab) (k : Nat)
    (h : decodeSlab a.id (encodeArrData a) n = .ok s' k) : encodeSlab s' = encodeArrData a := by
  rw [decode_encode_adata_compact a ok n] at h
  cases h
  exact encodeArrData_norm a ok

/-- The element level of the same fact: the decoded form of a storable encodes, from the same
    extra-data state, to the same bytes and leaves the same state. -/
theorem reencode_decoded_storable (s : Stor) (xs : List XD) (h : s.RTI) (nd : s.nodupKeys) (hx : XOKC xs) :
    encSt (normSt s xs) xs = encSt s xs :=
  encSt_norm s xs h nd hx

/-- The has-pointers flag of the decoded elements is that of the encoded ones. -/
theorem decoded_hasPtr_eq_compact :
    (∀ (els : MEls) (xs : List XD), els.nodupKeys → (normMEls els xs).hasPtr = els.hasPtr) ∧
    (∀ (l : List Stor) (xs : List XD), nodupKeysSts l → anyPtrSts (normSts l xs) = anyPtrSts l) :=
  ⟨hasPtr_normMEls, anyPtrSts_norm⟩

end Atree.C07
