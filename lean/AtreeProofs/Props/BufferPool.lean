import AtreeModel.BufferPool
import AtreeModel.Gen.Facts
import AtreeProofs.BufferPoolLemmas
/-
  C04 / C16 — the process-wide buffer pools (`bufferPool`, `typeIDBufferPool`; buffer.go,
  extradata.go:400-418) cannot influence a result: "object-pool reuse" (C04), "despite the library's
  process-wide buffer … pools" (C16).

    * `pool_invariant`                  every parked buffer is empty: true of the empty pool, kept by
                                         `Get` (any choice), by `putBuffer` of ANY buffer, by the pool
                                         dropping objects; under it `Get` returns an empty buffer;
    * `holder_result_is_what_it_wrote`  what `ArrayDataSlab.Encode` / `MapDataSlab.Encode` /
                                         `getEncodedTypeInfo` copy out of their buffer is the concatenation
                                         of their own writes, whatever the pool held and handed out;
    * `pooled_history_refines_spec`     for EVERY interleaving of any number of holders: every read equals
                                         the read in the world without a pool;
    * `every_pooled_buffer_is_empty`    after ANY history the pool hands out an empty buffer;
    * `reset_keeps_only_capacity`       the one thing a recycled buffer carries over;
    * `bad_put_leaks_previous_bytes`    TEETH: without `e.Reset()` in `putBuffer` the next holder's
                                         result starts with the previous holder's bytes;
    * `use_after_put_corrupts_next_holder`, `kept_bytes_slice_sees_next_holder`
                                         TEETH of the source premises (object-identity model): a `put` that
                                         is not the last action, a `Bytes()` slice that is kept;
    * `source_premises`                 the code has the shape the model assumes (extractor facts).

  Not covered: data races on one `*bytes.Buffer` (two goroutines holding the same object) — excluded
  by the source premises (one holder, no use after put), not by the model; `sync.Pool`'s internals.
-/
namespace Atree.Buf

/-- **The pool invariant** "every parked buffer is empty": true of the empty pool, preserved by `Get`
    (ANY choice, any `New` size), by `putBuffer` of ANY buffer in ANY state (whatever its holder wrote),
    and by the pool discarding objects; and under it `Get` returns an empty buffer. -/
theorem pool_invariant (G : Growth) :
    PoolEmpty {} ∧
    (∀ p c n, PoolEmpty p → (p.get G c n).1.data = [] ∧ PoolEmpty (p.get G c n).2) ∧
    (∀ p b, PoolEmpty p → PoolEmpty (p.put b)) ∧
    (∀ p i, PoolEmpty p → PoolEmpty (p.drop i)) :=
  ⟨poolEmpty_empty, fun _ c n h => poolEmpty_get G h c n, fun _ b h => poolEmpty_put h b,
   fun _ i h => poolEmpty_drop h i⟩

/-- **`Reset` keeps the capacity and nothing else**: a recycled buffer differs from a new one only in
    the size of its underlying array, which no method the library calls on it reveals
    (`Gen.bufferPoolUses`: `Bytes()`, `String()`, writes). -/
theorem reset_keeps_only_capacity (b : Buffer) : b.reset = { data := [], cap := b.cap } := rfl

/-- **A holder's result is what it wrote.**  Take any pool whose parked buffers are empty (the
    invariant), let `Get` return ANY of them or a new one of any size, let the holder write `ws` and
    copy the contents out (`elementBuf.Bytes()` into the slab encoder, `b.String()`): the result is the
    concatenation of `ws` — it does not depend on the pool, on the choice or on the capacity — an early
    error return copies nothing out, and in both cases the deferred `put` restores the invariant. -/
theorem holder_result_is_what_it_wrote (G : Growth) (p : Pool) (hp : PoolEmpty p) (choice : Option Nat)
    (n : Nat) (ws : List Bytes) (completes : Bool) :
    (useBuffer G p choice n ws completes).1 = (if completes then some ws.flatten else none) ∧
    PoolEmpty (useBuffer G p choice n ws completes).2 := by
  obtain ⟨hd, hp'⟩ := poolEmpty_get G hp choice n
  unfold useBuffer
  refine ⟨?_, poolEmpty_put hp' _⟩
  simp only [Buffer.bytes, foldl_write_data, hd, List.nil_append]

/-- **Pooled histories refine the pool-free definition.**  For EVERY finite history of events of any
    number of holders, interleaved in any way — `getBuffer` with the pool handing out ANY parked object
    or a new one, writes, reads, the deferred `putBuffer`, the pool dropping objects — every read
    equals the read in the world without a pool, where each `get` starts from an empty byte string;
    and the pool invariant holds afterwards. -/
theorem pooled_history_refines_spec (G : Growth) (evs : List Ev) :
    (World.run G {} evs).1 = specRun [] evs ∧ PoolEmpty (World.run G {} evs).2.pool :=
  run_sim G evs {} poolEmpty_empty

/-- After ANY history, whatever the pool hands out next is an empty buffer. -/
theorem every_pooled_buffer_is_empty (G : Growth) (evs : List Ev) (c : Option Nat) (n : Nat) :
    (((World.run G {} evs).2.pool.get G c n).1).data = [] :=
  (poolEmpty_get G (pooled_history_refines_spec G evs).2 c n).1

/-- Two histories that differ only in what the pool does (which object each `Get` returns, the sizes
    `New` grows to — i.e. the value of the `maxThreshold` setting at that moment —, which objects it
    drops and when) give the same reads. -/
theorem reads_independent_of_pool_choices (G G' : Growth) (evs evs' : List Ev)
    (h : specRun [] evs = specRun [] evs') :
    (World.run G {} evs).1 = (World.run G' {} evs').1 := by
  rw [(pooled_history_refines_spec G evs).1, (pooled_history_refines_spec G' evs').1, h]

/-! ### What the invariant protects against -/

/-- **A `putBuffer` that forgets `e.Reset()` hands the previous holder's bytes to the next one**: holder 1
    writes `a` and puts the buffer back; holder 2 is handed that object, writes `b` and reads `a ++ b`. -/
theorem bad_put_leaks_previous_bytes (G : Growth) (a b : Bytes) (n : Nat) :
    (World.runWith Pool.badPut G {}
      [.get none n, .write 0 a, .put 0, .get (some 0) n, .write 1 b, .read 1]).1.getLast? =
      some (.read (a ++ b)) := by
  simp [World.runWith, World.stepWith, Pool.get, Pool.badPut, getSlot, Buffer.write, Buffer.bytes,
    Buffer.fresh]

/-- …with the real `putBuffer` the same history gives holder 2 exactly its own bytes. -/
theorem good_put_right_bytes (G : Growth) (a b : Bytes) (n : Nat) :
    (World.run G {}
      [.get none n, .write 0 a, .put 0, .get (some 0) n, .write 1 b, .read 1]).1.getLast? =
      some (.read b) := by
  simp [World.run, World.runWith, World.stepWith, Pool.get, Pool.put, getSlot, Buffer.write, Buffer.bytes,
    Buffer.fresh, Buffer.reset]

/-- **Why the `put` must be the holder's LAST action** (`Gen.bufferGetIsFollowedByDeferredPut`: it is
    the deferred call placed directly after the `get`).  With object identity (`HWorld`): holder 1 gets a
    buffer, writes `a`, puts it back but keeps its pointer; holder 2 is handed the same object and writes
    `b`; holder 1 writes `c` through its stale pointer; holder 2 reads `b ++ c`, not `b`. -/
theorem use_after_put_corrupts_next_holder (G : Growth) (a b c : Bytes) (n : Nat) :
    let w0 : HWorld := {}
    let (p1, w1) := w0.get G n
    let w2 := (w1.write G p1 a).put p1
    let (p2, w3) := w2.get G n
    let w4 := (w3.write G p2 b).write G p1 c
    p1 = p2 ∧ w4.read p2 = b ++ c := by
  simp [HWorld.get, HWorld.put, HWorld.write, HWorld.read, Buffer.write, Buffer.reset, Buffer.bytes,
    Buffer.fresh, List.modify]

/-- **Why `Bytes()` must be copied at once** (`Gen.bufferPoolUses`: it is the direct argument of
    `EncodeRawBytes`, which copies).  Holder 1 writes `a`, keeps the slice `Bytes()` (modelled as its
    pointer), puts the buffer back; holder 2 is handed the same object and writes `b`; what holder 1 now
    reads through the slice it kept is `b`, not the `a` it encoded. -/
theorem kept_bytes_slice_sees_next_holder (G : Growth) (a b : Bytes) (n : Nat) :
    let w0 : HWorld := {}
    let (p1, w1) := w0.get G n
    let w2 := (w1.write G p1 a).put p1
    let (p2, w3) := w2.get G n
    let w4 := w3.write G p2 b
    (w1.write G p1 a).read p1 = a ∧ w4.read p1 = b := by
  simp [HWorld.get, HWorld.put, HWorld.write, HWorld.read, Buffer.write, Buffer.reset, Buffer.bytes,
    Buffer.fresh, List.modify]

/-! ### The code has the shape the model assumes -/

/-- The source-level premises of the buffer-pool model (regenerated from the Go sources on every run):
    * the only functions that mention a pool variable are its `get*` / `put*` helper pair;
    * `getBuffer` / `getTypeIDBuffer` are `return <pool>.Get().(*bytes.Buffer)`, `New` of both pools is
      `e := new(bytes.Buffer); e.Grow(…); return e` (an empty buffer), every `put*` helper calls
      `x.Reset()` and then `pool.Put(x)` on the same identifier, unconditionally
      (`Gen.putResetsTheObjectItPuts`);
    * the holders are `ArrayDataSlab.Encode`, `MapDataSlab.Encode` and `getEncodedTypeInfo`; in each the
      getter is called exactly once, as `x := get()` at the top level of the body, and the NEXT statement
      is `defer put(x)` with the matching helper — the buffer goes back on every path, after the last use;
    * every other occurrence of `x`: it is made the `io.Writer` of a local encoder, and its contents
      leave the function only as a COPY — `x.Bytes()` is the direct argument of
      `enc.CBOR.EncodeRawBytes` (fxamacker/cbor `StreamEncoder.EncodeRawBytes` copies into its own
      buffer), `x.String()` allocates a new string.  `x` is not returned, stored, sent, captured by a
      closure or a goroutine, reassigned, nor is its address taken;
    * the local encoders made from `x` are passed to `encodeElements` / `ti.Encode` (which run before
      the function returns) and otherwise only flushed and asked for their inlined extra data; they are
      not returned or stored.
    What these facts do NOT cover: a caller-supplied `Storable.Encode` / `TypeInfo.Encode` that keeps the
    encoder it is handed beyond the call. -/
theorem source_premises :
    Gen.poolVarRefs = [
      ("getBasicDigester", "basicDigesterPool"), ("getBuffer", "bufferPool"),
      ("getTypeIDBuffer", "typeIDBufferPool"), ("putBuffer", "bufferPool"),
      ("putDigester", "basicDigesterPool"), ("putTypeIDBuffer", "typeIDBufferPool")] ∧
    Gen.bufferGetShapeOk = true ∧ Gen.bufferPoolNewIsEmptyBuffer = true ∧
    Gen.putResetsTheObjectItPuts = true ∧
    Gen.bufferGetterRefs = [
      ("ArrayDataSlab.Encode", "getBuffer"), ("MapDataSlab.Encode", "getBuffer"),
      ("getEncodedTypeInfo", "getTypeIDBuffer")] ∧
    Gen.bufferGetIsFollowedByDeferredPut = true ∧
    Gen.bufferPoolUses = [
      ("ArrayDataSlab.Encode", "getBuffer",
        ["Bytes() copied by enc.CBOR.EncodeRawBytes", "defer putBuffer", "writer of NewEncoder"]),
      ("MapDataSlab.Encode", "getBuffer",
        ["Bytes() copied by enc.CBOR.EncodeRawBytes", "defer putBuffer", "writer of NewEncoder"]),
      ("getEncodedTypeInfo", "getTypeIDBuffer",
        ["copied by String()", "defer putTypeIDBuffer", "writer of cbor.NewStreamEncoder"])] ∧
    Gen.bufferPoolEncoderUses = [
      ("ArrayDataSlab.Encode", "elementEnc := NewEncoder(elementBuf, …)",
        ["argument of a.encodeElements", "call elementEnc.CBOR.Flush", "call elementEnc.hasInlinedExtraData",
         "call elementEnc.inlinedExtraData().Encode"]),
      ("MapDataSlab.Encode", "elemEnc := NewEncoder(elementBuf, …)",
        ["argument of m.encodeElements", "call elemEnc.hasInlinedExtraData",
         "call elemEnc.inlinedExtraData().Encode"]),
      ("getEncodedTypeInfo", "enc := cbor.NewStreamEncoder(b, …)",
        ["argument of ti.Encode", "call enc.Flush"])] := by
  exact ⟨rfl, rfl, rfl, rfl, rfl, rfl, rfl, rfl⟩

/-! ### Non-vacuity -/
section NonVacuity

/-- a growth policy for the examples: double until it fits -/
def toyG : Growth := fun cap need => max (2 * cap) need

/-- Three holders on one pool, interleaved: A (slot 0) and B (slot 1) hold buffers at the same time;
    A writes `[1,2]`, B writes `[9]`, A writes `[3]`; both read; A puts; C (slot 2) is handed A's old
    object, writes `[7]` and reads; B puts; the pool drops an object. -/
def toyHistory : List Ev :=
  [.get none 4, .get none 4, .write 0 [1, 2], .write 1 [9], .write 0 [3], .read 0, .read 1, .put 0,
   .get (some 0) 4, .write 2 [7], .read 2, .put 1, .drop 0, .read 0]

/-- what that history shows: C reads `[7]`, not `[1,2,3,7]`; a read on a slot that was given up is
    nothing; after B's put one (empty, capacity 4) object is parked, which the pool then drops. -/
example :
    (World.run toyG {} toyHistory).1 =
      [.none, .none, .none, .none, .none, .read [1, 2, 3], .read [9], .none,
       .none, .none, .read [7], .none, .none, .none] ∧
    (World.run toyG {} (toyHistory.take 12)).2.pool.free = [{ data := [], cap := 4 }] ∧
    (World.run toyG {} toyHistory).2.pool.free = [] ∧
    specRun [] toyHistory = (World.run toyG {} toyHistory).1 := by decide

example := pooled_history_refines_spec toyG toyHistory

/-- the pool really recycles: C's buffer IS A's old object (its capacity, 4, was reached by A) -/
example :
    (World.run toyG {} (toyHistory.take 9)).2.held =
      [none, some { data := [9], cap := 4 }, some { data := [], cap := 4 }] := by decide

/-- `holder_result_is_what_it_wrote` on a pool that holds two empty buffers of different capacity: the
    result is the same for every choice; a pool with a NON-empty buffer (excluded by the hypothesis)
    gives a different result. -/
example :
    let p : Pool := { free := [{ data := [], cap := 100 }, { data := [], cap := 7 }] }
    (useBuffer toyG p (some 0) 4 [[1], [2, 3]] true).1 = some [1, 2, 3] ∧
    (useBuffer toyG p (some 1) 4 [[1], [2, 3]] true).1 = some [1, 2, 3] ∧
    (useBuffer toyG p none 4 [[1], [2, 3]] true).1 = some [1, 2, 3] ∧
    (useBuffer toyG p (some 1) 4 [[1], [2, 3]] false).1 = none ∧
    (useBuffer toyG { free := [{ data := [5], cap := 7 }] } (some 0) 4 [[1], [2, 3]] true).1
      = some [5, 1, 2, 3] := by decide

/-- the defective put helper, concretely -/
example :
    (World.runWith Pool.badPut toyG {}
      [.get none 4, .write 0 [1, 2], .put 0, .get (some 0) 4, .write 1 [7], .read 1]).1.getLast? =
      some (.read [1, 2, 7]) := by decide

end NonVacuity

end Atree.Buf
