import AtreeProofs.Trans.MapClosed
/-
  WP13, part 1: round trips of the decoders of `Trans/MapClosed.lean`, the UNGUARDED fields of the closed environments
  (`mcl_GOk`), and the generic step "closed `elements` methods that agree with the model on guarded arguments give a
  unit-B environment satisfying `EnvBOn`" (`mcl_envBG_on`).  Core Lean only.
-/
namespace Atree.TransEq
open Atree

/-! ## round trips -/

theorem mcl_dE0_cE (x : SElem) (hx : x.size < 2^32) : mcl_dE0 (cE x) = x := by
  show ({ key := x.key, val := x.val, size := (u32 x.size).toNat } : SElem) = x
  rw [u32_toNat hx]

theorem mcl_dEA_cE (x : SElem) (hx : x.size < 2^32) : mcl_dEA (mel_cE x) = x := by
  show ({ key := x.key, val := x.val, size := (u32 x.size).toNat } : SElem) = x
  rw [u32_toNat hx]

/-- range condition under which `cS` is invertible -/
structure mcl_SFit (e : SingleElems) : Prop where
  size : e.size < 2^32
  level : e.level < 2^64
  elems : ∀ x ∈ e.elems, x.size < 2^32

theorem mcl_map_dE0_cE (l : List SElem) (h : ∀ x ∈ l, x.size < 2^32) : (l.map cE).map mcl_dE0 = l := by
  induction l with
  | nil => rfl
  | cons a t ih =>
    simp only [List.map_cons, mcl_dE0_cE a (h a (List.mem_cons_self ..)), ih (fun x hx => h x (List.mem_cons_of_mem _ hx))]

theorem mcl_dS_cS (e : SingleElems) (h : mcl_SFit e) : mcl_dS (cS e) = e := by
  obtain ⟨elems, sz, lv⟩ := e
  simp only [mcl_dS, cS, u32_toNat h.size, u64_toNat h.level, mcl_map_dE0_cE elems h.elems]

/-- range condition under which `mel_cH` is invertible -/
structure mcl_HFit {α : Type} (e : HkeyElems α) : Prop where
  size : e.size < 2^32
  level : e.level < 2^64
  dig : ∀ x ∈ e.hkeys, x < 2^64

theorem mcl_map_toNat_u64s (l : List Nat) (h : ∀ x ∈ l, x < 2^64) : (u64s l).map (·.toNat) = l := by
  induction l with
  | nil => rfl
  | cons a t ih =>
    simp only [u64s, List.map_cons] at ih ⊢
    rw [u64_toNat (h a (List.mem_cons_self ..)), ih (fun x hx => h x (List.mem_cons_of_mem _ hx))]

theorem mcl_filterMap_some {β : Type} (l : List β) : (l.map some).filterMap id = l := by
  induction l with
  | nil => rfl
  | cons a t ih => simp [ih]

theorem mcl_dH_cH {α : Type} (e : HkeyElems α) (h : mcl_HFit e) : mcl_dH (mel_cH e) = e := by
  obtain ⟨hk, el, sz, lv⟩ := e
  simp only [mcl_dH, mel_cH, u32_toNat h.size, u64_toNat h.level, mcl_map_toNat_u64s hk h.dig, mcl_filterMap_some]

theorem mcl_dGroupSlab_c {α X : Type} (s : GroupSlab α) (hs : s.hdr.size < 2^32) (hf : s.hdr.firstKey < 2^64) :
    mcl_dGroupSlab (mei_cGroupSlab s : Gen.TransElem.MapDataSlab α X) = s := by
  obtain ⟨⟨id, sz, fk⟩, el⟩ := s
  simp only [mcl_dGroupSlab, mei_cGroupSlab, mcl_dHdr, mei_cHdr, u32_toNat hs, u64_toNat hf]

/-! ## the unguarded part: sizes, counts, first keys, `Element(0)` -/

/-- the closed methods `G` agree with the model operations `o` on the accessors (no guard needed) -/
structure mcl_GOk {α : Type} (o : ElemsOps α) (G : mcl_GOps α) : Prop where
  size : ∀ g, G.size g = u32 (o.size g)
  count : ∀ g, G.count g = u32 (o.count g)
  first : ∀ g, G.firstKey g = u64 (o.firstKey g)
  sole : ∀ g, (o.count g = 1 → ∃ el, G.elemAt g 0 = (mei_cEl el, none) ∧
                  o.soleSingle g = (match el with | .single x => some x | _ => none)) ∧
               (o.count g ≠ 1 → o.soleSingle g = none)

theorem mcl_gopsS_ok (cfg : MCfg) : mcl_GOk SingleElems.ops (mcl_gopsS cfg) where
  size := fun _ => rfl
  count := fun g => by
    show UInt32.ofInt (Int.ofNat (cS g).elems.length) = _
    rw [u32_ofInt]; simp [cS, SingleElems.ops]
  first := fun _ => rfl
  sole := fun g => by
    rcases g with ⟨elems, sz, lv⟩
    constructor
    · intro h
      match elems, h with
      | [x], _ => exact ⟨.single x, rfl, rfl⟩
    · intro h
      match elems, h with
      | [], _ => rfl
      | _ :: _ :: _, _ => rfl
      | [x], h => exact absurd rfl h

theorem mcl_gopsH_ok {α : Type} (o : ElemsOps α) (envA : MKey → mcl_EnvA α) :
    mcl_GOk (HkeyElems.ops o) (mcl_gopsH envA) where
  size := fun _ => rfl
  count := fun g => by
    show UInt32.ofInt (Int.ofNat (mel_cH g).elems.length) = _
    rw [u32_ofInt, mel_cH_elems_length]; rfl
  first := fun g => by
    obtain ⟨hk, el, sz, lv⟩ := g
    cases hk with
    | nil => rfl
    | cons a t => rfl
  sole := fun g => by
    rcases g with ⟨hk, elems, sz, lv⟩
    constructor
    · intro h
      match elems, h with
      | [.single x], _ => exact ⟨.single x, rfl, rfl⟩
      | [.inl g'], _ => exact ⟨.inl ⟨hk, [.inl g'], sz, lv⟩, rfl, rfl⟩
      | [.ext id s' sl], _ => exact ⟨.ext id s' ⟨default, ⟨hk, [.ext id s' sl], sz, lv⟩⟩, rfl, rfl⟩
    · intro h
      match elems, h with
      | [], _ => rfl
      | a :: _ :: _, _ => cases a <;> rfl
      | [x], h => exact absurd rfl h

/-! ## unit B over closed methods -/

section envB
variable {α X : Type} (o : ElemsOps α) (cfg : MCfg) (k : MKey) (v : Elem) (G : mcl_GOps α) (retr : mcl_Retr α X)

/-- closed methods that agree with the model on guarded arguments give a unit-B environment with `EnvBOn` -/
theorem mcl_envBG_on {Qg Qs Qr : α → Nat → Ctx → Prop} {Qn : Nat → SElem → Prop} (hG : mcl_GOk o G)
    (hget : ∀ g c lvl, lvl < 2^64 → Qg g lvl c →
      G.get g c k (u64 lvl) (u64 (k.dig lvl)) (.key k) = mei_rGet c (o.get cfg g lvl k))
    (hset : ∀ g c lvl b, lvl < 2^64 → Qs g lvl c →
      G.set g c cfg.addr b k (u64 lvl) (u64 (k.dig lvl)) (.key k) (.val v) = mei_rGSet g c (o.set cfg g lvl k v c))
    (hrem : ∀ g c lvl, lvl < 2^64 → Qr g lvl c →
      G.remove g c k (u64 lvl) (u64 (k.dig lvl)) (.key k) = mei_rGRemove g c (o.remove cfg g lvl k c))
    (hnew : ∀ lvl x g, lvl < 2^64 → x.size < 2^32 → Qn lvl x → o.newWith cfg lvl x = .ok g →
      (if lvl = cfg.L then G.newS (u64 lvl) (mei_cE x) = g
       else G.newH (u64 lvl) (u64 (x.key.dig lvl)) (.single (mei_cE x)) = g)) :
    EnvBOn o cfg k v (mcl_envBG cfg G retr) Qg Qs Qr Qn where
  levels := fun _ => rfl
  dig := fun d lvl hl => by
    show (u64 (d.dig (u64 lvl).toNat), none) = _
    rw [u64_toNat hl]
  builder := fun _ _ => rfl
  stored := fun _ _ => rfl
  cmp := fun _ _ => rfl
  keySize := fun _ => rfl
  valSize := fun _ => rfl
  maxInline := fun n hn => by
    show u32 (maxInlineMapValue cfg.T (u32 n).toNat) = _
    rw [u32_toNat hn]
  storable := fun _ _ => rfl
  maxElem := rfl
  sidSize := rfl
  gSize := hG.size
  gCount := hG.count
  gFirst := hG.first
  gGet := hget
  gSet := hset
  gRemove := hrem
  gSole := hG.sole
  newWith := hnew
  gen := fun _ _ => rfl
  store := fun _ _ _ => rfl
  remove := fun _ _ => rfl
  wrapNone := rfl
  eHashLevel := rfl
  eKeyNotFound := rfl
  eSlabNotFound := rfl

/-- `hget` of `externalCollisionGroup_Get_eq_model`: method promotion -/
theorem mcl_envBG_hget (d : Gen.TransElem.MapDataSlab α X) (c : Ctx) (dg : MKey) (lvl hk : UInt64) (w : SW) :
    (mcl_envBG cfg G retr).MapSlab_Get (.dataSlab d) c dg lvl hk w =
      (mcl_envBG cfg G retr).elements_Get d.elements c dg lvl hk w := rfl

/-- `hset` of `externalCollisionGroup_Set_eq_model`: `MapSlab.Set` on a data slab is the generated `MapDataSlab_Set` -/
theorem mcl_envBG_hset (d : Gen.TransElem.MapDataSlab α X) (c : Ctx) (b : Unit) (dg : MKey) (lvl hk : UInt64) (w w' : SW) :
    (mcl_envBG cfg G retr).MapSlab_Set (.dataSlab d) c b dg lvl hk w w' =
      match Gen.TransElem.MapDataSlab_Set (mcl_envBG cfg G retr) d c b dg lvl hk w w' with
      | some r => (r.1, r.2.1, r.2.2.1, .dataSlab r.2.2.2.1, r.2.2.2.2)
      | none => (none, none, none, .dataSlab d, c) := rfl

end envB

/-! ## the last level: the generated `singleElements_*` on guarded arguments -/

section level0
variable (cfg : MCfg) (k : MKey) (v : Elem)

theorem mcl_gopsS_get (g : SingleElems) (c : Ctx) (lvl : Nat) (hl : lvl < 2^64) (hL : cfg.L < 2^64) :
    (mcl_gopsS cfg).get g c k (u64 lvl) (u64 (k.dig lvl)) (.key k) = mei_rGet c (SingleElems.ops.get cfg g lvl k) := by
  show Gen.TransMap.singleElements_Get (msl_envSingle0 cfg) (cS g) c (u64 lvl) (u64 (k.dig lvl)) (.key k) = _
  rw [singleElements_Get_eq_model cfg _ (msl_envSingle0_ok cfg) g lvl _ k c hl hL]
  show msl_rGet c (SingleElems.get cfg g lvl k) = mei_rGet c (SingleElems.get cfg g lvl k)
  cases SingleElems.get cfg g lvl k with
  | error e => rfl
  | ok r => rfl

/-- guard of `Remove` at the last level: the argument and the model's result are in `uint` range, the group's size
    covers the element that goes -/
structure mcl_QR0 (g : SingleElems) (lvl : Nat) (c : Ctx) : Prop where
  fit : mcl_SFit g
  hsz : ∀ x ∈ g.elems, x.key.same k = true → x.size ≤ g.size
  res : ∀ rk rv g' c', SingleElems.remove cfg g lvl k c = .ok (rk, rv, g', c') → mcl_SFit g'
  noPanic : SingleElems.remove cfg g lvl k c ≠ .error .goPanic

theorem mcl_gopsS_remove (g : SingleElems) (c : Ctx) (lvl : Nat) (hl : lvl < 2^64) (hL : cfg.L < 2^64)
    (hQ : mcl_QR0 cfg k g lvl c) :
    (mcl_gopsS cfg).remove g c k (u64 lvl) (u64 (k.dig lvl)) (.key k) =
      mei_rGRemove g c (SingleElems.ops.remove cfg g lvl k c) := by
  show (match Gen.TransMap.singleElements_Remove (msl_envSingle0 cfg) (cS g) c (u64 lvl) (u64 (k.dig lvl)) (.key k) with
    | some r => (r.1, r.2.1, r.2.2.1, mcl_dS r.2.2.2.1, r.2.2.2.2)
    | none => (none, none, some .goPanic, g, c)) = _
  rw [singleElements_Remove_eq_model cfg _ (msl_envSingle0_ok cfg) g lvl _ k c hl hL hQ.hsz]
  show _ = mei_rGRemove g c (SingleElems.remove cfg g lvl k c)
  have hres := hQ.res
  have hnp := hQ.noPanic
  rcases hr : SingleElems.remove cfg g lvl k c with err | ⟨rk, rv, g', c'⟩
  · rw [hr] at hnp
    cases err <;> first | exact absurd rfl hnp | simp only [msl_rRemove, mei_rGRemove, mcl_dS_cS g hQ.fit]
  · simp only [msl_rRemove, mei_rGRemove, mcl_dS_cS g' (hres rk rv g' c' hr)]

/-- guard of `Set` at the last level -/
structure mcl_QS0 (g : SingleElems) (lvl : Nat) (c : Ctx) : Prop where
  fit : mcl_SFit g
  ksize : k.size < 2^32
  res : ∀ ks old g' c', SingleElems.set cfg g lvl k v c = .ok (ks, old, g', c') → mcl_SFit g'
  noPanic : SingleElems.set cfg g lvl k v c ≠ .error .goPanic

theorem mcl_gopsS_set (g : SingleElems) (c : Ctx) (lvl : Nat) (b : Unit) (hl : lvl < 2^64) (hL : cfg.L < 2^64)
    (hT : cfg.T < 2^32) (hQ : mcl_QS0 cfg k v g lvl c) :
    (mcl_gopsS cfg).set g c cfg.addr b k (u64 lvl) (u64 (k.dig lvl)) (.key k) (.val v) =
      mei_rGSet g c (SingleElems.ops.set cfg g lvl k v c) := by
  show (match Gen.TransMap.singleElements_Set (msl_envSingle0 cfg) (cS g) c cfg.addr (u64 lvl) (u64 (k.dig lvl)) (.key k) (.val v) with
    | some r => (r.1, r.2.1, r.2.2.1, mcl_dS r.2.2.2.1, r.2.2.2.2)
    | none => (none, none, some .goPanic, g, c)) = _
  rw [singleElements_Set_eq_model cfg _ (msl_envSingle0_ok cfg) g lvl _ k v c hl hL hT hQ.ksize]
  show _ = mei_rGSet g c (SingleElems.set cfg g lvl k v c)
  have hres := hQ.res
  have hnp := hQ.noPanic
  rcases hr : SingleElems.set cfg g lvl k v c with err | ⟨ks, old, g', c'⟩
  · rw [hr] at hnp
    cases err <;> first | exact absurd rfl hnp | simp only [msl_rSet, mei_rGSet, mcl_dS_cS g hQ.fit]
  · simp only [msl_rSet, mei_rGSet, mcl_dS_cS g' (hres ks old g' c' hr)]

/-- the one-element last-level list: `newSingleElementsWithElement` -/
theorem mcl_gopsS_new (lvl : Nat) (x : SElem) (g : SingleElems) (hl : lvl < 2^64) (hx : x.size + Gen.singleElementsPrefixSize < 2^32)
    (hg : SingleElems.ops.newWith cfg lvl x = .ok g) :
    (if lvl = cfg.L then (mcl_gopsS cfg).newS (u64 lvl) (mei_cE x) = g
     else (mcl_gopsS cfg).newH (u64 lvl) (u64 (x.key.dig lvl)) (.single (mei_cE x)) = g) := by
  have hx' : x.size < 2^32 := by omega
  simp only [SingleElems.ops] at hg
  by_cases h : lvl = cfg.L
  · simp only [h, ne_eq, not_true_eq_false, if_false, Except.ok.injEq] at hg
    rw [if_pos h, ← hg]
    show ({ level := (u64 lvl).toNat, size := (UInt32.ofNat Gen.singleElementsPrefixSize + (mei_cE x).size).toNat,
            elems := [mei_il_inv (mei_cE x)] } : SingleElems) = _
    have e1 : (UInt32.ofNat Gen.singleElementsPrefixSize + (mei_cE x).size) = u32 (Gen.singleElementsPrefixSize + x.size) :=
      msl_u32_add' _ _
    rw [e1, u32_toNat (by omega), u64_toNat hl, mei_il_inv_cE x hx', h]
  · simp only [ne_eq, h, not_false_eq_true, if_true, reduceCtorEq] at hg

end level0
end Atree.TransEq
