import AtreeProofs.Props.TransMapRestructMor
/-
  WP13, step 3: what the heap HOLDS after the two restructuring steps of `MergeOrRebalanceChildSlab` over the heap
  (`mrm_rebHeap`, `mrm_mergeHeap` of Props/TransMapRestructMor.lean): every child of the new parent is held, the parent is
  held under its identifier, the merged-away right slab is gone, every other identifier is untouched - given that the
  slabs below the operands were held before and the identifiers are pairwise distinct.
-/
namespace Atree.TransEq
open Atree

section heapPost
variable {r : Nat}

/-- `MHolds` only looks at the identifiers of the tree -/
theorem mrm_MHolds_congr : ∀ (d : Nat) (t : MTree r d) (x : Option DX) (h h' : SlabID → Option (DSlab r)),
    (∀ id ∈ md_ids d t, h' id = h id) → MHolds h d t x → MHolds h' d t x
  | 0, t, x, h, h', hyp, hh => by
    have e : h' (MTree.hdr 0 t).id = h (MTree.hdr 0 t).id := hyp _ (List.mem_singleton.mpr rfl)
    exact e.trans hh
  | d + 1, t, x, h, h', hyp, hh => by
    refine ⟨?_, fun c hc => ?_⟩
    · have e : h' (MTree.hdr (d + 1) t).id = h (MTree.hdr (d + 1) t).id := hyp _ (List.mem_cons_self)
      exact e.trans hh.1
    · exact mrm_MHolds_congr d c none h h'
        (fun id hid => hyp id (List.mem_cons_of_mem _ (List.mem_flatMap.mpr ⟨c, hc, hid⟩))) (hh.2 c hc)

/-- the slabs strictly below a subtree root are held -/
def mrm_KidsHeld (h : SlabID → Option (DSlab r)) : (d : Nat) → MTree r d → Prop
  | 0, _ => True
  | d + 1, (m : MMetaSlab (MTree r d)) => ∀ c ∈ m.children, MHolds h d c none

/-- the identifiers strictly below a subtree root -/
def mrm_kidIds : (d : Nat) → MTree r d → List SlabID
  | 0, _ => []
  | d + 1, (m : MMetaSlab (MTree r d)) => m.children.flatMap (md_ids d)

theorem mrm_MHolds_intro (h : SlabID → Option (DSlab r)) (d : Nat) (t : MTree r d)
    (h1 : h (MTree.hdr d t).id = some (md_tree d t none)) (h2 : mrm_KidsHeld h d t) : MHolds h d t none := by
  cases d with
  | zero => exact h1
  | succ d => exact ⟨h1, h2⟩

theorem mrm_MHolds_kids (h : SlabID → Option (DSlab r)) (d : Nat) (t : MTree r d) (x : Option DX)
    (hh : MHolds h d t x) : mrm_KidsHeld h d t := by
  cases d with
  | zero => trivial
  | succ d => exact hh.2

theorem mrm_md_ids_eq (d : Nat) (t : MTree r d) : md_ids d t = (MTree.hdr d t).id :: mrm_kidIds d t := by
  cases d <;> rfl

theorem mrm_KidsHeld_congr (d : Nat) (t : MTree r d) (h h' : SlabID → Option (DSlab r))
    (hyp : ∀ id ∈ mrm_kidIds d t, h' id = h id) (hh : mrm_KidsHeld h d t) : mrm_KidsHeld h' d t := by
  cases d with
  | zero => trivial
  | succ d =>
    exact fun c hc => mrm_MHolds_congr d c none h h'
      (fun id hid => hyp id (List.mem_flatMap.mpr ⟨c, hc, hid⟩)) (hh c hc)

/-- `Merge` keeps what is below: the merged slab's children are the operands' -/
theorem mrm_KidsHeld_merge (h : SlabID → Option (DSlab r)) (d : Nat) (l rr : MTree r d)
    (hl : mrm_KidsHeld h d l) (hr : mrm_KidsHeld h d rr) : mrm_KidsHeld h d (MTree.merge d l rr) := by
  cases d with
  | zero => trivial
  | succ d =>
    intro c hc
    simp only [MTree.merge, MMetaSlab.merge, List.mem_append] at hc
    exact hc.elim (hl c) (hr c)

theorem mrm_kidIds_merge (d : Nat) (l rr : MTree r d) (id : SlabID) (hid : id ∈ mrm_kidIds d (MTree.merge d l rr)) :
    id ∈ mrm_kidIds d l ∨ id ∈ mrm_kidIds d rr := by
  cases d with
  | zero => cases hid
  | succ d =>
    simp only [mrm_kidIds, MTree.merge, MMetaSlab.merge, List.flatMap_append, List.mem_append] at hid ⊢
    exact hid

/-- the rebalance steps keep what is below: the children of both results are children of the operands -/
theorem mrm_KidsHeld_rebalanced (T : Nat) (h : SlabID → Option (DSlab r)) (d : Nat) (l rr : MTree r d) (b : Bool)
    (hl : mrm_KidsHeld h d l) (hr : mrm_KidsHeld h d rr) :
    mrm_KidsHeld h d (msl_rebalanced T d l rr b).1 ∧ mrm_KidsHeld h d (msl_rebalanced T d l rr b).2 := by
  cases d with
  | zero => exact ⟨trivial, trivial⟩
  | succ d =>
    cases b
    · simp only [msl_rebalanced, Bool.false_eq_true, if_false, MTree.lendToRight, MMetaSlab.lendToRight]
      refine ⟨fun c hc => hl c (List.mem_of_mem_take hc), fun c hc => ?_⟩
      rcases List.mem_append.mp hc with hc | hc
      · exact hl c (List.mem_of_mem_drop hc)
      · exact hr c hc
    · simp only [msl_rebalanced, if_true, MTree.borrowFromRight, MMetaSlab.borrowFromRight]
      refine ⟨fun c hc => ?_, fun c hc => hr c (List.mem_of_mem_drop hc)⟩
      rcases List.mem_append.mp hc with hc | hc
      · exact hl c hc
      · exact hr c (List.mem_of_mem_take hc)

theorem mrm_kidIds_rebalanced (T : Nat) (d : Nat) (l rr : MTree r d) (b : Bool) (id : SlabID)
    (hid : id ∈ mrm_kidIds d (msl_rebalanced T d l rr b).1 ∨ id ∈ mrm_kidIds d (msl_rebalanced T d l rr b).2) :
    id ∈ mrm_kidIds d l ∨ id ∈ mrm_kidIds d rr := by
  cases d with
  | zero => rcases hid with hid | hid <;> cases hid
  | succ d =>
    cases b
    · simp only [msl_rebalanced, Bool.false_eq_true, if_false, MTree.lendToRight, MMetaSlab.lendToRight, mrm_kidIds,
        List.mem_flatMap, List.mem_append] at hid ⊢
      rcases hid with ⟨c, hc, hi⟩ | ⟨c, hc | hc, hi⟩
      · exact Or.inl ⟨c, List.mem_of_mem_take hc, hi⟩
      · exact Or.inl ⟨c, List.mem_of_mem_drop hc, hi⟩
      · exact Or.inr ⟨c, hc, hi⟩
    · simp only [msl_rebalanced, if_true, MTree.borrowFromRight, MMetaSlab.borrowFromRight, mrm_kidIds,
        List.mem_flatMap, List.mem_append] at hid ⊢
      rcases hid with ⟨c, hc | hc, hi⟩ | ⟨c, hc, hi⟩
      · exact Or.inl ⟨c, hc, hi⟩
      · exact Or.inr ⟨c, List.mem_of_mem_take hc, hi⟩
      · exact Or.inr ⟨c, List.mem_of_mem_drop hc, hi⟩

/-- the slab identifiers are kept by `Merge` and by both rebalance steps -/
theorem mrm_merge_id (d : Nat) (l rr : MTree r d) : (MTree.hdr d (MTree.merge d l rr)).id = (MTree.hdr d l).id := by
  cases d <;> rfl

theorem mrm_rebalanced_id (T : Nat) (d : Nat) (l rr : MTree r d) (b : Bool) :
    (MTree.hdr d (msl_rebalanced T d l rr b).1).id = (MTree.hdr d l).id ∧
    (MTree.hdr d (msl_rebalanced T d l rr b).2).id = (MTree.hdr d rr).id := by
  cases d with
  | zero =>
    cases b
    · simp only [msl_rebalanced, Bool.false_eq_true, MTree.lendToRight, MDataSlab.lendToRight, bind,
        Except.bind, pure, Except.pure]
      cases HkeyElems.lendToRight (MDataSlab.eops r) T (MDataSlab.elems l) (MDataSlab.elems rr) with
      | error e => exact ⟨rfl, rfl⟩
      | ok p => exact ⟨rfl, rfl⟩
    · simp only [msl_rebalanced, MTree.borrowFromRight, MDataSlab.borrowFromRight, bind,
        Except.bind, pure, Except.pure]
      cases HkeyElems.borrowFromRight (MDataSlab.eops r) T (MDataSlab.elems l) (MDataSlab.elems rr) with
      | error e => exact ⟨rfl, rfl⟩
      | ok p => exact ⟨rfl, rfl⟩
  | succ d => cases b <;> exact ⟨rfl, rfl⟩

/-! ### the heap after `rebalanceChildren` -/

/-- after `Store` left, `Store` right, `Store` parent: the parent is held under its identifier, BOTH stored children
    and every other (untouched) child are held, every identifier but the three is untouched.  `cs` = the parent's
    children before (entries `li`, `ri` replaced). -/
theorem mrm_rebHeap_post {α : Type} (s : MHSt r) (d : Nat) (l' r' : MTree r d) (m' : MMetaSlab α) (x : Option DX)
    (cs : List (MTree r d)) (li ri : Nat)
    (hlr : (MTree.hdr d l').id ≠ (MTree.hdr d r').id)
    (hml : m'.hdr.id ≠ (MTree.hdr d l').id) (hmr : m'.hdr.id ≠ (MTree.hdr d r').id)
    (hL : mrm_KidsHeld s.heap d l') (hR : mrm_KidsHeld s.heap d r')
    (hLi : ∀ id ∈ mrm_kidIds d l', id ≠ (MTree.hdr d l').id ∧ id ≠ (MTree.hdr d r').id ∧ id ≠ m'.hdr.id)
    (hRi : ∀ id ∈ mrm_kidIds d r', id ≠ (MTree.hdr d l').id ∧ id ≠ (MTree.hdr d r').id ∧ id ≠ m'.hdr.id)
    (hO : ∀ j c, j ≠ li → j ≠ ri → cs[j]? = some c → MHolds s.heap d c none ∧
      ∀ id ∈ md_ids d c, id ≠ (MTree.hdr d l').id ∧ id ≠ (MTree.hdr d r').id ∧ id ≠ m'.hdr.id) :
    (mrm_rebHeap s d l' r' m' x).heap m'.hdr.id = some (.metaSlab (md_meta m' x)) ∧
    (∀ c ∈ (cs.set li l').set ri r', MHolds (mrm_rebHeap s d l' r' m' x).heap d c none) ∧
    (∀ id, id ≠ (MTree.hdr d l').id → id ≠ (MTree.hdr d r').id → id ≠ m'.hdr.id →
      (mrm_rebHeap s d l' r' m' x).heap id = s.heap id) := by
  have hfr : ∀ id, id ≠ (MTree.hdr d l').id → id ≠ (MTree.hdr d r').id → id ≠ m'.hdr.id →
      (mrm_rebHeap s d l' r' m' x).heap id = s.heap id := by
    intro id h1 h2 h3
    simp only [mrm_rebHeap, MHSt.store_heap, if_neg h1, if_neg h2, if_neg h3]
  have hl' : (mrm_rebHeap s d l' r' m' x).heap (MTree.hdr d l').id = some (md_tree d l' none) := by
    simp only [mrm_rebHeap, MHSt.store_heap, if_neg (Ne.symm hml), if_neg hlr, if_true]
  have hr' : (mrm_rebHeap s d l' r' m' x).heap (MTree.hdr d r').id = some (md_tree d r' none) := by
    simp only [mrm_rebHeap, MHSt.store_heap, if_neg (Ne.symm hmr), if_true]
  refine ⟨by simp only [mrm_rebHeap, MHSt.store_heap, if_true], fun c hc => ?_, hfr⟩
  obtain ⟨j, hj⟩ := List.getElem?_of_mem hc
  have hLh := mrm_MHolds_intro _ d l' hl' (mrm_KidsHeld_congr d l' _ _
    (fun id hid => hfr id (hLi id hid).1 (hLi id hid).2.1 (hLi id hid).2.2) hL)
  have hRh := mrm_MHolds_intro _ d r' hr' (mrm_KidsHeld_congr d r' _ _
    (fun id hid => hfr id (hRi id hid).1 (hRi id hid).2.1 (hRi id hid).2.2) hR)
  rw [List.getElem?_set] at hj
  by_cases e1 : ri = j
  · rw [if_pos e1] at hj
    split at hj
    · cases hj; exact hRh
    · cases hj
  · rw [if_neg e1, List.getElem?_set] at hj
    by_cases e2 : li = j
    · rw [if_pos e2] at hj
      split at hj
      · cases hj; exact hLh
      · cases hj
    · rw [if_neg e2] at hj
      have ho := hO j c (Ne.symm e2) (Ne.symm e1) hj
      exact mrm_MHolds_congr d c none _ _
        (fun id hid => hfr id (ho.2 id hid).1 (ho.2 id hid).2.1 (ho.2 id hid).2.2) ho.1

/-! ### the heap after `mergeChildren` -/

/-- after `Store` merged, `Store` parent, `Remove` right: the parent is held, the merged slab and every other child are
    held, the right slab's identifier is GONE, every identifier but the three is untouched. -/
theorem mrm_mergeHeap_post {α : Type} (s : MHSt r) (d : Nat) (mg : MTree r d) (m' : MMetaSlab α) (x : Option DX)
    (rid : SlabID) (cs : List (MTree r d)) (li ri : Nat)
    (hlr : (MTree.hdr d mg).id ≠ rid) (hml : m'.hdr.id ≠ (MTree.hdr d mg).id) (hmr : m'.hdr.id ≠ rid)
    (hM : mrm_KidsHeld s.heap d mg)
    (hMi : ∀ id ∈ mrm_kidIds d mg, id ≠ (MTree.hdr d mg).id ∧ id ≠ rid ∧ id ≠ m'.hdr.id)
    (hO : ∀ j c, j ≠ li → j ≠ ri → cs[j]? = some c → MHolds s.heap d c none ∧
      ∀ id ∈ md_ids d c, id ≠ (MTree.hdr d mg).id ∧ id ≠ rid ∧ id ≠ m'.hdr.id) :
    (mrm_mergeHeap s d mg m' x rid).heap m'.hdr.id = some (.metaSlab (md_meta m' x)) ∧
    (∀ c ∈ (cs.set li mg).eraseIdx ri, MHolds (mrm_mergeHeap s d mg m' x rid).heap d c none) ∧
    (mrm_mergeHeap s d mg m' x rid).heap rid = none ∧
    (∀ id, id ≠ (MTree.hdr d mg).id → id ≠ rid → id ≠ m'.hdr.id →
      (mrm_mergeHeap s d mg m' x rid).heap id = s.heap id) := by
  have hfr : ∀ id, id ≠ (MTree.hdr d mg).id → id ≠ rid → id ≠ m'.hdr.id →
      (mrm_mergeHeap s d mg m' x rid).heap id = s.heap id := by
    intro id h1 h2 h3
    simp only [mrm_mergeHeap, MHSt.store_heap, MHSt.remove_heap, if_neg h1, if_neg h2, if_neg h3]
  have hm' : (mrm_mergeHeap s d mg m' x rid).heap (MTree.hdr d mg).id = some (md_tree d mg none) := by
    simp only [mrm_mergeHeap, MHSt.store_heap, MHSt.remove_heap, if_neg hlr, if_neg (Ne.symm hml), if_true]
  refine ⟨by simp only [mrm_mergeHeap, MHSt.store_heap, MHSt.remove_heap, if_neg hmr, if_true], fun c hc => ?_,
    by simp only [mrm_mergeHeap, MHSt.remove_heap, if_true], hfr⟩
  have hMh := mrm_MHolds_intro _ d mg hm' (mrm_KidsHeld_congr d mg _ _
    (fun id hid => hfr id (hMi id hid).1 (hMi id hid).2.1 (hMi id hid).2.2) hM)
  obtain ⟨j, hj⟩ := List.getElem?_of_mem hc
  rw [List.getElem?_eraseIdx] at hj
  have key : ∀ j', j' ≠ ri → (cs.set li mg)[j']? = some c →
      MHolds (mrm_mergeHeap s d mg m' x rid).heap d c none := by
    intro j' hjr hj'
    rw [List.getElem?_set] at hj'
    by_cases e2 : li = j'
    · rw [if_pos e2] at hj'
      split at hj'
      · cases hj'; exact hMh
      · cases hj'
    · rw [if_neg e2] at hj'
      have ho := hO j' c (Ne.symm e2) hjr hj'
      exact mrm_MHolds_congr d c none _ _
        (fun id hid => hfr id (ho.2 id hid).1 (ho.2 id hid).2.1 (ho.2 id hid).2.2) ho.1
  split at hj
  · exact key j (by omega) hj
  · exact key (j + 1) (by omega) hj

end heapPost

/-! ### the two steps at the level of the model's calls -/

section steps
variable {r : Nat}

theorem mrm_hid (d : Nat) (t : MTree r d) : (MTree.hdr d t).id ∈ md_ids d t := by
  rw [mrm_md_ids_eq]; exact List.mem_cons_self

theorem mrm_kid_sub (d : Nat) (t : MTree r d) (id : SlabID) (h : id ∈ mrm_kidIds d t) : id ∈ md_ids d t := by
  rw [mrm_md_ids_eq]; exact List.mem_cons_of_mem _ h

/-- what a rebalance / merge step of the operands `l` (child `li`), `rr` (child `ri`) of `m` needs of the heap before:
    the slabs below both operands and every OTHER child are held, the identifiers involved are pairwise distinct -/
structure mrm_PairOK (s : MHSt r) (d : Nat) (m : MMetaSlab (MTree r d)) (l rr : MTree r d) (li ri : Nat) : Prop where
  hlr : (MTree.hdr d l).id ≠ (MTree.hdr d rr).id
  hml : m.hdr.id ≠ (MTree.hdr d l).id
  hmr : m.hdr.id ≠ (MTree.hdr d rr).id
  hL : mrm_KidsHeld s.heap d l
  hR : mrm_KidsHeld s.heap d rr
  hLi : ∀ id, id ∈ mrm_kidIds d l ∨ id ∈ mrm_kidIds d rr →
    id ≠ (MTree.hdr d l).id ∧ id ≠ (MTree.hdr d rr).id ∧ id ≠ m.hdr.id
  hO : ∀ j c, j ≠ li → j ≠ ri → m.children[j]? = some c → MHolds s.heap d c none ∧
    ∀ id ∈ md_ids d c, id ≠ (MTree.hdr d l).id ∧ id ≠ (MTree.hdr d rr).id ∧ id ≠ m.hdr.id

theorem mrm_rebalanceChildren_ok (T : Nat) (d : Nat) (m : MMetaSlab (MTree r d)) (l rr : MTree r d) (li ri : Nat)
    (b : Bool) (c : Ctx) (m' : MMetaSlab (MTree r d)) (c' : Ctx)
    (h : MMetaSlab.rebalanceChildren T m l rr li ri b c = .ok (m', c')) :
    m'.children = (m.children.set li (msl_rebalanced T d l rr b).1).set ri (msl_rebalanced T d l rr b).2 ∧
    m'.hdr.id = m.hdr.id := by
  simp only [msl_rebalanced]
  cases b with
  | true =>
    simp only [MMetaSlab.rebalanceChildren, ↓reduceIte] at h ⊢
    cases hres : MTree.borrowFromRight T d l rr with
    | error e => rw [hres] at h; cases h
    | ok p => rw [hres] at h; cases h; exact ⟨rfl, rfl⟩
  | false =>
    simp only [MMetaSlab.rebalanceChildren, Bool.false_eq_true, ↓reduceIte] at h ⊢
    cases hres : MTree.lendToRight T d l rr with
    | error e => rw [hres] at h; cases h
    | ok p => rw [hres] at h; cases h; exact ⟨rfl, rfl⟩

/-- the heap after a successful `rebalanceChildren` step: the new parent held under the parent identifier, every child
    of the new parent held, everything but the three written identifiers untouched -/
theorem mrm_rebHeapOf_post (T : Nat) (d : Nat) (m : MMetaSlab (MTree r d)) (x : Option DX) (l rr : MTree r d)
    (li ri : Nat) (b : Bool) (s : MHSt r) (m' : MMetaSlab (MTree r d)) (c' : Ctx)
    (h : MMetaSlab.rebalanceChildren T m l rr li ri b s.ctx = .ok (m', c'))
    (hp : mrm_PairOK s d m l rr li ri) :
    (mrm_rebHeapOf T d m x l rr li ri b s).heap m.hdr.id = some (.metaSlab (md_meta m' x)) ∧
    (∀ c ∈ m'.children, MHolds (mrm_rebHeapOf T d m x l rr li ri b s).heap d c none) ∧
    (∀ id, id ≠ (MTree.hdr d l).id → id ≠ (MTree.hdr d rr).id → id ≠ m.hdr.id →
      (mrm_rebHeapOf T d m x l rr li ri b s).heap id = s.heap id) := by
  obtain ⟨hch, hmid⟩ := mrm_rebalanceChildren_ok T d m l rr li ri b s.ctx m' c' h
  obtain ⟨e1, e2⟩ := mrm_rebalanced_id T d l rr b
  obtain ⟨k1, k2⟩ := mrm_KidsHeld_rebalanced T s.heap d l rr b hp.hL hp.hR
  have hk := mrm_kidIds_rebalanced T d l rr b
  simp only [mrm_rebHeapOf, h]
  have post := mrm_rebHeap_post s d (msl_rebalanced T d l rr b).1 (msl_rebalanced T d l rr b).2 m' x m.children li ri
    (by rw [e1, e2]; exact hp.hlr) (by rw [e1, hmid]; exact hp.hml) (by rw [e2, hmid]; exact hp.hmr) k1 k2
    (fun id hid => by rw [e1, e2, hmid]; exact hp.hLi id (hk id (Or.inl hid)))
    (fun id hid => by rw [e1, e2, hmid]; exact hp.hLi id (hk id (Or.inr hid)))
    (fun j c h1 h2 h3 => by rw [e1, e2, hmid]; exact hp.hO j c h1 h2 h3)
  rw [e1, e2, hmid, ← hch] at post
  exact post

/-- the heap after the `mergeChildren` step: likewise, and the right operand's identifier is GONE -/
theorem mrm_mergeHeapOf_post (d : Nat) (m : MMetaSlab (MTree r d)) (x : Option DX) (l rr : MTree r d)
    (li ri : Nat) (s : MHSt r) (hp : mrm_PairOK s d m l rr li ri) :
    (mrm_mergeHeapOf d m x l rr li ri s).heap m.hdr.id =
      some (.metaSlab (md_meta (MMetaSlab.mergeChildren m l rr li ri s.ctx).1 x)) ∧
    (∀ c ∈ (MMetaSlab.mergeChildren m l rr li ri s.ctx).1.children,
      MHolds (mrm_mergeHeapOf d m x l rr li ri s).heap d c none) ∧
    (mrm_mergeHeapOf d m x l rr li ri s).heap (MTree.hdr d rr).id = none ∧
    (∀ id, id ≠ (MTree.hdr d l).id → id ≠ (MTree.hdr d rr).id → id ≠ m.hdr.id →
      (mrm_mergeHeapOf d m x l rr li ri s).heap id = s.heap id) := by
  have e1 := mrm_merge_id d l rr
  have hmid : (MMetaSlab.mergeChildren m l rr li ri s.ctx).1.hdr.id = m.hdr.id := rfl
  have hch : (MMetaSlab.mergeChildren m l rr li ri s.ctx).1.children =
      (m.children.set li (MTree.merge d l rr)).eraseIdx ri := rfl
  have post := mrm_mergeHeap_post s d (MTree.merge d l rr) (MMetaSlab.mergeChildren m l rr li ri s.ctx).1 x
    (MTree.hdr d rr).id m.children li ri
    (by rw [e1]; exact hp.hlr) (by rw [e1, hmid]; exact hp.hml) (by rw [hmid]; exact hp.hmr)
    (mrm_KidsHeld_merge s.heap d l rr hp.hL hp.hR)
    (fun id hid => by rw [e1, hmid]; exact hp.hLi id (mrm_kidIds_merge d l rr id hid))
    (fun j c h1 h2 h3 => by rw [e1, hmid]; exact hp.hO j c h1 h2 h3)
  rw [e1, hmid, ← hch] at post
  exact post

end steps

/-! ### `MergeOrRebalanceChildSlab`: what the heap holds afterwards -/

section morPost
variable {r : Nat}

/-- the children of the parent as the call sees them: the updated child (passed by value) at `k`, the others as embedded -/
def mrm_at {d : Nat} (m : MMetaSlab (MTree r d)) (child : MTree r d) (k j : Nat) : Option (MTree r d) :=
  if j = k then some child else m.children[j]?

/-- what `Ob_MergeOrRebalanceChildSlab_heapPost` needs of the heap before the call: what is below the updated child and
    every OTHER child of the parent are held; the identifiers are pairwise distinct (the parent's is in no child's
    subtree, the subtrees of different children are disjoint, a child's root identifier does not occur below it) -/
structure mrm_MorHeld (s : MHSt r) (d : Nat) (m : MMetaSlab (MTree r d)) (child : MTree r d) (k : Nat) : Prop where
  kidsChild : mrm_KidsHeld s.heap d child
  others : ∀ j c, j ≠ k → m.children[j]? = some c → MHolds s.heap d c none
  parent : ∀ j c, mrm_at m child k j = some c → m.hdr.id ∉ md_ids d c
  disj : ∀ i j a b, i ≠ j → mrm_at m child k i = some a → mrm_at m child k j = some b → ∀ id ∈ md_ids d a, id ∉ md_ids d b
  acyc : ∀ j c, mrm_at m child k j = some c → (MTree.hdr d c).id ∉ mrm_kidIds d c

theorem mrm_pairR (s : MHSt r) (d : Nat) (m : MMetaSlab (MTree r d)) (child : MTree r d) (k : Nat) (y : MTree r d)
    (hh : mrm_MorHeld s d m child k) (hy : m.children[k + 1]? = some y) : mrm_PairOK s d m child y k (k + 1) := by
  have aK : mrm_at m child k k = some child := if_pos rfl
  have aY : mrm_at m child k (k + 1) = some y := by simp only [mrm_at, if_neg (Nat.succ_ne_self k), hy]
  have hne : k ≠ k + 1 := by omega
  refine ⟨?_, ?_, ?_, hh.kidsChild, mrm_MHolds_kids _ d y none (hh.others (k + 1) y (Nat.succ_ne_self k) hy), ?_, ?_⟩
  · intro e
    exact hh.disj k (k + 1) child y hne aK aY _ (mrm_hid d child) (by rw [e]; exact mrm_hid d y)
  · intro e; exact hh.parent k child aK (by rw [e]; exact mrm_hid d child)
  · intro e; exact hh.parent (k + 1) y aY (by rw [e]; exact mrm_hid d y)
  · intro id hid
    rcases hid with hid | hid
    · exact ⟨fun e => hh.acyc k child aK (e ▸ hid),
        fun e => hh.disj k (k + 1) child y hne aK aY id (mrm_kid_sub d child id hid) (by rw [e]; exact mrm_hid d y),
        fun e => hh.parent k child aK (e ▸ mrm_kid_sub d child id hid)⟩
    · exact ⟨fun e => hh.disj (k + 1) k y child hne.symm aY aK id (mrm_kid_sub d y id hid)
          (by rw [e]; exact mrm_hid d child),
        fun e => hh.acyc (k + 1) y aY (e ▸ hid),
        fun e => hh.parent (k + 1) y aY (e ▸ mrm_kid_sub d y id hid)⟩
  · intro j c h1 h2 hj
    have aJ : mrm_at m child k j = some c := by simp only [mrm_at, if_neg h1, hj]
    exact ⟨hh.others j c h1 hj, fun id hid =>
      ⟨fun e => hh.disj j k c child h1 aJ aK id hid (by rw [e]; exact mrm_hid d child),
       fun e => hh.disj j (k + 1) c y h2 aJ aY id hid (by rw [e]; exact mrm_hid d y),
       fun e => hh.parent j c aJ (e ▸ hid)⟩⟩

theorem mrm_pairL (s : MHSt r) (d : Nat) (m : MMetaSlab (MTree r d)) (child : MTree r d) (k : Nat) (l : MTree r d)
    (hh : mrm_MorHeld s d m child k) (hk0 : 0 < k) (hl : m.children[k - 1]? = some l) :
    mrm_PairOK s d m l child (k - 1) k := by
  have hne : k - 1 ≠ k := by omega
  have aK : mrm_at m child k k = some child := if_pos rfl
  have aL : mrm_at m child k (k - 1) = some l := by simp only [mrm_at, if_neg hne, hl]
  refine ⟨?_, ?_, ?_, mrm_MHolds_kids _ d l none (hh.others (k - 1) l hne hl), hh.kidsChild, ?_, ?_⟩
  · intro e
    exact hh.disj (k - 1) k l child hne aL aK _ (mrm_hid d l) (by rw [e]; exact mrm_hid d child)
  · intro e; exact hh.parent (k - 1) l aL (by rw [e]; exact mrm_hid d l)
  · intro e; exact hh.parent k child aK (by rw [e]; exact mrm_hid d child)
  · intro id hid
    rcases hid with hid | hid
    · exact ⟨fun e => hh.acyc (k - 1) l aL (e ▸ hid),
        fun e => hh.disj (k - 1) k l child hne aL aK id (mrm_kid_sub d l id hid) (by rw [e]; exact mrm_hid d child),
        fun e => hh.parent (k - 1) l aL (e ▸ mrm_kid_sub d l id hid)⟩
    · exact ⟨fun e => hh.disj k (k - 1) child l hne.symm aK aL id (mrm_kid_sub d child id hid)
          (by rw [e]; exact mrm_hid d l),
        fun e => hh.acyc k child aK (e ▸ hid),
        fun e => hh.parent k child aK (e ▸ mrm_kid_sub d child id hid)⟩
  · intro j c h1 h2 hj
    have aJ : mrm_at m child k j = some c := by simp only [mrm_at, if_neg h2, hj]
    exact ⟨hh.others j c h2 hj, fun id hid =>
      ⟨fun e => hh.disj j (k - 1) c l h1 aJ aL id hid (by rw [e]; exact mrm_hid d l),
       fun e => hh.disj j k c child h2 aJ aK id hid (by rw [e]; exact mrm_hid d child),
       fun e => hh.parent j c aJ (e ▸ hid)⟩⟩

/-- the heap `s'` after the call, against the heap `s` before: the new parent `m'` is held under the parent identifier,
    EVERY child of `m'` is held, every identifier that is neither the parent's, the child's nor a sibling's root
    identifier is untouched -/
def mrm_MorPost (s s' : MHSt r) (d : Nat) (m : MMetaSlab (MTree r d)) (x : Option DX) (child : MTree r d)
    (m' : MMetaSlab (MTree r d)) : Prop :=
  s'.heap m.hdr.id = some (.metaSlab (md_meta m' x)) ∧ (∀ c ∈ m'.children, MHolds s'.heap d c none) ∧
  (∀ id, id ≠ m.hdr.id → id ≠ (MTree.hdr d child).id →
    (∀ (j : Nat) (c : MTree r d), m.children[j]? = some c → id ≠ (MTree.hdr d c).id) → s'.heap id = s.heap id)

variable (T : Nat) (d : Nat) (m : MMetaSlab (MTree r d)) (x : Option DX) (child : MTree r d) (k : Nat) (s : MHSt r)
  (m' : MMetaSlab (MTree r d)) (c' : Ctx) (hh : mrm_MorHeld s d m child k)
include hh

theorem mrm_leafRebR (y : MTree r d) (hy : m.children[k + 1]? = some y)
    (h : MMetaSlab.rebalanceChildren T m child y k (k + 1) true s.ctx = .ok (m', c')) :
    mrm_MorPost s (mrm_rebHeapOf T d m x child y k (k + 1) true s) d m x child m' := by
  have p := mrm_rebHeapOf_post T d m x child y k (k + 1) true s m' c' h (mrm_pairR s d m child k y hh hy)
  exact ⟨p.1, p.2.1, fun id h1 h2 h3 => p.2.2 id h2 (h3 (k + 1) y hy) h1⟩

theorem mrm_leafRebL (l : MTree r d) (hk0 : 0 < k) (hl : m.children[k - 1]? = some l)
    (h : MMetaSlab.rebalanceChildren T m l child (k - 1) k false s.ctx = .ok (m', c')) :
    mrm_MorPost s (mrm_rebHeapOf T d m x l child (k - 1) k false s) d m x child m' := by
  have p := mrm_rebHeapOf_post T d m x l child (k - 1) k false s m' c' h (mrm_pairL s d m child k l hh hk0 hl)
  exact ⟨p.1, p.2.1, fun id h1 h2 h3 => p.2.2 id (h3 (k - 1) l hl) h2 h1⟩

theorem mrm_leafMrgR (y : MTree r d) (hy : m.children[k + 1]? = some y)
    (h : (Except.ok (MMetaSlab.mergeChildren m child y k (k + 1) s.ctx) : Except MErr _) = .ok (m', c')) :
    mrm_MorPost s (mrm_mergeHeapOf d m x child y k (k + 1) s) d m x child m' := by
  have hm : (MMetaSlab.mergeChildren m child y k (k + 1) s.ctx).1 = m' := congrArg Prod.fst (Except.ok.inj h)
  subst hm
  have p := mrm_mergeHeapOf_post d m x child y k (k + 1) s (mrm_pairR s d m child k y hh hy)
  exact ⟨p.1, p.2.1, fun id h1 h2 h3 => p.2.2.2 id h2 (h3 (k + 1) y hy) h1⟩

theorem mrm_leafMrgL (l : MTree r d) (hk0 : 0 < k) (hl : m.children[k - 1]? = some l)
    (h : (Except.ok (MMetaSlab.mergeChildren m l child (k - 1) k s.ctx) : Except MErr _) = .ok (m', c')) :
    mrm_MorPost s (mrm_mergeHeapOf d m x l child (k - 1) k s) d m x child m' := by
  have hm : (MMetaSlab.mergeChildren m l child (k - 1) k s.ctx).1 = m' := congrArg Prod.fst (Except.ok.inj h)
  subst hm
  have p := mrm_mergeHeapOf_post d m x l child (k - 1) k s (mrm_pairL s d m child k l hh hk0 hl)
  exact ⟨p.1, p.2.1, fun id h1 h2 h3 => p.2.2.2 id (h3 (k - 1) l hl) h2 h1⟩

/-- **the heap after `MergeOrRebalanceChildSlab`** (`mrm_morHeap`, the storage of `Ob_MergeOrRebalanceChildSlab_heap`), in
    the model's `.ok (m', c')` case: it holds the new parent under the parent identifier and EVERY child of `m'`
    (`MHolds`: the slab and everything below it), and leaves every identifier other than the parent's, the child's and
    the siblings' root identifiers untouched - whichever branch of the 3 x 3 table is taken.
    (The right operand's identifier of a merge is gone: `mrm_mergeHeapOf_post`.) -/
theorem Ob_MergeOrRebalanceChildSlab_heapPost (u : Nat)
    (h : MMetaSlab.mergeOrRebalanceChildSlab T m child k u s.ctx = .ok (m', c')) :
    mrm_MorPost s (mrm_morHeap T d m x child k u s) d m x child m' := by
  revert h
  simp only [MMetaSlab.mergeOrRebalanceChildSlab, mrm_morHeap]
  cases hl : (if k > 0 then m.children[k - 1]? else none) with
  | none =>
    cases hx : (if k + 1 < m.childHdrs.length then m.children[k + 1]? else none) with
    | none => simp only [Bool.or_false, Bool.false_eq_true, if_false]; intro h; cases h
    | some y =>
      have hy : m.children[k + 1]? = some y := by
        by_cases hk : k + 1 < m.childHdrs.length
        · rw [if_pos hk] at hx; exact hx
        · rw [if_neg hk] at hx; cases hx
      simp only [Bool.false_or]
      split
      · exact mrm_leafRebR T d m x child k s m' c' hh y hy
      · exact mrm_leafMrgR d m x child k s m' c' hh y hy
  | some l =>
    have hkl : 0 < k ∧ m.children[k - 1]? = some l := by
      by_cases hk : k > 0
      · rw [if_pos hk] at hl; exact ⟨hk, hl⟩
      · rw [if_neg hk] at hl; cases hl
    obtain ⟨hk0, hl'⟩ := hkl
    cases hx : (if k + 1 < m.childHdrs.length then m.children[k + 1]? else none) with
    | none =>
      simp only [Bool.or_false]
      split
      · exact mrm_leafRebL T d m x child k s m' c' hh l hk0 hl'
      · exact mrm_leafMrgL d m x child k s m' c' hh l hk0 hl'
    | some y =>
      have hy : m.children[k + 1]? = some y := by
        by_cases hk : k + 1 < m.childHdrs.length
        · rw [if_pos hk] at hx; exact hx
        · rw [if_neg hk] at hx; cases hx
      simp only []
      repeat' split
      all_goals first
        | exact mrm_leafRebR T d m x child k s m' c' hh y hy
        | exact mrm_leafMrgR d m x child k s m' c' hh y hy
        | exact mrm_leafRebL T d m x child k s m' c' hh l hk0 hl'
        | exact mrm_leafMrgL d m x child k s m' c' hh l hk0 hl'

end morPost

end Atree.TransEq
