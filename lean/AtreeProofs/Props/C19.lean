import AtreeProofs.Codec.NoPanic
import AtreeProofs.Codec.NoPanicG
import AtreeProofs.Codec.BudgetSlab
/-
  C19 — Decoding untrusted bytes never panics or hangs.
  PROPERTY THEOREMS about the byte-level decoder model (`AtreeModel/Codec/Decode.lean`), in which
  every Go slice expression, fixed-offset read, index and `make` of the transcribed decoders carries
  its bounds condition and a violated condition yields the outcome `panic`.

  Scope of `decode_never_panics`: `DecodeSlab` for EVERY slab kind and both format versions — array
  data / index slabs, map data / index / collision-group slabs, large-value slabs, the array and map
  extra-data sections, the shared inlined-extra-data section (type-info references included),
  inlined arrays / maps / compact maps (`DecodeInlined*Storable`), collision groups, the harness's
  element / type-info callbacks with their recursion — for ALL byte strings.
  Scope of `alloc_linear`: the same full `DecodeSlab`, all kinds, all byte strings, success or
  failure: at most TWO slice elements per input byte (an inlined compact map allocates two slices of
  its element count; every other `make` is paid once by the items an array head announces or by the
  bytes of a byte string just read).
  Scope of `alloc_linear_flat`: the first part of the decoder (`decodeSlabFlat`: array data / index
  slabs and large-value slabs without wrappers or inlined children), where the constant is 1; the
  bound `allocs ≤ length` does NOT hold for the full decoder, see INTEGRATION-codec2.md.
  Panics inside the CBOR library or the Go runtime are not modelled (DESIGN.md §7, C19 "Partial").

  Termination: every function of the model is accepted by Lean as structurally recursive — the
  element loops and the child-header loops on their iteration count, the CBOR validator `wfRun` on a
  fuel argument that is the input length, the mutually recursive decoders of nested storables and
  map elements on a fuel argument that `decodeSlabGen` sets to the input length plus one (exhausted
  fuel is an `error`, never a `panic`; it is never what decides: `decodeSlab_fuel_irrelevant`,
  Props/C19Fuel.lean).  There is no `partial` definition in the model.
  The accessors `ByteSize` / `ChildStorables`: Props/C19Acc.lean (`accessors_never_panic`).
-/
namespace Atree.C19
open Atree Atree.Codec Atree.Gen

/-- `DecodeSlab` never panics: for every byte string, slab ID and allocation-counter start. -/
theorem decode_never_panics (bytes : Bytes) (id : SlabID) (n : Nat) :
    decodeSlab id bytes n ≠ .panic := by
  exact NP.ne_panic (np_decodeSlab id bytes) n

/-- The three header queries never panic, and fail exactly on inputs shorter than two bytes. -/
theorem header_queries_total (bytes : Bytes) (n : Nat) :
    isRootOfAnObject bytes n ≠ .panic ∧ Codec.hasPointers bytes n ≠ .panic ∧ hasSizeLimit bytes n ≠ .panic := by
  have hq : ∀ (f : SlabHead → Bool), (do let h ← headOf bytes; pure (f h) : DM Bool) n ≠ .panic := by
    intro f h
    have hs : Safe (do let h ← headOf bytes; pure (f h) : DM Bool) 0 (fun _ => True) :=
      Safe.bind0 (safe_headOf bytes) (fun _ _ => Safe.pure trivial)
    have := hs n
    rw [h] at this
    exact this
  exact ⟨hq _, hq _, hq _⟩

/-- The header queries succeed exactly when there are at least two bytes. -/
theorem header_queries_ok_iff (bytes : Bytes) (n : Nat) :
    (∃ b, isRootOfAnObject bytes n = .ok b n) ↔ 2 ≤ bytes.length := by
  unfold isRootOfAnObject headOf
  constructor
  · rintro ⟨b, h⟩
    by_cases hl : bytes.length < versionAndFlagSize
    · rw [if_pos hl] at h
      cases h
    · simp only [versionAndFlagSize] at hl; omega
  · intro hl
    match bytes, hl with
    | b0 :: b1 :: tail, _ =>
      refine ⟨(SlabHead.mk b0 b1).isRoot, ?_⟩
      have h2 : ¬ (b0 :: b1 :: tail).length < versionAndFlagSize := by simp [versionAndFlagSize]
      rw [if_neg h2]
      unfold sliceTo
      rw [if_pos (by simp [versionAndFlagSize])]
      rfl

/-- Memory, first part of the decoder (array data / index slabs, large-value slabs, plain elements):
    the number of slice elements `DecodeSlab` allocates with `make` (the element slice of a data slab,
    the two child-header slices of an index slab) is at most the length of the input, whether
    decoding succeeds or fails.  (This was `alloc_linear` before the model covered maps and inlined
    slabs; for the full decoder the constant is 2, not 1.) -/
theorem alloc_linear_flat (bytes : Bytes) (id : SlabID) : (decodeSlabFlat id bytes).run.allocs ≤ bytes.length + 0 :=
  (safe_decodeSlabFlat id bytes).run_allocs_le

/-- Memory, the full decoder (every slab kind, both versions, inlined children, compact maps,
    collision groups, the inlined-extra-data section): the number of slice elements `DecodeSlab`
    allocates with `make` is at most twice the length of the input, whether decoding succeeds or
    fails.  The constant 2 is needed: `DecodeInlinedCompactMapStorable` allocates a digest slice and
    an element slice of the size of the (validated) value array.  Proof: `Codec/Budget*.lean` — the
    CBOR validator has already accepted every item the stream decoder is inside, so an array head
    that announces `k` items is followed by at least `k` bytes. -/
theorem alloc_linear (bytes : Bytes) (id : SlabID) : (decodeSlab id bytes).run.allocs ≤ 2 * bytes.length := by
  have h := decodeSlab_alloc_le id bytes 0
  unfold DM.run
  cases hm : decodeSlab id bytes 0 with
  | ok a n => rw [hm] at h; simp only [Res.allocs]; omega
  | error e n => rw [hm] at h; simp only [Res.allocs]; omega
  | panic => simp [Res.allocs]

/-- The same with an arbitrary start of the allocation counter (so for a sequence of decodes). -/
theorem alloc_linear_from (bytes : Bytes) (id : SlabID) (n : Nat) :
    match decodeSlab id bytes n with
    | .ok _ n' => n' ≤ n + 2 * bytes.length
    | .error _ n' => n' ≤ n + 2 * bytes.length
    | .panic => True :=
  decodeSlab_alloc_le id bytes n

/-- The copies the CBOR library makes in `DecodeBytes` are bounded by the bytes consumed (so, summed
    over a register, by its length): a returned byte string is shorter than what was consumed. -/
theorem decodeBytes_copy_le_consumed {t : Nat} {b : Bytes} {d d' : Dec} (hi : DecInv t d)
    (h : d.decodeBytes = some (b, d')) : d.consumed + b.length + 1 ≤ d'.consumed ∧ d'.consumed ≤ t :=
  ⟨(decodeBytes_inv hi h).2, (decodeBytes_inv hi h).1.consumed_le⟩

/-- The validator's fuel — set to the input length — is never what makes an input invalid: any larger
    amount gives the same verdict.  (The other fuel of the model, that of the mutually recursive
    decoders of nested storables and map elements, is covered by `C19.decodeSlab_fuel_irrelevant`,
    Props/C19Fuel.lean.) -/
theorem validator_fuel_irrelevant (data : Bytes) (fuel : Nat) (h : data.length ≤ fuel) :
    wfRun fuel [.items 0 0] data = wfNext data :=
  wfRun_fuel_irrelevant fuel data.length _ data h (Nat.le_refl _)

-- `accessors_total` (a trivial statement about the total functions `byteSize` / `childStorables`) has been
-- replaced by `C19.accessors_never_panic` (Props/C19Acc.lean): the Go accessors transcribed in the
-- ok | error | panic monad over a raw slab representation with nil / foreign slots.

end Atree.C19
