import AtreeProofs.Codec.NoPanic
/-
  C19 — Decoding untrusted bytes never panics or hangs.
  PROPERTY THEOREMS about the byte-level decoder model (`AtreeModel/Codec/Decode.lean`), in which
  every Go slice expression, fixed-offset read, index and `make` of the transcribed decoders carries
  its bounds condition and a violated condition yields the outcome `panic`.

  Scope: `DecodeSlab` for array data slabs (versions 0 and 1), array index slabs (versions 0 and 1)
  and large-value slabs, the array extra-data section, `NewSlabIDFromRawBytes`, the harness's
  element / type-info callbacks, and the three header queries of slab.go — for ALL byte strings.
  NOT covered: map slabs, a version-1 data slab with the has-inlined-slabs bit (the shared
  inlined-extra-data section) and inlined children: on those inputs the model stops with
  `error .unsupported` instead of following the Go code, so the theorems say nothing about what the
  Go code does there (the malformed stream's recover/timeout oracle still runs on them).  Panics
  inside the CBOR library or the Go runtime are not modelled either (DESIGN.md §7, C19 "Partial").

  Termination: every function of the model is accepted by Lean as structurally recursive — the
  element loop and the child-header loops on their iteration count (which `alloc_linear` bounds by
  the input length), the CBOR validator `wfRun` on a fuel argument that is the input length.  There
  is no `partial` definition and no other fuel.
-/
namespace Atree.C19
open Atree Atree.Codec Atree.Gen

/-- `DecodeSlab` never panics: for every byte string, slab ID and allocation-counter start. -/
theorem decode_never_panics (bytes : Bytes) (id : SlabID) (n : Nat) :
    decodeSlab id bytes n ≠ .panic := by
  intro h
  have := safe_decodeSlab id bytes n
  rw [h] at this
  exact this

/-- The three header queries never panic, and fail exactly on inputs shorter than two bytes. -/
theorem header_queries_total (bytes : Bytes) (n : Nat) :
    isRootOfAnObject bytes n ≠ .panic ∧ Codec.hasPointers bytes n ≠ .panic ∧ hasSizeLimit bytes n ≠ .panic := by
  have hq : ∀ (f : SlabHead → Bool), (do let h ← headOf bytes; pure (f h) : DM Bool) n ≠ .panic := by
    intro f h
    have hs : Safe (do let h ← headOf bytes; pure (f h) : DM Bool) 0 (fun _ => True) :=
      Safe.bind0 (safe_headOf bytes) (fun _ _ => Safe.pure trivial)
    have := hs n
    rw [h] at this
    exact this
  exact ⟨hq _, hq _, hq _⟩

/-- The header queries succeed exactly when there are at least two bytes. -/
theorem header_queries_ok_iff (bytes : Bytes) (n : Nat) :
    (∃ b, isRootOfAnObject bytes n = .ok b n) ↔ 2 ≤ bytes.length := by
  unfold isRootOfAnObject headOf
  constructor
  · rintro ⟨b, h⟩
    by_cases hl : bytes.length < versionAndFlagSize
    · rw [if_pos hl] at h
      cases h
    · simp only [versionAndFlagSize] at hl; omega
  · intro hl
    match bytes, hl with
    | b0 :: b1 :: tail, _ =>
      refine ⟨(SlabHead.mk b0 b1).isRoot, ?_⟩
      have h2 : ¬ (b0 :: b1 :: tail).length < versionAndFlagSize := by simp [versionAndFlagSize]
      rw [if_neg h2]
      unfold sliceTo
      rw [if_pos (by simp [versionAndFlagSize])]
      rfl

/-- Memory: the number of slice elements `DecodeSlab` allocates with `make` (the element slice of a
    data slab, the two child-header slices of an index slab) is at most the length of the input,
    whether decoding succeeds or fails. -/
theorem alloc_linear (bytes : Bytes) (id : SlabID) : (decodeSlab id bytes).run.allocs ≤ bytes.length + 0 :=
  (safe_decodeSlab id bytes).run_allocs_le

/-- The copies the CBOR library makes in `DecodeBytes` are bounded by the bytes consumed (so, summed
    over a register, by its length): a returned byte string is shorter than what was consumed. -/
theorem decodeBytes_copy_le_consumed {t : Nat} {b : Bytes} {d d' : Dec} (hi : DecInv t d)
    (h : d.decodeBytes = some (b, d')) : d.consumed + b.length + 1 ≤ d'.consumed ∧ d'.consumed ≤ t :=
  ⟨(decodeBytes_inv hi h).2, (decodeBytes_inv hi h).1.consumed_le⟩

/-- The only fuel in the model — the validator's, set to the input length — is never what makes an
    input invalid: any larger amount gives the same verdict. -/
theorem validator_fuel_irrelevant (data : Bytes) (fuel : Nat) (h : data.length ≤ fuel) :
    wfRun fuel [.items 0 0] data = wfNext data :=
  wfRun_fuel_irrelevant fuel data.length _ data h (Nat.le_refl _)

/-- The accessors of a decoded slab are total functions of the model (`ByteSize`, `ChildStorables`
    read fields that every decoder path initialises); stated for the record. -/
theorem accessors_total (s : Slab) : ∃ n l, s.byteSize = n ∧ s.childStorables = l := ⟨_, _, rfl, rfl⟩

end Atree.C19
