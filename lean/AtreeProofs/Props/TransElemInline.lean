import AtreeProofs.Trans.MapElem
import AtreeProofs.Trans.MapElemOn
namespace Atree.TransEq
open Atree Atree.Gen.TransElem

section
variable {α X : Type} (o : ElemsOps α) (cfg : MCfg) (k : MKey) (v : Elem) (env : Env α SV SW X MKey Unit Ctx GE)

/-- `singleElement_Get_eq_model` over the relativised environment `EnvBOn` -/
theorem singleElement_Get_eq_model_on {Qg Qs Qr : α → Nat → Ctx → Prop} {Qn : Nat → SElem → Prop}
    (hE : EnvBOn o cfg k v env Qg Qs Qr Qn) (x : SElem) (c : Ctx) (d : MKey) (lvl hk : UInt64) (level : Nat) :
    singleElement_Get env (mei_cE x) c d lvl hk (.key k) = mei_rGet c (MElemF.get o cfg (.single x) level k) := by
  simp only [singleElement_Get, mei_cE, hE.cmp, MElemF.get]
  cases x.key.same k <;> simp [mei_rGet, hE.eKeyNotFound]

theorem singleElement_Get_eq_model (hE : EnvB o cfg k v env) (x : SElem) (c : Ctx) (d : MKey) (lvl hk : UInt64) (level : Nat) :
    singleElement_Get env (mei_cE x) c d lvl hk (.key k) = mei_rGet c (MElemF.get o cfg (.single x) level k) :=
  singleElement_Get_eq_model_on o cfg k v env hE.toOn x c d lvl hk level

/-- `singleElement_Remove_eq_model` over the relativised environment `EnvBOn` -/
theorem singleElement_Remove_eq_model_on {Qg Qs Qr : α → Nat → Ctx → Prop} {Qn : Nat → SElem → Prop}
    (hE : EnvBOn o cfg k v env Qg Qs Qr Qn) (x : SElem) (c : Ctx) (d : MKey) (lvl hk : UInt64) (level : Nat) :
    singleElement_Remove env (mei_cE x) c d lvl hk (.key k) = mei_rERemove c (MElemF.remove o cfg (.single x) level k c) := by
  simp only [singleElement_Remove, mei_cE, hE.cmp, MElemF.remove]
  cases x.key.same k <;> simp [mei_rERemove, mei_cOptEl, hE.eKeyNotFound]

theorem singleElement_Remove_eq_model (hE : EnvB o cfg k v env) (x : SElem) (c : Ctx) (d : MKey) (lvl hk : UInt64) (level : Nat) :
    singleElement_Remove env (mei_cE x) c d lvl hk (.key k) = mei_rERemove c (MElemF.remove o cfg (.single x) level k c) :=
  singleElement_Remove_eq_model_on o cfg k v env hE.toOn x c d lvl hk level

theorem mei_il_u64_succ (level : Nat) : u64 level + 1 = u64 (level + 1) := by
  simp [u64, UInt64.ofNat_add]

/-- `inlineCollisionGroup_Get_eq_model` over the relativised environment `EnvBOn` -/
theorem inlineCollisionGroup_Get_eq_model_on {Qg Qs Qr : α → Nat → Ctx → Prop} {Qn : Nat → SElem → Prop}
    (hE : EnvBOn o cfg k v env Qg Qs Qr Qn) (g : α) (c : Ctx) (level : Nat) (hk : UInt64)
    (hl : level + 1 < 2^64) (hL : cfg.L < 2^64) (hQ : Qg g (level + 1) c) :
    inlineCollisionGroup_Get env { elements := g } c k (u64 level) hk (.key k) = mei_rGet c (MElemF.get o cfg (.inl g) level k) := by
  simp only [inlineCollisionGroup_Get, mei_il_u64_succ, hE.levels, u64_dgt hl hL, hE.dig k _ hl, hE.gGet g c _ hl hQ, MElemF.get]
  by_cases h : level + 1 > cfg.L
  · simp [h, mei_rGet, hE.eHashLevel]
  · simp [h]

theorem inlineCollisionGroup_Get_eq_model (hE : EnvB o cfg k v env) (g : α) (c : Ctx) (level : Nat) (hk : UInt64)
    (hl : level + 1 < 2^64) (hL : cfg.L < 2^64) :
    inlineCollisionGroup_Get env { elements := g } c k (u64 level) hk (.key k) = mei_rGet c (MElemF.get o cfg (.inl g) level k) :=
  inlineCollisionGroup_Get_eq_model_on o cfg k v env hE.toOn g c level hk hl hL trivial

/-- `inlineCollisionGroup_Remove_eq_model` over the relativised environment `EnvBOn` -/
theorem inlineCollisionGroup_Remove_eq_model_on {Qg Qs Qr : α → Nat → Ctx → Prop} {Qn : Nat → SElem → Prop}
    (hE : EnvBOn o cfg k v env Qg Qs Qr Qn) (g : α) (c : Ctx) (level : Nat) (hk : UInt64)
    (hl : level + 1 < 2^64) (hL : cfg.L < 2^64)
    (hcnt : ∀ rk rv g' c', o.remove cfg g (level + 1) k c = .ok (rk, rv, g', c') → o.count g' < 2^32)
    (hQ : Qr g (level + 1) c) :
    inlineCollisionGroup_Remove env { elements := g } c k (u64 level) hk (.key k) =
      (let r := mei_rERemove c (MElemF.remove o cfg (.inl g) level k c)
       (r.1, r.2.1, r.2.2.1, r.2.2.2.1,
        ({ elements := (if level + 1 > cfg.L then g else match o.remove cfg g (level + 1) k c with | .ok (_, _, g', _) => g' | .error _ => g) } : inlineCollisionGroup α),
        r.2.2.2.2)) := by
  simp only [inlineCollisionGroup_Remove, mei_il_u64_succ, hE.levels, u64_dgt hl hL, hE.dig k _ hl, hE.gRemove g c _ hl hQ, MElemF.remove]
  by_cases h : level + 1 > cfg.L
  · simp [h, mei_rERemove, hE.eHashLevel, bind, Except.bind, throw, throwThe, MonadExceptOf.throw]
  · simp only [h, decide_false, if_false, Bool.false_eq_true]
    rcases hr : o.remove cfg g (level + 1) k c with err | ⟨rk, rv, g', c'⟩
    · simp [mei_rGRemove, mei_rERemove, bind, Except.bind]
    · simp only [mei_rGRemove, hE.gCount, Option.isNone_none, Bool.not_true, Bool.false_eq_true, if_false]
      have h1 : (u32 (o.count g') = (1 : UInt32)) = (o.count g' = 1) := u32_inj (hcnt rk rv g' c' hr) (by decide)
      simp only [h1]
      by_cases hc : o.count g' = 1
      · obtain ⟨el, he, hs⟩ := (hE.gSole g').1 hc
        cases el <;>
          simp [hc, he, hs, mei_cEl, mei_rERemove, mei_cOptEl, bind, Except.bind, pure, Except.pure]
      · have hs := (hE.gSole g').2 hc
        simp [hc, hs, mei_cEl, mei_rERemove, mei_cOptEl, bind, Except.bind, pure, Except.pure]

theorem inlineCollisionGroup_Remove_eq_model (hE : EnvB o cfg k v env) (g : α) (c : Ctx) (level : Nat) (hk : UInt64)
    (hl : level + 1 < 2^64) (hL : cfg.L < 2^64)
    (hcnt : ∀ rk rv g' c', o.remove cfg g (level + 1) k c = .ok (rk, rv, g', c') → o.count g' < 2^32) :
    inlineCollisionGroup_Remove env { elements := g } c k (u64 level) hk (.key k) =
      (let r := mei_rERemove c (MElemF.remove o cfg (.inl g) level k c)
       (r.1, r.2.1, r.2.2.1, r.2.2.2.1,
        ({ elements := (if level + 1 > cfg.L then g else match o.remove cfg g (level + 1) k c with | .ok (_, _, g', _) => g' | .error _ => g) } : inlineCollisionGroup α),
        r.2.2.2.2)) :=
  inlineCollisionGroup_Remove_eq_model_on o cfg k v env hE.toOn g c level hk hl hL hcnt trivial

/-- `inlineCollisionGroup_Set_eq_model` over the relativised environment `EnvBOn` -/
theorem inlineCollisionGroup_Set_eq_model_on {Qg Qs Qr : α → Nat → Ctx → Prop} {Qn : Nat → SElem → Prop}
    (hE : EnvBOn o cfg k v env Qg Qs Qr Qn) (g : α) (c : Ctx) (level : Nat) (hk : UInt64) (b : Unit)
    (hl : level + 1 < 2^64) (hL : cfg.L < 2^64) (hT : maxInlineMapElem cfg.T < 2^32)
    (hsz : ∀ ks old g' c', o.set cfg g (level + 1) k v c = .ok (ks, old, g', c') → o.size g' + 2 < 2^32)
    (hQ : Qs g (level + 1) c) :
    inlineCollisionGroup_Set env { elements := g } c cfg.addr b k (u64 level) hk (.key k) (.val v) =
      some (let r := mei_rESet c (MElemF.inlSet o cfg g level k v c)
            (r.1, r.2.1, r.2.2.1, r.2.2.2.1,
             ({ elements := (if level + 1 > cfg.L then g else match o.set cfg g (level + 1) k v c with | .ok (_, _, g', _) => g' | .error _ => g) } : inlineCollisionGroup α),
             r.2.2.2.2)) := by
  simp only [inlineCollisionGroup_Set, mei_il_u64_succ, hE.levels, u64_dgt hl hL, hE.dig k _ hl, hE.gSet g c _ b hl hQ, MElemF.inlSet]
  by_cases h : level + 1 > cfg.L
  · simp [h, mei_rESet, hE.eHashLevel, bind, Except.bind, throw, throwThe, MonadExceptOf.throw]
  · simp only [h, decide_false, if_false, Bool.false_eq_true]
    rcases hr : o.set cfg g (level + 1) k v c with err | ⟨ks, old, g', c'⟩
    · simp [mei_rGSet, mei_rESet, bind, Except.bind]
    · simp only [mei_rGSet, Option.isNone_none, Bool.not_true, Bool.false_eq_true, if_false]
      have h1 : (u64 (level + 1) = (1 : UInt64)) = (level + 1 = 1) := msl_u64_inj hl (by decide)
      have h2 : (env.maxInlineMapElementSize < inlineCollisionGroup_Size env ({ elements := g' } : inlineCollisionGroup α))
          = (maxInlineMapElem cfg.T < Gen.inlineCollisionGroupPrefixSize + o.size g') := by
        simp only [inlineCollisionGroup_Size, hE.gSize, hE.maxElem]
        show (_ < u32 Gen.inlineCollisionGroupPrefixSize + u32 (o.size g')) = _
        rw [msl_u32_add']
        exact u32_lt hT (by have := hsz ks old g' c' hr; simp only [Gen.inlineCollisionGroupPrefixSize]; omega)
      simp only [h1]
      by_cases hlv : level = 0
      · by_cases hs : Gen.inlineCollisionGroupPrefixSize + o.size g' > maxInlineMapElem cfg.T
        · have hid : (UInt32.ofNat Gen.externalCollisionGroupPrefixSize + env.SlabIDStorable_ByteSize)
              = u32 (Gen.externalCollisionGroupPrefixSize + slabIDStorableSize) := by
            rw [hE.sidSize]; exact msl_u32_add' _ _
          simp [hlv, h2, hs, hE.gen, storeSlab, MapSlab_SlabID, MapDataSlab_SlabID, hE.store, hid, mei_rESet, mei_cEl,
            bind, Except.bind, pure, Except.pure]
        · simp [hlv, h2, hs, mei_rESet, mei_cEl, bind, Except.bind, pure, Except.pure]
      · simp [hlv, mei_rESet, mei_cEl, bind, Except.bind, pure, Except.pure]

theorem inlineCollisionGroup_Set_eq_model (hE : EnvB o cfg k v env) (g : α) (c : Ctx) (level : Nat) (hk : UInt64) (b : Unit)
    (hl : level + 1 < 2^64) (hL : cfg.L < 2^64) (hT : maxInlineMapElem cfg.T < 2^32)
    (hsz : ∀ ks old g' c', o.set cfg g (level + 1) k v c = .ok (ks, old, g', c') → o.size g' + 2 < 2^32) :
    inlineCollisionGroup_Set env { elements := g } c cfg.addr b k (u64 level) hk (.key k) (.val v) =
      some (let r := mei_rESet c (MElemF.inlSet o cfg g level k v c)
            (r.1, r.2.1, r.2.2.1, r.2.2.2.1,
             ({ elements := (if level + 1 > cfg.L then g else match o.set cfg g (level + 1) k v c with | .ok (_, _, g', _) => g' | .error _ => g) } : inlineCollisionGroup α),
             r.2.2.2.2)) :=
  inlineCollisionGroup_Set_eq_model_on o cfg k v env hE.toOn g c level hk b hl hL hT hsz trivial

/-- `inlineCollisionGroup.Set` never hands back a single element -/
theorem mei_il_inlSet_not_single {β : Type} (g : α) (c : Ctx) (level : Nat) (a : SElem → β) (d : β) :
    (match MElemF.inlSet o cfg g level k v c with | .ok (.single x', _, _, _) => a x' | _ => d) = d := by
  simp only [MElemF.inlSet]
  by_cases h : level + 1 > cfg.L
  · simp [h, bind, Except.bind, throw, throwThe, MonadExceptOf.throw]
  · rcases hr : o.set cfg g (level + 1) k v c with err | ⟨ks, old, g', c'⟩
    · simp [h, bind, Except.bind]
    · by_cases h0 : level = 0
      · subst h0
        by_cases hc : maxInlineMapElem cfg.T < Gen.inlineCollisionGroupPrefixSize + o.size g'
        · simp [h, hc, bind, Except.bind, pure, Except.pure]
        · simp [h, hc, bind, Except.bind, pure, Except.pure]
      · simp [h, h0, bind, Except.bind, pure, Except.pure]

/-- `singleElement_Set_eq_model` over the relativised environment `EnvBOn` -/
theorem singleElement_Set_eq_model_on {Qg Qs Qr : α → Nat → Ctx → Prop} {Qn : Nat → SElem → Prop}
    (hE : EnvBOn o cfg k v env Qg Qs Qr Qn) (x : SElem) (c : Ctx) (level : Nat) (hk : UInt64) (b : Unit)
    (hl : level + 1 < 2^64) (hL : cfg.L < 2^64) (hT : maxInlineMapElem cfg.T < 2^32)
    (hsz : ∀ g ks old g' c', o.newWith cfg (level + 1) x = .ok g → o.set cfg g (level + 1) k v c = .ok (ks, old, g', c') →
      o.size g' + 2 < 2^32)
    (hks : x.key.size < 2^32) (hxs : x.size < 2^32)
    (hnw : x.key.same k = false → ∃ g, o.newWith cfg (level + 1) x = .ok g)
    (hQn : Qn (level + 1) x) (hQ : ∀ g, o.newWith cfg (level + 1) x = .ok g → Qs g (level + 1) c) :
    singleElement_Set env (mei_cE x) c cfg.addr b k (u64 level) hk (.key k) (.val v) =
      some (let r := mei_rESet c (MElemF.set o cfg (.single x) level k v c)
            (r.1, r.2.1, r.2.2.1, r.2.2.2.1,
             (match MElemF.set o cfg (.single x) level k v c with | .ok (.single x', _, _, _) => mei_cE x' | _ => mei_cE x),
             r.2.2.2.2)) := by
  rcases hsame : x.key.same k with _ | _
  · obtain ⟨g, hg⟩ := hnw hsame
    have hN := hE.newWith (level + 1) x g hl hxs hQn hg
    have hset : MElemF.set o cfg (.single x) level k v c = MElemF.inlSet o cfg g level k v c := by
      simp [MElemF.set, hsame, hg, bind, Except.bind]
    rw [hset, mei_il_inlSet_not_single]
    have h1 : (u64 (level + 1) = u64 cfg.L) = (level + 1 = cfg.L) := msl_u64_inj hl hL
    simp only [singleElement_Set, mei_cE, hE.cmp, hsame, mei_il_u64_succ, hE.levels, h1, hE.stored, hE.builder,
      hE.dig x.key _ hl, Option.isNone_none, Bool.not_true, Bool.false_eq_true, if_false]
    by_cases hlv : level + 1 = cfg.L
    · rw [if_pos hlv] at hN
      simp only [mei_cE] at hN
      simp only [hlv, decide_true, if_true]
      rw [← hlv, hN, inlineCollisionGroup_Set_eq_model_on o cfg k v env hE g c level hk b hl hL hT
        (fun ks old g' c' h => hsz g ks old g' c' hg h) (hQ g hg)]
    · rw [if_neg hlv] at hN
      simp only [mei_cE] at hN
      simp only [hlv, decide_false, Bool.false_eq_true, if_false]
      rw [hN, inlineCollisionGroup_Set_eq_model_on o cfg k v env hE g c level hk b hl hL hT
        (fun ks old g' c' h => hsz g ks old g' c' hg h) (hQ g hg)]
  · have hm : maxInlineMapValue cfg.T x.key.size < 2^32 := by
      have := msl_maxInlineMapValue_le cfg.T x.key.size
      simp only [maxInlineMapValue] at *; omega
    have hsize : ∀ n : Nat, UInt32.ofNat Gen.singleElementPrefixSize + u32 x.key.size + u32 n
        = u32 (Gen.singleElementPrefixSize + x.key.size + n) := by
      intro n
      show u32 Gen.singleElementPrefixSize + u32 x.key.size + u32 n = _
      rw [msl_u32_add', msl_u32_add']
    simp only [singleElement_Set, mei_cE, hE.cmp, hsame, hE.keySize, hE.maxInline _ hks, hE.storable, u32_toNat hm,
      hE.valSize, hsize, MElemF.set, Option.isNone_none, Bool.not_true, Bool.false_eq_true, if_false, if_true]
    simp [mei_rESet, mei_cEl, mei_cE]

theorem singleElement_Set_eq_model (hE : EnvB o cfg k v env) (x : SElem) (c : Ctx) (level : Nat) (hk : UInt64) (b : Unit)
    (hl : level + 1 < 2^64) (hL : cfg.L < 2^64) (hT : maxInlineMapElem cfg.T < 2^32)
    (hsz : ∀ g ks old g' c', o.newWith cfg (level + 1) x = .ok g → o.set cfg g (level + 1) k v c = .ok (ks, old, g', c') →
      o.size g' + 2 < 2^32)
    (hks : x.key.size < 2^32) (hxs : x.size < 2^32)
    (hnw : x.key.same k = false → ∃ g, o.newWith cfg (level + 1) x = .ok g) :
    singleElement_Set env (mei_cE x) c cfg.addr b k (u64 level) hk (.key k) (.val v) =
      some (let r := mei_rESet c (MElemF.set o cfg (.single x) level k v c)
            (r.1, r.2.1, r.2.2.1, r.2.2.2.1,
             (match MElemF.set o cfg (.single x) level k v c with | .ok (.single x', _, _, _) => mei_cE x' | _ => mei_cE x),
             r.2.2.2.2)) :=
  singleElement_Set_eq_model_on o cfg k v env hE.toOn x c level hk b hl hL hT hsz hks hxs hnw trivial (fun _ _ => trivial)

end

/-! ### non-vacuity: an environment satisfying `EnvB`, and concrete runs -/

/-- a `singleElement` record back as the model's element (inverse of `mei_cE` on sizes < 2^32) -/
def mei_il_inv (s : singleElement SV) : SElem :=
  match s.key, s.value with
  | some (.key k'), some (.val v') => { key := k', val := v', size := s.size.toNat }
  | _, _ => default

/-- the parameters of the generated code instantiated BY the model (the witness that `EnvB` is satisfiable) -/
def mei_il_env {α : Type} [Inhabited α] (o : ElemsOps α) (cfg : MCfg) (k : MKey) (v : Elem) :
    Env α SV SW Unit MKey Unit Ctx GE where
  DigesterBuilder_Digest := fun _ w => match w with | .key k' => (k', none) | .val _ => (default, none)
  Digester_Digest := fun d l => (u64 (d.dig l.toNat), none)
  Digester_Levels := fun _ => u64 cfg.L
  MapSlab_Get := fun _ c _ _ _ _ => (none, none, some .goPanic, c)
  MapSlab_Set := fun s c _ _ _ _ _ _ => (none, none, some .goPanic, s, c)
  MapSlab_getElementAndNextKey := fun _ c _ _ _ _ => (none, none, none, some .goPanic, c)
  NewHashLevelErrorf := some .hashLevel
  NewKeyNotFoundError := some .keyNotFound
  NewSlabDataErrorf := some .goPanic
  NewSlabNotFoundErrorf := some .slabNotFound
  SlabIDStorable_ByteSize := u32 slabIDStorableSize
  SlabStorage_GenerateSlabID := fun c a => ((c.alloc a).1, none, (c.alloc a).2)
  SlabStorage_Remove := fun c id => (none, c.emit (.remove id))
  SlabStorage_Retrieve := fun c _ => (.nil, false, none, c)
  SlabStorage_Store := fun c id _ => (none, c.emit (.store id))
  Storable_ByteSize := fun s => match s with | .key k' => u32 k'.size | .val v' => u32 v'.size
  Storable_StoredValue := fun s c => match s with | .key k' => (.key k', none, c) | .val v' => (.val v', none, c)
  ValueComparator := fun c w s => match w, s with
    | .key a, some (.key b') => (b'.same a, none, c)
    | _, _ => (false, none, c)
  Value_Storable := fun w c a lim => match w with
    | .val v' => (some (.val (toStorableLim lim.toNat a v' c).1), none, (toStorableLim lim.toNat a v' c).2)
    | .key _ => (none, some .goPanic, c)
  elements_Count := fun g => u32 (o.count g)
  elements_Element := fun g _ => match o.soleSingle g with
    | some x => (.single (mei_cE x), none)
    | none => (.inlineGroup { elements := g }, none)
  elements_Get := fun g c _ lvl _ _ => mei_rGet c (o.get cfg g lvl.toNat k)
  elements_Remove := fun g c _ lvl _ _ => mei_rGRemove g c (o.remove cfg g lvl.toNat k c)
  elements_Set := fun g c _ _ _ lvl _ _ _ => mei_rGSet g c (o.set cfg g lvl.toNat k v c)
  elements_Size := fun g => u32 (o.size g)
  elements_firstKey := fun g => u64 (o.firstKey g)
  elements_getElementAndNextKey := fun _ c _ _ _ _ => (none, none, none, some .goPanic, c)
  maxInlineMapElementSize := u32 (maxInlineMapElem cfg.T)
  maxInlineMapValueSize := fun n => u32 (maxInlineMapValue cfg.T n.toNat)
  newHkeyElementsWithElement := fun lvl _ el => match el with
    | .single s => (match o.newWith cfg lvl.toNat (mei_il_inv s) with | .ok g => g | .error _ => default)
    | _ => default
  newSingleElementsWithElement := fun lvl s =>
    match o.newWith cfg lvl.toNat (mei_il_inv s) with | .ok g => g | .error _ => default
  wrapErrorfAsExternalErrorIfNeeded := id

theorem mei_il_inv_cE (x : SElem) (hx : x.size < 2^32) : mei_il_inv (mei_cE x) = x := by
  show ({ key := x.key, val := x.val, size := (u32 x.size).toNat } : SElem) = x
  rw [u32_toNat hx]

/-- `EnvB` is satisfiable for every `o` whose `soleSingle` is `none` unless `count = 1` -/
theorem mei_il_env_ok {α : Type} [Inhabited α] (o : ElemsOps α) (cfg : MCfg) (k : MKey) (v : Elem)
    (hsole : ∀ g, o.count g ≠ 1 → o.soleSingle g = none) : EnvB o cfg k v (mei_il_env o cfg k v) where
  levels := fun _ => rfl
  dig := fun d lvl hl => by
    show (u64 (d.dig (u64 lvl).toNat), none) = _
    rw [u64_toNat hl]
  builder := fun _ _ => rfl
  stored := fun _ _ => rfl
  cmp := fun _ _ => rfl
  keySize := fun _ => rfl
  valSize := fun _ => rfl
  maxInline := fun n hn => by
    show u32 (maxInlineMapValue cfg.T (u32 n).toNat) = _
    rw [u32_toNat hn]
  storable := fun _ _ => rfl
  maxElem := rfl
  sidSize := rfl
  gSize := fun _ => rfl
  gCount := fun _ => rfl
  gFirst := fun _ => rfl
  gGet := fun g c lvl hl => by
    show mei_rGet c (o.get cfg g (u64 lvl).toNat k) = _
    rw [u64_toNat hl]
  gSet := fun g c lvl b hl => by
    show mei_rGSet g c (o.set cfg g (u64 lvl).toNat k v c) = _
    rw [u64_toNat hl]
  gRemove := fun g c lvl hl => by
    show mei_rGRemove g c (o.remove cfg g (u64 lvl).toNat k c) = _
    rw [u64_toNat hl]
  gSole := fun g => by
    refine ⟨fun _ => ?_, hsole g⟩
    rcases hs : o.soleSingle g with _ | x
    · exact ⟨.inl g, by simp [mei_il_env, hs, mei_cEl], rfl⟩
    · exact ⟨.single x, by simp [mei_il_env, hs, mei_cEl], rfl⟩
  newWith := fun lvl x g hl hx hg => by
    by_cases h : lvl = cfg.L
    · rw [if_pos h]
      show (match o.newWith cfg (u64 lvl).toNat (mei_il_inv (mei_cE x)) with | .ok g => g | .error _ => default) = g
      rw [u64_toNat hl, mei_il_inv_cE x hx, hg]
    · rw [if_neg h]
      show (match o.newWith cfg (u64 lvl).toNat (mei_il_inv (mei_cE x)) with | .ok g => g | .error _ => default) = g
      rw [u64_toNat hl, mei_il_inv_cE x hx, hg]
  gen := fun _ _ => rfl
  store := fun _ _ _ => rfl
  remove := fun _ _ => rfl
  wrapNone := rfl
  eHashLevel := rfl
  eKeyNotFound := rfl
  eSlabNotFound := rfl

def mei_il_cfgEx : MCfg := { T := 1024, L := 2, climit := 255, addr := 7 }
def mei_il_k1Ex : MKey := { size := 9, pay := 1, digs := [5, 6] }
def mei_il_k2Ex : MKey := { size := 9, pay := 2, digs := [5, 7] }
def mei_il_v1Ex : Elem := { size := 3, pay := .val 10 }
def mei_il_v2Ex : Elem := { size := 4, pay := .val 20 }
def mei_il_cEx : Ctx := { ctr := 0, eff := [] }
def mei_il_xEx : SElem := { key := mei_il_k1Ex, val := mei_il_v1Ex, size := 13 }

/-- nested level of the examples: a group is just its size (capped); `set` grows it by 14, `remove` shrinks it by 13;
    a group of size ≤ 32 counts one element, the single element `mei_il_xEx` -/
def mei_il_oEx : ElemsOps Nat where
  size := fun g => min g 100000
  count := fun g => if g ≤ 32 then 1 else 2
  firstKey := fun _ => 5
  get := fun _ g _ k => if g = 0 then .error .keyNotFound else .ok (k, mei_il_v1Ex)
  set := fun _ g _ k _ c => .ok (k, none, g + 14, c)
  remove := fun _ g _ k c => .ok (k, mei_il_v1Ex, g - 13, c)
  newWith := fun _ _ x => .ok (8 + 8 + x.size)
  soleSingle := fun g => if g ≤ 32 then some mei_il_xEx else none
  popIter := fun _ c => ([], c)
  toList := fun _ => []

theorem mei_il_oEx_sole : ∀ g, mei_il_oEx.count g ≠ 1 → mei_il_oEx.soleSingle g = none := by
  intro g; simp only [mei_il_oEx]; split <;> simp
theorem mei_il_oEx_cnt : ∀ g, mei_il_oEx.count g < 2^32 := by
  intro g; simp only [mei_il_oEx]; split <;> decide
theorem mei_il_oEx_sz : ∀ g, mei_il_oEx.size g + 2 < 2^32 := by
  intro g; simp only [mei_il_oEx]; omega

/-- `singleElement.Get`: the resident key, another key -/
example : singleElement_Get (mei_il_env mei_il_oEx mei_il_cfgEx mei_il_k1Ex mei_il_v2Ex) (mei_cE mei_il_xEx) mei_il_cEx
      mei_il_k1Ex 0 5 (.key mei_il_k1Ex) = (some (.key mei_il_k1Ex), some (.val mei_il_v1Ex), none, mei_il_cEx) := by
  rw [singleElement_Get_eq_model mei_il_oEx mei_il_cfgEx mei_il_k1Ex mei_il_v2Ex _ (mei_il_env_ok _ _ _ _ mei_il_oEx_sole) _ _ _ _ _ 0]
  rfl
example : singleElement_Get (mei_il_env mei_il_oEx mei_il_cfgEx mei_il_k2Ex mei_il_v2Ex) (mei_cE mei_il_xEx) mei_il_cEx
      mei_il_k2Ex 0 5 (.key mei_il_k2Ex) = (none, none, some .keyNotFound, mei_il_cEx) := by
  rw [singleElement_Get_eq_model mei_il_oEx mei_il_cfgEx mei_il_k2Ex mei_il_v2Ex _ (mei_il_env_ok _ _ _ _ mei_il_oEx_sole) _ _ _ _ _ 0]
  rfl

/-- `singleElement.Remove`: the element is gone (nil) -/
example : singleElement_Remove (mei_il_env mei_il_oEx mei_il_cfgEx mei_il_k1Ex mei_il_v2Ex) (mei_cE mei_il_xEx) mei_il_cEx
      mei_il_k1Ex 0 5 (.key mei_il_k1Ex) = (some (.key mei_il_k1Ex), some (.val mei_il_v1Ex), .nil, none, mei_il_cEx) := by
  rw [singleElement_Remove_eq_model mei_il_oEx mei_il_cfgEx mei_il_k1Ex mei_il_v2Ex _ (mei_il_env_ok _ _ _ _ mei_il_oEx_sole) _ _ _ _ _ 0]
  rfl

/-- `inlineCollisionGroup.Get`: one level deeper; beyond the digester's levels -/
example : inlineCollisionGroup_Get (mei_il_env mei_il_oEx mei_il_cfgEx mei_il_k2Ex mei_il_v2Ex) { elements := 40 } mei_il_cEx
      mei_il_k2Ex (u64 0) 5 (.key mei_il_k2Ex) = (some (.key mei_il_k2Ex), some (.val mei_il_v1Ex), none, mei_il_cEx) := by
  rw [inlineCollisionGroup_Get_eq_model mei_il_oEx mei_il_cfgEx mei_il_k2Ex mei_il_v2Ex _ (mei_il_env_ok _ _ _ _ mei_il_oEx_sole) _ _ 0 _
    (by decide) (by decide)]
  rfl
example : inlineCollisionGroup_Get (mei_il_env mei_il_oEx mei_il_cfgEx mei_il_k2Ex mei_il_v2Ex) { elements := 40 } mei_il_cEx
      mei_il_k2Ex (u64 2) 0 (.key mei_il_k2Ex) = (none, none, some .hashLevel, mei_il_cEx) := by
  rw [inlineCollisionGroup_Get_eq_model mei_il_oEx mei_il_cfgEx mei_il_k2Ex mei_il_v2Ex _ (mei_il_env_ok _ _ _ _ mei_il_oEx_sole) _ _ 2 _
    (by decide) (by decide)]
  rfl

/-- `inlineCollisionGroup.Remove`: the group stays a group (60 - 13 = 47); it collapses to its last single element (40 - 13 = 27) -/
example : inlineCollisionGroup_Remove (mei_il_env mei_il_oEx mei_il_cfgEx mei_il_k2Ex mei_il_v2Ex) { elements := 60 } mei_il_cEx
      mei_il_k2Ex (u64 0) 5 (.key mei_il_k2Ex) =
    (some (.key mei_il_k2Ex), some (.val mei_il_v1Ex), .inlineGroup { elements := 47 }, none, { elements := 47 }, mei_il_cEx) := by
  rw [inlineCollisionGroup_Remove_eq_model mei_il_oEx mei_il_cfgEx mei_il_k2Ex mei_il_v2Ex _ (mei_il_env_ok _ _ _ _ mei_il_oEx_sole) _ _ 0 _
    (by decide) (by decide) (fun _ _ g' _ _ => mei_il_oEx_cnt g')]
  rfl
example : inlineCollisionGroup_Remove (mei_il_env mei_il_oEx mei_il_cfgEx mei_il_k2Ex mei_il_v2Ex) { elements := 40 } mei_il_cEx
      mei_il_k2Ex (u64 0) 5 (.key mei_il_k2Ex) =
    (some (.key mei_il_k2Ex), some (.val mei_il_v1Ex), .single (mei_cE mei_il_xEx), none, { elements := 27 }, mei_il_cEx) := by
  rw [inlineCollisionGroup_Remove_eq_model mei_il_oEx mei_il_cfgEx mei_il_k2Ex mei_il_v2Ex _ (mei_il_env_ok _ _ _ _ mei_il_oEx_sole) _ _ 0 _
    (by decide) (by decide) (fun _ _ g' _ _ => mei_il_oEx_cnt g')]
  rfl

/-- `inlineCollisionGroup.Set`: the group stays inline (2 + 54 ≤ 491); an oversized first-level group (2 + 514 > 491) is
    exported to a new slab: one allocation, one store, the element becomes an external group of size 2 + 19 -/
example : inlineCollisionGroup_Set (mei_il_env mei_il_oEx mei_il_cfgEx mei_il_k2Ex mei_il_v2Ex) { elements := 40 } mei_il_cEx
      7 () mei_il_k2Ex (u64 0) 5 (.key mei_il_k2Ex) (.val mei_il_v2Ex) =
    some (.inlineGroup { elements := 54 }, some (.key mei_il_k2Ex), none, none, { elements := 54 }, mei_il_cEx) := by
  rw [show (7 : Nat) = mei_il_cfgEx.addr from rfl,
    inlineCollisionGroup_Set_eq_model mei_il_oEx mei_il_cfgEx mei_il_k2Ex mei_il_v2Ex _ (mei_il_env_ok _ _ _ _ mei_il_oEx_sole) _ _ 0 _ _
    (by decide) (by decide) (by decide) (fun _ _ g' _ _ => mei_il_oEx_sz g')]
  rfl
example : inlineCollisionGroup_Set (mei_il_env mei_il_oEx mei_il_cfgEx mei_il_k2Ex mei_il_v2Ex) { elements := 500 } mei_il_cEx
      7 () mei_il_k2Ex (u64 0) 5 (.key mei_il_k2Ex) (.val mei_il_v2Ex) =
    some (.externalGroup { slabID := ⟨7, 1⟩, size := 21 }, some (.key mei_il_k2Ex), none, none, { elements := 514 },
      { ctr := 1, eff := [.alloc 7 ⟨7, 1⟩, .store ⟨7, 1⟩] }) := by
  rw [show (7 : Nat) = mei_il_cfgEx.addr from rfl,
    inlineCollisionGroup_Set_eq_model mei_il_oEx mei_il_cfgEx mei_il_k2Ex mei_il_v2Ex _ (mei_il_env_ok _ _ _ _ mei_il_oEx_sole) _ _ 0 _ _
    (by decide) (by decide) (by decide) (fun _ _ g' _ _ => mei_il_oEx_sz g')]
  rfl

/-- `singleElement.Set`: the resident key gets the new value (size 1 + 9 + 4); another key with the same digest turns the
    element into an inline group (the receiver itself is unchanged) -/
example : singleElement_Set (mei_il_env mei_il_oEx mei_il_cfgEx mei_il_k1Ex mei_il_v2Ex) (mei_cE mei_il_xEx) mei_il_cEx
      7 () mei_il_k1Ex (u64 0) 5 (.key mei_il_k1Ex) (.val mei_il_v2Ex) =
    some (.single (mei_cE { mei_il_xEx with val := mei_il_v2Ex, size := 14 }), some (.key mei_il_k1Ex), some (.val mei_il_v1Ex), none,
      mei_cE { mei_il_xEx with val := mei_il_v2Ex, size := 14 }, mei_il_cEx) := by
  rw [show (7 : Nat) = mei_il_cfgEx.addr from rfl,
    singleElement_Set_eq_model mei_il_oEx mei_il_cfgEx mei_il_k1Ex mei_il_v2Ex _ (mei_il_env_ok _ _ _ _ mei_il_oEx_sole) _ _ 0 _ _
    (by decide) (by decide) (by decide) (fun _ _ _ g' _ _ _ => mei_il_oEx_sz g') (by decide) (by decide) (fun _ => ⟨_, rfl⟩)]
  rfl
example : singleElement_Set (mei_il_env mei_il_oEx mei_il_cfgEx mei_il_k2Ex mei_il_v2Ex) (mei_cE mei_il_xEx) mei_il_cEx
      7 () mei_il_k2Ex (u64 0) 5 (.key mei_il_k2Ex) (.val mei_il_v2Ex) =
    some (.inlineGroup { elements := 43 }, some (.key mei_il_k2Ex), none, none, mei_cE mei_il_xEx, mei_il_cEx) := by
  rw [show (7 : Nat) = mei_il_cfgEx.addr from rfl,
    singleElement_Set_eq_model mei_il_oEx mei_il_cfgEx mei_il_k2Ex mei_il_v2Ex _ (mei_il_env_ok _ _ _ _ mei_il_oEx_sole) _ _ 0 _ _
    (by decide) (by decide) (by decide) (fun _ _ _ g' _ _ _ => mei_il_oEx_sz g') (by decide) (by decide) (fun _ => ⟨_, rfl⟩)]
  rfl

/-! ### non-vacuity with the model's REAL last-level operations (`SingleElems.ops`, one digest level) -/

def mei_il_cfg1Ex : MCfg := { T := 1024, L := 1, climit := 255, addr := 7 }
/-- a last-level collision group holding `mei_il_xEx` and one more element -/
def mei_il_sEx : SingleElems :=
  { elems := [mei_il_xEx, { key := mei_il_k2Ex, val := mei_il_v2Ex, size := 14 }], size := 6 + 13 + 14, level := 1 }
def mei_il_k3Ex : MKey := { size := 9, pay := 3, digs := [5, 6] }

theorem mei_il_single_sole : ∀ g : SingleElems, SingleElems.ops.count g ≠ 1 → SingleElems.ops.soleSingle g = none := by
  intro g h
  simp only [SingleElems.ops] at h ⊢
  rcases hg : g.elems with _ | ⟨a, _ | ⟨b, t⟩⟩ <;> simp [hg] at h ⊢

/-- `inlineCollisionGroup.Set` on a real `singleElements` group: a third key is appended (size 33 + 14), the group stays inline -/
example : inlineCollisionGroup_Set (@mei_il_env _ ⟨mei_il_sEx⟩ SingleElems.ops mei_il_cfg1Ex mei_il_k3Ex mei_il_v2Ex)
      { elements := mei_il_sEx } mei_il_cEx 7 () mei_il_k3Ex (u64 0) 5 (.key mei_il_k3Ex) (.val mei_il_v2Ex) =
    some (.inlineGroup { elements := { mei_il_sEx with
              elems := mei_il_sEx.elems ++ [{ key := mei_il_k3Ex, val := mei_il_v2Ex, size := 14 }], size := 47 } },
      some (.key mei_il_k3Ex), none, none,
      { elements := { mei_il_sEx with
              elems := mei_il_sEx.elems ++ [{ key := mei_il_k3Ex, val := mei_il_v2Ex, size := 14 }], size := 47 } },
      mei_il_cEx) := by
  rw [show (7 : Nat) = mei_il_cfg1Ex.addr from rfl,
    inlineCollisionGroup_Set_eq_model SingleElems.ops mei_il_cfg1Ex mei_il_k3Ex mei_il_v2Ex _
      (@mei_il_env_ok _ ⟨mei_il_sEx⟩ _ _ _ _ mei_il_single_sole) _ _ 0 _ _ (by decide) (by decide) (by decide)
      (by intro ks old g' c' h; cases h; decide)]
  rfl

/-- `inlineCollisionGroup.Remove` on a real `singleElements` group of two: the group collapses to the remaining single element -/
example : inlineCollisionGroup_Remove (@mei_il_env _ ⟨mei_il_sEx⟩ SingleElems.ops mei_il_cfg1Ex mei_il_k2Ex mei_il_v2Ex)
      { elements := mei_il_sEx } mei_il_cEx mei_il_k2Ex (u64 0) 5 (.key mei_il_k2Ex) =
    (some (.key mei_il_k2Ex), some (.val mei_il_v2Ex), .single (mei_cE mei_il_xEx), none,
      { elements := { mei_il_sEx with elems := [mei_il_xEx], size := 19 } }, mei_il_cEx) := by
  rw [inlineCollisionGroup_Remove_eq_model SingleElems.ops mei_il_cfg1Ex mei_il_k2Ex mei_il_v2Ex _
      (@mei_il_env_ok _ ⟨mei_il_sEx⟩ _ _ _ _ mei_il_single_sole) _ _ 0 _ (by decide) (by decide)
      (by intro rk rv g' c' h; cases h; decide)]
  rfl

end Atree.TransEq
