import AtreeProofs.OrderLemmas
import AtreeProofs.AListLemmas
import AtreeProofs.StorageLemmas
import AtreeProofs.StorageLemmas2
import AtreeProofs.CommitLemmas
import AtreeProofs.StorageExample2
/-
  C04 — Ledger state is a deterministic function of the operation history: independence of the
  deterministic commit from Go's map iteration order (audit item F7).

  In the model the Go map `s.deltas` is an association LIST; the order of the list stands for the
  (random) order in which `for k := range s.deltas` of `sortedOwnedDeltaKeys` (storage.go) meets the
  keys.  This file proves that `FastCommit` does not see that order: two states whose write sets are
  permutations of each other issue the same base-storage calls in the same order, fail (or not) in
  the same way and leave the same ledger, the same read cache and the same remaining write set (up to
  order again).
-/
namespace Atree.C04
open Atree St

variable {σ β : Type}

/-! ### Sorting forgets the enumeration order -/

/-- The `sort.Slice` of `sortedOwnedDeltaKeys` (storage.go) forgets the order in which Go's map
    iteration delivered the keys: two enumerations of the same distinct identifiers sort to the
    same list. -/
theorem sortIDs_perm (l1 l2 : List SlabID) (hp : l1.Perm l2) (hnd : l1.Nodup) :
    St.sortIDs l1 = St.sortIDs l2 := by
  have h1 := pairwise_sortIDs l1 hnd
  have h2 := pairwise_sortIDs l2 (hp.nodup hnd)
  have hperm : (St.sortIDs l1).Perm (St.sortIDs l2) :=
    (St.sortIDs_perm l1).trans (hp.trans (St.sortIDs_perm l2).symm)
  refine List.Perm.eq_of_pairwise ?_ h1 h2 hperm
  intro a b _ _ hab hba
  have h := SlabID.lt_trans hab hba
  rw [SlabID.lt_irrefl] at h
  exact absurd h (by decide)

/-! ### Association lists that differ only in order -/

/-- Permuted association lists have permuted key lists. -/
theorem keys_perm {α : Type} {m1 m2 : AList SlabID α} (hp : List.Perm m1 m2) :
    (AList.keys m1).Perm (AList.keys m2) :=
  hp.map _

/-- A map lookup does not depend on the order of the entries (keys are distinct, as in a Go map). -/
theorem find?_perm {α : Type} {m1 m2 : AList SlabID α} (hp : List.Perm m1 m2)
    (hnd : (AList.keys m1).Nodup) (k : SlabID) : AList.find? m1 k = AList.find? m2 k := by
  have hnd2 : (AList.keys m2).Nodup := (keys_perm hp).nodup hnd
  cases h : AList.find? m1 k with
  | none =>
    symm
    rw [AList.find?_eq_none_iff] at h ⊢
    exact fun hm => h ((keys_perm hp).mem_iff.mpr hm)
  | some v =>
    symm
    rw [← AList.mem_iff_find? _ hnd] at h
    rw [← AList.mem_iff_find? _ hnd2]
    exact hp.mem_iff.mp h

/-- Go's `delete(m, k)` maps permuted association lists to permuted association lists. -/
theorem erase_perm {α : Type} {m1 m2 : AList SlabID α} (hp : List.Perm m1 m2) (k : SlabID) :
    List.Perm (AList.erase m1 k) (AList.erase m2 k) :=
  hp.filter _

/-- The key list handed to the commit loop by `sortedOwnedDeltaKeys` (storage.go) is the same for
    every order in which Go's map iteration enumerates the write set `s.deltas`. -/
theorem sortedOwnedDeltaKeys_order_independent (s1 s2 : St σ β)
    (hp : List.Perm s1.deltas s2.deltas) (hnd : (AList.keys s1.deltas).Nodup) :
    sortedOwnedDeltaKeys s1 = sortedOwnedDeltaKeys s2 := by
  unfold sortedOwnedDeltaKeys
  exact sortIDs_perm _ _ ((keys_perm hp).filter _) (hnd.sublist List.filter_sublist)

/-! ### States that differ only in the order of the write set -/

/-- Two storage states are the same Go state seen under two map iteration orders: the write sets
    are permutations of each other (with distinct keys), everything else is equal. -/
structure SameUpToOrder (s1 s2 : St σ β) : Prop where
  perm : List.Perm s1.deltas s2.deltas
  nodup : (AList.keys s1.deltas).Nodup
  cache : s1.cache = s2.cache
  base : s1.base = s2.base
  tempIx : s1.tempIx = s2.tempIx
  alloc : s1.alloc = s2.alloc

/-- Two commit-loop states that differ only in the order of the remaining write set. -/
structure SameRes (r1 r2 : CommitRes σ β) : Prop where
  st : SameUpToOrder r1.st r2.st
  err : r1.err = r2.err
  log : r1.log = r2.log
  n : r1.n = r2.n

/-- A pending-write lookup is the same under both map orders. -/
theorem SameUpToOrder.find? {s1 s2 : St σ β} (h : SameUpToOrder s1 s2) (id : SlabID) :
    AList.find? s1.deltas id = AList.find? s2.deltas id :=
  find?_perm h.perm h.nodup id

/-- What a reader sees under an identifier is the same under both map orders. -/
theorem SameUpToOrder.view (c : Codec σ β) {s1 s2 : St σ β} (h : SameUpToOrder s1 s2)
    (id : SlabID) : s1.view c id = s2.view c id := by
  unfold St.view
  rw [h.find? id, h.cache, h.base]

/-- Deleting a committed key from the write set and changing cache and ledger in the same way
    keeps two states equal up to the order of the write set. -/
theorem SameUpToOrder.step {s1 s2 : St σ β} (h : SameUpToOrder s1 s2) (id : SlabID)
    (fb : AList SlabID β → AList SlabID β)
    (fc : AList SlabID (Option σ) → AList SlabID (Option σ)) :
    SameUpToOrder
      { s1 with base := fb s1.base, cache := fc s1.cache, deltas := AList.erase s1.deltas id }
      { s2 with base := fb s2.base, cache := fc s2.cache, deltas := AList.erase s2.deltas id } where
  perm := erase_perm h.perm id
  nodup := AList.nodup_keys_erase _ id h.nodup
  cache := by rw [h.cache]
  base := by rw [h.base]
  tempIx := h.tempIx
  alloc := h.alloc

/-- One iteration of the commit loop of `FastCommit` / `commit` (storage.go) acts in the same way
    on two states that differ only in map order: same call, same error, again equal up to order. -/
theorem commitKey_sameRes (c : Codec σ β) (fault : Nat → Bool) {r1 r2 : CommitRes σ β}
    (h : SameRes r1 r2) (id : SlabID) :
    SameRes (commitKey c fault r1 id) (commitKey c fault r2 id) := by
  obtain ⟨st1, err1, log1, n1⟩ := r1
  obtain ⟨st2, err2, log2, n2⟩ := r2
  obtain ⟨hs, he, hl, hn⟩ := h
  simp only at hs he hl hn
  subst he hl hn
  have hf := hs.find? id
  unfold commitKey
  cases err1 with
  | some e => exact ⟨hs, rfl, rfl, rfl⟩
  | none =>
    simp only [hf]
    cases hd : AList.find? st2.deltas id with
    | none =>
      simp only
      cases fault n1 with
      | true =>
        simp only [if_true]
        exact ⟨hs, rfl, rfl, rfl⟩
      | false =>
        simp only [Bool.false_eq_true, if_false]
        exact ⟨hs.step id (fun m => AList.erase m id) (fun m => AList.insert m id none), rfl, rfl, rfl⟩
    | some o =>
      cases o with
      | none =>
        simp only
        cases fault n1 with
        | true =>
        simp only [if_true]
        exact ⟨hs, rfl, rfl, rfl⟩
        | false =>
        simp only [Bool.false_eq_true, if_false]
        exact ⟨hs.step id (fun m => AList.erase m id) (fun m => AList.insert m id none), rfl, rfl, rfl⟩
      | some v =>
        simp only
        cases c.enc v with
        | none => exact ⟨hs, rfl, rfl, rfl⟩
        | some b =>
          simp only
          cases fault n1 with
          | true =>
        simp only [if_true]
        exact ⟨hs, rfl, rfl, rfl⟩
          | false =>
        simp only [Bool.false_eq_true, if_false]
        exact ⟨hs.step id (fun m => AList.insert m id b) (fun m => AList.insert m id (some v)),
              rfl, rfl, rfl⟩

/-- The whole commit loop over a common key list keeps two runs equal up to map order. -/
theorem foldl_commitKey_sameRes (c : Codec σ β) (fault : Nat → Bool) (keys : List SlabID) :
    ∀ {r1 r2 : CommitRes σ β}, SameRes r1 r2 →
      SameRes (keys.foldl (commitKey c fault) r1) (keys.foldl (commitKey c fault) r2) := by
  induction keys with
  | nil => intro r1 r2 h; exact h
  | cons k ks ih => intro r1 r2 h; exact ih (commitKey_sameRes c fault h k)

/-- The encoding pre-pass of `FastCommit` (storage.go) finds an encoding failure under one map
    order iff it finds one under the other. -/
theorem anyEncodeFails_sameUpToOrder (c : Codec σ β) {s1 s2 : St σ β} (h : SameUpToOrder s1 s2)
    (keys : List SlabID) : anyEncodeFails c s1 keys = anyEncodeFails c s2 keys := by
  unfold anyEncodeFails
  congr 1
  funext id
  rw [h.find? id]

/-- `FastCommit` (storage.go) run on two states that differ only in map order gives results that
    differ only in map order. -/
theorem fastCommit_sameRes (c : Codec σ β) (fault : Nat → Bool) {s1 s2 : St σ β}
    (h : SameUpToOrder s1 s2) : SameRes (s1.fastCommit c fault) (s2.fastCommit c fault) := by
  unfold fastCommit
  simp only [sortedOwnedDeltaKeys_order_independent s1 s2 h.perm h.nodup,
    anyEncodeFails_sameUpToOrder c h]
  split
  · exact ⟨h, rfl, rfl, rfl⟩
  · exact foldl_commitKey_sameRes c fault _ ⟨h, rfl, rfl, rfl⟩

/-! ### The property-level statements -/

/-- `FastCommit` (storage.go) does not depend on Go's map iteration order: if two states differ only
    in the order in which the write set `s.deltas` is enumerated, then for every codec and every
    pattern of failing base-storage calls the two commits issue exactly the same `Store`/`Remove`
    calls in the same order, end with the same error and call count, leave the ledger and the read
    cache EQUAL (entry by entry, in the same order), and leave the same remaining write set up to
    order; consequently every lookup and every slab view agrees afterwards. -/
theorem fastcommit_independent_of_map_order (s1 s2 : St σ β)
    (hperm : List.Perm s1.deltas s2.deltas) (hnd : (AList.keys s1.deltas).Nodup)
    (hcache : s1.cache = s2.cache) (hbase : s1.base = s2.base)
    (htemp : s1.tempIx = s2.tempIx) (halloc : s1.alloc = s2.alloc)
    (c : Codec σ β) (fault : Nat → Bool) :
    let r1 := s1.fastCommit c fault
    let r2 := s2.fastCommit c fault
    r1.log = r2.log ∧ r1.err = r2.err ∧ r1.n = r2.n ∧
    r1.st.base = r2.st.base ∧ r1.st.cache = r2.st.cache ∧
    r1.st.tempIx = r2.st.tempIx ∧ r1.st.alloc = r2.st.alloc ∧
    List.Perm r1.st.deltas r2.st.deltas ∧ (AList.keys r1.st.deltas).Nodup ∧
    (∀ id, AList.find? r1.st.deltas id = AList.find? r2.st.deltas id) ∧
    (∀ id, r1.st.view c id = r2.st.view c id) := by
  intro r1 r2
  have h : SameRes r1 r2 :=
    fastCommit_sameRes c fault ⟨hperm, hnd, hcache, hbase, htemp, halloc⟩
  exact ⟨h.log, h.err, h.n, h.st.base, h.st.cache, h.st.tempIx, h.st.alloc, h.st.perm,
    h.st.nodup, h.st.find?, h.st.view c⟩

/-- After `FastCommit` (storage.go) the ledger answers every register lookup in the same way,
    whatever order Go's map iteration enumerated the write set in — also when the storage is
    reopened over that ledger (`NewPersistentSlabStorage`), where only the ledger survives. -/
theorem fastcommit_ledger_independent_of_map_order (s1 s2 : St σ β)
    (hperm : List.Perm s1.deltas s2.deltas) (hnd : (AList.keys s1.deltas).Nodup)
    (hcache : s1.cache = s2.cache) (hbase : s1.base = s2.base)
    (htemp : s1.tempIx = s2.tempIx) (halloc : s1.alloc = s2.alloc)
    (c : Codec σ β) (fault : Nat → Bool) :
    let r1 := s1.fastCommit c fault
    let r2 := s2.fastCommit c fault
    (∀ id, AList.find? r1.st.base id = AList.find? r2.st.base id) ∧
    (∀ id, r1.st.committed c id = r2.st.committed c id) ∧
    (St.fresh r1.st.base r1.st.alloc : St σ β) = St.fresh r2.st.base r2.st.alloc := by
  intro r1 r2
  obtain ⟨-, -, -, hb, -, -, ha, -⟩ :=
    fastcommit_independent_of_map_order s1 s2 hperm hnd hcache hbase htemp halloc c fault
  refine ⟨fun id => ?_, fun id => ?_, ?_⟩
  · show AList.find? (s1.fastCommit c fault).st.base id = AList.find? (s2.fastCommit c fault).st.base id
    rw [hb]
  · show (s1.fastCommit c fault).st.committed c id = (s2.fastCommit c fault).st.committed c id
    unfold St.committed
    rw [hb]
  · show St.fresh (s1.fastCommit c fault).st.base (s1.fastCommit c fault).st.alloc =
      St.fresh (s2.fastCommit c fault).st.base (s2.fastCommit c fault).st.alloc
    rw [hb, ha]

/-! ### Non-vacuity

`Example.poolSt` (AtreeProofs/StorageExample2.lean) is a reachable state whose write set is
`0.1 ↦ 8, 1.1 ↦ 5, 1.2 (deletion), 1.5 ↦ 2, 2.1 ↦ 4`, enumerated in this order.  `poolStRev` is the
same state with the write set enumerated backwards, `poolStRot` with the enumeration rotated by two
places: two other outcomes of Go's map iteration. -/
section NonVacuity
open Atree.Example

/-- `poolSt` with the write set enumerated in the opposite order. -/
def poolStRev : St Nat Nat := { poolSt with deltas := poolSt.deltas.reverse }

/-- `poolSt` with the enumeration of the write set rotated by two places. -/
def poolStRot : St Nat Nat := { poolSt with deltas := poolSt.deltas.rotateLeft 2 }

/-- The hypotheses hold for the pair `poolSt`, `poolStRev`. -/
theorem poolStRev_sameUpToOrder : SameUpToOrder poolSt poolStRev :=
  ⟨(List.reverse_perm _).symm, poolInv.deltasNodup, rfl, rfl, rfl, rfl⟩

/-- The hypotheses hold for the pair `poolSt`, `poolStRot`. -/
theorem poolStRot_sameUpToOrder : SameUpToOrder poolSt poolStRot :=
  ⟨by decide, poolInv.deltasNodup, rfl, rfl, rfl, rfl⟩

/-- The two write sets really are in different orders, and so are the key enumerations that
    `sortedOwnedDeltaKeys` sees BEFORE it sorts. -/
example : poolSt.deltas ≠ poolStRev.deltas ∧ poolSt.deltas ≠ poolStRot.deltas := by decide
example : AList.keys poolSt.deltas = [⟨0, 1⟩, ⟨1, 1⟩, ⟨1, 2⟩, ⟨1, 5⟩, ⟨2, 1⟩] ∧
    AList.keys poolStRev.deltas = [⟨2, 1⟩, ⟨1, 5⟩, ⟨1, 2⟩, ⟨1, 1⟩, ⟨0, 1⟩] ∧
    AList.keys poolStRot.deltas = [⟨1, 2⟩, ⟨1, 5⟩, ⟨2, 1⟩, ⟨0, 1⟩, ⟨1, 1⟩] := by decide
example :
    (AList.keys poolSt.deltas).filter (fun k => !k.isTemp) ≠
      (AList.keys poolStRev.deltas).filter (fun k => !k.isTemp) := by decide

/-- `sortIDs_perm` / `sortedOwnedDeltaKeys_order_independent` compared with evaluation. -/
example : sortedOwnedDeltaKeys poolSt = [⟨1, 1⟩, ⟨1, 2⟩, ⟨1, 5⟩, ⟨2, 1⟩] ∧
    sortedOwnedDeltaKeys poolStRev = [⟨1, 1⟩, ⟨1, 2⟩, ⟨1, 5⟩, ⟨2, 1⟩] ∧
    sortedOwnedDeltaKeys poolStRot = [⟨1, 1⟩, ⟨1, 2⟩, ⟨1, 5⟩, ⟨2, 1⟩] := by decide
example := sortIDs_perm [⟨2, 1⟩, ⟨1, 5⟩, ⟨1, 1⟩] [⟨1, 5⟩, ⟨1, 1⟩, ⟨2, 1⟩] (by decide) (by decide)
example := sortedOwnedDeltaKeys_order_independent poolSt poolStRev
  poolStRev_sameUpToOrder.perm poolStRev_sameUpToOrder.nodup

/-- Fault-free commits: the same four calls in the same order, the same ledger and cache (as
    lists), nothing left in the owned part of the write set. -/
example :
    let r1 := poolSt.fastCommit natCodec (fun _ => false)
    let r2 := poolStRev.fastCommit natCodec (fun _ => false)
    r1.log.map callRepr = [(⟨1, 1⟩, some 5), (⟨1, 2⟩, none), (⟨1, 5⟩, some 2), (⟨2, 1⟩, some 4)] ∧
    r2.log.map callRepr = r1.log.map callRepr ∧
    r1.st.base = [(⟨2, 1⟩, 4), (⟨1, 5⟩, 2), (⟨1, 1⟩, 5)] ∧ r2.st.base = r1.st.base ∧
    r2.st.cache = r1.st.cache ∧ r1.err = none ∧ r2.err = none ∧
    r1.st.deltas = [(⟨0, 1⟩, some 8)] ∧ r2.st.deltas = [(⟨0, 1⟩, some 8)] := by decide

/-- With the third base-storage call failing: the same three calls, the same error, the same
    partially written ledger; the remaining write sets are equal only up to order. -/
example :
    let r1 := poolSt.fastCommit natCodec (faultPlan [2])
    let r2 := poolStRev.fastCommit natCodec (faultPlan [2])
    r1.log.map callRepr = [(⟨1, 1⟩, some 5), (⟨1, 2⟩, none), (⟨1, 5⟩, some 2)] ∧
    r2.log.map callRepr = r1.log.map callRepr ∧
    r1.err = some .external ∧ r2.err = some .external ∧ r1.n = 3 ∧ r2.n = 3 ∧
    r1.st.base = [(⟨1, 1⟩, 5)] ∧ r2.st.base = r1.st.base ∧ r2.st.cache = r1.st.cache ∧
    r1.st.deltas = [(⟨0, 1⟩, some 8), (⟨1, 5⟩, some 2), (⟨2, 1⟩, some 4)] ∧
    r2.st.deltas = [(⟨2, 1⟩, some 4), (⟨1, 5⟩, some 2), (⟨0, 1⟩, some 8)] := by decide

/-- The rotated enumeration, second call failing. -/
example :
    let r1 := poolSt.fastCommit natCodec (faultPlan [1])
    let r2 := poolStRot.fastCommit natCodec (faultPlan [1])
    r2.log.map callRepr = r1.log.map callRepr ∧ r2.st.base = r1.st.base ∧ r2.err = r1.err ∧
    r1.st.deltas ≠ r2.st.deltas := by decide

/-- The theorems instantiated on the two pairs. -/
example := fastcommit_independent_of_map_order poolSt poolStRev
  poolStRev_sameUpToOrder.perm poolStRev_sameUpToOrder.nodup rfl rfl rfl rfl natCodec (faultPlan [2])
example := fastcommit_independent_of_map_order poolSt poolStRot
  poolStRot_sameUpToOrder.perm poolStRot_sameUpToOrder.nodup rfl rfl rfl rfl natCodec (faultPlan [1])
example := fastcommit_ledger_independent_of_map_order poolSt poolStRev
  poolStRev_sameUpToOrder.perm poolStRev_sameUpToOrder.nodup rfl rfl rfl rfl natCodec (fun _ => false)

/-- The hypothesis "keys are distinct" (true of every Go map) is needed: an association list with a
    repeated key and its reversal are permutations of each other, yet the commit writes a different
    value to the ledger (the first entry of a repeated key shadows the second in `find?`). -/
def dupSt : St Nat Nat :=
  { deltas := [(⟨1, 1⟩, some 5), (⟨1, 1⟩, some 6)], cache := [], base := [], tempIx := 0, alloc := [] }
def dupStRev : St Nat Nat := { dupSt with deltas := dupSt.deltas.reverse }

example : List.Perm dupSt.deltas dupStRev.deltas ∧ ¬ (AList.keys dupSt.deltas).Nodup :=
  ⟨(List.reverse_perm _).symm, by decide⟩
example :
    (dupSt.fastCommit natCodec (fun _ => false)).log.map callRepr =
      [(⟨1, 1⟩, some 5), (⟨1, 1⟩, none)] ∧
    (dupStRev.fastCommit natCodec (fun _ => false)).log.map callRepr =
      [(⟨1, 1⟩, some 6), (⟨1, 1⟩, none)] ∧
    (dupSt.fastCommit natCodec (faultPlan [1])).st.base = [(⟨1, 1⟩, 5)] ∧
    (dupStRev.fastCommit natCodec (faultPlan [1])).st.base = [(⟨1, 1⟩, 6)] := by decide

end NonVacuity

end Atree.C04
