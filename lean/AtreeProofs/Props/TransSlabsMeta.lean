import AtreeProofs.Trans.Slabs
/-
  Equivalence of the GENERATED index-slab functions that move child headers (`Gen/TransSlabs.lean`:
  `ArrayMetaDataSlab_Split / Merge / LendToRight / BorrowFromRight / updateChildrenHeadersAfterMerge`, with their
  loops and the slice_utils generics they call) with the hand-written model (`MetaSlab.split / merge / lendToRight /
  borrowFromRight`, and the `childHdrs / countSum` update of `MetaSlab.mergeChildren`).  Core Lean only.

  The model's `MetaSlab α` embeds its children, the Go record does not: the theorems compare `trMeta` of the model's
  results.  `u32 : Nat → UInt32` is a ring homomorphism for `+` and `*`, so NO no-overflow hypothesis is needed for the
  additions (count sums, sizes): only the three `uint32` subtractions of `Split` and `Merge` need a `≤`.

  Where the hypotheses exclude inputs on which Go and the model differ (none reachable from a valid slab / the callers):
  * `Merge` on a left slab with an EMPTY `childrenCountSum`: Go panics (index -1), the model uses `getLastD 0`
    (`Sl_ArrayMetaDataSlab_Merge_differs_at`);
  * `LendToRight` with `(nl + nr) / 2 > nl`, `BorrowFromRight` with `(nl + nr) / 2 < nl`: `moveCount` is negative and Go
    panics on the slice bounds, the model's `take` / `drop` / truncated subtraction return slabs (examples at the end);
  * `Split` with `header.count` < the counts that stay left, or `header.size` < their header bytes, `Merge` with a right
    `header.size` < the prefix size: `uint32` wraps, `Nat` truncates (example at the end);
  * a count-sum slice shorter than the header slice: `s[:k]` beyond `len` is a panic here (`goSlice`; in Go legal up to
    `cap`), the model's `take` returns the shorter list.
-/
namespace Atree.TransEq
open Atree Atree.Gen

/-! ## the slice_utils generics (private copies; any environment, any element type) -/

section sliceUtils
variable {σ υ ξ ε S Φ E : Type} [Inhabited E] (env : TransSl.Env σ υ ξ ε S Φ)

private theorem slm_split (s : List E) (n : Nat) :
    TransSl.split env s (Int.ofNat n) = if n ≤ s.length then some (s.take n, s.drop n) else none := by
  simp only [TransSl.split, goSlice_ofNat, goDelete_ofNat]
  by_cases h : n ≤ s.length <;> simp [h, List.take_of_length_le]

private theorem slm_merge (l r : List E) :
    TransSl.merge env l r = (l ++ r, List.replicate r.length default) := rfl

private theorem slm_lendToRight (l r : List E) (n : Nat) (h : n ≤ l.length) :
    TransSl.lendToRight env l r (Int.ofNat n) = some (l.take (l.length - n), l.drop (l.length - n) ++ r) := by
  have e : Int.ofNat l.length - Int.ofNat n = Int.ofNat (l.length - n) := by
    simp only [Int.ofNat_eq_natCast]; omega
  have e0 : (0 : Int) = Int.ofNat 0 := rfl
  simp only [TransSl.lendToRight, e]
  rw [e0]
  simp only [goSlice_ofNat, goDelete_ofNat, goInsert_ofNat]
  have h1 : l.length - n ≤ l.length := by omega
  simp [h1, List.take_of_length_le]

private theorem slm_borrowFromRight (l r : List E) (n : Nat) (h : n ≤ r.length) :
    TransSl.borrowFromRight env l r (Int.ofNat n) = some (l ++ r.take n, r.drop n) := by
  have e0 : (0 : Int) = Int.ofNat 0 := rfl
  simp only [TransSl.borrowFromRight]
  rw [e0]
  simp only [goSlice_ofNat, goInsert_ofNat]
  simp [h, List.take_of_length_le]

end sliceUtils

/-! ## `updateChildrenHeadersAfterMerge` -/

private theorem slm_eraseIdx_map {α β : Type} (f : α → β) (l : List α) (i : Nat) :
    (l.map f).eraseIdx i = (l.eraseIdx i).map f := by
  induction l generalizing i with
  | nil => simp
  | cons a t ih => cases i with
    | zero => simp
    | succ i => simp [ih i]

/-- `ArrayMetaDataSlab.updateChildrenHeadersAfterMerge`: the `childHdrs` / `countSum` update of the model's
    `MetaSlab.mergeChildren`.  Both indices must be inside both slices (anything else is a Go panic). -/
theorem Sl_updateChildrenHeadersAfterMerge_eq_model {α : Type} (T : Nat) (look) (m : MetaSlab α) (h : Hdr)
    (li ri : Nat) (hli : li < m.childHdrs.length) (hri : ri < m.childHdrs.length)
    (hli' : li < m.countSum.length) (hri' : ri < m.countSum.length) :
    TransSl.ArrayMetaDataSlab_updateChildrenHeadersAfterMerge (envA T look) (trMeta m) (trHdr h)
        (Int.ofNat li) (Int.ofNat ri) =
      some { trMeta m with
        childrenHeaders := ((m.childHdrs.set li h).eraseIdx ri).map trHdr,
        childrenCountSum := ((m.countSum.set li (m.countSum.getD ri 0)).eraseIdx ri).map u32 } := by
  have e1 : Int.ofNat ri + (1 : Int) = Int.ofNat (ri + 1) := rfl
  simp only [TransSl.ArrayMetaDataSlab_updateChildrenHeadersAfterMerge, trMeta_childrenHeaders,
    trMeta_childrenCountSum, e1, goSet_ofNat, goDelete_ofNat, goIdx_ofNat, List.length_map, List.length_set,
    hli, hli', if_true]
  have hri1 : ri + 1 ≤ m.childHdrs.length := hri
  have hri2 : ri + 1 ≤ m.countSum.length := hri'
  simp only [hri1, hri2, take_drop_succ_eq_eraseIdx, ← List.map_set, slm_eraseIdx_map,
    List.getElem?_map, List.getElem?_eq_getElem hri', Option.map_some, List.getD_eq_getElem?_getD, Option.getD_some]
  simp

/-! ## `uint32` arithmetic: `u32` is a homomorphism, sums and prefix sums -/

private theorem u32a (a b : Nat) : u32 a + u32 b = u32 (a + b) := (UInt32.ofNat_add a b).symm
private theorem u32m (a b : Nat) : u32 a * u32 b = u32 (a * b) := (UInt32.ofNat_mul a b).symm
private theorem u32s_le {a b : Nat} (h : b ≤ a) : u32 a - u32 b = u32 (a - b) := (UInt32.ofNat_sub h).symm

private theorem sumCounts_nil : MetaSlab.sumCounts [] = 0 := rfl
private theorem sumCounts_cons (h : Hdr) (t : List Hdr) :
    MetaSlab.sumCounts (h :: t) = h.count + MetaSlab.sumCounts t := by simp [MetaSlab.sumCounts]
private theorem sumCounts_append (a b : List Hdr) :
    MetaSlab.sumCounts (a ++ b) = MetaSlab.sumCounts a + MetaSlab.sumCounts b := by simp [MetaSlab.sumCounts]

private theorem prefixSums_length (l : List Hdr) (acc : Nat) : (MetaSlab.prefixSums l acc).length = l.length := by
  induction l generalizing acc with
  | nil => rfl
  | cons h t ih => simp [MetaSlab.prefixSums, ih]

/-! ## the loops -/

section loops
variable {σ υ ξ ε S Φ : Type} (env : TransSl.Env σ υ ξ ε S Φ)

private theorem idx_mid (pre rest : List Hdr) (h : Hdr) :
    TransSl.goIdx ((pre ++ h :: rest).map trHdr) (Int.ofNat pre.length) = some (trHdr h) := by
  rw [goIdx_ofNat]; simp

private theorem set_mid (P Q : List UInt32) (q v : UInt32) (n : Nat) (hP : P.length = n) :
    TransSl.goSet (P ++ q :: Q) (Int.ofNat n) v = some ((P ++ [v]) ++ Q) := by
  subst hP
  rw [goSet_ofNat]; simp

private theorem ofNat_succ_len (pre : List Hdr) (h : Hdr) :
    Int.ofNat pre.length + (1 : Int) = Int.ofNat (pre ++ [h]).length := by simp

/-- the loops that REBUILD a count-sum slice in place (`for i := range s.childrenCountSum { countSum += ..; s[i] = countSum }`):
    from index `|pre|` with the running sum `acc`, the cells not yet visited (`Q`) are overwritten with the model's
    prefix sums -/
private theorem split_loop2_spec (rest : List Hdr) : ∀ (pre : List Hdr) (P Q : List UInt32) (acc : Nat)
    (R : TransSl.ArrayMetaDataSlab ξ),
    R.childrenHeaders = (pre ++ rest).map trHdr → R.childrenCountSum = P ++ Q → P.length = pre.length →
    Q.length = rest.length →
    TransSl.ArrayMetaDataSlab_Split.loop2 env rest.length (Int.ofNat pre.length) R (u32 acc) =
      .done ({ R with childrenCountSum := P ++ (MetaSlab.prefixSums rest acc).map u32 },
             u32 (acc + MetaSlab.sumCounts rest)) := by
  induction rest with
  | nil =>
    intro pre P Q acc R h1 h2 hP hQ
    have : Q = [] := List.eq_nil_of_length_eq_zero hQ
    subst this
    simp only [List.length_nil, TransSl.ArrayMetaDataSlab_Split.loop2, MetaSlab.prefixSums, List.map_nil,
      sumCounts_nil, Nat.add_zero, ← h2]
  | cons h t ih =>
    intro pre P Q acc R h1 h2 hP hQ
    obtain ⟨q, Q', rfl⟩ : ∃ q Q', Q = q :: Q' := by
      cases Q with
      | nil => simp at hQ
      | cons q Q' => exact ⟨q, Q', rfl⟩
    simp only [List.length_cons, TransSl.ArrayMetaDataSlab_Split.loop2, h1, idx_mid, h2,
      set_mid P Q' q _ pre.length hP, trHdr_count, u32a, ofNat_succ_len pre h]
    rw [ih (pre ++ [h]) (P ++ [u32 (acc + h.count)]) Q' (acc + h.count) _ (by simp) rfl (by simp [hP])
      (by simpa using hQ)]
    simp [MetaSlab.prefixSums, sumCounts_cons, Nat.add_assoc]

private theorem lend_loop1_spec (rest : List Hdr) : ∀ (pre : List Hdr) (P Q : List UInt32) (acc : Nat)
    (R : TransSl.ArrayMetaDataSlab ξ),
    R.childrenHeaders = (pre ++ rest).map trHdr → R.childrenCountSum = P ++ Q → P.length = pre.length →
    Q.length = rest.length →
    TransSl.ArrayMetaDataSlab_LendToRight.loop1 (σ := σ) env rest.length (Int.ofNat pre.length)
        (some (.metaSlab R)) R (u32 acc) =
      .done (some (.metaSlab { R with childrenCountSum := P ++ (MetaSlab.prefixSums rest acc).map u32 }),
             { R with childrenCountSum := P ++ (MetaSlab.prefixSums rest acc).map u32 },
             u32 (acc + MetaSlab.sumCounts rest)) := by
  induction rest with
  | nil =>
    intro pre P Q acc R h1 h2 hP hQ
    have : Q = [] := List.eq_nil_of_length_eq_zero hQ
    subst this
    simp only [List.length_nil, TransSl.ArrayMetaDataSlab_LendToRight.loop1, MetaSlab.prefixSums, List.map_nil,
      sumCounts_nil, Nat.add_zero, ← h2]
  | cons h t ih =>
    intro pre P Q acc R h1 h2 hP hQ
    obtain ⟨q, Q', rfl⟩ : ∃ q Q', Q = q :: Q' := by
      cases Q with
      | nil => simp at hQ
      | cons q Q' => exact ⟨q, Q', rfl⟩
    simp only [List.length_cons, TransSl.ArrayMetaDataSlab_LendToRight.loop1, h1, idx_mid, h2,
      set_mid P Q' q _ pre.length hP, trHdr_count, u32a, ofNat_succ_len pre h]
    rw [ih (pre ++ [h]) (P ++ [u32 (acc + h.count)]) Q' (acc + h.count) _ (by simp) rfl (by simp [hP])
      (by simpa using hQ)]
    simp [MetaSlab.prefixSums, sumCounts_cons, Nat.add_assoc]

private theorem borrow_loop2_spec (rest : List Hdr) : ∀ (pre : List Hdr) (P Q : List UInt32) (acc : Nat)
    (R : TransSl.ArrayMetaDataSlab ξ),
    R.childrenHeaders = (pre ++ rest).map trHdr → R.childrenCountSum = P ++ Q → P.length = pre.length →
    Q.length = rest.length →
    TransSl.ArrayMetaDataSlab_BorrowFromRight.loop2 (σ := σ) env rest.length (Int.ofNat pre.length)
        (some (.metaSlab R)) R (u32 acc) =
      .done (some (.metaSlab { R with childrenCountSum := P ++ (MetaSlab.prefixSums rest acc).map u32 }),
             { R with childrenCountSum := P ++ (MetaSlab.prefixSums rest acc).map u32 },
             u32 (acc + MetaSlab.sumCounts rest)) := by
  induction rest with
  | nil =>
    intro pre P Q acc R h1 h2 hP hQ
    have : Q = [] := List.eq_nil_of_length_eq_zero hQ
    subst this
    simp only [List.length_nil, TransSl.ArrayMetaDataSlab_BorrowFromRight.loop2, MetaSlab.prefixSums, List.map_nil,
      sumCounts_nil, Nat.add_zero, ← h2]
  | cons h t ih =>
    intro pre P Q acc R h1 h2 hP hQ
    obtain ⟨q, Q', rfl⟩ : ∃ q Q', Q = q :: Q' := by
      cases Q with
      | nil => simp at hQ
      | cons q Q' => exact ⟨q, Q', rfl⟩
    simp only [List.length_cons, TransSl.ArrayMetaDataSlab_BorrowFromRight.loop2, h1, idx_mid, h2,
      set_mid P Q' q _ pre.length hP, trHdr_count, u32a, ofNat_succ_len pre h]
    rw [ih (pre ++ [h]) (P ++ [u32 (acc + h.count)]) Q' (acc + h.count) _ (by simp) rfl (by simp [hP])
      (by simpa using hQ)]
    simp [MetaSlab.prefixSums, sumCounts_cons, Nat.add_assoc]

/-- the loops that EXTEND a count-sum slice (`for i := k; i < len(a.childrenHeaders); i++ { sum += ..; append }`) -/
private theorem merge_loop1_spec (rest : List Hdr) : ∀ (pre : List Hdr) (acc : Nat) (A : TransSl.ArrayMetaDataSlab ξ),
    A.childrenHeaders = (pre ++ rest).map trHdr →
    TransSl.ArrayMetaDataSlab_Merge.loop1 (σ := σ) env rest.length (Int.ofNat pre.length) A (u32 acc) =
      .done ({ A with childrenCountSum := A.childrenCountSum ++ (MetaSlab.prefixSums rest acc).map u32 },
             u32 (acc + MetaSlab.sumCounts rest)) := by
  induction rest with
  | nil =>
    intro pre acc A h1
    simp [TransSl.ArrayMetaDataSlab_Merge.loop1, MetaSlab.prefixSums, sumCounts_nil]
  | cons h t ih =>
    intro pre acc A h1
    have hlt : Int.ofNat pre.length < Int.ofNat (List.map trHdr (pre ++ h :: t)).length := by
      simp only [Int.ofNat_eq_natCast, List.length_map, List.length_append, List.length_cons]; omega
    simp only [List.length_cons, TransSl.ArrayMetaDataSlab_Merge.loop1, h1, idx_mid, hlt, decide_true, if_true,
      trHdr_count, u32a, ofNat_succ_len pre h]
    rw [ih (pre ++ [h]) (acc + h.count) _ (by simp)]
    simp [MetaSlab.prefixSums, sumCounts_cons, Nat.add_assoc]

private theorem borrow_loop1_spec (rest : List Hdr) : ∀ (pre : List Hdr) (acc : Nat) (A : TransSl.ArrayMetaDataSlab ξ),
    A.childrenHeaders = (pre ++ rest).map trHdr →
    TransSl.ArrayMetaDataSlab_BorrowFromRight.loop1 (σ := σ) env rest.length (Int.ofNat pre.length) A (u32 acc) =
      .done ({ A with childrenCountSum := A.childrenCountSum ++ (MetaSlab.prefixSums rest acc).map u32 },
             u32 (acc + MetaSlab.sumCounts rest)) := by
  induction rest with
  | nil =>
    intro pre acc A h1
    simp [TransSl.ArrayMetaDataSlab_BorrowFromRight.loop1, MetaSlab.prefixSums, sumCounts_nil]
  | cons h t ih =>
    intro pre acc A h1
    have hlt : Int.ofNat pre.length < Int.ofNat (List.map trHdr (pre ++ h :: t)).length := by
      simp only [Int.ofNat_eq_natCast, List.length_map, List.length_append, List.length_cons]; omega
    simp only [List.length_cons, TransSl.ArrayMetaDataSlab_BorrowFromRight.loop1, h1, idx_mid, hlt, decide_true,
      if_true, trHdr_count, u32a, ofNat_succ_len pre h]
    rw [ih (pre ++ [h]) (acc + h.count) _ (by simp)]
    simp [MetaSlab.prefixSums, sumCounts_cons, Nat.add_assoc]

/-- the loops that SUM child counts -/
private theorem split_loop1_spec (A : TransSl.ArrayMetaDataSlab ξ) (mid : List Hdr) : ∀ (pre post : List Hdr) (acc : Nat),
    A.childrenHeaders = (pre ++ (mid ++ post)).map trHdr →
    TransSl.ArrayMetaDataSlab_Split.loop1 (σ := σ) env A mid.length (Int.ofNat pre.length) (u32 acc) =
      .done (u32 (acc + MetaSlab.sumCounts mid)) := by
  induction mid with
  | nil =>
    intro pre post acc h1
    simp [TransSl.ArrayMetaDataSlab_Split.loop1, sumCounts_nil]
  | cons h t ih =>
    intro pre post acc h1
    simp only [List.length_cons, TransSl.ArrayMetaDataSlab_Split.loop1, h1, List.cons_append, idx_mid,
      trHdr_count, u32a, ofNat_succ_len pre h]
    rw [ih (pre ++ [h]) post (acc + h.count) (by simp [h1])]
    simp [sumCounts_cons, Nat.add_assoc]

private theorem lend_loop2_spec (rest : List Hdr) : ∀ (pre : List Hdr) (R : TransSl.ArrayMetaDataSlab ξ),
    R.childrenHeaders = (pre ++ rest).map trHdr →
    TransSl.ArrayMetaDataSlab_LendToRight.loop2 (σ := σ) env rest.length (Int.ofNat pre.length)
        (some (.metaSlab R)) R =
      .done (some (.metaSlab { R with header := { R.header with
                count := R.header.count + u32 (MetaSlab.sumCounts rest) } }),
             { R with header := { R.header with count := R.header.count + u32 (MetaSlab.sumCounts rest) } }) := by
  induction rest with
  | nil =>
    intro pre R h1
    simp [TransSl.ArrayMetaDataSlab_LendToRight.loop2, sumCounts_nil]
  | cons h t ih =>
    intro pre R h1
    simp only [List.length_cons, TransSl.ArrayMetaDataSlab_LendToRight.loop2, h1, idx_mid,
      trHdr_count, ofNat_succ_len pre h]
    rw [ih (pre ++ [h]) _ (by simp)]
    simp [sumCounts_cons, UInt32.add_assoc]

private theorem lend_loop3_spec (rest : List Hdr) : ∀ (pre : List Hdr) (A : TransSl.ArrayMetaDataSlab ξ),
    A.childrenHeaders = (pre ++ rest).map trHdr →
    TransSl.ArrayMetaDataSlab_LendToRight.loop3 (σ := σ) env rest.length (Int.ofNat pre.length) A =
      .done { A with header := { A.header with count := A.header.count + u32 (MetaSlab.sumCounts rest) } } := by
  induction rest with
  | nil =>
    intro pre A h1
    simp [TransSl.ArrayMetaDataSlab_LendToRight.loop3, sumCounts_nil]
  | cons h t ih =>
    intro pre A h1
    simp only [List.length_cons, TransSl.ArrayMetaDataSlab_LendToRight.loop3, h1, idx_mid,
      trHdr_count, ofNat_succ_len pre h]
    rw [ih (pre ++ [h]) _ (by simp)]
    simp [sumCounts_cons, UInt32.add_assoc]

/-! the same loops started at index 0 / run to the end -/

private theorem split_loop2_zero (hs : List Hdr) (R : TransSl.ArrayMetaDataSlab ξ)
    (h1 : R.childrenHeaders = hs.map trHdr) (h2 : R.childrenCountSum.length = hs.length) :
    TransSl.ArrayMetaDataSlab_Split.loop2 (σ := σ) env hs.length (0 : Int) R (0 : UInt32) =
      .done ({ R with childrenCountSum := (MetaSlab.prefixSums hs 0).map u32 }, u32 (MetaSlab.sumCounts hs)) := by
  have := split_loop2_spec env hs [] [] R.childrenCountSum 0 R (by simpa using h1) (by simp) rfl h2
  simpa using this

private theorem lend_loop1_zero (hs : List Hdr) (R : TransSl.ArrayMetaDataSlab ξ)
    (h1 : R.childrenHeaders = hs.map trHdr) (h2 : R.childrenCountSum.length = hs.length) :
    TransSl.ArrayMetaDataSlab_LendToRight.loop1 (σ := σ) env hs.length (0 : Int) (some (.metaSlab R)) R (0 : UInt32) =
      .done (some (.metaSlab { R with childrenCountSum := (MetaSlab.prefixSums hs 0).map u32 }),
             { R with childrenCountSum := (MetaSlab.prefixSums hs 0).map u32 }, u32 (MetaSlab.sumCounts hs)) := by
  have := lend_loop1_spec env hs [] [] R.childrenCountSum 0 R (by simpa using h1) (by simp) rfl h2
  simpa using this

private theorem borrow_loop2_zero (hs : List Hdr) (R : TransSl.ArrayMetaDataSlab ξ)
    (h1 : R.childrenHeaders = hs.map trHdr) (h2 : R.childrenCountSum.length = hs.length) :
    TransSl.ArrayMetaDataSlab_BorrowFromRight.loop2 (σ := σ) env hs.length (0 : Int) (some (.metaSlab R)) R (0 : UInt32) =
      .done (some (.metaSlab { R with childrenCountSum := (MetaSlab.prefixSums hs 0).map u32 }),
             { R with childrenCountSum := (MetaSlab.prefixSums hs 0).map u32 }, u32 (MetaSlab.sumCounts hs)) := by
  have := borrow_loop2_spec env hs [] [] R.childrenCountSum 0 R (by simpa using h1) (by simp) rfl h2
  simpa using this

private theorem lend_loop2_zero (hs : List Hdr) (R : TransSl.ArrayMetaDataSlab ξ)
    (h1 : R.childrenHeaders = hs.map trHdr) :
    TransSl.ArrayMetaDataSlab_LendToRight.loop2 (σ := σ) env hs.length (0 : Int) (some (.metaSlab R)) R =
      .done (some (.metaSlab { R with header := { R.header with
                count := R.header.count + u32 (MetaSlab.sumCounts hs) } }),
             { R with header := { R.header with count := R.header.count + u32 (MetaSlab.sumCounts hs) } }) := by
  have := lend_loop2_spec env hs [] R (by simpa using h1)
  simpa using this

private theorem lend_loop3_zero (hs : List Hdr) (A : TransSl.ArrayMetaDataSlab ξ)
    (h1 : A.childrenHeaders = hs.map trHdr) :
    TransSl.ArrayMetaDataSlab_LendToRight.loop3 (σ := σ) env hs.length (0 : Int) A =
      .done { A with header := { A.header with count := A.header.count + u32 (MetaSlab.sumCounts hs) } } := by
  have := lend_loop3_spec env hs [] A (by simpa using h1)
  simpa using this

end loops

private theorem slm_toNat (k : Nat) : (Int.ofNat k).toNat = k := rfl
private theorem slm_mul (a b : Nat) : Int.ofNat a * Int.ofNat b = Int.ofNat (a * b) := rfl
private theorem slm_goSlice_zero {α : Type} (l : List α) (n : Nat) :
    TransSl.goSlice l (0 : Int) (Int.ofNat n) = if n ≤ l.length then some (l.take n) else none := by
  have e0 : (0 : Int) = Int.ofNat 0 := rfl
  rw [e0, goSlice_ofNat]; simp
private theorem u32_const (k : Nat) : UInt32.ofNat k = u32 k := rfl

/-! ## `Merge` -/

private theorem getLast_u32 (l : List Nat) (hne : l ≠ []) :
    TransSl.goIdx (l.map u32) (Int.ofNat l.length - (1 : Int)) = some (u32 (l.getLastD 0)) := by
  have hpos : 0 < l.length := List.length_pos_iff.mpr hne
  have e : Int.ofNat l.length - (1 : Int) = Int.ofNat (l.length - 1) := by
    simp only [Int.ofNat_eq_natCast]; omega
  rw [e, goIdx_ofNat]
  simp [List.getLastD_eq_getLast?, List.getLast?_eq_getElem?, List.getElem?_eq_getElem (show l.length - 1 < l.length by omega)]

/-- `ArrayMetaDataSlab.Merge`: the right slab's headers are appended, the count sums continued from the last one of
    the left slab, the sizes and counts added; Go's `merge` CLEARS the right slab's header slice.  Needs a non-empty
    left count-sum slice (Go reads its last cell; see `Sl_ArrayMetaDataSlab_Merge_differs_at`) and a right header size
    that covers the prefix (`uint32` subtraction). -/
theorem Sl_ArrayMetaDataSlab_Merge_eq_model {α : Type} (T : Nat) (look) (l r : MetaSlab α)
    (hne : l.countSum ≠ []) (hpre : arrayMetaDataSlabPrefixSize ≤ r.hdr.size) :
    TransSl.ArrayMetaDataSlab_Merge (envA T look) (trMeta l) (some (.metaSlab (trMeta r))) =
      some (none, trMeta (MetaSlab.merge l r),
            some (.metaSlab { trMeta r with childrenHeaders := List.replicate r.childHdrs.length default })) := by
  simp only [TransSl.ArrayMetaDataSlab_Merge, trMeta_childrenCountSum, getLast_u32 _ hne, slm_merge,
    trMeta_childrenHeaders, List.length_map, List.length_append]
  have efuel : (Int.ofNat (l.childHdrs.length + r.childHdrs.length) - Int.ofNat l.childHdrs.length).toNat =
      r.childHdrs.length := by simp only [Int.ofNat_eq_natCast]; omega
  rw [efuel, ← List.map_append, merge_loop1_spec (envA T look) r.childHdrs l.childHdrs _ _ rfl]
  have e12 : UInt32.ofNat arrayMetaDataSlabPrefixSize = u32 arrayMetaDataSlabPrefixSize := rfl
  simp only [trMeta_header, trHdr_size, trHdr_count, e12, u32s_le hpre, u32a]
  simp [trMeta, trHdr, MetaSlab.merge]

/-- FINDING (robustness only): on a left slab with an EMPTY `childrenCountSum` Go's `Merge` panics
    (`a.childrenCountSum[len(a.childrenCountSum)-1]`, index -1) whatever the right slab is, while the model
    (`getLastD 0`) returns a slab.  A valid index slab has at least one child. -/
theorem Sl_ArrayMetaDataSlab_Merge_differs_at {α : Type} (T : Nat) (look) (l r : MetaSlab α) (he : l.countSum = []) :
    TransSl.ArrayMetaDataSlab_Merge (envA T look) (trMeta l) (some (.metaSlab (trMeta r))) = none ∧
    (MetaSlab.merge l r).countSum = MetaSlab.prefixSums r.childHdrs 0 := by
  constructor
  · simp [TransSl.ArrayMetaDataSlab_Merge, he, TransSl.goIdx]
  · simp [MetaSlab.merge, he]

/-! ## `Split` -/

private theorem ceilHalf' (n : Nat) : TransSl.goCeilDivInt (Int.ofNat n) 2 = Int.ofNat ((n + 1) / 2) := by
  simp [TransSl.goCeilDivInt]

/-- `ArrayMetaDataSlab.Split`: fewer than two children: `SlabSplitError`, nothing changes.  Otherwise the first
    `⌈n/2⌉` child headers and count sums stay, the others go to a new slab with the identifier `GenerateSlabID` returns
    (one `alloc` effect) and REBUILT count sums; sizes and counts as in the model.  Needs (all trivial for `n < 2`):
    the count-sum slice covers the part that stays (`a.childrenCountSum[:leftChildrenCount]`), and the two `uint32`
    subtractions `header.size - leftSize`, `header.count - leftCount` do not wrap (the model truncates at 0).  All follow
    from `|countSum| = |childHdrs|`, `hdr.size = prefix + n * 14`, `hdr.count = sumCounts childHdrs`. -/
theorem Sl_ArrayMetaDataSlab_Split_eq_model {α : Type} (T : Nat) (look) (m : MetaSlab α) (c : Ctx)
    (hcs : (m.childHdrs.length + 1) / 2 ≤ m.countSum.length)
    (hcov : (m.childHdrs.length + 1) / 2 * arraySlabHeaderSize ≤ m.hdr.size)
    (hcnt : MetaSlab.sumCounts (m.childHdrs.take ((m.childHdrs.length + 1) / 2)) ≤ m.hdr.count) :
    TransSl.ArrayMetaDataSlab_Split (envA T look) (trMeta m) c =
      match m.split c with
      | .error e => some (none, none, some e, trMeta m, c)
      | .ok (l, r, c') => some (some (.metaSlab (trMeta l)), some (.metaSlab (trMeta r)), none, trMeta l, c') := by
  simp only [TransSl.ArrayMetaDataSlab_Split, MetaSlab.split, trMeta_childrenHeaders, List.length_map, int_dlt_two,
    ceilHalf']
  by_cases hl : m.childHdrs.length < 2
  · simp [hl]
  · simp only [hl, decide_false, if_false, Bool.false_eq_true]
    generalize hn : (m.childHdrs.length + 1) / 2 = n at *
    have hnle : n ≤ m.childHdrs.length := by omega
    have hl1 : TransSl.ArrayMetaDataSlab_Split.loop1 (envA T look) (trMeta m) (Int.ofNat n).toNat (0 : Int) (0 : UInt32) =
        .done (u32 (MetaSlab.sumCounts (m.childHdrs.take n))) := by
      have := split_loop1_spec (envA T look) (trMeta m) (m.childHdrs.take n) [] (m.childHdrs.drop n) 0 (by simp)
      simpa [List.length_take, Nat.min_eq_left hnle] using this
    rw [hl1]
    simp only [slm_split, List.length_map, hnle, if_true, envA_gen, Option.isSome_none, Bool.false_eq_true, if_false,
      ← List.map_take, ← List.map_drop]
    rw [slm_toNat, List.length_replicate, split_loop2_zero _ _ _ rfl (by simp)]
    simp only [trMeta_childrenCountSum, slm_goSlice_zero, List.length_map, hcs, if_true, slm_mul, u32_ofInt,
      trMeta_header, trHdr_size, trHdr_count, trHdr_slabID, u32_const, u32s_le hcov, u32s_le hcnt, u32a]
    simp [trMeta, trHdr, trExtra, List.map_take]

/-! ## `LendToRight` / `BorrowFromRight` -/

private theorem slm_add (a b : Nat) : Int.ofNat a + Int.ofNat b = Int.ofNat (a + b) := rfl
private theorem slm_tdiv2 (a : Nat) : Int.tdiv (Int.ofNat a) (2 : Int) = Int.ofNat (a / 2) := by simp [Int.tdiv]
private theorem slm_sub {a b : Nat} (h : b ≤ a) : Int.ofNat a - Int.ofNat b = Int.ofNat (a - b) := by
  simp only [Int.ofNat_eq_natCast]; omega

/-- `ArrayMetaDataSlab.LendToRight`: the left slab keeps the first `(nl + nr) / 2` headers and count sums, the others
    are put in front of the right slab's, whose count sums are rebuilt; counts are re-summed, sizes recomputed.
    Needs: the left slab has at least that many headers (else `moveCount` is negative: Go panics in `lendToRight`,
    see the example below) and count sums. -/
theorem Sl_ArrayMetaDataSlab_LendToRight_eq_model {α : Type} (T : Nat) (look) (l r : MetaSlab α)
    (hmove : (l.childHdrs.length + r.childHdrs.length) / 2 ≤ l.childHdrs.length)
    (hcs : (l.childHdrs.length + r.childHdrs.length) / 2 ≤ l.countSum.length) :
    TransSl.ArrayMetaDataSlab_LendToRight (envA T look) (trMeta l) (some (.metaSlab (trMeta r))) =
      some (none, trMeta (MetaSlab.lendToRight l r).1, some (.metaSlab (trMeta (MetaSlab.lendToRight l r).2))) := by
  simp only [TransSl.ArrayMetaDataSlab_LendToRight, trMeta_childrenHeaders, List.length_map, slm_add, slm_tdiv2,
    slm_sub hmove]
  generalize hn : (l.childHdrs.length + r.childHdrs.length) / 2 = n at *
  have hk : l.childHdrs.length - (l.childHdrs.length - n) = n := by omega
  rw [slm_lendToRight _ _ _ _ (by simp)]
  simp only [List.length_map, hk, ← List.map_take, ← List.map_drop, ← List.map_append]
  rw [slm_toNat, List.length_replicate, lend_loop1_zero _ _ _ rfl (by simp)]
  simp only [List.length_map]
  rw [lend_loop2_zero _ _ _ rfl]
  simp only [trMeta_childrenCountSum, slm_goSlice_zero, List.length_map, hcs, if_true]
  rw [lend_loop3_zero _ _ _ rfl]
  simp only [u32_ofInt, u32_const, u32m, u32a, trMeta_header, trHdr_slabID, trMeta_extraData,
    MetaSlab.lendToRight, hn, UInt32.zero_add]
  simp [trMeta, trHdr, List.map_take]

/-- `ArrayMetaDataSlab.BorrowFromRight`: the left slab gets the first `(nl + nr) / 2 - nl` headers of the right slab and
    continues its count sums FROM `header.count`; the right slab's count sums are rebuilt in place.
    Needs: `nl ≤ (nl + nr) / 2` (else `moveCount` is negative: Go panics, see the example below), and the right
    count-sum slice covers the headers that remain (`rightSlab.childrenCountSum[:len(rightSlab.childrenHeaders)]`). -/
theorem Sl_ArrayMetaDataSlab_BorrowFromRight_eq_model {α : Type} (T : Nat) (look) (l r : MetaSlab α)
    (hmove : l.childHdrs.length ≤ (l.childHdrs.length + r.childHdrs.length) / 2)
    (hcs : r.childHdrs.length - ((l.childHdrs.length + r.childHdrs.length) / 2 - l.childHdrs.length) ≤
      r.countSum.length) :
    TransSl.ArrayMetaDataSlab_BorrowFromRight (envA T look) (trMeta l) (some (.metaSlab (trMeta r))) =
      some (none, trMeta (MetaSlab.borrowFromRight l r).1,
            some (.metaSlab (trMeta (MetaSlab.borrowFromRight l r).2))) := by
  simp only [TransSl.ArrayMetaDataSlab_BorrowFromRight, trMeta_childrenHeaders, List.length_map, slm_add, slm_tdiv2,
    slm_sub hmove]
  generalize hn : (l.childHdrs.length + r.childHdrs.length) / 2 = n at *
  generalize hk : n - l.childHdrs.length = k at *
  have hkr : k ≤ r.childHdrs.length := by omega
  rw [slm_borrowFromRight _ _ _ _ (by simpa using hkr)]
  simp only [List.length_map, ← List.map_take, ← List.map_drop, ← List.map_append, List.length_append]
  have efuel : (Int.ofNat (l.childHdrs.length + (List.take k r.childHdrs).length) -
      Int.ofNat l.childHdrs.length).toNat = (List.take k r.childHdrs).length := by
    simp only [Int.ofNat_eq_natCast]; omega
  rw [efuel, trMeta_header, trHdr_count, borrow_loop1_spec (envA T look) _ l.childHdrs l.hdr.count _ rfl]
  have hle : (List.drop k r.childHdrs).length ≤ (List.map u32 r.countSum).length := by
    simpa using hcs
  have hlen : (List.take (List.drop k r.childHdrs).length (List.map u32 r.countSum)).length =
      (List.drop k r.childHdrs).length := by
    rw [List.length_take]; omega
  simp only [trMeta_childrenCountSum, slm_goSlice_zero, hle, if_true]
  rw [hlen, borrow_loop2_zero _ _ _ rfl hlen]
  simp only [u32_ofInt, u32_const, u32m, u32a, trMeta_header, trHdr_slabID, trMeta_extraData,
    MetaSlab.borrowFromRight, hn, hk]
  simp [trMeta, trHdr]

/-! ## the type assertion `slab.(*ArrayMetaDataSlab)` on anything else panics -/

theorem Sl_ArrayMetaDataSlab_Merge_wrongType (T : Nat) (look) (a : GMeta) (d : GData) :
    TransSl.ArrayMetaDataSlab_Merge (envA T look) a none = none ∧
    TransSl.ArrayMetaDataSlab_Merge (envA T look) a (some (.dataSlab d)) = none := by
  constructor <;> (simp only [TransSl.ArrayMetaDataSlab_Merge]; split <;> rfl)

theorem Sl_ArrayMetaDataSlab_LendToRight_wrongType (T : Nat) (look) (a : GMeta) (d : GData) :
    TransSl.ArrayMetaDataSlab_LendToRight (envA T look) a none = none ∧
    TransSl.ArrayMetaDataSlab_LendToRight (envA T look) a (some (.dataSlab d)) = none := ⟨rfl, rfl⟩

theorem Sl_ArrayMetaDataSlab_BorrowFromRight_wrongType (T : Nat) (look) (a : GMeta) (d : GData) :
    TransSl.ArrayMetaDataSlab_BorrowFromRight (envA T look) a none = none ∧
    TransSl.ArrayMetaDataSlab_BorrowFromRight (envA T look) a (some (.dataSlab d)) = none := ⟨rfl, rfl⟩

/-! ## non-vacuity: the generated functions evaluated on small index slabs -/

private def hd (i c : Nat) : Hdr := { id := ⟨1, i⟩, size := 100, count := c }
private def ms (i size count : Nat) (hs : List Hdr) (cs : List Nat) : MetaSlab Unit :=
  { hdr := { id := ⟨1, i⟩, size := size, count := count }, childHdrs := hs, countSum := cs,
    children := hs.map (fun _ => ()), root := false }

/-- `Split` of five children (10, 20, 30, 40, 50 elements): three stay (54 bytes, 60 elements, sums 10 30 60), two go
    to the new slab `(1, 8)` (82 - 42 = 40 bytes, 90 elements, sums 40 90); one `GenerateSlabID` -/
example :
    TransSl.ArrayMetaDataSlab_Split (envA 1024 (fun _ => none))
      (trMeta (ms 1 82 150 [hd 2 10, hd 3 20, hd 4 30, hd 5 40, hd 6 50] [10, 30, 60, 100, 150])) ⟨7, [], []⟩ =
    some (some (.metaSlab (trMeta (ms 1 54 60 [hd 2 10, hd 3 20, hd 4 30] [10, 30, 60]))),
          some (.metaSlab (trMeta (ms 8 40 90 [hd 5 40, hd 6 50] [40, 90]))), none,
          trMeta (ms 1 54 60 [hd 2 10, hd 3 20, hd 4 30] [10, 30, 60]), ⟨8, [.alloc 1 ⟨1, 8⟩], []⟩) := by rfl

/-- a slab with one child cannot be split: `SlabSplitError`, nothing changes -/
example :
    TransSl.ArrayMetaDataSlab_Split (envA 1024 (fun _ => none)) (trMeta (ms 1 26 10 [hd 2 10] [10])) ⟨7, [], []⟩ =
    some (none, none, some .slabSplit, trMeta (ms 1 26 10 [hd 2 10] [10]), ⟨7, [], []⟩) := by rfl

/-- `Merge` of 2 + 2 children: the sums continue from 30; the right slab's header slice is cleared -/
example :
    TransSl.ArrayMetaDataSlab_Merge (envA 1024 (fun _ => none)) (trMeta (ms 1 40 30 [hd 2 10, hd 3 20] [10, 30]))
      (some (.metaSlab (trMeta (ms 4 40 12 [hd 5 5, hd 6 7] [5, 12])))) =
    some (none, trMeta (ms 1 68 42 [hd 2 10, hd 3 20, hd 5 5, hd 6 7] [10, 30, 35, 42]),
          some (.metaSlab { trMeta (ms 4 40 12 [hd 5 5, hd 6 7] [5, 12]) with
            childrenHeaders := [TransSl.ArraySlabHeader.zero, TransSl.ArraySlabHeader.zero] })) := by rfl

/-- `LendToRight` 4 + 2: one header moves -/
example :
    TransSl.ArrayMetaDataSlab_LendToRight (envA 1024 (fun _ => none))
      (trMeta (ms 1 68 100 [hd 2 10, hd 3 20, hd 4 30, hd 5 40] [10, 30, 60, 100]))
      (some (.metaSlab (trMeta (ms 6 40 12 [hd 7 5, hd 8 7] [5, 12])))) =
    some (none, trMeta (ms 1 54 60 [hd 2 10, hd 3 20, hd 4 30] [10, 30, 60]),
          some (.metaSlab (trMeta (ms 6 54 52 [hd 5 40, hd 7 5, hd 8 7] [40, 45, 52])))) := by rfl

/-- `BorrowFromRight` 2 + 4: one header moves -/
example :
    TransSl.ArrayMetaDataSlab_BorrowFromRight (envA 1024 (fun _ => none))
      (trMeta (ms 1 40 30 [hd 2 10, hd 3 20] [10, 30]))
      (some (.metaSlab (trMeta (ms 6 68 100 [hd 7 40, hd 8 30, hd 9 20, hd 10 10] [40, 70, 90, 100])))) =
    some (none, trMeta (ms 1 54 70 [hd 2 10, hd 3 20, hd 7 40] [10, 30, 70]),
          some (.metaSlab (trMeta (ms 6 54 60 [hd 8 30, hd 9 20, hd 10 10] [30, 50, 60])))) := by rfl

/-- `updateChildrenHeadersAfterMerge`: children 1 and 2 of three were merged into a slab of 50 elements -/
example :
    TransSl.ArrayMetaDataSlab_updateChildrenHeadersAfterMerge (envA 1024 (fun _ => none))
      (trMeta (ms 1 54 60 [hd 2 10, hd 3 20, hd 4 30] [10, 30, 60])) (trHdr (hd 3 50)) 1 2 =
    some (trMeta (ms 1 54 60 [hd 2 10, hd 3 50] [10, 60])) := by rfl

/-- an index out of range is a Go panic -/
example :
    TransSl.ArrayMetaDataSlab_updateChildrenHeadersAfterMerge (envA 1024 (fun _ => none))
      (trMeta (ms 1 54 60 [hd 2 10, hd 3 20, hd 4 30] [10, 30, 60])) (trHdr (hd 3 50)) 2 3 = none := by rfl

/-- the hypotheses of the theorems hold on these slabs (the theorems are not vacuous) -/
example :
    TransSl.ArrayMetaDataSlab_Split (envA 1024 (fun _ => none))
      (trMeta (ms 1 82 150 [hd 2 10, hd 3 20, hd 4 30, hd 5 40, hd 6 50] [10, 30, 60, 100, 150])) ⟨7, [], []⟩ =
    some (some (.metaSlab (trMeta (ms 1 54 60 [hd 2 10, hd 3 20, hd 4 30] [10, 30, 60]))),
          some (.metaSlab (trMeta (ms 8 40 90 [hd 5 40, hd 6 50] [40, 90]))), none,
          trMeta (ms 1 54 60 [hd 2 10, hd 3 20, hd 4 30] [10, 30, 60]), ⟨8, [.alloc 1 ⟨1, 8⟩], []⟩) :=
  (Sl_ArrayMetaDataSlab_Split_eq_model 1024 _ _ _ (by decide) (by decide) (by decide)).trans rfl
example :
    TransSl.ArrayMetaDataSlab_Merge (envA 1024 (fun _ => none)) (trMeta (ms 1 40 30 [hd 2 10, hd 3 20] [10, 30]))
      (some (.metaSlab (trMeta (ms 4 40 12 [hd 5 5, hd 6 7] [5, 12])))) =
    some (none, trMeta (ms 1 68 42 [hd 2 10, hd 3 20, hd 5 5, hd 6 7] [10, 30, 35, 42]),
          some (.metaSlab { trMeta (ms 4 40 12 [hd 5 5, hd 6 7] [5, 12]) with
            childrenHeaders := [default, default] })) :=
  (Sl_ArrayMetaDataSlab_Merge_eq_model 1024 _ _ _ (by decide) (by decide)).trans rfl
example :
    TransSl.ArrayMetaDataSlab_LendToRight (envA 1024 (fun _ => none))
      (trMeta (ms 1 68 100 [hd 2 10, hd 3 20, hd 4 30, hd 5 40] [10, 30, 60, 100]))
      (some (.metaSlab (trMeta (ms 6 40 12 [hd 7 5, hd 8 7] [5, 12])))) =
    some (none, trMeta (ms 1 54 60 [hd 2 10, hd 3 20, hd 4 30] [10, 30, 60]),
          some (.metaSlab (trMeta (ms 6 54 52 [hd 5 40, hd 7 5, hd 8 7] [40, 45, 52])))) :=
  (Sl_ArrayMetaDataSlab_LendToRight_eq_model 1024 _ _ _ (by decide) (by decide)).trans rfl
example :
    TransSl.ArrayMetaDataSlab_BorrowFromRight (envA 1024 (fun _ => none))
      (trMeta (ms 1 40 30 [hd 2 10, hd 3 20] [10, 30]))
      (some (.metaSlab (trMeta (ms 6 68 100 [hd 7 40, hd 8 30, hd 9 20, hd 10 10] [40, 70, 90, 100])))) =
    some (none, trMeta (ms 1 54 70 [hd 2 10, hd 3 20, hd 7 40] [10, 30, 70]),
          some (.metaSlab (trMeta (ms 6 54 60 [hd 8 30, hd 9 20, hd 10 10] [30, 50, 60])))) :=
  (Sl_ArrayMetaDataSlab_BorrowFromRight_eq_model 1024 _ _ _ (by decide) (by decide)).trans rfl
example :
    TransSl.ArrayMetaDataSlab_updateChildrenHeadersAfterMerge (envA 1024 (fun _ => none))
      (trMeta (ms 1 54 60 [hd 2 10, hd 3 20, hd 4 30] [10, 30, 60])) (trHdr (hd 3 50)) (Int.ofNat 1) (Int.ofNat 2) =
    some (trMeta (ms 1 54 60 [hd 2 10, hd 3 50] [10, 60])) :=
  (Sl_updateChildrenHeadersAfterMerge_eq_model 1024 _ _ _ 1 2 (by decide) (by decide) (by decide) (by decide)).trans rfl

/-- the empty left slab of `Sl_ArrayMetaDataSlab_Merge_differs_at`: Go panics, the model returns a slab -/
example :
    TransSl.ArrayMetaDataSlab_Merge (envA 1024 (fun _ => none)) (trMeta (ms 1 12 0 [] []))
      (some (.metaSlab (trMeta (ms 4 40 12 [hd 5 5, hd 6 7] [5, 12])))) = none ∧
    (MetaSlab.merge (ms 1 12 0 [] []) (ms 4 40 12 [hd 5 5, hd 6 7] [5, 12])).countSum = [5, 12] := ⟨rfl, rfl⟩

/-! ## where Go and the `Nat` model differ (inputs excluded by the hypotheses; no valid slab / no caller reaches them) -/

/-- `LendToRight` when the RIGHT slab is the larger one (1 + 3 headers): `moveCount = -1`, Go panics in
    `lendToRight` (slice bounds); the model (`take` / `drop` beyond the end) returns slabs -/
example :
    TransSl.ArrayMetaDataSlab_LendToRight (envA 1024 (fun _ => none)) (trMeta (ms 1 26 10 [hd 2 10] [10]))
      (some (.metaSlab (trMeta (ms 6 54 60 [hd 7 10, hd 8 20, hd 9 30] [10, 30, 60])))) = none ∧
    ((MetaSlab.lendToRight (ms 1 26 10 [hd 2 10] [10]) (ms 6 54 60 [hd 7 10, hd 8 20, hd 9 30] [10, 30, 60])).2).hdr.size
      = 54 := ⟨rfl, rfl⟩

/-- `BorrowFromRight` when the LEFT slab is the larger one (3 + 1 headers): `moveCount = -1`, Go panics
    (`right[:count]`); the model moves nothing -/
example :
    TransSl.ArrayMetaDataSlab_BorrowFromRight (envA 1024 (fun _ => none))
      (trMeta (ms 6 54 60 [hd 7 10, hd 8 20, hd 9 30] [10, 30, 60]))
      (some (.metaSlab (trMeta (ms 1 26 10 [hd 2 10] [10])))) = none ∧
    ((MetaSlab.borrowFromRight (ms 6 54 60 [hd 7 10, hd 8 20, hd 9 30] [10, 30, 60]) (ms 1 26 10 [hd 2 10] [10])).1).childHdrs.length
      = 3 := ⟨rfl, rfl⟩

/-- `Split` of a slab whose header count (5) is SMALLER than the counts that stay left (10 + 20): Go's `uint32`
    subtraction wraps (`2^32 - 25`), the model's truncates (0) -/
example :
    (TransSl.ArrayMetaDataSlab_Split (envA 1024 (fun _ => none))
      (trMeta (ms 1 54 5 [hd 2 10, hd 3 20, hd 4 30] [10, 30, 60])) ⟨7, [], []⟩) =
    some (some (.metaSlab (trMeta (ms 1 40 30 [hd 2 10, hd 3 20] [10, 30]))),
          some (.metaSlab (trMeta (ms 8 26 (2^32 - 25) [hd 4 30] [30]))), none,
          trMeta (ms 1 40 30 [hd 2 10, hd 3 20] [10, 30]), ⟨8, [.alloc 1 ⟨1, 8⟩], []⟩) ∧
    (MetaSlab.split (ms 1 54 5 [hd 2 10, hd 3 20, hd 4 30] [10, 30, 60]) ⟨7, [], []⟩).toOption.map (·.2.1.hdr.count)
      = some 0 := ⟨rfl, rfl⟩

end Atree.TransEq
